import SynKitModel.Views
/-!
# Species-graph round trip (`hypergraph_to_species_graph` / `species_graph_to_hypergraph`)

Proof of `SynKit.Views.Sp.species_roundtrip'`.

Architecture
1. The exporter is a left fold of one-pair `Step`s; the arc list satisfies `ArcInv`.
2. `edgesIter` has the same members as `edges` (every arc source is a node).
3. The importer's first pass is a left fold of `updEntry` over `(arc, id)` pairs; the entry
   list satisfies `EntInv`.
4. `materialise` succeeds and maps entries to reactions.
-/
open SynKit SynKit.Views

namespace SynKit.Views.Sp

/-! ## 0. Small list / dict facts -/

theorem nodup_of_map_nodup {α β : Type} (f : α → β) (l : List α) (h : (l.map f).Nodup) : l.Nodup := by
  unfold List.Nodup at h ⊢
  rw [List.pairwise_map] at h
  exact h.imp (fun hab hEq => hab (by rw [hEq]))

theorem setAdd_ne_nil (s : List String) (x : String) : setAdd s x ≠ [] := by
  intro h
  have : x ∈ setAdd s x := (mem_setAdd s x x).2 (Or.inr rfl)
  rw [h] at this; cases this

theorem dict_set_absent {α : Type} (d : Dict α) (k : String) (v : α) (h : k ∉ d.keys) :
    d.set k v = d ++ [(k, v)] := by
  induction d with
  | nil => rfl
  | cons p rest ih =>
    obtain ⟨k', v'⟩ := p
    simp only [Dict.keys, List.map_cons, List.mem_cons, not_or] at h
    have hne : k' ≠ k := fun e => h.1 e.symm
    simp only [Dict.set, hne, if_false, List.cons_append]
    rw [ih h.2]

theorem dict_keys_append {α : Type} (d e : Dict α) : Dict.keys (d ++ e) = d.keys ++ e.keys := by
  simp [Dict.keys]

theorem mem_keys_of_mem {α : Type} (d : Dict α) (k : String) (v : α) (h : (k, v) ∈ d) : k ∈ d.keys :=
  List.mem_map.2 ⟨(k, v), h, rfl⟩

theorem exists_mem_of_mem_keys {α : Type} (d : Dict α) (k : String) (h : k ∈ d.keys) : ∃ v, (k, v) ∈ d := by
  obtain ⟨⟨k', v⟩, hp, rfl⟩ := List.mem_map.1 h
  exact ⟨v, hp⟩

theorem dict_val_unique {α : Type} (d : Dict α) (k : String) (v w : α) (hn : d.keys.Nodup)
    (h1 : (k, v) ∈ d) (h2 : (k, w) ∈ d) : v = w := by
  have a := Dict.mem_get?_of_nodup d k v hn h1
  have b := Dict.mem_get?_of_nodup d k w hn h2
  rw [a] at b; exact Option.some.inj b

/-! ## 1. Exporter -/

/-- One `(reactant, product)` pair of one reaction. -/
structure Step where
  r : String
  p : String
  eid : String
  rule : String
  rc : Nat
  pc : Nat

def stepsOf (e : Rxn) : List Step :=
  e.reactants.flatMap fun rk => e.products.map fun pk => ⟨rk.1, pk.1, e.id, e.rule, rk.2, pk.2⟩

def stepG (g : SGraph) (t : Step) : SGraph :=
  { nodes := touchNode (touchNode g.nodes t.r) t.p,
    edges := upsertArc g.edges t.r t.p t.eid t.rule t.rc t.pc }

theorem addArcs_eq (g : SGraph) (e : Rxn) : addArcs g e = (stepsOf e).foldl stepG g := by
  unfold addArcs stepsOf
  rw [List.foldl_flatMap]
  congr 1
  funext g rk
  rw [List.foldl_map]
  rfl

theorem toSpeciesGraph_eq (b : Bool) (N : Net) :
    toSpeciesGraph b N = (N.rxns.flatMap stepsOf).foldl stepG
      { nodes := N.species.map fun s => (⟨s, some s, if b then N.mol.get? s else none⟩ : SNode), edges := [] } := by
  unfold toSpeciesGraph
  rw [List.foldl_flatMap]
  have : addArcs = fun acc x => List.foldl stepG acc (stepsOf x) := by
    funext g e
    exact addArcs_eq g e
  rw [this]

theorem mem_stepsOf (e : Rxn) (t : Step) :
    t ∈ stepsOf e ↔ t.eid = e.id ∧ t.rule = e.rule ∧ (t.r, t.rc) ∈ e.reactants ∧ (t.p, t.pc) ∈ e.products := by
  unfold stepsOf
  simp only [List.mem_flatMap, List.mem_map]
  constructor
  · rintro ⟨rk, hrk, pk, hpk, rfl⟩
    exact ⟨rfl, rfl, hrk, hpk⟩
  · rintro ⟨h1, h2, h3, h4⟩
    refine ⟨(t.r, t.rc), h3, (t.p, t.pc), h4, ?_⟩
    cases t; simp_all

/-! ### One `upsertArc` step -/

def stepE (es : List SEdge) (t : Step) : List SEdge := upsertArc es t.r t.p t.eid t.rule t.rc t.pc

def updArc (a : SEdge) (t : Step) : SEdge :=
  { a with via := setAdd a.via t.eid, rules := setAdd a.rules t.rule,
           rMap := a.rMap.set t.eid t.rc, pMap := a.pMap.set t.eid t.pc,
           stoichR := min a.stoichR t.rc, stoichP := min a.stoichP t.pc }

def newArc (t : Step) : SEdge := ⟨t.r, t.p, [t.eid], [t.rule], t.rc, t.pc, [(t.eid, t.rc)], [(t.eid, t.pc)]⟩

def fArc (t : Step) (a : SEdge) : SEdge := if a.src = t.r ∧ a.dst = t.p then updArc a t else a

def Distinct (es : List SEdge) : Prop := es.Pairwise (fun a b => ¬(a.src = b.src ∧ a.dst = b.dst))

theorem fArc_src (t : Step) (a : SEdge) : (fArc t a).src = a.src := by
  unfold fArc; split <;> rfl

theorem fArc_dst (t : Step) (a : SEdge) : (fArc t a).dst = a.dst := by
  unfold fArc; split <;> rfl

theorem fArc_rules (t : Step) (a : SEdge) (s : String) : s ∈ a.rules → s ∈ (fArc t a).rules := by
  unfold fArc; split
  · intro h; exact (mem_setAdd _ _ _).2 (Or.inl h)
  · exact id

theorem mem_via_fArc (t : Step) (a : SEdge) (eid : String) :
    eid ∈ (fArc t a).via ↔ eid ∈ a.via ∨ (a.src = t.r ∧ a.dst = t.p ∧ eid = t.eid) := by
  unfold fArc; split
  · next h =>
    show eid ∈ setAdd a.via t.eid ↔ _
    rw [mem_setAdd]
    constructor
    · rintro (h1 | h1)
      · exact Or.inl h1
      · exact Or.inr ⟨h.1, h.2, h1⟩
    · rintro (h1 | h1)
      · exact Or.inl h1
      · exact Or.inr h1.2.2
  · next h =>
    constructor
    · exact Or.inl
    · rintro (h1 | h1)
      · exact h1
      · exact absurd ⟨h1.1, h1.2.1⟩ h

theorem via_fArc_ne (t : Step) (a : SEdge) (h : a.via ≠ []) : (fArc t a).via ≠ [] := by
  unfold fArc; split
  · exact setAdd_ne_nil _ _
  · exact h

theorem rMap_fArc (t : Step) (a : SEdge) (eid : String) :
    (fArc t a).rMap.get? eid =
      if a.src = t.r ∧ a.dst = t.p ∧ eid = t.eid then some t.rc else a.rMap.get? eid := by
  unfold fArc
  by_cases h : a.src = t.r ∧ a.dst = t.p
  · rw [if_pos h]
    show (a.rMap.set t.eid t.rc).get? eid = _
    by_cases h2 : eid = t.eid
    · rw [if_pos ⟨h.1, h.2, h2⟩, h2, Dict.get?_set_self]
    · rw [if_neg (fun hh => h2 hh.2.2), Dict.get?_set_other _ _ _ _ h2]
  · rw [if_neg h, if_neg (fun hh => h ⟨hh.1, hh.2.1⟩)]

theorem pMap_fArc (t : Step) (a : SEdge) (eid : String) :
    (fArc t a).pMap.get? eid =
      if a.src = t.r ∧ a.dst = t.p ∧ eid = t.eid then some t.pc else a.pMap.get? eid := by
  unfold fArc
  by_cases h : a.src = t.r ∧ a.dst = t.p
  · rw [if_pos h]
    show (a.pMap.set t.eid t.pc).get? eid = _
    by_cases h2 : eid = t.eid
    · rw [if_pos ⟨h.1, h.2, h2⟩, h2, Dict.get?_set_self]
    · rw [if_neg (fun hh => h2 hh.2.2), Dict.get?_set_other _ _ _ _ h2]
  · rw [if_neg h, if_neg (fun hh => h ⟨hh.1, hh.2.1⟩)]

theorem stepE_eq (es : List SEdge) (t : Step) (hD : Distinct es) :
    stepE es t = es.map (fArc t) ++
      (if es.any (fun a => decide (a.src = t.r ∧ a.dst = t.p)) then [] else [newArc t]) := by
  induction es with
  | nil => rfl
  | cons a rest ih =>
    unfold Distinct at hD
    rw [List.pairwise_cons] at hD
    unfold stepE at ih ⊢
    unfold upsertArc
    by_cases h : a.src = t.r ∧ a.dst = t.p
    · rw [if_pos h]
      have hrest : rest.map (fArc t) = rest := by
        rw [List.map_congr_left (g := id), List.map_id]
        intro b hb
        unfold fArc
        rw [if_neg]; rfl
        intro hb2
        exact hD.1 b hb ⟨h.1.trans hb2.1.symm, h.2.trans hb2.2.symm⟩
      simp only [List.map_cons, List.any_cons, h, and_self, decide_true, Bool.true_or, if_true,
        List.append_nil, hrest, fArc, updArc]
    · rw [if_neg h, ih hD.2]
      simp only [List.map_cons, List.any_cons, h, decide_false, Bool.false_or, fArc, if_false,
        List.cons_append]

/-! ### The arc invariant -/

/-- Steps with the same `(r, p, eid)` carry the same coefficients. -/
def Functional (L : List Step) : Prop :=
  ∀ t ∈ L, ∀ t' ∈ L, t.r = t'.r → t.p = t'.p → t.eid = t'.eid → t.rc = t'.rc ∧ t.pc = t'.pc

structure ArcInv (L : List Step) (es : List SEdge) : Prop where
  distinct : Distinct es
  via_iff : ∀ a ∈ es, ∀ eid, eid ∈ a.via ↔ ∃ t ∈ L, t.r = a.src ∧ t.p = a.dst ∧ t.eid = eid
  via_ne : ∀ a ∈ es, a.via ≠ []
  maps : ∀ a ∈ es, ∀ t ∈ L, t.r = a.src → t.p = a.dst →
    a.rMap.get? t.eid = some t.rc ∧ a.pMap.get? t.eid = some t.pc
  cover : ∀ t ∈ L, ∃ a ∈ es, a.src = t.r ∧ a.dst = t.p

theorem arcInv_step (L : List Step) (es : List SEdge) (t : Step)
    (hF : Functional (L ++ [t])) (h : ArcInv L es) : ArcInv (L ++ [t]) (stepE es t) := by
  rw [stepE_eq es t h.distinct]
  have hmemL : ∀ t', t' ∈ L ++ [t] ↔ t' ∈ L ∨ t' = t := by
    intro t'; simp only [List.mem_append, List.mem_singleton]
  by_cases hany : es.any (fun a => decide (a.src = t.r ∧ a.dst = t.p)) = true
  · -- an arc is hit
    rw [if_pos hany, List.append_nil]
    rw [List.any_eq_true] at hany
    obtain ⟨a0, ha0, hhit0⟩ := hany
    rw [decide_eq_true_iff] at hhit0
    refine ⟨?_, ?_, ?_, ?_, ?_⟩
    · unfold Distinct
      rw [List.pairwise_map]
      exact h.distinct.imp (fun hab => by simpa only [fArc_src, fArc_dst] using hab)
    · intro b hb eid
      obtain ⟨a, ha, rfl⟩ := List.mem_map.1 hb
      rw [mem_via_fArc, h.via_iff a ha, fArc_src, fArc_dst]
      constructor
      · rintro (⟨t', ht', h1⟩ | ⟨h1, h2, h3⟩)
        · exact ⟨t', (hmemL t').2 (Or.inl ht'), h1⟩
        · exact ⟨t, (hmemL t).2 (Or.inr rfl), h1.symm, h2.symm, h3.symm⟩
      · rintro ⟨t', ht', h1⟩
        rcases (hmemL t').1 ht' with ht' | rfl
        · exact Or.inl ⟨t', ht', h1⟩
        · exact Or.inr ⟨h1.1.symm, h1.2.1.symm, h1.2.2.symm⟩
    · intro b hb
      obtain ⟨a, ha, rfl⟩ := List.mem_map.1 hb
      exact via_fArc_ne t a (h.via_ne a ha)
    · intro b hb t' ht' h1 h2
      obtain ⟨a, ha, rfl⟩ := List.mem_map.1 hb
      rw [fArc_src] at h1; rw [fArc_dst] at h2
      rw [rMap_fArc, pMap_fArc]
      by_cases hc : a.src = t.r ∧ a.dst = t.p ∧ t'.eid = t.eid
      · rw [if_pos hc, if_pos hc]
        have := hF t' ht' t ((hmemL t).2 (Or.inr rfl)) (h1.trans hc.1) (h2.trans hc.2.1) hc.2.2
        rw [this.1, this.2]; exact ⟨rfl, rfl⟩
      · rw [if_neg hc, if_neg hc]
        rcases (hmemL t').1 ht' with ht' | rfl
        · exact h.maps a ha t' ht' h1 h2
        · exact absurd ⟨h1.symm, h2.symm, rfl⟩ hc
    · intro t' ht'
      rcases (hmemL t').1 ht' with ht' | rfl
      · obtain ⟨a, ha, h1⟩ := h.cover t' ht'
        exact ⟨fArc t a, List.mem_map.2 ⟨a, ha, rfl⟩, by rw [fArc_src, fArc_dst]; exact h1⟩
      · exact ⟨fArc t' a0, List.mem_map.2 ⟨a0, ha0, rfl⟩, by rw [fArc_src, fArc_dst]; exact hhit0⟩
  · -- no arc is hit: a fresh arc is appended
    rw [if_neg hany]
    have hmiss : ∀ a ∈ es, ¬(a.src = t.r ∧ a.dst = t.p) := by
      intro a ha hh
      exact hany (List.any_eq_true.2 ⟨a, ha, decide_eq_true hh⟩)
    have hmap : es.map (fArc t) = es := by
      rw [List.map_congr_left (g := id), List.map_id]
      intro b hb
      unfold fArc
      rw [if_neg (hmiss b hb)]; rfl
    rw [hmap]
    have hmem : ∀ b, b ∈ es ++ [newArc t] ↔ b ∈ es ∨ b = newArc t := by
      intro b; simp only [List.mem_append, List.mem_singleton]
    refine ⟨?_, ?_, ?_, ?_, ?_⟩
    · unfold Distinct
      rw [List.pairwise_append]
      refine ⟨h.distinct, List.pairwise_singleton _ _, ?_⟩
      intro a ha b hb
      rw [List.mem_singleton] at hb; subst hb
      exact hmiss a ha
    · intro b hb eid
      rcases (hmem b).1 hb with hb' | rfl
      · rw [h.via_iff b hb']
        constructor
        · rintro ⟨t', ht', h1⟩
          exact ⟨t', (hmemL t').2 (Or.inl ht'), h1⟩
        · rintro ⟨t', ht', h1⟩
          rcases (hmemL t').1 ht' with ht' | rfl
          · exact ⟨t', ht', h1⟩
          · exact absurd ⟨h1.1.symm, h1.2.1.symm⟩ (hmiss b hb')
      · show eid ∈ [t.eid] ↔ _
        rw [List.mem_singleton]
        constructor
        · intro h1; exact ⟨t, (hmemL t).2 (Or.inr rfl), rfl, rfl, h1.symm⟩
        · rintro ⟨t', ht', h1, h2, h3⟩
          rcases (hmemL t').1 ht' with ht' | rfl
          · obtain ⟨a, ha, h4⟩ := h.cover t' ht'
            exact absurd ⟨h4.1.trans h1, h4.2.trans h2⟩ (hmiss a ha)
          · exact h3.symm
    · intro b hb
      rcases (hmem b).1 hb with hb | rfl
      · exact h.via_ne b hb
      · exact List.cons_ne_nil _ _
    · intro b hb t' ht' h1 h2
      rcases (hmem b).1 hb with hb' | rfl
      · rcases (hmemL t').1 ht' with ht' | rfl
        · exact h.maps b hb' t' ht' h1 h2
        · exact absurd ⟨h1.symm, h2.symm⟩ (hmiss b hb')
      · have h1' : t'.r = t.r := h1
        have h2' : t'.p = t.p := h2
        rcases (hmemL t').1 ht' with ht' | rfl
        · obtain ⟨a, ha, h4⟩ := h.cover t' ht'
          exact absurd ⟨h4.1.trans h1', h4.2.trans h2'⟩ (hmiss a ha)
        · exact ⟨by simp [newArc, Dict.get?], by simp [newArc, Dict.get?]⟩
    · intro t' ht'
      rcases (hmemL t').1 ht' with ht' | rfl
      · obtain ⟨a, ha, h1⟩ := h.cover t' ht'
        exact ⟨a, (hmem a).2 (Or.inl ha), h1⟩
      · exact ⟨newArc t', (hmem _).2 (Or.inr rfl), rfl, rfl⟩

theorem arcInv_fold_aux (L : List Step) : ∀ (L0 : List Step) (es : List SEdge),
    ArcInv L0 es → Functional (L0 ++ L) → ArcInv (L0 ++ L) (L.foldl stepE es) := by
  induction L with
  | nil => intro L0 es h _; simpa using h
  | cons t rest ih =>
    intro L0 es h hF
    have e : L0 ++ t :: rest = (L0 ++ [t]) ++ rest := by simp
    rw [e] at hF ⊢
    rw [List.foldl_cons]
    apply ih _ _ _ hF
    apply arcInv_step _ _ _ _ h
    intro a ha b hb
    exact hF a (List.mem_append_left _ ha) b (List.mem_append_left _ hb)

theorem arcInv_fold (L : List Step) (hF : Functional L) : ArcInv L (L.foldl stepE []) := by
  have := arcInv_fold_aux L [] [] ⟨List.Pairwise.nil, by simp, by simp, by simp, by simp⟩ (by simpa using hF)
  simpa using this

/-! ### Nodes of the exported graph -/

def stepN (ns : List SNode) (t : Step) : List SNode := touchNode (touchNode ns t.r) t.p

theorem foldl_stepG_edges (L : List Step) : ∀ g : SGraph, (L.foldl stepG g).edges = L.foldl stepE g.edges := by
  induction L with
  | nil => intro g; rfl
  | cons t rest ih => intro g; rw [List.foldl_cons, List.foldl_cons, ih]; rfl

theorem foldl_stepG_nodes (L : List Step) : ∀ g : SGraph, (L.foldl stepG g).nodes = L.foldl stepN g.nodes := by
  induction L with
  | nil => intro g; rfl
  | cons t rest ih => intro g; rw [List.foldl_cons, List.foldl_cons, ih]; rfl

/-- Every node is labelled by its own id (or unlabelled). -/
def NodeOK (ns : List SNode) : Prop := ∀ n ∈ ns, n.label.getD n.id = n.id

def HasId (ns : List SNode) (i : String) : Prop := ∃ n ∈ ns, n.id = i

theorem touchNode_ok (ns : List SNode) (i : String) (h : NodeOK ns) : NodeOK (touchNode ns i) := by
  unfold touchNode; split
  · exact h
  · intro n hn
    rcases List.mem_append.1 hn with hn | hn
    · exact h n hn
    · rw [List.mem_singleton] at hn; subst hn; rfl

theorem touchNode_mono (ns : List SNode) (i j : String) (h : HasId ns j) : HasId (touchNode ns i) j := by
  unfold touchNode; split
  · exact h
  · obtain ⟨n, hn, hj⟩ := h
    exact ⟨n, List.mem_append_left _ hn, hj⟩

theorem touchNode_has (ns : List SNode) (i : String) : HasId (touchNode ns i) i := by
  unfold touchNode; split
  · next h =>
    obtain ⟨n, hn, h2⟩ := List.any_eq_true.1 h
    exact ⟨n, hn, of_decide_eq_true h2⟩
  · exact ⟨⟨i, none, none⟩, List.mem_append_right _ (List.mem_singleton.2 rfl), rfl⟩

theorem nodes_fold (L : List Step) : ∀ ns : List SNode, NodeOK ns →
    NodeOK (L.foldl stepN ns) ∧ (∀ i, HasId ns i → HasId (L.foldl stepN ns) i) ∧
      ∀ t ∈ L, HasId (L.foldl stepN ns) t.r := by
  induction L with
  | nil => intro ns h; exact ⟨h, fun _ hi => hi, fun t ht => nomatch ht⟩
  | cons t rest ih =>
    intro ns h
    rw [List.foldl_cons]
    have h1 : NodeOK (stepN ns t) := touchNode_ok _ _ (touchNode_ok _ _ h)
    obtain ⟨a, b, c⟩ := ih (stepN ns t) h1
    refine ⟨a, ?_, ?_⟩
    · intro i hi
      exact b i (touchNode_mono _ _ _ (touchNode_mono _ _ _ hi))
    · intro t' ht'
      rcases List.mem_cons.1 ht' with rfl | ht'
      · exact b _ (touchNode_mono _ _ _ (touchNode_has _ _))
      · exact c t' ht'

theorem labelOf_eq (g : SGraph) (h : NodeOK g.nodes) (i : String) : g.labelOf i = i := by
  unfold SGraph.labelOf
  split
  · next n hn =>
    have h1 := List.mem_of_find?_eq_some hn
    have h2 := List.find?_some hn
    have h3 : n.id = i := of_decide_eq_true h2
    rw [← h3]; exact h n h1
  · rfl

theorem mem_edgesIter (g : SGraph) (a : SEdge) :
    a ∈ g.edgesIter ↔ a ∈ g.edges ∧ HasId g.nodes a.src := by
  unfold SGraph.edgesIter HasId
  simp only [List.mem_flatMap, List.mem_filter, decide_eq_true_eq]
  constructor
  · rintro ⟨n, hn, ha, h⟩; exact ⟨ha, n, hn, h.symm⟩
  · rintro ⟨ha, n, hn, h⟩; exact ⟨n, hn, ha, h.symm⟩

/-! ## 2. Importer, first pass -/

structure MStep where
  eid : String
  sr : String
  sp : String
  cr : Nat
  cp : Nat
  rules : List String

def stepU (es : List Entry) (m : MStep) : List Entry := updEntry es m.eid m.sr m.sp m.cr m.cp m.rules

def mstepsOf (a : SEdge) : List MStep :=
  a.via.map fun eid => ⟨eid, a.src, a.dst, (a.rMap.get? eid).getD a.stoichR, (a.pMap.get? eid).getD a.stoichP, a.rules⟩

theorem foldl_ext_mem {α β : Type} (f g : β → α → β) (l : List α) :
    ∀ b : β, (∀ acc, ∀ x ∈ l, f acc x = g acc x) → l.foldl f b = l.foldl g b := by
  induction l with
  | nil => intro b _; rfl
  | cons x rest ih =>
    intro b h
    rw [List.foldl_cons, List.foldl_cons, h b x List.mem_cons_self]
    exact ih _ (fun acc y hy => h acc y (List.mem_cons_of_mem _ hy))

theorem collectEntries_eq (genArc : GenArc) (g : SGraph) (hN : NodeOK g.nodes)
    (hv : ∀ a ∈ g.edgesIter, a.via ≠ []) :
    collectEntries genArc g = (g.edgesIter.flatMap mstepsOf).foldl stepU [] := by
  unfold collectEntries
  rw [List.foldl_flatMap]
  apply foldl_ext_mem
  intro acc a ha
  have hv' : a.via.isEmpty = false := by
    cases hvia : a.via with
    | nil => exact absurd hvia (hv a ha)
    | cons _ _ => rfl
  simp only [hv', labelOf_eq g hN, mstepsOf, List.foldl_map, stepU, Bool.false_eq_true, if_false]

/-! ### One `updEntry` step -/

theorem setIfAbsent_sub (m : Side) (k : String) (c : Nat) (p : String × Nat) (h : p ∈ m) :
    p ∈ setIfAbsent m k c := by
  unfold setIfAbsent; split
  · exact h
  · exact List.mem_append_left _ h

theorem mem_setIfAbsent (m : Side) (k : String) (c : Nat) (p : String × Nat) (h : p ∈ setIfAbsent m k c) :
    p ∈ m ∨ p = (k, c) := by
  unfold setIfAbsent at h; split at h
  · exact Or.inl h
  · rcases List.mem_append.1 h with h | h
    · exact Or.inl h
    · exact Or.inr (List.mem_singleton.1 h)

theorem setIfAbsent_key (m : Side) (k : String) (c : Nat) : k ∈ (setIfAbsent m k c).keys := by
  unfold setIfAbsent; split
  · next h => exact of_decide_eq_true h
  · rw [dict_keys_append]; exact List.mem_append_right _ (List.mem_singleton.2 rfl)

theorem setIfAbsent_nodup (m : Side) (k : String) (c : Nat) (h : m.keys.Nodup) :
    (setIfAbsent m k c).keys.Nodup := by
  unfold setIfAbsent; split
  · exact h
  · next hk =>
    have hk' : k ∉ m.keys := fun hh => hk (decide_eq_true hh)
    rw [dict_keys_append]
    unfold List.Nodup
    rw [List.pairwise_append]
    refine ⟨h, List.pairwise_singleton _ _, ?_⟩
    intro a ha b hb
    have : b = k := List.mem_singleton.1 hb
    rw [this]
    intro hab; exact hk' (hab ▸ ha)

theorem setIfAbsent_ne_nil (m : Side) (k : String) (c : Nat) : setIfAbsent m k c ≠ [] := by
  intro h
  have := setIfAbsent_key m k c
  rw [h] at this; cases this

def updEnt (x : Entry) (m : MStep) : Entry :=
  { x with reactants := setIfAbsent x.reactants m.sr m.cr, products := setIfAbsent x.products m.sp m.cp,
           rules := m.rules.foldl setAdd x.rules }

def newEnt (m : MStep) : Entry := ⟨m.eid, [(m.sr, m.cr)], [(m.sp, m.cp)], m.rules.foldl setAdd []⟩

def fEnt (m : MStep) (x : Entry) : Entry := if x.eid = m.eid then updEnt x m else x

theorem fEnt_eid (m : MStep) (x : Entry) : (fEnt m x).eid = x.eid := by
  unfold fEnt; split <;> rfl

theorem stepU_eq (es : List Entry) (m : MStep) (hD : (es.map (·.eid)).Nodup) :
    stepU es m = es.map (fEnt m) ++
      (if es.any (fun x => decide (x.eid = m.eid)) then [] else [newEnt m]) := by
  induction es with
  | nil => rfl
  | cons x rest ih =>
    rw [List.map_cons, List.nodup_cons] at hD
    unfold stepU at ih ⊢
    unfold updEntry
    by_cases h : x.eid = m.eid
    · rw [if_pos h]
      have hrest : rest.map (fEnt m) = rest := by
        rw [List.map_congr_left (g := id), List.map_id]
        intro y hy
        unfold fEnt
        rw [if_neg]; rfl
        intro hy2
        exact hD.1 (List.mem_map.2 ⟨y, hy, hy2.trans h.symm⟩)
      simp only [List.map_cons, List.any_cons, h, decide_true, Bool.true_or, if_true,
        List.append_nil, hrest, fEnt, updEnt]
    · rw [if_neg h, ih hD.2]
      simp only [List.map_cons, List.any_cons, h, decide_false, Bool.false_or, fEnt, if_false,
        List.cons_append]

theorem fEnt_keys (m : MStep) (x : Entry) (h : x.reactants.keys.Nodup ∧ x.products.keys.Nodup) :
    (fEnt m x).reactants.keys.Nodup ∧ (fEnt m x).products.keys.Nodup := by
  unfold fEnt; split
  · exact ⟨setIfAbsent_nodup _ _ _ h.1, setIfAbsent_nodup _ _ _ h.2⟩
  · exact h

theorem fEnt_mem_R (m : MStep) (x : Entry) (p : String × Nat) (h : p ∈ (fEnt m x).reactants) :
    p ∈ x.reactants ∨ (x.eid = m.eid ∧ p = (m.sr, m.cr)) := by
  unfold fEnt at h; split at h
  · next he =>
    rcases mem_setIfAbsent _ _ _ _ h with h | h
    · exact Or.inl h
    · exact Or.inr ⟨he, h⟩
  · exact Or.inl h

theorem fEnt_mem_P (m : MStep) (x : Entry) (p : String × Nat) (h : p ∈ (fEnt m x).products) :
    p ∈ x.products ∨ (x.eid = m.eid ∧ p = (m.sp, m.cp)) := by
  unfold fEnt at h; split at h
  · next he =>
    rcases mem_setIfAbsent _ _ _ _ h with h | h
    · exact Or.inl h
    · exact Or.inr ⟨he, h⟩
  · exact Or.inl h

theorem fEnt_sub_R (m : MStep) (x : Entry) (p : String × Nat) (h : p ∈ x.reactants) :
    p ∈ (fEnt m x).reactants := by
  unfold fEnt; split
  · exact setIfAbsent_sub _ _ _ _ h
  · exact h

theorem fEnt_sub_P (m : MStep) (x : Entry) (p : String × Nat) (h : p ∈ x.products) :
    p ∈ (fEnt m x).products := by
  unfold fEnt; split
  · exact setIfAbsent_sub _ _ _ _ h
  · exact h

theorem fEnt_subkeys_R (m : MStep) (x : Entry) (k : String) (h : k ∈ x.reactants.keys) :
    k ∈ (fEnt m x).reactants.keys := by
  obtain ⟨v, hv⟩ := exists_mem_of_mem_keys _ _ h
  exact mem_keys_of_mem _ _ _ (fEnt_sub_R m x _ hv)

theorem fEnt_subkeys_P (m : MStep) (x : Entry) (k : String) (h : k ∈ x.products.keys) :
    k ∈ (fEnt m x).products.keys := by
  obtain ⟨v, hv⟩ := exists_mem_of_mem_keys _ _ h
  exact mem_keys_of_mem _ _ _ (fEnt_sub_P m x _ hv)

theorem fEnt_hit (m : MStep) (x : Entry) (h : x.eid = m.eid) :
    m.sr ∈ (fEnt m x).reactants.keys ∧ m.sp ∈ (fEnt m x).products.keys := by
  unfold fEnt; rw [if_pos h]
  exact ⟨setIfAbsent_key _ _ _, setIfAbsent_key _ _ _⟩

theorem fEnt_ne (m : MStep) (x : Entry) (h : x.reactants ≠ [] ∧ x.products ≠ []) :
    (fEnt m x).reactants ≠ [] ∧ (fEnt m x).products ≠ [] := by
  unfold fEnt; split
  · exact ⟨setIfAbsent_ne_nil _ _ _, setIfAbsent_ne_nil _ _ _⟩
  · exact h

/-! ### The entry invariant -/

structure EntInv (M : List MStep) (E : List Entry) : Prop where
  eids : (E.map (·.eid)).Nodup
  keys : ∀ x ∈ E, x.reactants.keys.Nodup ∧ x.products.keys.Nodup
  srcR : ∀ x ∈ E, ∀ p ∈ x.reactants, ∃ m ∈ M, m.eid = x.eid ∧ (m.sr, m.cr) = p
  srcP : ∀ x ∈ E, ∀ p ∈ x.products, ∃ m ∈ M, m.eid = x.eid ∧ (m.sp, m.cp) = p
  cover : ∀ m ∈ M, ∃ x ∈ E, x.eid = m.eid ∧ m.sr ∈ x.reactants.keys ∧ m.sp ∈ x.products.keys
  ne : ∀ x ∈ E, x.reactants ≠ [] ∧ x.products ≠ []

theorem entInv_step (M : List MStep) (E : List Entry) (m : MStep) (h : EntInv M E) :
    EntInv (M ++ [m]) (stepU E m) := by
  rw [stepU_eq E m h.eids]
  have hmemM : ∀ m', m' ∈ M ++ [m] ↔ m' ∈ M ∨ m' = m := by
    intro m'; simp only [List.mem_append, List.mem_singleton]
  have hmapeid : (E.map (fEnt m)).map (·.eid) = E.map (·.eid) := by
    rw [List.map_map]; apply List.map_congr_left; intro x _; exact fEnt_eid m x
  -- facts about the updated old entries, common to both cases
  have keysOld : ∀ y ∈ E.map (fEnt m), y.reactants.keys.Nodup ∧ y.products.keys.Nodup := by
    intro y hy
    obtain ⟨x, hx, rfl⟩ := List.mem_map.1 hy
    exact fEnt_keys m x (h.keys x hx)
  have srcROld : ∀ y ∈ E.map (fEnt m), ∀ p ∈ y.reactants,
      ∃ m' ∈ M ++ [m], m'.eid = y.eid ∧ (m'.sr, m'.cr) = p := by
    intro y hy p hp
    obtain ⟨x, hx, rfl⟩ := List.mem_map.1 hy
    rw [fEnt_eid]
    rcases fEnt_mem_R m x p hp with hp | ⟨he, hp⟩
    · obtain ⟨m', hm', h1⟩ := h.srcR x hx p hp
      exact ⟨m', (hmemM m').2 (Or.inl hm'), h1⟩
    · exact ⟨m, (hmemM m).2 (Or.inr rfl), he.symm, hp.symm⟩
  have srcPOld : ∀ y ∈ E.map (fEnt m), ∀ p ∈ y.products,
      ∃ m' ∈ M ++ [m], m'.eid = y.eid ∧ (m'.sp, m'.cp) = p := by
    intro y hy p hp
    obtain ⟨x, hx, rfl⟩ := List.mem_map.1 hy
    rw [fEnt_eid]
    rcases fEnt_mem_P m x p hp with hp | ⟨he, hp⟩
    · obtain ⟨m', hm', h1⟩ := h.srcP x hx p hp
      exact ⟨m', (hmemM m').2 (Or.inl hm'), h1⟩
    · exact ⟨m, (hmemM m).2 (Or.inr rfl), he.symm, hp.symm⟩
  have coverOld : ∀ m' ∈ M, ∃ y ∈ E.map (fEnt m),
      y.eid = m'.eid ∧ m'.sr ∈ y.reactants.keys ∧ m'.sp ∈ y.products.keys := by
    intro m' hm'
    obtain ⟨x, hx, h1, h2, h3⟩ := h.cover m' hm'
    exact ⟨fEnt m x, List.mem_map.2 ⟨x, hx, rfl⟩, by rw [fEnt_eid]; exact h1,
      fEnt_subkeys_R m x _ h2, fEnt_subkeys_P m x _ h3⟩
  have neOld : ∀ y ∈ E.map (fEnt m), y.reactants ≠ [] ∧ y.products ≠ [] := by
    intro y hy
    obtain ⟨x, hx, rfl⟩ := List.mem_map.1 hy
    exact fEnt_ne m x (h.ne x hx)
  by_cases hany : E.any (fun x => decide (x.eid = m.eid)) = true
  · rw [if_pos hany, List.append_nil]
    obtain ⟨x0, hx0, hhit0⟩ := List.any_eq_true.1 hany
    rw [decide_eq_true_iff] at hhit0
    refine ⟨by rw [hmapeid]; exact h.eids, keysOld, srcROld, srcPOld, ?_, neOld⟩
    intro m' hm'
    rcases (hmemM m').1 hm' with hm' | rfl
    · exact coverOld m' hm'
    · exact ⟨fEnt m' x0, List.mem_map.2 ⟨x0, hx0, rfl⟩, by rw [fEnt_eid]; exact hhit0, fEnt_hit m' x0 hhit0⟩
  · rw [if_neg hany]
    have hmiss : ∀ x ∈ E, x.eid ≠ m.eid := by
      intro x hx hh
      exact hany (List.any_eq_true.2 ⟨x, hx, decide_eq_true hh⟩)
    have hmem : ∀ y, y ∈ E.map (fEnt m) ++ [newEnt m] ↔ y ∈ E.map (fEnt m) ∨ y = newEnt m := by
      intro y; simp only [List.mem_append, List.mem_singleton]
    refine ⟨?_, ?_, ?_, ?_, ?_, ?_⟩
    · rw [List.map_append, hmapeid]
      unfold List.Nodup
      rw [List.pairwise_append]
      refine ⟨h.eids, List.pairwise_singleton _ _, ?_⟩
      intro a ha b hb
      obtain ⟨x, hx, rfl⟩ := List.mem_map.1 ha
      have : b = m.eid := by simpa [newEnt] using hb
      rw [this]; exact hmiss x hx
    · intro y hy
      rcases (hmem y).1 hy with hy' | rfl
      · exact keysOld y hy'
      · exact ⟨by simp [newEnt, Dict.keys], by simp [newEnt, Dict.keys]⟩
    · intro y hy p hp
      rcases (hmem y).1 hy with hy' | rfl
      · exact srcROld y hy' p hp
      · have : p = (m.sr, m.cr) := by simpa [newEnt] using hp
        exact ⟨m, (hmemM m).2 (Or.inr rfl), rfl, this.symm⟩
    · intro y hy p hp
      rcases (hmem y).1 hy with hy' | rfl
      · exact srcPOld y hy' p hp
      · have : p = (m.sp, m.cp) := by simpa [newEnt] using hp
        exact ⟨m, (hmemM m).2 (Or.inr rfl), rfl, this.symm⟩
    · intro m' hm'
      rcases (hmemM m').1 hm' with hm' | rfl
      · obtain ⟨y, hy, h1⟩ := coverOld m' hm'
        exact ⟨y, (hmem y).2 (Or.inl hy), h1⟩
      · exact ⟨newEnt m', (hmem _).2 (Or.inr rfl), rfl, by simp [newEnt, Dict.keys], by simp [newEnt, Dict.keys]⟩
    · intro y hy
      rcases (hmem y).1 hy with hy' | rfl
      · exact neOld y hy'
      · exact ⟨List.cons_ne_nil _ _, List.cons_ne_nil _ _⟩

theorem entInv_fold_aux (M : List MStep) : ∀ (M0 : List MStep) (E : List Entry),
    EntInv M0 E → EntInv (M0 ++ M) (M.foldl stepU E) := by
  induction M with
  | nil => intro M0 E h; simpa using h
  | cons m rest ih =>
    intro M0 E h
    have e : M0 ++ m :: rest = (M0 ++ [m]) ++ rest := by simp
    rw [e, List.foldl_cons]
    exact ih _ _ (entInv_step _ _ _ h)

theorem entInv_fold (M : List MStep) : EntInv M (M.foldl stepU []) := by
  have := entInv_fold_aux M [] [] ⟨List.Pairwise.nil, by simp, by simp, by simp, by simp, by simp⟩
  simpa using this

/-! ## 3. Second pass: `materialise` -/

theorem normSide_fold (m : Side) : ∀ acc : Side, m.keys.Nodup → (∀ k ∈ m.keys, k ∉ acc.keys) →
    (∀ kv ∈ m, 0 < kv.2) →
    m.foldl (fun out kv => if kv.2 > 0 then accum out kv.1 kv.2 else out) acc = acc ++ m := by
  induction m with
  | nil => intro acc _ _ _; simp
  | cons kv rest ih =>
    obtain ⟨k, c⟩ := kv
    intro acc hn hd hp
    simp only [Dict.keys, List.map_cons, List.nodup_cons] at hn
    have hk : k ∉ acc.keys := hd k (by simp [Dict.keys])
    have hc : 0 < c := hp (k, c) List.mem_cons_self
    have hacc : accum acc k c = acc ++ [(k, c)] := by
      unfold accum Dict.getD
      rw [(Dict.get?_eq_none_iff acc k).2 hk, dict_set_absent _ _ _ hk]
      simp
    rw [List.foldl_cons]
    simp only [gt_iff_lt, hc, if_true, hacc]
    rw [ih (acc ++ [(k, c)]) hn.2 ?_ (fun kv hkv => hp kv (List.mem_cons_of_mem _ hkv))]
    · simp
    · intro k' hk' hmem
      rw [dict_keys_append] at hmem
      rcases List.mem_append.1 hmem with hmem | hmem
      · exact hd k' (by simp only [Dict.keys, List.map_cons, List.mem_cons]; exact Or.inr hk') hmem
      · have : k' = k := by simpa [Dict.keys] using hmem
        exact hn.1 (this ▸ hk')

theorem normSide_id (m : Side) (h : WfSide m) : normSide m = m := by
  unfold normSide
  rw [normSide_fold m [] h.1 (fun _ _ hh => by simp [Dict.keys] at hh) h.2]
  rfl

def toRxn (x : Entry) : Rxn := ⟨x.eid, normRule (x.rules.head?.getD "r"), x.reactants, x.products⟩

theorem mem_foldl_setAdd (l : List String) : ∀ (S : List String) (s : String),
    s ∈ l.foldl setAdd S ↔ s ∈ S ∨ s ∈ l := by
  induction l with
  | nil => intro S s; simp
  | cons x rest ih =>
    intro S s
    rw [List.foldl_cons, ih, mem_setAdd, List.mem_cons]
    constructor
    · rintro ((h | h) | h)
      · exact Or.inl h
      · exact Or.inr (Or.inl h)
      · exact Or.inr (Or.inr h)
    · rintro (h | h | h)
      · exact Or.inl (Or.inl h)
      · exact Or.inl (Or.inr h)
      · exact Or.inr h

theorem materialise_ok (E : List Entry) : ∀ N0 : Net,
    (N0.ids ++ E.map (·.eid)).Nodup →
    (∀ x ∈ E, WfSide x.reactants ∧ WfSide x.products ∧ x.reactants ≠ []) →
    ∃ N1, materialise N0 E = .ok N1 ∧ N1.rxns = N0.rxns ++ E.map toRxn ∧ N1.mol = N0.mol ∧
      ∀ s, s ∈ N1.species ↔
        s ∈ N0.species ∨ ∃ x ∈ E, s ∈ x.reactants.keys ∨ s ∈ x.products.keys := by
  induction E with
  | nil => intro N0 _ _; exact ⟨N0, rfl, by simp, rfl, by simp⟩
  | cons x rest ih =>
    intro N0 hn hw
    obtain ⟨wr, wp, hne⟩ := hw x List.mem_cons_self
    have hx : x.eid ∉ N0.ids := by
      intro hh
      unfold List.Nodup at hn
      rw [List.pairwise_append] at hn
      exact hn.2.2 _ hh x.eid (by simp) rfl
    have hemp : (x.reactants.isEmpty && x.products.isEmpty) = false := by
      cases hr : x.reactants with
      | nil => exact absurd hr hne
      | cons _ _ => rfl
    have hadd : ∃ N0', N0.addRxn x.reactants x.products (x.rules.head?.getD "r") x.eid = .ok N0' ∧
        N0'.rxns = N0.rxns ++ [toRxn x] ∧ N0'.mol = N0.mol ∧
        ∀ s, s ∈ N0'.species ↔ s ∈ N0.species ∨ (s ∈ x.reactants.keys ∨ s ∈ x.products.keys) := by
      refine ⟨{ N0 with rxns := N0.rxns ++ [toRxn x],
                        species := (toRxn x).speciesOf.foldl setAdd N0.species }, ?_, rfl, rfl, ?_⟩
      · unfold Net.addRxn
        simp only [normSide_id _ wr, normSide_id _ wp, hx, hemp, if_false, Bool.false_eq_true, toRxn]
      · intro s
        show s ∈ (toRxn x).speciesOf.foldl setAdd N0.species ↔ _
        rw [mem_foldl_setAdd]
        show _ ∨ s ∈ x.reactants.keys ++ x.products.keys ↔ _
        rw [List.mem_append]
    obtain ⟨N0', hadd, hr0, hm0, hs0⟩ := hadd
    unfold materialise
    rw [hadd]
    simp only
    have hn' : (N0'.ids ++ rest.map (·.eid)).Nodup := by
      have : N0'.ids = N0.ids ++ [x.eid] := by
        simp [Net.ids, hr0, toRxn]
      rw [this, List.append_assoc]
      simpa using hn
    obtain ⟨N1, h1, h2, h3, h4⟩ := ih _ hn' (fun y hy => hw y (List.mem_cons_of_mem _ hy))
    refine ⟨N1, h1, ?_, h3.trans hm0, ?_⟩
    · rw [h2, hr0]; simp
    · intro s
      rw [h4, hs0]
      constructor
      · rintro ((h | h) | ⟨y, hy, h⟩)
        · exact Or.inl h
        · exact Or.inr ⟨x, List.mem_cons_self, h⟩
        · exact Or.inr ⟨y, List.mem_cons_of_mem _ hy, h⟩
      · rintro (h | ⟨y, hy, h⟩)
        · exact Or.inl (Or.inl h)
        · rcases List.mem_cons.1 hy with rfl | hy'
          · exact Or.inl (Or.inr h)
          · exact Or.inr ⟨y, hy', h⟩

theorem importMolS_rxns_aux (ns : List SNode) : ∀ N : Net,
    (ns.foldl (fun N n =>
      match n.mol with
      | some m =>
        let l := n.label.getD n.id
        if l ∈ N.species then { N with mol := N.mol.set l m } else N
      | none => N) N).rxns = N.rxns := by
  induction ns with
  | nil => intro N; rfl
  | cons n rest ih =>
    intro N
    rw [List.foldl_cons, ih]
    split
    · simp only; split <;> rfl
    · rfl

theorem importMolS_rxns (g : SGraph) (N : Net) : (importMolS g N).rxns = N.rxns :=
  importMolS_rxns_aux g.nodes N

/-! ## 4. Assembly -/

theorem inj_of_nodup_map {α β : Type} (f : α → β) (l : List α) (h : (l.map f).Nodup)
    (a b : α) (ha : a ∈ l) (hb : b ∈ l) (hab : f a = f b) : a = b := by
  induction l with
  | nil => cases ha
  | cons x rest ih =>
    rw [List.map_cons, List.nodup_cons] at h
    rcases List.mem_cons.1 ha with rfl | ha' <;> rcases List.mem_cons.1 hb with rfl | hb'
    · rfl
    · exact absurd (List.mem_map.2 ⟨b, hb', hab.symm⟩) h.1
    · exact absurd (List.mem_map.2 ⟨a, ha', hab⟩) h.1
    · exact ih h.2 ha' hb'

theorem exists_mem_of_ne_nil {α : Type} (l : List α) (h : l ≠ []) : ∃ a, a ∈ l := by
  cases l with
  | nil => exact absurd rfl h
  | cons a _ => exact ⟨a, List.mem_cons_self⟩

def allSteps (N : Net) : List Step := N.rxns.flatMap stepsOf

theorem mem_allSteps (N : Net) (t : Step) : t ∈ allSteps N ↔ ∃ e ∈ N.rxns, t ∈ stepsOf e := by
  unfold allSteps; exact List.mem_flatMap

theorem functional_allSteps (N : Net) (hN : WfNet N) : Functional (allSteps N) := by
  intro t ht t' ht' h1 h2 h3
  obtain ⟨e, he, hte⟩ := (mem_allSteps N t).1 ht
  obtain ⟨e', he', hte'⟩ := (mem_allSteps N t').1 ht'
  rw [mem_stepsOf] at hte hte'
  have hee : e = e' := inj_of_nodup_map (fun e : Rxn => e.id) N.rxns hN.idsNodup e e' he he'
    (hte.1.symm.trans (h3.trans hte'.1))
  subst hee
  obtain ⟨wr, wp⟩ := hN.sides e he
  constructor
  · exact dict_val_unique e.reactants t.r _ _ wr.1 hte.2.2.1 (h1 ▸ hte'.2.2.1)
  · exact dict_val_unique e.products t.p _ _ wp.1 hte.2.2.2 (h2 ▸ hte'.2.2.2)

theorem mem_mstepsOf (a : SEdge) (m : MStep) : m ∈ mstepsOf a ↔
    m.eid ∈ a.via ∧ m.sr = a.src ∧ m.sp = a.dst ∧ m.cr = (a.rMap.get? m.eid).getD a.stoichR ∧
      m.cp = (a.pMap.get? m.eid).getD a.stoichP ∧ m.rules = a.rules := by
  unfold mstepsOf
  rw [List.mem_map]
  constructor
  · rintro ⟨eid, he, rfl⟩; exact ⟨he, rfl, rfl, rfl, rfl, rfl⟩
  · rintro ⟨h1, h2, h3, h4, h5, h6⟩
    refine ⟨m.eid, h1, ?_⟩
    cases m; simp_all

theorem rxn_of_step (N : Net) (t : Step) (ht : t ∈ allSteps N) :
    ∃ e ∈ N.rxns, e.id = t.eid ∧ (t.r, t.rc) ∈ e.reactants ∧ (t.p, t.pc) ∈ e.products := by
  obtain ⟨e, he, hte⟩ := (mem_allSteps N t).1 ht
  rw [mem_stepsOf] at hte
  exact ⟨e, he, hte.1.symm, hte.2.2.1, hte.2.2.2⟩

/-- What one `(arc, id)` pair of the exported graph carries. -/
theorem mstep_spec (N : Net) (es As : List SEdge) (hA : ArcInv (allSteps N) es)
    (hAs : ∀ a ∈ As, a ∈ es) (m : MStep) (hm : m ∈ As.flatMap mstepsOf) :
    ∃ e ∈ N.rxns, e.id = m.eid ∧ (m.sr, m.cr) ∈ e.reactants ∧ (m.sp, m.cp) ∈ e.products := by
  obtain ⟨a, ha, hma⟩ := List.mem_flatMap.1 hm
  rw [mem_mstepsOf] at hma
  obtain ⟨h1, h2, h3, h4, h5, _⟩ := hma
  have hae := hAs a ha
  obtain ⟨t, ht, ht1, ht2, ht3⟩ := (hA.via_iff a hae m.eid).1 h1
  obtain ⟨hr, hp⟩ := hA.maps a hae t ht ht1 ht2
  rw [ht3] at hr hp
  rw [hr] at h4; rw [hp] at h5
  obtain ⟨e, he, he1, he2, he3⟩ := rxn_of_step N t ht
  refine ⟨e, he, he1.trans ht3, ?_, ?_⟩
  · rw [h2, h4, ← ht1]; exact he2
  · rw [h3, h5, ← ht2]; exact he3

theorem entry_sub (N : Net) (es As : List SEdge) (E : List Entry) (hN : WfNet N)
    (hA : ArcInv (allSteps N) es) (hAs : ∀ a ∈ As, a ∈ es) (hE : EntInv (As.flatMap mstepsOf) E)
    (x : Entry) (hx : x ∈ E) (e : Rxn) (he : e ∈ N.rxns) (hid : e.id = x.eid) :
    (∀ p ∈ x.reactants, p ∈ e.reactants) ∧ (∀ p ∈ x.products, p ∈ e.products) := by
  constructor
  · intro p hp
    obtain ⟨m, hm, hm1, hm2⟩ := hE.srcR x hx p hp
    obtain ⟨e', he', h1, h2, _⟩ := mstep_spec N es As hA hAs m hm
    have : e' = e := inj_of_nodup_map (fun e : Rxn => e.id) N.rxns hN.idsNodup e' e he' he
      (h1.trans (hm1.trans hid.symm))
    rw [← hm2, ← this]; exact h2
  · intro p hp
    obtain ⟨m, hm, hm1, hm2⟩ := hE.srcP x hx p hp
    obtain ⟨e', he', h1, _, h3⟩ := mstep_spec N es As hA hAs m hm
    have : e' = e := inj_of_nodup_map (fun e : Rxn => e.id) N.rxns hN.idsNodup e' e he' he
      (h1.trans (hm1.trans hid.symm))
    rw [← hm2, ← this]; exact h3

theorem entry_rxn (N : Net) (es As : List SEdge) (E : List Entry)
    (hA : ArcInv (allSteps N) es) (hAs : ∀ a ∈ As, a ∈ es) (hE : EntInv (As.flatMap mstepsOf) E)
    (x : Entry) (hx : x ∈ E) : ∃ e ∈ N.rxns, e.id = x.eid := by
  obtain ⟨p, hp⟩ := exists_mem_of_ne_nil _ (hE.ne x hx).1
  obtain ⟨m, hm, hm1, _⟩ := hE.srcR x hx p hp
  obtain ⟨e, he, h1, _⟩ := mstep_spec N es As hA hAs m hm
  exact ⟨e, he, h1.trans hm1⟩

theorem entry_cover (N : Net) (es As : List SEdge) (E : List Entry)
    (hA : ArcInv (allSteps N) es) (hAs : ∀ a ∈ es, a ∈ As) (hE : EntInv (As.flatMap mstepsOf) E)
    (e : Rxn) (he : e ∈ N.rxns) (r p : String) (rc pc : Nat)
    (hr : (r, rc) ∈ e.reactants) (hp : (p, pc) ∈ e.products) :
    ∃ x ∈ E, x.eid = e.id ∧ r ∈ x.reactants.keys ∧ p ∈ x.products.keys := by
  have ht : (⟨r, p, e.id, e.rule, rc, pc⟩ : Step) ∈ allSteps N :=
    (mem_allSteps N _).2 ⟨e, he, (mem_stepsOf e _).2 ⟨rfl, rfl, hr, hp⟩⟩
  obtain ⟨a, ha, h1, h2⟩ := hA.cover _ ht
  have hvia : e.id ∈ a.via := (hA.via_iff a ha e.id).2 ⟨_, ht, h1.symm, h2.symm, rfl⟩
  have hm : (⟨e.id, a.src, a.dst, (a.rMap.get? e.id).getD a.stoichR, (a.pMap.get? e.id).getD a.stoichP,
      a.rules⟩ : MStep) ∈ As.flatMap mstepsOf :=
    List.mem_flatMap.2 ⟨a, hAs a ha, (mem_mstepsOf a _).2 ⟨hvia, rfl, rfl, rfl, rfl, rfl⟩⟩
  obtain ⟨x, hx, hx1, hx2, hx3⟩ := hE.cover _ hm
  have h1' : a.src = r := h1
  have h2' : a.dst = p := h2
  exact ⟨x, hx, hx1, h1' ▸ hx2, h2' ▸ hx3⟩

theorem perm_of_sub_of_keys (x e : Side) (hx : x.keys.Nodup) (he : e.keys.Nodup)
    (hsub : ∀ p ∈ x, p ∈ e) (hkeys : ∀ p ∈ e, p.1 ∈ x.keys) : x.Perm e := by
  rw [List.perm_ext_iff_of_nodup (nodup_of_map_nodup _ _ hx) (nodup_of_map_nodup _ _ he)]
  intro p
  constructor
  · exact hsub p
  · intro hp
    obtain ⟨k, c⟩ := p
    obtain ⟨c', hc'⟩ := exists_mem_of_mem_keys x k (hkeys _ hp)
    have := dict_val_unique e k c' c he (hsub _ hc') hp
    rw [← this]; exact hc'

theorem entry_perm (N : Net) (es As : List SEdge) (E : List Entry) (hN : WfNet N) (h2 : TwoSided N)
    (hA : ArcInv (allSteps N) es) (hAs : ∀ a, a ∈ As ↔ a ∈ es) (hE : EntInv (As.flatMap mstepsOf) E)
    (e : Rxn) (he : e ∈ N.rxns) :
    ∃ x ∈ E, x.eid = e.id ∧ x.reactants.Perm e.reactants ∧ x.products.Perm e.products := by
  obtain ⟨hr0, hp0⟩ := h2 e he
  obtain ⟨⟨r0, rc0⟩, hr0⟩ := exists_mem_of_ne_nil _ hr0
  obtain ⟨⟨p0, pc0⟩, hp0⟩ := exists_mem_of_ne_nil _ hp0
  have hAs2 : ∀ a ∈ es, a ∈ As := fun a ha => (hAs a).2 ha
  have hAs1 : ∀ a ∈ As, a ∈ es := fun a ha => (hAs a).1 ha
  obtain ⟨x, hx, hx1, _, _⟩ := entry_cover N es As E hA hAs2 hE e he r0 p0 rc0 pc0 hr0 hp0
  obtain ⟨sr, sp⟩ := entry_sub N es As E hN hA hAs1 hE x hx e he hx1.symm
  obtain ⟨wr, wp⟩ := hN.sides e he
  obtain ⟨kr, kp⟩ := hE.keys x hx
  have same : ∀ x' ∈ E, x'.eid = e.id → x' = x := fun x' hx' h' =>
    inj_of_nodup_map (fun y : Entry => y.eid) E hE.eids x' x hx' hx (h'.trans hx1.symm)
  refine ⟨x, hx, hx1, ?_, ?_⟩
  · apply perm_of_sub_of_keys _ _ kr wr.1 sr
    rintro ⟨r, rc⟩ hr
    obtain ⟨x', hx', h1, h2, _⟩ := entry_cover N es As E hA hAs2 hE e he r p0 rc pc0 hr hp0
    rw [same x' hx' h1] at h2; exact h2
  · apply perm_of_sub_of_keys _ _ kp wp.1 sp
    rintro ⟨p, pc⟩ hp
    obtain ⟨x', hx', h1, _, h3⟩ := entry_cover N es As E hA hAs2 hE e he r0 p rc0 pc hr0 hp
    rw [same x' hx' h1] at h3; exact h3

/-- The exported graph, the entries of the importer's first pass and the materialised network. -/
theorem roundtrip_core (includeMol : Bool) (N : Net) (genArc : GenArc)
    (hN : WfNet N) (h2 : TwoSided N) :
    ∃ (E : List Entry) (N1 : Net),
      materialise {} (collectEntries genArc (toSpeciesGraph includeMol N)) = .ok N1 ∧
      N1.rxns = E.map toRxn ∧ N1.mol = [] ∧
      (∀ s, s ∈ N1.species ↔ ∃ x ∈ E, s ∈ x.reactants.keys ∨ s ∈ x.products.keys) ∧
      (E.map (·.eid)).Nodup ∧
      (∀ x ∈ E, ∃ e ∈ N.rxns, e.id = x.eid ∧
        (∀ p ∈ x.reactants, p ∈ e.reactants) ∧ (∀ p ∈ x.products, p ∈ e.products)) ∧
      (∀ e ∈ N.rxns, ∃ x ∈ E, x.eid = e.id ∧
        x.reactants.Perm e.reactants ∧ x.products.Perm e.products) := by
  -- the exported graph
  have hg := toSpeciesGraph_eq includeMol N
  generalize toSpeciesGraph includeMol N = g at hg
  have hedges : g.edges = (allSteps N).foldl stepE [] := by
    rw [hg, foldl_stepG_edges]; rfl
  have hnodes := nodes_fold (allSteps N)
    (N.species.map fun s => (⟨s, some s, if includeMol then N.mol.get? s else none⟩ : SNode))
    (by intro n hn; obtain ⟨s, _, rfl⟩ := List.mem_map.1 hn; rfl)
  have hnodes' : g.nodes = (allSteps N).foldl stepN
      (N.species.map fun s => (⟨s, some s, if includeMol then N.mol.get? s else none⟩ : SNode)) := by
    rw [hg, foldl_stepG_nodes]; rfl
  rw [← hnodes'] at hnodes
  obtain ⟨hOK, _, hHas⟩ := hnodes
  have hA : ArcInv (allSteps N) g.edges := by
    rw [hedges]; exact arcInv_fold _ (functional_allSteps N hN)
  have hAs : ∀ a, a ∈ g.edgesIter ↔ a ∈ g.edges := by
    intro a
    rw [mem_edgesIter]
    constructor
    · exact And.left
    · intro ha
      refine ⟨ha, ?_⟩
      obtain ⟨eid, heid⟩ := exists_mem_of_ne_nil _ (hA.via_ne a ha)
      obtain ⟨t, ht, h1, _⟩ := (hA.via_iff a ha eid).1 heid
      rw [← h1]; exact hHas t ht
  -- the entries
  have hcol : collectEntries genArc g = (g.edgesIter.flatMap mstepsOf).foldl stepU [] :=
    collectEntries_eq genArc g hOK (fun a ha => hA.via_ne a ((hAs a).1 ha))
  have hE : EntInv (g.edgesIter.flatMap mstepsOf) (collectEntries genArc g) := by
    rw [hcol]; exact entInv_fold _
  generalize collectEntries genArc g = E at hE
  have hAs1 : ∀ a ∈ g.edgesIter, a ∈ g.edges := fun a ha => (hAs a).1 ha
  have hsub : ∀ x ∈ E, ∃ e ∈ N.rxns, e.id = x.eid ∧
      (∀ p ∈ x.reactants, p ∈ e.reactants) ∧ (∀ p ∈ x.products, p ∈ e.products) := by
    intro x hx
    obtain ⟨e, he, hid⟩ := entry_rxn N g.edges g.edgesIter E hA hAs1 hE x hx
    exact ⟨e, he, hid, entry_sub N g.edges g.edgesIter E hN hA hAs1 hE x hx e he hid⟩
  have hwf : ∀ x ∈ E, WfSide x.reactants ∧ WfSide x.products ∧ x.reactants ≠ [] := by
    intro x hx
    obtain ⟨e, he, _, sr, sp⟩ := hsub x hx
    obtain ⟨wr, wp⟩ := hN.sides e he
    exact ⟨⟨(hE.keys x hx).1, fun kv hkv => wr.2 kv (sr kv hkv)⟩,
      ⟨(hE.keys x hx).2, fun kv hkv => wp.2 kv (sp kv hkv)⟩, (hE.ne x hx).1⟩
  obtain ⟨N1, hmat, hrx, hmol, hsp⟩ := materialise_ok E {} (by simpa [Net.ids] using hE.eids) hwf
  refine ⟨E, N1, hmat, by rw [hrx]; rfl, hmol, ?_, hE.eids, hsub,
    fun e he => entry_perm N g.edges g.edgesIter E hN h2 hA hAs hE e he⟩
  intro s
  rw [hsp]
  constructor
  · rintro (h | h)
    · cases h
    · exact h
  · exact Or.inr

/-- Collapse to the species graph and rebuild: for a network whose reactions all have reactants
and products, the rebuilt network has exactly the same reaction ids, and each reaction has the
same reactants and products with the same coefficients (sides as dicts: equal up to order), even
when several reactions share a species pair (the arc then carries several ids in `via` and the
per-id maps `rMap`/`pMap`). Rules are NOT claimed (the real code picks an arbitrary element of a
set of rules). -/
theorem species_roundtrip' (includeMol : Bool) (N : Net) (genArc : GenArc)
    (hN : WfNet N) (h2 : TwoSided N) :
    ∃ N', ofSpeciesGraph genArc (toSpeciesGraph includeMol N) = .ok N' ∧
      N'.ids.Perm N.ids ∧
      ∀ e ∈ N.rxns, ∃ e' ∈ N'.rxns, e'.id = e.id ∧
        e'.reactants.Perm e.reactants ∧ e'.products.Perm e.products := by
  obtain ⟨E, N1, hmat, hrx, _, _, hnd, hsub, hperm⟩ := roundtrip_core includeMol N genArc hN h2
  refine ⟨importMolS (toSpeciesGraph includeMol N) N1, ?_, ?_, ?_⟩
  · unfold ofSpeciesGraph; rw [hmat]
  · have hids : (importMolS (toSpeciesGraph includeMol N) N1).ids = E.map (·.eid) := by
      unfold Net.ids
      rw [importMolS_rxns, hrx, List.map_map]
      rfl
    rw [hids, List.perm_ext_iff_of_nodup hnd hN.idsNodup]
    intro i
    constructor
    · intro hi
      obtain ⟨x, hx, rfl⟩ := List.mem_map.1 hi
      obtain ⟨e, he, hid, _⟩ := hsub x hx
      exact List.mem_map.2 ⟨e, he, hid⟩
    · intro hi
      obtain ⟨e, he, rfl⟩ := List.mem_map.1 hi
      obtain ⟨x, hx, hx1, _⟩ := hperm e he
      exact List.mem_map.2 ⟨x, hx, hx1⟩
  · intro e he
    obtain ⟨x, hx, hx1, hx2, hx3⟩ := hperm e he
    refine ⟨toRxn x, ?_, hx1, hx2, hx3⟩
    rw [importMolS_rxns, hrx]
    exact List.mem_map.2 ⟨x, hx, rfl⟩

/-! ## 5. Optional extra: species set and `species_to_mol` of the rebuilt network -/

def molStep (N : Net) (n : SNode) : Net :=
  match n.mol with
  | some m =>
    let l := n.label.getD n.id
    if l ∈ N.species then { N with mol := N.mol.set l m } else N
  | none => N

theorem importMolS_eq (g : SGraph) (N : Net) : importMolS g N = g.nodes.foldl molStep N := rfl

theorem molStep_species (N : Net) (n : SNode) : (molStep N n).species = N.species := by
  unfold molStep; split
  · simp only; split <;> rfl
  · rfl

theorem molStep_get (N : Net) (n : SNode) (hl : n.label.getD n.id = n.id) (s : String) :
    (molStep N n).mol.get? s =
      if n.id = s ∧ s ∈ N.species ∧ n.mol ≠ none then n.mol else N.mol.get? s := by
  unfold molStep
  cases hm : n.mol with
  | none => simp
  | some m =>
    simp only [hl]
    by_cases hS : n.id ∈ N.species
    · rw [if_pos hS]
      by_cases hs : n.id = s
      · subst hs
        rw [if_pos ⟨rfl, hS, by simp⟩]
        exact Dict.get?_set_self _ _ _
      · rw [if_neg (fun hh => hs hh.1)]
        exact Dict.get?_set_other _ _ _ _ (fun hh => hs hh.symm)
    · rw [if_neg hS, if_neg]
      rintro ⟨h1, h2, _⟩
      exact hS (h1 ▸ h2)

theorem molFold (f : String → Option String) (ns : List SNode) : ∀ N : Net, NodeOK ns →
    (∀ n ∈ ns, ∀ m, n.mol = some m → f n.id = some m) →
    (ns.foldl molStep N).species = N.species ∧
    ∀ s, (ns.foldl molStep N).mol.get? s =
      if s ∈ N.species ∧ ∃ n ∈ ns, n.id = s ∧ n.mol ≠ none then f s else N.mol.get? s := by
  induction ns with
  | nil => intro N _ _; exact ⟨rfl, fun s => by simp⟩
  | cons n rest ih =>
    intro N hok hf
    have hl : n.label.getD n.id = n.id := hok n List.mem_cons_self
    obtain ⟨h1, h2⟩ := ih (molStep N n) (fun n' hn' => hok n' (List.mem_cons_of_mem _ hn'))
      (fun n' hn' => hf n' (List.mem_cons_of_mem _ hn'))
    rw [List.foldl_cons]
    refine ⟨h1.trans (molStep_species N n), ?_⟩
    intro s
    rw [h2 s, molStep_species, molStep_get N n hl s]
    by_cases hS : s ∈ N.species
    · by_cases hrest : ∃ n' ∈ rest, n'.id = s ∧ n'.mol ≠ none
      · obtain ⟨n', hn', hc⟩ := hrest
        rw [if_pos ⟨hS, n', hn', hc⟩, if_pos ⟨hS, n', List.mem_cons_of_mem _ hn', hc⟩]
      · rw [if_neg (fun hh => hrest hh.2)]
        by_cases hn : n.id = s ∧ n.mol ≠ none
        · rw [if_pos ⟨hn.1, hS, hn.2⟩, if_pos ⟨hS, n, List.mem_cons_self, hn⟩]
          cases hm : n.mol with
          | none => exact absurd hm hn.2
          | some m => rw [← hn.1]; exact (hf n List.mem_cons_self m hm).symm
        · rw [if_neg (fun hh => hn ⟨hh.1, hh.2.2⟩), if_neg]
          rintro ⟨_, n', hn', hc⟩
          rcases List.mem_cons.1 hn' with rfl | hn''
          · exact hn hc
          · exact hrest ⟨n', hn'', hc⟩
    · rw [if_neg (fun hh => hS hh.1), if_neg (fun hh => hS hh.2.1), if_neg (fun hh => hS hh.1)]

theorem touchNode_mem_mono (ns : List SNode) (i : String) (n : SNode) (h : n ∈ ns) : n ∈ touchNode ns i := by
  unfold touchNode; split
  · exact h
  · exact List.mem_append_left _ h

theorem touchNode_P (P : SNode → Prop) (hP : ∀ i, P ⟨i, none, none⟩) (ns : List SNode) (i : String)
    (h : ∀ n ∈ ns, P n) : ∀ n ∈ touchNode ns i, P n := by
  unfold touchNode; split
  · exact h
  · intro n hn
    rcases List.mem_append.1 hn with hn | hn
    · exact h n hn
    · rw [List.mem_singleton] at hn; subst hn; exact hP i

theorem nodes_fold_P (P : SNode → Prop) (hP : ∀ i, P ⟨i, none, none⟩) (L : List Step) :
    ∀ ns : List SNode, (∀ n ∈ ns, P n) →
      (∀ n ∈ L.foldl stepN ns, P n) ∧ (∀ n ∈ ns, n ∈ L.foldl stepN ns) := by
  induction L with
  | nil => intro ns h; exact ⟨h, fun _ hn => hn⟩
  | cons t rest ih =>
    intro ns h
    rw [List.foldl_cons]
    obtain ⟨a, b⟩ := ih (stepN ns t) (touchNode_P P hP _ _ (touchNode_P P hP _ _ h))
    exact ⟨a, fun n hn => b n (touchNode_mem_mono _ _ _ (touchNode_mem_mono _ _ _ hn))⟩

theorem mem_rxnSpecies (N : Net) (s : String) :
    s ∈ N.rxnSpecies ↔ ∃ e ∈ N.rxns, s ∈ e.reactants.keys ∨ s ∈ e.products.keys := by
  unfold Net.rxnSpecies Rxn.speciesOf
  simp only [List.mem_flatMap, List.mem_append]

theorem keys_sub_of_sub {α : Type} (x e : Dict α) (h : ∀ p ∈ x, p ∈ e) (s : String) (hs : s ∈ x.keys) :
    s ∈ e.keys := by
  obtain ⟨v, hv⟩ := exists_mem_of_mem_keys x s hs
  exact mem_keys_of_mem e s v (h _ hv)

/-- The rebuilt network's species are exactly the species occurring in reactions (isolated
species are lost), and `species_to_mol` survives exactly for those, when exported. -/
theorem species_roundtrip_mol' (includeMol : Bool) (N : Net) (genArc : GenArc)
    (hN : WfNet N) (h2 : TwoSided N) :
    ∃ N', ofSpeciesGraph genArc (toSpeciesGraph includeMol N) = .ok N' ∧
      (∀ s, N'.mol.get? s =
        if includeMol = true ∧ s ∈ N.rxnSpecies then N.mol.get? s else none) ∧
      (∀ s, s ∈ N'.species ↔ s ∈ N.rxnSpecies) := by
  obtain ⟨E, N1, hmat, _, hmol, hsp, _, hsub, hperm⟩ := roundtrip_core includeMol N genArc hN h2
  -- species of the materialised network
  have hspec : ∀ s, s ∈ N1.species ↔ s ∈ N.rxnSpecies := by
    intro s
    rw [hsp, mem_rxnSpecies]
    constructor
    · rintro ⟨x, hx, h⟩
      obtain ⟨e, he, _, sr, sp⟩ := hsub x hx
      exact ⟨e, he, h.imp (keys_sub_of_sub _ _ sr s) (keys_sub_of_sub _ _ sp s)⟩
    · rintro ⟨e, he, h⟩
      obtain ⟨x, hx, _, pr, pp⟩ := hperm e he
      exact ⟨x, hx, h.imp (keys_sub_of_sub _ _ (fun p hp => (pr.mem_iff).2 hp) s)
        (keys_sub_of_sub _ _ (fun p hp => (pp.mem_iff).2 hp) s)⟩
  -- nodes of the exported graph
  let f : String → Option String := fun s => if includeMol then N.mol.get? s else none
  have hg := toSpeciesGraph_eq includeMol N
  have hnodes' : (toSpeciesGraph includeMol N).nodes = (allSteps N).foldl stepN
      (N.species.map fun s => (⟨s, some s, f s⟩ : SNode)) := by
    rw [hg, foldl_stepG_nodes]; rfl
  have hok := nodes_fold_P (fun n => n.label.getD n.id = n.id) (fun _ => rfl) (allSteps N)
    (N.species.map fun s => (⟨s, some s, f s⟩ : SNode))
    (by intro n hn; obtain ⟨s, _, rfl⟩ := List.mem_map.1 hn; rfl)
  have hfm := nodes_fold_P (fun n => ∀ m, n.mol = some m → f n.id = some m)
    (fun _ m hm => nomatch hm) (allSteps N)
    (N.species.map fun s => (⟨s, some s, f s⟩ : SNode))
    (by intro n hn; obtain ⟨s, _, rfl⟩ := List.mem_map.1 hn; exact fun m hm => hm)
  rw [← hnodes'] at hok hfm
  generalize toSpeciesGraph includeMol N = g at hok hfm hmat
  obtain ⟨hs1, hm1⟩ := molFold f g.nodes N1 hok.1 hfm.1
  refine ⟨importMolS g N1, ?_, ?_, ?_⟩
  · unfold ofSpeciesGraph; rw [hmat]
  · intro s
    rw [importMolS_eq, hm1 s, hmol]
    have hnone : Dict.get? ([] : Dict String) s = none := rfl
    rw [hnone]
    by_cases hb : includeMol = true ∧ s ∈ N.rxnSpecies
    · rw [if_pos hb]
      have hfs : f s = N.mol.get? s := by simp only [f, hb.1, if_true]
      by_cases hc : s ∈ N1.species ∧ ∃ n ∈ g.nodes, n.id = s ∧ n.mol ≠ none
      · rw [if_pos hc, hfs]
      · rw [if_neg hc]
        cases hget : N.mol.get? s with
        | none => rfl
        | some m =>
          exfalso
          apply hc
          refine ⟨(hspec s).2 hb.2, ⟨s, some s, f s⟩, ?_, rfl, ?_⟩
          · exact hok.2 _ (List.mem_map.2 ⟨s, hN.speciesSup s hb.2, rfl⟩)
          · show f s ≠ none
            rw [hfs, hget]; simp
    · rw [if_neg hb]
      by_cases hc : s ∈ N1.species ∧ ∃ n ∈ g.nodes, n.id = s ∧ n.mol ≠ none
      · exfalso
        obtain ⟨h1, n, hn, h3, h4⟩ := hc
        apply hb
        refine ⟨?_, (hspec s).1 h1⟩
        cases hm : n.mol with
        | none => exact absurd hm h4
        | some m =>
          have := hfm.1 n hn m hm
          cases hbb : includeMol with
          | true => rfl
          | false => simp [f, hbb] at this
      · rw [if_neg hc]
  · intro s
    rw [importMolS_eq, hs1]
    exact hspec s

end SynKit.Views.Sp

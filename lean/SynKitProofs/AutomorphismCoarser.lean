import SynKitProofs.AutomorphismWL
import SynKitProofs.AutomorphismComponents
/-! The exact analyser's automorphisms (defaults made explicit, per component) are automorphisms of
the raw graph when every selected attribute is present: bridge used by `est_coarser_than_exact` (C11). -/
namespace SynKit.Aut
open SynKit SynKit.Match

/-- every node / bond carries every selected attribute -/
def AttrComplete (nodeKeys edgeKeys : List String) (G : LGraph) : Prop :=
  (∀ p ∈ G.nodes, ∀ k ∈ nodeKeys, Dict.get? p.2 k ≠ none) ∧
  (∀ e ∈ G.edges, ∀ k ∈ edgeKeys, Dict.get? e.2.2 k ≠ none)

theorem fill_get? (keys : List String) (d : String → Val) (a : Attrs) {k : String} (hk : k ∈ keys) :
    Dict.get? (fill keys d a) k = some (match Dict.get? a k with | some v => v | none => d k) := by
  unfold fill
  induction keys with
  | nil => cases hk
  | cons k0 rest ih =>
    simp only [List.map_cons, Dict.get?]
    by_cases h : k0 = k
    · subst h; simp only [if_true]; rfl
    · simp only [h, if_false]
      rcases List.mem_cons.1 hk with rfl | hk'
      · exact absurd rfl h
      · exact ih hk'

theorem fill_get_of_complete (keys : List String) (d : String → Val) (a : Attrs) {k : String} (hk : k ∈ keys)
    (hc : Dict.get? a k ≠ none) : Attrs.get (fill keys d a) k = Attrs.get a k := by
  unfold Attrs.get Dict.getD
  rw [fill_get? keys d a hk]
  cases h : Dict.get? a k with
  | none => exact absurd h hc
  | some v => rfl

theorem normalize_attrs (c : Cfg) {G : LGraph} (hn : G.ids.Nodup) {v : Nat} {a : Attrs} (h : (v, a) ∈ G.nodes) :
    (normalize c G).attrs v = fill c.nodeKeys nodeDefault a := by
  apply attrs_of_mem (by rw [normalize_ids]; exact hn)
  simp only [normalize, List.mem_map]
  exact ⟨(v, a), h, rfl⟩

theorem normalize_edge? (c : Cfg) (G : LGraph) (u v : Nat) :
    (normalize c G).edge? u v = (G.edge? u v).map (fill c.edgeKeys edgeDefault) := by
  unfold LGraph.edge? normalize
  simp only [List.find?_map, Option.map_map]
  rfl

theorem normalize_neighbors (c : Cfg) (G : LGraph) (v : Nat) : (normalize c G).neighbors v = G.neighbors v := by
  unfold LGraph.neighbors normalize
  simp only [List.filterMap_map]
  rfl

/-- an automorphism of the normalised graph is an automorphism of the raw graph when every
selected attribute is present -/
theorem autFn_of_normalize (c : Cfg) {G : LGraph} (hwf : G.WF) (hc : AttrComplete c.nodeKeys c.edgeKeys G)
    {f : Nat → Nat} (hf : IsAutFn c.sel (normalize c G) f) : IsAutFn c.sel G f := by
  have hids := normalize_ids c G
  have hattr : ∀ v ∈ G.ids, ∃ a, (v, a) ∈ G.nodes ∧ G.attrs v = a ∧
      (normalize c G).attrs v = fill c.nodeKeys nodeDefault a := by
    intro v hv
    obtain ⟨a, ha⟩ := mem_ids_iff.1 hv
    exact ⟨a, ha, attrs_of_mem hwf.1 ha, normalize_attrs c hwf.1 ha⟩
  refine ⟨?_, ?_, ?_, ?_, ?_⟩
  · intro v hv; rw [← hids]; exact hf.maps v (by rw [hids]; exact hv)
  · intro u hu v hv; exact hf.inj u (by rw [hids]; exact hu) v (by rw [hids]; exact hv)
  · intro v hv
    have h1 := hf.node v (by rw [hids]; exact hv)
    have hfv : f v ∈ G.ids := by rw [← hids]; exact hf.maps v (by rw [hids]; exact hv)
    obtain ⟨a, ha, e1, e2⟩ := hattr v hv
    obtain ⟨b, hb, e3, e4⟩ := hattr (f v) hfv
    rw [e2, e4] at h1
    rw [e1, e3]
    rw [nodeOk_iff rfl] at h1 ⊢
    intro k hk
    have hk' : k ∈ c.nodeKeys := hk
    have := h1 k hk
    rw [fill_get_of_complete _ _ _ hk' (hc.1 _ hb k hk'), fill_get_of_complete _ _ _ hk' (hc.1 _ ha k hk')] at this
    exact this
  · intro u hu v hv a ha
    have h1 : (normalize c G).edge? u v = some (fill c.edgeKeys edgeDefault a) := by
      rw [normalize_edge?, ha]; rfl
    obtain ⟨b', hb1, hb2⟩ := hf.edge u (by rw [hids]; exact hu) v (by rw [hids]; exact hv) _ h1
    rw [normalize_edge?] at hb1
    obtain ⟨b, hb, rfl⟩ := Option.map_eq_some_iff.1 hb1
    refine ⟨b, hb, ?_⟩
    have ca : ∀ k ∈ c.edgeKeys, Dict.get? a k ≠ none := by
      rcases edge?_some_mem ha with h | h
      · exact hc.2 _ h
      · exact hc.2 _ h
    have cb : ∀ k ∈ c.edgeKeys, Dict.get? b k ≠ none := by
      rcases edge?_some_mem hb with h | h
      · exact hc.2 _ h
      · exact hc.2 _ h
    rw [edgeOk_iff] at hb2 ⊢
    intro k hk
    have hk' : k ∈ c.edgeKeys := hk
    have := hb2 k hk
    rw [fill_get_of_complete _ _ _ hk' (cb k hk'), fill_get_of_complete _ _ _ hk' (ca k hk')] at this
    exact this
  · intro u hu v hv hne
    have h1 : (normalize c G).edge? u v = none := by rw [normalize_edge?, hne]; rfl
    have := hf.nonedge u (by rw [hids]; exact hu) v (by rw [hids]; exact hv) h1
    rw [normalize_edge?] at this
    simpa using this

/-! ## extending an automorphism of a component by the identity -/

theorem induce_attrs {G : LGraph} (hwf : G.WF) {S : List Nat} {v : Nat} (hv : v ∈ G.ids) (hs : v ∈ S) :
    (induce G S).attrs v = G.attrs v := by
  obtain ⟨a, ha⟩ := mem_ids_iff.1 hv
  rw [attrs_of_mem hwf.1 ha]
  apply attrs_of_mem (induce_wf hwf S).1
  simp only [induce, List.mem_filter, List.contains_iff_mem]
  exact ⟨ha, hs⟩

theorem induce_edge? {G : LGraph} (hwf : G.WF) {S : List Nat} {u v : Nat} (hu : u ∈ S) (hv : v ∈ S) :
    (induce G S).edge? u v = G.edge? u v := by
  apply Option.ext
  intro a
  rw [edge?_some_iff (induce_wf hwf S), edge?_some_iff hwf]
  simp only [induce, List.mem_filter, Bool.and_eq_true, List.contains_iff_mem, hu, hv, and_self, and_true]

theorem extend_aut {sel : Sel} (hh : sel.hcountRule = false) {G : LGraph} (hwf : G.WF) {S : List Nat}
    (hcl : Closed G S) {f : Nat → Nat} (hf : IsAutFn sel (induce G S) f) :
    IsAutFn sel G (fun x => if x ∈ S then f x else x) := by
  have hin : ∀ x ∈ G.ids, x ∈ S → f x ∈ G.ids ∧ f x ∈ S := fun x hx hs =>
    mem_induce_ids.1 (hf.maps x (mem_induce_ids.2 ⟨hx, hs⟩))
  have hadj : ∀ u v a, G.edge? u v = some a → (u ∈ S ↔ v ∈ S) := by
    intro u v a ha
    have h1 : v ∈ G.neighbors u := mem_neighbors_iff.2 (by simp [ha])
    exact ⟨fun hu => hcl u hu v h1, fun hv => hcl v hv u (neighbors_symm h1)⟩
  refine ⟨?_, ?_, ?_, ?_, ?_⟩
  · intro v hv
    by_cases hs : v ∈ S
    · simp only [hs, if_true]; exact (hin v hv hs).1
    · simp only [hs, if_false]; exact hv
  · intro u hu v hv h
    by_cases hsu : u ∈ S <;> by_cases hsv : v ∈ S
    · simp only [hsu, hsv, if_true] at h
      exact hf.inj u (mem_induce_ids.2 ⟨hu, hsu⟩) v (mem_induce_ids.2 ⟨hv, hsv⟩) h
    · simp only [hsu, hsv, if_true, if_false] at h
      exact absurd (h ▸ (hin u hu hsu).2) hsv
    · simp only [hsu, hsv, if_true, if_false] at h
      exact absurd (h ▸ (hin v hv hsv).2) hsu
    · simpa [hsu, hsv] using h
  · intro v hv
    by_cases hs : v ∈ S
    · simp only [hs, if_true]
      have := hf.node v (mem_induce_ids.2 ⟨hv, hs⟩)
      rw [induce_attrs hwf (hin v hv hs).1 (hin v hv hs).2, induce_attrs hwf hv hs] at this
      exact this
    · simp only [hs, if_false]; exact (nodeOk_iff hh _ _).2 (fun _ _ => rfl)
  · intro u hu v hv a ha
    have hiff := hadj u v a ha
    by_cases hsu : u ∈ S
    · have hsv := hiff.1 hsu
      simp only [hsu, hsv, if_true]
      have h1 : (induce G S).edge? u v = some a := by rw [induce_edge? hwf hsu hsv]; exact ha
      obtain ⟨b, hb1, hb2⟩ := hf.edge u (mem_induce_ids.2 ⟨hu, hsu⟩) v (mem_induce_ids.2 ⟨hv, hsv⟩) a h1
      rw [induce_edge? hwf (hin u hu hsu).2 (hin v hv hsv).2] at hb1
      exact ⟨b, hb1, hb2⟩
    · have hsv : v ∉ S := fun h => hsu (hiff.2 h)
      simp only [hsu, hsv, if_false]
      exact ⟨a, ha, (edgeOk_iff _ _).2 (fun _ _ => rfl)⟩
  · intro u hu v hv hne
    by_cases hsu : u ∈ S <;> by_cases hsv : v ∈ S
    · simp only [hsu, hsv, if_true]
      have h1 : (induce G S).edge? u v = none := by rw [induce_edge? hwf hsu hsv]; exact hne
      have := hf.nonedge u (mem_induce_ids.2 ⟨hu, hsu⟩) v (mem_induce_ids.2 ⟨hv, hsv⟩) h1
      rw [induce_edge? hwf (hin u hu hsu).2 (hin v hv hsv).2] at this
      exact this
    · simp only [hsu, hsv, if_true, if_false]
      cases hE : G.edge? (f u) v with
      | none => rfl
      | some a => exact absurd ((hadj _ _ a hE).1 (hin u hu hsu).2) hsv
    · simp only [hsu, hsv, if_true, if_false]
      cases hE : G.edge? u (f v) with
      | none => rfl
      | some a => exact absurd ((hadj _ _ a hE).2 (hin v hv hsv).2) hsu
    · simpa [hsu, hsv] using hne

theorem closed_normalize (c : Cfg) {G : LGraph} {S : List Nat} (h : Closed G S) : Closed (normalize c G) S := by
  intro s hs w hw
  rw [normalize_neighbors] at hw
  exact h s hs w hw

end SynKit.Aut

import SynKitModel.CrnIR
import SynKitProofs.CrnIROrder
import SynKitProofs.NautyIRSearch
/-!
# The CRN individualisation–refinement search is a fold over the leaves (C18)

* `crnSearch` is the left fold of the leaf case over `crnLeaves` (there is no pruning).
* The fold from `none` returns the first leaf with the least label, together with the permutations
  of **all** leaves carrying that label, in visiting order (`perms`).
-/
set_option linter.unusedSimpArgs false
set_option linter.unusedVariables false
namespace SynKit.CrnCanon
open SynKit
open SynKit.Canon (StrictTotal minBy minBy_cons minBy_mem minBy_least irIsDiscrete irTargetCell irIndividualise)

/-- fold of the leaf case over a list of leaves -/
def crnFoldLeaves (lt : CrnLabel → CrnLabel → Bool) (sel : SelD) (G : LGraph)
    (ls : List (List Nat × List Nat)) (st : Option CrnBest) : Option CrnBest :=
  ls.foldl (fun b l => crnUpdate lt b (crnLeafLabel sel G l) l.2) st

theorem crnFoldLeaves_cons (lt) (sel : SelD) (G : LGraph) (l : List Nat × List Nat) (ls : List (List Nat × List Nat))
    (st : Option CrnBest) :
    crnFoldLeaves lt sel G (l :: ls) st = crnFoldLeaves lt sel G ls (crnUpdate lt st (crnLeafLabel sel G l) l.2) := rfl

theorem crnFoldLeaves_append (lt) (sel : SelD) (G : LGraph) (a b : List (List Nat × List Nat)) (st : Option CrnBest) :
    crnFoldLeaves lt sel G (a ++ b) st = crnFoldLeaves lt sel G b (crnFoldLeaves lt sel G a st) := by
  simp only [crnFoldLeaves, List.foldl_append]

theorem foldl_eq_crnFoldLeaves_flatMap {β : Type} (lt) (sel : SelD) (G : LGraph)
    (step : Option CrnBest → β → Option CrnBest) (g : β → List (List Nat × List Nat))
    (h : ∀ st v, step st v = crnFoldLeaves lt sel G (g v) st) :
    ∀ (cs : List β) (st : Option CrnBest), cs.foldl step st = crnFoldLeaves lt sel G (cs.flatMap g) st := by
  intro cs
  induction cs with
  | nil => intro st; rfl
  | cons c cs ih =>
    intro st
    rw [List.foldl_cons, List.flatMap_cons, crnFoldLeaves_append, ih, h]

/-- **The search is the fold of the leaf case over the leaves of the search tree.** -/
theorem crnSearch_eq_fold (lt) (sel : SelD) (G : LGraph) (fuel : Nat) (P : List (List Nat)) (pfx : List Nat)
    (st : Option CrnBest) :
    crnSearch lt sel G fuel P pfx st = crnFoldLeaves lt sel G (crnLeaves sel G fuel P pfx) st := by
  induction fuel generalizing P pfx st with
  | zero => rfl
  | succ fuel ih =>
    simp only [crnSearch, crnLeaves]
    split
    · rfl
    · split
      · rfl
      · rename_i pre c post _
        exact foldl_eq_crnFoldLeaves_flatMap lt sel G
          (fun st v => crnSearch lt sel G fuel (irIndividualise pre c post v) (pfx ++ [v]) st)
          (fun v => crnLeaves sel G fuel (irIndividualise pre c post v) (pfx ++ [v]))
          (fun st v => ih _ _ st) _ st

theorem crnIrWith_eq_fold (lt) (sel : SelD) (G : LGraph) :
    crnIrWith lt sel G = crnFoldLeaves lt sel G (crnRootLeaves sel G) none :=
  crnSearch_eq_fold lt sel G _ _ _ _

/-! ## What the fold returns -/

/-- the leaves of a list carrying a given label, as permutations -/
def crnWithLabel (sel : SelD) (G : LGraph) (L : CrnLabel) (ls : List (List Nat × List Nat)) : List (List Nat) :=
  (ls.filter fun l => decide (crnLeafLabel sel G l = L)).map (·.2)

theorem crnWithLabel_cons (sel : SelD) (G : LGraph) (L : CrnLabel) (y : List Nat × List Nat)
    (ys : List (List Nat × List Nat)) :
    crnWithLabel sel G L (y :: ys) = (if crnLeafLabel sel G y = L then [y.2] else []) ++ crnWithLabel sel G L ys := by
  unfold crnWithLabel
  rw [List.filter_cons]
  by_cases h : crnLeafLabel sel G y = L <;> simp [h]

/-- the first leaf of `x :: ls` with the least label -/
abbrev crnMinLeaf (lt : CrnLabel → CrnLabel → Bool) (sel : SelD) (G : LGraph) (x : List Nat × List Nat)
    (ls : List (List Nat × List Nat)) : List Nat × List Nat :=
  minBy (fun a b => lt (crnLeafLabel sel G a) (crnLeafLabel sel G b)) x ls

theorem crnMinLeaf_least (lt) (hlt : StrictTotal lt) (sel : SelD) (G : LGraph) (x : List Nat × List Nat)
    (ls : List (List Nat × List Nat)) :
    ∀ z ∈ x :: ls, lt (crnLeafLabel sel G z) (crnLeafLabel sel G (crnMinLeaf lt sel G x ls)) = false :=
  Canon.minBy_least_weak (fun a b => lt (crnLeafLabel sel G a) (crnLeafLabel sel G b))
    (fun a b => hlt.asymm _ _) (fun a b c => hlt.le_trans _ _ _) x ls

theorem crnFoldLeaves_some (lt) (hlt : StrictTotal lt) (sel : SelD) (G : LGraph) :
    ∀ (ls : List (List Nat × List Nat)) (x : List Nat × List Nat) (ps : List (List Nat)),
      crnFoldLeaves lt sel G ls (some ⟨crnLeafLabel sel G x, x.2, ps⟩) =
        some ⟨crnLeafLabel sel G (crnMinLeaf lt sel G x ls), (crnMinLeaf lt sel G x ls).2,
          (if crnLeafLabel sel G x = crnLeafLabel sel G (crnMinLeaf lt sel G x ls) then ps else []) ++
            crnWithLabel sel G (crnLeafLabel sel G (crnMinLeaf lt sel G x ls)) ls⟩ := by
  intro ls
  induction ls with
  | nil =>
    intro x ps
    simp [crnFoldLeaves, crnMinLeaf, minBy, crnWithLabel]
  | cons y ys ih =>
    intro x ps
    rw [crnFoldLeaves_cons]
    have hmin : crnMinLeaf lt sel G x (y :: ys) =
        crnMinLeaf lt sel G (if lt (crnLeafLabel sel G y) (crnLeafLabel sel G x) then y else x) ys := minBy_cons _ x y ys
    rw [hmin, crnWithLabel_cons]
    simp only [crnUpdate]
    by_cases h1 : lt (crnLeafLabel sel G y) (crnLeafLabel sel G x) = true
    · simp only [h1, if_true]
      rw [ih y [y.2]]
      have hle := crnMinLeaf_least lt hlt sel G y ys y List.mem_cons_self
      have hne : crnLeafLabel sel G x ≠ crnLeafLabel sel G (crnMinLeaf lt sel G y ys) := by
        intro e
        rw [← e, h1] at hle
        exact absurd hle (by simp)
      simp only [hne, if_false, List.nil_append]
    · simp only [h1, if_false, Bool.false_eq_true]
      by_cases h2 : crnLeafLabel sel G y = crnLeafLabel sel G x
      · simp only [h2, if_true]
        rw [ih x (ps ++ [y.2])]
        by_cases h3 : crnLeafLabel sel G x = crnLeafLabel sel G (crnMinLeaf lt sel G x ys)
        · simp only [h3, if_true, List.append_assoc]
        · simp only [h3, if_false, List.nil_append]
      · simp only [h2, if_false]
        rw [ih x ps]
        have hxy : lt (crnLeafLabel sel G x) (crnLeafLabel sel G y) = true := by
          rcases hlt.total (crnLeafLabel sel G x) (crnLeafLabel sel G y) with h | h | h
          · exact h
          · exact absurd h.symm h2
          · exact absurd h h1
        have hle := crnMinLeaf_least lt hlt sel G x ys x List.mem_cons_self
        have hne : crnLeafLabel sel G y ≠ crnLeafLabel sel G (crnMinLeaf lt sel G x ys) := by
          intro e
          rw [← e, hxy] at hle
          exact absurd hle (by simp)
        simp only [hne, if_false, List.nil_append]

/-- **The fold from `none`**: the first leaf with the least label, and all leaves with that label. -/
theorem crnFoldLeaves_none_cons (lt) (hlt : StrictTotal lt) (sel : SelD) (G : LGraph) (l : List Nat × List Nat)
    (ls : List (List Nat × List Nat)) :
    crnFoldLeaves lt sel G (l :: ls) none =
      some ⟨crnLeafLabel sel G (crnMinLeaf lt sel G l ls), (crnMinLeaf lt sel G l ls).2,
        crnWithLabel sel G (crnLeafLabel sel G (crnMinLeaf lt sel G l ls)) (l :: ls)⟩ := by
  rw [crnFoldLeaves_cons]
  simp only [crnUpdate]
  rw [crnFoldLeaves_some lt hlt sel G ls l [l.2], crnWithLabel_cons]

theorem crnFoldLeaves_none_nil (lt) (sel : SelD) (G : LGraph) : crnFoldLeaves lt sel G [] none = none := rfl

/-- `perms[0]` is `best["perm"]` -/
theorem crnFoldLeaves_head (lt) (sel : SelD) (G : LGraph) (ls : List (List Nat × List Nat)) (st : Option CrnBest)
    (h : ∀ b, st = some b → b.perms.head? = some b.perm) :
    ∀ b, crnFoldLeaves lt sel G ls st = some b → b.perms.head? = some b.perm := by
  induction ls generalizing st with
  | nil => exact h
  | cons l ls ih =>
    rw [crnFoldLeaves_cons]
    apply ih
    intro b hb
    cases st with
    | none =>
      simp only [crnUpdate, Option.some.injEq] at hb
      subst hb
      rfl
    | some b0 =>
      simp only [crnUpdate] at hb
      split at hb
      · simp only [Option.some.injEq] at hb
        subst hb
        rfl
      · split at hb
        · simp only [Option.some.injEq] at hb
          subst hb
          have := h b0 rfl
          simp only
          cases hp : b0.perms with
          | nil => rw [hp] at this; simp at this
          | cons p ps => rw [hp] at this; simpa using this
        · simp only [Option.some.injEq] at hb
          subst hb
          exact h b0 rfl

end SynKit.CrnCanon

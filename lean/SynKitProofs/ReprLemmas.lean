import SynKitModel.Repr
import Mathlib.Tactic.Ring
/-! Helper lemmas for C10: hydrogens (explicit ↔ implicit) and the molecule table. -/
namespace SynKit.Repr
open SynKit

/-! ### dictionaries -/

theorem Dict.set_eq_self {α} (d : Dict α) (k : String) (v : α) (h : Dict.get? d k = some v) :
    Dict.set d k v = d := by
  induction d with
  | nil => simp [Dict.get?] at h
  | cons p rest ih =>
    obtain ⟨k', v'⟩ := p
    simp only [Dict.get?] at h
    simp only [Dict.set]
    by_cases hk : k' = k
    · simp only [hk, if_true, Option.some.injEq] at h; simp [hk, h]
    · simp only [hk, if_false] at h; simp [hk, ih h]

theorem Dict.set_set {α} (d : Dict α) (k : String) (v w : α) :
    Dict.set (Dict.set d k v) k w = Dict.set d k w := by
  induction d with
  | nil => simp [Dict.set]
  | cons p rest ih =>
    obtain ⟨k', v'⟩ := p
    simp only [Dict.set]
    by_cases hk : k' = k
    · simp [hk, Dict.set]
    · simp [hk, Dict.set, ih]

theorem get_set_other (a : Attrs) (k x : String) (v : Val) (hx : x ≠ k) :
    Attrs.get (Dict.set a k v) x = Attrs.get a x := by
  simp [Attrs.get, Dict.getD, Dict.get?_set_other a k v x hx]

theorem isH_set_hcount (a : Attrs) (v : Val) : isH (Dict.set a "hcount" v) = isH a := by
  simp [isH, get_set_other a "hcount" "element" v (by decide)]

theorem hraw_set (a : Attrs) (x : Int) : hraw (Dict.set a "hcount" (.num x)) = x := by
  simp [hraw, Dict.get?_set_self]

theorem isH_bump (a : Attrs) : isH (bump a) = isH a := isH_set_hcount a _

theorem isH_hAttrs : isH hAttrs = true := by decide

theorem hcnt_hAttrs : hcnt hAttrs = 0 := by decide

theorem zeroH_fst (p : Nat × Attrs) : (zeroH p).1 = p.1 := by
  unfold zeroH; split <;> rfl

theorem isH_zeroH (p : Nat × Attrs) : isH (zeroH p).2 = isH p.2 := by
  unfold zeroH; split
  · exact isH_set_hcount _ _
  · rfl

theorem hcnt_zeroH (p : Nat × Attrs) : hcnt (zeroH p).2 = if hcnt p.2 > 0 then 0 else hcnt p.2 := by
  unfold zeroH; split
  · simp only [hcnt, hraw_set]; omega
  · rfl

/-- iterate `bump`. -/
def bumpN : Nat → Attrs → Attrs
  | 0, a => a
  | n + 1, a => bumpN n (bump a)

theorem bumpN_set (n : Nat) (a : Attrs) (x : Int) :
    bumpN n (Dict.set a "hcount" (.num x)) = Dict.set a "hcount" (.num (x + 2 * n)) := by
  induction n generalizing x with
  | zero => simp [bumpN]
  | succ n ih =>
    simp only [bumpN, bump, hraw_set, Dict.set_set, ih]
    congr 2; push_cast; ring

/-- the count of a typed node is restored by as many bumps as were taken away. -/
theorem bumpN_zeroH (p : Nat × Attrs) (ht : attrsTyped p.2 = true) :
    bumpN (hcnt p.2).toNat (zeroH p).2 = p.2 := by
  unfold zeroH
  by_cases hc : hcnt p.2 > 0
  · simp only [hc, if_true]
    rw [bumpN_set]
    have hty : (match Dict.get? p.2 "hcount" with
        | none => true | some (.num h) => decide (h % 2 = 0) | some _ => false) = true := by
      have := ht; simp only [attrsTyped, List.all_cons, Bool.and_eq_true] at this; exact this.1
    cases hg : Dict.get? p.2 "hcount" with
    | none => simp [hcnt, hraw, hg] at hc
    | some v =>
      cases v with
      | num h =>
        simp only [hg, decide_eq_true_eq] at hty
        apply Dict.set_eq_self
        rw [hg]
        have h1 : hraw p.2 = h := by simp [hraw, hg]
        have h2 : hcnt p.2 = h / 2 := by simp [hcnt, h1]
        rw [h1, h2]
        have : ((h / 2).toNat : Int) = h / 2 := Int.toNat_of_nonneg (by rw [h2] at hc; omega)
        rw [this]; congr 2; omega
      | none => simp [hcnt, hraw, hg] at hc
      | str _ => simp [hcnt, hraw, hg] at hc
      | bool _ => simp [hcnt, hraw, hg] at hc
      | tup _ => simp [hcnt, hraw, hg] at hc
  · simp only [hc, if_false]
    have : (hcnt p.2).toNat = 0 := by omega
    rw [this]; rfl


/-! ### the plan of `h_to_explicit` -/

def tot (ns : List (Nat × Attrs)) : Nat := (ns.map fun p => (hcnt p.2).toNat).sum

def parents : List (Nat × Attrs) → List Nat
  | [] => []
  | p :: rest => List.replicate (hcnt p.2).toNat p.1 ++ parents rest

theorem plan_fst (ns : List (Nat × Attrs)) (mx : Nat) :
    (plan ns mx).map (·.1) = List.range' (mx + 1) (tot ns) := by
  induction ns generalizing mx with
  | nil => simp [plan, tot]
  | cons p rest ih =>
    simp only [plan, List.map_append, List.map_map, tot, List.map_cons, List.sum_cons]
    rw [ih]
    have : (List.map ((fun x => x.1) ∘ fun f => (f, p.1)) (List.range' (mx + 1) (hcnt p.2).toNat)) =
        List.range' (mx + 1) (hcnt p.2).toNat := by
      simp [Function.comp_def]
    rw [this]
    rw [show mx + (hcnt p.2).toNat + 1 = (mx + 1) + 1 * (hcnt p.2).toNat by omega]
    rw [List.range'_append]
    rfl

theorem plan_snd (ns : List (Nat × Attrs)) (mx : Nat) : (plan ns mx).map (·.2) = parents ns := by
  induction ns generalizing mx with
  | nil => simp [plan, parents]
  | cons p rest ih =>
    simp only [plan, List.map_append, List.map_map, parents, ih]
    congr 1
    simp [Function.comp_def, List.map_const']

theorem plan_length (ns : List (Nat × Attrs)) (mx : Nat) : (plan ns mx).length = tot ns := by
  have := congrArg List.length (plan_fst ns mx); simpa using this

theorem mem_parents (ns : List (Nat × Attrs)) (v : Nat) (h : v ∈ parents ns) :
    ∃ p ∈ ns, p.1 = v ∧ hcnt p.2 > 0 := by
  induction ns with
  | nil => simp [parents] at h
  | cons p rest ih =>
    simp only [parents, List.mem_append, List.mem_replicate] at h
    rcases h with ⟨h1, h2⟩ | h
    · exact ⟨p, List.mem_cons_self, h2.symm, by omega⟩
    · obtain ⟨q, hq, h3⟩ := ih h; exact ⟨q, List.mem_cons_of_mem _ hq, h3⟩

theorem count_parents_notin (ns : List (Nat × Attrs)) (x : Nat) (h : x ∉ ns.map (·.1)) :
    (parents ns).count x = 0 := by
  rw [List.count_eq_zero]
  intro hx
  obtain ⟨p, hp, h1, _⟩ := mem_parents ns x hx
  exact h (List.mem_map.2 ⟨p, hp, h1⟩)

theorem count_parents (ns : List (Nat × Attrs)) (hn : (ns.map (·.1)).Nodup) (p : Nat × Attrs) (hp : p ∈ ns) :
    (parents ns).count p.1 = (hcnt p.2).toNat := by
  induction ns with
  | nil => simp at hp
  | cons q rest ih =>
    simp only [List.map_cons, List.nodup_cons] at hn
    simp only [parents, List.count_append]
    rcases List.mem_cons.1 hp with rfl | hp'
    · rw [count_parents_notin rest _ hn.1]; simp
    · rw [ih hn.2 hp']
      have : q.1 ≠ p.1 := by
        intro e; exact hn.1 (e ▸ List.mem_map.2 ⟨p, hp', rfl⟩)
      simp [List.count_replicate, this]

theorem le_maxId_aux (l : List Nat) (a v : Nat) (h : v ∈ l ∨ v ≤ a) : v ≤ l.foldl max a := by
  induction l generalizing a with
  | nil => simpa using h
  | cons x xs ih =>
    simp only [List.foldl_cons]
    apply ih
    rcases h with h | h
    · rcases List.mem_cons.1 h with rfl | h
      · right; exact Nat.le_max_right _ _
      · left; exact h
    · right; exact Nat.le_trans h (Nat.le_max_left _ _)

theorem le_maxId (g : LGraph) (v : Nat) (h : v ∈ g.ids) : v ≤ maxId g := le_maxId_aux _ _ _ (Or.inl h)

/-! ### bumping a list of nodes -/

def bumpAt (N : List (Nat × Attrs)) (v : Nat) : List (Nat × Attrs) :=
  N.map fun p => if p.1 = v then (p.1, bump p.2) else p

def bumpAll (N : List (Nat × Attrs)) (vs : List Nat) : List (Nat × Attrs) := vs.foldl bumpAt N

theorem bumpAt_fst (N : List (Nat × Attrs)) (v : Nat) : (bumpAt N v).map (·.1) = N.map (·.1) := by
  simp only [bumpAt, List.map_map]; apply List.map_congr_left; intro p _; simp only [Function.comp]; split <;> rfl

theorem bumpAll_eq (N : List (Nat × Attrs)) (vs : List Nat) :
    bumpAll N vs = N.map fun p => (p.1, bumpN (vs.count p.1) p.2) := by
  induction vs generalizing N with
  | nil => simp [bumpAll, bumpN]
  | cons v vs ih =>
    have : bumpAll N (v :: vs) = bumpAll (bumpAt N v) vs := rfl
    rw [this, ih, bumpAt, List.map_map]
    apply List.map_congr_left
    intro p _
    simp only [Function.comp]
    by_cases h : p.1 = v
    · simp [h, List.count_cons_self, bumpN]
    · have h' : ¬ (v = p.1) := fun e => h e.symm
      simp [h, List.count_cons, h']


/-! ### look-ups -/

def nbrsOf (es : List (Nat × Nat × Attrs)) (v : Nat) : List Nat :=
  es.filterMap fun e => if e.1 = v then some e.2.1 else if e.2.1 = v then some e.1 else Option.none

theorem neighbors_eq (g : LGraph) (v : Nat) : g.neighbors v = nbrsOf g.edges v := rfl

theorem nbrsOf_append (a b : List (Nat × Nat × Attrs)) (v : Nat) : nbrsOf (a ++ b) v = nbrsOf a v ++ nbrsOf b v := by
  simp [nbrsOf, List.filterMap_append]

theorem nbrsOf_nil_of (es : List (Nat × Nat × Attrs)) (v : Nat) (h : ∀ e ∈ es, e.1 ≠ v ∧ e.2.1 ≠ v) :
    nbrsOf es v = [] := by
  simp only [nbrsOf, List.filterMap_eq_nil_iff]
  intro e he
  obtain ⟨h1, h2⟩ := h e he
  simp [h1, h2]

theorem find_of_mem (N M : List (Nat × Attrs)) (hn : (N.map (·.1)).Nodup) (p : Nat × Attrs) (hp : p ∈ N) :
    (N ++ M).find? (fun q => q.1 = p.1) = some p := by
  induction N with
  | nil => simp at hp
  | cons q rest ih =>
    simp only [List.map_cons, List.nodup_cons] at hn
    rcases List.mem_cons.1 hp with rfl | hp'
    · simp
    · have : q.1 ≠ p.1 := fun e => hn.1 (e ▸ List.mem_map.2 ⟨p, hp', rfl⟩)
      simp only [List.cons_append, List.find?_cons, this, decide_false]
      exact ih hn.2 hp'

theorem attrs_of_mem (N M : List (Nat × Attrs)) (E : List (Nat × Nat × Attrs)) (hn : (N.map (·.1)).Nodup)
    (p : Nat × Attrs) (hp : p ∈ N) : (⟨N ++ M, E⟩ : LGraph).attrs p.1 = p.2 := by
  simp [LGraph.attrs, find_of_mem N M hn p hp]

/-! ### folding the fresh hydrogens back -/

theorem collapse (P : List (Nat × Nat)) : ∀ (N : List (Nat × Attrs)) (Eg : List (Nat × Nat × Attrs)),
    (P.map (·.1)).Nodup → (N.map (·.1)).Nodup →
    (∀ q ∈ P, q.1 ∉ N.map (·.1)) →
    (∀ q ∈ P, ∀ e ∈ Eg, e.1 ≠ q.1 ∧ e.2.1 ≠ q.1) →
    (∀ q ∈ P, ∃ p ∈ N, p.1 = q.2 ∧ isH p.2 = false) →
    (P.map (·.1)).foldl implStep ⟨N ++ P.map freshNode, Eg ++ P.map freshEdge⟩ = ⟨bumpAll N (P.map (·.2)), Eg⟩ := by
  induction P with
  | nil => intro N Eg _ _ _ _ _; simp [bumpAll]
  | cons q P ih =>
    intro N Eg h1 hN h2 h3 h4
    simp only [List.map_cons, List.nodup_cons] at h1
    -- parents are never fresh
    have hpf : ∀ q' ∈ q :: P, ∀ q'' ∈ q :: P, q'.2 ≠ q''.1 := by
      intro q' hq' q'' hq'' e
      obtain ⟨p, hp, hp1, _⟩ := h4 q' hq'
      exact h2 q'' hq'' (e ▸ hp1 ▸ List.mem_map.2 ⟨p, hp, rfl⟩)
    obtain ⟨p, hp, hp1, hp2⟩ := h4 q List.mem_cons_self
    have hne : ∀ q' ∈ P, q'.1 ≠ q.1 := by
      intro q' hq' e; exact h1.1 (e ▸ List.mem_map.2 ⟨q', hq', rfl⟩)
    -- the neighbours of the fresh hydrogen: exactly its parent
    have hnb : (⟨N ++ (q :: P).map freshNode, Eg ++ (q :: P).map freshEdge⟩ : LGraph).neighbors q.1 = [q.2] := by
      rw [neighbors_eq]
      simp only [List.map_cons, nbrsOf_append]
      rw [nbrsOf_nil_of Eg q.1 (h3 q List.mem_cons_self)]
      have : nbrsOf (freshEdge q :: P.map freshEdge) q.1 = [q.2] := by
        have hq : q.2 ≠ q.1 := hpf q List.mem_cons_self q List.mem_cons_self
        have : nbrsOf (P.map freshEdge) q.1 = [] := by
          apply nbrsOf_nil_of
          intro e he
          obtain ⟨q', hq', rfl⟩ := List.mem_map.1 he
          exact ⟨hpf q' (List.mem_cons_of_mem _ hq') q List.mem_cons_self, hne q' hq'⟩
        have h5 : nbrsOf (freshEdge q :: P.map freshEdge) q.1 = nbrsOf [freshEdge q] q.1 ++ nbrsOf (P.map freshEdge) q.1 :=
          nbrsOf_append [freshEdge q] _ _
        rw [h5, this]
        simp [nbrsOf, freshEdge, hq]
      simp [this]
    have hattr : (⟨N ++ (q :: P).map freshNode, Eg ++ (q :: P).map freshEdge⟩ : LGraph).attrs q.2 = p.2 := by
      rw [← hp1]; exact attrs_of_mem N _ _ hN p hp
    have hfold : ∀ g : LGraph, List.foldl implStep g (List.map (fun x => x.1) (q :: P)) =
        List.foldl implStep (implStep g q.1) (List.map (fun x => x.1) P) := fun _ => rfl
    have hstep : implStep ⟨N ++ (q :: P).map freshNode, Eg ++ (q :: P).map freshEdge⟩ q.1 =
        ⟨bumpAt N q.2 ++ P.map freshNode, Eg ++ P.map freshEdge⟩ := by
      unfold implStep
      rw [hnb]
      simp only [List.all_cons, List.all_nil, Bool.and_true, hattr, hp2, Bool.false_eq_true, if_false,
        List.foldl_cons, List.foldl_nil, bumpIfHeavy]
      simp only [removeNode, updAttrs, List.map_append, List.filter_append, List.map_cons]
      congr 1
      · congr 1
        · -- old nodes: bumped, all kept
          rw [List.filter_eq_self.2]
          · rfl
          · intro x hx
            obtain ⟨y, hy, rfl⟩ := List.mem_map.1 hx
            have : y.1 ≠ q.1 := fun e => h2 q List.mem_cons_self (e ▸ List.mem_map.2 ⟨y, hy, rfl⟩)
            by_cases hy2 : y.1 = q.2 <;> simp [hy2, this]
            exact fun e => this (hy2 ▸ e)
        · -- fresh nodes: q goes, the others stay untouched
          have hq : q.2 ≠ q.1 := hpf q List.mem_cons_self q List.mem_cons_self
          have hq' : ¬ q.1 = q.2 := fun e => hq e.symm
          simp only [freshNode, hq', if_false, List.filter_cons, ne_eq, not_true_eq_false, decide_false, Bool.false_eq_true]
          rw [List.filter_eq_self.2]
          · rw [List.map_map]
            apply List.map_congr_left
            intro q' hq'
            have : ¬ q'.1 = q.2 := fun e => hpf q List.mem_cons_self q' (List.mem_cons_of_mem _ hq') e.symm
            simp [freshNode, this]
          · intro x hx
            obtain ⟨y, hy, rfl⟩ := List.mem_map.1 hx
            obtain ⟨q', hq'', rfl⟩ := List.mem_map.1 hy
            have h6 : ¬ q'.1 = q.2 := fun e => hpf q List.mem_cons_self q' (List.mem_cons_of_mem _ hq'') e.symm
            simp [freshNode, h6, hne q' hq'']
      · congr 1
        · rw [List.filter_eq_self.2]
          intro e he
          simpa using h3 q List.mem_cons_self e he
        · simp only [freshEdge, List.filter_cons, ne_eq, not_true_eq_false, and_false, decide_false, Bool.false_eq_true, if_false]
          rw [List.filter_eq_self.2]
          intro e he
          obtain ⟨q', hq', rfl⟩ := List.mem_map.1 he
          simpa using ⟨hpf q' (List.mem_cons_of_mem _ hq') q List.mem_cons_self, hne q' hq'⟩
    rw [hfold, hstep]
    have := ih (bumpAt N q.2) Eg h1.2 (by rw [bumpAt_fst]; exact hN)
      (by intro q' hq'; rw [bumpAt_fst]; exact h2 q' (List.mem_cons_of_mem _ hq'))
      (fun q' hq' => h3 q' (List.mem_cons_of_mem _ hq'))
      (by
        intro q' hq'
        obtain ⟨p', hp', hp1', hp2'⟩ := h4 q' (List.mem_cons_of_mem _ hq')
        by_cases hv : p'.1 = q.2
        · exact ⟨(p'.1, bump p'.2), List.mem_map.2 ⟨p', hp', by simp [hv]⟩, hp1', by simpa [isH_bump] using hp2'⟩
        · exact ⟨p', List.mem_map.2 ⟨p', hp', by simp [hv]⟩, hp1', hp2'⟩)
    rw [this]
    rfl


/-! ### the round trip -/

theorem foldl_fix {α β} (f : β → α → β) (g : β) (l : List α) (h : ∀ x ∈ l, f g x = g) : l.foldl f g = g := by
  induction l with
  | nil => rfl
  | cons x xs ih =>
    simp only [List.foldl_cons, h x List.mem_cons_self]
    exact ih fun y hy => h y (List.mem_cons_of_mem _ hy)

theorem eq_of_fst_eq (N : List (Nat × Attrs)) (hn : (N.map (·.1)).Nodup) (p q : Nat × Attrs)
    (hp : p ∈ N) (hq : q ∈ N) (h : p.1 = q.1) : p = q := by
  have h1 := find_of_mem N [] hn p hp
  have h2 := find_of_mem N [] hn q hq
  rw [h] at h1; rw [h1] at h2; exact Option.some.inj h2

theorem attrs_eq_of_mem (g : LGraph) (hn : g.ids.Nodup) (p : Nat × Attrs) (hp : p ∈ g.nodes) : g.attrs p.1 = p.2 := by
  have := attrs_of_mem g.nodes [] g.edges hn p hp
  simpa using this

theorem mem_nbrsOf (es : List (Nat × Nat × Attrs)) (v n : Nat) (h : n ∈ nbrsOf es v) :
    ∃ e ∈ es, (e.1 = v ∧ e.2.1 = n) ∨ (e.2.1 = v ∧ e.1 = n) := by
  simp only [nbrsOf, List.mem_filterMap] at h
  obtain ⟨e, he, h⟩ := h
  refine ⟨e, he, ?_⟩
  by_cases h1 : e.1 = v
  · simp only [h1, if_true, Option.some.injEq] at h; exact Or.inl ⟨h1, h⟩
  · by_cases h2 : e.2.1 = v
    · simp only [h1, h2, if_true, if_false, Option.some.injEq] at h; exact Or.inr ⟨h2, h⟩
    · simp [h1, h2] at h

theorem hNodes_explicit (ns : List (Nat × Attrs)) (P : List (Nat × Nat)) :
    ((ns.map zeroH ++ P.map freshNode).filter fun p => isH p.2).map (·.1) =
      ((ns.filter fun p => isH p.2).map (·.1)) ++ P.map (·.1) := by
  rw [List.filter_append, List.map_append]
  congr 1
  · induction ns with
    | nil => rfl
    | cons p rest ih =>
      simp only [List.map_cons, List.filter_cons, isH_zeroH]
      by_cases h : isH p.2 = true
      · simp only [h, if_true, List.map_cons, zeroH_fst]; rw [← ih]
      · simp only [h, if_false]; exact ih
  · rw [List.filter_eq_self.2]
    · simp [freshNode, Function.comp_def]
    · intro x hx
      obtain ⟨q, _, rfl⟩ := List.mem_map.1 hx
      exact isH_hAttrs

theorem mem_plan (ns : List (Nat × Attrs)) (mx : Nat) (q : Nat × Nat) (h : q ∈ plan ns mx) :
    mx + 1 ≤ q.1 ∧ ∃ p ∈ ns, p.1 = q.2 ∧ hcnt p.2 > 0 := by
  constructor
  · have : q.1 ∈ (plan ns mx).map (·.1) := List.mem_map.2 ⟨q, h, rfl⟩
    rw [plan_fst] at this
    exact (List.mem_range'_1.1 this).1
  · apply mem_parents
    rw [← plan_snd ns mx]
    exact List.mem_map.2 ⟨q, h, rfl⟩

theorem hToImplicit_hToExplicit' (G : LGraph) (hwf : G.WF) (ht : HTyped G) (hg : NoHeavyBoundH G) :
    hToImplicit (hToExplicit G) = G := by
  obtain ⟨hnd, hed, _⟩ := hwf
  obtain ⟨hxh, hhc⟩ := hg
  have hndz : ((G.nodes.map zeroH).map (·.1)).Nodup := by
    have : (G.nodes.map zeroH).map (·.1) = G.ids := by
      simp [LGraph.ids, List.map_map, Function.comp_def, zeroH_fst]
    rw [this]; exact hnd
  -- facts about the plan
  have hfresh : ∀ q ∈ plan G.nodes (maxId G), ∀ v ∈ G.ids, v ≠ q.1 := by
    intro q hq v hv e
    have h1 := (mem_plan _ _ q hq).1
    have h2 := le_maxId G v hv
    omega
  -- a hydrogen node of G keeps all its neighbours, all hydrogens
  have hkeep : ∀ h ∈ hNodes G, implStep (hToExplicit G) h = hToExplicit G := by
    intro h hh
    obtain ⟨ph, hph, rfl⟩ := List.mem_map.1 hh
    obtain ⟨hph1, hph2⟩ := List.mem_filter.1 hph
    unfold implStep
    have hall : ((hToExplicit G).neighbors ph.1).all (fun n => isH ((hToExplicit G).attrs n)) = true := by
      rw [List.all_eq_true]
      intro n hn
      rw [neighbors_eq] at hn
      simp only [hToExplicit, nbrsOf_append, List.mem_append] at hn
      have hnone : nbrsOf ((plan G.nodes (maxId G)).map freshEdge) ph.1 = [] := by
        apply nbrsOf_nil_of
        intro e he
        obtain ⟨q, hq, rfl⟩ := List.mem_map.1 he
        constructor
        · obtain ⟨_, p, hp, hp1, hp2⟩ := mem_plan _ _ q hq
          intro e'
          have : p = ph := eq_of_fst_eq G.nodes hnd p ph hp hph1 (hp1.trans e')
          subst this
          have := hhc p hp (by simpa using hph2)
          omega
        · exact fun e' => hfresh q hq ph.1 (List.mem_map.2 ⟨ph, hph1, rfl⟩) e'.symm
      rw [hnone] at hn
      simp only [List.not_mem_nil, or_false] at hn
      obtain ⟨e, he, hcase⟩ := mem_nbrsOf _ _ _ hn
      -- n is an id of G and a hydrogen in G
      have hxe : ((!(isH (G.attrs e.1)) && isH (G.attrs e.2.1)) || (!(isH (G.attrs e.2.1)) && isH (G.attrs e.1))) = false := by
        have := hxh
        simp only [hasXH, List.any_eq_false] at this
        have := this e he
        simpa using this
      have hph3 : isH (G.attrs ph.1) = true := by rw [attrs_eq_of_mem G hnd ph hph1]; simpa using hph2
      have hnG : n ∈ G.ids ∧ isH (G.attrs n) = true := by
        obtain ⟨h1, h2, _⟩ := hed e he
        rcases hcase with ⟨e1, e2⟩ | ⟨e1, e2⟩
        · rw [e1, e2] at hxe; rw [e2] at h2
          refine ⟨h2, ?_⟩
          rw [hph3] at hxe
          cases hv : isH (G.attrs n) <;> simp [hv] at hxe ⊢
        · rw [e1, e2] at hxe; rw [e2] at h1
          refine ⟨h1, ?_⟩
          rw [hph3] at hxe
          cases hv : isH (G.attrs n) <;> simp [hv] at hxe ⊢
      obtain ⟨pn, hpn, rfl⟩ := List.mem_map.1 hnG.1
      have h5 : (hToExplicit G).attrs pn.1 = (zeroH pn).2 := by
        have := attrs_of_mem (G.nodes.map zeroH) ((plan G.nodes (maxId G)).map freshNode)
          (G.edges ++ (plan G.nodes (maxId G)).map freshEdge) hndz (zeroH pn) (List.mem_map.2 ⟨pn, hpn, rfl⟩)
        rw [zeroH_fst] at this
        exact this
      rw [h5, isH_zeroH]
      have := hnG.2
      rw [attrs_eq_of_mem G hnd pn hpn] at this
      exact this
    rw [hall]; rfl
  -- split the fold
  unfold hToImplicit
  have hH : hNodes (hToExplicit G) = hNodes G ++ (plan G.nodes (maxId G)).map (·.1) := by
    simp only [hNodes, hToExplicit]; exact hNodes_explicit _ _
  rw [hH, List.foldl_append, foldl_fix _ _ _ hkeep]
  -- fold the fresh hydrogens back
  have hcol := collapse (plan G.nodes (maxId G)) (G.nodes.map zeroH) G.edges
    (by rw [plan_fst]; exact List.nodup_range' 1 (by omega)) hndz
    (by
      intro q hq hmem
      have : (G.nodes.map zeroH).map (·.1) = G.ids := by
        simp [LGraph.ids, List.map_map, Function.comp_def, zeroH_fst]
      rw [this] at hmem
      exact hfresh q hq q.1 hmem rfl)
    (by
      intro q hq e he
      obtain ⟨h1, h2, _⟩ := hed e he
      exact ⟨hfresh q hq _ h1, hfresh q hq _ h2⟩)
    (by
      intro q hq
      obtain ⟨_, p, hp, hp1, hp2⟩ := mem_plan _ _ q hq
      refine ⟨zeroH p, List.mem_map.2 ⟨p, hp, rfl⟩, by rw [zeroH_fst]; exact hp1, ?_⟩
      rw [isH_zeroH]
      cases hv : isH p.2
      · rfl
      · have := hhc p hp hv; omega)
  show List.foldl implStep (hToExplicit G) _ = G
  unfold hToExplicit
  rw [hcol, bumpAll_eq, plan_snd]
  have : (G.nodes.map zeroH).map (fun p => (p.1, bumpN ((parents G.nodes).count p.1) p.2)) = G.nodes := by
    rw [List.map_map]
    conv => rhs; rw [← List.map_id G.nodes]
    apply List.map_congr_left
    intro p hp
    simp only [Function.comp, zeroH_fst, id]
    rw [count_parents G.nodes hnd p hp, bumpN_zeroH p (ht p hp)]
  rw [this]


/-! ### total hydrogen count -/

def hval (p : Nat × Attrs) : Int := hcnt p.2 + (if isH p.2 then 1 else 0)

theorem totalH_eq (g : LGraph) : totalH g = (g.nodes.map hval).sum := rfl

theorem hval_zeroH_sum (ns : List (Nat × Attrs)) :
    ((ns.map zeroH).map hval).sum + (tot ns : Int) = (ns.map hval).sum := by
  induction ns with
  | nil => simp [tot]
  | cons p rest ih =>
    simp only [List.map_cons, List.sum_cons, tot] at ih ⊢
    have h1 : hval (zeroH p) + ((hcnt p.2).toNat : Int) = hval p := by
      simp only [hval, isH_zeroH, hcnt_zeroH]
      by_cases hc : hcnt p.2 > 0
      · simp only [hc, if_true]; have := Int.toNat_of_nonneg (show 0 ≤ hcnt p.2 by omega); omega
      · simp only [hc, if_false]; have : (hcnt p.2).toNat = 0 := by omega
        rw [this]; simp
    push_cast
    omega

theorem totalH_hToExplicit' (G : LGraph) : totalH (hToExplicit G) = totalH G := by
  rw [totalH_eq, totalH_eq]
  simp only [hToExplicit, List.map_append, List.sum_append]
  have : (((plan G.nodes (maxId G)).map freshNode).map hval).sum = (tot G.nodes : Int) := by
    rw [List.map_map]
    have : ∀ l : List (Nat × Nat), ((l.map (hval ∘ freshNode)).sum : Int) = l.length := by
      intro l
      induction l with
      | nil => rfl
      | cons q l ih =>
        simp only [List.map_cons, List.sum_cons, List.length_cons, ih, Function.comp, hval, freshNode,
          hcnt_hAttrs, isH_hAttrs, if_true]
        push_cast; omega
    rw [this, plan_length]
  rw [this]
  exact hval_zeroH_sum G.nodes


/-! ### the molecule table -/

theorem mapM_ok {α β} (f : α → Except Err β) (g : α → β) (l : List α) (h : ∀ x ∈ l, f x = .ok (g x)) :
    l.mapM f = .ok (l.map g) := by
  induction l with
  | nil => rfl
  | cons x xs ih =>
    rw [List.mapM_cons, h x List.mem_cons_self, ih fun y hy => h y (List.mem_cons_of_mem _ hy)]
    rfl

theorem atomOfAttrs_atomAttrs (M : Mol) (i : Nat) (a : Atom) :
    atomOfAttrs (atomAttrs M i a) =
      .ok { element := a.element, charge := a.charge, atomMap := a.atomMap, hcount := some a.hcount } := by
  have e1 : (2 * (a.charge : Int)) % 2 = 0 := by omega
  have e2 : (2 * (a.charge : Int)) / 2 = a.charge := by omega
  have e3 : (2 * (a.atomMap : Int)) % 2 = 0 := by omega
  have e4 : (2 * (a.atomMap : Int)) / 2 = a.atomMap := by omega
  have e5 : (2 * (a.hcount : Int)) % 2 = 0 := by omega
  have e6 : (2 * (a.hcount : Int)) / 2 = a.hcount := by omega
  have e7 : ¬ ((a.atomMap : Int) < 0) := by omega
  have e8 : ¬ ((a.hcount : Int) < 0) := by omega
  simp [atomOfAttrs, atomAttrs, intAttr, Dict.get?, e1, e2, e3, e4, e5, e6, e7, e8, bind, Except.bind, pure, Except.pure]

theorem atomNodes_ids (M : Mol) (as : List Atom) (i : Nat) :
    (atomNodes M as i).map (·.1) = List.range' (i + 1) as.length := by
  induction as generalizing i with
  | nil => rfl
  | cons a rest ih => simp [atomNodes, ih, List.range'_succ]

theorem idxOf_range' (s n a : Nat) (h : a < n) : (List.range' s n).idxOf (s + a) = a := by
  induction n generalizing s a with
  | zero => omega
  | succ n ih =>
    rw [List.range'_succ]
    cases a with
    | zero => simp
    | succ a =>
      have hne : (s == s + (a + 1)) = false := by simp
      rw [List.idxOf_cons, hne]
      have := ih (s + 1) a (by omega)
      rw [show s + 1 + a = s + (a + 1) by omega] at this
      simp [this]

theorem bondTypeOf_std (o : Int) (h : o = 2 ∨ o = 3 ∨ o = 4 ∨ o = 6) : bondTypeOf o = o := by
  rcases h with rfl | rfl | rfl | rfl <;> decide

theorem graphToMol_molToGraph' (M : Mol) (h : M.WF) : graphToMol (molToGraph M) = .ok M.out := by
  unfold graphToMol
  have hatoms : (molToGraph M).nodes.mapM (fun p => atomOfAttrs p.2) = .ok M.out.atoms := by
    have : ∀ (as : List Atom) (i : Nat), (atomNodes M as i).mapM (fun p => atomOfAttrs p.2) =
        .ok (as.map fun x => ({ element := x.element, charge := x.charge, atomMap := x.atomMap, hcount := some x.hcount } : AtomOut)) := by
      intro as
      induction as with
      | nil => intro i; rfl
      | cons a rest ih =>
        intro i
        simp only [atomNodes, List.mapM_cons, atomOfAttrs_atomAttrs, ih (i + 1), List.map_cons]
        rfl
    exact this M.atoms 0
  have hids : (molToGraph M).ids = List.range' 1 M.atoms.length := by
    simp only [LGraph.ids, molToGraph]; rw [atomNodes_ids]
  have hbonds : (molToGraph M).edges.mapM (bondOfEdge (molToGraph M).ids) = .ok M.out.bonds := by
    rw [hids]
    simp only [molToGraph, Mol.out]
    have : ∀ bs : List Bond, (∀ b ∈ bs, b.a < M.atoms.length ∧ b.b < M.atoms.length ∧ (b.order = 2 ∨ b.order = 3 ∨ b.order = 4 ∨ b.order = 6)) →
        (bs.map fun b => ((b.a + 1, b.b + 1, [("order", Val.num b.order)]) : Nat × Nat × Attrs)).mapM
          (bondOfEdge (List.range' 1 M.atoms.length)) = .ok (bs.map fun b => (b.a, b.b, b.order)) := by
      intro bs
      induction bs with
      | nil => intro _; rfl
      | cons b rest ih =>
        intro hb
        obtain ⟨ha, hb', ho⟩ := hb b List.mem_cons_self
        have i1 := idxOf_range' 1 M.atoms.length b.a ha
        have i2 := idxOf_range' 1 M.atoms.length b.b hb'
        rw [Nat.add_comm] at i1 i2
        have hbo : bondOfEdge (List.range' 1 M.atoms.length) (b.a + 1, b.b + 1, [("order", Val.num b.order)]) =
            .ok (b.a, b.b, b.order) := by
          simp [bondOfEdge, Dict.get?, i1, i2, bondTypeOf_std b.order ho, bind, Except.bind, pure, Except.pure]
        simp only [List.map_cons, List.mapM_cons, hbo, ih fun x hx => hb x (List.mem_cons_of_mem _ hx)]
        rfl
    exact this M.bonds h
  rw [hatoms, hbonds]
  rfl

end SynKit.Repr

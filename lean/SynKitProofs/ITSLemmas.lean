import SynKitModel.ITS
import SynKitProofs.ITSLemmasC01
import Mathlib.Data.List.Nodup
/-!
# Helper lemmas for C02 (reaction centre, context) over `SynKitModel/ITS.lean`
-/
namespace SynKit.ITS
open SynKit

/-! ## Generic facts about `LGraph` -/

/-- Edge `e` joins `u` and `v` (in either orientation). -/
def Adj (e : Nat × Nat × Attrs) (u v : Nat) : Prop := (e.1 = u ∧ e.2.1 = v) ∨ (e.1 = v ∧ e.2.1 = u)

instance (e : Nat × Nat × Attrs) (u v : Nat) : Decidable (Adj e u v) := by unfold Adj; infer_instance

theorem Adj.symm {e : Nat × Nat × Attrs} {u v : Nat} (h : Adj e u v) : Adj e v u := Or.symm h

theorem hasNode_iff (g : LGraph) (n : Nat) : g.hasNode n = true ↔ n ∈ g.ids := by
  unfold LGraph.hasNode; exact List.contains_iff_mem

theorem hasEdge_iff (g : LGraph) (u v : Nat) : g.hasEdge u v = true ↔ ∃ e ∈ g.edges, Adj e u v := by
  unfold LGraph.hasEdge LGraph.edge? Adj
  rw [Option.isSome_map, List.find?_isSome]
  constructor
  · rintro ⟨e, he, h⟩; exact ⟨e, he, by simpa using h⟩
  · rintro ⟨e, he, h⟩; exact ⟨e, he, by simpa using h⟩

theorem hasEdge_false_iff (g : LGraph) (u v : Nat) : g.hasEdge u v = false ↔ ¬ ∃ e ∈ g.edges, Adj e u v := by
  rw [← hasEdge_iff]; simp

theorem hasEdge_congr {a b : LGraph} (h : a.edges = b.edges) (u v : Nat) : a.hasEdge u v = b.hasEdge u v := by
  unfold LGraph.hasEdge LGraph.edge?; rw [h]

theorem edge?_some_mem {g : LGraph} {u v : Nat} {a : Attrs} (h : g.edge? u v = some a) :
    ∃ e ∈ g.edges, Adj e u v ∧ e.2.2 = a := by
  unfold LGraph.edge? at h
  rw [Option.map_eq_some_iff] at h
  obtain ⟨e, he, rfl⟩ := h
  refine ⟨e, List.mem_of_find?_eq_some he, ?_, rfl⟩
  have := List.find?_some he
  unfold Adj; simpa using this

theorem adj_key {e : Nat × Nat × Attrs} {u v : Nat} (h : Adj e u v) :
    (min e.1 e.2.1, max e.1 e.2.1) = (min u v, max u v) := by
  rcases h with ⟨h1, h2⟩ | ⟨h1, h2⟩
  · rw [h1, h2]
  · rw [h1, h2, Nat.min_comm, Nat.max_comm]

/-- In a well-formed graph the edge on a pair of nodes is unique, so the lookup finds it. -/
theorem edge?_of_mem {g : LGraph} (hg : g.WF) {e : Nat × Nat × Attrs} (he : e ∈ g.edges) {u v : Nat}
    (h : Adj e u v) : g.edge? u v = some e.2.2 := by
  have hsome : (g.edge? u v).isSome = true := (hasEdge_iff g u v).2 ⟨e, he, h⟩
  obtain ⟨a, ha⟩ := Option.isSome_iff_exists.1 hsome
  obtain ⟨e', he', h', rfl⟩ := edge?_some_mem ha
  have := List.inj_on_of_nodup_map hg.2.2 he he' ((adj_key h).trans (adj_key h').symm)
  rw [ha, this]

theorem edge?_iff {g : LGraph} (hg : g.WF) (u v : Nat) (a : Attrs) :
    g.edge? u v = some a ↔ ∃ e ∈ g.edges, Adj e u v ∧ e.2.2 = a := by
  constructor
  · exact edge?_some_mem
  · rintro ⟨e, he, h, rfl⟩; exact edge?_of_mem hg he h

theorem mem_neighbors_iff (g : LGraph) (m n : Nat) : n ∈ g.neighbors m ↔ g.hasEdge m n = true := by
  rw [hasEdge_iff]
  unfold LGraph.neighbors Adj
  rw [List.mem_filterMap]
  constructor
  · rintro ⟨e, he, h⟩
    refine ⟨e, he, ?_⟩
    by_cases h1 : e.1 = m
    · simp [h1] at h; exact Or.inl ⟨h1, h⟩
    · by_cases h2 : e.2.1 = m
      · simp [h1, h2] at h; exact Or.inr ⟨h, h2⟩
      · simp [h1, h2] at h
  · rintro ⟨e, he, h⟩
    refine ⟨e, he, ?_⟩
    rcases h with ⟨h1, h2⟩ | ⟨h1, h2⟩
    · simp [h1, h2]
    · by_cases h3 : e.1 = m
      · simp [h3]; rw [h2, ← h3, h1]
      · rw [h1] at h3; simp only [h1, if_neg h3, if_pos h2]

theorem attrs_of_mem {g : LGraph} {n : Nat} (h : n ∈ g.ids) : ∃ a, (n, a) ∈ g.nodes ∧ g.attrs n = a := by
  unfold LGraph.attrs
  cases hf : g.nodes.find? (fun p => decide (p.1 = n)) with
  | none =>
    rw [List.find?_eq_none] at hf
    unfold LGraph.ids at h
    obtain ⟨p, hp, rfl⟩ := List.mem_map.1 h
    exact absurd (by simp) (hf p hp)
  | some p =>
    have h1 := List.find?_some hf
    have h2 := List.mem_of_find?_eq_some hf
    simp only [decide_eq_true_eq] at h1
    refine ⟨p.2, ?_, rfl⟩
    rw [← h1]; exact h2


/-! ## Folds -/

theorem foldl_or_iff {α β : Type} (step : α → β → α) (Q : α → Prop) (C : β → Prop)
    (h : ∀ a b, Q (step a b) ↔ Q a ∨ C b) (a : α) (bs : List β) :
    Q (bs.foldl step a) ↔ Q a ∨ ∃ b ∈ bs, C b := by
  induction bs generalizing a with
  | nil => simp
  | cons b bs ih =>
    rw [List.foldl_cons, ih, h]
    constructor
    · rintro ((h1 | h1) | ⟨x, hx, h1⟩)
      · exact Or.inl h1
      · exact Or.inr ⟨b, List.mem_cons_self, h1⟩
      · exact Or.inr ⟨x, List.mem_cons_of_mem _ hx, h1⟩
    · rintro (h1 | ⟨x, hx, h1⟩)
      · exact Or.inl (Or.inl h1)
      · rcases List.mem_cons.1 hx with rfl | hx
        · exact Or.inl (Or.inr h1)
        · exact Or.inr ⟨x, hx, h1⟩

theorem foldl_inv {α β : Type} (step : α → β → α) (P : α → Prop) (bs : List β)
    (h : ∀ a, ∀ b ∈ bs, P a → P (step a b)) (a : α) (ha : P a) : P (bs.foldl step a) := by
  induction bs generalizing a with
  | nil => exact ha
  | cons b bs ih =>
    rw [List.foldl_cons]
    exact ih (fun a x hx => h a x (List.mem_cons_of_mem _ hx)) _ (h a b List.mem_cons_self ha)

/-! ## `get_rc` -/

/-- The centre edge built from ITS edge `e`. -/
def mkE (o : RcOpts) (e : Nat × Nat × Attrs) : Nat × Nat × Attrs := (e.1, e.2.1, rcEdgeAttrs o e.2.2)

/-- `e` is selected for the centre: changed (or kept as mechanistic step) or an H–H bond. -/
def Sel (o : RcOpts) (I : LGraph) (e : Nat × Nat × Attrs) : Prop :=
  includeEdge o e.2.2 = true ∨ isHH I e.1 e.2.1 = true

theorem isHH_comm (I : LGraph) (u v : Nat) : isHH I u v = isHH I v u := by
  unfold isHH; rw [Bool.and_comm]

theorem isHH_of_adj {I : LGraph} {e : Nat × Nat × Attrs} {u v : Nat} (h : Adj e u v) :
    isHH I e.1 e.2.1 = isHH I u v := by
  rcases h with ⟨h1, h2⟩ | ⟨h1, h2⟩
  · rw [h1, h2]
  · rw [h1, h2, isHH_comm]

theorem ensureNode_edges (keys : List String) (I rc : LGraph) (n : Nat) :
    (ensureNode keys I rc n).edges = rc.edges := by
  unfold ensureNode; split <;> rfl

theorem ensureNodeHH_edges (keys : List String) (I rc : LGraph) (n : Nat) :
    (ensureNodeHH keys I rc n).edges = rc.edges := by
  unfold ensureNodeHH; split <;> rfl

theorem mem_ids_ensureNode (keys : List String) (I rc : LGraph) (n x : Nat) :
    x ∈ (ensureNode keys I rc n).ids ↔ x ∈ rc.ids ∨ x = n := by
  unfold ensureNode
  split
  · next h =>
    rw [hasNode_iff] at h
    constructor
    · exact Or.inl
    · rintro (h1 | rfl)
      · exact h1
      · exact h
  · simp [LGraph.ids]

theorem mem_ids_ensureNodeHH (keys : List String) (I rc : LGraph) (n x : Nat) :
    x ∈ (ensureNodeHH keys I rc n).ids ↔ x ∈ rc.ids ∨ x = n := by
  unfold ensureNodeHH
  split
  · next h =>
    rw [hasNode_iff] at h
    constructor
    · exact Or.inl
    · rintro (h1 | rfl)
      · exact h1
      · exact h
  · simp [LGraph.ids]

theorem pushEdge_ids (rc : LGraph) (x : Nat × Nat × Attrs) : (pushEdge rc x).ids = rc.ids := rfl

theorem pushEdge_hasEdge (rc : LGraph) (x : Nat × Nat × Attrs) (u v : Nat) :
    (pushEdge rc x).hasEdge u v = true ↔ rc.hasEdge u v = true ∨ Adj x u v := by
  rw [hasEdge_iff, hasEdge_iff]
  unfold pushEdge
  simp only [List.mem_append, List.mem_singleton]
  constructor
  · rintro ⟨e, he | rfl, h⟩
    · exact Or.inl ⟨e, he, h⟩
    · exact Or.inr h
  · rintro (⟨e, he, h⟩ | h)
    · exact ⟨e, Or.inl he, h⟩
    · exact ⟨x, Or.inr rfl, h⟩

theorem hasEdge_of_adj {g : LGraph} {e : Nat × Nat × Attrs} {u v : Nat} (h : Adj e u v)
    (hg : g.hasEdge e.1 e.2.1 = true) : g.hasEdge u v = true := by
  rw [hasEdge_iff] at hg ⊢
  obtain ⟨x, hx, hadj⟩ := hg
  refine ⟨x, hx, ?_⟩
  rcases h with ⟨h1, h2⟩ | ⟨h1, h2⟩
  · rw [← h1, ← h2]; exact hadj
  · rw [← h1, ← h2]; exact hadj.symm

theorem changedStep_hasEdge (o : RcOpts) (I rc : LGraph) (e : Nat × Nat × Attrs) (u v : Nat) :
    (changedStep o I rc e).hasEdge u v = true ↔
      rc.hasEdge u v = true ∨ (includeEdge o e.2.2 = true ∧ Adj e u v) := by
  unfold changedStep
  split
  · next h =>
    rw [pushEdge_hasEdge, hasEdge_congr (by rw [ensureNode_edges, ensureNode_edges] : _ = rc.edges)]
    simp only [h, true_and]; exact Iff.rfl
  · next h => simp [h]

theorem changedStep_ids (o : RcOpts) (I rc : LGraph) (e : Nat × Nat × Attrs) (x : Nat) :
    x ∈ (changedStep o I rc e).ids ↔
      x ∈ rc.ids ∨ (includeEdge o e.2.2 = true ∧ (x = e.1 ∨ x = e.2.1)) := by
  unfold changedStep
  split
  · next h =>
    rw [pushEdge_ids, mem_ids_ensureNode, mem_ids_ensureNode]
    simp only [h, true_and, or_assoc]
  · next h => simp [h]

theorem hhStep_hasEdge (o : RcOpts) (I rc : LGraph) (e : Nat × Nat × Attrs) (u v : Nat) :
    (hhStep o I rc e).hasEdge u v = true ↔
      rc.hasEdge u v = true ∨ (isHH I e.1 e.2.1 = true ∧ Adj e u v) := by
  unfold hhStep
  split
  · next h =>
    have hc : ∀ a b, (ensureNodeHH o.elementKey I (ensureNodeHH o.elementKey I rc e.1) e.2.1).hasEdge a b
        = rc.hasEdge a b := fun a b => hasEdge_congr (by rw [ensureNodeHH_edges, ensureNodeHH_edges]) a b
    simp only [h, true_and]
    split
    · next h2 =>
      rw [hc] at h2 ⊢
      constructor
      · exact Or.inl
      · rintro (h3 | h3)
        · exact h3
        · exact hasEdge_of_adj h3 h2
    · rw [pushEdge_hasEdge, hc]; exact Iff.rfl
  · next h => simp [h]

theorem hhStep_ids (o : RcOpts) (I rc : LGraph) (e : Nat × Nat × Attrs) (x : Nat) :
    x ∈ (hhStep o I rc e).ids ↔
      x ∈ rc.ids ∨ (isHH I e.1 e.2.1 = true ∧ (x = e.1 ∨ x = e.2.1)) := by
  unfold hhStep
  split
  · next h =>
    simp only [h, true_and]
    split
    · rw [mem_ids_ensureNodeHH, mem_ids_ensureNodeHH, or_assoc]
    · rw [pushEdge_ids, mem_ids_ensureNodeHH, mem_ids_ensureNodeHH, or_assoc]
  · next h => simp [h]

theorem empty_hasEdge (u v : Nat) : ({} : LGraph).hasEdge u v = false := rfl

/-- Adjacency in the centre (options with `disconnected = false`): exactly the selected ITS edges. -/
theorem getRc_hasEdge (o : RcOpts) (hd : o.disconnected = false) (I : LGraph) (u v : Nat) :
    (getRc o I).hasEdge u v = true ↔ ∃ e ∈ I.edges, Sel o I e ∧ Adj e u v := by
  unfold getRc addHH addChanged
  simp only [hd, Bool.false_eq_true, if_false]
  rw [foldl_or_iff (hhStep o I) (fun rc => rc.hasEdge u v = true) _ (fun rc e => hhStep_hasEdge o I rc e u v),
    foldl_or_iff (changedStep o I) (fun rc => rc.hasEdge u v = true) _ (fun rc e => changedStep_hasEdge o I rc e u v)]
  simp only [empty_hasEdge, Bool.false_eq_true, false_or]
  unfold Sel
  constructor
  · rintro (⟨e, he, h1, h2⟩ | ⟨e, he, h1, h2⟩)
    · exact ⟨e, he, Or.inl h1, h2⟩
    · exact ⟨e, he, Or.inr h1, h2⟩
  · rintro ⟨e, he, h1 | h1, h2⟩
    · exact Or.inl ⟨e, he, h1, h2⟩
    · exact Or.inr ⟨e, he, h1, h2⟩

/-- Atoms of the centre: exactly the end points of the selected ITS edges. -/
theorem getRc_ids (o : RcOpts) (hd : o.disconnected = false) (I : LGraph) (x : Nat) :
    x ∈ (getRc o I).ids ↔ ∃ e ∈ I.edges, Sel o I e ∧ (x = e.1 ∨ x = e.2.1) := by
  unfold getRc addHH addChanged
  simp only [hd, Bool.false_eq_true, if_false]
  rw [foldl_or_iff (hhStep o I) (fun rc => x ∈ rc.ids) _ (fun rc e => hhStep_ids o I rc e x),
    foldl_or_iff (changedStep o I) (fun rc => x ∈ rc.ids) _ (fun rc e => changedStep_ids o I rc e x)]
  have : x ∉ ({} : LGraph).ids := by simp [LGraph.ids]
  simp only [this, false_or]
  unfold Sel
  constructor
  · rintro (⟨e, he, h1, h2⟩ | ⟨e, he, h1, h2⟩)
    · exact ⟨e, he, Or.inl h1, h2⟩
    · exact ⟨e, he, Or.inr h1, h2⟩
  · rintro ⟨e, he, h1 | h1, h2⟩
    · exact Or.inl ⟨e, he, h1, h2⟩
    · exact Or.inr ⟨e, he, h1, h2⟩


/-! ### Edge and node provenance -/

theorem changedStep_edges_mem (o : RcOpts) (I rc : LGraph) (e x : Nat × Nat × Attrs)
    (h : x ∈ (changedStep o I rc e).edges) :
    x ∈ rc.edges ∨ (includeEdge o e.2.2 = true ∧ x = mkE o e) := by
  unfold changedStep at h
  split at h
  · next hi =>
    unfold pushEdge at h
    simp only [ensureNode_edges, List.mem_append, List.mem_singleton] at h
    rcases h with h | h
    · exact Or.inl h
    · exact Or.inr ⟨hi, h⟩
  · exact Or.inl h

theorem hhStep_edges_mem (o : RcOpts) (I rc : LGraph) (e x : Nat × Nat × Attrs)
    (h : x ∈ (hhStep o I rc e).edges) :
    x ∈ rc.edges ∨ (isHH I e.1 e.2.1 = true ∧ x = mkE o e) := by
  unfold hhStep at h
  split at h
  · next hi =>
    simp only at h
    split at h
    · simp only [ensureNodeHH_edges] at h; exact Or.inl h
    · unfold pushEdge at h
      simp only [ensureNodeHH_edges, List.mem_append, List.mem_singleton] at h
      rcases h with h | h
      · exact Or.inl h
      · exact Or.inr ⟨hi, h⟩
  · exact Or.inl h

/-- Every centre edge is `mkE` of a selected ITS edge. -/
theorem getRc_edges_from (o : RcOpts) (hd : o.disconnected = false) (I : LGraph) :
    ∀ x ∈ (getRc o I).edges, ∃ e ∈ I.edges, Sel o I e ∧ x = mkE o e := by
  unfold getRc addHH addChanged
  simp only [hd, Bool.false_eq_true, if_false]
  apply foldl_inv (hhStep o I) (fun rc => ∀ x ∈ rc.edges, ∃ e ∈ I.edges, Sel o I e ∧ x = mkE o e)
  · intro rc e he ih x hx
    rcases hhStep_edges_mem o I rc e x hx with h | ⟨h1, h2⟩
    · exact ih x h
    · exact ⟨e, he, Or.inr h1, h2⟩
  · apply foldl_inv (changedStep o I) (fun rc => ∀ x ∈ rc.edges, ∃ e ∈ I.edges, Sel o I e ∧ x = mkE o e)
    · intro rc e he ih x hx
      rcases changedStep_edges_mem o I rc e x hx with h | ⟨h1, h2⟩
      · exact ih x h
      · exact ⟨e, he, Or.inl h1, h2⟩
    · intro x hx; cases hx

theorem ensureNode_nodes_mem (keys : List String) (I rc : LGraph) (n : Nat) (p : Nat × Attrs)
    (h : p ∈ (ensureNode keys I rc n).nodes) : p ∈ rc.nodes ∨ p = (n, proj keys (I.attrs n)) := by
  unfold ensureNode at h
  split at h
  · exact Or.inl h
  · simpa using h

theorem ensureNodeHH_nodes_mem (keys : List String) (I rc : LGraph) (n : Nat) (p : Nat × Attrs)
    (h : p ∈ (ensureNodeHH keys I rc n).nodes) : p ∈ rc.nodes ∨ p = (n, hhLabel keys (I.attrs n)) := by
  unfold ensureNodeHH at h
  split at h
  · exact Or.inl h
  · simpa using h

/-- The label of a centre atom is one of the two dicts the code builds from the ITS label. -/
def IsLabel (keys : List String) (I : LGraph) (p : Nat × Attrs) : Prop :=
  p.2 = proj keys (I.attrs p.1) ∨ p.2 = hhLabel keys (I.attrs p.1)

theorem changedStep_labels (o : RcOpts) (I rc : LGraph) (e : Nat × Nat × Attrs)
    (ih : ∀ p ∈ rc.nodes, IsLabel o.elementKey I p) : ∀ p ∈ (changedStep o I rc e).nodes, IsLabel o.elementKey I p := by
  intro p hp
  unfold changedStep at hp
  split at hp
  · have hp' : p ∈ (ensureNode o.elementKey I (ensureNode o.elementKey I rc e.1) e.2.1).nodes := hp
    rcases ensureNode_nodes_mem _ _ _ _ _ hp' with h | rfl
    · rcases ensureNode_nodes_mem _ _ _ _ _ h with h | rfl
      · exact ih p h
      · exact Or.inl rfl
    · exact Or.inl rfl
  · exact ih p hp

theorem hhStep_labels (o : RcOpts) (I rc : LGraph) (e : Nat × Nat × Attrs)
    (ih : ∀ p ∈ rc.nodes, IsLabel o.elementKey I p) : ∀ p ∈ (hhStep o I rc e).nodes, IsLabel o.elementKey I p := by
  intro p hp
  unfold hhStep at hp
  split at hp
  · have hp' : p ∈ (ensureNodeHH o.elementKey I (ensureNodeHH o.elementKey I rc e.1) e.2.1).nodes := by
      simp only at hp
      split at hp
      · exact hp
      · exact hp
    rcases ensureNodeHH_nodes_mem _ _ _ _ _ hp' with h | rfl
    · rcases ensureNodeHH_nodes_mem _ _ _ _ _ h with h | rfl
      · exact ih p h
      · exact Or.inr rfl
    · exact Or.inr rfl
  · exact ih p hp

theorem getRc_node_labels (o : RcOpts) (hd : o.disconnected = false) (I : LGraph) :
    ∀ p ∈ (getRc o I).nodes, IsLabel o.elementKey I p := by
  unfold getRc addHH addChanged
  simp only [hd, Bool.false_eq_true, if_false]
  apply foldl_inv (hhStep o I) (fun rc => ∀ p ∈ rc.nodes, IsLabel o.elementKey I p)
  · intro rc e _ ih; exact hhStep_labels o I rc e ih
  · apply foldl_inv (changedStep o I) (fun rc => ∀ p ∈ rc.nodes, IsLabel o.elementKey I p)
    · intro rc e _ ih; exact changedStep_labels o I rc e ih
    · intro p hp; cases hp

/-! ### What the projected labels contain -/

theorem proj_fold_get? (a : Attrs) (f : Attrs → String → Attrs)
    (hsome : ∀ acc k v, a.get? k = some v → f acc k = acc.set k v)
    (hnone : ∀ acc k, a.get? k = none → f acc k = acc)
    (keys : List String) (acc : Attrs) (k : String) :
    (keys.foldl f acc).get? k
      = if k ∈ keys ∧ (a.get? k).isSome = true then a.get? k else acc.get? k := by
  induction keys generalizing acc with
  | nil => simp
  | cons k0 ks ih =>
    rw [List.foldl_cons, ih]
    by_cases hk : k ∈ ks ∧ (Dict.get? a k).isSome = true
    · rw [if_pos hk, if_pos ⟨List.mem_cons_of_mem _ hk.1, hk.2⟩]
    · rw [if_neg hk]
      cases h0 : Dict.get? a k0 with
      | none =>
        rw [hnone _ _ h0]
        by_cases hkk : k = k0
        · subst hkk; simp [h0]
        · have : ¬ (k ∈ k0 :: ks ∧ (Dict.get? a k).isSome = true) := by
            rintro ⟨h1, h2⟩
            rcases List.mem_cons.1 h1 with h1 | h1
            · exact hkk h1
            · exact hk ⟨h1, h2⟩
          rw [if_neg this]
      | some v =>
        rw [hsome _ _ _ h0]
        by_cases hkk : k = k0
        · subst hkk
          rw [Dict.get?_set_self, if_pos ⟨List.mem_cons_self, by simp [h0]⟩, h0]
        · rw [Dict.get?_set_other _ _ _ _ hkk]
          have : ¬ (k ∈ k0 :: ks ∧ (Dict.get? a k).isSome = true) := by
            rintro ⟨h1, h2⟩
            rcases List.mem_cons.1 h1 with h1 | h1
            · exact hkk h1
            · exact hk ⟨h1, h2⟩
          rw [if_neg this]

theorem proj_get? (keys : List String) (a : Attrs) (k : String) :
    (proj keys a).get? k = if k ∈ keys then a.get? k else none := by
  unfold proj
  rw [proj_fold_get? a _ (fun acc k v h => by simp only [h]) (fun acc k h => by simp only [h])]
  by_cases hk : k ∈ keys
  · by_cases hs : (Dict.get? a k).isSome = true
    · simp [hk, hs]
    · simp only [hk, hs, and_false, if_false, if_true]
      rw [Bool.not_eq_true, Option.isSome_eq_false_iff, Option.isNone_iff_eq_none] at hs
      rw [hs]; rfl
  · simp [hk]; rfl

theorem proj_get (keys : List String) (a : Attrs) (k : String) (hk : k ∈ keys) :
    (proj keys a).get k = a.get k := by
  unfold Attrs.get Dict.getD; rw [proj_get?, if_pos hk]

theorem attrs_get_set_other (a : Attrs) (k x : String) (v : Val) (h : x ≠ k) :
    Attrs.get (Dict.set a k v) x = Attrs.get a x := by
  unfold Attrs.get Dict.getD; rw [Dict.get?_set_other _ _ _ _ h]

theorem attrs_get_set_self (a : Attrs) (k : String) (v : Val) : Attrs.get (Dict.set a k v) k = v := by
  unfold Attrs.get Dict.getD; rw [Dict.get?_set_self]; rfl

theorem hhLabel_get (keys : List String) (a : Attrs) (k : String) (hk : k ∈ keys)
    (h : k ≠ "typesGH" ∨ (a.get? "typesGH").isSome = true) : (hhLabel keys a).get k = a.get k := by
  unfold hhLabel
  by_cases hkk : k = "typesGH"
  · subst hkk
    have hs : (Dict.get? a "typesGH").isSome = true := by
      rcases h with h | h
      · exact absurd rfl h
      · exact h
    simp only [hs, if_true]
    rw [attrs_get_set_self]
  · simp only
    rw [attrs_get_set_other _ _ _ _ hkk, proj_get _ _ _ hk]
    split
    · rfl
    · rw [attrs_get_set_other _ _ _ _ hkk]

/-- A centre atom carries the ITS label on every projected key (for `typesGH`: when the ITS atom has one). -/
theorem getRc_label (o : RcOpts) (hd : o.disconnected = false) (I : LGraph) (n : Nat)
    (hn : n ∈ (getRc o I).ids) (k : String) (hk : k ∈ o.elementKey)
    (h : k ≠ "typesGH" ∨ ((I.attrs n).get? "typesGH").isSome = true) :
    ((getRc o I).attrs n).get k = (I.attrs n).get k := by
  obtain ⟨a, ha, hattr⟩ := attrs_of_mem hn
  rw [hattr]
  rcases getRc_node_labels o hd I (n, a) ha with h1 | h1
  · simp only at h1; rw [h1, proj_get _ _ _ hk]
  · simp only at h1; rw [h1, hhLabel_get _ _ _ hk h]


/-! ## Radius-k context -/

/-- `DistLE I s k n`: there is a walk of length at most `k` from `s` to `n` in `I`. -/
inductive DistLE (I : LGraph) (s : Nat) : Nat → Nat → Prop
  | refl (k : Nat) : DistLE I s k s
  | step {k m n : Nat} : DistLE I s k m → I.hasEdge m n = true → DistLE I s (k + 1) n

theorem DistLE.succ {I : LGraph} {s k n : Nat} (h : DistLE I s k n) : DistLE I s (k + 1) n := by
  induction h with
  | refl k => exact DistLE.refl _
  | step _ hE ih => exact DistLE.step ih hE

theorem mem_unionL (s xs : List Nat) (x : Nat) : x ∈ unionL s xs ↔ x ∈ s ∨ x ∈ xs := by
  unfold unionL
  induction xs generalizing s with
  | nil => simp
  | cons y ys ih =>
    rw [List.foldl_cons, ih]
    by_cases hy : y ∈ s
    · simp only [hy, if_true, List.mem_cons]
      constructor
      · rintro (h | h)
        · exact Or.inl h
        · exact Or.inr (Or.inr h)
      · rintro (h | rfl | h)
        · exact Or.inl h
        · exact Or.inl hy
        · exact Or.inr h
    · simp only [hy, if_false, List.mem_append, List.mem_cons, List.not_mem_nil, or_false]
      constructor
      · rintro ((h | h) | h)
        · exact Or.inl h
        · exact Or.inr (Or.inl h)
        · exact Or.inr (Or.inr h)
      · rintro (h | h | h)
        · exact Or.inl (Or.inl h)
        · exact Or.inl (Or.inr h)
        · exact Or.inr h

theorem mem_expand_zero (I : LGraph) (S : List Nat) (n : Nat) : n ∈ expand I S 0 ↔ n ∈ S := by
  unfold expand; rw [mem_unionL]; simp

theorem mem_expand_succ (I : LGraph) (S : List Nat) (k n : Nat) :
    n ∈ expand I S (k + 1) ↔ n ∈ expand I S k ∨ ∃ m ∈ expand I S k, I.hasEdge m n = true := by
  rw [expand, mem_unionL, List.mem_flatMap]
  simp only [mem_neighbors_iff]

theorem expand_mono (I : LGraph) (S : List Nat) (k n : Nat) (h : n ∈ expand I S k) : n ∈ expand I S (k + 1) :=
  (mem_expand_succ I S k n).2 (Or.inl h)

/-- `find_nearest_neighbors` computes the distance ball. -/
theorem mem_expand_iff (I : LGraph) (S : List Nat) (k n : Nat) :
    n ∈ expand I S k ↔ ∃ s ∈ S, DistLE I s k n := by
  constructor
  · induction k generalizing n with
    | zero => intro h; exact ⟨n, (mem_expand_zero I S n).1 h, DistLE.refl _⟩
    | succ k ih =>
      intro h
      rcases (mem_expand_succ I S k n).1 h with h | ⟨m, hm, hE⟩
      · obtain ⟨s, hs, hd⟩ := ih n h; exact ⟨s, hs, hd.succ⟩
      · obtain ⟨s, hs, hd⟩ := ih m hm; exact ⟨s, hs, DistLE.step hd hE⟩
  · rintro ⟨s, hs, hd⟩
    induction hd with
    | refl k =>
      induction k with
      | zero => exact (mem_expand_zero I S s).2 hs
      | succ k ih => exact expand_mono I S k s ih
    | step _ hE ih => exact (mem_expand_succ I S _ _).2 (Or.inr ⟨_, ih, hE⟩)

theorem contains_iff (X : List Nat) (n : Nat) : X.contains n = true ↔ n ∈ X := List.contains_iff_mem

theorem mem_ids_induced (I : LGraph) (X : List Nat) (n : Nat) : n ∈ (induced I X).ids ↔ n ∈ I.ids ∧ n ∈ X := by
  unfold induced LGraph.ids
  simp only [List.mem_map, List.mem_filter, contains_iff]
  constructor
  · rintro ⟨p, ⟨hp, hx⟩, rfl⟩; exact ⟨⟨p, hp, rfl⟩, hx⟩
  · rintro ⟨⟨p, hp, rfl⟩, hx⟩; exact ⟨p, ⟨hp, hx⟩, rfl⟩

theorem induced_hasEdge (I : LGraph) (X : List Nat) (u v : Nat) :
    (induced I X).hasEdge u v = true ↔ I.hasEdge u v = true ∧ u ∈ X ∧ v ∈ X := by
  rw [hasEdge_iff, hasEdge_iff]
  unfold induced
  simp only [List.mem_filter, Bool.and_eq_true, contains_iff]
  constructor
  · rintro ⟨e, ⟨he, h1, h2⟩, hadj⟩
    refine ⟨⟨e, he, hadj⟩, ?_⟩
    rcases hadj with ⟨a, b⟩ | ⟨a, b⟩
    · rw [← a, ← b]; exact ⟨h1, h2⟩
    · rw [← a, ← b]; exact ⟨h2, h1⟩
  · rintro ⟨⟨e, he, hadj⟩, hu, hv⟩
    refine ⟨e, ⟨he, ?_⟩, hadj⟩
    rcases hadj with ⟨a, b⟩ | ⟨a, b⟩
    · rw [a, b]; exact ⟨hu, hv⟩
    · rw [a, b]; exact ⟨hv, hu⟩

theorem find?_filter_of {α : Type} (l : List α) (p q : α → Bool) (x : α)
    (h : l.find? q = some x) (hp : p x = true) : (l.filter p).find? q = some x := by
  induction l with
  | nil => simp at h
  | cons y ys ih =>
    rw [List.find?_cons] at h
    cases hq : q y with
    | true =>
      rw [hq] at h
      simp only [Option.some.injEq] at h
      subst h
      rw [List.filter_cons_of_pos hp, List.find?_cons, hq]
    | false =>
      rw [hq] at h
      by_cases hpy : p y = true
      · rw [List.filter_cons_of_pos hpy, List.find?_cons, hq]; exact ih h
      · rw [List.filter_cons_of_neg hpy]; exact ih h

theorem induced_attrs (I : LGraph) (X : List Nat) (n : Nat) (hn : n ∈ X) (hI : n ∈ I.ids) :
    (induced I X).attrs n = I.attrs n := by
  unfold LGraph.attrs
  cases hf : I.nodes.find? (fun p => decide (p.1 = n)) with
  | none =>
    rw [List.find?_eq_none] at hf
    obtain ⟨p, hp, rfl⟩ := List.mem_map.1 hI
    exact absurd (by simp) (hf p hp)
  | some p =>
    have h1 := List.find?_some hf
    simp only [decide_eq_true_eq] at h1
    have : (induced I X).nodes.find? (fun p => decide (p.1 = n)) = some p := by
      unfold induced
      exact find?_filter_of _ _ _ _ hf (by rw [h1]; exact (contains_iff X n).2 hn)
    rw [this]

theorem induced_edge?_of (I : LGraph) (X : List Nat) (u v : Nat) (a : Attrs)
    (h : I.edge? u v = some a) (hu : u ∈ X) (hv : v ∈ X) : (induced I X).edge? u v = some a := by
  unfold LGraph.edge? at h ⊢
  rw [Option.map_eq_some_iff] at h ⊢
  obtain ⟨e, he, rfl⟩ := h
  refine ⟨e, ?_, rfl⟩
  unfold induced
  apply find?_filter_of _ _ _ _ he
  have hadj := List.find?_some he
  simp only [Bool.and_eq_true, contains_iff]
  simp only [Bool.or_eq_true, Bool.and_eq_true, decide_eq_true_eq] at hadj
  rcases hadj with ⟨a, b⟩ | ⟨a, b⟩
  · rw [a, b]; exact ⟨hu, hv⟩
  · rw [a, b]; exact ⟨hv, hu⟩

theorem induced_edge?_to {I : LGraph} (hI : I.WF) (X : List Nat) (u v : Nat) (a : Attrs)
    (h : (induced I X).edge? u v = some a) : I.edge? u v = some a := by
  obtain ⟨e, he, hadj, rfl⟩ := edge?_some_mem h
  unfold induced at he
  exact edge?_of_mem hI (List.mem_filter.1 he).1 hadj


/-! ## Well-formed ITS graphs, sub-graph relation -/

/-- An ITS graph as `ITSConstruction.construct` builds it: a simple graph, every atom has a
`typesGH`, every bond an `order` pair of numbers and `standard_order` = their difference. -/
def WFits (I : LGraph) : Prop :=
  I.WF ∧ (∀ n ∈ I.ids, ((I.attrs n).get? "typesGH").isSome = true) ∧
  (∀ e ∈ I.edges, ∃ a b : Int, e.2.2.get "order" = .tup [.num a, .num b] ∧
      e.2.2.get "standard_order" = .num (a - b))

/-- The two entries of the `order` pair differ. -/
def changed (a : Attrs) : Prop := idx (a.get "order") 0 ≠ idx (a.get "order") 1

instance (a : Attrs) : Decidable (changed a) := by unfold changed; infer_instance

theorem stdNonzero_iff_changed {a : Attrs} {x y : Int} (ho : a.get "order" = .tup [.num x, .num y])
    (hs : a.get "standard_order" = .num (x - y)) : stdNonzero (a.get "standard_order") = true ↔ changed a := by
  unfold changed
  rw [hs, ho]
  simp only [stdNonzero, idx, List.getD_cons_zero, List.getD_cons_succ, bne_iff_ne, ne_eq, Val.num.injEq]
  omega

theorem includeEdge_default (a : Attrs) : includeEdge {} a = stdNonzero (a.get "standard_order") := by
  simp [includeEdge]

theorem rcEdgeAttrs_order (a : Attrs) : (rcEdgeAttrs {} a).get "order" = a.get "order" := by
  simp [rcEdgeAttrs, Dict.set, Attrs.get, Dict.getD, Dict.get?]

theorem rcEdgeAttrs_std (a : Attrs) : (rcEdgeAttrs {} a).get "standard_order" = a.get "standard_order" := by
  simp [rcEdgeAttrs, Dict.set, Attrs.get, Dict.getD, Dict.get?]

theorem endpoints_mem {I : LGraph} (hI : I.WF) {e : Nat × Nat × Attrs} (he : e ∈ I.edges) :
    e.1 ∈ I.ids ∧ e.2.1 ∈ I.ids := ⟨(hI.2.1 e he).1, (hI.2.1 e he).2.1⟩

theorem getRc_ids_sub {I : LGraph} (hI : I.WF) (o : RcOpts) (hd : o.disconnected = false) (n : Nat)
    (hn : n ∈ (getRc o I).ids) : n ∈ I.ids := by
  obtain ⟨e, he, _, h | h⟩ := (getRc_ids o hd I n).1 hn
  · rw [h]; exact (endpoints_mem hI he).1
  · rw [h]; exact (endpoints_mem hI he).2

theorem getRc_edge_labels {I : LGraph} (hI : I.WF) (u v : Nat) (a' : Attrs)
    (h : (getRc {} I).edge? u v = some a') :
    ∃ a, I.edge? u v = some a ∧ a'.get "order" = a.get "order" ∧
      a'.get "standard_order" = a.get "standard_order" := by
  obtain ⟨e', he', hadj, rfl⟩ := edge?_some_mem h
  obtain ⟨e, he, _, rfl⟩ := getRc_edges_from {} rfl I e' he'
  exact ⟨e.2.2, edge?_of_mem hI he hadj, rcEdgeAttrs_order _, rcEdgeAttrs_std _⟩

/-- `A` is a sub-graph of `B`: atoms and bonds of `A` are atoms and bonds of `B`, with the same
centre labels (`rcKeys`) and the same `order` / `standard_order`. -/
def Sub (A B : LGraph) : Prop :=
  (∀ n ∈ A.ids, n ∈ B.ids) ∧ (∀ u v, A.hasEdge u v = true → B.hasEdge u v = true) ∧
  (∀ n ∈ A.ids, ∀ k ∈ rcKeys, (A.attrs n).get k = (B.attrs n).get k) ∧
  (∀ u v a, A.edge? u v = some a → ∃ b, B.edge? u v = some b ∧ a.get "order" = b.get "order" ∧
      a.get "standard_order" = b.get "standard_order")

theorem edge?_hasEdge {g : LGraph} {u v : Nat} {a : Attrs} (h : g.edge? u v = some a) : g.hasEdge u v = true := by
  unfold LGraph.hasEdge; rw [h]; rfl

theorem induced_sub {I : LGraph} (hI : I.WF) (X : List Nat) : Sub (induced I X) I := by
  refine ⟨fun n hn => ((mem_ids_induced I X n).1 hn).1, fun u v h => ((induced_hasEdge I X u v).1 h).1, ?_, ?_⟩
  · intro n hn k _
    obtain ⟨h1, h2⟩ := (mem_ids_induced I X n).1 hn
    rw [induced_attrs I X n h2 h1]
  · intro u v a h
    exact ⟨a, induced_edge?_to hI X u v a h, rfl, rfl⟩

theorem induced_sub_induced {I : LGraph} (hI : I.WF) (X Y : List Nat) (hXY : ∀ n ∈ X, n ∈ Y) :
    Sub (induced I X) (induced I Y) := by
  refine ⟨?_, ?_, ?_, ?_⟩
  · intro n hn
    obtain ⟨h1, h2⟩ := (mem_ids_induced I X n).1 hn
    exact (mem_ids_induced I Y n).2 ⟨h1, hXY n h2⟩
  · intro u v h
    obtain ⟨h1, h2, h3⟩ := (induced_hasEdge I X u v).1 h
    exact (induced_hasEdge I Y u v).2 ⟨h1, hXY u h2, hXY v h3⟩
  · intro n hn k _
    obtain ⟨h1, h2⟩ := (mem_ids_induced I X n).1 hn
    rw [induced_attrs I X n h2 h1, induced_attrs I Y n (hXY n h2) h1]
  · intro u v a h
    obtain ⟨_, h2, h3⟩ := (induced_hasEdge I X u v).1 (edge?_hasEdge h)
    exact ⟨a, induced_edge?_of I Y u v a (induced_edge?_to hI X u v a h) (hXY u h2) (hXY v h3), rfl, rfl⟩

theorem mem_rcKeys_elementKey {k : String} (hk : k ∈ rcKeys) : k ∈ ({} : RcOpts).elementKey := hk

theorem getRc_sub_induced {I : LGraph} (hI : WFits I) (X : List Nat) (hX : ∀ n ∈ (getRc {} I).ids, n ∈ X) :
    Sub (getRc {} I) (induced I X) := by
  refine ⟨?_, ?_, ?_, ?_⟩
  · intro n hn
    exact (mem_ids_induced I X n).2 ⟨getRc_ids_sub hI.1 {} rfl n hn, hX n hn⟩
  · intro u v h
    obtain ⟨e, he, hs, hadj⟩ := (getRc_hasEdge {} rfl I u v).1 h
    refine (induced_hasEdge I X u v).2 ⟨(hasEdge_iff I u v).2 ⟨e, he, hadj⟩, ?_, ?_⟩
    · apply hX; rw [getRc_ids {} rfl]
      refine ⟨e, he, hs, ?_⟩
      rcases hadj with ⟨a, _⟩ | ⟨_, b⟩
      · exact Or.inl a.symm
      · exact Or.inr b.symm
    · apply hX; rw [getRc_ids {} rfl]
      refine ⟨e, he, hs, ?_⟩
      rcases hadj with ⟨_, b⟩ | ⟨a, _⟩
      · exact Or.inr b.symm
      · exact Or.inl a.symm
  · intro n hn k hk
    have hnI := getRc_ids_sub hI.1 {} rfl n hn
    rw [induced_attrs I X n (hX n hn) hnI]
    exact getRc_label {} rfl I n hn k (mem_rcKeys_elementKey hk) (Or.inr (hI.2.1 n hnI))
  · intro u v a h
    obtain ⟨b, hb, h1, h2⟩ := getRc_edge_labels hI.1 u v a h
    have hE := edge?_hasEdge h
    obtain ⟨e, he, hs, hadj⟩ := (getRc_hasEdge {} rfl I u v).1 hE
    refine ⟨b, induced_edge?_of I X u v b hb ?_ ?_, h1, h2⟩
    · apply hX; rw [getRc_ids {} rfl]
      refine ⟨e, he, hs, ?_⟩
      rcases hadj with ⟨a, _⟩ | ⟨_, b⟩
      · exact Or.inl a.symm
      · exact Or.inr b.symm
    · apply hX; rw [getRc_ids {} rfl]
      refine ⟨e, he, hs, ?_⟩
      rcases hadj with ⟨_, b⟩ | ⟨a, _⟩
      · exact Or.inr b.symm
      · exact Or.inl a.symm

theorem DistLE.mem_ids {I : LGraph} (hI : I.WF) {s k n : Nat} (h : DistLE I s k n) (hs : s ∈ I.ids) : n ∈ I.ids := by
  induction h with
  | refl k => exact hs
  | step _ hE _ =>
    obtain ⟨e, he, hadj⟩ := (hasEdge_iff _ _ _).1 hE
    rcases hadj with ⟨_, b⟩ | ⟨a, _⟩
    · rw [← b]; exact (endpoints_mem hI he).2
    · rw [← a]; exact (endpoints_mem hI he).1


/-! ## Idempotence -/

/-- Equality of two centres as labelled graphs, irrespective of list order: same atoms with the
same centre labels, same bonds with the same `order` / `standard_order`. -/
def RcEq (A B : LGraph) : Prop :=
  (∀ n, n ∈ A.ids ↔ n ∈ B.ids) ∧
  (∀ n ∈ A.ids, ∀ k ∈ rcKeys, (A.attrs n).get k = (B.attrs n).get k) ∧
  (∀ u v, A.hasEdge u v = B.hasEdge u v) ∧
  (∀ u v a b, A.edge? u v = some a → B.edge? u v = some b →
      a.get "order" = b.get "order" ∧ a.get "standard_order" = b.get "standard_order")

theorem getRc_ids_iff_endpoints (I : LGraph) (n : Nat) :
    n ∈ (getRc {} I).ids ↔ ∃ v, (getRc {} I).hasEdge n v = true := by
  rw [getRc_ids {} rfl]
  constructor
  · rintro ⟨e, he, hs, h | h⟩
    · exact ⟨e.2.1, (getRc_hasEdge {} rfl I n e.2.1).2 ⟨e, he, hs, Or.inl ⟨h.symm, rfl⟩⟩⟩
    · exact ⟨e.1, (getRc_hasEdge {} rfl I n e.1).2 ⟨e, he, hs, Or.inr ⟨rfl, h.symm⟩⟩⟩
  · rintro ⟨v, hv⟩
    obtain ⟨e, he, hs, hadj⟩ := (getRc_hasEdge {} rfl I n v).1 hv
    refine ⟨e, he, hs, ?_⟩
    rcases hadj with ⟨a, _⟩ | ⟨_, b⟩
    · exact Or.inl a.symm
    · exact Or.inr b.symm

/-- Every bond of a centre is again selected when the centre is taken as the input. -/
theorem getRc_edges_sel (I : LGraph) : ∀ e' ∈ (getRc {} I).edges, Sel {} (getRc {} I) e' := by
  intro e' he'
  obtain ⟨e, he, hs, rfl⟩ := getRc_edges_from {} rfl I e' he'
  rcases hs with h | h
  · left
    show includeEdge {} (rcEdgeAttrs {} e.2.2) = true
    rw [includeEdge_default, rcEdgeAttrs_std, ← includeEdge_default]; exact h
  · right
    show isHH (getRc {} I) e.1 e.2.1 = true
    have h1 : e.1 ∈ (getRc {} I).ids := (getRc_ids {} rfl I e.1).2 ⟨e, he, Or.inr h, Or.inl rfl⟩
    have h2 : e.2.1 ∈ (getRc {} I).ids := (getRc_ids {} rfl I e.2.1).2 ⟨e, he, Or.inr h, Or.inr rfl⟩
    have hk : "element" ∈ ({} : RcOpts).elementKey := by decide
    unfold isHH at h ⊢
    rw [getRc_label {} rfl I e.1 h1 "element" hk (Or.inl (by decide)),
      getRc_label {} rfl I e.2.1 h2 "element" hk (Or.inl (by decide))]
    exact h

theorem getRc_getRc_hasEdge (I : LGraph) (u v : Nat) :
    (getRc {} (getRc {} I)).hasEdge u v = (getRc {} I).hasEdge u v := by
  rw [Bool.eq_iff_iff, getRc_hasEdge {} rfl, hasEdge_iff]
  constructor
  · rintro ⟨e, he, _, hadj⟩; exact ⟨e, he, hadj⟩
  · rintro ⟨e, he, hadj⟩; exact ⟨e, he, getRc_edges_sel I e he, hadj⟩

theorem getRc_has_typesGH {I : LGraph} (hI : WFits I) (n : Nat) (hn : n ∈ (getRc {} I).ids) :
    (((getRc {} I).attrs n).get? "typesGH").isSome = true := by
  obtain ⟨a, ha, hattr⟩ := attrs_of_mem hn
  rw [hattr]
  have hnI := getRc_ids_sub hI.1 {} rfl n hn
  rcases getRc_node_labels {} rfl I (n, a) ha with h1 | h1
  · simp only at h1
    rw [h1, proj_get?, if_pos (by decide)]
    exact hI.2.1 n hnI
  · simp only at h1
    rw [h1]; unfold hhLabel
    simp only [Dict.get?_set_self, Option.isSome_some]

theorem getRc_idem' (I : LGraph) (hI : WFits I) : RcEq (getRc {} (getRc {} I)) (getRc {} I) := by
  have hids : ∀ n, n ∈ (getRc {} (getRc {} I)).ids ↔ n ∈ (getRc {} I).ids := by
    intro n
    rw [getRc_ids_iff_endpoints, getRc_ids_iff_endpoints]
    simp only [getRc_getRc_hasEdge]
  refine ⟨hids, ?_, getRc_getRc_hasEdge I, ?_⟩
  · intro n hn k hk
    exact getRc_label {} rfl (getRc {} I) n hn k (mem_rcKeys_elementKey hk)
      (Or.inr (getRc_has_typesGH hI n ((hids n).1 hn)))
  · intro u v a b ha hb
    obtain ⟨e2, he2, hadj2, rfl⟩ := edge?_some_mem ha
    obtain ⟨e', he', _, rfl⟩ := getRc_edges_from {} rfl _ e2 he2
    obtain ⟨e1, he1, _, rfl⟩ := getRc_edges_from {} rfl I e' he'
    obtain ⟨e'', he'', hadj3, rfl⟩ := edge?_some_mem hb
    obtain ⟨e3, he3, _, rfl⟩ := getRc_edges_from {} rfl I e'' he''
    have h1 : I.edge? u v = some e1.2.2 := edge?_of_mem hI.1 he1 hadj2
    have h3 : I.edge? u v = some e3.2.2 := edge?_of_mem hI.1 he3 hadj3
    have : e1.2.2 = e3.2.2 := Option.some.inj (h1.symm.trans h3)
    show (rcEdgeAttrs {} (rcEdgeAttrs {} e1.2.2)).get "order" = (rcEdgeAttrs {} e3.2.2).get "order" ∧
      (rcEdgeAttrs {} (rcEdgeAttrs {} e1.2.2)).get "standard_order" = (rcEdgeAttrs {} e3.2.2).get "standard_order"
    rw [rcEdgeAttrs_order, rcEdgeAttrs_order, rcEdgeAttrs_order, rcEdgeAttrs_std, rcEdgeAttrs_std, rcEdgeAttrs_std, this]
    exact ⟨rfl, rfl⟩


/-! ## Renumbering (uses the `relabel` lemmas of `ITSLemmasC01.lean`) -/

section RelabelRc
variable {π : Nat → Nat} (hπ : Function.Injective π)
include hπ

theorem foldl_relabel {β : Type} (step step' : LGraph → β → LGraph) (f : β → β)
    (h : ∀ rc e, step' (rc.relabel π) (f e) = (step rc e).relabel π) (rc : LGraph) (es : List β) :
    (es.map f).foldl step' (rc.relabel π) = (es.foldl step rc).relabel π := by
  induction es generalizing rc with
  | nil => rfl
  | cons e es ih => rw [List.map_cons, List.foldl_cons, List.foldl_cons, h, ih]

theorem ensureNode_relabel (keys : List String) (I rc : LGraph) (n : Nat) :
    ensureNode keys (I.relabel π) (rc.relabel π) (π n) = (ensureNode keys I rc n).relabel π := by
  unfold ensureNode
  rw [C01L.relabel_hasNode hπ, C01L.relabel_attrs hπ]
  split
  · rfl
  · simp [LGraph.relabel]

theorem ensureNodeHH_relabel (keys : List String) (I rc : LGraph) (n : Nat) :
    ensureNodeHH keys (I.relabel π) (rc.relabel π) (π n) = (ensureNodeHH keys I rc n).relabel π := by
  unfold ensureNodeHH
  rw [C01L.relabel_hasNode hπ, C01L.relabel_attrs hπ]
  split
  · rfl
  · simp [LGraph.relabel]

omit hπ in
theorem pushEdge_relabel (rc : LGraph) (u v : Nat) (a : Attrs) :
    pushEdge (rc.relabel π) (π u, π v, a) = (pushEdge rc (u, v, a)).relabel π := by
  simp [pushEdge, LGraph.relabel]

theorem changedStep_relabel (o : RcOpts) (I rc : LGraph) (e : Nat × Nat × Attrs) :
    changedStep o (I.relabel π) (rc.relabel π) (π e.1, π e.2.1, e.2.2) = (changedStep o I rc e).relabel π := by
  unfold changedStep
  simp only
  split
  · rw [ensureNode_relabel hπ, ensureNode_relabel hπ, pushEdge_relabel]
  · rfl

theorem isHH_relabel (I : LGraph) (u v : Nat) : isHH (I.relabel π) (π u) (π v) = isHH I u v := by
  unfold isHH; rw [C01L.relabel_attrs hπ, C01L.relabel_attrs hπ]

theorem hhStep_relabel (o : RcOpts) (I rc : LGraph) (e : Nat × Nat × Attrs) :
    hhStep o (I.relabel π) (rc.relabel π) (π e.1, π e.2.1, e.2.2) = (hhStep o I rc e).relabel π := by
  unfold hhStep
  simp only
  rw [isHH_relabel hπ]
  split
  · rw [ensureNodeHH_relabel hπ, ensureNodeHH_relabel hπ, C01L.relabel_hasEdge hπ]
    split
    · rfl
    · rw [pushEdge_relabel]
  · rfl

theorem chargeStep_relabel (o : RcOpts) (I rc : LGraph) (p : Nat × Attrs) :
    (fun rc (p : Nat × Attrs) => if chargeChanged p.2 then ensureNode o.elementKey (I.relabel π) rc p.1 else rc)
        (rc.relabel π) (π p.1, p.2)
      = ((fun rc (p : Nat × Attrs) => if chargeChanged p.2 then ensureNode o.elementKey I rc p.1 else rc) rc p).relabel π := by
  simp only
  split
  · rw [ensureNode_relabel hπ]
  · rfl

theorem reconnectStep_relabel (o : RcOpts) (rc : LGraph) (e : Nat × Nat × Attrs) :
    (fun (rc : LGraph) (e : Nat × Nat × Attrs) =>
        if rc.hasNode e.1 && rc.hasNode e.2.1 && !rc.hasEdge e.1 e.2.1
        then pushEdge rc (e.1, e.2.1, rcEdgeAttrs2 o e.2.2) else rc) (rc.relabel π) (π e.1, π e.2.1, e.2.2)
      = ((fun (rc : LGraph) (e : Nat × Nat × Attrs) =>
        if rc.hasNode e.1 && rc.hasNode e.2.1 && !rc.hasEdge e.1 e.2.1
        then pushEdge rc (e.1, e.2.1, rcEdgeAttrs2 o e.2.2) else rc) rc e).relabel π := by
  simp only
  rw [C01L.relabel_hasNode hπ, C01L.relabel_hasNode hπ, C01L.relabel_hasEdge hπ]
  split
  · rw [pushEdge_relabel]
  · rfl

/-- `get_rc` commutes with every injective renumbering of the atoms (all options). -/
theorem getRc_relabel' (o : RcOpts) (I : LGraph) : getRc o (I.relabel π) = (getRc o I).relabel π := by
  have hE : (I.relabel π).edges = I.edges.map (fun e => (π e.1, π e.2.1, e.2.2)) := rfl
  have hN : (I.relabel π).nodes = I.nodes.map (fun p => (π p.1, p.2)) := rfl
  have h0 : ({} : LGraph) = ({} : LGraph).relabel π := rfl
  have h1 : addHH o (I.relabel π) (addChanged o (I.relabel π) {}) = (addHH o I (addChanged o I {})).relabel π := by
    unfold addHH addChanged
    rw [hE, h0, foldl_relabel hπ (changedStep o I) (changedStep o (I.relabel π)) _ (changedStep_relabel hπ o I),
      foldl_relabel hπ (hhStep o I) (hhStep o (I.relabel π)) _ (hhStep_relabel hπ o I)]
    rfl
  unfold getRc
  simp only
  rw [h1]
  split
  · unfold reconnect addChargeNodes
    rw [hE, hN, foldl_relabel hπ _ _ _ (chargeStep_relabel hπ o I), foldl_relabel hπ _ _ _ (reconnectStep_relabel hπ o)]
  · rfl

end RelabelRc

end SynKit.ITS

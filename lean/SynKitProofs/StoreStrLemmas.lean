import SynKitProofs.StoreLemmas
import SynKitProofs.ViewsLemmas.Str
/-!
# Helper lemmas for the string entry points of the store (C15: `add_rxn_from_str`, `parse_rxns`)

What a well-formed line parses to (generalising `Views.Str.parseLine_fmtLine` to an explicit
`rule=` argument, to `parse_rule_from_suffix=False` and to lines without suffix), and what
`Store.addFromStr` / `Store.parseRxns` do with it.
-/
namespace SynKit.Store
open SynKit SynKit.Views SynKit.Views.Str

/-- The rule `add_rxn_from_str` ends up with: the explicit `rule=` argument if it is not `None`
(also when it is `""`), else the rule of the parsed suffix (if there is one and it is parsed),
and then `add_rxn`'s `rule or "r"`. -/
def decidedRule (explicit suffixRule : Option String) : String :=
  Store.normRule (match explicit with
    | some x => some x
    | none => suffixRule)

/-- The lines `addFromStr_spec` speaks about, as combinations of printing flags and the
`parse_rule_from_suffix` argument: either the line carries a `| rule=R` suffix (possibly followed
by `id=…`) and the suffix is parsed, or the line is the bare `lhs >> rhs`. (A line with a suffix
handed over with `parse_rule_from_suffix=False` is *not* well formed for the code: the suffix
stays in the text of the right-hand side, see `suffix_unparsed_example` in `Props/C15.lean`.) -/
def LineMode (f : StrFlags) (parseSuffix : Bool) : Prop :=
  (f.includeRule = true ∧ parseSuffix = true) ∨ (f.includeRule = false ∧ f.includeId = false)

theorem splitFirst_none (c : Char) (a : List Char) (h : c ∉ a) : splitFirst c a = none := by
  induction a with
  | nil => rfl
  | cons x a ih =>
    simp only [List.mem_cons, not_or] at h
    simp only [splitFirst, if_neg (Ne.symm h.1), ih h.2]

/-- Line with suffix, suffix parsed, any explicit rule. (Copy of the proof of
`Views.Str.parseLine_fmtLine` with the explicit rule left general.) -/
theorem parseLine_fmtLine_suffix (f : StrFlags) (hf : f.includeRule = true) (e : Rxn) (ex : Option String)
    (hs : WfSide e.reactants ∧ WfSide e.products) (hl : WfLabels e.reactants ∧ WfLabels e.products)
    (hr : WfRule e.rule) :
    parseLine ex true (fmtLine f e) =
      .ok ⟨(match ex with | some x => some x | none => some e.rule),
        sortSide e.reactants, sortSide e.products⟩ := by
  obtain ⟨hrne, hrws⟩ := wfRule_list e.rule hr
  have hline : ∃ tail, (tail = [] ∨ ∃ idl, tail = ' ' :: 'i' :: 'd' :: '=' :: idl) ∧
      fmtLine f e = (fmtSide e.reactants ++ arrow ++ fmtSide e.products ++ [' ']) ++
        '|' :: (' ' :: 'r' :: 'u' :: 'l' :: 'e' :: '=' :: (e.rule.toList ++ tail)) := by
    have h1 : "rule=".toList = ['r', 'u', 'l', 'e', '='] := rfl
    have h2 : "id=".toList = ['i', 'd', '='] := rfl
    have h3 : (e.rule != "") = true := by simp [hr.1]
    unfold fmtLine
    simp only [hf, h3, Bool.and_self, if_true, h1, h2]
    cases f.includeId with
    | false => exact ⟨[], Or.inl rfl, by simp [intercalate]⟩
    | true => exact ⟨' ' :: 'i' :: 'd' :: '=' :: e.id.toList, Or.inr ⟨_, rfl⟩, by simp [intercalate]⟩
  obtain ⟨tail, htail, hline⟩ := hline
  have hnr := fmtSide_no_sep e.reactants hl.1
  have hnp := fmtSide_no_sep e.products hl.2
  have hbar : '|' ∉ fmtSide e.reactants ++ arrow ++ fmtSide e.products ++ [' '] := by
    simp only [List.mem_append, not_or, arrow]
    exact ⟨⟨⟨hnr.1, by decide⟩, hnp.1⟩, by decide⟩
  have hsplit := splitFirst_append '|' _ (' ' :: 'r' :: 'u' :: 'l' :: 'e' :: '=' :: (e.rule.toList ++ tail)) hbar
  obtain ⟨tail', hmeta, htail'⟩ := strip_meta e.rule.toList tail (Tight_of_noWs _ hrne hrws) htail
  have hsearch := searchRule_head e.rule.toList tail' hrne hrws htail'
  have htr := fmtSide_tight e.reactants hl.1
  have htp := fmtSide_tight e.products hl.2
  have hcore : strip (fmtSide e.reactants ++ arrow ++ fmtSide e.products ++ [' ']) =
      (fmtSide e.reactants ++ [' ']) ++ '>' :: '>' :: ([' '] ++ fmtSide e.products) := by
    have := strip_pad [] (fmtSide e.reactants ++ arrow ++ fmtSide e.products) [' '] (by simp)
      (by simp; decide) (Tight_append _ _ _ htr htp)
    rw [List.nil_append] at this
    rw [this]; simp [arrow]
  have harrow : '>' ∉ fmtSide e.reactants ++ [' '] := by
    simp only [List.mem_append, not_or]; exact ⟨hnr.2, by decide⟩
  have hsa := splitArrow_append (fmtSide e.reactants ++ [' ']) ([' '] ++ fmtSide e.products) harrow
  have hpr := side_roundtrip_pad e.reactants hs.1 hl.1 [] [' '] (by simp) (by simp; decide)
  have hpp := side_roundtrip_pad e.products hs.2 hl.2 [' '] [] (by simp; decide) (by simp)
  rw [List.nil_append] at hpr
  rw [List.append_nil] at hpp
  unfold parseLine
  cases ex <;>
    simp only [if_true, hline, hsplit, hmeta, hsearch, hcore, hsa, hpr, hpp, String.ofList_toList]

/-- Bare line `lhs >> rhs`: the rule is the explicit argument, whatever `parse_rule_from_suffix`. -/
theorem parseLine_fmtLine_bare (f : StrFlags) (hf : f.includeRule = false) (hid : f.includeId = false)
    (e : Rxn) (ex : Option String) (sfx : Bool)
    (hs : WfSide e.reactants ∧ WfSide e.products) (hl : WfLabels e.reactants ∧ WfLabels e.products) :
    parseLine ex sfx (fmtLine f e) = .ok ⟨ex, sortSide e.reactants, sortSide e.products⟩ := by
  have hline : fmtLine f e = fmtSide e.reactants ++ arrow ++ fmtSide e.products := by
    unfold fmtLine
    simp [hf, hid]
  have hnr := fmtSide_no_sep e.reactants hl.1
  have hnp := fmtSide_no_sep e.products hl.2
  have hbar : '|' ∉ fmtSide e.reactants ++ arrow ++ fmtSide e.products := by
    simp only [List.mem_append, not_or, arrow]
    exact ⟨⟨hnr.1, by decide⟩, hnp.1⟩
  have hsplit : (if sfx = true then splitFirst '|' (fmtSide e.reactants ++ arrow ++ fmtSide e.products)
      else none) = none := by
    split
    · exact splitFirst_none _ _ hbar
    · rfl
  have htr := fmtSide_tight e.reactants hl.1
  have htp := fmtSide_tight e.products hl.2
  have hcore : strip (fmtSide e.reactants ++ arrow ++ fmtSide e.products) =
      (fmtSide e.reactants ++ [' ']) ++ '>' :: '>' :: ([' '] ++ fmtSide e.products) := by
    rw [strip_tight _ (Tight_append _ _ _ htr htp)]; simp [arrow]
  have harrow : '>' ∉ fmtSide e.reactants ++ [' '] := by
    simp only [List.mem_append, not_or]; exact ⟨hnr.2, by decide⟩
  have hsa := splitArrow_append (fmtSide e.reactants ++ [' ']) ([' '] ++ fmtSide e.products) harrow
  have hpr := side_roundtrip_pad e.reactants hs.1 hl.1 [] [' '] (by simp) (by simp; decide)
  have hpp := side_roundtrip_pad e.products hs.2 hl.2 [' '] [] (by simp; decide) (by simp)
  rw [List.nil_append] at hpr
  rw [List.append_nil] at hpp
  unfold parseLine
  simp only [hline, hsplit, hcore, hsa, hpr, hpp]

/-- What a well-formed line parses to, in both modes. -/
theorem parseLine_wfLine (f : StrFlags) (e : Rxn) (ex : Option String) (sfx : Bool)
    (hm : LineMode f sfx)
    (hs : WfSide e.reactants ∧ WfSide e.products) (hl : WfLabels e.reactants ∧ WfLabels e.products)
    (hr : f.includeRule = true → WfRule e.rule) :
    parseLine ex sfx (fmtLine f e) =
      .ok ⟨(match ex with
            | some x => some x
            | none => if f.includeRule then some e.rule else none),
        sortSide e.reactants, sortSide e.products⟩ := by
  rcases hm with ⟨hf, rfl⟩ | ⟨hf, hid⟩
  · rw [parseLine_fmtLine_suffix f hf e ex hs hl (hr hf)]
    cases ex <;> simp [hf]
  · rw [parseLine_fmtLine_bare f hf hid e ex sfx hs hl]
    cases ex <;> simp [hf]

/-- `add_rxn` with a generated id on a non-empty reaction: advance the counter, insert. -/
theorem addNorm_gen (s : Store) (r p : Side) (rule : Option String) (hne : r ≠ [] ∨ p ≠ []) :
    s.addNorm r p rule none =
      ((s.nextId (Store.normRule rule)).1.insertEdge
          ⟨(s.nextId (Store.normRule rule)).2, Store.normRule rule, r, p⟩,
        .ok (s.nextId (Store.normRule rule)).2) := by
  have hemp : (r.isEmpty && p.isEmpty) = false := by
    rcases hne with h | h
    · cases r with
      | nil => exact absurd rfl h
      | cons _ _ => rfl
    · cases p with
      | nil => exact absurd rfl h
      | cons _ _ => simp
  unfold Store.addNorm
  simp only [hemp, Bool.false_eq_true, if_false]

theorem sortSide_ne_nil (r p : Side) (hne : r ≠ [] ∨ p ≠ []) : sortSide r ≠ [] ∨ sortSide p ≠ [] := by
  rcases hne with h | h
  · exact Or.inl (fun h' => h ((sortSide_eq_nil_iff _).1 h'))
  · exact Or.inr (fun h' => h ((sortSide_eq_nil_iff _).1 h'))

/-- `addFromStr` on a well-formed line, as an equation. -/
theorem addFromStr_wfLine (s : Store) (f : StrFlags) (e : Rxn) (ex : Option String) (sfx : Bool)
    (hm : LineMode f sfx)
    (hs : WfSide e.reactants ∧ WfSide e.products) (hl : WfLabels e.reactants ∧ WfLabels e.products)
    (hr : f.includeRule = true → WfRule e.rule) (hne : e.reactants ≠ [] ∨ e.products ≠ []) :
    s.addFromStr (fmtLine f e) ex sfx =
      ((s.nextId (decidedRule ex (if f.includeRule then some e.rule else none))).1.insertEdge
          ⟨(s.nextId (decidedRule ex (if f.includeRule then some e.rule else none))).2,
            decidedRule ex (if f.includeRule then some e.rule else none),
            sortSide e.reactants, sortSide e.products⟩,
        .ok (s.nextId (decidedRule ex (if f.includeRule then some e.rule else none))).2) := by
  unfold Store.addFromStr
  rw [parseLine_wfLine f e ex sfx hm hs hl hr]
  simp only
  rw [addNorm_gen s _ _ _ (sortSide_ne_nil _ _ hne)]
  rfl

/-! ### `parse_rxns` -/

theorem parseRxns_cons (s : Store) (line : List Char) (ex : Option String)
    (rest : List (List Char × Option String)) (dr : String) (sfx pref : Bool) :
    s.parseRxns ((line, ex) :: rest) dr sfx pref =
      match s.addFromStr line (lineArgs dr sfx pref line ex).1 (lineArgs dr sfx pref line ex).2 with
      | (s1, .ok _) => s1.parseRxns rest dr sfx pref
      | (s1, .error err) => (s1, .error err) := rfl

/-- Whatever happens, `parse_rxns` never touches a reaction that is already stored: the table
only grows at the end (also when a later line raises). -/
theorem addFromStr_edges_prefix (s : Store) (line : List Char) (rule : Option String) (sfx : Bool) :
    ∃ added, (s.addFromStr line rule sfx).1.edges = s.edges ++ added := by
  unfold Store.addFromStr
  split
  · exact ⟨[], by simp⟩
  · rename_i pl _
    rcases hres : s.addNorm pl.reactants pl.products pl.rule none with ⟨s', res⟩
    cases res with
    | ok i =>
      obtain ⟨_, _, s0, h0, _, _, _, _, _, h2⟩ := addNorm_ok _ _ _ _ _ _ _ hres
      exact ⟨[⟨i, Store.normRule pl.rule, pl.reactants, pl.products⟩], by simp [h2, Store.insertEdge, h0]⟩
    | error err =>
      exact ⟨[], by simp [addNorm_err_edges _ _ _ _ _ _ _ hres]⟩

theorem parseRxns_edges_prefix (items : List (List Char × Option String)) (dr : String)
    (sfx pref : Bool) : ∀ s : Store,
    ∃ added, (s.parseRxns items dr sfx pref).1.edges = s.edges ++ added := by
  induction items with
  | nil => intro s; exact ⟨[], by simp [Store.parseRxns]⟩
  | cons it rest ih =>
    intro s
    obtain ⟨line, ex⟩ := it
    rw [parseRxns_cons]
    obtain ⟨a1, h1⟩ := addFromStr_edges_prefix s line (lineArgs dr sfx pref line ex).1
      (lineArgs dr sfx pref line ex).2
    split
    · rename_i s1 _ heq
      rw [heq] at h1
      obtain ⟨a2, h2⟩ := ih s1
      exact ⟨a1 ++ a2, by rw [h2, h1, List.append_assoc]⟩
    · rename_i s1 err heq
      rw [heq] at h1
      exact ⟨a1, h1⟩

/-- Rule of one `(line, explicit_rule)` item of `parse_rxns`, as the loop body decides it:
`suffixRule` is the rule spelled in the line's `| rule=R` suffix, if the line has one. -/
def parseRxnsRule (defaultRule : String) (parseSuffix preferSuffix : Bool)
    (suffixRule explicit : Option String) : String :=
  match explicit with
  | some x =>
    if preferSuffix && parseSuffix then
      match suffixRule with
      | some R => Store.normRule (some R)
      | none => Store.normRule (some x)
    else Store.normRule (some x)
  | none => if parseSuffix then Store.normRule suffixRule else Store.normRule (some defaultRule)

/-- The items `parseRxns_spec` speaks about: a bare line `lhs >> rhs` is always fine; a line with
a `| rule=R` suffix needs the suffix to be parsed, i.e. `parse_rule_from_suffix=True` and either no
explicit per-line rule or `prefer_suffix=True`. (In the remaining combinations the code hands the
line over with `parse_rule_from_suffix=False` and the suffix ends up in a species label.) -/
def ItemMode (parseSuffix preferSuffix : Bool) (f : StrFlags) (explicit : Option String) : Prop :=
  (f.includeRule = false ∧ f.includeId = false) ∨
    (f.includeRule = true ∧ parseSuffix = true ∧ (explicit = none ∨ preferSuffix = true))

theorem matchBarRuleAt_ne (c : Char) (cs : List Char) (h : c ≠ '|') : matchBarRuleAt (c :: cs) = false := by
  unfold matchBarRuleAt
  split
  · rename_i heq
    simp only [List.cons.injEq] at heq
    exact absurd heq.1 h
  · rfl

theorem searchBarRule_no_bar (l : List Char) (h : '|' ∉ l) : searchBarRule l = false := by
  induction l with
  | nil => rfl
  | cons c cs ih =>
    simp only [List.mem_cons, not_or] at h
    simp only [searchBarRule, matchBarRuleAt_ne c cs (Ne.symm h.1), ih h.2, Bool.or_self]

theorem searchBarRule_suffix (pre rule tail : List Char) (hne : rule ≠ [])
    (hr : ∀ c ∈ rule, isWs c = false) :
    searchBarRule (pre ++ '|' :: ' ' :: 'r' :: 'u' :: 'l' :: 'e' :: '=' :: (rule ++ tail)) = true := by
  induction pre with
  | nil =>
    obtain ⟨x, r, hxr⟩ := List.exists_cons_of_ne_nil hne
    have hx : isWs x = false := hr x (by simp [hxr])
    have h0 : isWs '=' = false := by decide
    have h1 : isWs ' ' = true := by decide
    have h2 : isWs 'r' = false := by decide
    simp only [List.nil_append, searchBarRule, matchBarRuleAt, List.dropWhile, h1, h2, matchRuleAt, h0,
      hxr, List.cons_append, hx, List.takeWhile]
    simp
  | cons c pre ih =>
    simp only [List.cons_append, searchBarRule, ih, Bool.or_true]

theorem fmtLine_suffix_shape (f : StrFlags) (hf : f.includeRule = true) (e : Rxn) (hr : WfRule e.rule) :
    ∃ tail, (tail = [] ∨ ∃ idl, tail = ' ' :: 'i' :: 'd' :: '=' :: idl) ∧
      fmtLine f e = (fmtSide e.reactants ++ arrow ++ fmtSide e.products ++ [' ']) ++
        '|' :: (' ' :: 'r' :: 'u' :: 'l' :: 'e' :: '=' :: (e.rule.toList ++ tail)) := by
  have h1 : "rule=".toList = ['r', 'u', 'l', 'e', '='] := rfl
  have h2 : "id=".toList = ['i', 'd', '='] := rfl
  have h3 : (e.rule != "") = true := by simp [hr.1]
  unfold fmtLine
  simp only [hf, h3, Bool.and_self, if_true, h1, h2]
  cases f.includeId with
  | false => exact ⟨[], Or.inl rfl, by simp [intercalate]⟩
  | true => exact ⟨' ' :: 'i' :: 'd' :: '=' :: e.id.toList, Or.inr ⟨_, rfl⟩, by simp [intercalate]⟩

theorem searchBarRule_fmtLine (f : StrFlags) (e : Rxn)
    (hl : WfLabels e.reactants ∧ WfLabels e.products) (hr : f.includeRule = true → WfRule e.rule)
    (hb : f.includeRule = false → f.includeId = false) :
    searchBarRule (fmtLine f e) = f.includeRule := by
  cases hf : f.includeRule with
  | true =>
    obtain ⟨hrne, hrws⟩ := wfRule_list e.rule (hr hf)
    obtain ⟨tail, _, hline⟩ := fmtLine_suffix_shape f hf e (hr hf)
    rw [hline]
    exact searchBarRule_suffix _ _ _ hrne hrws
  | false =>
    have hline : fmtLine f e = fmtSide e.reactants ++ arrow ++ fmtSide e.products := by
      unfold fmtLine
      simp [hf, hb hf]
    have hnr := fmtSide_no_sep e.reactants hl.1
    have hnp := fmtSide_no_sep e.products hl.2
    rw [hline]
    apply searchBarRule_no_bar
    simp only [List.mem_append, not_or, arrow]
    exact ⟨⟨hnr.1, by decide⟩, hnp.1⟩

/-- For an admissible item the loop body calls `add_rxn_from_str` in a mode in which the line is
well formed, and the rule it ends up with is `parseRxnsRule`. -/
theorem lineArgs_wfLine (dr : String) (sfx pref : Bool) (f : StrFlags) (e : Rxn) (ex : Option String)
    (hm : ItemMode sfx pref f ex)
    (hl : WfLabels e.reactants ∧ WfLabels e.products) (hr : f.includeRule = true → WfRule e.rule) :
    LineMode f (lineArgs dr sfx pref (fmtLine f e) ex).2 ∧
      decidedRule (lineArgs dr sfx pref (fmtLine f e) ex).1 (if f.includeRule then some e.rule else none) =
        parseRxnsRule dr sfx pref (if f.includeRule then some e.rule else none) ex := by
  have hsb := searchBarRule_fmtLine f e hl hr
  rcases hm with ⟨hf, hid⟩ | ⟨hf, rfl, hex⟩
  · have hsb := hsb (fun _ => hid)
    refine ⟨Or.inr ⟨hf, hid⟩, ?_⟩
    cases ex <;> cases sfx <;> cases pref <;>
      simp [lineArgs, hsb, hf, decidedRule, parseRxnsRule]
  · have hsb := hsb (fun h => by rw [hf] at h; cases h)
    rcases hex with rfl | rfl
    · exact ⟨Or.inl ⟨hf, rfl⟩, by simp [lineArgs, hf, decidedRule, parseRxnsRule]⟩
    · cases ex with
      | none => exact ⟨Or.inl ⟨hf, rfl⟩, by simp [lineArgs, hf, decidedRule, parseRxnsRule]⟩
      | some x =>
        exact ⟨Or.inl ⟨hf, by simp [lineArgs, hsb, hf]⟩,
          by simp [lineArgs, hsb, hf, decidedRule, parseRxnsRule]⟩

/-- What an edge carries besides its id. -/
def Edge.content (e : Edge) : String × Side × Side := (e.rule, e.reactants, e.products)

/-- One input item of `parse_rxns`: the printing flags and the reaction the line spells, and the
explicit per-line rule. -/
abbrev Item := StrFlags × Rxn × Option String

def Item.line (it : Item) : List Char × Option String := (fmtLine it.1 it.2.1, it.2.2)

def Item.Wf (sfx pref : Bool) (it : Item) : Prop :=
  ItemMode sfx pref it.1 it.2.2 ∧
  (WfSide it.2.1.reactants ∧ WfSide it.2.1.products) ∧
  (WfLabels it.2.1.reactants ∧ WfLabels it.2.1.products) ∧
  (it.1.includeRule = true → WfRule it.2.1.rule) ∧
  (it.2.1.reactants ≠ [] ∨ it.2.1.products ≠ [])

def Item.expected (dr : String) (sfx pref : Bool) (it : Item) : String × Side × Side :=
  (parseRxnsRule dr sfx pref (if it.1.includeRule then some it.2.1.rule else none) it.2.2,
    sortSide it.2.1.reactants, sortSide it.2.1.products)

theorem parseRxns_wfItems (dr : String) (sfx pref : Bool) (items : List Item) : ∀ s : Store,
    (∀ it ∈ items, it.Wf sfx pref) →
    ∃ s', s.parseRxns (items.map Item.line) dr sfx pref = (s', .ok ()) ∧
      ∃ added : List Edge, s'.edges = s.edges ++ added ∧
        added.map Edge.content = items.map (Item.expected dr sfx pref) := by
  induction items with
  | nil => intro s _; exact ⟨s, rfl, [], by simp, rfl⟩
  | cons it rest ih =>
    intro s h
    obtain ⟨hm, hs, hl, hr, hne⟩ := h it List.mem_cons_self
    obtain ⟨f, e, ex⟩ := it
    obtain ⟨hmode, hrule⟩ := lineArgs_wfLine dr sfx pref f e ex hm hl hr
    have hadd := addFromStr_wfLine s f e (lineArgs dr sfx pref (fmtLine f e) ex).1
      (lineArgs dr sfx pref (fmtLine f e) ex).2 hmode hs hl hr hne
    rw [hrule] at hadd
    simp only [List.map_cons, Item.line]
    rw [parseRxns_cons, hadd]
    simp only
    obtain ⟨s', hrest, added, ha, hb⟩ := ih _ (fun it' h' => h it' (List.mem_cons_of_mem _ h'))
    refine ⟨s', hrest,
      ⟨(s.nextId (parseRxnsRule dr sfx pref (if f.includeRule then some e.rule else none) ex)).2,
        parseRxnsRule dr sfx pref (if f.includeRule then some e.rule else none) ex,
        sortSide e.reactants, sortSide e.products⟩ :: added, ?_, ?_⟩
    · rw [ha]; simp [Store.insertEdge]
    · simp [hb, Edge.content, Item.expected]

end SynKit.Store

import SynKitModel.CrnIR
import SynKitProofs.CrnIROrder
import SynKitProofs.CrnIREquiv
import SynKitProofs.CrnIRWf
import SynKitProofs.CrnIRSearch
import SynKitProofs.CrnIRTie
import SynKitProofs.CrnCanonLemmas
/-!
# The CRN individualisation–refinement search is invariant: assembly (C18)

* `CrnIROrder`  — the signature / label orders are strict total;
* `CrnIREquiv`  — equivariance chain (initial partition, signatures, refinement, target cell,
  individualisation, leaves, labels) for graphs related by a `CrnIso`;
* `CrnIRWf`     — partitions stay partitions, leaf permutations order all nodes, the tree has a leaf,
  fuel adequacy of the loop and of the tree;
* `CrnIRSearch` — the search is a fold over the leaves; it returns the first least leaf and all
  leaves with the least label;
* `CrnIRTie`    — two leaves of one tree with the same label differ by a structure-preserving
  self-map (self-loops included).
-/
set_option linter.unusedSimpArgs false
set_option linter.unusedVariables false
namespace SynKit.CrnCanon
open SynKit
open SynKit.Canon (StrictTotal minBy minBy_mem minBy_key_congr IRPartOK LGraph_ids_length)

/-! ## What the search returns -/

/-- On a graph with distinct node ids the search returns a leaf
of the search tree — the first one with the least label — whose permutation orders all nodes,
together with the permutations of all leaves that carry the least label. -/
theorem crnIrWith_spec (lt : CrnLabel → CrnLabel → Bool) (hlt : StrictTotal lt) (sel : SelD) (G : LGraph)
    (hn : G.ids.Nodup) :
    ∃ m ∈ crnRootLeaves sel G,
      crnIrWith lt sel G = some ⟨crnLeafLabel sel G m, m.2, crnWithLabel sel G (crnLeafLabel sel G m) (crnRootLeaves sel G)⟩ ∧
      m.2.Perm G.ids ∧ ∀ l ∈ crnRootLeaves sel G, lt (crnLeafLabel sel G l) (crnLeafLabel sel G m) = false := by
  rw [crnIrWith_eq_fold]
  have hne := crnRootLeaves_ne_nil sel G hn
  have hperm := crnRootLeaves_perm sel G hn
  cases hL : crnRootLeaves sel G with
  | nil => exact absurd hL hne
  | cons a as =>
    rw [crnFoldLeaves_none_cons lt hlt]
    have hm : crnMinLeaf lt sel G a as ∈ a :: as := minBy_mem _ a as
    refine ⟨crnMinLeaf lt sel G a as, hm, rfl, ?_, crnMinLeaf_least lt hlt sel G a as⟩
    rw [hL] at hperm
    exact hperm _ hm

theorem isOrder_of_perm {G : LGraph} {o : List Nat} (hn : G.ids.Nodup) (h : o.Perm G.ids) : IsOrder G o :=
  ⟨h.nodup_iff.2 hn, fun _ => h.mem_iff⟩

theorem crnOrderOf_isOrder (lt : CrnLabel → CrnLabel → Bool) (hlt : StrictTotal lt) (sel : SelD) (G : LGraph)
    (hn : G.ids.Nodup) : IsOrder G (crnOrderOf (crnIrWith lt sel G)) := by
  obtain ⟨m, _, e, hp, _⟩ := crnIrWith_spec lt hlt sel G hn
  rw [e]
  exact isOrder_of_perm hn hp

/-! ## The minimum label is invariant -/

theorem crnIrWith_label_rel (lt : CrnLabel → CrnLabel → Bool) (hlt : StrictTotal lt) {sel : SelD} {G H : LGraph}
    {g : Nat → Nat} (hG : G.ids.Nodup) (h : CrnIso sel G H g) :
    (crnIrWith lt sel G).map (·.label) = (crnIrWith lt sel H).map (·.label) := by
  rw [crnIrWith_eq_fold, crnIrWith_eq_fold]
  have hset := crnLeafLabels_rel hG h
  cases hLG : crnRootLeaves sel G with
  | nil =>
    cases hLH : crnRootLeaves sel H with
    | nil => rfl
    | cons b bs =>
      exfalso
      rw [hLG, hLH] at hset
      obtain ⟨a, ha, _⟩ := (hset (crnLeafLabel sel H b)).2 ⟨b, List.mem_cons_self, rfl⟩
      simp at ha
  | cons a as =>
    cases hLH : crnRootLeaves sel H with
    | nil =>
      exfalso
      rw [hLG, hLH] at hset
      obtain ⟨b, hb, _⟩ := (hset (crnLeafLabel sel G a)).1 ⟨a, List.mem_cons_self, rfl⟩
      simp at hb
    | cons b bs =>
      rw [crnFoldLeaves_none_cons lt hlt, crnFoldLeaves_none_cons lt hlt]
      simp only [Option.map_some, Option.some.injEq]
      rw [hLG, hLH] at hset
      exact minBy_key_congr lt hlt (crnLeafLabel sel G) (crnLeafLabel sel H) a as b bs hset

/-! ## Invariance -/

theorem isIsoF_of_ids_nil (sel : SelD) {A B : LGraph} (hA : A.ids = []) (hB : B.ids = []) : IsIsoF sel A B id where
  inj _ _ _ _ e := e
  mem p hp := by rw [hB] at hp; exact absurd hp List.not_mem_nil
  size := by rw [hA, hB]
  node p hp := by rw [hB] at hp; exact absurd hp List.not_mem_nil
  arc p hp := by rw [hB] at hp; exact absurd hp List.not_mem_nil

/-- **Invariance for every label order.** Two directed attribute graphs that are isomorphic on the
selected keys (and whose selected attributes are never `None` / `""`) get the same minimum label,
and their canonical graphs are identical on the selected keys. -/
theorem crnIrWith_invariant (lt : CrnLabel → CrnLabel → Bool) (hlt : StrictTotal lt) (sel : SelD) (G H : LGraph)
    (hG : WFD G) (hH : WFD H) (aG : CrnAttrOK sel G) (aH : CrnAttrOK sel H) (g : Nat → Nat) (h : IsIsoF sel G H g) :
    (crnIrWith lt sel G).map (·.label) = (crnIrWith lt sel H).map (·.label) ∧
    IsIsoF sel (canonBy G (crnOrderOf (crnIrWith lt sel G))) (canonBy H (crnOrderOf (crnIrWith lt sel H))) id := by
  have hiso := crnIso_of_isIsoF hG.1 hH.1 aG aH h
  have hlab := crnIrWith_label_rel lt hlt hG.1 hiso
  refine ⟨hlab, ?_⟩
  obtain ⟨mG, hmG, eG, pG, _⟩ := crnIrWith_spec lt hlt sel G hG.1
  obtain ⟨mH, hmH, eH, pH, _⟩ := crnIrWith_spec lt hlt sel H hH.1
  rw [eG, eH] at hlab ⊢
  simp only [Option.map_some, Option.some.injEq] at hlab
  simp only [crnOrderOf]
  -- the image of `H`'s best leaf is a leaf of `G` with the least label
  have hl2 : (mH.1.map g, mH.2.map g) ∈ crnRootLeaves sel G := (crnRootLeaves_rel hG.1 hiso _).2 ⟨mH, hmH, rfl⟩
  have hlab2 : crnLeafLabel sel G (mH.1.map g, mH.2.map g) = crnLeafLabel sel G mG :=
    (crnLeafLabel_rel hiso hmH).trans hlab.symm
  obtain ⟨hf, hmap⟩ := crnIso_of_leaves sel G hG.1 aG _ _ hl2 hmG hlab2
  simp only at hmap
  have hF := isIsoF_of_crnIso hG.1 hf
  have hord2 : IsOrder G (mH.2.map g) := isOrder_of_perm hG.1 ((pH.map g).trans hiso.perm)
  obtain ⟨_, E1⟩ := canon_equivariant' sel G G _ (mH.2.map g) hG hG hF hord2
  rw [hmap] at E1
  obtain ⟨_, E2⟩ := canon_equivariant' sel H G g mH.2 hH hG h (isOrder_of_perm hH.1 pH)
  exact isIsoF_trans E2 E1

/-! ## Fuel -/

theorem crnIrWith_fuel (lt : CrnLabel → CrnLabel → Bool) (sel : SelD) (G : LGraph) (hn : G.ids.Nodup)
    (d : Nat) :
    crnSearch lt sel G (G.nodes.length + 1 + d) (crnInitPart sel G) [] none = crnIrWith lt sel G := by
  rw [crnSearch_eq_fold, crnIrWith_eq_fold, crnLeaves_root_fuel sel G hn d]

theorem crnRefine_fuel (sel : SelD) (G : LGraph) (P : List (List Nat)) (hok : IRPartOK G.ids P) (d : Nat) :
    crnRefineLoop sel G (G.nodes.length + 1 + d) P = crnRefine sel G P := by
  unfold crnRefine
  apply crnRefineLoop_fuel_add sel G _ P hok
  have := LGraph_ids_length G
  omega

theorem crnRefine_last_pass (sel : SelD) (G : LGraph) (P : List (List Nat)) (hok : IRPartOK G.ids P) :
    ∃ Q, IRPartOK G.ids Q ∧ crnRefine sel G P = crnRefineStep sel G Q ∧
      (crnRefineStep sel G Q).length = Q.length := by
  unfold crnRefine
  apply crnRefineLoop_last_pass sel G _ P hok
  have := LGraph_ids_length G
  omega

/-! ## Orbits -/

theorem mem_crnWithLabel (sel : SelD) (G : LGraph) (L : CrnLabel) (ls : List (List Nat × List Nat)) (p : List Nat) :
    p ∈ crnWithLabel sel G L ls ↔ ∃ l ∈ ls, crnLeafLabel sel G l = L ∧ l.2 = p := by
  unfold crnWithLabel
  simp only [List.mem_map, List.mem_filter, decide_eq_true_eq]
  constructor
  · rintro ⟨l, ⟨h1, h2⟩, h3⟩
    exact ⟨l, h1, h2, h3⟩
  · rintro ⟨l, h1, h2, h3⟩
    exact ⟨l, ⟨h1, h2⟩, h3⟩

theorem isPartition_of_perm {P : List (List Nat)} {ids ids' : List Nat} (hp : ids.Perm ids')
    (h : IsPartition P ids) : IsPartition P ids' :=
  ⟨fun c hc => ⟨(h.1 c hc).1, fun x hx => hp.mem_iff.1 ((h.1 c hc).2 x hx)⟩,
    fun u hu => h.2.1 u (hp.mem_iff.2 hu), h.2.2⟩

theorem mem_zip_map {l : List Nat} {f : Nat → Nat} {x y : Nat} : (x, y) ∈ l.zip (l.map f) ↔ x ∈ l ∧ y = f x := by
  induction l with
  | nil => simp
  | cons a l ih =>
    simp only [List.map_cons, List.zip_cons_cons, List.mem_cons, Prod.mk.injEq, ih]
    constructor
    · rintro (⟨rfl, rfl⟩ | ⟨h1, h2⟩)
      · exact ⟨Or.inl rfl, rfl⟩
      · exact ⟨Or.inr h1, h2⟩
    · rintro ⟨rfl | h1, h2⟩
      · exact Or.inl ⟨rfl, h2⟩
      · exact Or.inr ⟨h1, h2⟩

/-- **`_orbits_from_perms` on the permutations of the least-label leaves is the orbit partition.**
Every such permutation differs from the first by a structure-preserving self-map, every
structure-preserving self-map carries the first onto one of them (the search prunes nothing), so
the position-wise merging produces exactly the classes of nodes exchangeable by automorphisms. -/
theorem crnOrbits_exact (lt : CrnLabel → CrnLabel → Bool) (hlt : StrictTotal lt) (sel : SelD) (G : LGraph)
    (hn : G.ids.Nodup) (hok : CrnAttrOK sel G) :
    IsPartition (crnOrbitsFromPerms (crnPermsOf (crnIrWith lt sel G))) G.ids ∧
    ∀ u ∈ G.ids, ∀ v ∈ G.ids,
      (SameClass (crnOrbitsFromPerms (crnPermsOf (crnIrWith lt sel G))) u v ↔ ∃ σ ∈ autsD sel G, app σ u = v) := by
  obtain ⟨m, hm, e, pm, _⟩ := crnIrWith_spec lt hlt sel G hn
  rw [e]
  simp only [crnPermsOf]
  have hmem := mem_crnWithLabel sel G (crnLeafLabel sel G m) (crnRootLeaves sel G)
  cases hps : crnWithLabel sel G (crnLeafLabel sel G m) (crnRootLeaves sel G) with
  | nil =>
    have : m.2 ∈ crnWithLabel sel G (crnLeafLabel sel G m) (crnRootLeaves sel G) := (hmem _).2 ⟨m, hm, rfl, rfl⟩
    rw [hps] at this
    exact absurd this List.not_mem_nil
  | cons first rest =>
    rw [hps] at hmem
    simp only [crnOrbitsFromPerms]
    -- every listed permutation is a least-label leaf
    obtain ⟨l0, hl0, hlab0, rfl⟩ := (hmem first).1 List.mem_cons_self
    have p0 := crnRootLeaves_perm sel G hn l0 hl0
    have hnd0 : l0.2.Nodup := p0.nodup_iff.2 hn
    have hrest : ∀ p ∈ rest, ∃ f, IsIsoF sel G G f ∧ l0.2.map f = p := by
      intro p hp
      obtain ⟨l, hl, hlab, rfl⟩ := (hmem p).1 (List.mem_cons_of_mem _ hp)
      obtain ⟨hf, hmap⟩ := crnIso_of_leaves sel G hn hok l0 l hl0 hl (hlab0.trans hlab.symm)
      exact ⟨_, isIsoF_of_crnIso hn hf, hmap⟩
    have hmaps : ∀ mp ∈ rest.map (fun p => l0.2.zip p), ∀ sd ∈ mp, sd.1 ∈ l0.2 ∧ sd.2 ∈ l0.2 := by
      intro mp hmp sd hsd
      obtain ⟨p, hp, rfl⟩ := List.mem_map.1 hmp
      obtain ⟨f, hf, rfl⟩ := hrest p hp
      obtain ⟨x, y⟩ := sd
      obtain ⟨h1, rfl⟩ := mem_zip_map.1 hsd
      exact ⟨h1, p0.mem_iff.2 (hf.mem x (p0.mem_iff.1 h1))⟩
    obtain ⟨hpart, hS⟩ := orbitsUF_spec' l0.2 (rest.map fun p => l0.2.zip p) hnd0 hmaps
    refine ⟨isPartition_of_perm p0 hpart, fun u hu v hv => ?_⟩
    rw [hS u (p0.mem_iff.2 hu) v (p0.mem_iff.2 hv)]
    have hgen : ∀ a b, GenRel (rest.map fun p => l0.2.zip p) a b → a ∈ G.ids ∧ b ∈ G.ids ∧ OrbRel sel G a b := by
      rintro a b ⟨mp, hmp, hab⟩
      obtain ⟨p, hp, rfl⟩ := List.mem_map.1 hmp
      obtain ⟨f, hf, rfl⟩ := hrest p hp
      obtain ⟨h1, rfl⟩ := mem_zip_map.1 hab
      have ha := p0.mem_iff.1 h1
      exact ⟨ha, hf.mem a ha, (orbRel_iff sel G hn ha _).2 ⟨f, hf, rfl⟩⟩
    constructor
    · intro h
      have : ∀ a b, Relation.EqvGen (GenRel (rest.map fun p => l0.2.zip p)) a b → (a ∈ G.ids ↔ b ∈ G.ids) ∧
          (a ∈ G.ids → OrbRel sel G a b) := by
        intro a b hab
        induction hab with
        | rel a b h =>
          obtain ⟨h1, h2, h3⟩ := hgen a b h
          exact ⟨⟨fun _ => h2, fun _ => h1⟩, fun _ => h3⟩
        | refl a => exact ⟨Iff.rfl, fun ha => orbRel_refl sel G hn ha⟩
        | symm a b _ ih => exact ⟨ih.1.symm, fun hb => orbRel_symm sel G hn (ih.1.2 hb) (ih.2 (ih.1.2 hb))⟩
        | trans a b c _ _ ih1 ih2 =>
          exact ⟨ih1.1.trans ih2.1, fun ha => orbRel_trans sel G hn ha (ih1.2 ha) (ih2.2 (ih1.1.1 ha))⟩
      exact (this u v h).2 hu
    · intro h
      obtain ⟨f, hf, rfl⟩ := (orbRel_iff sel G hn hu v).1 h
      -- the image of the first leaf under `f` is a least-label leaf
      have hfi := crnIso_of_isIsoF hn hn hok hok hf
      have hl1 : (l0.1.map f, l0.2.map f) ∈ crnRootLeaves sel G := (crnRootLeaves_rel hn hfi _).2 ⟨l0, hl0, rfl⟩
      have hlab1 : crnLeafLabel sel G (l0.1.map f, l0.2.map f) = crnLeafLabel sel G m :=
        (crnLeafLabel_rel hfi hl0).trans hlab0
      have hin : l0.2.map f ∈ l0.2 :: rest := (hmem _).2 ⟨_, hl1, hlab1, rfl⟩
      have hu0 : u ∈ l0.2 := p0.mem_iff.2 hu
      rcases List.mem_cons.1 hin with heq | hin
      · -- `f` fixes the first permutation pointwise
        have : f u = u := by
          have h1 : l0.2.map f = l0.2.map id := by rw [heq, List.map_id]
          exact List.map_inj_left.1 h1 u hu0
        rw [this]
        exact Relation.EqvGen.refl _
      · exact Relation.EqvGen.rel _ _ ⟨_, List.mem_map.2 ⟨_, hin, rfl⟩, mem_zip_map.2 ⟨hu0, rfl⟩⟩

end SynKit.CrnCanon

import SynKitModel.Gml
import SynKitProofs.ReprLemmas
/-! Helper lemmas for C10: `Gml.getRc` (the `get_rc` the GML entry points call) is idempotent,
literally: `getRc (getRc I) = getRc I` for every graph `I` (no well-formedness needed). -/
namespace SynKit.Gml
open SynKit

/-! ### attribute dicts -/

theorem pick_cons (a : Attrs) (k : String) (ks : List String) :
    pick a (k :: ks) = match Dict.get? a k with
      | some v => (k, v) :: pick a ks
      | none => pick a ks := by
  unfold pick
  rw [List.filterMap_cons]
  cases Dict.get? a k <;> rfl

theorem get?_pick (a : Attrs) (keys : List String) (k : String) :
    Dict.get? (pick a keys) k = if k ∈ keys then Dict.get? a k else none := by
  induction keys with
  | nil => simp [pick, Dict.get?]
  | cons k0 ks ih =>
    rw [pick_cons]
    cases h0 : Dict.get? a k0 with
    | none =>
      simp only [ih, List.mem_cons]
      by_cases hk : k = k0
      · subst hk; simp [h0]
      · simp [hk]
    | some v =>
      simp only [Dict.get?, List.mem_cons]
      by_cases hk : k0 = k
      · subst hk; simp [h0]
      · have hk' : ¬ k = k0 := fun e => hk e.symm
        simp [hk, hk', ih]

theorem pick_congr (a b : Attrs) (keys : List String) (h : ∀ k ∈ keys, Dict.get? a k = Dict.get? b k) :
    pick a keys = pick b keys := by
  unfold pick
  induction keys with
  | nil => rfl
  | cons k ks ih =>
    rw [List.filterMap_cons, List.filterMap_cons, h k List.mem_cons_self,
      ih fun k' hk' => h k' (List.mem_cons_of_mem _ hk')]

theorem pick_pick (a : Attrs) (keys : List String) : pick (pick a keys) keys = pick a keys := by
  apply pick_congr
  intro k hk
  rw [get?_pick]; simp [hk]

/-- the attribute dict `ensureNodeHH` gives a new node. -/
def hhAttrs (a : Attrs) : Attrs :=
  let a' := if Dict.contains a "typesGH" then a else Dict.set a "typesGH" hhFallback
  Dict.set (pick a' rcKeys) "typesGH" (Attrs.get a' "typesGH")

theorem contains_iff {α} (d : Dict α) (k : String) : Dict.contains d k = true ↔ ∃ v, Dict.get? d k = some v := by
  unfold Dict.contains
  rw [decide_eq_true_eq]
  constructor
  · intro h
    cases hg : Dict.get? d k with
    | none => exact absurd h ((Dict.get?_eq_none_iff d k).1 hg)
    | some v => exact ⟨v, rfl⟩
  · rintro ⟨v, hv⟩
    apply Classical.byContradiction
    intro hn
    rw [(Dict.get?_eq_none_iff d k).2 hn] at hv
    cases hv

theorem hhCore_eq (a : Attrs) (w : Val) (h : Dict.get? a "typesGH" = some w) :
    Dict.set (pick a rcKeys) "typesGH" (Attrs.get a "typesGH") = pick a rcKeys := by
  apply SynKit.Repr.Dict.set_eq_self
  rw [get?_pick]
  simp [rcKeys, Attrs.get, Dict.getD, h]

theorem hhAttrs_eq (a : Attrs) : ∃ a' w, Dict.get? a' "typesGH" = some w ∧ hhAttrs a = pick a' rcKeys ∧
    Attrs.get a' "element" = Attrs.get a "element" := by
  unfold hhAttrs
  by_cases hc : Dict.contains a "typesGH" = true
  · obtain ⟨w, hw⟩ := (contains_iff a _).1 hc
    refine ⟨a, w, hw, ?_, rfl⟩
    simp only [hc, if_true]
    exact hhCore_eq a w hw
  · refine ⟨Dict.set a "typesGH" hhFallback, hhFallback, Dict.get?_set_self _ _ _, ?_, ?_⟩
    · simp only [hc]
      exact hhCore_eq _ _ (Dict.get?_set_self _ _ _)
    · exact SynKit.Repr.get_set_other a "typesGH" "element" _ (by decide)

theorem hhAttrs_idem (a : Attrs) : hhAttrs (hhAttrs a) = hhAttrs a := by
  obtain ⟨a', w, hw, he, _⟩ := hhAttrs_eq a
  have hg : Dict.get? (pick a' rcKeys) "typesGH" = some w := by
    rw [get?_pick]; simp [rcKeys, hw]
  rw [he]
  unfold hhAttrs
  have hc : Dict.contains (pick a' rcKeys) "typesGH" = true := (contains_iff _ _).2 ⟨w, hg⟩
  simp only [hc, if_true]
  rw [hhCore_eq _ w hg, pick_pick]

theorem element_pick (a : Attrs) : Attrs.get (pick a rcKeys) "element" = Attrs.get a "element" := by
  simp [Attrs.get, Dict.getD, get?_pick, rcKeys]

theorem element_hhAttrs (a : Attrs) : Attrs.get (hhAttrs a) "element" = Attrs.get a "element" := by
  obtain ⟨a', w, _, he, hel⟩ := hhAttrs_eq a
  rw [he, element_pick, hel]

/-- edge attribute dicts as `get_rc` writes them. -/
def Norm (a : Attrs) : Prop := ∃ x y z, a = [("order", x), ("standard_order", y), ("is_mtg", z)]

theorem norm_rcEdgeAttrs (a : Attrs) : Norm (rcEdgeAttrs a) := ⟨_, _, _, rfl⟩

theorem rcEdgeAttrs_norm (a : Attrs) (h : Norm a) : rcEdgeAttrs a = a := by
  obtain ⟨x, y, z, rfl⟩ := h
  simp [rcEdgeAttrs, Attrs.get, Dict.getD, Dict.get?]

theorem changedStd_rcEdgeAttrs (a : Attrs) : changedStd (rcEdgeAttrs a) = changedStd a := by
  simp [changedStd, rcEdgeAttrs, Attrs.get, Dict.getD, Dict.get?]

theorem foldSet_norm (a b : Attrs) (h : Norm b) :
    (rcEdgeAttrs a).foldl (fun d kv => Dict.set d kv.1 kv.2) b = rcEdgeAttrs a := by
  obtain ⟨x, y, z, rfl⟩ := h
  simp [rcEdgeAttrs, Dict.set]

/-! ### graph primitives -/

def ends (e : Nat × Nat × Attrs) : Nat × Nat := (e.1, e.2.1)

/-- equality of unordered pairs. -/
def samePair (a b : Nat × Nat) : Bool := (a.1 = b.1 && a.2 = b.2) || (a.1 = b.2 && a.2 = b.1)

theorem samePair_iff (a b : Nat × Nat) :
    samePair a b = true ↔ (a.1 = b.1 ∧ a.2 = b.2) ∨ (a.1 = b.2 ∧ a.2 = b.1) := by
  simp [samePair]

theorem sameEdge_eq (e : Nat × Nat × Attrs) (u v : Nat) : sameEdge e u v = samePair (ends e) (u, v) := rfl

theorem hasEdge_iff (g : LGraph) (u v : Nat) :
    g.hasEdge u v = true ↔ ∃ e ∈ g.edges, samePair (ends e) (u, v) = true := by
  unfold LGraph.hasEdge LGraph.edge?
  rw [Option.isSome_map, List.find?_isSome]
  constructor
  · rintro ⟨e, he, hp⟩
    refine ⟨e, he, ?_⟩
    rw [samePair_iff]
    simpa [ends] using hp
  · rintro ⟨e, he, hp⟩
    refine ⟨e, he, ?_⟩
    rw [samePair_iff] at hp
    simpa [ends] using hp

theorem hasEdge_false_iff (g : LGraph) (u v : Nat) :
    g.hasEdge u v = false ↔ ∀ e ∈ g.edges, samePair (ends e) (u, v) = false := by
  rw [← Bool.not_eq_true, hasEdge_iff]
  simp

def NoPar (l : List (Nat × Nat)) : Prop := l.Pairwise fun a b => samePair a b = false

def ens (f : Nat → Attrs) (rc : LGraph) (n : Nat) : LGraph :=
  if rc.hasNode n then rc else { rc with nodes := rc.nodes ++ [(n, f n)] }

def pushN (f : Nat → Attrs) (ns : List (Nat × Attrs)) (n : Nat) : List (Nat × Attrs) :=
  if (ns.map (·.1)).contains n then ns else ns ++ [(n, f n)]

theorem ensureNode_eq (I rc : LGraph) (n : Nat) :
    ensureNode I rc n = ens (fun n => pick (I.attrs n) rcKeys) rc n := rfl

theorem ensureNodeHH_eq (I rc : LGraph) (n : Nat) :
    ensureNodeHH I rc n = ens (fun n => hhAttrs (I.attrs n)) rc n := rfl

theorem ens_nodes (f : Nat → Attrs) (rc : LGraph) (n : Nat) : (ens f rc n).nodes = pushN f rc.nodes n := by
  unfold ens pushN LGraph.hasNode LGraph.ids
  split <;> rfl

theorem ens_edges (f : Nat → Attrs) (rc : LGraph) (n : Nat) : (ens f rc n).edges = rc.edges := by
  unfold ens; split <;> rfl

theorem mem_ids_pushN (f : Nat → Attrs) (ns : List (Nat × Attrs)) (n m : Nat) :
    m ∈ (pushN f ns n).map (·.1) ↔ m = n ∨ m ∈ ns.map (·.1) := by
  unfold pushN
  by_cases h : (ns.map (·.1)).contains n = true
  · simp only [h, if_true]
    constructor
    · exact Or.inr
    · rintro (rfl | h')
      · simpa using h
      · exact h'
  · simp only [h]
    simp only [Bool.false_eq_true, if_false, List.map_append, List.map_cons, List.map_nil, List.mem_append,
      List.mem_singleton]
    exact Or.comm

theorem hasNode_iff (g : LGraph) (n : Nat) : g.hasNode n = true ↔ n ∈ g.nodes.map (·.1) := by
  simp [LGraph.hasNode, LGraph.ids]

def gstep (f : Nat → Attrs) (rc : LGraph) (e : Nat × Nat × Attrs) : LGraph :=
  addEdge (ens f (ens f rc e.1) e.2.1) e.1 e.2.1 (rcEdgeAttrs e.2.2)

theorem touchNode_present (g : LGraph) (v : Nat) (h : g.hasNode v = true) : touchNode g v = g := by
  simp [touchNode, h]

theorem ens2_has (f : Nat → Attrs) (rc : LGraph) (u v : Nat) :
    (ens f (ens f rc u) v).hasNode u = true ∧ (ens f (ens f rc u) v).hasNode v = true := by
  simp [hasNode_iff, ens_nodes, mem_ids_pushN]

theorem ens2_nodes (f : Nat → Attrs) (rc : LGraph) (u v : Nat) :
    (ens f (ens f rc u) v).nodes = pushN f (pushN f rc.nodes u) v := by
  rw [ens_nodes, ens_nodes]

theorem ens2_edges (f : Nat → Attrs) (rc : LGraph) (u v : Nat) : (ens f (ens f rc u) v).edges = rc.edges := by
  rw [ens_edges, ens_edges]

theorem hasEdge_congr (g g' : LGraph) (h : g.edges = g'.edges) (u v : Nat) : g.hasEdge u v = g'.hasEdge u v := by
  unfold LGraph.hasEdge LGraph.edge?; rw [h]

theorem gstep_fresh (f : Nat → Attrs) (rc : LGraph) (e : Nat × Nat × Attrs) (h : rc.hasEdge e.1 e.2.1 = false) :
    gstep f rc e = ⟨pushN f (pushN f rc.nodes e.1) e.2.1, rc.edges ++ [(e.1, e.2.1, rcEdgeAttrs e.2.2)]⟩ := by
  obtain ⟨h1, h2⟩ := ens2_has f rc e.1 e.2.1
  have h3 : (ens f (ens f rc e.1) e.2.1).hasEdge e.1 e.2.1 = false := by
    rw [hasEdge_congr _ rc (ens2_edges f rc e.1 e.2.1)]; exact h
  unfold gstep addEdge
  simp only [touchNode_present _ _ h1, touchNode_present _ _ h2, h3, Bool.false_eq_true, if_false,
    ens2_nodes, ens2_edges]

theorem gstep_dup (f : Nat → Attrs) (rc : LGraph) (e : Nat × Nat × Attrs) (h : rc.hasEdge e.1 e.2.1 = true) :
    gstep f rc e = ⟨pushN f (pushN f rc.nodes e.1) e.2.1, rc.edges.map fun e' =>
      if sameEdge e' e.1 e.2.1 then
        (e'.1, e'.2.1, (rcEdgeAttrs e.2.2).foldl (fun d kv => Dict.set d kv.1 kv.2) e'.2.2) else e'⟩ := by
  obtain ⟨h1, h2⟩ := ens2_has f rc e.1 e.2.1
  have h3 : (ens f (ens f rc e.1) e.2.1).hasEdge e.1 e.2.1 = true := by
    rw [hasEdge_congr _ rc (ens2_edges f rc e.1 e.2.1)]; exact h
  unfold gstep addEdge
  simp only [touchNode_present _ _ h1, touchNode_present _ _ h2, h3, if_true, ens2_nodes, ens2_edges]

/-- the node list built by visiting the end points of `es` in order. -/
def nodesF (f : Nat → Attrs) (ns : List (Nat × Attrs)) (es : List (Nat × Nat × Attrs)) : List (Nat × Attrs) :=
  es.foldl (fun ns e => pushN f (pushN f ns e.1) e.2.1) ns

def norm (e : Nat × Nat × Attrs) : Nat × Nat × Attrs := (e.1, e.2.1, rcEdgeAttrs e.2.2)

theorem nodesF_cons (f : Nat → Attrs) (ns : List (Nat × Attrs)) (e : Nat × Nat × Attrs) (es : List (Nat × Nat × Attrs)) :
    nodesF f ns (e :: es) = nodesF f (pushN f (pushN f ns e.1) e.2.1) es := rfl

theorem nodesF_snoc (f : Nat → Attrs) (ns : List (Nat × Attrs)) (e : Nat × Nat × Attrs) (es : List (Nat × Nat × Attrs)) :
    nodesF f ns (es ++ [e]) = pushN f (pushN f (nodesF f ns es) e.1) e.2.1 := by
  simp [nodesF, List.foldl_append]

theorem mem_ids_nodesF (f : Nat → Attrs) (es : List (Nat × Nat × Attrs)) : ∀ (ns : List (Nat × Attrs)) (m : Nat),
    m ∈ (nodesF f ns es).map (·.1) ↔ m ∈ ns.map (·.1) ∨ ∃ e ∈ es, m = e.1 ∨ m = e.2.1 := by
  induction es with
  | nil => intro ns m; simp [nodesF]
  | cons e es ih =>
    intro ns m
    rw [nodesF_cons, ih, mem_ids_pushN, mem_ids_pushN]
    simp only [List.mem_cons, exists_eq_or_imp]
    constructor
    · rintro ((h | h | h) | h)
      · exact Or.inr (Or.inl (Or.inr h))
      · exact Or.inr (Or.inl (Or.inl h))
      · exact Or.inl h
      · exact Or.inr (Or.inr h)
    · rintro (h | (h | h) | h)
      · exact Or.inl (Or.inr (Or.inr h))
      · exact Or.inl (Or.inr (Or.inl h))
      · exact Or.inl (Or.inl h)
      · exact Or.inr h

theorem pushN_congr (f g : Nat → Attrs) (ns : List (Nat × Attrs)) (n : Nat)
    (h : n ∉ ns.map (·.1) → f n = g n) : pushN f ns n = pushN g ns n := by
  unfold pushN
  by_cases hc : (ns.map (·.1)).contains n = true
  · rw [if_pos hc, if_pos hc]
  · rw [if_neg hc, if_neg hc, h (by simpa using hc)]

/-- `nodesF` only evaluates `f` at end points that are new. -/
theorem nodesF_congr (f g : Nat → Attrs) (es : List (Nat × Nat × Attrs)) : ∀ (ns : List (Nat × Attrs)),
    (∀ e ∈ es, ∀ n, (n = e.1 ∨ n = e.2.1) → n ∉ ns.map (·.1) → f n = g n) → nodesF f ns es = nodesF g ns es := by
  induction es with
  | nil => intro ns _; rfl
  | cons e es ih =>
    intro ns h
    rw [nodesF_cons, nodesF_cons]
    have h1 : pushN f ns e.1 = pushN g ns e.1 :=
      pushN_congr f g ns e.1 (h e List.mem_cons_self e.1 (Or.inl rfl))
    have h2 : pushN f (pushN f ns e.1) e.2.1 = pushN g (pushN g ns e.1) e.2.1 := by
      rw [h1]
      apply pushN_congr
      intro hn
      apply h e List.mem_cons_self e.2.1 (Or.inr rfl)
      intro hm; apply hn; rw [mem_ids_pushN]; exact Or.inr hm
    rw [h2]
    apply ih
    intro e' he' n hn hnot
    apply h e' (List.mem_cons_of_mem _ he') n hn
    intro hm; apply hnot
    rw [mem_ids_pushN, mem_ids_pushN]; exact Or.inr (Or.inr hm)

theorem pushN_prefix (f : Nat → Attrs) (ns : List (Nat × Attrs)) (n : Nat) :
    ∃ t, pushN f ns n = ns ++ t ∧ ∀ p ∈ t, p.2 = f p.1 := by
  unfold pushN
  split
  · exact ⟨[], by simp, by simp⟩
  · exact ⟨[(n, f n)], rfl, by simp⟩

theorem nodesF_prefix (f : Nat → Attrs) (es : List (Nat × Nat × Attrs)) : ∀ (ns : List (Nat × Attrs)),
    ∃ t, nodesF f ns es = ns ++ t ∧ ∀ p ∈ t, p.2 = f p.1 := by
  induction es with
  | nil => intro ns; exact ⟨[], by simp [nodesF], by simp⟩
  | cons e es ih =>
    intro ns
    rw [nodesF_cons]
    obtain ⟨t1, h1, h1'⟩ := pushN_prefix f ns e.1
    obtain ⟨t2, h2, h2'⟩ := pushN_prefix f (pushN f ns e.1) e.2.1
    obtain ⟨t3, h3, h3'⟩ := ih (pushN f (pushN f ns e.1) e.2.1)
    refine ⟨t1 ++ t2 ++ t3, by rw [h3, h2, h1]; simp, ?_⟩
    intro p hp
    simp only [List.mem_append] at hp
    rcases hp with (hp | hp) | hp
    · exact h1' p hp
    · exact h2' p hp
    · exact h3' p hp

theorem nodesF_map_ends (f : Nat → Attrs) (es es' : List (Nat × Nat × Attrs)) (h : es.map ends = es'.map ends) :
    ∀ ns, nodesF f ns es = nodesF f ns es' := by
  induction es generalizing es' with
  | nil =>
    intro ns
    cases es' with
    | nil => rfl
    | cons _ _ => simp at h
  | cons e es ih =>
    intro ns
    cases es' with
    | nil => simp at h
    | cons e' es' =>
      simp only [List.map_cons, List.cons.injEq, ends, Prod.mk.injEq] at h
      rw [nodesF_cons, nodesF_cons, h.1.1, h.1.2]
      exact ih es' h.2 _

theorem eta (g : LGraph) : (⟨g.nodes, g.edges⟩ : LGraph) = g := by cases g; rfl

theorem ends_norm (e : Nat × Nat × Attrs) : ends (norm e) = ends e := rfl

/-- closed form of a fold of "append" steps over pairwise non-parallel edges. -/
theorem fold_gstep (f : Nat → Attrs) (stp : LGraph → Nat × Nat × Attrs → LGraph) :
    ∀ (es : List (Nat × Nat × Attrs)) (rc : LGraph),
    (∀ rc' : LGraph, ∀ e ∈ es, rc'.hasEdge e.1 e.2.1 = false → stp rc' e = gstep f rc' e) →
    NoPar ((rc.edges ++ es).map ends) →
    es.foldl stp rc = ⟨nodesF f rc.nodes es, rc.edges ++ es.map norm⟩ := by
  intro es
  induction es with
  | nil => intro rc _ _; simp [nodesF, eta]
  | cons e es ih =>
    intro rc hstp hnp
    have hfresh : rc.hasEdge e.1 e.2.1 = false := by
      rw [hasEdge_false_iff]
      intro a ha
      unfold NoPar at hnp
      rw [List.map_append, List.pairwise_append] at hnp
      exact hnp.2.2 (ends a) (List.mem_map.2 ⟨a, ha, rfl⟩) (ends e) (List.mem_map.2 ⟨e, List.mem_cons_self, rfl⟩)
    rw [List.foldl_cons, hstp rc e List.mem_cons_self hfresh, gstep_fresh f rc e hfresh]
    rw [ih _ (fun rc' e' he' => hstp rc' e' (List.mem_cons_of_mem _ he'))]
    · simp [nodesF_cons, norm]
    · have : ((rc.edges ++ [(e.1, e.2.1, rcEdgeAttrs e.2.2)]) ++ es).map ends = (rc.edges ++ e :: es).map ends := by
        simp [ends]
      show NoPar (((rc.edges ++ [(e.1, e.2.1, rcEdgeAttrs e.2.2)]) ++ es).map ends)
      rw [this]; exact hnp

theorem pushN_present (f : Nat → Attrs) (ns : List (Nat × Attrs)) (n : Nat) (h : n ∈ ns.map (·.1)) :
    pushN f ns n = ns := by
  unfold pushN
  rw [if_pos (by simpa using h)]

theorem hasEdge_of_ends (g g' : LGraph) (h : g.edges.map ends = g'.edges.map ends) (u v : Nat) :
    g.hasEdge u v = g'.hasEdge u v := by
  have key : ∀ g : LGraph, g.hasEdge u v = true ↔ ∃ p ∈ g.edges.map ends, samePair p (u, v) = true := by
    intro g
    rw [hasEdge_iff]
    constructor
    · rintro ⟨e, he, hp⟩; exact ⟨ends e, List.mem_map.2 ⟨e, he, rfl⟩, hp⟩
    · rintro ⟨p, hp, hs⟩
      obtain ⟨e, he, rfl⟩ := List.mem_map.1 hp
      exact ⟨e, he, hs⟩
  rw [Bool.eq_iff_iff, key, key, h]

/-- the in-place update `add_edge` makes on an existing edge keeps the end points. -/
theorem map_upd_ends (es : List (Nat × Nat × Attrs)) (u v : Nat) (F : Nat × Nat × Attrs → Attrs) :
    (es.map fun e' => if sameEdge e' u v then (e'.1, e'.2.1, F e') else e').map ends = es.map ends := by
  rw [List.map_map]
  apply List.map_congr_left
  intro e' _
  simp only [Function.comp]
  split <;> rfl

theorem gstep_hasEdge_self (f : Nat → Attrs) (rc : LGraph) (e : Nat × Nat × Attrs) :
    (gstep f rc e).hasEdge e.1 e.2.1 = true := by
  cases h : rc.hasEdge e.1 e.2.1 with
  | false =>
    rw [gstep_fresh f rc e h, hasEdge_iff]
    refine ⟨(e.1, e.2.1, rcEdgeAttrs e.2.2), by simp, ?_⟩
    rw [samePair_iff]; exact Or.inl ⟨rfl, rfl⟩
  | true =>
    rw [gstep_dup f rc e h, hasEdge_of_ends _ rc (map_upd_ends _ _ _ _)]
    exact h

theorem gstep_hasEdge_mono (f : Nat → Attrs) (rc : LGraph) (e : Nat × Nat × Attrs) (u v : Nat)
    (hu : rc.hasEdge u v = true) : (gstep f rc e).hasEdge u v = true := by
  cases h : rc.hasEdge e.1 e.2.1 with
  | false =>
    rw [gstep_fresh f rc e h, hasEdge_iff]
    obtain ⟨e0, he0, hs⟩ := (hasEdge_iff rc u v).1 hu
    exact ⟨e0, by simp [he0], hs⟩
  | true =>
    rw [gstep_dup f rc e h, hasEdge_of_ends _ rc (map_upd_ends _ _ _ _)]
    exact hu

/-! ### the two loops of `get_rc` -/

def step1 (I rc : LGraph) (e : Nat × Nat × Attrs) : LGraph :=
  if changedStd e.2.2 then addEdge (ensureNode I (ensureNode I rc e.1) e.2.1) e.1 e.2.1 (rcEdgeAttrs e.2.2) else rc

def step2 (I rc : LGraph) (e : Nat × Nat × Attrs) : LGraph :=
  if isHNode I e.1 && isHNode I e.2.1 then
    let rc' := ensureNodeHH I (ensureNodeHH I rc e.1) e.2.1
    if rc'.hasEdge e.1 e.2.1 then rc' else addEdge rc' e.1 e.2.1 (rcEdgeAttrs e.2.2)
  else rc

theorem getRc_eq (I : LGraph) : getRc I = I.edges.foldl (step2 I) (I.edges.foldl (step1 I) {}) := rfl

def f1 (I : LGraph) : Nat → Attrs := fun n => pick (I.attrs n) rcKeys
def fH (I : LGraph) : Nat → Attrs := fun n => hhAttrs (I.attrs n)

theorem step1_changed (I rc : LGraph) (e : Nat × Nat × Attrs) (h : changedStd e.2.2 = true) :
    step1 I rc e = gstep (f1 I) rc e := by
  simp only [step1, h, if_true]
  rfl

theorem step1_unchanged (I rc : LGraph) (e : Nat × Nat × Attrs) (h : changedStd e.2.2 = false) :
    step1 I rc e = rc := by
  simp [step1, h]

theorem step2_non (I rc : LGraph) (e : Nat × Nat × Attrs) (h : (isHNode I e.1 && isHNode I e.2.1) = false) :
    step2 I rc e = rc := by
  simp only [step2, h, Bool.false_eq_true, if_false]

theorem step2_fresh (I rc : LGraph) (e : Nat × Nat × Attrs) (h : (isHNode I e.1 && isHNode I e.2.1) = true)
    (hf : rc.hasEdge e.1 e.2.1 = false) : step2 I rc e = gstep (fH I) rc e := by
  have h3 : (ens (fH I) (ens (fH I) rc e.1) e.2.1).hasEdge e.1 e.2.1 = false := by
    rw [hasEdge_congr _ rc (ens2_edges _ rc e.1 e.2.1)]; exact hf
  simp only [step2, h, if_true, ensureNodeHH_eq]
  show (if (ens (fH I) (ens (fH I) rc e.1) e.2.1).hasEdge e.1 e.2.1 = true then _ else _) = _
  rw [h3]
  rfl

theorem ens_present (f : Nat → Attrs) (rc : LGraph) (n : Nat) (h : n ∈ rc.nodes.map (·.1)) : ens f rc n = rc := by
  unfold ens; rw [if_pos ((hasNode_iff _ _).2 h)]

theorem step2_dup (I rc : LGraph) (e : Nat × Nat × Attrs) (hd : rc.hasEdge e.1 e.2.1 = true)
    (h1 : e.1 ∈ rc.nodes.map (·.1)) (h2 : e.2.1 ∈ rc.nodes.map (·.1)) : step2 I rc e = rc := by
  cases h : (isHNode I e.1 && isHNode I e.2.1) with
  | false => exact step2_non I rc e h
  | true =>
    simp only [step2, h, if_true, ensureNodeHH_eq, ens_present _ _ _ h1, ens_present _ _ _ h2, hd]

theorem foldl_invariant {α β} (P : β → Prop) (f : β → α → β) (l : List α) :
    ∀ b, P b → (∀ b, ∀ a ∈ l, P b → P (f b a)) → P (l.foldl f b) := by
  induction l with
  | nil => intro b h _; exact h
  | cons a l ih =>
    intro b h hs
    exact ih (f b a) (hs b a List.mem_cons_self h) fun b' a' ha' => hs b' a' (List.mem_cons_of_mem _ ha')

/-- invariant of the first loop. -/
def Inv1 (I rc : LGraph) : Prop :=
  NoPar (rc.edges.map ends) ∧ (∀ e ∈ rc.edges, Norm e.2.2 ∧ changedStd e.2.2 = true) ∧
  rc.nodes = nodesF (f1 I) [] rc.edges

theorem ends_mem_of_hasEdge (rc : LGraph) (u v : Nat) (h : rc.hasEdge u v = true) :
    ∃ e0 ∈ rc.edges, (u = e0.1 ∨ u = e0.2.1) ∧ (v = e0.1 ∨ v = e0.2.1) := by
  obtain ⟨e0, he0, hs⟩ := (hasEdge_iff rc u v).1 h
  rw [samePair_iff] at hs
  refine ⟨e0, he0, ?_⟩
  simp only [ends] at hs
  rcases hs with ⟨a, b⟩ | ⟨a, b⟩
  · exact ⟨Or.inl a.symm, Or.inr b.symm⟩
  · exact ⟨Or.inr b.symm, Or.inl a.symm⟩

theorem Inv1_step (I rc : LGraph) (e : Nat × Nat × Attrs) (h : Inv1 I rc) : Inv1 I (step1 I rc e) := by
  cases hc : changedStd e.2.2 with
  | false => rw [step1_unchanged I rc e hc]; exact h
  | true =>
    rw [step1_changed I rc e hc]
    obtain ⟨hp, ha, hn⟩ := h
    cases hd : rc.hasEdge e.1 e.2.1 with
    | false =>
      rw [gstep_fresh _ rc e hd]
      refine ⟨?_, ?_, ?_⟩
      · show NoPar ((rc.edges ++ [(e.1, e.2.1, rcEdgeAttrs e.2.2)]).map ends)
        unfold NoPar
        rw [List.map_append, List.pairwise_append]
        refine ⟨hp, by simp, ?_⟩
        intro a ha' b hb
        obtain ⟨a0, ha0, rfl⟩ := List.mem_map.1 ha'
        simp only [List.map_cons, List.map_nil, List.mem_singleton] at hb
        subst hb
        exact (hasEdge_false_iff rc e.1 e.2.1).1 hd a0 ha0
      · intro e' he'
        rcases List.mem_append.1 he' with he' | he'
        · exact ha e' he'
        · simp only [List.mem_singleton] at he'
          subst he'
          exact ⟨norm_rcEdgeAttrs _, by rw [changedStd_rcEdgeAttrs]; exact hc⟩
      · show pushN (f1 I) (pushN (f1 I) rc.nodes e.1) e.2.1 = nodesF (f1 I) [] (rc.edges ++ [(e.1, e.2.1, rcEdgeAttrs e.2.2)])
        rw [nodesF_snoc, ← hn]
    | true =>
      rw [gstep_dup _ rc e hd]
      obtain ⟨e0, he0, hu, hv⟩ := ends_mem_of_hasEdge rc _ _ hd
      have hids : ∀ n, (n = e0.1 ∨ n = e0.2.1) → n ∈ rc.nodes.map (·.1) := by
        intro n hn'
        rw [hn, mem_ids_nodesF]
        exact Or.inr ⟨e0, he0, hn'⟩
      refine ⟨?_, ?_, ?_⟩
      · show NoPar ((rc.edges.map _).map ends)
        rw [map_upd_ends]; exact hp
      · intro e' he'
        obtain ⟨e1, he1, rfl⟩ := List.mem_map.1 he'
        split
        · simp only [foldSet_norm _ _ (ha e1 he1).1]
          exact ⟨norm_rcEdgeAttrs _, by rw [changedStd_rcEdgeAttrs]; exact hc⟩
        · exact ha e1 he1
      · show pushN (f1 I) (pushN (f1 I) rc.nodes e.1) e.2.1 = nodesF (f1 I) [] (rc.edges.map _)
        rw [pushN_present _ _ _ (hids _ hu), pushN_present _ _ _ (hids _ hv),
          nodesF_map_ends (f1 I) _ rc.edges (map_upd_ends _ _ _ _), ← hn]

theorem Inv1_fold (I : LGraph) : Inv1 I (I.edges.foldl (step1 I) {}) := by
  apply foldl_invariant (Inv1 I)
  · exact ⟨List.Pairwise.nil, (by intro e he; cases he), rfl⟩
  · intro b a _ hb; exact Inv1_step I b a hb

theorem step1_hasEdge_mono (I rc : LGraph) (e : Nat × Nat × Attrs) (u v : Nat) (h : rc.hasEdge u v = true) :
    (step1 I rc e).hasEdge u v = true := by
  cases hc : changedStd e.2.2 with
  | false => rw [step1_unchanged I rc e hc]; exact h
  | true => rw [step1_changed I rc e hc]; exact gstep_hasEdge_mono _ rc e u v h

theorem fold_step1_hasEdge (I : LGraph) : ∀ (es : List (Nat × Nat × Attrs)) (rc : LGraph),
    (∀ e ∈ es, changedStd e.2.2 = true → (es.foldl (step1 I) rc).hasEdge e.1 e.2.1 = true) ∧
    (∀ u v, rc.hasEdge u v = true → (es.foldl (step1 I) rc).hasEdge u v = true) := by
  intro es
  induction es with
  | nil => intro rc; exact ⟨(by intro e he; cases he), fun _ _ h => h⟩
  | cons e0 es ih =>
    intro rc
    obtain ⟨ih1, ih2⟩ := ih (step1 I rc e0)
    constructor
    · intro e he hc
      rcases List.mem_cons.1 he with rfl | he'
      · apply ih2
        rw [step1_changed I rc e hc]; exact gstep_hasEdge_self _ rc e
      · exact ih1 e he' hc
    · intro u v h
      exact ih2 u v (step1_hasEdge_mono I rc e0 u v h)

/-- invariant of the second loop, relative to the result `S1` of the first. -/
def Inv2 (I S1 rc : LGraph) : Prop :=
  ∃ E2, rc.edges = S1.edges ++ E2 ∧ rc.nodes = nodesF (fH I) S1.nodes E2 ∧
    NoPar ((S1.edges ++ E2).map ends) ∧
    ∀ e ∈ E2, Norm e.2.2 ∧ changedStd e.2.2 = false ∧ isHNode I e.1 = true ∧ isHNode I e.2.1 = true

theorem Inv2_step (I S1 rc : LGraph) (h1 : Inv1 I S1)
    (hF : ∀ e ∈ I.edges, changedStd e.2.2 = true → S1.hasEdge e.1 e.2.1 = true)
    (e : Nat × Nat × Attrs) (he : e ∈ I.edges) (h : Inv2 I S1 rc) : Inv2 I S1 (step2 I rc e) := by
  cases hh : (isHNode I e.1 && isHNode I e.2.1) with
  | false => rw [step2_non I rc e hh]; exact h
  | true =>
    obtain ⟨E2, hE, hN, hP, hA⟩ := h
    cases hd : rc.hasEdge e.1 e.2.1 with
    | true =>
      obtain ⟨e0, he0, hu, hv⟩ := ends_mem_of_hasEdge rc _ _ hd
      have hids : ∀ n, (n = e0.1 ∨ n = e0.2.1) → n ∈ rc.nodes.map (·.1) := by
        intro n hn'
        rw [hN, mem_ids_nodesF]
        rw [hE] at he0
        rcases List.mem_append.1 he0 with he0 | he0
        · left; rw [h1.2.2, mem_ids_nodesF]; exact Or.inr ⟨e0, he0, hn'⟩
        · exact Or.inr ⟨e0, he0, hn'⟩
      rw [step2_dup I rc e hd (hids _ hu) (hids _ hv)]
      exact ⟨E2, hE, hN, hP, hA⟩
    | false =>
      rw [step2_fresh I rc e hh hd, gstep_fresh _ rc e hd]
      refine ⟨E2 ++ [norm e], ?_, ?_, ?_, ?_⟩
      · show rc.edges ++ [norm e] = _
        rw [hE, List.append_assoc]
      · show pushN (fH I) (pushN (fH I) rc.nodes e.1) e.2.1 = _
        rw [nodesF_snoc, ← hN]; rfl
      · rw [← List.append_assoc, ← hE]
        unfold NoPar
        rw [List.map_append, List.pairwise_append]
        refine ⟨by rw [hE]; exact hP, by simp, ?_⟩
        intro a ha' b hb
        obtain ⟨a0, ha0, rfl⟩ := List.mem_map.1 ha'
        simp only [List.map_cons, List.map_nil, List.mem_singleton] at hb
        subst hb
        exact (hasEdge_false_iff rc e.1 e.2.1).1 hd a0 ha0
      · intro e' he'
        rcases List.mem_append.1 he' with he' | he'
        · exact hA e' he'
        · simp only [List.mem_singleton] at he'
          subst he'
          simp only [Bool.and_eq_true] at hh
          refine ⟨norm_rcEdgeAttrs _, ?_, hh.1, hh.2⟩
          show changedStd (rcEdgeAttrs e.2.2) = false
          rw [changedStd_rcEdgeAttrs]
          cases hc : changedStd e.2.2 with
          | false => rfl
          | true =>
            have := hF e he hc
            obtain ⟨e0, he0, hs⟩ := (hasEdge_iff S1 _ _).1 this
            have : rc.hasEdge e.1 e.2.1 = true :=
              (hasEdge_iff rc _ _).2 ⟨e0, by rw [hE]; exact List.mem_append_left _ he0, hs⟩
            rw [hd] at this; cases this

theorem Inv2_fold (I : LGraph) :
    Inv2 I (I.edges.foldl (step1 I) {}) (getRc I) := by
  rw [getRc_eq]
  apply foldl_invariant (Inv2 I (I.edges.foldl (step1 I) {}))
  · refine ⟨[], by simp, rfl, ?_, by intro e he; cases he⟩
    rw [List.append_nil]; exact (Inv1_fold I).1
  · intro b a ha hb
    exact Inv2_step I _ b (Inv1_fold I) (fun e he hc => (fold_step1_hasEdge I I.edges {}).1 e he hc) a ha hb

/-! ### look-ups in the result -/

theorem find_fst (N : List (Nat × Attrs)) (n : Nat) (h : n ∈ N.map (·.1)) :
    ∃ p ∈ N, p.1 = n ∧ N.find? (fun q => q.1 = n) = some p := by
  induction N with
  | nil => simp at h
  | cons q N ih =>
    by_cases hq : q.1 = n
    · exact ⟨q, List.mem_cons_self, hq, by simp [hq]⟩
    · simp only [List.map_cons, List.mem_cons] at h
      rcases h with h | h
      · exact absurd h.symm hq
      · obtain ⟨p, hp, hp1, hp2⟩ := ih h
        exact ⟨p, List.mem_cons_of_mem _ hp, hp1, by simp [hq, hp2]⟩

theorem attrs_append_left (N t : List (Nat × Attrs)) (E : List (Nat × Nat × Attrs)) (n : Nat)
    (h : n ∈ N.map (·.1)) : ∃ p ∈ N, p.1 = n ∧ (⟨N ++ t, E⟩ : LGraph).attrs n = p.2 := by
  obtain ⟨p, hp, hp1, hp2⟩ := find_fst N n h
  refine ⟨p, hp, hp1, ?_⟩
  simp [LGraph.attrs, List.find?_append, hp2]

theorem attrs_append_right (N t : List (Nat × Attrs)) (E : List (Nat × Nat × Attrs)) (n : Nat)
    (h : n ∉ N.map (·.1)) (h' : n ∈ t.map (·.1)) : ∃ p ∈ t, p.1 = n ∧ (⟨N ++ t, E⟩ : LGraph).attrs n = p.2 := by
  obtain ⟨p, hp, hp1, hp2⟩ := find_fst t n h'
  refine ⟨p, hp, hp1, ?_⟩
  have : N.find? (fun q => q.1 = n) = none := by
    rw [List.find?_eq_none]
    intro q hq hqn
    exact h (List.mem_map.2 ⟨q, hq, by simpa using hqn⟩)
  simp [LGraph.attrs, List.find?_append, hp2, this]

/-- **`get_rc` is idempotent** (the `Gml`-local model of `get_rc`, default options), literally and
for every input graph. -/
theorem getRc_idem' (I : LGraph) : getRc (getRc I) = getRc I := by
  have h1 := Inv1_fold I
  obtain ⟨E2, hE, hN, hP, hA⟩ := Inv2_fold I
  generalize hS : I.edges.foldl (step1 I) {} = S1 at h1 hE hN hP
  generalize hR : getRc I = R at hE hN
  obtain ⟨hp1, ha1, hn1⟩ := h1
  -- the node list of `R`
  obtain ⟨t0, ht0, ht0'⟩ := nodesF_prefix (f1 I) S1.edges []
  rw [← hn1, List.nil_append] at ht0
  obtain ⟨t, ht, ht'⟩ := nodesF_prefix (fH I) E2 S1.nodes
  rw [← hN] at ht
  have hReta : R = ⟨S1.nodes ++ t, S1.edges ++ E2⟩ := by rw [← ht, ← hE, eta]
  -- attributes of `R`'s nodes
  have hA1 : ∀ n ∈ S1.nodes.map (·.1), R.attrs n = f1 I n := by
    intro n hn
    obtain ⟨p, hp, hpn, hpa⟩ := attrs_append_left S1.nodes t (S1.edges ++ E2) n hn
    rw [hReta, hpa, ← hpn]
    exact ht0' p (ht0 ▸ hp)
  have hA2 : ∀ n ∈ R.nodes.map (·.1), n ∉ S1.nodes.map (·.1) → R.attrs n = fH I n := by
    intro n hn hn'
    have hnt : n ∈ t.map (·.1) := by
      rw [ht, List.map_append, List.mem_append] at hn
      exact hn.resolve_left hn'
    obtain ⟨p, hp, hpn, hpa⟩ := attrs_append_right S1.nodes t (S1.edges ++ E2) n hn' hnt
    rw [hReta, hpa, ← hpn]
    exact ht' p hp
  have hEl : ∀ n ∈ R.nodes.map (·.1), Attrs.get (R.attrs n) "element" = Attrs.get (I.attrs n) "element" := by
    intro n hn
    by_cases hn' : n ∈ S1.nodes.map (·.1)
    · rw [hA1 n hn']; exact element_pick _
    · rw [hA2 n hn hn']; exact element_hhAttrs _
  -- end points
  have hS1ids : ∀ e ∈ S1.edges, e.1 ∈ S1.nodes.map (·.1) ∧ e.2.1 ∈ S1.nodes.map (·.1) := by
    intro e he
    rw [hn1]
    exact ⟨(mem_ids_nodesF _ _ _ _).2 (Or.inr ⟨e, he, Or.inl rfl⟩),
      (mem_ids_nodesF _ _ _ _).2 (Or.inr ⟨e, he, Or.inr rfl⟩)⟩
  have hE2ids : ∀ e ∈ E2, e.1 ∈ R.nodes.map (·.1) ∧ e.2.1 ∈ R.nodes.map (·.1) := by
    intro e he
    rw [hN]
    exact ⟨(mem_ids_nodesF _ _ _ _).2 (Or.inr ⟨e, he, Or.inl rfl⟩),
      (mem_ids_nodesF _ _ _ _).2 (Or.inr ⟨e, he, Or.inr rfl⟩)⟩
  have hnormS : S1.edges.map norm = S1.edges := by
    conv => rhs; rw [← List.map_id S1.edges]
    apply List.map_congr_left
    intro e he
    show (e.1, e.2.1, rcEdgeAttrs e.2.2) = e
    rw [rcEdgeAttrs_norm _ (ha1 e he).1]
  have hnormE : E2.map norm = E2 := by
    conv => rhs; rw [← List.map_id E2]
    apply List.map_congr_left
    intro e he
    show (e.1, e.2.1, rcEdgeAttrs e.2.2) = e
    rw [rcEdgeAttrs_norm _ (hA e he).1]
  -- first loop on `R`
  have hloop1 : R.edges.foldl (step1 R) {} = S1 := by
    rw [hE, List.foldl_append]
    have hin : S1.edges.foldl (step1 R) {} = S1 := by
      rw [fold_gstep (f1 R) (step1 R) S1.edges {}
        (fun rc' e he _ => step1_changed R rc' e (ha1 e he).2) (by simpa using hp1)]
      show (⟨nodesF (f1 R) [] S1.edges, [] ++ S1.edges.map norm⟩ : LGraph) = S1
      rw [hnormS, List.nil_append]
      have : nodesF (f1 R) [] S1.edges = nodesF (f1 I) [] S1.edges := by
        apply nodesF_congr
        intro e he n hn _
        have hmem : n ∈ S1.nodes.map (·.1) := by
          rcases hn with rfl | rfl
          · exact (hS1ids e he).1
          · exact (hS1ids e he).2
        show pick (R.attrs n) rcKeys = pick (I.attrs n) rcKeys
        rw [hA1 n hmem]; exact pick_pick _ _
      rw [this, ← hn1, eta]
    rw [hin]
    exact SynKit.Repr.foldl_fix _ _ _ fun e he => step1_unchanged R S1 e (hA e he).2.1
  -- second loop on `R`
  have hloop2 : R.edges.foldl (step2 R) S1 = R := by
    rw [hE, List.foldl_append]
    have hin : S1.edges.foldl (step2 R) S1 = S1 := by
      apply SynKit.Repr.foldl_fix
      intro e he
      apply step2_dup R S1 e _ (hS1ids e he).1 (hS1ids e he).2
      rw [hasEdge_iff]
      refine ⟨e, he, ?_⟩
      rw [samePair_iff]; exact Or.inl ⟨rfl, rfl⟩
    rw [hin]
    have hH : ∀ e ∈ E2, (isHNode R e.1 && isHNode R e.2.1) = true := by
      intro e he
      obtain ⟨_, _, h3, h4⟩ := hA e he
      simp only [isHNode, Bool.and_eq_true, decide_eq_true_eq] at h3 h4 ⊢
      rw [hEl _ (hE2ids e he).1, hEl _ (hE2ids e he).2]
      exact ⟨h3, h4⟩
    rw [fold_gstep (fH R) (step2 R) E2 S1 (fun rc' e he hf => step2_fresh R rc' e (hH e he) hf) hP]
    rw [hnormE]
    have : nodesF (fH R) S1.nodes E2 = nodesF (fH I) S1.nodes E2 := by
      apply nodesF_congr
      intro e he n hn hnot
      have hmem : n ∈ R.nodes.map (·.1) := by
        rcases hn with rfl | rfl
        · exact (hE2ids e he).1
        · exact (hE2ids e he).2
      show hhAttrs (R.attrs n) = hhAttrs (I.attrs n)
      rw [hA2 n hmem hnot]; exact hhAttrs_idem _
    rw [this, ← hN, ← hE, eta]
  rw [getRc_eq R, hloop1, hloop2]

end SynKit.Gml

import SynKitModel.RxnNorm
import SynKitProofs.Match
/-! Helper lemmas for C09 (`Props/C09.lean`): insertion sort, relabelling by an injective map,
the minimal ITS graph, the graph-level canonicaliser, formula tables. -/
namespace SynKit.RxnNorm
open SynKit SynKit.Match

/-! ## Insertion sort -/
section SortLemmas
variable {α : Type}

theorem insertBy_perm (le : α → α → Bool) (x : α) (l : List α) : (insertBy le x l).Perm (x :: l) := by
  induction l with
  | nil => exact List.Perm.refl _
  | cons y ys ih =>
    simp only [insertBy]
    split
    · exact List.Perm.refl _
    · exact ((List.Perm.cons y ih).trans (List.Perm.swap x y ys))

theorem sortBy_perm (le : α → α → Bool) (l : List α) : (sortBy le l).Perm l := by
  induction l with
  | nil => exact List.Perm.refl _
  | cons x xs ih => exact (insertBy_perm le x _).trans (List.Perm.cons x ih)

theorem mem_sortBy (le : α → α → Bool) (l : List α) (a : α) : a ∈ sortBy le l ↔ a ∈ l :=
  (sortBy_perm le l).mem_iff

theorem mem_insertBy (le : α → α → Bool) (x : α) (l : List α) (a : α) : a ∈ insertBy le x l ↔ a = x ∨ a ∈ l := by
  rw [(insertBy_perm le x l).mem_iff]; simp

/-- Sorting commutes with a map that preserves the comparison on the members. -/
theorem insertBy_map {β : Type} (le : α → α → Bool) (le' : β → β → Bool) (f : α → β) (x : α) (l : List α)
    (h : ∀ b ∈ l, le' (f x) (f b) = le x b) :
    insertBy le' (f x) (l.map f) = (insertBy le x l).map f := by
  induction l with
  | nil => rfl
  | cons y ys ih =>
    simp only [List.map_cons, insertBy]
    rw [h y (List.mem_cons_self ..)]
    split
    · rfl
    · simp only [List.map_cons]; rw [ih (fun b hb => h b (List.mem_cons_of_mem _ hb))]

theorem sortBy_map {β : Type} (le : α → α → Bool) (le' : β → β → Bool) (f : α → β) (l : List α)
    (h : ∀ a ∈ l, ∀ b ∈ l, le' (f a) (f b) = le a b) :
    sortBy le' (l.map f) = (sortBy le l).map f := by
  induction l with
  | nil => rfl
  | cons x xs ih =>
    simp only [List.map_cons, sortBy]
    rw [ih (fun a ha b hb => h a (List.mem_cons_of_mem _ ha) b (List.mem_cons_of_mem _ hb))]
    apply insertBy_map
    intro b hb
    exact h x (List.mem_cons_self ..) b (List.mem_cons_of_mem _ ((mem_sortBy le xs b).1 hb))

theorem insertBy_sorted (le : α → α → Bool) (x : α) (l : List α)
    (htot : ∀ a b, le a b = true ∨ le b a = true) (htr : ∀ a b c, le a b = true → le b c = true → le a c = true)
    (hl : l.Pairwise (fun a b => le a b = true)) : (insertBy le x l).Pairwise (fun a b => le a b = true) := by
  induction l with
  | nil => simp [insertBy]
  | cons y ys ih =>
    simp only [insertBy]
    rw [List.pairwise_cons] at hl
    split
    · rename_i hxy
      rw [List.pairwise_cons]
      refine ⟨?_, List.pairwise_cons.2 hl⟩
      intro b hb
      rcases List.mem_cons.1 hb with rfl | hb
      · exact hxy
      · exact htr _ _ _ hxy (hl.1 b hb)
    · rename_i hxy
      have hyx : le y x = true := by
        rcases htot x y with h | h
        · exact absurd h hxy
        · exact h
      rw [List.pairwise_cons]
      refine ⟨?_, ih hl.2⟩
      intro b hb
      rcases (mem_insertBy le x ys b).1 hb with rfl | hb
      · exact hyx
      · exact hl.1 b hb

theorem sortBy_sorted (le : α → α → Bool) (l : List α)
    (htot : ∀ a b, le a b = true ∨ le b a = true) (htr : ∀ a b c, le a b = true → le b c = true → le a c = true) :
    (sortBy le l).Pairwise (fun a b => le a b = true) := by
  induction l with
  | nil => simp [sortBy]
  | cons x xs ih => exact insertBy_sorted le x _ htot htr ih

theorem insertBy_of_le_all (le : α → α → Bool) (x : α) (l : List α) (h : ∀ b ∈ l, le x b = true) :
    insertBy le x l = x :: l := by
  cases l with
  | nil => rfl
  | cons y ys => simp [insertBy, h y (List.mem_cons_self ..)]

theorem sortBy_of_sorted (le : α → α → Bool) (l : List α) (hl : l.Pairwise (fun a b => le a b = true)) :
    sortBy le l = l := by
  induction l with
  | nil => rfl
  | cons x xs ih =>
    rw [List.pairwise_cons] at hl
    simp only [sortBy]
    rw [ih hl.2]
    exact insertBy_of_le_all le x xs hl.1

/-- Two sorted lists with the same elements are equal when the order is antisymmetric on them. -/
theorem sorted_perm_eq (le : α → α → Bool) :
    ∀ (l₁ l₂ : List α), l₁.Perm l₂ →
      (∀ a ∈ l₁, ∀ b ∈ l₁, le a b = true → le b a = true → a = b) →
      l₁.Pairwise (fun a b => le a b = true) → l₂.Pairwise (fun a b => le a b = true) → l₁ = l₂
  | [], l₂, hp, _, _, _ => (List.Perm.nil_eq hp)
  | a :: l₁, [], hp, _, _, _ => absurd hp.symm (List.Perm.nil_eq · |> fun h => by cases h)
  | a :: l₁, b :: l₂, hp, hanti, h₁, h₂ => by
    rw [List.pairwise_cons] at h₁ h₂
    have hab : a = b := by
      have ha : a ∈ b :: l₂ := hp.mem_iff.1 (List.mem_cons_self ..)
      have hb : b ∈ a :: l₁ := hp.mem_iff.2 (List.mem_cons_self ..)
      rcases List.mem_cons.1 ha with h | ha'
      · exact h
      · rcases List.mem_cons.1 hb with h | hb'
        · exact h.symm
        · exact hanti a (List.mem_cons_self ..) b hb (h₁.1 b hb') (h₂.1 a ha')
    subst hab
    have hp' : l₁.Perm l₂ := (List.perm_cons a).1 hp
    rw [sorted_perm_eq le l₁ l₂ hp'
      (fun x hx y hy => hanti x (List.mem_cons_of_mem _ hx) y (List.mem_cons_of_mem _ hy)) h₁.2 h₂.2]

theorem sortBy_perm_eq (le : α → α → Bool) (l₁ l₂ : List α) (hp : l₁.Perm l₂)
    (htot : ∀ a b, le a b = true ∨ le b a = true) (htr : ∀ a b c, le a b = true → le b c = true → le a c = true)
    (hanti : ∀ a ∈ l₁, ∀ b ∈ l₁, le a b = true → le b a = true → a = b) :
    sortBy le l₁ = sortBy le l₂ := by
  apply sorted_perm_eq le
  · exact (sortBy_perm le l₁).trans (hp.trans (sortBy_perm le l₂).symm)
  · intro a ha b hb
    exact hanti a ((mem_sortBy le l₁ a).1 ha) b ((mem_sortBy le l₁ b).1 hb)
  · exact sortBy_sorted le l₁ htot htr
  · exact sortBy_sorted le l₂ htot htr

end SortLemmas

/-! ## Relabelling -/
section Relabel

theorem ids_relabel (G : LGraph) (f : Nat → Nat) : (G.relabel f).ids = G.ids.map f := by
  simp [LGraph.relabel, LGraph.ids, List.map_map, Function.comp_def]

theorem relabel_relabel (G : LGraph) (f g : Nat → Nat) : (G.relabel f).relabel g = G.relabel (fun v => g (f v)) := by
  simp [LGraph.relabel, List.map_map, Function.comp_def]

theorem relabel_congr (G : LGraph) (f g : Nat → Nat) (h : ∀ v ∈ G.ids, f v = g v)
    (he : ∀ e ∈ G.edges, e.1 ∈ G.ids ∧ e.2.1 ∈ G.ids) : G.relabel f = G.relabel g := by
  unfold LGraph.relabel
  congr 1
  · apply List.map_congr_left
    intro p hp
    rw [h p.1 (List.mem_map_of_mem (f := (·.1)) hp)]
  · apply List.map_congr_left
    intro e hm
    rw [h _ (he e hm).1, h _ (he e hm).2]

theorem attrs_relabel {π : Nat → Nat} (hπ : Function.Injective π) (G : LGraph) (v : Nat) :
    (G.relabel π).attrs (π v) = G.attrs v := by
  unfold LGraph.attrs LGraph.relabel
  simp only
  induction G.nodes with
  | nil => rfl
  | cons p ps ih =>
    simp only [List.map_cons, List.find?_cons, hπ.eq_iff]
    by_cases h : p.1 = v
    · simp [h]
    · simp only [h, decide_false]; exact ih

theorem edge?_relabel {π : Nat → Nat} (hπ : Function.Injective π) (G : LGraph) (u v : Nat) :
    (G.relabel π).edge? (π u) (π v) = G.edge? u v := by
  unfold LGraph.edge? LGraph.relabel
  simp only
  induction G.edges with
  | nil => rfl
  | cons e es ih =>
    simp only [List.map_cons, List.find?_cons, hπ.eq_iff]
    by_cases h : (e.1 = u ∧ e.2.1 = v) ∨ (e.1 = v ∧ e.2.1 = u)
    · simp [h]
    · simp only [h, decide_false]; exact ih

theorem hasEdge_relabel {π : Nat → Nat} (hπ : Function.Injective π) (G : LGraph) (u v : Nat) :
    (G.relabel π).hasEdge (π u) (π v) = G.hasEdge u v := by
  unfold LGraph.hasEdge; rw [edge?_relabel hπ]

theorem nodup_map_of_imp {α β γ : Type} (k : α → β) (k' : α → γ) (l : List α)
    (h : ∀ a b, k' a = k' b → k a = k b) (hn : (l.map k).Nodup) : (l.map k').Nodup := by
  rw [List.Nodup, List.pairwise_map] at *
  exact hn.imp (fun hab hk => hab (h _ _ hk))

theorem nodup_map_inj {π : Nat → Nat} (hπ : Function.Injective π) {l : List Nat} (h : l.Nodup) : (l.map π).Nodup := by
  rw [List.Nodup, List.pairwise_map]
  exact h.imp (fun hab hk => hab (hπ hk))

theorem wf_relabel {π : Nat → Nat} (hπ : Function.Injective π) (G : LGraph) (h : G.WF) : (G.relabel π).WF := by
  obtain ⟨h1, h2, h3⟩ := h
  refine ⟨?_, ?_, ?_⟩
  · rw [ids_relabel]; exact nodup_map_inj hπ h1
  · intro e he
    simp only [LGraph.relabel, List.mem_map] at he
    obtain ⟨e0, he0, rfl⟩ := he
    obtain ⟨a, b, c⟩ := h2 e0 he0
    rw [ids_relabel]
    exact ⟨List.mem_map_of_mem a, List.mem_map_of_mem b, fun hh => c (hπ hh)⟩
  · simp only [LGraph.relabel, List.map_map]
    refine nodup_map_of_imp (fun e : Nat × Nat × Attrs => (min e.1 e.2.1, max e.1 e.2.1)) _ _ ?_ h3
    intro a b hab
    simp only [Function.comp_def, Prod.mk.injEq] at hab ⊢
    have : (π a.1 = π b.1 ∧ π a.2.1 = π b.2.1) ∨ (π a.1 = π b.2.1 ∧ π a.2.1 = π b.1) := by omega
    rcases this with ⟨x, y⟩ | ⟨x, y⟩
    · rw [hπ x, hπ y]; exact ⟨rfl, rfl⟩
    · rw [hπ x, hπ y]; omega

end Relabel

/-! ## The minimal ITS graph under relabelling and map sync -/
section ITS

theorem contains_map_inj {π : Nat → Nat} (hπ : Function.Injective π) (m : List Nat) (v : Nat) :
    (m.map π).contains (π v) = m.contains v := by
  rw [Bool.eq_iff_iff]
  simp only [List.contains_iff_mem, List.mem_map]
  constructor
  · rintro ⟨a, ha, h⟩; rw [← hπ h]; exact ha
  · intro h; exact ⟨v, h, rfl⟩

theorem itsNodes_relabel {π : Nat → Nat} (hπ : Function.Injective π) (G H : LGraph) :
    itsNodes (G.relabel π) (H.relabel π) = (itsNodes G H).map π := by
  unfold itsNodes
  rw [ids_relabel, ids_relabel, List.map_append, List.filter_map]
  congr 2
  apply List.filter_congr
  intro v _
  simp only [Function.comp_def, contains_map_inj hπ]

theorem itsEdgeKeys_relabel {π : Nat → Nat} (hπ : Function.Injective π) (G H : LGraph) :
    itsEdgeKeys (G.relabel π) (H.relabel π) = (itsEdgeKeys G H).map (fun uv => (π uv.1, π uv.2)) := by
  unfold itsEdgeKeys
  rw [List.map_append]
  congr 1
  · simp [LGraph.relabel, List.map_map, Function.comp_def]
  · have : (H.relabel π).edges = H.edges.map (fun e => (π e.1, π e.2.1, e.2.2)) := rfl
    rw [this, List.filter_map, List.map_map, List.map_map]
    congr 1
    apply List.filter_congr
    intro e _
    simp only [Function.comp_def, hasEdge_relabel hπ]

theorem orderIn_relabel {π : Nat → Nat} (hπ : Function.Injective π) (G : LGraph) (u v : Nat) :
    orderIn (G.relabel π) (π u) (π v) = orderIn G u v := by
  unfold orderIn; rw [edge?_relabel hπ]

theorem lgraph_ext (A B : LGraph) (h1 : A.nodes = B.nodes) (h2 : A.edges = B.edges) : A = B := by
  cases A; cases B; simp_all

theorem itsOf_relabel {π : Nat → Nat} (hπ : Function.Injective π) (G H : LGraph) :
    itsOf (G.relabel π) (H.relabel π) = (itsOf G H).relabel π := by
  apply lgraph_ext
  · show (itsNodes (G.relabel π) (H.relabel π)).map _ = ((itsNodes G H).map _).map _
    rw [itsNodes_relabel hπ, List.map_map, List.map_map]
    apply List.map_congr_left
    intro v _
    simp only [Function.comp_def, itsNodeAttrs, attrs_relabel hπ]
  · show (itsEdgeKeys (G.relabel π) (H.relabel π)).map _ = ((itsEdgeKeys G H).map _).map _
    rw [itsEdgeKeys_relabel hπ, List.map_map, List.map_map]
    apply List.map_congr_left
    intro uv _
    simp only [Function.comp_def, itsEdgeAttrs, orderIn_relabel hπ]

theorem ids_sync (G : LGraph) : (sync G).ids = G.ids := by
  simp [sync, LGraph.ids, List.map_map, Function.comp_def]

theorem get_setMap (n : Nat) (a : Attrs) (k : String) (hk : k ≠ "atom_map") : (setMap n a).get k = a.get k := by
  unfold setMap Attrs.get Dict.getD
  rw [Dict.get?_set_other _ _ _ _ hk]

theorem get_attrs_sync (G : LGraph) (v : Nat) (k : String) (hk : k ≠ "atom_map") :
    ((sync G).attrs v).get k = (G.attrs v).get k := by
  unfold LGraph.attrs sync
  simp only
  induction G.nodes with
  | nil => rfl
  | cons p ps ih =>
    simp only [List.map_cons, List.find?_cons]
    by_cases h : p.1 = v
    · simp only [h, decide_true]; exact get_setMap _ _ _ hk
    · simp only [h, decide_false]; exact ih

theorem getOr_attrs_sync (G : LGraph) (v : Nat) (k : String) (d : Val) (hk : k ≠ "atom_map") :
    getOr ((sync G).attrs v) k d = getOr (G.attrs v) k d := by
  unfold getOr; rw [get_attrs_sync G v k hk]

theorem typesOf_attrs_sync (G : LGraph) (v : Nat) : typesOf ((sync G).attrs v) = typesOf (G.attrs v) := by
  unfold typesOf
  rw [getOr_attrs_sync G v _ _ (by decide), getOr_attrs_sync G v _ _ (by decide), getOr_attrs_sync G v _ _ (by decide),
    getOr_attrs_sync G v _ _ (by decide), getOr_attrs_sync G v _ _ (by decide)]

theorem itsOf_sync (G H : LGraph) : itsOf (sync G) (sync H) = itsOf G H := by
  have eG : (sync G).edges = G.edges := rfl
  have eH : (sync H).edges = H.edges := rfl
  have hasG : ∀ u v, (sync G).hasEdge u v = G.hasEdge u v := fun _ _ => rfl
  have ordG : ∀ u v, orderIn (sync G) u v = orderIn G u v := fun _ _ => rfl
  have ordH : ∀ u v, orderIn (sync H) u v = orderIn H u v := fun _ _ => rfl
  unfold itsOf
  congr 1
  · have : itsNodes (sync G) (sync H) = itsNodes G H := by unfold itsNodes; rw [ids_sync, ids_sync]
    rw [this]
    apply List.map_congr_left
    intro v _
    simp only [itsNodeAttrs, typesOf_attrs_sync, getOr_attrs_sync G v _ _ (by decide : "element" ≠ "atom_map")]

end ITS

/-! ## Relabelling by an injective map is an isomorphism -/
section Iso

theorem inj_of_nodup_map {α β : Type} (f : α → β) :
    ∀ (l : List α), (l.map f).Nodup → ∀ x ∈ l, ∀ y ∈ l, f x = f y → x = y
  | [], _, _, hx, _, _, _ => by cases hx
  | a :: t, hn, x, hx, y, hy, hxy => by
    rw [List.map_cons, List.nodup_cons] at hn
    rcases List.mem_cons.1 hx with rfl | hx' <;> rcases List.mem_cons.1 hy with rfl | hy'
    · rfl
    · exact absurd (hxy ▸ List.mem_map_of_mem hy') hn.1
    · exact absurd (hxy ▸ List.mem_map_of_mem hx') hn.1
    · exact inj_of_nodup_map f t hn.2 x hx' y hy' hxy

theorem edge?_of_mem (G : LGraph) (h : G.WF) (e : Nat × Nat × Attrs) (he : e ∈ G.edges) :
    G.edge? e.1 e.2.1 = some e.2.2 := by
  unfold LGraph.edge?
  have hs : (G.edges.find? fun e' => (e'.1 = e.1 ∧ e'.2.1 = e.2.1) ∨ (e'.1 = e.2.1 ∧ e'.2.1 = e.1)).isSome = true := by
    rw [List.find?_isSome]; exact ⟨e, he, by simp⟩
  obtain ⟨e', he'⟩ := Option.isSome_iff_exists.1 hs
  rw [he']
  have hp := List.find?_some he'
  have hm := List.mem_of_find?_eq_some he'
  have : e' = e := by
    apply inj_of_nodup_map _ _ h.2.2 e' hm e he
    simp only [decide_eq_true_eq] at hp
    simp only [Prod.mk.injEq]
    rcases hp with ⟨a, b⟩ | ⟨a, b⟩
    · rw [a, b]; exact ⟨rfl, rfl⟩
    · rw [a, b]; omega
  rw [this]; rfl

theorem get?_idmap (π : Nat → Nat) (l : List Nat) (p : Nat) :
    Mapping.get? (l.map fun v => (v, π v)) p = if p ∈ l then some (π p) else none := by
  unfold Mapping.get?
  induction l with
  | nil => simp
  | cons a t ih =>
    simp only [List.map_cons, List.find?_cons]
    by_cases h : a = p
    · simp [h]
    · simp only [h, decide_false, List.mem_cons, Ne.symm h, false_or]; exact ih

theorem nodeOk_self (sel : Sel) (a : Attrs) : nodeOk sel a a = true := by
  unfold nodeOk
  simp

theorem edgeOk_self (sel : Sel) (a : Attrs) : edgeOk sel a a = true := by
  unfold edgeOk
  simp

theorem isIso_relabel {π : Nat → Nat} (hπ : Function.Injective π) (sel : Sel) (I : LGraph) (hI : I.WF) :
    IsIso sel (I.relabel π) I (I.ids.map fun v => (v, π v)) := by
  refine ⟨⟨⟨?_, ?_, ?_, ?_⟩, ?_⟩, ?_⟩
  · simp [List.map_map, Function.comp_def]
  · simp only [List.map_map, Function.comp_def]; exact nodup_map_inj hπ hI.1
  · intro ph hph
    obtain ⟨v, hv, rfl⟩ := List.mem_map.1 hph
    refine ⟨?_, ?_⟩
    · rw [ids_relabel]; exact List.mem_map_of_mem hv
    · simp only [attrs_relabel hπ]; exact nodeOk_self sel _
  · intro e he
    obtain ⟨h1, h2, _⟩ := hI.2.1 e he
    refine ⟨π e.1, π e.2.1, e.2.2, ?_, ?_, ?_, edgeOk_self sel _⟩
    · rw [get?_idmap, if_pos h1]
    · rw [get?_idmap, if_pos h2]
    · rw [edge?_relabel hπ]; exact edge?_of_mem I hI e he
  · intro p q hp hq h1 h2 hne
    rw [get?_idmap] at h1 h2
    split at h1
    · split at h2
      · cases h1; cases h2; rw [hasEdge_relabel hπ]; exact hne
      · cases h2
    · cases h1
  · simp [LGraph.relabel]

end Iso

/-! ## Well-formedness of the minimal ITS graph and of the centre; the centre under relabelling -/
section WFits

theorem ids_itsOf (G H : LGraph) : (itsOf G H).ids = itsNodes G H := by
  simp [itsOf, LGraph.ids, List.map_map, Function.comp_def]

theorem mem_itsNodes (G H : LGraph) (v : Nat) : v ∈ itsNodes G H ↔ v ∈ G.ids ∨ v ∈ H.ids := by
  unfold itsNodes
  simp only [List.mem_append, List.mem_filter, Bool.not_eq_true', List.contains_eq_mem, decide_eq_false_iff_not]
  constructor
  · rintro (h | h)
    · exact Or.inl h
    · exact Or.inr h.1
  · rintro (h | h)
    · exact Or.inl h
    · by_cases hg : v ∈ G.ids
      · exact Or.inl hg
      · exact Or.inr ⟨h, hg⟩

theorem hasEdge_of_mem_key (G : LGraph) (e : Nat × Nat × Attrs) (he : e ∈ G.edges) (u v : Nat)
    (h : (min e.1 e.2.1, max e.1 e.2.1) = (min u v, max u v)) : G.hasEdge u v = true := by
  unfold LGraph.hasEdge LGraph.edge?
  rw [Option.isSome_map, List.find?_isSome]
  refine ⟨e, he, ?_⟩
  simp only [Prod.mk.injEq] at h
  simp only [decide_eq_true_eq]
  omega

theorem itsOf_wf (G H : LGraph) (hG : G.WF) (hH : H.WF) : (itsOf G H).WF := by
  refine ⟨?_, ?_, ?_⟩
  · rw [ids_itsOf]
    unfold itsNodes
    rw [List.nodup_append]
    refine ⟨hG.1, hH.1.sublist List.filter_sublist, ?_⟩
    intro a ha b hb hab
    subst hab
    simp only [List.mem_filter, Bool.not_eq_true', List.contains_eq_mem, decide_eq_false_iff_not] at hb
    exact hb.2 ha
  · intro e he
    rw [ids_itsOf]
    simp only [itsOf, List.mem_map] at he
    obtain ⟨uv, huv, rfl⟩ := he
    simp only [mem_itsNodes]
    unfold itsEdgeKeys at huv
    rcases List.mem_append.1 huv with h | h
    · obtain ⟨e0, he0, rfl⟩ := List.mem_map.1 h
      obtain ⟨a, b, c⟩ := hG.2.1 e0 he0
      exact ⟨Or.inl a, Or.inl b, c⟩
    · obtain ⟨e0, he0, rfl⟩ := List.mem_map.1 h
      obtain ⟨a, b, c⟩ := hH.2.1 e0 (List.mem_filter.1 he0).1
      exact ⟨Or.inr a, Or.inr b, c⟩
  · have : (itsOf G H).edges.map (fun e => (min e.1 e.2.1, max e.1 e.2.1)) =
        G.edges.map (fun e => (min e.1 e.2.1, max e.1 e.2.1)) ++
        (H.edges.filter fun e => !G.hasEdge e.1 e.2.1).map (fun e => (min e.1 e.2.1, max e.1 e.2.1)) := by
      simp [itsOf, itsEdgeKeys, List.map_map, Function.comp_def]
    rw [this, List.nodup_append]
    refine ⟨hG.2.2, hH.2.2.sublist (List.filter_sublist.map _), ?_⟩
    intro a ha b hb hab
    subst hab
    obtain ⟨e, he, rfl⟩ := List.mem_map.1 ha
    obtain ⟨e', he', hk⟩ := List.mem_map.1 hb
    have := hasEdge_of_mem_key G e he e'.1 e'.2.1 hk.symm
    simp only [List.mem_filter, Bool.not_eq_true'] at he'
    rw [this] at he'
    exact absurd he'.2 (by simp)

theorem rcOf_wf (I : LGraph) (hI : I.WF) : (rcOf I).WF := by
  refine ⟨?_, ?_, ?_⟩
  · exact hI.1.sublist (List.filter_sublist.map _)
  · intro e he
    have he0 : e ∈ I.edges := (List.mem_filter.1 he).1
    obtain ⟨a, b, c⟩ := hI.2.1 e he0
    have key : ∀ v, v ∈ I.ids → (v = e.1 ∨ v = e.2.1) → v ∈ (rcOf I).ids := by
      intro v hv hve
      obtain ⟨p, hp, rfl⟩ := List.mem_map.1 hv
      apply List.mem_map_of_mem
      unfold rcOf
      simp only [List.mem_filter, List.any_eq_true]
      refine ⟨hp, e, List.mem_filter.1 he, ?_⟩
      rcases hve with h | h <;> simp [h]
    exact ⟨key _ a (Or.inl rfl), key _ b (Or.inr rfl), c⟩
  · exact hI.2.2.sublist (List.filter_sublist.map _)

theorem isH_relabel {π : Nat → Nat} (hπ : Function.Injective π) (I : LGraph) (v : Nat) :
    isH (I.relabel π) (π v) = isH I v := by
  unfold isH; rw [attrs_relabel hπ]

theorem rcEdges_relabel {π : Nat → Nat} (hπ : Function.Injective π) (I : LGraph) :
    (I.relabel π).edges.filter (rcKeep (I.relabel π)) =
      (I.edges.filter (rcKeep I)).map (fun e => (π e.1, π e.2.1, e.2.2)) := by
  have : (I.relabel π).edges = I.edges.map (fun e => (π e.1, π e.2.1, e.2.2)) := rfl
  rw [this, List.filter_map]
  congr 1
  apply List.filter_congr
  intro e _
  simp only [Function.comp_def, rcKeep, isH_relabel hπ]

theorem beq_inj {π : Nat → Nat} (hπ : Function.Injective π) (a b : Nat) : (π a == π b) = (a == b) := by
  rw [Bool.eq_iff_iff]; simp [hπ.eq_iff]

theorem rcOf_relabel {π : Nat → Nat} (hπ : Function.Injective π) (I : LGraph) :
    rcOf (I.relabel π) = (rcOf I).relabel π := by
  apply lgraph_ext
  · show (I.relabel π).nodes.filter _ = ((I.nodes.filter _).map _)
    have : (I.relabel π).nodes = I.nodes.map (fun p => (π p.1, p.2)) := rfl
    rw [rcEdges_relabel hπ, this, List.filter_map]
    congr 1
    apply List.filter_congr
    intro p _
    simp only [Function.comp_def, List.any_map]
    congr 1
    funext x
    rw [beq_inj hπ, beq_inj hπ]
  · exact rcEdges_relabel hπ I

theorem view_renumber {π : Nat → Nat} (hπ : Function.Injective π) (m : Method) (R : LGraph × LGraph) :
    view m (renumber π R) = (view m R).relabel π := by
  cases m
  · simp only [view, renumber, itsOf_sync, itsOf_relabel hπ]
  · simp only [view, renumber, itsOf_sync, itsOf_relabel hπ, rcOf_relabel hπ]

theorem view_wf (m : Method) (R : LGraph × LGraph) (h1 : R.1.WF) (h2 : R.2.WF) : (view m R).WF := by
  cases m
  · exact itsOf_wf _ _ h1 h2
  · exact rcOf_wf _ (itsOf_wf _ _ h1 h2)

end WFits

/-! ## The graph-level canonicaliser on fully mapped reactions -/
section Canon

theorem find?_unique {α : Type} (p : α → Bool) (l : List α) (a : α)
    (hu : ∀ x ∈ l, p x = true → x = a) (ha : a ∈ l) (hp : p a = true) : l.find? p = some a := by
  have hs : (l.find? p).isSome = true := by rw [List.find?_isSome]; exact ⟨a, ha, hp⟩
  obtain ⟨a', ha'⟩ := Option.isSome_iff_exists.1 hs
  rw [ha', hu a' (List.mem_of_find?_eq_some ha') (List.find?_some ha')]

theorem filterMap_eq_map_of {α β : Type} (f : α → Option β) (g : α → β) (l : List α)
    (h : ∀ a ∈ l, f a = some (g a)) : l.filterMap f = l.map g := by
  induction l with
  | nil => rfl
  | cons a t ih =>
    rw [List.filterMap_cons, h a (List.mem_cons_self ..), List.map_cons,
      ih (fun b hb => h b (List.mem_cons_of_mem _ hb))]

theorem nodup_map_injOn (f : Nat → Nat) (l : List Nat) (hl : l.Nodup)
    (hf : ∀ a ∈ l, ∀ b ∈ l, f a = f b → a = b) : (l.map f).Nodup := by
  induction l with
  | nil => simp
  | cons a t ih =>
    rw [List.nodup_cons] at hl
    rw [List.map_cons, List.nodup_cons]
    refine ⟨?_, ih hl.2 (fun x hx y hy => hf x (List.mem_cons_of_mem _ hx) y (List.mem_cons_of_mem _ hy))⟩
    intro hm
    obtain ⟨b, hb, hab⟩ := List.mem_map.1 hm
    have := hf b (List.mem_cons_of_mem _ hb) a (List.mem_cons_self ..) hab
    subst this
    exact hl.1 hb

theorem aamLookup_relabel (f : Nat → Nat) (G : LGraph) (hn : G.ids.Nodup)
    (hm : ∀ p ∈ G.nodes, atomMapOf p.2 = 2 * (p.1 : Int)) (v : Nat) (hv : v ∈ G.ids) (hpos : 0 < v) :
    aamLookup (G.relabel f) (2 * (v : Int)) = some (f v) := by
  obtain ⟨p0, hp0, rfl⟩ := List.mem_map.1 hv
  unfold aamLookup
  have hk : (2 * (p0.1 : Int)) > 0 := by omega
  rw [if_pos hk]
  have : (G.relabel f).nodes.reverse.find? (fun p => atomMapOf p.2 = 2 * (p0.1 : Int)) = some (f p0.1, p0.2) := by
    apply find?_unique
    · intro x hx hpx
      rw [List.mem_reverse] at hx
      obtain ⟨q, hq, rfl⟩ := List.mem_map.1 hx
      simp only [decide_eq_true_eq] at hpx
      rw [hm q hq] at hpx
      have h1 : q.1 = p0.1 := by omega
      have : q = p0 := inj_of_nodup_map (fun p : Nat × Attrs => p.1) G.nodes hn q hq p0 hp0 h1
      rw [this]
    · rw [List.mem_reverse]; exact List.mem_map_of_mem (f := fun p : Nat × Attrs => (f p.1, p.2)) hp0
    · simp only [decide_eq_true_eq]; exact hm p0 hp0
  rw [this]; rfl

theorem relabel_id (G : LGraph) : G.relabel (fun v => v) = G := by
  cases G; simp [LGraph.relabel]

theorem aamLookup_self (G : LGraph) (hn : G.ids.Nodup)
    (hm : ∀ p ∈ G.nodes, atomMapOf p.2 = 2 * (p.1 : Int)) (v : Nat) (hv : v ∈ G.ids) (hpos : 0 < v) :
    aamLookup G (2 * (v : Int)) = some v := by
  have := aamLookup_relabel (fun v => v) G hn hm v hv hpos
  rwa [relabel_id] at this

theorem aamPairs_fullyMapped (lab : Nat → Nat) (G H : LGraph) (h : FullyMapped G H) :
    aamPairs (G.relabel lab) H = G.nodes.map (fun p => (lab p.1, p.1)) := by
  obtain ⟨hG, hH, _, hGH, _, hmG, hmH, hpos⟩ := h
  unfold aamPairs
  have : (G.relabel lab).nodes = G.nodes.map (fun p => (lab p.1, p.2)) := rfl
  rw [this, List.filterMap_map]
  apply filterMap_eq_map_of
  intro p hp
  have hv : p.1 ∈ G.ids := List.mem_map_of_mem (f := (·.1)) hp
  simp only [Function.comp_def]
  rw [hmG p hp, aamLookup_relabel lab G hG.1 hmG p.1 hv (hpos _ hv),
    aamLookup_self H hH.1 hmH p.1 (hGH _ hv) (hpos _ hv)]

theorem pairMap_fullyMapped (lab : Nat → Nat) (G : LGraph) (v : Nat) (hv : v ∈ G.ids) :
    pairMap (G.nodes.map (fun p => (lab p.1, p.1))) v = lab v := by
  obtain ⟨p0, hp0, rfl⟩ := List.mem_map.1 hv
  unfold pairMap
  have : (G.nodes.map (fun p => (lab p.1, p.1))).reverse.find? (fun p => p.2 = p0.1) = some (lab p0.1, p0.1) := by
    apply find?_unique
    · intro x hx hpx
      rw [List.mem_reverse] at hx
      obtain ⟨q, _, rfl⟩ := List.mem_map.1 hx
      simp only [decide_eq_true_eq] at hpx
      rw [hpx]
    · rw [List.mem_reverse]; exact List.mem_map_of_mem (f := fun p : Nat × Attrs => (lab p.1, p.1)) hp0
    · simp
  rw [this]

/-- On a fully mapped reaction every product atom has a reactant partner: the list of fresh-id
pairs of the F23 repair is empty. -/
theorem unpairedPairs_fullyMapped (lab : Nat → Nat) (G H : LGraph) (h : FullyMapped G H) :
    unpairedPairs (G.relabel lab) H (aamPairs (G.relabel lab) H) = [] := by
  rw [aamPairs_fullyMapped lab G H h]
  obtain ⟨_, _, _, _, hHG, _, _, _⟩ := h
  have hf : (H.ids.filter fun n => !(G.nodes.map (fun p => (lab p.1, p.1))).any fun p => p.2 == n) = [] := by
    rw [List.filter_eq_nil_iff]
    intro n hn
    obtain ⟨q, hq, hqn⟩ := List.mem_map.1 (hHG n hn)
    simp only [Bool.not_eq_true', Bool.not_eq_false, List.any_eq_true]
    exact ⟨(lab q.1, q.1), List.mem_map_of_mem (f := fun p : Nat × Attrs => (lab p.1, p.1)) hq, by simpa using hqn⟩
  unfold unpairedPairs
  simp only [hf]
  rfl

/-- The workhorse: on a fully mapped reaction the canonicaliser relabels both sides by the
back-end's labelling and syncs the maps. -/
theorem canonRxnWith_eq (lab : Nat → Nat) (G H : LGraph) (h : FullyMapped G H)
    (hinj : ∀ a ∈ G.ids, ∀ b ∈ G.ids, lab a = lab b → a = b) :
    canonRxnWith lab G H = .ok (sync (G.relabel lab), sync (H.relabel lab)) := by
  have hpairs := aamPairs_fullyMapped lab G H h
  have hunp := unpairedPairs_fullyMapped lab G H h
  obtain ⟨hG, hH, hne, hGH, hHG, hmG, hmH, hpos⟩ := h
  have hrel : H.relabel (pairMap (G.nodes.map (fun p => (lab p.1, p.1)))) = H.relabel lab := by
    apply relabel_congr
    · intro v hv; exact pairMap_fullyMapped lab G v (hHG v hv)
    · intro e he; exact ⟨(hH.2.1 e he).1, (hH.2.1 e he).2.1⟩
  have hnd : (H.relabel lab).ids.Nodup := by
    rw [ids_relabel]
    exact nodup_map_injOn lab H.ids hH.1 (fun a ha b hb => hinj a (hHG a ha) b (hHG b hb))
  have hremap : remapGraph H (aamPairs (G.relabel lab) H ++
      unpairedPairs (G.relabel lab) H (aamPairs (G.relabel lab) H)) = .ok (H.relabel lab) := by
    rw [hunp, List.append_nil]
    unfold remapGraph
    rw [hpairs]
    have e1 : (G.nodes.map (fun p => (lab p.1, p.1))).isEmpty = false := by
      cases hg : G.nodes with
      | nil => exact absurd hg hne
      | cons a t => rfl
    have e2 : (G.nodes.map (fun p => (lab p.1, p.1))).any (fun p => !H.hasNode p.2) = false := by
      rw [Bool.eq_false_iff]
      intro hany
      rw [List.any_eq_true] at hany
      obtain ⟨x, hx, hx2⟩ := hany
      obtain ⟨q, hq, rfl⟩ := List.mem_map.1 hx
      have : q.1 ∈ H.ids := hGH _ (List.mem_map_of_mem (f := (·.1)) hq)
      simp [LGraph.hasNode, this] at hx2
    rw [e1, e2]
    simp only [Bool.false_eq_true, if_false]
    rw [hrel, decide_eq_true hnd]
    rfl
  unfold canonRxnWith
  simp only [hremap]


/-! ### A globally injective extension of a labelling that is injective on a node list -/

def extOf (lab : Nat → Nat) (l : List Nat) (v : Nat) : Nat :=
  if v ∈ l then lab v else v + (l.map lab).sum + 1

theorem le_sum_of_mem' : ∀ (l : List Nat) (a : Nat), a ∈ l → a ≤ l.sum
  | [], _, h => by cases h
  | x :: t, a, h => by
    rw [List.sum_cons]
    rcases List.mem_cons.1 h with rfl | h
    · omega
    · have := le_sum_of_mem' t a h; omega

theorem extOf_eq (lab : Nat → Nat) (l : List Nat) (v : Nat) (hv : v ∈ l) : extOf lab l v = lab v := by
  unfold extOf; rw [if_pos hv]

theorem extOf_inj (lab : Nat → Nat) (l : List Nat) (h : ∀ a ∈ l, ∀ b ∈ l, lab a = lab b → a = b) :
    Function.Injective (extOf lab l) := by
  intro a b hab
  unfold extOf at hab
  by_cases ha : a ∈ l <;> by_cases hb : b ∈ l
  · rw [if_pos ha, if_pos hb] at hab; exact h a ha b hb hab
  · rw [if_pos ha, if_neg hb] at hab
    have := le_sum_of_mem' (l.map lab) (lab a) (List.mem_map_of_mem ha); omega
  · rw [if_neg ha, if_pos hb] at hab
    have := le_sum_of_mem' (l.map lab) (lab b) (List.mem_map_of_mem hb); omega
  · rw [if_neg ha, if_neg hb] at hab; omega

theorem relabel_extOf (lab : Nat → Nat) (l : List Nat) (G : LGraph) (hsub : ∀ v ∈ G.ids, v ∈ l) (hG : G.WF) :
    G.relabel lab = G.relabel (extOf lab l) := by
  apply relabel_congr
  · intro v hv; rw [extOf_eq lab l v (hsub v hv)]
  · intro e he; exact ⟨(hG.2.1 e he).1, (hG.2.1 e he).2.1⟩

/-! ### Positions in the canonical order -/

theorem idxOf_inj_of_mem (l : List Nat) (a b : Nat) (ha : a ∈ l) (h : l.idxOf a = l.idxOf b) : a = b := by
  have h1 : l.idxOf a < l.length := List.idxOf_lt_length_iff.2 ha
  have h2 : l.idxOf b < l.length := h ▸ h1
  have e1 := List.getElem_idxOf h1
  have e2 := List.getElem_idxOf h2
  rw [← e1, ← e2]
  simp only [h]

theorem idxOf_map_inj {π : Nat → Nat} (hπ : Function.Injective π) (l : List Nat) (v : Nat) :
    (l.map π).idxOf (π v) = l.idxOf v := by
  induction l with
  | nil => rfl
  | cons a t ih =>
    simp only [List.map_cons, List.idxOf_cons, beq_inj hπ, ih]

theorem pos_inj (order : List Nat) (a b : Nat) (ha : a ∈ order) (h : pos order a = pos order b) : a = b := by
  unfold pos at h
  exact idxOf_inj_of_mem order a b ha (by omega)

theorem mem_canonOrder (key : LGraph → Nat → Nat) (G : LGraph) (v : Nat) : v ∈ canonOrder key G ↔ v ∈ G.ids :=
  mem_sortBy _ _ _

theorem keyLe_total (k : Nat → Nat) (a b : Nat) : keyLe k a b = true ∨ keyLe k b a = true := by
  unfold keyLe
  simp only [Bool.or_eq_true, decide_eq_true_eq, Bool.and_eq_true, beq_iff_eq]
  omega

theorem keyLe_trans (k : Nat → Nat) (a b c : Nat) (h1 : keyLe k a b = true) (h2 : keyLe k b c = true) :
    keyLe k a c = true := by
  unfold keyLe at *
  simp only [Bool.or_eq_true, decide_eq_true_eq, Bool.and_eq_true, beq_iff_eq] at *
  omega

theorem keyLe_antisymm (k : Nat → Nat) (a b : Nat) (h1 : keyLe k a b = true) (h2 : keyLe k b a = true) : a = b := by
  unfold keyLe at *
  simp only [Bool.or_eq_true, decide_eq_true_eq, Bool.and_eq_true, beq_iff_eq] at *
  omega

/-! ### Map sync -/

theorem dict_set_set {α : Type} (d : Dict α) (k : String) (x y : α) : (d.set k x).set k y = d.set k y := by
  induction d with
  | nil => simp [Dict.set]
  | cons p rest ih =>
    obtain ⟨k', v'⟩ := p
    simp only [Dict.set]
    by_cases h : k' = k
    · simp [h, Dict.set]
    · simp [h, Dict.set, ih]

theorem sync_relabel_sync (G : LGraph) (f : Nat → Nat) : sync ((sync G).relabel f) = sync (G.relabel f) := by
  apply lgraph_ext
  · simp only [sync, LGraph.relabel, List.map_map]
    apply List.map_congr_left
    intro p _
    simp only [Function.comp_def, setMap, dict_set_set]
  · rfl

theorem wf_sync (G : LGraph) (h : G.WF) : (sync G).WF := by
  obtain ⟨h1, h2, h3⟩ := h
  refine ⟨by rw [ids_sync]; exact h1, ?_, h3⟩
  intro e he
  rw [ids_sync]
  exact h2 e he

theorem atomMapOf_setMap (n : Nat) (a : Attrs) : atomMapOf (setMap n a) = 2 * (n : Int) := by
  unfold atomMapOf setMap Attrs.get Dict.getD
  rw [Dict.get?_set_self]
  rfl

theorem fullyMapped_renumber {π : Nat → Nat} (hπ : Function.Injective π) (G H : LGraph) (h : FullyMapped G H)
    (hpos : ∀ v ∈ G.ids, 0 < π v) : FullyMapped (sync (G.relabel π)) (sync (H.relabel π)) := by
  obtain ⟨hG, hH, hne, hGH, hHG, _, _, _⟩ := h
  have idsG : (sync (G.relabel π)).ids = G.ids.map π := by rw [ids_sync, ids_relabel]
  have idsH : (sync (H.relabel π)).ids = H.ids.map π := by rw [ids_sync, ids_relabel]
  refine ⟨wf_sync _ (wf_relabel hπ G hG), wf_sync _ (wf_relabel hπ H hH), ?_, ?_, ?_, ?_, ?_, ?_⟩
  · intro hnil
    apply hne
    simpa [sync, LGraph.relabel] using hnil
  · intro v hv
    rw [idsG] at hv; rw [idsH]
    obtain ⟨a, ha, rfl⟩ := List.mem_map.1 hv
    exact List.mem_map_of_mem (hGH a ha)
  · intro v hv
    rw [idsH] at hv; rw [idsG]
    obtain ⟨a, ha, rfl⟩ := List.mem_map.1 hv
    exact List.mem_map_of_mem (hHG a ha)
  · intro p hp
    simp only [sync, List.mem_map] at hp
    obtain ⟨q, _, rfl⟩ := hp
    exact atomMapOf_setMap _ _
  · intro p hp
    simp only [sync, List.mem_map] at hp
    obtain ⟨q, _, rfl⟩ := hp
    exact atomMapOf_setMap _ _
  · intro v hv
    rw [idsG] at hv
    obtain ⟨a, ha, rfl⟩ := List.mem_map.1 hv
    exact hpos a ha

/-- The canonical order of a renumbered graph is the renumbered canonical order, for a key that is
injective on the nodes and invariant under the renumbering. -/
theorem canonOrder_renumber {π : Nat → Nat} (key : LGraph → Nat → Nat) (G : LGraph)
    (hkey : ∀ v ∈ G.ids, key (sync (G.relabel π)) (π v) = key G v)
    (hinj : ∀ a ∈ G.ids, ∀ b ∈ G.ids, key G a = key G b → a = b) :
    canonOrder key (sync (G.relabel π)) = (canonOrder key G).map π := by
  unfold canonOrder
  rw [ids_sync, ids_relabel]
  apply sortBy_map
  intro a ha b hb
  unfold keyLe
  rw [hkey a ha, hkey b hb]
  by_cases hab : a = b
  · subst hab; simp
  · have hk : key G a ≠ key G b := fun h => hab (hinj a ha b hb h)
    have : (key G a == key G b) = false := by simpa using hk
    rw [this]; simp

end Canon

/-! ## Product atoms without a reactant partner (repair of F23, commit 270bb6f) -/
section Unpaired

theorem le_foldl_max (l : List Nat) (m a : Nat) (h : a ∈ l ∨ a ≤ m) : a ≤ l.foldl max m := by
  induction l generalizing m with
  | nil => simpa using h
  | cons x t ih =>
    rw [List.foldl_cons]
    apply ih
    rcases h with h | h
    · rcases List.mem_cons.1 h with rfl | h
      · right; omega
      · left; exact h
    · right; omega

theorem aamLookup_some {G : LGraph} {k : Int} {g : Nat} (h : aamLookup G k = some g) :
    ∃ a, (g, a) ∈ G.nodes ∧ atomMapOf a = k := by
  unfold aamLookup at h
  split at h
  · obtain ⟨p, hp, rfl⟩ := Option.map_eq_some_iff.1 h
    have h1 := List.find?_some hp
    have h2 := List.mem_of_find?_eq_some hp
    rw [List.mem_reverse] at h2
    exact ⟨p.2, h2, by simpa using h1⟩
  · cases h

theorem mem_aamPairs {G H : LGraph} {g h : Nat} (hm : (g, h) ∈ aamPairs G H) :
    ∃ k, aamLookup G k = some g ∧ aamLookup H k = some h := by
  unfold aamPairs at hm
  obtain ⟨p, _, hp⟩ := List.mem_filterMap.1 hm
  refine ⟨atomMapOf p.2, ?_⟩
  split at hp
  · rename_i g' h' e1 e2
    cases hp
    exact ⟨e1, e2⟩
  · cases hp

theorem node_unique {G : LGraph} (hn : G.ids.Nodup) {v : Nat} {a b : Attrs}
    (ha : (v, a) ∈ G.nodes) (hb : (v, b) ∈ G.nodes) : a = b :=
  (Prod.mk.inj (inj_of_nodup_map (fun p : Nat × Attrs => p.1) G.nodes hn _ ha _ hb rfl)).2

theorem aamPairs_mem_ids {G H : LGraph} {g h : Nat} (hm : (g, h) ∈ aamPairs G H) : g ∈ G.ids ∧ h ∈ H.ids := by
  obtain ⟨k, h1, h2⟩ := mem_aamPairs hm
  obtain ⟨a, ha, _⟩ := aamLookup_some h1
  obtain ⟨b, hb, _⟩ := aamLookup_some h2
  exact ⟨List.mem_map_of_mem (f := (·.1)) ha, List.mem_map_of_mem (f := (·.1)) hb⟩

/-- A reactant node is paired with at most one product node … -/
theorem aamPairs_snd_unique {G H : LGraph} (hG : G.ids.Nodup) {g h h' : Nat}
    (h1 : (g, h) ∈ aamPairs G H) (h2 : (g, h') ∈ aamPairs G H) : h = h' := by
  obtain ⟨k, a1, b1⟩ := mem_aamPairs h1
  obtain ⟨k', a2, b2⟩ := mem_aamPairs h2
  obtain ⟨x, hx, rfl⟩ := aamLookup_some a1
  obtain ⟨y, hy, rfl⟩ := aamLookup_some a2
  rw [node_unique hG hx hy, b2] at b1
  exact (Option.some.inj b1).symm

/-- … and a product node with at most one reactant node. -/
theorem aamPairs_fst_unique {G H : LGraph} (hH : H.ids.Nodup) {g g' h : Nat}
    (h1 : (g, h) ∈ aamPairs G H) (h2 : (g', h) ∈ aamPairs G H) : g = g' := by
  obtain ⟨k, a1, b1⟩ := mem_aamPairs h1
  obtain ⟨k', a2, b2⟩ := mem_aamPairs h2
  obtain ⟨x, hx, rfl⟩ := aamLookup_some b1
  obtain ⟨y, hy, rfl⟩ := aamLookup_some b2
  rw [node_unique hH hx hy, a2] at a1
  exact (Option.some.inj a1).symm

/-- The old ids of the product atoms without a partner, in the order in which they get fresh ids. -/
def unpairedOlds (H : LGraph) (pairs : List (Nat × Nat)) : List Nat :=
  sortBy natLe (H.ids.filter fun n => !pairs.any fun p => p.2 == n)

theorem unpairedPairs_eq (Gc H : LGraph) (pairs : List (Nat × Nat)) :
    unpairedPairs Gc H pairs =
      (List.range' (Gc.ids.foldl max 0 + 1) (unpairedOlds H pairs).length).zip (unpairedOlds H pairs) := rfl

theorem mem_unpairedOlds (H : LGraph) (pairs : List (Nat × Nat)) (o : Nat) :
    o ∈ unpairedOlds H pairs ↔ o ∈ H.ids ∧ ∀ p ∈ pairs, p.2 ≠ o := by
  unfold unpairedOlds
  rw [mem_sortBy, List.mem_filter]
  simp only [Bool.not_eq_true', List.any_eq_false, beq_iff_eq]

theorem unpairedOlds_nodup (H : LGraph) (pairs : List (Nat × Nat)) (hH : H.ids.Nodup) :
    (unpairedOlds H pairs).Nodup :=
  (sortBy_perm _ _).nodup_iff.2 (hH.sublist List.filter_sublist)

theorem unpairedPairs_snd (Gc H : LGraph) (pairs : List (Nat × Nat)) :
    (unpairedPairs Gc H pairs).map Prod.snd = unpairedOlds H pairs := by
  rw [unpairedPairs_eq]
  exact List.map_snd_zip (by rw [List.length_range']; exact Nat.le_refl _)

theorem unpairedPairs_fst (Gc H : LGraph) (pairs : List (Nat × Nat)) :
    (unpairedPairs Gc H pairs).map Prod.fst =
      List.range' (Gc.ids.foldl max 0 + 1) (unpairedOlds H pairs).length := by
  rw [unpairedPairs_eq]
  exact List.map_fst_zip (by rw [List.length_range']; exact Nat.le_refl _)

/-- A fresh-id pair: the new id lies above every canonical reactant id, the old id is a product
node without a partner. -/
theorem mem_unpairedPairs {Gc H : LGraph} {pairs : List (Nat × Nat)} {n o : Nat}
    (hm : (n, o) ∈ unpairedPairs Gc H pairs) :
    (∀ g ∈ Gc.ids, g < n) ∧ o ∈ H.ids ∧ ∀ p ∈ pairs, p.2 ≠ o := by
  rw [unpairedPairs_eq] at hm
  obtain ⟨h1, h2⟩ := List.of_mem_zip hm
  rw [List.mem_range'_1] at h1
  refine ⟨?_, (mem_unpairedOlds H pairs o).1 h2⟩
  intro g hg
  have := le_foldl_max Gc.ids 0 g (Or.inl hg)
  omega

/-- Every product node without a partner gets a fresh id. -/
theorem unpairedPairs_cover {Gc H : LGraph} {pairs : List (Nat × Nat)} {o : Nat}
    (ho : o ∈ H.ids) (hu : ∀ p ∈ pairs, p.2 ≠ o) : ∃ n, (n, o) ∈ unpairedPairs Gc H pairs := by
  have : o ∈ (unpairedPairs Gc H pairs).map Prod.snd := by
    rw [unpairedPairs_snd]; exact (mem_unpairedOlds H pairs o).2 ⟨ho, hu⟩
  obtain ⟨p, hp, rfl⟩ := List.mem_map.1 this
  exact ⟨p.1, hp⟩

theorem unpairedPairs_fst_unique {Gc H : LGraph} {pairs : List (Nat × Nat)} (hH : H.ids.Nodup) {n n' o : Nat}
    (h1 : (n, o) ∈ unpairedPairs Gc H pairs) (h2 : (n', o) ∈ unpairedPairs Gc H pairs) : n = n' := by
  have hn : ((unpairedPairs Gc H pairs).map Prod.snd).Nodup := by
    rw [unpairedPairs_snd]; exact unpairedOlds_nodup H pairs hH
  exact (Prod.mk.inj (inj_of_nodup_map Prod.snd _ hn _ h1 _ h2 rfl)).1

theorem unpairedPairs_snd_unique {Gc H : LGraph} {pairs : List (Nat × Nat)} {n o o' : Nat}
    (h1 : (n, o) ∈ unpairedPairs Gc H pairs) (h2 : (n, o') ∈ unpairedPairs Gc H pairs) : o = o' := by
  have hn : ((unpairedPairs Gc H pairs).map Prod.fst).Nodup := by
    rw [unpairedPairs_fst]; exact List.nodup_range' 1
  exact (Prod.mk.inj (inj_of_nodup_map Prod.fst _ hn _ h1 _ h2 rfl)).2

/-- `mapping = {old: new …}` read at an `old` that the pair list sends to one `new` only. -/
theorem pairMap_of_mem (L : List (Nat × Nat)) (n o : Nat) (hm : (n, o) ∈ L)
    (hu : ∀ p ∈ L, p.2 = o → p.1 = n) : pairMap L o = n := by
  unfold pairMap
  have hs : (L.reverse.find? fun p => p.2 = o).isSome = true := by
    rw [List.find?_isSome]; exact ⟨(n, o), List.mem_reverse.2 hm, by simp⟩
  obtain ⟨q, hq⟩ := Option.isSome_iff_exists.1 hs
  rw [hq]
  exact hu q (List.mem_reverse.1 (List.mem_of_find?_eq_some hq)) (by simpa using List.find?_some hq)

/-- The pair list handed to `remap_graph` by the repaired `canonicalise`. -/
def fullPairs (Gc H : LGraph) : List (Nat × Nat) := aamPairs Gc H ++ unpairedPairs Gc H (aamPairs Gc H)

/-- The repaired pair list is a bijection between the product nodes and a set of new ids: every
second component is a product node, every product node occurs, and the list is one-to-one. -/
theorem fullPairs_spec (Gc H : LGraph) (hG : Gc.ids.Nodup) (hH : H.ids.Nodup) :
    (∀ p ∈ fullPairs Gc H, p.2 ∈ H.ids) ∧ (∀ o ∈ H.ids, ∃ n, (n, o) ∈ fullPairs Gc H) ∧
    (∀ p ∈ fullPairs Gc H, ∀ q ∈ fullPairs Gc H, p.2 = q.2 → p.1 = q.1) ∧
    (∀ p ∈ fullPairs Gc H, ∀ q ∈ fullPairs Gc H, p.1 = q.1 → p.2 = q.2) := by
  unfold fullPairs
  refine ⟨?_, ?_, ?_, ?_⟩
  · intro p hp
    rcases List.mem_append.1 hp with h | h
    · exact (aamPairs_mem_ids (g := p.1) (h := p.2) h).2
    · exact (mem_unpairedPairs (n := p.1) (o := p.2) h).2.1
  · intro o ho
    by_cases hpo : ∃ p ∈ aamPairs Gc H, p.2 = o
    · obtain ⟨p, hp, rfl⟩ := hpo
      exact ⟨p.1, List.mem_append_left _ hp⟩
    · obtain ⟨n, hn⟩ := unpairedPairs_cover (Gc := Gc) ho (fun p hp e => hpo ⟨p, hp, e⟩)
      exact ⟨n, List.mem_append_right _ hn⟩
  · intro p hp q hq e
    obtain ⟨p1, p2⟩ := p
    obtain ⟨q1, q2⟩ := q
    simp only at e
    subst e
    rcases List.mem_append.1 hp with h | h <;> rcases List.mem_append.1 hq with h' | h'
    · exact aamPairs_fst_unique hH h h'
    · exact absurd rfl ((mem_unpairedPairs h').2.2 _ h)
    · exact absurd rfl ((mem_unpairedPairs h).2.2 _ h')
    · exact unpairedPairs_fst_unique hH h h'
  · intro p hp q hq e
    obtain ⟨p1, p2⟩ := p
    obtain ⟨q1, q2⟩ := q
    simp only at e
    subst e
    rcases List.mem_append.1 hp with h | h <;> rcases List.mem_append.1 hq with h' | h'
    · exact aamPairs_snd_unique hG h h'
    · exact absurd ((mem_unpairedPairs h').1 _ (aamPairs_mem_ids h).1) (Nat.lt_irrefl _)
    · exact absurd ((mem_unpairedPairs h).1 _ (aamPairs_mem_ids h').1) (Nat.lt_irrefl _)
    · exact unpairedPairs_snd_unique h h'

theorem pairMap_fullPairs (Gc H : LGraph) (hG : Gc.ids.Nodup) (hH : H.ids.Nodup) (n o : Nat)
    (hm : (n, o) ∈ fullPairs Gc H) : pairMap (fullPairs Gc H) o = n :=
  pairMap_of_mem _ n o hm (fun p hp e => (fullPairs_spec Gc H hG hH).2.2.1 p hp (n, o) hm e)

/-- The relabelling of the repaired `canonicalise` is injective on the product nodes. -/
theorem pairMap_fullPairs_injOn (Gc H : LGraph) (hG : Gc.ids.Nodup) (hH : H.ids.Nodup) :
    ∀ a ∈ H.ids, ∀ b ∈ H.ids, pairMap (fullPairs Gc H) a = pairMap (fullPairs Gc H) b → a = b := by
  intro a ha b hb hab
  obtain ⟨_, hcov, _, hinj⟩ := fullPairs_spec Gc H hG hH
  obtain ⟨na, hna⟩ := hcov a ha
  obtain ⟨nb, hnb⟩ := hcov b hb
  rw [pairMap_fullPairs Gc H hG hH na a hna, pairMap_fullPairs Gc H hG hH nb b hnb] at hab
  exact hinj _ hna _ hnb hab

/-- `remap_graph` on the repaired pair list: never `KeyError`, never a collision; `ValueError`
exactly when the product graph has no node. -/
theorem remapGraph_fullPairs (Gc H : LGraph) (hG : Gc.ids.Nodup) (hH : H.ids.Nodup) :
    (H.nodes = [] → remapGraph H (fullPairs Gc H) = .error .emptyMap) ∧
    (H.nodes ≠ [] → remapGraph H (fullPairs Gc H) = .ok (H.relabel (pairMap (fullPairs Gc H)))) := by
  obtain ⟨hmem, hcov, _, _⟩ := fullPairs_spec Gc H hG hH
  constructor
  · intro hnil
    have : fullPairs Gc H = [] := by
      cases hL : fullPairs Gc H with
      | nil => rfl
      | cons p t =>
        have := hmem p (by rw [hL]; exact List.mem_cons_self ..)
        simp [LGraph.ids, hnil] at this
    unfold remapGraph
    rw [this]; rfl
  · intro hne
    have e1 : (fullPairs Gc H).isEmpty = false := by
      cases hn : H.nodes with
      | nil => exact absurd hn hne
      | cons a t =>
        obtain ⟨n, hn'⟩ := hcov a.1 (by simp [LGraph.ids, hn])
        cases hL : fullPairs Gc H with
        | nil => rw [hL] at hn'; cases hn'
        | cons _ _ => rfl
    have e2 : (fullPairs Gc H).any (fun p => !H.hasNode p.2) = false := by
      rw [Bool.eq_false_iff]
      intro hany
      rw [List.any_eq_true] at hany
      obtain ⟨x, hx, hx2⟩ := hany
      have := hmem x hx
      simp [LGraph.hasNode, this] at hx2
    have hnd : (H.relabel (pairMap (fullPairs Gc H))).ids.Nodup := by
      rw [ids_relabel]
      exact nodup_map_injOn _ H.ids hH (pairMap_fullPairs_injOn Gc H hG hH)
    unfold remapGraph
    rw [e1, e2]
    simp only [Bool.false_eq_true, if_false]
    rw [decide_eq_true hnd]
    rfl

theorem canonRxnWith_def (lab : Nat → Nat) (G H : LGraph) :
    canonRxnWith lab G H =
      match remapGraph H (fullPairs (G.relabel lab) H) with
      | .error e => .error e
      | .ok Hc => .ok (sync (G.relabel lab), sync Hc) := rfl

/-- With `atom_map` = node id on both sides (positive on the reactant side), the shared-map pairs
are exactly `(lab v, v)` for the nodes `v` that occur on both sides. -/
theorem mem_aamPairs_idMapped (lab : Nat → Nat) (G H : LGraph) (hG : G.ids.Nodup) (hH : H.ids.Nodup)
    (hmG : ∀ p ∈ G.nodes, atomMapOf p.2 = 2 * (p.1 : Int)) (hmH : ∀ p ∈ H.nodes, atomMapOf p.2 = 2 * (p.1 : Int))
    (hpos : ∀ v ∈ G.ids, 0 < v) (g h : Nat) :
    (g, h) ∈ aamPairs (G.relabel lab) H ↔ h ∈ G.ids ∧ h ∈ H.ids ∧ g = lab h := by
  constructor
  · intro hm
    obtain ⟨k, h1, h2⟩ := mem_aamPairs hm
    obtain ⟨a, ha, hka⟩ := aamLookup_some h1
    obtain ⟨b, hb, hkb⟩ := aamLookup_some h2
    obtain ⟨q, hq, hqe⟩ := List.mem_map.1 (show (g, a) ∈ G.nodes.map (fun p => (lab p.1, p.2)) from ha)
    simp only [Prod.mk.injEq] at hqe
    have e1 := hmG q hq
    have e2 := hmH _ hb
    simp only at e2
    rw [hqe.2, hka] at e1
    rw [hkb] at e2
    have : q.1 = h := by omega
    subst this
    exact ⟨List.mem_map_of_mem (f := (·.1)) hq, List.mem_map_of_mem (f := (·.1)) hb, hqe.1.symm⟩
  · rintro ⟨hg, hh, rfl⟩
    obtain ⟨q, hq, rfl⟩ := List.mem_map.1 hg
    unfold aamPairs
    rw [List.mem_filterMap]
    refine ⟨(lab q.1, q.2), List.mem_map_of_mem (f := fun p : Nat × Attrs => (lab p.1, p.2)) hq, ?_⟩
    simp only
    rw [hmG q hq, aamLookup_relabel lab G hG hmG q.1 hg (hpos _ hg), aamLookup_self H hH hmH q.1 hh (hpos _ hg)]

end Unpaired

/-! ## Formula tables -/
section Formula

theorem mem_insertDedup (x : String) (l : List String) (a : String) : a ∈ insertDedup x l ↔ a = x ∨ a ∈ l := by
  induction l with
  | nil => simp [insertDedup]
  | cons y ys ih =>
    simp only [insertDedup]
    split
    · simp
    · split
      · rename_i h; subst h; simp
      · simp only [List.mem_cons, ih]
        constructor
        · rintro (h | h | h)
          · exact Or.inr (Or.inl h)
          · exact Or.inl h
          · exact Or.inr (Or.inr h)
        · rintro (h | h | h)
          · exact Or.inr (Or.inl h)
          · exact Or.inl h
          · exact Or.inr (Or.inr h)

theorem mem_sortDedup (l : List String) (a : String) : a ∈ sortDedup l ↔ a ∈ l := by
  induction l with
  | nil => simp [sortDedup]
  | cons x xs ih => simp only [sortDedup, mem_insertDedup, ih, List.mem_cons]

theorem str_lt_of_not (x y : String) (h1 : ¬ x < y) (h2 : x ≠ y) : y < x := by
  by_cases h : y < x
  · exact h
  · exact absurd (String.le_antisymm (String.not_lt.1 h) (String.not_lt.1 h1)) h2

theorem insertDedup_sorted (x : String) (l : List String) (hl : l.Pairwise (· < ·)) :
    (insertDedup x l).Pairwise (· < ·) := by
  induction l with
  | nil => simp [insertDedup]
  | cons y ys ih =>
    rw [List.pairwise_cons] at hl
    simp only [insertDedup]
    split
    · rename_i hxy
      rw [List.pairwise_cons]
      refine ⟨?_, List.pairwise_cons.2 hl⟩
      intro b hb
      rcases List.mem_cons.1 hb with rfl | hb
      · exact hxy
      · exact String.lt_trans hxy (hl.1 b hb)
    · split
      · exact List.pairwise_cons.2 hl
      · rename_i h1 h2
        rw [List.pairwise_cons]
        refine ⟨?_, ih hl.2⟩
        intro b hb
        rcases (mem_insertDedup x ys b).1 hb with rfl | hb
        · exact str_lt_of_not _ _ h1 h2
        · exact hl.1 b hb

theorem sortDedup_sorted (l : List String) : (sortDedup l).Pairwise (· < ·) := by
  induction l with
  | nil => simp [sortDedup]
  | cons x xs ih => exact insertDedup_sorted x _ ih

theorem sortDedup_congr (l₁ l₂ : List String) (h : ∀ a, a ∈ l₁ ↔ a ∈ l₂) : sortDedup l₁ = sortDedup l₂ := by
  have s1 := sortDedup_sorted l₁
  have s2 := sortDedup_sorted l₂
  have n1 : (sortDedup l₁).Nodup := by
    unfold List.Nodup
    exact s1.imp (fun {a b} hab e => by subst e; exact String.lt_irrefl _ hab)
  have n2 : (sortDedup l₂).Nodup := by
    unfold List.Nodup
    exact s2.imp (fun {a b} hab e => by subst e; exact String.lt_irrefl _ hab)
  have hp : (sortDedup l₁).Perm (sortDedup l₂) := by
    rw [List.perm_ext_iff_of_nodup n1 n2]
    intro a; rw [mem_sortDedup, mem_sortDedup]; exact h a
  apply sorted_perm_eq (fun a b => decide (a < b)) _ _ hp
  · intro a _ b _ h1 h2
    simp only [decide_eq_true_eq] at h1 h2
    exact absurd h2 (String.lt_asymm h1)
  · exact s1.imp (fun h => by simpa using h)
  · exact s2.imp (fun h => by simpa using h)

theorem table_eq_iff (l₁ l₂ : List String) :
    (sortDedup l₁).map (fun e => (e, l₁.count e)) = (sortDedup l₂).map (fun e => (e, l₂.count e)) ↔
      ∀ e, l₁.count e = l₂.count e := by
  constructor
  · intro h e
    have hk : sortDedup l₁ = sortDedup l₂ := by
      have := congrArg (List.map Prod.fst) h
      simpa [List.map_map, Function.comp_def] using this
    by_cases he : e ∈ l₁
    · have hm : (e, l₁.count e) ∈ (sortDedup l₂).map (fun e => (e, l₂.count e)) := by
        rw [← h]; exact List.mem_map_of_mem (f := fun e => (e, l₁.count e)) ((mem_sortDedup l₁ e).2 he)
      obtain ⟨e', _, heq⟩ := List.mem_map.1 hm
      simp only [Prod.mk.injEq] at heq
      rw [← heq.2, heq.1]
    · have he2 : e ∉ l₂ := by
        intro hh
        have := (mem_sortDedup l₂ e).2 hh
        rw [← hk] at this
        exact he ((mem_sortDedup l₁ e).1 this)
      rw [List.count_eq_zero.2 he, List.count_eq_zero.2 he2]
  · intro h
    have hk : sortDedup l₁ = sortDedup l₂ := by
      apply sortDedup_congr
      intro a
      rw [← List.count_pos_iff, ← List.count_pos_iff, h a]
    rw [hk]
    apply List.map_congr_left
    intro e _
    rw [h e]

end Formula

/-! ## Sorting strings -/
section Strings

theorem strLe_total (a b : String) : strLe a b = true ∨ strLe b a = true := by
  unfold strLe; simp only [decide_eq_true_eq]; exact String.le_total a b

theorem strLe_trans (a b c : String) (h1 : strLe a b = true) (h2 : strLe b c = true) : strLe a c = true := by
  unfold strLe at *; simp only [decide_eq_true_eq] at *; exact String.le_trans h1 h2

theorem strLe_antisymm (a b : String) (h1 : strLe a b = true) (h2 : strLe b a = true) : a = b := by
  unfold strLe at *; simp only [decide_eq_true_eq] at *; exact String.le_antisymm h1 h2

end Strings

end SynKit.RxnNorm

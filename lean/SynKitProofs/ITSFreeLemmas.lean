import SynKitModel.ITS
import SynKitProofs.ITSLemmas
import Mathlib.Data.List.Nodup
import Mathlib.Data.List.Perm.Subperm
/-!
# Helper lemmas for the free-radius mode of `extract_k` and `find_unequal_order_edges` (C02)

* levels (exact distance from a seed set), the ball stops growing after `|V| - 1` rounds;
* the depth-first search `dfsLongest`: what it returns is a simple admissible path, and it is at least as
  long as every simple admissible path (given enough fuel); `I.nodes.length` is enough fuel;
* the outer loop `longestExt`;
* the radius picked by `extract_k(its, -1)` exceeds the distance of every atom connected to the centre
  when every bond outside the centre is traversable (`StdTotal`).
-/
namespace SynKit.ITS
open SynKit

/-! ## Levels -/

theorem exists_min (P : Nat → Prop) (h : ∃ n, P n) : ∃ n, P n ∧ ∀ k, k < n → ¬ P k := by
  obtain ⟨n, hn⟩ := h
  induction n using Nat.strongRecOn with
  | ind n ih =>
    by_cases hk : ∃ k, k < n ∧ P k
    · obtain ⟨k, hkn, hPk⟩ := hk
      exact ih k hkn hPk
    · exact ⟨n, hn, fun k hkn hPk => hk ⟨k, hkn, hPk⟩⟩

theorem DistLE.mono {I : LGraph} {s k k' n : Nat} (h : DistLE I s k n) (hk : k ≤ k') : DistLE I s k' n := by
  induction hk with
  | refl => exact h
  | step _ ih => exact ih.succ

/-- A walk can be extended at its start. -/
theorem DistLE.cons {I : LGraph} {a b k x : Nat} (hE : I.hasEdge a b = true) (h : DistLE I b k x) :
    DistLE I a (k + 1) x := by
  induction h with
  | refl k => exact DistLE.step (DistLE.refl k) hE
  | step _ hE' ih => exact DistLE.step ih hE'

/-- Within `k` bonds of the seed set `S`. -/
def Near (I : LGraph) (S : List Nat) (k n : Nat) : Prop := ∃ s ∈ S, DistLE I s k n

/-- Connected to the seed set `S`. -/
def Reach (I : LGraph) (S : List Nat) (n : Nat) : Prop := ∃ k, Near I S k n

/-- Exactly `d` bonds away from the seed set. -/
def Lvl (I : LGraph) (S : List Nat) (n d : Nat) : Prop := Near I S d n ∧ ∀ k, k < d → ¬ Near I S k n

theorem Near.mono {I : LGraph} {S : List Nat} {k k' n : Nat} (h : Near I S k n) (hk : k ≤ k') : Near I S k' n := by
  obtain ⟨s, hs, hd⟩ := h; exact ⟨s, hs, hd.mono hk⟩

theorem Near.step {I : LGraph} {S : List Nat} {k m n : Nat} (h : Near I S k m) (hE : I.hasEdge m n = true) :
    Near I S (k + 1) n := by
  obtain ⟨s, hs, hd⟩ := h; exact ⟨s, hs, DistLE.step hd hE⟩

theorem Near.mem_ids {I : LGraph} (hI : I.WF) {S : List Nat} (hS : ∀ s ∈ S, s ∈ I.ids) {k n : Nat}
    (h : Near I S k n) : n ∈ I.ids := by
  obtain ⟨s, hs, hd⟩ := h; exact hd.mem_ids hI (hS s hs)

theorem near_zero {I : LGraph} {S : List Nat} {n : Nat} : Near I S 0 n ↔ n ∈ S := by
  constructor
  · rintro ⟨s, hs, hd⟩
    cases hd
    exact hs
  · intro h; exact ⟨n, h, DistLE.refl 0⟩

theorem exists_lvl {I : LGraph} {S : List Nat} {n : Nat} (h : Reach I S n) : ∃ d, Lvl I S n d :=
  exists_min (fun k => Near I S k n) h

theorem Lvl.unique {I : LGraph} {S : List Nat} {n d d' : Nat} (h : Lvl I S n d) (h' : Lvl I S n d') : d = d' := by
  rcases Nat.lt_trichotomy d d' with hlt | heq | hgt
  · exact absurd h.1 (h'.2 d hlt)
  · exact heq
  · exact absurd h'.1 (h.2 d' hgt)

theorem Lvl.not_seed {I : LGraph} {S : List Nat} {n d : Nat} (h : Lvl I S n (d + 1)) : n ∉ S :=
  fun hn => h.2 0 (Nat.succ_pos d) (near_zero.2 hn)

/-- An atom at distance `d + 1` has a neighbour at distance `d`. -/
theorem Lvl.pred {I : LGraph} {S : List Nat} {n d : Nat} (h : Lvl I S n (d + 1)) :
    ∃ m, Lvl I S m d ∧ I.hasEdge m n = true := by
  obtain ⟨⟨s, hs, hd⟩, hmin⟩ := h
  cases hd with
  | refl => exact absurd (near_zero.2 hs) (hmin 0 (Nat.succ_pos d))
  | @step _ m _ hd hE =>
    refine ⟨m, ⟨⟨s, hs, hd⟩, ?_⟩, hE⟩
    intro k hk hnear
    exact hmin (k + 1) (Nat.succ_lt_succ hk) (hnear.step hE)

/-- On the way to an atom at distance `d` there are `d + 1` distinct atoms. -/
theorem Lvl.witnesses {I : LGraph} {S : List Nat} : ∀ (d n : Nat), Lvl I S n d →
    ∃ L : List Nat, L.length = d + 1 ∧ L.Nodup ∧ ∀ x ∈ L, ∃ j, j ≤ d ∧ Lvl I S x j := by
  intro d
  induction d with
  | zero => intro n h; exact ⟨[n], rfl, List.nodup_singleton n, fun x hx => ⟨0, Nat.le_refl 0, by
      rw [List.mem_singleton] at hx; rw [hx]; exact h⟩⟩
  | succ d ih =>
    intro n h
    obtain ⟨m, hm, _⟩ := h.pred
    obtain ⟨L, hlen, hnd, hL⟩ := ih m hm
    refine ⟨n :: L, by rw [List.length_cons, hlen], List.nodup_cons.2 ⟨?_, hnd⟩, ?_⟩
    · intro hn
      obtain ⟨j, hj, hlv⟩ := hL n hn
      have := hlv.unique h
      omega
    · intro x hx
      rcases List.mem_cons.1 hx with rfl | hx
      · exact ⟨d + 1, Nat.le_refl _, h⟩
      · obtain ⟨j, hj, hlv⟩ := hL x hx
        exact ⟨j, Nat.le_succ_of_le hj, hlv⟩

theorem nodup_subset_length {L U : List Nat} (hnd : L.Nodup) (hsub : ∀ x ∈ L, x ∈ U) : L.length ≤ U.length :=
  (hnd.subperm hsub).length_le

/-- No atom is farther than `|V| - 1` bonds from the seed set. -/
theorem Lvl.lt_card {I : LGraph} (hI : I.WF) {S : List Nat} (hS : ∀ s ∈ S, s ∈ I.ids) {n d : Nat}
    (h : Lvl I S n d) : d + 1 ≤ I.nodes.length := by
  obtain ⟨L, hlen, hnd, hL⟩ := Lvl.witnesses d n h
  have := nodup_subset_length hnd (U := I.ids) (fun x hx => by
    obtain ⟨j, _, hlv⟩ := hL x hx
    exact hlv.1.mem_ids hI hS)
  rw [hlen] at this
  simpa [LGraph.ids] using this

/-- The ball stops growing: connected to the seeds ⇒ within `|V|` (indeed `|V| - 1`) bonds. -/
theorem Reach.near_card {I : LGraph} (hI : I.WF) {S : List Nat} (hS : ∀ s ∈ S, s ∈ I.ids) {n : Nat}
    (h : Reach I S n) : Near I S I.nodes.length n := by
  obtain ⟨d, hd⟩ := exists_lvl h
  have := hd.lt_card hI hS
  exact hd.1.mono (by omega)

/-! ## Induced sub-graphs depend on the node set only -/

theorem induced_congr (I : LGraph) {X Y : List Nat} (h : ∀ n, n ∈ X ↔ n ∈ Y) : induced I X = induced I Y := by
  have hc : ∀ n, X.contains n = Y.contains n := fun n => by
    rw [Bool.eq_iff_iff, contains_iff, contains_iff]; exact h n
  unfold induced
  congr 1
  · exact List.filter_congr (fun p _ => hc p.1)
  · exact List.filter_congr (fun e _ => by rw [hc e.1, hc e.2.1])

theorem induced_nil (I : LGraph) {X : List Nat} (h : ∀ n, n ∉ X) : induced I X = {} := by
  have hc : ∀ n, X.contains n = false := fun n => by
    rw [Bool.eq_false_iff]; intro hn; exact h n ((contains_iff X n).1 hn)
  unfold induced
  congr 1
  · exact List.filter_eq_nil_iff.2 (fun p _ => by rw [hc p.1]; simp)
  · exact List.filter_eq_nil_iff.2 (fun e _ => by rw [hc e.1]; simp)

/-- A sub-graph on all atoms is the graph itself. -/
theorem induced_all {I : LGraph} (hI : I.WF) {X : List Nat} (h : ∀ n ∈ I.ids, n ∈ X) : induced I X = I := by
  unfold induced
  cases I with
  | mk nodes edges =>
    congr 1
    · apply List.filter_eq_self.2
      intro p hp
      exact (contains_iff X p.1).2 (h p.1 (List.mem_map.2 ⟨p, hp, rfl⟩))
    · apply List.filter_eq_self.2
      intro e he
      have := endpoints_mem hI he
      rw [Bool.and_eq_true]
      exact ⟨(contains_iff X e.1).2 (h _ this.1), (contains_iff X e.2.1).2 (h _ this.2)⟩

/-- A centre without atoms is the empty graph. -/
theorem getRc_eq_empty {I : LGraph} (h : (getRc {} I).ids = []) : getRc {} I = {} := by
  have hn : (getRc {} I).nodes = [] := by
    unfold LGraph.ids at h; exact List.map_eq_nil_iff.1 h
  have he : (getRc {} I).edges = [] := by
    apply List.eq_nil_iff_forall_not_mem.2
    intro e he
    have h1 : (getRc {} I).hasEdge e.1 e.2.1 = true := (hasEdge_iff _ _ _).2 ⟨e, he, Or.inl ⟨rfl, rfl⟩⟩
    have h2 : e.1 ∈ (getRc {} I).ids := (getRc_ids_iff_endpoints I e.1).2 ⟨_, h1⟩
    rw [h] at h2; exact absurd h2 List.not_mem_nil
  cases hg : getRc {} I with
  | mk nodes edges =>
    rw [hg] at hn he
    simp only at hn he
    rw [hn, he]

/-! ## Admissible paths -/

/-- `a, l₀, l₁, …` is a path along `nb`-steps. -/
def HChain (nb : Nat → List Nat) : Nat → List Nat → Prop
  | _, [] => True
  | a, b :: l => b ∈ nb a ∧ HChain nb b l

theorem HChain_append_cons (nb : Nat → List Nat) (a : Nat) (l : List Nat) (x : Nat) (T : List Nat) :
    HChain nb a (l ++ x :: T) ↔ HChain nb a (l ++ [x]) ∧ HChain nb x T := by
  induction l generalizing a with
  | nil => simp [HChain]
  | cons b l ih => simp only [List.cons_append, HChain, ih, and_assoc]

/-- A path from `x` through `T` that ends in `v` (built at its far end). -/
inductive TailTo (nb : Nat → List Nat) (x : Nat) : List Nat → Nat → Prop
  | nil : TailTo nb x [] x
  | snoc {T : List Nat} {u v : Nat} : TailTo nb x T u → v ∈ nb u → TailTo nb x (T ++ [v]) v

theorem TailTo.chain_append {nb : Nat → List Nat} {x v : Nat} {T : List Nat} (h : TailTo nb x T v) :
    ∀ T', HChain nb v T' → HChain nb x (T ++ T') := by
  induction h with
  | nil => intro T' h'; exact h'
  | snoc _ hv ih =>
    intro T' h'
    rw [List.append_assoc]
    exact ih _ ⟨hv, h'⟩

theorem TailTo.chain {nb : Nat → List Nat} {x v : Nat} {T : List Nat} (h : TailTo nb x T v) : HChain nb x T := by
  have := h.chain_append [] trivial
  rwa [List.append_nil] at this

/-! ## The depth-first search -/

/-- One neighbour of the loop in `dfs`. -/
def pick (V : List Nat) (g : Nat → List Nat) (longest : List Nat) (w : Nat) : List Nat :=
  if w ∈ V then longest else if (g w).length > longest.length then g w else longest

theorem dfsLongest_zero (nb : Nat → List Nat) (node : Nat) (vis path : List Nat) :
    dfsLongest nb 0 node vis path = path := rfl

theorem dfsLongest_succ (nb : Nat → List Nat) (fuel node : Nat) (vis path : List Nat) :
    dfsLongest nb (fuel + 1) node vis path =
      (nb node).foldl (pick (node :: vis) (fun w => dfsLongest nb fuel w (node :: vis) (path ++ [w]))) path := rfl

theorem pick_length_ge (V : List Nat) (g : Nat → List Nat) (longest : List Nat) (w : Nat) :
    longest.length ≤ (pick V g longest w).length := by
  unfold pick
  split
  · exact Nat.le_refl _
  · split
    · omega
    · exact Nat.le_refl _

theorem foldl_pick_ge_init (V : List Nat) (g : Nat → List Nat) (l : List Nat) (init : List Nat) :
    init.length ≤ (l.foldl (pick V g) init).length := by
  induction l generalizing init with
  | nil => exact Nat.le_refl _
  | cons w l ih => exact Nat.le_trans (pick_length_ge V g init w) (ih _)

theorem foldl_pick_ge_mem (V : List Nat) (g : Nat → List Nat) (l : List Nat) (init : List Nat) (w : Nat)
    (hw : w ∈ l) (hV : w ∉ V) : (g w).length ≤ (l.foldl (pick V g) init).length := by
  induction l generalizing init with
  | nil => exact absurd hw List.not_mem_nil
  | cons b l ih =>
    rw [List.foldl_cons]
    rcases List.mem_cons.1 hw with rfl | hw
    · refine Nat.le_trans ?_ (foldl_pick_ge_init V g l _)
      unfold pick
      rw [if_neg hV]
      split
      · exact Nat.le_refl _
      · omega
    · exact ih _ hw

theorem foldl_pick_cases (V : List Nat) (g : Nat → List Nat) (l : List Nat) (init : List Nat) :
    l.foldl (pick V g) init = init ∨ ∃ w ∈ l, w ∉ V ∧ l.foldl (pick V g) init = g w := by
  induction l generalizing init with
  | nil => exact Or.inl rfl
  | cons b l ih =>
    rw [List.foldl_cons]
    have hp : pick V g init b = init ∨ (b ∉ V ∧ pick V g init b = g b) := by
      unfold pick
      by_cases hb : b ∈ V
      · rw [if_pos hb]; exact Or.inl rfl
      · rw [if_neg hb]
        split
        · exact Or.inr ⟨hb, rfl⟩
        · exact Or.inl rfl
    rcases ih (pick V g init b) with h | ⟨w, hw, hV, h⟩
    · rcases hp with hp | ⟨hb, hp⟩
      · exact Or.inl (h.trans hp)
      · exact Or.inr ⟨b, List.mem_cons_self, hb, h.trans hp⟩
    · exact Or.inr ⟨w, List.mem_cons_of_mem _ hw, hV, h⟩

theorem foldl_pick_congr (V : List Nat) (g1 g2 : Nat → List Nat) (l : List Nat) (init : List Nat)
    (h : ∀ w ∈ l, ∀ longest, pick V g1 longest w = pick V g2 longest w) :
    l.foldl (pick V g1) init = l.foldl (pick V g2) init := by
  induction l generalizing init with
  | nil => rfl
  | cons w l ih =>
    rw [List.foldl_cons, List.foldl_cons, h w List.mem_cons_self]
    exact ih _ (fun x hx => h x (List.mem_cons_of_mem _ hx))

/-- What `dfs` returns: the given path, extended by a simple `nb`-path from `node` through atoms that
were not visited. -/
theorem dfsLongest_struct (nb : Nat → List Nat) : ∀ (fuel node : Nat) (vis path : List Nat),
    ∃ ext, dfsLongest nb fuel node vis path = path ++ ext ∧ HChain nb node ext ∧ (node :: ext).Nodup ∧
      ∀ y ∈ ext, y ∉ vis := by
  intro fuel
  induction fuel with
  | zero =>
    intro node vis path
    exact ⟨[], by rw [dfsLongest_zero, List.append_nil], trivial, List.nodup_singleton _, fun y hy => absurd hy List.not_mem_nil⟩
  | succ fuel ih =>
    intro node vis path
    rw [dfsLongest_succ]
    rcases foldl_pick_cases (node :: vis) (fun w => dfsLongest nb fuel w (node :: vis) (path ++ [w])) (nb node) path
      with h | ⟨w, hw, hV, h⟩
    · exact ⟨[], by rw [h, List.append_nil], trivial, List.nodup_singleton _, fun y hy => absurd hy List.not_mem_nil⟩
    · obtain ⟨ext, he, hc, hnd, hvis⟩ := ih w (node :: vis) (path ++ [w])
      refine ⟨w :: ext, ?_, ⟨hw, hc⟩, ?_, ?_⟩
      · rw [h, he, List.append_assoc]; rfl
      · refine List.nodup_cons.2 ⟨?_, hnd⟩
        intro hmem
        rcases List.mem_cons.1 hmem with rfl | hmem
        · exact hV List.mem_cons_self
        · exact hvis node hmem List.mem_cons_self
      · intro y hy
        rcases List.mem_cons.1 hy with rfl | hy
        · exact fun hv => hV (List.mem_cons_of_mem _ hv)
        · exact fun hv => hvis y hy (List.mem_cons_of_mem _ hv)

theorem dfsLongest_length_ge (nb : Nat → List Nat) (fuel node : Nat) (vis path : List Nat) :
    path.length ≤ (dfsLongest nb fuel node vis path).length := by
  obtain ⟨ext, he, _⟩ := dfsLongest_struct nb fuel node vis path
  rw [he, List.length_append]; omega

/-- `dfs` is exhaustive: its result is at least as long as every simple `nb`-path from `node` through
unvisited atoms (given fuel for the length of that path). -/
theorem dfsLongest_ge (nb : Nat → List Nat) : ∀ (fuel node : Nat) (vis path ext : List Nat),
    HChain nb node ext → (node :: ext).Nodup → (∀ y ∈ ext, y ∉ vis) → ext.length ≤ fuel →
    path.length + ext.length ≤ (dfsLongest nb fuel node vis path).length := by
  intro fuel
  induction fuel with
  | zero =>
    intro node vis path ext _ _ _ hlen
    have : ext = [] := List.eq_nil_of_length_eq_zero (Nat.le_zero.1 hlen)
    rw [this, dfsLongest_zero]; exact Nat.le_refl _
  | succ fuel ih =>
    intro node vis path ext hc hnd hvis hlen
    cases ext with
    | nil => exact dfsLongest_length_ge nb _ node vis path
    | cons w ext =>
      obtain ⟨hw, hc'⟩ := hc
      obtain ⟨hnode, hnd'⟩ := List.nodup_cons.1 hnd
      have hwV : w ∉ node :: vis := by
        intro h
        rcases List.mem_cons.1 h with rfl | h
        · exact hnode List.mem_cons_self
        · exact hvis w List.mem_cons_self h
      rw [dfsLongest_succ]
      refine Nat.le_trans ?_ (foldl_pick_ge_mem (node :: vis)
        (fun w => dfsLongest nb fuel w (node :: vis) (path ++ [w])) (nb node) path w hw hwV)
      have := ih w (node :: vis) (path ++ [w]) ext hc' hnd' (fun y hy h => by
        rcases List.mem_cons.1 h with rfl | h
        · exact hnode (List.mem_cons_of_mem _ hy)
        · exact hvis y (List.mem_cons_of_mem _ hy) h) (by simpa using hlen)
      simp only [List.length_append, List.length_cons, List.length_nil] at this ⊢
      omega

/-! ### Enough fuel -/

/-- The atoms of `U` that are not in `vis`. -/
def unvisited (U vis : List Nat) : Nat := (U.filter fun x => decide (x ∉ vis)).length

theorem unvisited_cons {U : List Nat} (hU : U.Nodup) {node : Nat} {vis : List Nat} (hn : node ∈ U) (hv : node ∉ vis) :
    unvisited U (node :: vis) + 1 = unvisited U vis := by
  unfold unvisited
  induction U with
  | nil => exact absurd hn List.not_mem_nil
  | cons a U ih =>
    obtain ⟨ha, hU'⟩ := List.nodup_cons.1 hU
    rcases List.mem_cons.1 hn with rfl | hn'
    · have h1 : (List.filter (fun x => decide (x ∉ node :: vis)) U) = List.filter (fun x => decide (x ∉ vis)) U := by
        apply List.filter_congr
        intro x hx
        have : x ≠ node := fun h => ha (h ▸ hx)
        simp [this]
      rw [List.filter_cons_of_neg (by simp), List.filter_cons_of_pos (by simpa using hv), h1, List.length_cons]
    · have hne : a ≠ node := fun h => ha (h ▸ hn')
      by_cases hav : a ∈ vis
      · rw [List.filter_cons_of_neg (by simp [hav]), List.filter_cons_of_neg (by simp [hav])]
        exact ih hU' hn'
      · rw [List.filter_cons_of_pos (by simp [hav, hne]), List.filter_cons_of_pos (by simp [hav]),
          List.length_cons, List.length_cons]
        have := ih hU' hn'
        omega

theorem unvisited_le (U vis : List Nat) : unvisited U vis ≤ U.length := List.length_filter_le _ _

/-- With one unit of fuel per atom that is still unvisited the search never runs out of fuel: more fuel
does not change the result. -/
theorem dfsLongest_fuel_stable' (nb : Nat → List Nat) (U : List Nat) (hU : U.Nodup)
    (hnb : ∀ a b, b ∈ nb a → b ∈ U) : ∀ (fuel fuel' node : Nat) (vis path : List Nat),
    node ∈ U → node ∉ vis → unvisited U vis ≤ fuel + 1 → fuel ≤ fuel' →
    dfsLongest nb fuel' node vis path = dfsLongest nb fuel node vis path := by
  intro fuel
  induction fuel with
  | zero =>
    intro fuel' node vis path hn hv hm _
    rw [dfsLongest_zero]
    cases fuel' with
    | zero => rfl
    | succ f =>
      rw [dfsLongest_succ]
      have hall : ∀ w ∈ nb node, w ∈ node :: vis := by
        intro w hw
        by_contra hcon
        have h1 := unvisited_cons hU hn hv
        have h2 := unvisited_cons hU (hnb _ _ hw) hcon
        omega
      generalize nb node = l at hall
      induction l with
      | nil => rfl
      | cons w l ihl =>
        rw [List.foldl_cons]
        have : pick (node :: vis) (fun w => dfsLongest nb f w (node :: vis) (path ++ [w])) path w = path := by
          unfold pick; rw [if_pos (hall w List.mem_cons_self)]
        rw [this]
        exact ihl (fun x hx => hall x (List.mem_cons_of_mem _ hx))
  | succ fuel ih =>
    intro fuel' node vis path hn hv hm hle
    obtain ⟨f, rfl⟩ : ∃ f, fuel' = f + 1 := ⟨fuel' - 1, by omega⟩
    rw [dfsLongest_succ, dfsLongest_succ]
    have hstep : ∀ w ∈ nb node, ∀ longest,
        pick (node :: vis) (fun w => dfsLongest nb f w (node :: vis) (path ++ [w])) longest w =
        pick (node :: vis) (fun w => dfsLongest nb fuel w (node :: vis) (path ++ [w])) longest w := by
      intro w hw longest
      unfold pick
      by_cases hwV : w ∈ node :: vis
      · rw [if_pos hwV, if_pos hwV]
      · rw [if_neg hwV, if_neg hwV]
        have h1 := unvisited_cons hU hn hv
        have heq := ih f w (node :: vis) (path ++ [w]) (hnb _ _ hw) hwV (by omega) (by omega)
        simp only [heq]
    exact foldl_pick_congr _ _ _ _ _ hstep

/-! ## The outer loop -/

/-- `x` was put into `visited_overall` by a search whose start, visited set and result are recorded in
the state. -/
def Found (nb : Nat → List Nat) (fuel : Nat) (S : List Nat) (st : List Nat × List Nat) (x : Nat) : Prop :=
  ∃ c Vt, c ∈ S ∧ c ∉ Vt ∧ (∀ y ∈ Vt, y ∈ st.2) ∧ (∀ y ∈ dfsLongest nb fuel c Vt [c], y ∈ st.2) ∧
    x ∈ dfsLongest nb fuel c Vt [c] ∧ (dfsLongest nb fuel c Vt [c]).length ≤ st.1.length

theorem Found.mono {nb : Nat → List Nat} {fuel : Nat} {S : List Nat} {st st' : List Nat × List Nat} {x : Nat}
    (h : Found nb fuel S st x) (h2 : ∀ y ∈ st.2, y ∈ st'.2) (h1 : st.1.length ≤ st'.1.length) :
    Found nb fuel S st' x := by
  obtain ⟨c, Vt, hc, hcV, hV, hQ, hx, hlen⟩ := h
  exact ⟨c, Vt, hc, hcV, fun y hy => h2 y (hV y hy), fun y hy => h2 y (hQ y hy), hx, Nat.le_trans hlen h1⟩

/-- The recorded longest extension is empty or the result of one of the searches. -/
def IsResult (nb : Nat → List Nat) (fuel : Nat) (S : List Nat) (L : List Nat) : Prop :=
  L = [] ∨ ∃ c Vt, c ∈ S ∧ c ∉ Vt ∧ L = dfsLongest nb fuel c Vt [c]

theorem mem_dfs_start (nb : Nat → List Nat) (fuel c : Nat) (vis : List Nat) : c ∈ dfsLongest nb fuel c vis [c] := by
  obtain ⟨ext, he, _⟩ := dfsLongest_struct nb fuel c vis [c]
  rw [he]; simp

theorem extStep_inv (nb : Nat → List Nat) (fuel : Nat) (S : List Nat) (st : List Nat × List Nat) (c : Nat)
    (hc : c ∈ S) (hinv : ∀ x ∈ st.2, Found nb fuel S st x) (hres : IsResult nb fuel S st.1) :
    (∀ x ∈ (extStep nb fuel st c).2, Found nb fuel S (extStep nb fuel st c) x) ∧
    IsResult nb fuel S (extStep nb fuel st c).1 ∧
    (∀ y ∈ st.2, y ∈ (extStep nb fuel st c).2) ∧ c ∈ (extStep nb fuel st c).2 ∧
    st.1.length ≤ (extStep nb fuel st c).1.length := by
  unfold extStep
  by_cases hcv : c ∈ st.2
  · rw [if_pos hcv]
    exact ⟨hinv, hres, fun y hy => hy, hcv, Nat.le_refl _⟩
  · rw [if_neg hcv]
    simp only
    have hsub : ∀ y ∈ st.2, y ∈ unionL st.2 (dfsLongest nb fuel c st.2 [c]) := fun y hy => (mem_unionL _ _ _).2 (Or.inl hy)
    have hlen : st.1.length ≤ (if (dfsLongest nb fuel c st.2 [c]).length > st.1.length then dfsLongest nb fuel c st.2 [c] else st.1).length := by
      split
      · omega
      · exact Nat.le_refl _
    have hlen' : (dfsLongest nb fuel c st.2 [c]).length ≤ (if (dfsLongest nb fuel c st.2 [c]).length > st.1.length then dfsLongest nb fuel c st.2 [c] else st.1).length := by
      split
      · exact Nat.le_refl _
      · omega
    refine ⟨?_, ?_, hsub, (mem_unionL _ _ _).2 (Or.inr (mem_dfs_start nb fuel c st.2)), hlen⟩
    · intro x hx
      rcases (mem_unionL _ _ _).1 hx with hx | hx
      · exact (hinv x hx).mono hsub hlen
      · exact ⟨c, st.2, hc, hcv, hsub, fun y hy => (mem_unionL _ _ _).2 (Or.inr hy), hx, hlen'⟩
    · split
      · exact Or.inr ⟨c, st.2, hc, hcv, rfl⟩
      · exact hres

theorem foldl_extStep_inv (nb : Nat → List Nat) (fuel : Nat) (S : List Nat) : ∀ (l : List Nat) (st : List Nat × List Nat),
    (∀ c ∈ l, c ∈ S) → (∀ x ∈ st.2, Found nb fuel S st x) → IsResult nb fuel S st.1 →
    (∀ x ∈ (l.foldl (extStep nb fuel) st).2, Found nb fuel S (l.foldl (extStep nb fuel) st) x) ∧
    IsResult nb fuel S (l.foldl (extStep nb fuel) st).1 ∧
    (∀ y ∈ st.2, y ∈ (l.foldl (extStep nb fuel) st).2) ∧ (∀ c ∈ l, c ∈ (l.foldl (extStep nb fuel) st).2) ∧
    st.1.length ≤ (l.foldl (extStep nb fuel) st).1.length := by
  intro l
  induction l with
  | nil => intro st _ hinv hres; exact ⟨hinv, hres, fun y hy => hy, fun c hc => absurd hc List.not_mem_nil, Nat.le_refl _⟩
  | cons c l ih =>
    intro st hl hinv hres
    obtain ⟨h1, h2, h3, h4, h5⟩ := extStep_inv nb fuel S st c (hl c List.mem_cons_self) hinv hres
    obtain ⟨k1, k2, k3, k4, k5⟩ := ih (extStep nb fuel st c) (fun x hx => hl x (List.mem_cons_of_mem _ hx)) h1 h2
    rw [List.foldl_cons]
    refine ⟨k1, k2, fun y hy => k3 y (h3 y hy), ?_, Nat.le_trans h5 k5⟩
    intro x hx
    rcases List.mem_cons.1 hx with rfl | hx
    · exact k3 _ h4
    · exact k4 x hx

/-- The final state of `longest_radius_extension`: every start atom is visited, every visited atom lies
on a recorded search result, the returned path is one of them (or empty). -/
theorem longestExt_inv (nb : Nat → List Nat) (fuel : Nat) (S : List Nat) :
    (∀ x ∈ (longestExt nb fuel S).2, Found nb fuel S (longestExt nb fuel S) x) ∧
    IsResult nb fuel S (longestExt nb fuel S).1 ∧ (∀ c ∈ S, c ∈ (longestExt nb fuel S).2) := by
  obtain ⟨h1, h2, _, h4, _⟩ := foldl_extStep_inv nb fuel S S ([], []) (fun c hc => hc)
    (fun x hx => absurd hx List.not_mem_nil) (Or.inl rfl)
  exact ⟨h1, h2, h4⟩

theorem longestExt_nil (nb : Nat → List Nat) (fuel : Nat) : (longestExt nb fuel []).1 = [] := rfl

theorem longestExt_pos (nb : Nat → List Nat) (fuel : Nat) (S : List Nat) (hS : S ≠ []) :
    1 ≤ (longestExt nb fuel S).1.length := by
  cases S with
  | nil => exact absurd rfl hS
  | cons c l =>
    unfold longestExt
    rw [List.foldl_cons]
    obtain ⟨_, _, _, _, h5⟩ := foldl_extStep_inv nb fuel (c :: l) l (extStep nb fuel ([], []) c)
      (fun x hx => List.mem_cons_of_mem _ hx)
      (extStep_inv nb fuel (c :: l) ([], []) c List.mem_cons_self (fun x hx => absurd hx List.not_mem_nil) (Or.inl rfl)).1
      (extStep_inv nb fuel (c :: l) ([], []) c List.mem_cons_self (fun x hx => absurd hx List.not_mem_nil) (Or.inl rfl)).2.1
    refine Nat.le_trans ?_ h5
    unfold extStep
    rw [if_neg List.not_mem_nil]
    simp only
    have := dfsLongest_length_ge nb fuel c [] [c]
    simp only [List.length_cons, List.length_nil] at this ⊢
    split
    · omega
    · omega

/-! ## The radius picked by `extract_k(its, -1)` -/

/-- Every bond's `standard_order` is a non-zero number (a changed bond) or `== 0` (a bond the search may
cross); excluded: a bond without / with a non-numeric `standard_order`. -/
def StdTotal (I : LGraph) : Prop :=
  ∀ e ∈ I.edges, stdNonzero (e.2.2.get "standard_order") = true ∨ stdIsZero e.2.2 = true

instance (I : LGraph) : Decidable (StdTotal I) := by unfold StdTotal; infer_instance

theorem stdTotal_of_num {a : Attrs} {h : Int} (ha : a.get "standard_order" = .num h) :
    stdNonzero (a.get "standard_order") = true ∨ stdIsZero a = true := by
  unfold Attrs.get Dict.getD at ha
  unfold stdIsZero
  cases hg : Dict.get? a "standard_order" with
  | none => rw [hg] at ha; simp at ha
  | some v =>
    rw [hg] at ha
    simp only [Option.getD_some] at ha
    subst ha
    unfold Attrs.get Dict.getD
    rw [hg]
    simp only [Option.getD_some, stdNonzero]
    by_cases h0 : h = 0 <;> simp [h0]

theorem StdTotal_of_WFits {I : LGraph} (hI : WFits I) : StdTotal I := by
  intro e he
  obtain ⟨a, b, _, hs⟩ := hI.2.2 e he
  exact stdTotal_of_num hs

theorem mem_freeSteps (I : LGraph) (adj : Nat → List Nat) (v w : Nat) :
    w ∈ freeSteps I adj v ↔ w ∈ adj v ∧ ∃ a, I.edge? v w = some a ∧ stdIsZero a = true := by
  unfold freeSteps
  rw [List.mem_filter]
  constructor
  · rintro ⟨h1, h2⟩
    refine ⟨h1, ?_⟩
    cases he : I.edge? v w with
    | none => simp [he] at h2
    | some a => simp only [he] at h2; exact ⟨a, rfl, h2⟩
  · rintro ⟨h1, a, ha, hz⟩
    exact ⟨h1, by simp only [ha]; exact hz⟩

theorem freeSteps_hasEdge {I : LGraph} {adj : Nat → List Nat} {v w : Nat} (h : w ∈ freeSteps I adj v) :
    I.hasEdge v w = true := by
  obtain ⟨_, a, ha, _⟩ := (mem_freeSteps I adj v w).1 h
  exact edge?_hasEdge ha

theorem hasEdge_mem_ids {I : LGraph} (hI : I.WF) {a b : Nat} (h : I.hasEdge a b = true) : a ∈ I.ids ∧ b ∈ I.ids := by
  obtain ⟨e, he, hadj⟩ := (hasEdge_iff _ _ _).1 h
  have := endpoints_mem hI he
  rcases hadj with ⟨h1, h2⟩ | ⟨h1, h2⟩
  · rw [← h1, ← h2]; exact this
  · rw [← h1, ← h2]; exact ⟨this.2, this.1⟩

/-- A bond to an atom outside the centre can be crossed by the search. -/
theorem freeSteps_of_edge {I : LGraph} (hI : I.WF) (hz : StdTotal I) {adj : Nat → List Nat}
    (hadj : ∀ u v, I.hasEdge u v = true → v ∈ adj u) {m n : Nat} (hE : I.hasEdge m n = true)
    (hn : n ∉ (getRc {} I).ids) : n ∈ freeSteps I adj m := by
  obtain ⟨e, he, had⟩ := (hasEdge_iff _ _ _).1 hE
  refine (mem_freeSteps I adj m n).2 ⟨hadj m n hE, e.2.2, edge?_of_mem hI he had, ?_⟩
  rcases hz e he with h | h
  · exfalso
    apply hn
    rw [getRc_ids {} rfl]
    refine ⟨e, he, Or.inl (by rw [includeEdge_default]; exact h), ?_⟩
    rcases had with ⟨_, h2⟩ | ⟨h1, _⟩
    · exact Or.inr h2.symm
    · exact Or.inl h1.symm
  · exact h

theorem chain_ids {I : LGraph} (hI : I.WF) {adj : Nat → List Nat} : ∀ (l : List Nat) (a : Nat),
    HChain (freeSteps I adj) a l → ∀ y ∈ l, y ∈ I.ids := by
  intro l
  induction l with
  | nil => intro a _ y hy; exact absurd hy List.not_mem_nil
  | cons b l ih =>
    intro a h y hy
    rcases List.mem_cons.1 hy with rfl | hy
    · exact (hasEdge_mem_ids hI (freeSteps_hasEdge h.1)).2
    · exact ih b h.2 y hy

theorem chain_dist {I : LGraph} {adj : Nat → List Nat} : ∀ (l : List Nat) (a x : Nat),
    HChain (freeSteps I adj) a (l ++ [x]) → DistLE I a (l.length + 1) x := by
  intro l
  induction l with
  | nil => intro a x h; exact DistLE.step (DistLE.refl 0) (freeSteps_hasEdge h.1)
  | cons b l ih =>
    intro a x h
    exact DistLE.cons (freeSteps_hasEdge h.1) (ih b x h.2)

/-- From an atom at distance `d` walk back towards the centre until the first atom of `Vf`: the rest
of the way is a simple path of traversable bonds through atoms outside `Vf`, with increasing levels. -/
theorem tail_exists {I : LGraph} (hI : I.WF) (hz : StdTotal I) {adj : Nat → List Nat}
    (hadj : ∀ u v, I.hasEdge u v = true → v ∈ adj u) (Vf : List Nat)
    (hVf : ∀ c ∈ (getRc {} I).ids, c ∈ Vf) : ∀ (d v : Nat), Lvl I (getRc {} I).ids v d →
    ∃ x T j, x ∈ Vf ∧ Lvl I (getRc {} I).ids x j ∧ j + T.length = d ∧ TailTo (freeSteps I adj) x T v ∧
      T.Nodup ∧ (∀ y ∈ T, y ∉ Vf) ∧ (∀ y ∈ T, ∃ i, i ≤ d ∧ Lvl I (getRc {} I).ids y i) := by
  intro d
  induction d with
  | zero =>
    intro v hv
    exact ⟨v, [], 0, hVf v (near_zero.1 hv.1), hv, rfl, TailTo.nil, List.nodup_nil,
      fun y hy => absurd hy List.not_mem_nil, fun y hy => absurd hy List.not_mem_nil⟩
  | succ d ih =>
    intro v hv
    by_cases hvf : v ∈ Vf
    · exact ⟨v, [], d + 1, hvf, hv, rfl, TailTo.nil, List.nodup_nil,
        fun y hy => absurd hy List.not_mem_nil, fun y hy => absurd hy List.not_mem_nil⟩
    · obtain ⟨u, hu, hE⟩ := hv.pred
      obtain ⟨x, T, j, hx, hxj, hlen, htail, hnd, hout, hlv⟩ := ih u hu
      have hstep : v ∈ freeSteps I adj u := freeSteps_of_edge hI hz hadj hE hv.not_seed
      refine ⟨x, T ++ [v], j, hx, hxj, by rw [List.length_append]; simp; omega, TailTo.snoc htail hstep, ?_, ?_, ?_⟩
      · refine List.nodup_append.2 ⟨hnd, List.nodup_singleton v, ?_⟩
        intro a ha b hb
        rw [List.mem_singleton] at hb
        subst hb
        intro hab
        subst hab
        obtain ⟨i, hi, hl⟩ := hlv a ha
        have := hl.unique hv
        omega
      · intro y hy
        rcases List.mem_append.1 hy with hy | hy
        · exact hout y hy
        · rw [List.mem_singleton] at hy; rw [hy]; exact hvf
      · intro y hy
        rcases List.mem_append.1 hy with hy | hy
        · obtain ⟨i, hi, hl⟩ := hlv y hy; exact ⟨i, Nat.le_succ_of_le hi, hl⟩
        · rw [List.mem_singleton] at hy; rw [hy]; exact ⟨d + 1, Nat.le_refl _, hv⟩

/-- A visited atom at distance `j` with a tail of `t` unvisited atoms forces a recorded search result of
at least `j + t + 1` atoms. -/
theorem key_bound {I : LGraph} (hI : I.WF) (adj : Nat → List Nat) {x v j : Nat} {T : List Nat}
    (hx : x ∈ (longestExt (freeSteps I adj) I.nodes.length (getRc {} I).ids).2)
    (hxj : Lvl I (getRc {} I).ids x j) (htail : TailTo (freeSteps I adj) x T v) (hnd : T.Nodup)
    (hout : ∀ y ∈ T, y ∉ (longestExt (freeSteps I adj) I.nodes.length (getRc {} I).ids).2) :
    j + T.length + 1 ≤ (longestExt (freeSteps I adj) I.nodes.length (getRc {} I).ids).1.length := by
  obtain ⟨hinv, _, _⟩ := longestExt_inv (freeSteps I adj) I.nodes.length (getRc {} I).ids
  obtain ⟨c, Vt, hc, hcV, hV, hQ, hxQ, hlen⟩ := hinv x hx
  obtain ⟨ext, he, hch, hndQ, hvis⟩ := dfsLongest_struct (freeSteps I adj) I.nodes.length c Vt [c]
  have hcI : c ∈ I.ids := getRc_ids_sub hI {} rfl c hc
  rw [he] at hQ hxQ
  refine Nat.le_trans ?_ hlen
  have hbound : ∀ ext' : List Nat, HChain (freeSteps I adj) c ext' → (c :: ext').Nodup →
      (∀ y ∈ ext', y ∉ Vt) → 1 + ext'.length ≤ (dfsLongest (freeSteps I adj) I.nodes.length c Vt [c]).length := by
    intro ext' h1 h2 h3
    have hsub : ∀ y ∈ c :: ext', y ∈ I.ids := by
      intro y hy
      rcases List.mem_cons.1 hy with rfl | hy
      · exact hcI
      · exact chain_ids hI ext' _ h1 y hy
    have hl := nodup_subset_length h2 hsub
    have := dfsLongest_ge (freeSteps I adj) I.nodes.length c Vt [c] ext' h1 h2 h3 (by
      simp only [List.length_cons, LGraph.ids, List.length_map] at hl; omega)
    simpa using this
  rcases List.mem_cons.1 (by simpa using hxQ : x ∈ c :: ext) with hxc | hxe
  · subst hxc
    have hj : j = 0 := by
      by_contra h0
      exact hxj.2 0 (Nat.pos_of_ne_zero h0) (near_zero.2 hc)
    have := hbound T htail.chain (List.nodup_cons.2 ⟨fun hm => hout x hm hx, hnd⟩)
      (fun y hy hyV => hout y hy (hV y hyV))
    omega
  · obtain ⟨l1, l2, rfl⟩ := List.append_of_mem hxe
    have hch' := (HChain_append_cons _ c l1 x l2).1 hch
    have hj : j ≤ l1.length + 1 := by
      by_contra hlt
      exact hxj.2 (l1.length + 1) (by omega) ⟨c, hc, chain_dist l1 c x hch'.1⟩
    have hpre : (c :: (l1 ++ [x])).Nodup := by
      refine hndQ.sublist ?_
      exact List.Sublist.cons_cons c (List.Sublist.append_left (List.Sublist.cons_cons x (List.nil_sublist l2)) l1)
    have hpreQ : ∀ y ∈ c :: (l1 ++ [x]), y ∈ (longestExt (freeSteps I adj) I.nodes.length (getRc {} I).ids).2 := by
      intro y hy
      apply hQ
      rcases List.mem_cons.1 hy with rfl | hy
      · simp
      · rcases List.mem_append.1 hy with hy | hy
        · simp [hy]
        · rw [List.mem_singleton] at hy; simp [hy]
    have hnd' : (c :: (l1 ++ x :: T)).Nodup := by
      have : c :: (l1 ++ x :: T) = (c :: (l1 ++ [x])) ++ T := by simp
      rw [this]
      refine List.nodup_append.2 ⟨hpre, hnd, ?_⟩
      intro a ha b hb hab
      subst hab
      exact hout a hb (hpreQ a ha)
    have := hbound (l1 ++ x :: T) ((HChain_append_cons _ c l1 x T).2 ⟨hch'.1, htail.chain⟩) hnd' (by
      intro y hy hyV
      rcases List.mem_append.1 hy with hy | hy
      · exact hvis y (List.mem_append_left _ hy) hyV
      · rcases List.mem_cons.1 hy with rfl | hy
        · exact hvis y (List.mem_append_right _ List.mem_cons_self) hyV
        · exact hout y hy (hV y hyV))
    simp only [List.length_append, List.length_cons] at this
    omega

/-- The radius of the free mode exceeds the distance of every atom connected to the centre. -/
theorem freeRadius_gt_lvl {I : LGraph} (hI : I.WF) (hz : StdTotal I) {adj : Nat → List Nat}
    (hadj : ∀ u v, I.hasEdge u v = true → v ∈ adj u) {v d : Nat} (hv : Lvl I (getRc {} I).ids v d) :
    d + 1 ≤ freeRadiusAdj adj I := by
  obtain ⟨_, _, hall⟩ := longestExt_inv (freeSteps I adj) I.nodes.length (getRc {} I).ids
  obtain ⟨x, T, j, hx, hxj, hlen, htail, hnd, hout, _⟩ := tail_exists hI hz hadj _ hall d v hv
  have := key_bound hI adj hx hxj htail hnd hout
  unfold freeRadiusAdj
  omega

/-- The free radius is at most the number of atoms (any graph, any adjacency order). -/
theorem freeRadius_le {I : LGraph} (hI : I.WF) (adj : Nat → List Nat) : freeRadiusAdj adj I ≤ I.nodes.length := by
  obtain ⟨_, hres, _⟩ := longestExt_inv (freeSteps I adj) I.nodes.length (getRc {} I).ids
  unfold freeRadiusAdj
  rcases hres with h | ⟨c, Vt, hc, _, h⟩
  · rw [h]; exact Nat.zero_le _
  · rw [h]
    obtain ⟨ext, he, hch, hnd, _⟩ := dfsLongest_struct (freeSteps I adj) I.nodes.length c Vt [c]
    rw [he]
    have hsub : ∀ y ∈ c :: ext, y ∈ I.ids := by
      intro y hy
      rcases List.mem_cons.1 hy with rfl | hy
      · exact getRc_ids_sub hI {} rfl _ hc
      · exact chain_ids hI ext _ hch y hy
    have := nodup_subset_length hnd hsub
    simpa [LGraph.ids] using this

theorem freeRadius_pos (adj : Nat → List Nat) (I : LGraph) (h : (getRc {} I).ids ≠ []) : 1 ≤ freeRadiusAdj adj I :=
  longestExt_pos _ _ _ h

theorem freeRadius_zero (adj : Nat → List Nat) (I : LGraph) (h : (getRc {} I).ids = []) : freeRadiusAdj adj I = 0 := by
  unfold freeRadiusAdj; rw [h, longestExt_nil]; rfl

/-- The fuel of the model is enough: the searches of `longest_radius_extension` return the same with any
larger recursion bound. -/
theorem dfsLongest_fuel_stable {I : LGraph} (hI : I.WF) (adj : Nat → List Nat) (c : Nat) (vis : List Nat)
    (hc : c ∈ I.ids) (hv : c ∉ vis) (k : Nat) :
    dfsLongest (freeSteps I adj) (I.nodes.length + k) c vis [c] =
      dfsLongest (freeSteps I adj) I.nodes.length c vis [c] := by
  apply dfsLongest_fuel_stable' (freeSteps I adj) I.ids hI.1
    (fun a b hb => (hasEdge_mem_ids hI (freeSteps_hasEdge hb)).2) _ _ c vis [c] hc hv
  · have := unvisited_le I.ids vis
    simp only [LGraph.ids, List.length_map] at this ⊢
    omega
  · omega

/-! ## The contexts of large radius -/

theorem extractK_succ (I : LGraph) (k : Nat) :
    extractK I (k + 1) = induced I (expand I (getRc {} I).ids (k + 1)) := rfl

theorem mem_expand_card_iff {I : LGraph} (hI : I.WF) (n : Nat) :
    n ∈ expand I (getRc {} I).ids I.nodes.length ↔ Reach I (getRc {} I).ids n := by
  rw [mem_expand_iff]
  exact ⟨fun h => ⟨_, h⟩, fun h => h.near_card hI (getRc_ids_sub hI {} rfl)⟩

theorem mem_expand_ge_card_iff {I : LGraph} (hI : I.WF) {k : Nat} (hk : I.nodes.length ≤ k) (n : Nat) :
    n ∈ expand I (getRc {} I).ids k ↔ Reach I (getRc {} I).ids n := by
  rw [mem_expand_iff]
  exact ⟨fun h => ⟨_, h⟩, fun h => (h.near_card hI (getRc_ids_sub hI {} rfl)).mono hk⟩

theorem mem_expand_free_iff {I : LGraph} (hI : I.WF) (hz : StdTotal I) {adj : Nat → List Nat}
    (hadj : ∀ u v, I.hasEdge u v = true → v ∈ adj u) (n : Nat) :
    n ∈ expand I (getRc {} I).ids (freeRadiusAdj adj I) ↔ Reach I (getRc {} I).ids n := by
  rw [mem_expand_iff]
  constructor
  · exact fun h => ⟨_, h⟩
  · intro h
    obtain ⟨d, hd⟩ := exists_lvl h
    have := freeRadius_gt_lvl hI hz hadj hd
    exact hd.1.mono (by omega)

theorem not_reach_of_nil {I : LGraph} {n : Nat} : ¬ Reach I [] n := by
  rintro ⟨k, s, hs, _⟩; exact absurd hs List.not_mem_nil

/-- With an empty centre every context is the empty graph. -/
theorem extractK_of_nil {I : LGraph} (h : (getRc {} I).ids = []) (k : Nat) : extractK I k = {} := by
  cases k with
  | zero => exact getRc_eq_empty h
  | succ k =>
    rw [extractK_succ]
    apply induced_nil
    intro n hn
    rw [mem_expand_iff, h] at hn
    exact not_reach_of_nil ⟨_, hn⟩

theorem extractFreeAdj_of_nil {I : LGraph} (adj : Nat → List Nat) (h : (getRc {} I).ids = []) :
    extractFreeAdj adj I = {} := by
  unfold extractFreeAdj
  apply induced_nil
  intro n hn
  rw [mem_expand_iff, h] at hn
  exact not_reach_of_nil ⟨_, hn⟩

theorem ids_ne_nil_card {I : LGraph} (hI : I.WF) (h : (getRc {} I).ids ≠ []) : 1 ≤ I.nodes.length := by
  cases hS : (getRc {} I).ids with
  | nil => exact absurd hS h
  | cons c l =>
    have : c ∈ I.ids := getRc_ids_sub hI {} rfl c (by rw [hS]; exact List.mem_cons_self)
    unfold LGraph.ids at this
    cases hn : I.nodes with
    | nil => rw [hn] at this; simp at this
    | cons _ _ => simp

theorem extractK_eq_of_ge {I : LGraph} (hI : I.WF) {k : Nat} (hk : I.nodes.length ≤ k) :
    extractK I k = extractK I I.nodes.length := by
  by_cases hS : (getRc {} I).ids = []
  · rw [extractK_of_nil hS, extractK_of_nil hS]
  · have hN := ids_ne_nil_card hI hS
    obtain ⟨m, hm⟩ : ∃ m, I.nodes.length = m + 1 := ⟨I.nodes.length - 1, by omega⟩
    obtain ⟨k', rfl⟩ : ∃ k', k = k' + 1 := ⟨k - 1, by omega⟩
    have h2 := mem_expand_card_iff hI
    rw [hm] at h2 ⊢
    rw [extractK_succ, extractK_succ]
    exact induced_congr I (fun n => ((mem_expand_ge_card_iff hI hk n).trans (h2 n).symm))

theorem mem_extractK_card_iff {I : LGraph} (hI : I.WF) (n : Nat) :
    n ∈ (extractK I I.nodes.length).ids ↔ Reach I (getRc {} I).ids n := by
  by_cases hS : (getRc {} I).ids = []
  · rw [extractK_of_nil hS]
    constructor
    · intro h; simp [LGraph.ids] at h
    · intro h; rw [hS] at h; exact absurd h not_reach_of_nil
  · have hN := ids_ne_nil_card hI hS
    obtain ⟨m, hm⟩ : ∃ m, I.nodes.length = m + 1 := ⟨I.nodes.length - 1, by omega⟩
    have h2 := mem_expand_card_iff hI n
    rw [hm] at h2 ⊢
    rw [extractK_succ, mem_ids_induced, h2]
    constructor
    · exact fun h => h.2
    · intro h
      obtain ⟨k, hk⟩ := h
      exact ⟨hk.mem_ids hI (getRc_ids_sub hI {} rfl), ⟨k, hk⟩⟩

theorem extractFreeAdj_eq_extractK (adj : Nat → List Nat) (I : LGraph) :
    extractFreeAdj adj I = extractK I (freeRadiusAdj adj I) := by
  by_cases hS : (getRc {} I).ids = []
  · rw [extractFreeAdj_of_nil adj hS, extractK_of_nil hS]
  · have := freeRadius_pos adj I hS
    obtain ⟨r, hr⟩ : ∃ r, freeRadiusAdj adj I = r + 1 := ⟨freeRadiusAdj adj I - 1, by omega⟩
    unfold extractFreeAdj
    rw [hr, extractK_succ]

theorem extractFreeAdj_eq_card {I : LGraph} (hI : I.WF) (hz : StdTotal I) {adj : Nat → List Nat}
    (hadj : ∀ u v, I.hasEdge u v = true → v ∈ adj u) : extractFreeAdj adj I = extractK I I.nodes.length := by
  by_cases hS : (getRc {} I).ids = []
  · rw [extractFreeAdj_of_nil adj hS, extractK_of_nil hS]
  · have hN := ids_ne_nil_card hI hS
    obtain ⟨m, hm⟩ : ∃ m, I.nodes.length = m + 1 := ⟨I.nodes.length - 1, by omega⟩
    have h2 := mem_expand_card_iff hI
    rw [hm] at h2 ⊢
    rw [extractK_succ]
    unfold extractFreeAdj
    exact induced_congr I (fun n => ((mem_expand_free_iff hI hz hadj n).trans (h2 n).symm))

theorem neighbors_complete (I : LGraph) : ∀ u v, I.hasEdge u v = true → v ∈ I.neighbors u :=
  fun u v h => (mem_neighbors_iff I u v).2 h

/-- When every atom is a centre atom the free-radius context is the whole graph. -/
theorem extractFreeAdj_whole {I : LGraph} (hI : I.WF) (adj : Nat → List Nat)
    (hall : ∀ n ∈ I.ids, n ∈ (getRc {} I).ids) : extractFreeAdj adj I = I := by
  unfold extractFreeAdj
  apply induced_all hI
  intro n hn
  exact (mem_expand_iff I _ _ n).2 ⟨n, hall n hn, DistLE.refl _⟩

/-! ## `find_unequal_order_edges` -/

theorem mem_unequalOrderEdges_iff (I : LGraph) (n : Nat) :
    n ∈ unequalOrderEdges I ↔ ∃ e ∈ I.edges, unequalEdge e.2.2 = true ∧ (n = e.1 ∨ n = e.2.1) := by
  unfold unequalOrderEdges
  rw [foldl_or_iff _ (fun acc => n ∈ acc) (fun e => unequalEdge e.2.2 = true ∧ (n = e.1 ∨ n = e.2.1))]
  · simp
  · intro acc e
    by_cases h : unequalEdge e.2.2 = true
    · simp only [h, if_true, mem_unionL, List.mem_cons, List.not_mem_nil, or_false, true_and]
    · simp [h]

theorem get?_of_get {a : Attrs} {k : String} {v : Val} (h : a.get k = v) (hv : v ≠ .none) :
    Dict.get? a k = some v := by
  unfold Attrs.get Dict.getD at h
  cases hg : Dict.get? a k with
  | none => rw [hg] at h; exact absurd h.symm hv
  | some w => rw [hg] at h; simp only [Option.getD_some] at h; rw [h]

/-- On a bond of a well-formed ITS the test of `find_unequal_order_edges` is "the two orders differ". -/
theorem unequalEdge_iff_changed {a : Attrs} {x y : Int} (ho : a.get "order" = .tup [.num x, .num y])
    (hs : a.get "standard_order" = .num (x - y)) : unequalEdge a = true ↔ changed a := by
  have h1 := get?_of_get ho (by simp)
  have h2 := get?_of_get hs (by simp)
  unfold unequalEdge stdIsZero changed
  rw [h1, h2, ho]
  simp only [Option.getD_some, pyEq, idx, List.getD_cons_zero, List.getD_cons_succ, Bool.and_eq_true,
    Bool.not_eq_true', decide_eq_false_iff_not, beq_eq_false_iff_ne, ne_eq, Val.num.injEq]
  omega

theorem unequalOrderEdges_iff_changed {I : LGraph} (hI : WFits I) (n : Nat) :
    n ∈ unequalOrderEdges I ↔ ∃ v a, I.edge? n v = some a ∧ changed a := by
  rw [mem_unequalOrderEdges_iff]
  constructor
  · rintro ⟨e, he, hu, hn⟩
    obtain ⟨x, y, ho, hs⟩ := hI.2.2 e he
    have hc := (unequalEdge_iff_changed ho hs).1 hu
    rcases hn with rfl | rfl
    · exact ⟨e.2.1, e.2.2, edge?_of_mem hI.1 he (Or.inl ⟨rfl, rfl⟩), hc⟩
    · exact ⟨e.1, e.2.2, edge?_of_mem hI.1 he (Or.inr ⟨rfl, rfl⟩), hc⟩
  · rintro ⟨v, a, ha, hc⟩
    obtain ⟨e, he, hadj, rfl⟩ := edge?_some_mem ha
    obtain ⟨x, y, ho, hs⟩ := hI.2.2 e he
    refine ⟨e, he, (unequalEdge_iff_changed ho hs).2 hc, ?_⟩
    rcases hadj with ⟨h1, _⟩ | ⟨_, h2⟩
    · exact Or.inl h1.symm
    · exact Or.inr h2.symm

/-- The centre atoms are the atoms `find_unequal_order_edges` lists plus the hydrogens of H–H bonds. -/
theorem getRc_ids_iff_unequal {I : LGraph} (hI : WFits I) (n : Nat) :
    n ∈ (getRc {} I).ids ↔ n ∈ unequalOrderEdges I ∨ ∃ v, I.hasEdge n v = true ∧ isHH I n v = true := by
  rw [getRc_ids {} rfl, mem_unequalOrderEdges_iff]
  constructor
  · rintro ⟨e, he, hs | hs, hn⟩
    · obtain ⟨x, y, ho, hst⟩ := hI.2.2 e he
      rw [includeEdge_default] at hs
      exact Or.inl ⟨e, he, (unequalEdge_iff_changed ho hst).2 ((stdNonzero_iff_changed ho hst).1 hs), hn⟩
    · right
      rcases hn with rfl | rfl
      · exact ⟨e.2.1, (hasEdge_iff _ _ _).2 ⟨e, he, Or.inl ⟨rfl, rfl⟩⟩, hs⟩
      · exact ⟨e.1, (hasEdge_iff _ _ _).2 ⟨e, he, Or.inr ⟨rfl, rfl⟩⟩, by rw [isHH_comm]; exact hs⟩
  · rintro (⟨e, he, hu, hn⟩ | ⟨v, hE, hh⟩)
    · obtain ⟨x, y, ho, hst⟩ := hI.2.2 e he
      refine ⟨e, he, Or.inl ?_, hn⟩
      rw [includeEdge_default]
      exact (stdNonzero_iff_changed ho hst).2 ((unequalEdge_iff_changed ho hst).1 hu)
    · obtain ⟨e, he, hadj⟩ := (hasEdge_iff _ _ _).1 hE
      refine ⟨e, he, Or.inr (by rw [isHH_of_adj hadj]; exact hh), ?_⟩
      rcases hadj with ⟨h1, _⟩ | ⟨_, h2⟩
      · exact Or.inl h1.symm
      · exact Or.inr h2.symm

end SynKit.ITS

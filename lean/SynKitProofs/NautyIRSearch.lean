import SynKitModel.NautyIR
import SynKitProofs.CanonOrder
/-!
# The individualisation–refinement search: pruning is sound, the search is a fold over leaves

* `irBitLt`, `IRLabel.lt` are strict total orders; `irPartialGt` is a lower-bound test for
  `IRLabel.lt` (`IRPruneSound`).
* Without pruning, `irSearch` is the left fold of the leaf case over `irLeaves`.
* The node segment of a prefix is a prefix of the node segment of every leaf label below it, so
  a pruned branch never contains a leaf that could replace `best`; hence pruning never changes
  the result, for every strict total `lt` and every sound `pgt`.
* The fold from `none` returns the first leaf with the least label (`minBy`).
-/
namespace SynKit.Canon
open SynKit

/-- the pruning test is a lower-bound test w.r.t. the label order -/
def IRPruneSound (lt : IRLabel → IRLabel → Bool) (pgt : List (List Val) → IRLabel → Bool) : Prop :=
  ∀ (seg : List (List Val)) (L best : IRLabel), seg <+: L.nodes → pgt seg best = true → lt best L = true

/-! ## The concrete order -/

theorem irBitLt_strictTotal : StrictTotal irBitLt where
  irrefl a := by
    cases a with
    | none => rfl
    | some x => simp only [irBitLt]; exact Val.ltList_strictTotal.irrefl x
  trans a b c := by
    cases a with
    | none =>
      cases b with
      | none => intro h; exact absurd h (by simp [irBitLt])
      | some y =>
        cases c with
        | none => intro _ h; exact absurd h (by simp [irBitLt])
        | some z => intro _ _; rfl
    | some x =>
      cases b with
      | none => intro h; exact absurd h (by simp [irBitLt])
      | some y =>
        cases c with
        | none => intro _ h; exact absurd h (by simp [irBitLt])
        | some z =>
          simp only [irBitLt]
          exact Val.ltList_strictTotal.trans x y z
  total a b := by
    cases a with
    | none =>
      cases b with
      | none => exact Or.inr (Or.inl rfl)
      | some y => exact Or.inl rfl
    | some x =>
      cases b with
      | none => exact Or.inr (Or.inr rfl)
      | some y =>
        simp only [irBitLt]
        rcases Val.ltList_strictTotal.total x y with h | h | h
        · exact Or.inl h
        · exact Or.inr (Or.inl (by rw [h]))
        · exact Or.inr (Or.inr h)

theorem IRLabel.lt_strictTotal : StrictTotal IRLabel.lt := by
  refine StrictTotal.pullback
    (lexIte_strictTotal _ _ (ltLex_strictTotal _ Val.ltList_strictTotal)
      (ltLex_strictTotal _ irBitLt_strictTotal))
    (fun s : IRLabel => (s.nodes, s.edges)) ?_ IRLabel.lt ?_
  · intro a b hab
    cases a
    cases b
    simp only [Prod.mk.injEq] at hab
    simp [hab.1, hab.2]
  · intro a b
    simp only [IRLabel.lt, lexIte]

/-- if `a`, cut to the length of `seg`, is below `seg`, then `a` is below every extension of
`seg` -/
theorem ltLex_take_of_prefix {α : Type} (lt : α → α → Bool) :
    ∀ (seg a b : List α), ltLex lt (a.take seg.length) seg = true → seg <+: b →
      ltLex lt a b = true := by
  intro seg
  induction seg with
  | nil =>
    intro a b h _
    simp [ltLex] at h
  | cons s seg ih =>
    intro a b h hb
    obtain ⟨t, rfl⟩ := hb
    cases a with
    | nil => rfl
    | cons x a' =>
      simp only [List.length_cons, List.take_succ_cons, List.cons_append, ltLex] at h ⊢
      cases e1 : lt x s
      · cases e2 : lt s x
        · simp only [e1, e2, Bool.false_eq_true, if_false] at h ⊢
          exact ih a' (seg ++ t) h (List.prefix_append _ _)
        · simp [e1, e2] at h
      · simp

theorem irPartialGt_sound : IRPruneSound IRLabel.lt irPartialGt := by
  intro seg L best hseg h
  have := ltLex_take_of_prefix Val.ltList seg best.nodes L.nodes h hseg
  simp only [IRLabel.lt, this, if_true]

/-! ## The search without pruning is a fold over the leaves -/

/-- fold of the leaf case over a list of leaves -/
def irFoldLeaves (lt : IRLabel → IRLabel → Bool) (G : LGraph) (ls : List (List Nat × List Nat)) (best : IRBest) : IRBest :=
  ls.foldl (fun b l => irUpdate lt b (irLeafLabel G l) l.2) best

theorem irFoldLeaves_nil (lt) (G : LGraph) (best : IRBest) : irFoldLeaves lt G [] best = best := rfl

theorem irFoldLeaves_cons (lt) (G : LGraph) (l : List Nat × List Nat) (ls : List (List Nat × List Nat))
    (best : IRBest) :
    irFoldLeaves lt G (l :: ls) best = irFoldLeaves lt G ls (irUpdate lt best (irLeafLabel G l) l.2) := rfl

theorem irFoldLeaves_append (lt) (G : LGraph) (a b : List (List Nat × List Nat)) (best : IRBest) :
    irFoldLeaves lt G (a ++ b) best = irFoldLeaves lt G b (irFoldLeaves lt G a best) := by
  simp only [irFoldLeaves, List.foldl_append]

/-- a loop over children whose body is a fold over the child's leaves is the fold over all the
leaves -/
theorem foldl_eq_irFoldLeaves_flatMap {β : Type} (lt) (G : LGraph) (step : IRBest → β → IRBest)
    (g : β → List (List Nat × List Nat))
    (h : ∀ best v, step best v = irFoldLeaves lt G (g v) best) :
    ∀ (cs : List β) (best : IRBest), cs.foldl step best = irFoldLeaves lt G (cs.flatMap g) best := by
  intro cs
  induction cs with
  | nil => intro best; rfl
  | cons c cs ih =>
    intro best
    rw [List.foldl_cons, List.flatMap_cons, irFoldLeaves_append, ih, h]

theorem irSearch_noprune_eq_fold (lt pgt) (G : LGraph) (fuel : Nat) (P : List (List Nat)) (pfx : List Nat) (best : IRBest) :
    irSearch lt pgt false G fuel P pfx best = irFoldLeaves lt G (irLeaves G fuel P pfx) best := by
  induction fuel generalizing P pfx best with
  | zero => rfl
  | succ fuel ih =>
    simp only [irSearch, irLeaves]
    split
    · rfl
    · split
      · rfl
      · rename_i pre c post _
        simp only [Bool.false_and, Bool.false_eq_true, if_false]
        exact foldl_eq_irFoldLeaves_flatMap lt G
          (fun best v => irSearch lt pgt false G fuel (irIndividualise pre c post v) (pfx ++ [v]) best)
          (fun v => irLeaves G fuel (irIndividualise pre c post v) (pfx ++ [v]))
          (fun best v => ih _ _ best) _ best

/-! ## Lower bound -/

/-- every leaf below a node of the search tree extends that node's prefix -/
theorem irLeaves_prefix (G : LGraph) (fuel : Nat) (P : List (List Nat)) (pfx : List Nat) :
    ∀ l ∈ irLeaves G fuel P pfx, pfx <+: l.1 := by
  induction fuel generalizing P pfx with
  | zero => intro l hl; simp [irLeaves] at hl
  | succ fuel ih =>
    intro l hl
    simp only [irLeaves] at hl
    split at hl
    · simp only [List.mem_singleton] at hl
      subst hl
      exact List.prefix_refl _
    · split at hl
      · simp at hl
      · rw [List.mem_flatMap] at hl
        obtain ⟨v, _, hv⟩ := hl
        exact (List.prefix_append pfx [v]).trans (ih _ _ l hv)

/-- the partial label of a prefix is a lower bound: node segment of the prefix is a prefix of every leaf label's node segment below it -/
theorem irLeafLabel_nodeSeg_prefix (G : LGraph) (fuel : Nat) (P : List (List Nat)) (pfx : List Nat) :
    ∀ l ∈ irLeaves G fuel P pfx, irNodeSeg G pfx <+: (irLeafLabel G l).nodes := by
  intro l hl
  have h1 : pfx <+: l.1 ++ l.2 := (irLeaves_prefix G fuel P pfx l hl).trans (List.prefix_append _ _)
  simp only [irLeafLabel, irBuildLabel, irNodeSeg]
  exact h1.map _

/-- hence a pruned branch contains no leaf that could replace `best` -/
theorem ir_pruned_branch_no_better (lt pgt) (hp : IRPruneSound lt pgt) (G : LGraph) (fuel : Nat) (P : List (List Nat))
    (cp : List Nat) (bl : IRLabel) (bo : List Nat) (h : irPruned pgt G cp (some (bl, bo)) = true) :
    ∀ l ∈ irLeaves G fuel P cp, lt bl (irLeafLabel G l) = true := by
  intro l hl
  exact hp _ _ _ (irLeafLabel_nodeSeg_prefix G fuel P cp l hl) h

/-- folding the leaf case over leaves none of which is below `bl` keeps `bl` -/
theorem irFoldLeaves_some_of_no_better (lt) (hlt : StrictTotal lt) (G : LGraph) (bl : IRLabel) (bo : List Nat) :
    ∀ (ls : List (List Nat × List Nat)), (∀ l ∈ ls, lt bl (irLeafLabel G l) = true) →
      irFoldLeaves lt G ls (some (bl, bo)) = some (bl, bo) := by
  intro ls
  induction ls with
  | nil => intro _; rfl
  | cons l ls ih =>
    intro h
    rw [irFoldLeaves_cons]
    have h1 : lt (irLeafLabel G l) bl = false := hlt.asymm _ _ (h l List.mem_cons_self)
    simp only [irUpdate, h1, Bool.false_eq_true, if_false]
    exact ih (fun l' hl' => h l' (List.mem_cons_of_mem _ hl'))

theorem foldl_congr_fun {α β : Type} (f g : β → α → β) (h : ∀ b a, f b a = g b a) (l : List α) (b : β) :
    l.foldl f b = l.foldl g b := by
  have : f = g := funext fun b => funext fun a => h b a
  rw [this]

/-- pruning never changes the result -/
theorem irSearch_prune_eq_noprune (lt pgt) (hlt : StrictTotal lt) (hp : IRPruneSound lt pgt) (G : LGraph)
    (fuel : Nat) (P : List (List Nat)) (pfx : List Nat) (best : IRBest) :
    irSearch lt pgt true G fuel P pfx best = irSearch lt pgt false G fuel P pfx best := by
  induction fuel generalizing P pfx best with
  | zero => rfl
  | succ fuel ih =>
    simp only [irSearch]
    split
    · rfl
    · split
      · rfl
      · rename_i pre c post _
        apply foldl_congr_fun
        intro b v
        simp only [Bool.true_and, Bool.false_and, Bool.false_eq_true, if_false]
        split
        · rename_i hpr
          cases b with
          | none => simp [irPruned] at hpr
          | some p =>
            obtain ⟨bl, bo⟩ := p
            rw [irSearch_noprune_eq_fold]
            exact (irFoldLeaves_some_of_no_better lt hlt G bl bo _
              (ir_pruned_branch_no_better lt pgt hp G fuel _ _ bl bo hpr)).symm
        · exact ih _ _ _

/-! ## The fold returns the first least leaf -/

theorem irFoldLeaves_some_eq_minBy (lt) (G : LGraph) :
    ∀ (ls : List (List Nat × List Nat)) (x : List Nat × List Nat),
      irFoldLeaves lt G ls (some (irLeafLabel G x, x.2)) =
        some (irLeafLabel G (minBy (fun a b => lt (irLeafLabel G a) (irLeafLabel G b)) x ls),
              (minBy (fun a b => lt (irLeafLabel G a) (irLeafLabel G b)) x ls).2) := by
  intro ls
  induction ls with
  | nil => intro x; rfl
  | cons y ys ih =>
    intro x
    rw [irFoldLeaves_cons, minBy_cons]
    simp only [irUpdate]
    split
    · exact ih y
    · exact ih x

/-- the fold from `none` returns the first leaf with the least label -/
theorem irFoldLeaves_none_cons (lt) (G : LGraph) (l : List Nat × List Nat) (ls : List (List Nat × List Nat)) :
    irFoldLeaves lt G (l :: ls) none =
      some (irLeafLabel G (minBy (fun a b => lt (irLeafLabel G a) (irLeafLabel G b)) l ls),
            (minBy (fun a b => lt (irLeafLabel G a) (irLeafLabel G b)) l ls).2) := by
  rw [irFoldLeaves_cons]
  exact irFoldLeaves_some_eq_minBy lt G ls l

theorem irFoldLeaves_none_nil (lt) (G : LGraph) : irFoldLeaves lt G [] none = none := rfl

/-- summary: the search as the code runs it (with pruning) equals the fold over all leaves -/
theorem irCanonWith_eq_fold (lt pgt) (hlt : StrictTotal lt) (hp : IRPruneSound lt pgt) (prune : Bool) (G : LGraph) :
    irCanonWith lt pgt prune G = irFoldLeaves lt G (irLeaves G (G.nodes.length + 1) (irInitialPartition G) []) none := by
  unfold irCanonWith
  cases prune with
  | false => exact irSearch_noprune_eq_fold lt pgt G _ _ _ _
  | true =>
    rw [irSearch_prune_eq_noprune lt pgt hlt hp]
    exact irSearch_noprune_eq_fold lt pgt G _ _ _ _

end SynKit.Canon

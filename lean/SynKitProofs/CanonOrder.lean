import SynKitModel.Canon
import Mathlib.Data.List.Perm.Basic
/-!
# Order-theoretic lemmas for the canonicalisation model

Sorting (`sortBy`), permutations (`perms`), minimum (`minBy`) and the concrete strict total
orders (`pairLt`, `Val.ltList`, `ltLex`, `Ser.lt`).
-/
namespace SynKit.Canon
open SynKit

/-- `lt` is a strict total order (Bool-valued). -/
structure StrictTotal {α : Type} (lt : α → α → Bool) : Prop where
  irrefl : ∀ a, lt a a = false
  trans : ∀ a b c, lt a b = true → lt b c = true → lt a c = true
  total : ∀ a b, lt a b = true ∨ a = b ∨ lt b a = true

/-! ## A. sorting -/

theorem insertBy_perm {α : Type} (lt : α → α → Bool) (x : α) (l : List α) :
    (insertBy lt x l).Perm (x :: l) := by
  induction l with
  | nil => simp [insertBy]
  | cons y ys ih =>
    unfold insertBy
    split
    · exact (List.Perm.cons y ih).trans (List.Perm.swap x y ys)
    · exact List.Perm.refl _

theorem sortBy_cons {α : Type} (lt : α → α → Bool) (x : α) (xs : List α) :
    sortBy lt (x :: xs) = insertBy lt x (sortBy lt xs) := rfl

theorem sortBy_perm {α : Type} (lt : α → α → Bool) (xs : List α) : (sortBy lt xs).Perm xs := by
  induction xs with
  | nil => exact List.Perm.refl _
  | cons x xs ih =>
    rw [sortBy_cons]
    exact (insertBy_perm lt x _).trans (List.Perm.cons x ih)

theorem mem_insertBy {α : Type} (lt : α → α → Bool) (x z : α) (l : List α) :
    z ∈ insertBy lt x l ↔ z = x ∨ z ∈ l := by
  rw [(insertBy_perm lt x l).mem_iff, List.mem_cons]

theorem mem_sortBy {α : Type} (lt : α → α → Bool) (z : α) (l : List α) :
    z ∈ sortBy lt l ↔ z ∈ l := (sortBy_perm lt l).mem_iff

theorem insertBy_pairwise {α : Type} (lt : α → α → Bool)
    (htr : ∀ a b c, lt a b = true → lt b c = true → lt a c = true)
    (x : α) (l : List α)
    (hx : ∀ b ∈ l, x = b ∨ lt x b = true ∨ lt b x = true)
    (hl : l.Pairwise (fun a b => a = b ∨ lt a b = true)) :
    (insertBy lt x l).Pairwise (fun a b => a = b ∨ lt a b = true) := by
  induction l with
  | nil => simp [insertBy]
  | cons y ys ih =>
    unfold insertBy
    rw [List.pairwise_cons] at hl
    split
    · rename_i hyx
      rw [List.pairwise_cons]
      refine ⟨?_, ih (fun b hb => hx b (List.mem_cons_of_mem _ hb)) hl.2⟩
      intro z hz
      rw [mem_insertBy] at hz
      rcases hz with rfl | hz
      · exact Or.inr hyx
      · exact hl.1 z hz
    · rename_i hyx
      have hxy : x = y ∨ lt x y = true := by
        rcases hx y List.mem_cons_self with h | h | h
        · exact Or.inl h
        · exact Or.inr h
        · exact absurd h hyx
      rw [List.pairwise_cons]
      refine ⟨?_, List.pairwise_cons.mpr hl⟩
      intro z hz
      rw [List.mem_cons] at hz
      rcases hz with rfl | hz
      · exact hxy
      · rcases hxy with rfl | hxy
        · exact hl.1 z hz
        · rcases hl.1 z hz with rfl | hyz
          · exact Or.inr hxy
          · exact Or.inr (htr _ _ _ hxy hyz)

theorem sortBy_pairwise {α : Type} (lt : α → α → Bool)
    (htr : ∀ a b c, lt a b = true → lt b c = true → lt a c = true)
    (xs : List α)
    (htot : ∀ a ∈ xs, ∀ b ∈ xs, a = b ∨ lt a b = true ∨ lt b a = true) :
    (sortBy lt xs).Pairwise (fun a b => a = b ∨ lt a b = true) := by
  induction xs with
  | nil => simp [sortBy]
  | cons x xs ih =>
    rw [sortBy_cons]
    apply insertBy_pairwise lt htr
    · intro b hb
      rw [mem_sortBy] at hb
      exact htot x List.mem_cons_self b (List.mem_cons_of_mem _ hb)
    · exact ih (fun a ha b hb => htot a (List.mem_cons_of_mem _ ha) b (List.mem_cons_of_mem _ hb))

/-- permuted inputs whose elements are pairwise comparable sort to the same list -/
theorem sortBy_eq_of_perm {α : Type} (lt : α → α → Bool)
    (hirr : ∀ a, lt a a = false) (htr : ∀ a b c, lt a b = true → lt b c = true → lt a c = true)
    (xs ys : List α) (hp : xs.Perm ys)
    (htot : ∀ a ∈ xs, ∀ b ∈ xs, a = b ∨ lt a b = true ∨ lt b a = true) :
    sortBy lt xs = sortBy lt ys := by
  have htot' : ∀ a ∈ ys, ∀ b ∈ ys, a = b ∨ lt a b = true ∨ lt b a = true :=
    fun a ha b hb => htot a (hp.mem_iff.mpr ha) b (hp.mem_iff.mpr hb)
  apply List.Perm.eq_of_pairwise (le := fun a b => a = b ∨ lt a b = true)
  · intro a b _ _ hab hba
    rcases hab with h | hab
    · exact h
    · rcases hba with h | hba
      · exact h.symm
      · have := htr _ _ _ hab hba
        rw [hirr] at this
        exact absurd this (by simp)
  · exact sortBy_pairwise lt htr xs htot
  · exact sortBy_pairwise lt htr ys htot'
  · exact (sortBy_perm lt xs).trans (hp.trans (sortBy_perm lt ys).symm)

theorem insertBy_map {α β : Type} (f : α → β) (lt : α → α → Bool) (lt' : β → β → Bool)
    (h : ∀ a b, lt' (f a) (f b) = lt a b) (x : α) (l : List α) :
    insertBy lt' (f x) (l.map f) = (insertBy lt x l).map f := by
  induction l with
  | nil => simp [insertBy]
  | cons y ys ih =>
    simp only [List.map_cons, insertBy, h]
    split
    · simp [ih]
    · simp

/-- stability-free special case: mapping commutes when the comparison is preserved -/
theorem sortBy_map {α β : Type} (f : α → β) (lt : α → α → Bool) (lt' : β → β → Bool)
    (h : ∀ a b, lt' (f a) (f b) = lt a b) (xs : List α) :
    sortBy lt' (xs.map f) = (sortBy lt xs).map f := by
  induction xs with
  | nil => simp [sortBy]
  | cons x xs ih =>
    rw [List.map_cons, sortBy_cons, sortBy_cons, ih, insertBy_map f lt lt' h]

/-! ## B. permutations -/

theorem mem_insertions {α : Type} (x : α) (l o : List α) :
    o ∈ insertions x l ↔ ∃ l₁ l₂, l = l₁ ++ l₂ ∧ o = l₁ ++ x :: l₂ := by
  induction l generalizing o with
  | nil =>
    simp only [insertions, List.mem_singleton]
    constructor
    · rintro rfl
      exact ⟨[], [], rfl, rfl⟩
    · rintro ⟨l₁, l₂, h, rfl⟩
      have h' := h.symm
      rw [List.append_eq_nil_iff] at h'
      rw [h'.1, h'.2]
      rfl
  | cons y ys ih =>
    simp only [insertions, List.mem_cons, List.mem_map]
    constructor
    · rintro (rfl | ⟨o', ho', rfl⟩)
      · exact ⟨[], y :: ys, rfl, rfl⟩
      · obtain ⟨l₁, l₂, rfl, rfl⟩ := (ih o').mp ho'
        exact ⟨y :: l₁, l₂, rfl, rfl⟩
    · rintro ⟨l₁, l₂, h, rfl⟩
      cases l₁ with
      | nil =>
        left
        simp only [List.nil_append] at h ⊢
        rw [h]
      | cons z l₁ =>
        right
        simp only [List.cons_append, List.cons.injEq] at h
        obtain ⟨rfl, rfl⟩ := h
        exact ⟨l₁ ++ x :: l₂, (ih _).mpr ⟨l₁, l₂, rfl, rfl⟩, rfl⟩

theorem mem_perms {α : Type} (l o : List α) : o ∈ perms l ↔ o.Perm l := by
  induction l generalizing o with
  | nil =>
    simp only [perms, List.mem_singleton]
    constructor
    · rintro rfl
      exact List.Perm.refl _
    · intro h
      exact h.eq_nil
  | cons x xs ih =>
    simp only [perms, List.mem_flatMap]
    constructor
    · rintro ⟨p, hp, ho⟩
      obtain ⟨l₁, l₂, rfl, rfl⟩ := (mem_insertions x p o).mp ho
      exact List.perm_middle.trans (List.Perm.cons x ((ih _).mp hp))
    · intro h
      have hx : x ∈ o := h.mem_iff.mpr List.mem_cons_self
      obtain ⟨l₁, l₂, rfl⟩ := List.append_of_mem hx
      refine ⟨l₁ ++ l₂, (ih _).mpr ?_, (mem_insertions x _ _).mpr ⟨l₁, l₂, rfl, rfl⟩⟩
      exact (List.Perm.cons_inv (List.perm_middle.symm.trans h))

/-! ## C. minimum -/

theorem minBy_cons {α : Type} (lt : α → α → Bool) (x y : α) (ys : List α) :
    minBy lt x (y :: ys) = minBy lt (if lt y x then y else x) ys := rfl

theorem minBy_mem {α : Type} (lt : α → α → Bool) (x : α) (xs : List α) :
    minBy lt x xs ∈ x :: xs := by
  induction xs generalizing x with
  | nil => simp [minBy]
  | cons y ys ih =>
    rw [minBy_cons]
    have := ih (if lt y x then y else x)
    rcases List.mem_cons.mp this with h | h
    · rw [h]
      split
      · exact List.mem_cons_of_mem _ List.mem_cons_self
      · exact List.mem_cons_self
    · exact List.mem_cons_of_mem _ (List.mem_cons_of_mem _ h)

/-- `minBy` returns a least element for every strict weak order (asymmetric, with transitive
"not greater"). -/
theorem minBy_least_weak {α : Type} (lt : α → α → Bool)
    (hasym : ∀ a b, lt a b = true → lt b a = false)
    (hle : ∀ a b c, lt b a = false → lt c b = false → lt c a = false)
    (x : α) (xs : List α) :
    ∀ z ∈ x :: xs, lt z (minBy lt x xs) = false := by
  have hirr : ∀ a, lt a a = false := by
    intro a
    cases h : lt a a
    · rfl
    · have := hasym a a h
      rw [h] at this
      exact this
  induction xs generalizing x with
  | nil =>
    intro z hz
    simp only [List.mem_singleton] at hz
    subst hz
    exact hirr z
  | cons y ys ih =>
    intro z hz
    rw [minBy_cons]
    have ih' := ih (if lt y x then y else x)
    have hm := ih' _ List.mem_cons_self
    rcases List.mem_cons.mp hz with rfl | hz
    · -- z is the old best
      refine hle _ _ _ hm ?_
      split
      · rename_i h
        exact hasym _ _ h
      · exact hirr z
    · rcases List.mem_cons.mp hz with rfl | hz
      · refine hle _ _ _ hm ?_
        split
        · exact hirr z
        · rename_i h
          simpa using h
      · exact ih' z (List.mem_cons_of_mem _ hz)

theorem StrictTotal.asymm {α : Type} {lt : α → α → Bool} (h : StrictTotal lt) (a b : α)
    (hab : lt a b = true) : lt b a = false := by
  cases hba : lt b a
  · rfl
  · have := h.trans _ _ _ hab hba
    rw [h.irrefl] at this
    exact absurd this (by simp)

theorem StrictTotal.eq_of_not_lt {α : Type} {lt : α → α → Bool} (h : StrictTotal lt) (a b : α)
    (hab : lt a b = false) (hba : lt b a = false) : a = b := by
  rcases h.total a b with h1 | h1 | h1
  · rw [hab] at h1; exact absurd h1 (by simp)
  · exact h1
  · rw [hba] at h1; exact absurd h1 (by simp)

theorem StrictTotal.le_trans {α : Type} {lt : α → α → Bool} (h : StrictTotal lt) (a b c : α)
    (hba : lt b a = false) (hcb : lt c b = false) : lt c a = false := by
  cases hca : lt c a
  · rfl
  · rcases h.total b a with h1 | h1 | h1
    · rw [hba] at h1; exact absurd h1 (by simp)
    · subst h1
      rw [hcb] at hca; exact absurd hca (by simp)
    · have := h.trans _ _ _ hca h1
      rw [hcb] at this; exact absurd this (by simp)

theorem minBy_least {α : Type} (lt : α → α → Bool) (h : StrictTotal lt) (x : α) (xs : List α) :
    ∀ z ∈ x :: xs, lt z (minBy lt x xs) = false :=
  minBy_least_weak lt h.asymm h.le_trans x xs

/-- the minimum depends only on the set of candidates -/
theorem minBy_congr {α : Type} (lt : α → α → Bool) (h : StrictTotal lt) (x y : α) (xs ys : List α)
    (hset : ∀ z, z ∈ x :: xs ↔ z ∈ y :: ys) : minBy lt x xs = minBy lt y ys := by
  apply h.eq_of_not_lt
  · exact minBy_least lt h y ys _ ((hset _).mp (minBy_mem lt x xs))
  · exact minBy_least lt h x xs _ ((hset _).mpr (minBy_mem lt y ys))

/-- version through a key function: if the key sets agree, the keys of the minima agree -/
theorem minBy_key_congr {α β γ : Type} (lt : γ → γ → Bool) (h : StrictTotal lt) (f : α → γ) (g : β → γ)
    (x : α) (xs : List α) (y : β) (ys : List β)
    (hset : ∀ k, (∃ a ∈ x :: xs, f a = k) ↔ (∃ b ∈ y :: ys, g b = k)) :
    f (minBy (fun a b => lt (f a) (f b)) x xs) = g (minBy (fun a b => lt (g a) (g b)) y ys) := by
  have hf := minBy_least_weak (fun a b => lt (f a) (f b))
    (fun a b => h.asymm (f a) (f b)) (fun a b c => h.le_trans (f a) (f b) (f c)) x xs
  have hg := minBy_least_weak (fun a b => lt (g a) (g b))
    (fun a b => h.asymm (g a) (g b)) (fun a b c => h.le_trans (g a) (g b) (g c)) y ys
  apply h.eq_of_not_lt
  · obtain ⟨b, hb, hbk⟩ := (hset _).mp ⟨_, minBy_mem (fun a b => lt (f a) (f b)) x xs, rfl⟩
    have := hg b hb
    simp only [hbk] at this
    exact this
  · obtain ⟨a, ha, hak⟩ := (hset _).mpr ⟨_, minBy_mem (fun a b => lt (g a) (g b)) y ys, rfl⟩
    have := hf a ha
    simp only [hak] at this
    exact this

/-! ## D. the concrete orders -/

/-- A strict total order pulled back along an injective map. -/
theorem StrictTotal.pullback {α β : Type} {lt : β → β → Bool} (h : StrictTotal lt) (f : α → β)
    (hinj : ∀ a b, f a = f b → a = b) (lt' : α → α → Bool) (hlt : ∀ a b, lt' a b = lt (f a) (f b)) :
    StrictTotal lt' where
  irrefl a := by rw [hlt]; exact h.irrefl _
  trans a b c := by rw [hlt, hlt, hlt]; exact h.trans _ _ _
  total a b := by
    rw [hlt, hlt]
    rcases h.total (f a) (f b) with h1 | h1 | h1
    · exact Or.inl h1
    · exact Or.inr (Or.inl (hinj _ _ h1))
    · exact Or.inr (Or.inr h1)

/-- Lexicographic product in the if-then-else shape used by `serNodeLt`, `serEdgeLt`, `Ser.lt`. -/
def lexIte {α β : Type} (lt₁ : α → α → Bool) (lt₂ : β → β → Bool) (a b : α × β) : Bool :=
  if lt₁ a.1 b.1 then true else if lt₁ b.1 a.1 then false else lt₂ a.2 b.2

theorem lexIte_strictTotal {α β : Type} (lt₁ : α → α → Bool) (lt₂ : β → β → Bool)
    (h₁ : StrictTotal lt₁) (h₂ : StrictTotal lt₂) : StrictTotal (lexIte lt₁ lt₂) where
  irrefl a := by simp [lexIte, h₁.irrefl, h₂.irrefl]
  trans a b c := by
    obtain ⟨a1, a2⟩ := a
    obtain ⟨b1, b2⟩ := b
    obtain ⟨c1, c2⟩ := c
    simp only [lexIte]
    intro hab hbc
    cases e1 : lt₁ a1 b1
    · cases e2 : lt₁ b1 a1
      · have := h₁.eq_of_not_lt _ _ e1 e2
        subst this
        simp only [e1, Bool.false_eq_true, if_false] at hab
        cases e3 : lt₁ a1 c1
        · cases e4 : lt₁ c1 a1
          · simp only [e3, e4, Bool.false_eq_true, if_false] at hbc ⊢
            exact h₂.trans _ _ _ hab hbc
          · simp [e3, e4] at hbc
        · simp
      · simp [e1, e2] at hab
    · cases e3 : lt₁ b1 c1
      · cases e4 : lt₁ c1 b1
        · have := h₁.eq_of_not_lt _ _ e3 e4
          subst this
          simp [e1]
        · simp [e3, e4] at hbc
      · simp [h₁.trans _ _ _ e1 e3]
  total a b := by
    obtain ⟨a1, a2⟩ := a
    obtain ⟨b1, b2⟩ := b
    simp only [lexIte]
    cases e1 : lt₁ a1 b1
    · cases e2 : lt₁ b1 a1
      · have := h₁.eq_of_not_lt _ _ e1 e2
        subst this
        simp only [Bool.false_eq_true, if_false]
        rcases h₂.total a2 b2 with h | h | h
        · exact Or.inl h
        · exact Or.inr (Or.inl (by rw [h]))
        · exact Or.inr (Or.inr h)
      · simp
    · simp

theorem natLt_strictTotal : StrictTotal natLt where
  irrefl a := by simp [natLt]
  trans a b c := by simp only [natLt, decide_eq_true_eq]; omega
  total a b := by simp only [natLt, decide_eq_true_eq]; omega

theorem pairLt_strictTotal : StrictTotal pairLt where
  irrefl a := by simp [pairLt]
  trans a b c := by
    obtain ⟨a1, a2⟩ := a
    obtain ⟨b1, b2⟩ := b
    obtain ⟨c1, c2⟩ := c
    simp only [pairLt, Bool.or_eq_true, Bool.and_eq_true, decide_eq_true_eq, beq_iff_eq]
    omega
  total a b := by
    obtain ⟨a1, a2⟩ := a
    obtain ⟨b1, b2⟩ := b
    simp only [pairLt, Bool.or_eq_true, Bool.and_eq_true, decide_eq_true_eq, beq_iff_eq,
      Prod.mk.injEq]
    omega

theorem ltLex_strictTotal {α : Type} (lt : α → α → Bool) (h : StrictTotal lt) :
    StrictTotal (ltLex lt) where
  irrefl a := by
    induction a with
    | nil => rfl
    | cons x xs ih => simp [ltLex, h.irrefl, ih]
  trans a := by
    induction a with
    | nil =>
      intro b c hab hbc
      cases b with
      | nil => simp [ltLex] at hab
      | cons y ys =>
        cases c with
        | nil => simp [ltLex] at hbc
        | cons z zs => rfl
    | cons x xs ih =>
      intro b c hab hbc
      cases b with
      | nil => simp [ltLex] at hab
      | cons y ys =>
        cases c with
        | nil => simp [ltLex] at hbc
        | cons z zs =>
          simp only [ltLex] at hab hbc ⊢
          cases e1 : lt x y
          · cases e2 : lt y x
            · have := h.eq_of_not_lt _ _ e1 e2
              subst this
              simp only [e1, Bool.false_eq_true, if_false] at hab
              cases e3 : lt x z
              · cases e4 : lt z x
                · simp only [e3, e4, Bool.false_eq_true, if_false] at hbc ⊢
                  exact ih _ _ hab hbc
                · simp [e3, e4] at hbc
              · simp
            · simp [e1, e2] at hab
          · cases e3 : lt y z
            · cases e4 : lt z y
              · have := h.eq_of_not_lt _ _ e3 e4
                subst this
                simp [e1]
              · simp [e3, e4] at hbc
            · simp [h.trans _ _ _ e1 e3]
  total a := by
    induction a with
    | nil =>
      intro b
      cases b with
      | nil => exact Or.inr (Or.inl rfl)
      | cons y ys => exact Or.inl rfl
    | cons x xs ih =>
      intro b
      cases b with
      | nil => exact Or.inr (Or.inr rfl)
      | cons y ys =>
        simp only [ltLex]
        cases e1 : lt x y
        · cases e2 : lt y x
          · have := h.eq_of_not_lt _ _ e1 e2
            subst this
            simp only [Bool.false_eq_true, if_false]
            rcases ih ys with h' | h' | h'
            · exact Or.inl h'
            · exact Or.inr (Or.inl (by rw [h']))
            · exact Or.inr (Or.inr h')
          · simp
        · simp

/-! ### The order on values -/

/-- Induction over the nested inductive `Val` with a list-membership hypothesis for tuples. -/
theorem Val.ind' {P : Val → Prop} (hnone : P .none) (hnum : ∀ h, P (.num h))
    (hstr : ∀ s, P (.str s)) (hbool : ∀ b, P (.bool b))
    (htup : ∀ xs, (∀ x ∈ xs, P x) → P (.tup xs)) : ∀ a, P a :=
  fun a => Val.rec (motive_1 := P) (motive_2 := fun xs => ∀ x ∈ xs, P x)
    hnone hnum hstr hbool htup
    (fun x hx => absurd hx List.not_mem_nil)
    (fun head tail ih1 ih2 x hx => by
      rcases List.mem_cons.mp hx with rfl | hx
      · exact ih1
      · exact ih2 x hx) a

theorem Val.cmpList_nil_nil : Val.cmpList [] [] = .eq := by simp [Val.cmpList]
theorem Val.cmpList_nil_cons (b : Val) (bs : List Val) : Val.cmpList [] (b :: bs) = .lt := by
  simp [Val.cmpList]
theorem Val.cmpList_cons_nil (a : Val) (as : List Val) : Val.cmpList (a :: as) [] = .gt := by
  simp [Val.cmpList]
theorem Val.cmpList_cons_cons (a b : Val) (as bs : List Val) :
    Val.cmpList (a :: as) (b :: bs) = (Val.cmp a b).then (Val.cmpList as bs) := by
  rw [Val.cmpList]
  cases Val.cmp a b <;> rfl

theorem Val.cmpList_eq_iff (as : List Val)
    (ih : ∀ a ∈ as, ∀ b, Val.cmp a b = .eq ↔ a = b) :
    ∀ bs, Val.cmpList as bs = .eq ↔ as = bs := by
  induction as with
  | nil =>
    intro bs
    cases bs with
    | nil => simp [Val.cmpList_nil_nil]
    | cons b bs => simp [Val.cmpList_nil_cons]
  | cons a as ihl =>
    intro bs
    cases bs with
    | nil => simp [Val.cmpList_cons_nil]
    | cons b bs =>
      rw [Val.cmpList_cons_cons]
      have h1 := ih a List.mem_cons_self b
      have h2 := ihl (fun a ha => ih a (List.mem_cons_of_mem _ ha)) bs
      cases e : Val.cmp a b
      · have : a ≠ b := fun hab => by rw [h1.mpr hab] at e; cases e
        simp [this]
      · have := h1.mp e
        simp [this, h2]
      · have : a ≠ b := fun hab => by rw [h1.mpr hab] at e; cases e
        simp [this]

theorem Val.cmp_eq_iff : ∀ a b : Val, Val.cmp a b = .eq ↔ a = b := by
  intro a
  induction a using Val.ind' with
  | hnone => intro b; cases b <;> simp [Val.cmp, Val.rank]
  | hnum x => intro b; cases b <;> simp [Val.cmp, Val.rank]
  | hstr x => intro b; cases b <;> simp [Val.cmp, Val.rank]
  | hbool x => intro b; cases b <;> simp [Val.cmp, Val.rank]
  | htup xs ih =>
    intro b
    cases b with
    | tup ys =>
      simp only [Val.cmp, Val.tup.injEq]
      exact Val.cmpList_eq_iff xs ih ys
    | _ => simp [Val.cmp, Val.rank]

theorem Val.cmpList_eq_iff' (as bs : List Val) : Val.cmpList as bs = .eq ↔ as = bs :=
  Val.cmpList_eq_iff as (fun a _ => Val.cmp_eq_iff a) bs

theorem Val.cmpList_swap (as : List Val)
    (ih : ∀ a ∈ as, ∀ b, Val.cmp b a = (Val.cmp a b).swap) :
    ∀ bs, Val.cmpList bs as = (Val.cmpList as bs).swap := by
  induction as with
  | nil =>
    intro bs
    cases bs with
    | nil => simp [Val.cmpList_nil_nil]
    | cons b bs => simp [Val.cmpList_nil_cons, Val.cmpList_cons_nil]
  | cons a as ihl =>
    intro bs
    cases bs with
    | nil => simp [Val.cmpList_nil_cons, Val.cmpList_cons_nil]
    | cons b bs =>
      rw [Val.cmpList_cons_cons, Val.cmpList_cons_cons]
      have h1 := ih a List.mem_cons_self b
      have h2 := ihl (fun a ha => ih a (List.mem_cons_of_mem _ ha)) bs
      rw [h1]
      cases e : Val.cmp a b <;> simp [h2]

theorem Val.cmp_swap : ∀ a b : Val, Val.cmp b a = (Val.cmp a b).swap := by
  intro a
  induction a using Val.ind' with
  | hnone => intro b; cases b <;> simp [Val.cmp, Val.rank] <;> rfl
  | hnum x =>
    intro b
    cases b with
    | num y => simp only [Val.cmp]; exact Std.OrientedCmp.eq_swap
    | _ => simp [Val.cmp, Val.rank]; rfl
  | hstr x =>
    intro b
    cases b with
    | str y => simp only [Val.cmp]; exact Std.OrientedCmp.eq_swap
    | _ => simp [Val.cmp, Val.rank]; rfl
  | hbool x =>
    intro b
    cases b with
    | bool y => simp only [Val.cmp]; exact Std.OrientedCmp.eq_swap
    | _ => simp [Val.cmp, Val.rank]; rfl
  | htup xs ih =>
    intro b
    cases b with
    | tup ys =>
      simp only [Val.cmp]
      exact Val.cmpList_swap xs ih ys
    | _ => simp [Val.cmp, Val.rank]; rfl

theorem Val.cmpList_swap' (as bs : List Val) : Val.cmpList bs as = (Val.cmpList as bs).swap :=
  Val.cmpList_swap as (fun a _ => Val.cmp_swap a) bs

theorem Val.cmpList_trans (as : List Val)
    (ih : ∀ a ∈ as, ∀ b c, Val.cmp a b = .lt → Val.cmp b c = .lt → Val.cmp a c = .lt) :
    ∀ bs cs, Val.cmpList as bs = .lt → Val.cmpList bs cs = .lt → Val.cmpList as cs = .lt := by
  induction as with
  | nil =>
    intro bs cs hab hbc
    cases bs with
    | nil => simp [Val.cmpList_nil_nil] at hab
    | cons b bs =>
      cases cs with
      | nil => simp [Val.cmpList_cons_nil] at hbc
      | cons c cs => exact Val.cmpList_nil_cons _ _
  | cons a as ihl =>
    intro bs cs hab hbc
    cases bs with
    | nil => simp [Val.cmpList_cons_nil] at hab
    | cons b bs =>
      cases cs with
      | nil => simp [Val.cmpList_cons_nil] at hbc
      | cons c cs =>
        rw [Val.cmpList_cons_cons] at hab hbc ⊢
        have h1 := ih a List.mem_cons_self b c
        have h2 := ihl (fun a ha => ih a (List.mem_cons_of_mem _ ha)) bs cs
        cases e1 : Val.cmp a b
        · cases e2 : Val.cmp b c
          · simp [h1 e1 e2]
          · have := (Val.cmp_eq_iff b c).mp e2
            subst this
            simp [e1]
          · simp [e2] at hbc
        · have := (Val.cmp_eq_iff a b).mp e1
          subst this
          cases e2 : Val.cmp a c
          · simp
          · simp only [e1, e2, Ordering.then] at hab hbc ⊢
            exact h2 hab hbc
          · simp [e2] at hbc
        · simp [e1] at hab

theorem Val.cmp_trans : ∀ a b c : Val, Val.cmp a b = .lt → Val.cmp b c = .lt → Val.cmp a c = .lt := by
  intro a
  induction a using Val.ind' with
  | hnone => intro b c; cases b <;> cases c <;> simp [Val.cmp, Val.rank, Nat.compare_eq_lt]
  | hnum x =>
    intro b c
    cases b <;> cases c <;> simp [Val.cmp, Val.rank, Nat.compare_eq_lt]
    exact Std.TransCmp.lt_trans
  | hstr x =>
    intro b c
    cases b <;> cases c <;> simp [Val.cmp, Val.rank, Nat.compare_eq_lt]
    exact Std.TransCmp.lt_trans
  | hbool x =>
    intro b c
    cases b <;> cases c <;> simp [Val.cmp, Val.rank, Nat.compare_eq_lt]
    exact Std.TransCmp.lt_trans
  | htup xs ih =>
    intro b c
    cases b <;> cases c <;> simp [Val.cmp, Val.rank, Nat.compare_eq_lt]
    exact Val.cmpList_trans xs ih _ _

theorem Val.cmpList_trans' (as bs cs : List Val) :
    Val.cmpList as bs = .lt → Val.cmpList bs cs = .lt → Val.cmpList as cs = .lt :=
  Val.cmpList_trans as (fun a _ => Val.cmp_trans a) bs cs

theorem Val.ltList_strictTotal : StrictTotal Val.ltList where
  irrefl a := by
    simp only [Val.ltList, (Val.cmpList_eq_iff' a a).mpr rfl]
    rfl
  trans a b c := by
    simp only [Val.ltList, beq_iff_eq]
    exact Val.cmpList_trans' a b c
  total a b := by
    simp only [Val.ltList, beq_iff_eq]
    cases e : Val.cmpList a b
    · exact Or.inl rfl
    · exact Or.inr (Or.inl ((Val.cmpList_eq_iff' a b).mp e))
    · right; right
      rw [Val.cmpList_swap' a b, e]
      rfl

/-! ### Serialisations -/

theorem serNodeLt_eq : serNodeLt = lexIte natLt Val.ltList := by
  funext a b
  simp [serNodeLt, lexIte, natLt]

theorem serNodeLt_strictTotal : StrictTotal serNodeLt := by
  rw [serNodeLt_eq]
  exact lexIte_strictTotal _ _ natLt_strictTotal Val.ltList_strictTotal

theorem serEdgeLt_eq : serEdgeLt = lexIte pairLt (lexIte pairLt Val.ltList) := by
  funext a b
  simp only [serEdgeLt, lexIte]

theorem serEdgeLt_strictTotal : StrictTotal serEdgeLt := by
  rw [serEdgeLt_eq]
  exact lexIte_strictTotal _ _ pairLt_strictTotal
    (lexIte_strictTotal _ _ pairLt_strictTotal Val.ltList_strictTotal)

theorem Ser.lt_strictTotal : StrictTotal Ser.lt := by
  refine StrictTotal.pullback
    (lexIte_strictTotal _ _ (ltLex_strictTotal _ serNodeLt_strictTotal)
      (ltLex_strictTotal _ serEdgeLt_strictTotal))
    (fun s : Ser => (s.nodes, s.edges)) ?_ Ser.lt ?_
  · intro a b hab
    cases a
    cases b
    simp only [Prod.mk.injEq] at hab
    simp [hab.1, hab.2]
  · intro a b
    simp only [Ser.lt, lexIte]

end SynKit.Canon

import SynKitModel.ITS
import Mathlib.Data.List.Nodup
/-! Helper lemmas for C01 (ITS construction / decomposition). -/
namespace SynKit.ITS.C01L
open SynKit

/-! ## Edge lookup -/

/-- The (symmetric) lookup predicate of `LGraph.edge?`. -/
def ematch (u v : Nat) (e : Nat × Nat × Attrs) : Bool :=
  decide ((e.1 = u ∧ e.2.1 = v) ∨ (e.1 = v ∧ e.2.1 = u))

theorem ematch_iff (u v : Nat) (e : Nat × Nat × Attrs) :
    ematch u v e = true ↔ (e.1 = u ∧ e.2.1 = v) ∨ (e.1 = v ∧ e.2.1 = u) := by
  simp [ematch]

theorem ematch_comm (u v : Nat) : ematch u v = ematch v u := by
  funext e
  simp only [ematch]
  exact decide_eq_decide.2 Or.comm

theorem edge?_eq (g : LGraph) (u v : Nat) :
    g.edge? u v = (g.edges.find? (ematch u v)).map (·.2.2) := rfl

theorem edge?_comm (g : LGraph) (u v : Nat) : g.edge? u v = g.edge? v u := by
  rw [edge?_eq, edge?_eq, ematch_comm]

theorem hasEdge_comm (g : LGraph) (u v : Nat) : g.hasEdge u v = g.hasEdge v u := by
  unfold LGraph.hasEdge; rw [edge?_comm]

theorem orderOf_comm (g : LGraph) (u v : Nat) : orderOf g u v = orderOf g v u := by
  unfold orderOf; rw [edge?_comm]

theorem hasEdge_iff (g : LGraph) (u v : Nat) :
    g.hasEdge u v = true ↔ ∃ e ∈ g.edges, ematch u v e = true := by
  unfold LGraph.hasEdge
  rw [edge?_eq, Option.isSome_map, List.find?_isSome]

theorem hasEdge_eq_any (g : LGraph) (u v : Nat) : g.hasEdge u v = g.edges.any (ematch u v) := by
  rw [Bool.eq_iff_iff, hasEdge_iff, List.any_eq_true]

theorem hasEdge_of_mem (g : LGraph) (e : Nat × Nat × Attrs) (he : e ∈ g.edges) :
    g.hasEdge e.1 e.2.1 = true :=
  (hasEdge_iff g _ _).2 ⟨e, he, (ematch_iff _ _ _).2 (Or.inl ⟨rfl, rfl⟩)⟩

/-- If `e` matches the unordered pair `{u, v}` then a symmetric function agrees on both. -/
theorem sym_of_ematch {β : Type} (F : Nat → Nat → β) (hF : ∀ u v, F u v = F v u) (u v : Nat)
    (e : Nat × Nat × Attrs) (h : ematch u v e = true) : F e.1 e.2.1 = F u v := by
  rcases (ematch_iff _ _ _).1 h with ⟨h1, h2⟩ | ⟨h1, h2⟩
  · rw [h1, h2]
  · rw [h1, h2, hF]

/-- Lookup in an edge list all of whose attribute dicts are a symmetric function of the end points. -/
theorem edge?_spec (ns : List (Nat × Attrs)) (es : List (Nat × Nat × Attrs)) (F : Nat → Nat → Attrs)
    (hF : ∀ u v, F u v = F v u) (h1 : ∀ e ∈ es, e.2.2 = F e.1 e.2.1) (u v : Nat) :
    (LGraph.mk ns es).edge? u v = if es.any (ematch u v) then some (F u v) else none := by
  rw [edge?_eq]
  cases h : es.find? (ematch u v) with
  | none =>
    have : es.any (ematch u v) = false := by
      rw [List.any_eq_false]; intro x hx
      have := List.find?_eq_none.1 h x hx
      simpa using this
    simp [this]
  | some e =>
    have hm := List.find?_some h
    have he := List.mem_of_find?_eq_some h
    have : es.any (ematch u v) = true := List.any_eq_true.2 ⟨e, he, hm⟩
    simp only [this, if_true, Option.map_some, h1 e he]
    rw [sym_of_ematch F hF u v e hm]


/-! ## `construct`: edges -/

/-- The unordered pairs `construct` puts an edge on. -/
def pairsOf (G H : LGraph) : List (Nat × Nat) :=
  G.edges.map (fun e => (e.1, e.2.1)) ++
    (H.edges.filter fun e => !G.hasEdge e.1 e.2.1).map (fun e => (e.1, e.2.1))

/-- Attribute dict of the ITS edge on `{u, v}`. -/
def itsF (o : Opts) (G H : LGraph) (u v : Nat) : Attrs :=
  itsEdgeAttrs o.ignoreArom (orderOf G u v) (orderOf H u v)

theorem itsF_comm (o : Opts) (G H : LGraph) (u v : Nat) : itsF o G H u v = itsF o G H v u := by
  unfold itsF; rw [orderOf_comm G, orderOf_comm H]

theorem construct_edges_eq (o : Opts) (G H : LGraph) :
    (construct o G H).edges = (pairsOf G H).map fun uv => (uv.1, uv.2, itsF o G H uv.1 uv.2) := rfl

/-- Same predicate on bare pairs. -/
def pmatch (u v : Nat) (p : Nat × Nat) : Bool :=
  decide ((p.1 = u ∧ p.2 = v) ∨ (p.1 = v ∧ p.2 = u))

theorem pmatch_iff (u v : Nat) (p : Nat × Nat) :
    pmatch u v p = true ↔ (p.1 = u ∧ p.2 = v) ∨ (p.1 = v ∧ p.2 = u) := by
  simp [pmatch]

theorem hasEdge_of_pmatch (g : LGraph) (u v : Nat) (p : Nat × Nat) (h : pmatch u v p = true) :
    g.hasEdge p.1 p.2 = g.hasEdge u v := by
  rcases (pmatch_iff _ _ _).1 h with ⟨h1, h2⟩ | ⟨h1, h2⟩
  · rw [h1, h2]
  · rw [h1, h2, hasEdge_comm]

theorem mem_pairsOf (G H : LGraph) (p : Nat × Nat) :
    p ∈ pairsOf G H ↔ (∃ e ∈ G.edges, (e.1, e.2.1) = p) ∨
      (∃ e ∈ H.edges, G.hasEdge e.1 e.2.1 = false ∧ (e.1, e.2.1) = p) := by
  simp only [pairsOf, List.mem_append, List.mem_map, List.mem_filter, Bool.not_eq_true', and_assoc]

theorem pairsOf_hasEdge (G H : LGraph) (p : Nat × Nat) (hp : p ∈ pairsOf G H) :
    G.hasEdge p.1 p.2 = true ∨ H.hasEdge p.1 p.2 = true := by
  rcases (mem_pairsOf G H p).1 hp with ⟨e, he, rfl⟩ | ⟨e, he, _, rfl⟩
  · exact Or.inl (hasEdge_of_mem G e he)
  · exact Or.inr (hasEdge_of_mem H e he)

theorem exists_pairsOf_iff (G H : LGraph) (u v : Nat) :
    (∃ p ∈ pairsOf G H, pmatch u v p = true) ↔ (G.hasEdge u v = true ∨ H.hasEdge u v = true) := by
  constructor
  · rintro ⟨p, hp, hm⟩
    rcases pairsOf_hasEdge G H p hp with h | h
    · left; rwa [hasEdge_of_pmatch G u v p hm] at h
    · right; rwa [hasEdge_of_pmatch H u v p hm] at h
  · intro h
    by_cases hg : G.hasEdge u v = true
    · obtain ⟨e, he, hm⟩ := (hasEdge_iff G u v).1 hg
      exact ⟨(e.1, e.2.1), (mem_pairsOf G H _).2 (Or.inl ⟨e, he, rfl⟩), hm⟩
    · have hh : H.hasEdge u v = true := h.resolve_left hg
      obtain ⟨e, he, hm⟩ := (hasEdge_iff H u v).1 hh
      refine ⟨(e.1, e.2.1), (mem_pairsOf G H _).2 (Or.inr ⟨e, he, ?_, rfl⟩), hm⟩
      have := hasEdge_of_pmatch G u v (e.1, e.2.1) hm
      simp only at this
      rw [this]; simpa using hg

theorem construct_edge? (o : Opts) (G H : LGraph) (u v : Nat) :
    (construct o G H).edge? u v =
      if G.hasEdge u v || H.hasEdge u v then some (itsF o G H u v) else none := by
  have h := edge?_spec (construct o G H).nodes (construct o G H).edges (itsF o G H) (itsF_comm o G H)
    (by
      intro e he
      rw [construct_edges_eq, List.mem_map] at he
      obtain ⟨p, _, rfl⟩ := he
      rfl) u v
  have hany : (construct o G H).edges.any (ematch u v) = (G.hasEdge u v || H.hasEdge u v) := by
    rw [Bool.eq_iff_iff, List.any_eq_true, Bool.or_eq_true, ← exists_pairsOf_iff, construct_edges_eq]
    constructor
    · rintro ⟨e, he, hm⟩
      obtain ⟨p, hp, rfl⟩ := List.mem_map.1 he
      exact ⟨p, hp, hm⟩
    · rintro ⟨p, hp, hm⟩
      exact ⟨_, List.mem_map.2 ⟨p, hp, rfl⟩, hm⟩
  rw [hany] at h
  exact h


/-! ## Standard order -/

theorem get_def (a : Attrs) (k : String) : a.get k = (a.get? k).getD .none := rfl

theorem itsEdgeAttrs_order (ia : Bool) (og oh : Val) :
    (itsEdgeAttrs ia og oh).get "order" = .tup [og, oh] := by
  simp [itsEdgeAttrs, get_def, Dict.get?]

theorem itsEdgeAttrs_std (ia : Bool) (og oh : Val) :
    (itsEdgeAttrs ia og oh).get "standard_order" = standardOrder ia og oh := by
  simp [itsEdgeAttrs, get_def, Dict.get?]

theorem standardOrder_num_false (a b : Int) : standardOrder false (.num a) (.num b) = .num (a - b) := by
  simp [standardOrder, vsub]

/-- Negation of a number. -/
def vneg : Val → Val
  | .num a => .num (-a)
  | v => v

theorem standardOrder_swap (ia : Bool) (a b : Int) :
    standardOrder ia (.num b) (.num a) = vneg (standardOrder ia (.num a) (.num b)) := by
  have h : (b - a).natAbs = (a - b).natAbs := by omega
  simp only [standardOrder, vsub, h]
  split
  · simp [vneg]
  · simp only [vneg]; congr 1; omega

/-! ## Nodes -/

theorem attrs_eq (g : LGraph) (n : Nat) :
    g.attrs n = ((g.nodes.find? (fun p => decide (p.1 = n))).map (·.2)).getD [] := by
  unfold LGraph.attrs
  cases g.nodes.find? (fun p => decide (p.1 = n)) <;> rfl

theorem hasNode_iff (g : LGraph) (n : Nat) : g.hasNode n = true ↔ n ∈ g.ids := by
  simp [LGraph.hasNode]

/-- A present node has its attribute dict in the node list. -/
theorem attrs_mem (g : LGraph) (n : Nat) (h : n ∈ g.ids) : (n, g.attrs n) ∈ g.nodes := by
  unfold LGraph.ids at h
  obtain ⟨p, hp, rfl⟩ := List.mem_map.1 h
  unfold LGraph.attrs
  cases hf : g.nodes.find? (fun q => decide (q.1 = p.1)) with
  | none =>
    have := List.find?_eq_none.1 hf p hp
    simp at this
  | some q =>
    have h1 := List.find?_some hf
    have h2 := List.mem_of_find?_eq_some hf
    simp only [decide_eq_true_eq] at h1
    rw [← h1]; exact h2

/-- Node lookup in a node list mapped by an id-preserving function. -/
theorem attrs_map (ns : List (Nat × Attrs)) (es : List (Nat × Nat × Attrs)) (F : Nat → Attrs → Attrs)
    (n : Nat) (h : n ∈ ns.map (·.1)) :
    (LGraph.mk (ns.map fun p => (p.1, F p.1 p.2)) es).attrs n = F n ((LGraph.mk ns es).attrs n) := by
  rw [attrs_eq, attrs_eq]
  simp only [List.find?_map]
  obtain ⟨p, hp, rfl⟩ := List.mem_map.1 h
  cases hf : ns.find? ((fun q : Nat × Attrs => decide (q.1 = p.1)) ∘ fun q => (q.1, F q.1 q.2)) with
  | none =>
    have := List.find?_eq_none.1 hf p hp
    simp at this
  | some q =>
    have h1 := List.find?_some hf
    simp only [Function.comp, decide_eq_true_eq] at h1
    have : ns.find? (fun q : Nat × Attrs => decide (q.1 = p.1)) = some q := hf
    simp [this, h1]

theorem nodeAttrs_typesGH (store : Bool) (G H : LGraph) (n : Nat) (a : Attrs) :
    (nodeAttrs store G H n a).get? "typesGH" = some (.tup [.tup (sideTuple G n), .tup (sideTuple H n)]) := by
  simp only [nodeAttrs, sideTuple, typesKeys, List.map, List.zip_cons_cons, List.zip_nil_right,
    List.foldl]
  rw [Dict.get?_set_other _ _ _ _ (by decide), Dict.get?_set_other _ _ _ _ (by decide),
    Dict.get?_set_other _ _ _ _ (by decide), Dict.get?_set_other _ _ _ _ (by decide),
    Dict.get?_set_other _ _ _ _ (by decide), Dict.get?_set_self]

/-- The raw (pre-annotation) node list of `construct`. -/
def rawOf (o : Opts) (G H : LGraph) : List (Nat × Attrs) :=
  let base := if baseIsG o G H then G else H
  let other := if baseIsG o G H then H else G
  base.nodes ++ other.nodes.filter (fun p => !base.hasNode p.1)

theorem construct_nodes_eq (o : Opts) (G H : LGraph) :
    (construct o G H).nodes = (rawOf o G H).map fun p => (p.1, nodeAttrs o.store G H p.1 p.2) := rfl

theorem construct_ids_eq (o : Opts) (G H : LGraph) :
    (construct o G H).ids = (rawOf o G H).map (·.1) := by
  unfold LGraph.ids; rw [construct_nodes_eq, List.map_map]; rfl

theorem union_ids_mem (A B : LGraph) (n : Nat) :
    n ∈ (A.nodes ++ B.nodes.filter (fun p => !A.hasNode p.1)).map (·.1) ↔ n ∈ A.ids ∨ n ∈ B.ids := by
  simp only [List.map_append, List.mem_append, List.mem_map, List.mem_filter, LGraph.ids,
    Bool.not_eq_true']
  constructor
  · rintro (h | ⟨p, ⟨hp, _⟩, rfl⟩)
    · exact Or.inl h
    · exact Or.inr ⟨p, hp, rfl⟩
  · rintro (h | ⟨p, hp, rfl⟩)
    · exact Or.inl h
    · by_cases hA : A.hasNode p.1 = true
      · left; exact List.mem_map.1 ((hasNode_iff A p.1).1 hA)
      · right; exact ⟨p, ⟨hp, by simpa using hA⟩, rfl⟩

theorem union_ids_nodup (A B : LGraph) (hA : A.ids.Nodup) (hB : B.ids.Nodup) :
    ((A.nodes ++ B.nodes.filter (fun p => !A.hasNode p.1)).map (·.1)).Nodup := by
  rw [List.map_append, List.nodup_append]
  refine ⟨hA, ?_, ?_⟩
  · exact (List.Nodup.sublist (List.Sublist.map _ (List.filter_sublist)) hB)
  · intro a ha b hb hab
    subst hab
    obtain ⟨p, hp, rfl⟩ := List.mem_map.1 hb
    have := (List.mem_filter.1 hp).2
    have h2 := (hasNode_iff A p.1).2 ha
    simp [h2] at this

theorem construct_mem_ids (o : Opts) (G H : LGraph) (n : Nat) :
    n ∈ (construct o G H).ids ↔ n ∈ G.ids ∨ n ∈ H.ids := by
  rw [construct_ids_eq]
  unfold rawOf
  cases baseIsG o G H
  · simp only [Bool.false_eq_true, if_false]; rw [union_ids_mem, Or.comm]
  · simp only [if_true]; rw [union_ids_mem]

theorem construct_nodup (o : Opts) (G H : LGraph) (hG : G.ids.Nodup) (hH : H.ids.Nodup) :
    (construct o G H).ids.Nodup := by
  rw [construct_ids_eq]
  unfold rawOf
  cases baseIsG o G H
  · simp only [Bool.false_eq_true, if_false]; exact union_ids_nodup H G hH hG
  · simp only [if_true]; exact union_ids_nodup G H hG hH

theorem construct_attrs (o : Opts) (G H : LGraph) (n : Nat) (h : n ∈ (construct o G H).ids) :
    (construct o G H).attrs n =
      nodeAttrs o.store G H n ((LGraph.mk (rawOf o G H) (construct o G H).edges).attrs n) := by
  rw [construct_ids_eq] at h
  exact attrs_map (rawOf o G H) (construct o G H).edges (nodeAttrs o.store G H) n h

theorem construct_typesGH' (o : Opts) (G H : LGraph) (n : Nat) (h : n ∈ (construct o G H).ids) :
    ((construct o G H).attrs n).get? "typesGH" =
      some (.tup [.tup (sideTuple G n), .tup (sideTuple H n)]) := by
  rw [construct_attrs o G H n h, nodeAttrs_typesGH]


/-! ## Well-formedness of the construction -/

theorem norm_eq_iff (a b c d : Nat) :
    (min a b, max a b) = (min c d, max c d) ↔ (a = c ∧ b = d) ∨ (a = d ∧ b = c) := by
  simp only [Prod.mk.injEq]; omega

theorem construct_wf' (o : Opts) (G H : LGraph) (hG : G.WF) (hH : H.WF) : (construct o G H).WF := by
  refine ⟨construct_nodup o G H hG.1 hH.1, ?_, ?_⟩
  · intro e he
    rw [construct_edges_eq] at he
    obtain ⟨p, hp, rfl⟩ := List.mem_map.1 he
    simp only [construct_mem_ids]
    rcases (mem_pairsOf G H p).1 hp with ⟨e', he', rfl⟩ | ⟨e', he', _, rfl⟩
    · have := hG.2.1 e' he'
      exact ⟨Or.inl this.1, Or.inl this.2.1, this.2.2⟩
    · have := hH.2.1 e' he'
      exact ⟨Or.inr this.1, Or.inr this.2.1, this.2.2⟩
  · rw [construct_edges_eq, List.map_map]
    unfold pairsOf
    rw [List.map_append, List.map_map, List.map_map, List.nodup_append]
    refine ⟨hG.2.2, ?_, ?_⟩
    · exact List.Nodup.sublist (List.Sublist.map _ List.filter_sublist) hH.2.2
    · intro x hx y hy hxy
      subst hxy
      obtain ⟨e, he, rfl⟩ := List.mem_map.1 hx
      obtain ⟨e', he', h'⟩ := List.mem_map.1 hy
      have hf := (List.mem_filter.1 he').2
      simp only [Function.comp] at h'
      have hm := (norm_eq_iff _ _ _ _).1 h'.symm
      have : G.hasEdge e'.1 e'.2.1 = true :=
        (hasEdge_iff G _ _).2 ⟨e, he, (ematch_iff _ _ _).2 hm⟩
      simp [this] at hf


/-! ## Decomposition of a constructed ITS graph -/

theorem filterMap_eq_map' {α β : Type} (f : α → Option β) (g : α → β) (l : List α)
    (h : ∀ x ∈ l, f x = some (g x)) : l.filterMap f = l.map g := by
  induction l with
  | nil => rfl
  | cons x xs ih =>
    rw [List.filterMap_cons, h x (List.mem_cons_self), List.map_cons,
      ih (fun y hy => h y (List.mem_cons_of_mem _ hy))]

theorem ensureBare_of_mem (ns : List (Nat × Attrs)) (n : Nat) (h : n ∈ ns.map (·.1)) :
    ensureBare ns n = ns := by
  unfold ensureBare
  have : ns.any (fun p => decide (p.1 = n)) = true := by
    obtain ⟨p, hp, rfl⟩ := List.mem_map.1 h
    exact List.any_eq_true.2 ⟨p, hp, by simp⟩
  simp [this]

theorem addMissing_eq (ns : List (Nat × Attrs)) (es : List (Nat × Nat × Attrs))
    (h : ∀ e ∈ es, e.1 ∈ ns.map (·.1) ∧ e.2.1 ∈ ns.map (·.1)) : addMissing ns es = ns := by
  unfold addMissing
  induction es with
  | nil => rfl
  | cons e es ih =>
    have he := h e (List.mem_cons_self)
    rw [List.foldl_cons, ensureBare_of_mem ns e.1 he.1, ensureBare_of_mem ns e.2.1 he.2]
    exact ih (fun y hy => h y (List.mem_cons_of_mem _ hy))

/-- Every bond has a positive numeric order. -/
def EdgePos (S : LGraph) : Prop :=
  ∀ e ∈ S.edges, ∃ h : Int, 0 < h ∧ e.2.2.get? "order" = some (.num h)

theorem positive_orderOf (S : LGraph) (hS : EdgePos S) (u v : Nat) :
    positive (orderOf S u v) = S.hasEdge u v := by
  unfold orderOf LGraph.hasEdge
  rw [edge?_eq]
  cases hf : S.edges.find? (ematch u v) with
  | none => simp [positive]
  | some e =>
    obtain ⟨h, hpos, hord⟩ := hS e (List.mem_of_find?_eq_some hf)
    simp [positive, hord, hpos]

/-- The edges `its_decompose` gives to side `S` from a list of candidate pairs. -/
def sideEdges (S : LGraph) (ps : List (Nat × Nat)) : List (Nat × Nat × Attrs) :=
  ps.filterMap fun uv =>
    if positive (orderOf S uv.1 uv.2) then some (uv.1, uv.2, [("order", orderOf S uv.1 uv.2)]) else none

theorem mem_sideEdges (S : LGraph) (ps : List (Nat × Nat)) (e : Nat × Nat × Attrs) :
    e ∈ sideEdges S ps ↔ ∃ p ∈ ps, positive (orderOf S p.1 p.2) = true ∧
      e = (p.1, p.2, [("order", orderOf S p.1 p.2)]) := by
  unfold sideEdges
  rw [List.mem_filterMap]
  constructor
  · rintro ⟨p, hp, h⟩
    by_cases hpos : positive (orderOf S p.1 p.2) = true
    · simp only [hpos, if_true, Option.some.injEq] at h; exact ⟨p, hp, hpos, h.symm⟩
    · simp [hpos] at h
  · rintro ⟨p, hp, hpos, rfl⟩
    exact ⟨p, hp, by simp [hpos]⟩

theorem sideEdges_edge? (ns : List (Nat × Attrs)) (S : LGraph) (ps : List (Nat × Nat)) (hS : EdgePos S)
    (hcover : ∀ u v, S.hasEdge u v = true → ∃ p ∈ ps, pmatch u v p = true) (u v : Nat) :
    (LGraph.mk ns (sideEdges S ps)).edge? u v =
      if S.hasEdge u v then some [("order", orderOf S u v)] else none := by
  have h := edge?_spec ns (sideEdges S ps) (fun u v => [("order", orderOf S u v)])
    (fun u v => by rw [orderOf_comm]) (by
      intro e he
      obtain ⟨p, _, _, rfl⟩ := (mem_sideEdges S ps e).1 he
      rfl) u v
  have hany : (sideEdges S ps).any (ematch u v) = S.hasEdge u v := by
    rw [Bool.eq_iff_iff, List.any_eq_true]
    constructor
    · rintro ⟨e, he, hm⟩
      obtain ⟨p, _, hpos, rfl⟩ := (mem_sideEdges S ps e).1 he
      rw [positive_orderOf S hS] at hpos
      rwa [hasEdge_of_pmatch S u v p hm] at hpos
    · intro hh
      obtain ⟨p, hp, hm⟩ := hcover u v hh
      refine ⟨(p.1, p.2, [("order", orderOf S p.1 p.2)]), (mem_sideEdges S ps _).2 ⟨p, hp, ?_, rfl⟩, hm⟩
      rw [positive_orderOf S hS, hasEdge_of_pmatch S u v p hm]; exact hh
  rw [hany] at h
  exact h

theorem sideEdges_order (ns : List (Nat × Attrs)) (S : LGraph) (ps : List (Nat × Nat)) (hS : EdgePos S)
    (hcover : ∀ u v, S.hasEdge u v = true → ∃ p ∈ ps, pmatch u v p = true) (u v : Nat) :
    ((LGraph.mk ns (sideEdges S ps)).edge? u v).map (·.get "order") =
      (S.edge? u v).map (·.get "order") := by
  rw [sideEdges_edge? ns S ps hS hcover]
  unfold orderOf LGraph.hasEdge
  rw [edge?_eq]
  cases hf : S.edges.find? (ematch u v) with
  | none => simp
  | some e =>
    obtain ⟨h, _, hord⟩ := hS e (List.mem_of_find?_eq_some hf)
    simp [hord, get_def, Dict.get?]

theorem orderPair_itsF (o : Opts) (G H : LGraph) (u v : Nat) :
    orderPair (itsF o G H u v) = some (orderOf G u v, orderOf H u v) := by
  simp [orderPair, itsF, itsEdgeAttrs, Dict.get?]

theorem decompose_construct_edges1 (o : Opts) (G H : LGraph) :
    (decompose (construct o G H)).1.edges = sideEdges G (pairsOf G H) := by
  unfold decompose sideEdges
  simp only [construct_edges_eq, List.filterMap_map]
  congr 1

theorem decompose_construct_edges2 (o : Opts) (G H : LGraph) :
    (decompose (construct o G H)).2.edges = sideEdges H (pairsOf G H) := by
  unfold decompose sideEdges
  simp only [construct_edges_eq, List.filterMap_map]
  congr 1


/-- The nodes `its_decompose` gives to side `S`. -/
def sideNodes (S : LGraph) (raw : List (Nat × Attrs)) : List (Nat × Attrs) :=
  raw.map fun q => (q.1, sideNode q.1 (.tup (sideTuple S q.1)))

theorem sideNodes_ids (S : LGraph) (raw : List (Nat × Attrs)) :
    (sideNodes S raw).map (·.1) = raw.map (·.1) := by
  unfold sideNodes; rw [List.map_map]; rfl

theorem gHalf_nodeAttrs (store : Bool) (G H : LGraph) (n : Nat) (a : Attrs) :
    gHalf (nodeAttrs store G H n a) = some (.tup (sideTuple G n)) := by
  unfold gHalf; rw [nodeAttrs_typesGH]

theorem hHalf_nodeAttrs (store : Bool) (G H : LGraph) (n : Nat) (a : Attrs) :
    hHalf (nodeAttrs store G H n a) = some (.tup (sideTuple H n)) := by
  unfold hHalf; rw [nodeAttrs_typesGH]; rfl

theorem decompose_construct_gn (o : Opts) (G H : LGraph) :
    ((construct o G H).nodes.filterMap fun p => (gHalf p.2).map fun g => (p.1, sideNode p.1 g)) =
      sideNodes G (rawOf o G H) := by
  rw [construct_nodes_eq, List.filterMap_map]
  apply filterMap_eq_map'
  intro q _
  simp only [Function.comp, gHalf_nodeAttrs, Option.map_some]

theorem decompose_construct_hn (o : Opts) (G H : LGraph) :
    ((construct o G H).nodes.filterMap fun p => (hHalf p.2).map fun g => (p.1, sideNode p.1 g)) =
      sideNodes H (rawOf o G H) := by
  rw [construct_nodes_eq, List.filterMap_map]
  apply filterMap_eq_map'
  intro q _
  simp only [Function.comp, hHalf_nodeAttrs, Option.map_some]

theorem pairsOf_ids (G H : LGraph) (hG : G.WF) (hH : H.WF) (p : Nat × Nat) (hp : p ∈ pairsOf G H) :
    (p.1 ∈ G.ids ∨ p.1 ∈ H.ids) ∧ (p.2 ∈ G.ids ∨ p.2 ∈ H.ids) := by
  rcases (mem_pairsOf G H p).1 hp with ⟨e, he, rfl⟩ | ⟨e, he, _, rfl⟩
  · have := hG.2.1 e he; exact ⟨Or.inl this.1, Or.inl this.2.1⟩
  · have := hH.2.1 e he; exact ⟨Or.inr this.1, Or.inr this.2.1⟩

theorem sideEdges_ends (o : Opts) (G H S S' : LGraph) (hG : G.WF) (hH : H.WF) :
    ∀ e ∈ sideEdges S (pairsOf G H),
      e.1 ∈ (sideNodes S' (rawOf o G H)).map (·.1) ∧ e.2.1 ∈ (sideNodes S' (rawOf o G H)).map (·.1) := by
  intro e he
  obtain ⟨p, hp, _, rfl⟩ := (mem_sideEdges S _ e).1 he
  rw [sideNodes_ids, ← construct_ids_eq]
  simp only [construct_mem_ids]
  exact pairsOf_ids G H hG hH p hp

theorem decompose_construct_nodes1 (o : Opts) (G H : LGraph) (hG : G.WF) (hH : H.WF) :
    (decompose (construct o G H)).1.nodes = sideNodes G (rawOf o G H) := by
  have hn : (decompose (construct o G H)).1.nodes =
      addMissing ((construct o G H).nodes.filterMap fun p => (gHalf p.2).map fun g => (p.1, sideNode p.1 g))
        (decompose (construct o G H)).1.edges := rfl
  rw [hn, decompose_construct_gn, decompose_construct_edges1,
    addMissing_eq _ _ (sideEdges_ends o G H G G hG hH)]

theorem decompose_construct_nodes2 (o : Opts) (G H : LGraph) (hG : G.WF) (hH : H.WF) :
    (decompose (construct o G H)).2.nodes = sideNodes H (rawOf o G H) := by
  have hn : (decompose (construct o G H)).2.nodes =
      addMissing ((construct o G H).nodes.filterMap fun p => (hHalf p.2).map fun g => (p.1, sideNode p.1 g))
        (decompose (construct o G H)).2.edges := rfl
  rw [hn, decompose_construct_hn, decompose_construct_edges2,
    addMissing_eq _ _ (sideEdges_ends o G H H H hG hH)]

theorem attrs_congr (g g' : LGraph) (h : g.nodes = g'.nodes) (n : Nat) : g.attrs n = g'.attrs n := by
  unfold LGraph.attrs; rw [h]

theorem edge?_congr (g g' : LGraph) (h : g.edges = g'.edges) (u v : Nat) : g.edge? u v = g'.edge? u v := by
  unfold LGraph.edge?; rw [h]

/-- Attribute dict of a node of a decomposed side. -/
theorem sideNodes_attrs (g S : LGraph) (raw : List (Nat × Attrs)) (h : g.nodes = sideNodes S raw)
    (n : Nat) (hn : n ∈ raw.map (·.1)) : g.attrs n = sideNode n (.tup (sideTuple S n)) := by
  rw [attrs_congr g (LGraph.mk (sideNodes S raw) []) h]
  exact attrs_map raw [] (fun m _ => sideNode m (.tup (sideTuple S m))) n hn

/-- Under the node clause of `MolWF` the decomposed node carries the original label. -/
theorem sideNode_get (S : LGraph) (n : Nat)
    (hk : ∀ k ∈ ["element", "aromatic", "hcount", "charge"], ((S.attrs n).get? k).isSome = true)
    (hm : (S.attrs n).get? "atom_map" = some (.num (2 * (n : Int)))) :
    ∀ k ∈ molKeys, (sideNode n (.tup (sideTuple S n))).get k = (S.attrs n).get k := by
  intro k hk'
  simp only [molKeys, List.mem_cons, List.not_mem_nil, or_false] at hk'
  rcases hk' with rfl | rfl | rfl | rfl | rfl
  · obtain ⟨v, hv⟩ := Option.isSome_iff_exists.1 (hk "element" (by simp))
    simp [sideNode, get_def, Dict.get?, idx, sideTuple, typesKeys, hv]
  · obtain ⟨v, hv⟩ := Option.isSome_iff_exists.1 (hk "aromatic" (by simp))
    simp [sideNode, get_def, Dict.get?, idx, sideTuple, typesKeys, hv]
  · obtain ⟨v, hv⟩ := Option.isSome_iff_exists.1 (hk "hcount" (by simp))
    simp [sideNode, get_def, Dict.get?, idx, sideTuple, typesKeys, hv]
  · obtain ⟨v, hv⟩ := Option.isSome_iff_exists.1 (hk "charge" (by simp))
    simp [sideNode, get_def, Dict.get?, idx, sideTuple, typesKeys, hv]
  · simp [sideNode, get_def, Dict.get?, hm]


/-- One side of `decompose (construct o G H)` agrees with the side `S ∈ {G, H}` it came from. -/
theorem decompose_side (o : Opts) (G H S g : LGraph)
    (hnodes : g.nodes = sideNodes S (rawOf o G H)) (hedges : g.edges = sideEdges S (pairsOf G H))
    (hids : ∀ n, (n ∈ G.ids ∨ n ∈ H.ids) ↔ n ∈ S.ids)
    (hlab : ∀ p ∈ S.nodes,
      (∀ k ∈ ["element", "aromatic", "hcount", "charge"], (p.2.get? k).isSome = true) ∧
        p.2.get? "atom_map" = some (.num (2 * (p.1 : Int))))
    (hpos : EdgePos S)
    (hcov : ∀ u v, S.hasEdge u v = true → G.hasEdge u v = true ∨ H.hasEdge u v = true) :
    (∀ n, n ∈ g.ids ↔ n ∈ S.ids) ∧
    (∀ n ∈ g.ids, ∀ k ∈ molKeys, (g.attrs n).get k = (S.attrs n).get k) ∧
    (∀ u v, (g.edge? u v).map (·.get "order") = (S.edge? u v).map (·.get "order")) := by
  have hgids : ∀ n, n ∈ g.ids ↔ n ∈ S.ids := by
    intro n
    unfold LGraph.ids at *
    rw [hnodes, sideNodes_ids, ← hids n]
    have := construct_mem_ids o G H n
    rw [construct_ids_eq] at this
    exact this
  refine ⟨hgids, ?_, ?_⟩
  · intro n hn k hk
    have hnS := (hgids n).1 hn
    have hraw : n ∈ (rawOf o G H).map (·.1) := by
      have := (construct_mem_ids o G H n).2 ((hids n).2 hnS)
      rwa [construct_ids_eq] at this
    rw [sideNodes_attrs g S _ hnodes n hraw]
    have hl := hlab _ (attrs_mem S n hnS)
    exact sideNode_get S n hl.1 hl.2 k hk
  · intro u v
    rw [edge?_congr g (LGraph.mk [] (sideEdges S (pairsOf G H))) hedges]
    exact sideEdges_order [] S _ hpos
      (fun u v h => (exists_pairsOf_iff G H u v).2 (hcov u v h)) u v


/-! ## Relabelling -/

section Relabel
variable {π : Nat → Nat} (hπ : Function.Injective π)
include hπ

theorem relabel_mem_ids (g : LGraph) (n : Nat) : π n ∈ (g.relabel π).ids ↔ n ∈ g.ids := by
  simp only [LGraph.ids, LGraph.relabel, List.map_map, List.mem_map, Function.comp]
  constructor
  · rintro ⟨p, hp, h⟩; exact ⟨p, hp, hπ h⟩
  · rintro ⟨p, hp, rfl⟩; exact ⟨p, hp, rfl⟩

theorem relabel_hasNode (g : LGraph) (n : Nat) : (g.relabel π).hasNode (π n) = g.hasNode n := by
  rw [Bool.eq_iff_iff, hasNode_iff, hasNode_iff, relabel_mem_ids hπ]

theorem relabel_attrs (g : LGraph) (n : Nat) : (g.relabel π).attrs (π n) = g.attrs n := by
  rw [attrs_eq, attrs_eq]
  simp only [LGraph.relabel, List.find?_map]
  have : ((fun p : Nat × Attrs => decide (p.1 = π n)) ∘ fun p : Nat × Attrs => (π p.1, p.2)) =
      fun p => decide (p.1 = n) := by
    funext p
    simp only [Function.comp]
    exact decide_eq_decide.2 ⟨fun h => hπ h, fun h => by rw [h]⟩
  rw [this]
  cases g.nodes.find? (fun p => decide (p.1 = n)) <;> rfl

theorem relabel_edge? (g : LGraph) (u v : Nat) : (g.relabel π).edge? (π u) (π v) = g.edge? u v := by
  rw [edge?_eq, edge?_eq]
  simp only [LGraph.relabel, List.find?_map]
  have : (ematch (π u) (π v) ∘ fun e : Nat × Nat × Attrs => (π e.1, π e.2.1, e.2.2)) = ematch u v := by
    funext e
    simp only [Function.comp, ematch]
    apply decide_eq_decide.2
    constructor
    · rintro (⟨h1, h2⟩ | ⟨h1, h2⟩)
      · exact Or.inl ⟨hπ h1, hπ h2⟩
      · exact Or.inr ⟨hπ h1, hπ h2⟩
    · rintro (⟨h1, h2⟩ | ⟨h1, h2⟩)
      · exact Or.inl ⟨by rw [h1], by rw [h2]⟩
      · exact Or.inr ⟨by rw [h1], by rw [h2]⟩
  rw [this]
  cases g.edges.find? (ematch u v) <;> rfl

theorem relabel_hasEdge (g : LGraph) (u v : Nat) : (g.relabel π).hasEdge (π u) (π v) = g.hasEdge u v := by
  unfold LGraph.hasEdge; rw [relabel_edge? hπ]

theorem relabel_orderOf (g : LGraph) (u v : Nat) : orderOf (g.relabel π) (π u) (π v) = orderOf g u v := by
  unfold orderOf; rw [relabel_edge? hπ]

theorem relabel_sideTuple (g : LGraph) (n : Nat) : sideTuple (g.relabel π) (π n) = sideTuple g n := by
  unfold sideTuple; rw [relabel_attrs hπ]

theorem relabel_nodeAttrs (store : Bool) (G H : LGraph) (n : Nat) (a : Attrs) :
    nodeAttrs store (G.relabel π) (H.relabel π) (π n) a = nodeAttrs store G H n a := by
  unfold nodeAttrs; rw [relabel_sideTuple hπ, relabel_sideTuple hπ]

theorem relabel_itsF (o : Opts) (G H : LGraph) (u v : Nat) :
    itsF o (G.relabel π) (H.relabel π) (π u) (π v) = itsF o G H u v := by
  unfold itsF; rw [relabel_orderOf hπ, relabel_orderOf hπ]

theorem relabel_union (A B : LGraph) :
    (A.relabel π).nodes ++ (B.relabel π).nodes.filter (fun p => !(A.relabel π).hasNode p.1) =
      (A.nodes ++ B.nodes.filter (fun p => !A.hasNode p.1)).map fun p => (π p.1, p.2) := by
  have hB : (B.relabel π).nodes = B.nodes.map fun p => (π p.1, p.2) := rfl
  have hA : (A.relabel π).nodes = A.nodes.map fun p => (π p.1, p.2) := rfl
  rw [List.map_append, hB, List.filter_map, ← hA]
  congr 2
  apply List.filter_congr
  intro p _
  simp only [Function.comp, relabel_hasNode hπ]

theorem relabel_rawOf (o : Opts) (G H : LGraph) :
    rawOf o (G.relabel π) (H.relabel π) = (rawOf o G H).map fun p => (π p.1, p.2) := by
  have hb : baseIsG o (G.relabel π) (H.relabel π) = baseIsG o G H := by
    simp only [baseIsG, LGraph.relabel, List.length_map]
  unfold rawOf
  rw [hb]
  cases baseIsG o G H
  · simp only [Bool.false_eq_true, if_false]; exact relabel_union hπ H G
  · simp only [if_true]; exact relabel_union hπ G H

theorem relabel_pairsOf (G H : LGraph) :
    pairsOf (G.relabel π) (H.relabel π) = (pairsOf G H).map fun p => (π p.1, π p.2) := by
  have hG : (G.relabel π).edges = G.edges.map fun e => (π e.1, π e.2.1, e.2.2) := rfl
  have hH : (H.relabel π).edges = H.edges.map fun e => (π e.1, π e.2.1, e.2.2) := rfl
  unfold pairsOf
  rw [List.map_append, hG, hH, List.filter_map, List.map_map, List.map_map, List.map_map, List.map_map]
  congr 2
  apply List.filter_congr
  intro e _
  simp only [Function.comp, relabel_hasEdge hπ]

theorem construct_relabel' (o : Opts) (G H : LGraph) :
    construct o (G.relabel π) (H.relabel π) = (construct o G H).relabel π := by
  have hn : (construct o (G.relabel π) (H.relabel π)).nodes = ((construct o G H).relabel π).nodes := by
    show _ = (construct o G H).nodes.map fun p => (π p.1, p.2)
    rw [construct_nodes_eq, construct_nodes_eq, relabel_rawOf hπ, List.map_map, List.map_map]
    apply List.map_congr_left
    intro p _
    simp only [Function.comp, relabel_nodeAttrs hπ]
  have he : (construct o (G.relabel π) (H.relabel π)).edges = ((construct o G H).relabel π).edges := by
    show _ = (construct o G H).edges.map fun e => (π e.1, π e.2.1, e.2.2)
    rw [construct_edges_eq, construct_edges_eq, relabel_pairsOf hπ, List.map_map, List.map_map]
    apply List.map_congr_left
    intro p _
    simp only [Function.comp, relabel_itsF hπ]
  calc construct o (G.relabel π) (H.relabel π)
      = ⟨(construct o (G.relabel π) (H.relabel π)).nodes, (construct o (G.relabel π) (H.relabel π)).edges⟩ := rfl
    _ = ⟨((construct o G H).relabel π).nodes, ((construct o G H).relabel π).edges⟩ := by rw [hn, he]
    _ = (construct o G H).relabel π := rfl

end Relabel


/-! ## Construction of a decomposed ITS graph -/

theorem edge?_none_of (g : LGraph) (u v : Nat) (h : ∀ e ∈ g.edges, ematch u v e = false) :
    g.edge? u v = none := by
  rw [edge?_eq, Option.map_eq_none_iff, List.find?_eq_none]
  intro e he; simp [h e he]

theorem edge?_unique (g : LGraph) (u v : Nat) (a : Attrs) (hex : ∃ e ∈ g.edges, ematch u v e = true)
    (hall : ∀ e ∈ g.edges, ematch u v e = true → e.2.2 = a) : g.edge? u v = some a := by
  rw [edge?_eq]
  cases hf : g.edges.find? (ematch u v) with
  | none =>
    obtain ⟨e, he, hm⟩ := hex
    have := List.find?_eq_none.1 hf e he
    exact absurd hm this
  | some e =>
    simp only [Option.map_some, Option.some.injEq]
    exact hall e (List.mem_of_find?_eq_some hf) (List.find?_some hf)

/-- In a simple graph at most one edge joins an unordered pair. -/
theorem wf_unique (g : LGraph) (hg : g.WF) (u v : Nat) (e e' : Nat × Nat × Attrs)
    (he : e ∈ g.edges) (he' : e' ∈ g.edges) (hm : ematch u v e = true) (hm' : ematch u v e' = true) :
    e = e' := by
  apply List.inj_on_of_nodup_map hg.2.2 he he'
  have h1 := (ematch_iff _ _ _).1 hm
  have h2 := (ematch_iff _ _ _).1 hm'
  simp only [Prod.mk.injEq]
  omega

theorem edge?_of_mem (g : LGraph) (hg : g.WF) (u v : Nat) (e : Nat × Nat × Attrs) (he : e ∈ g.edges)
    (hm : ematch u v e = true) : g.edge? u v = some e.2.2 :=
  edge?_unique g u v _ ⟨e, he, hm⟩ (fun e' he' hm' => by rw [wf_unique g hg u v e' e he' he hm' hm])

/-- The edges `its_decompose` gives to the side selected by `sel`. -/
def decEdges (sel : Val × Val → Val) (I : LGraph) : List (Nat × Nat × Attrs) :=
  I.edges.filterMap fun e => match orderPair e.2.2 with
    | some pr => if positive (sel pr) then some (e.1, e.2.1, [("order", sel pr)]) else none
    | none => none

theorem decompose_edges1 (I : LGraph) : (decompose I).1.edges = decEdges Prod.fst I := by
  unfold decompose decEdges
  simp only
  congr 1
  funext e
  cases orderPair e.2.2 with
  | none => rfl
  | some pr => cases pr; rfl

theorem decompose_edges2 (I : LGraph) : (decompose I).2.edges = decEdges Prod.snd I := by
  unfold decompose decEdges
  simp only
  congr 1
  funext e
  cases orderPair e.2.2 with
  | none => rfl
  | some pr => cases pr; rfl

theorem mem_decEdges (sel : Val × Val → Val) (I : LGraph) (x : Nat × Nat × Attrs) :
    x ∈ decEdges sel I ↔ ∃ e ∈ I.edges, ∃ pr, orderPair e.2.2 = some pr ∧ positive (sel pr) = true ∧
      x = (e.1, e.2.1, [("order", sel pr)]) := by
  unfold decEdges
  rw [List.mem_filterMap]
  constructor
  · rintro ⟨e, he, h⟩
    cases hop : orderPair e.2.2 with
    | none => simp [hop] at h
    | some pr =>
      simp only [hop] at h
      by_cases hpos : positive (sel pr) = true
      · simp only [hpos, if_true, Option.some.injEq] at h
        exact ⟨e, he, pr, hop, hpos, h.symm⟩
      · simp [hpos] at h
  · rintro ⟨e, he, pr, hop, hpos, rfl⟩
    exact ⟨e, he, by simp [hop, hpos]⟩

theorem decEdges_none (sel : Val × Val → Val) (I : LGraph) (ns : List (Nat × Attrs)) (u v : Nat)
    (h : ∀ e ∈ I.edges, ematch u v e = false) : (LGraph.mk ns (decEdges sel I)).hasEdge u v = false := by
  unfold LGraph.hasEdge
  rw [edge?_none_of]; · rfl
  intro x hx
  obtain ⟨e, he, pr, _, _, rfl⟩ := (mem_decEdges sel I x).1 hx
  exact h e he

/-- Lookup on a decomposed side of a simple ITS graph. -/
theorem decEdges_lookup (sel : Val × Val → Val) (I : LGraph) (hI : I.WF) (ns : List (Nat × Attrs))
    (u v : Nat) (e : Nat × Nat × Attrs) (he : e ∈ I.edges) (hm : ematch u v e = true) (x y c : Int)
    (hord : e.2.2.get? "order" = some (.tup [.num x, .num y])) (hsel : sel (.num x, .num y) = .num c)
    (hc : 0 ≤ c) :
    orderOf (LGraph.mk ns (decEdges sel I)) u v = .num c ∧
      (LGraph.mk ns (decEdges sel I)).hasEdge u v = decide (0 < c) := by
  have hop : orderPair e.2.2 = some (.num x, .num y) := by unfold orderPair; rw [hord]
  have hall : ∀ x' ∈ decEdges sel I, ematch u v x' = true →
      positive (.num c) = true ∧ x'.2.2 = [("order", .num c)] := by
    intro x' hx' hm'
    obtain ⟨e', he', pr, hop', hpos, rfl⟩ := (mem_decEdges sel I x').1 hx'
    have : e' = e := wf_unique I hI u v e' e he' he hm' hm
    subst this
    rw [hop] at hop'
    cases hop'
    rw [hsel] at hpos ⊢
    exact ⟨hpos, rfl⟩
  by_cases hpos : 0 < c
  · have hmem : (e.1, e.2.1, [("order", Val.num c)]) ∈ decEdges sel I :=
      (mem_decEdges sel I _).2 ⟨e, he, _, hop, by rw [hsel]; simpa [positive] using hpos, by rw [hsel]⟩
    have hE : (LGraph.mk ns (decEdges sel I)).edge? u v = some [("order", .num c)] :=
      edge?_unique _ u v _ ⟨_, hmem, hm⟩ (fun x' hx' hm' => (hall x' hx' hm').2)
    unfold orderOf LGraph.hasEdge
    rw [hE]
    simp [Dict.get?, hpos]
  · have hc0 : c = 0 := by omega
    have hE : (LGraph.mk ns (decEdges sel I)).edge? u v = none := by
      apply edge?_none_of
      intro x' hx'
      by_contra hne
      have hm' : ematch u v x' = true := by simpa using hne
      have := (hall x' hx' hm').1
      simp [positive, hc0] at this
    unfold orderOf LGraph.hasEdge
    rw [hE]
    simp [hc0]


/-- Every ITS node carries a `typesGH` pair of tuples with at least four entries each. -/
def NodeTyped (I : LGraph) : Prop :=
  ∀ p ∈ I.nodes, ∃ g h : List Val,
    p.2.get? "typesGH" = some (.tup [.tup g, .tup h]) ∧ 4 ≤ g.length ∧ 4 ≤ h.length

/-- Every ITS edge carries a pair of non-negative numeric orders, not both zero, and their
difference as standard order. -/
def EdgeTyped (I : LGraph) : Prop :=
  ∀ e ∈ I.edges, ∃ a b : Int,
    e.2.2.get? "order" = some (.tup [.num a, .num b]) ∧ 0 ≤ a ∧ 0 ≤ b ∧ ¬(a = 0 ∧ b = 0) ∧
      e.2.2.get? "standard_order" = some (.num (a - b))

/-- The `i`-th half of `typesGH`. -/
def halfOf (i : Nat) (a : Attrs) : Val := idx (a.get "typesGH") i

theorem gHalf_typed (a : Attrs) (g h : List Val)
    (ha : a.get? "typesGH" = some (.tup [.tup g, .tup h])) : gHalf a = some (halfOf 0 a) := by
  unfold gHalf halfOf
  rw [get_def, ha]; rfl

theorem hHalf_typed (a : Attrs) (g h : List Val)
    (ha : a.get? "typesGH" = some (.tup [.tup g, .tup h])) (hl : 4 ≤ h.length) :
    hHalf a = some (halfOf 1 a) := by
  unfold hHalf halfOf
  rw [get_def, ha]
  cases h with
  | nil => simp at hl
  | cons x xs => rfl

def decNodes (i : Nat) (I : LGraph) : List (Nat × Attrs) :=
  I.nodes.map fun p => (p.1, sideNode p.1 (halfOf i p.2))

theorem decNodes_ids (i : Nat) (I : LGraph) : (decNodes i I).map (·.1) = I.ids := by
  unfold decNodes LGraph.ids; rw [List.map_map]; rfl

theorem decEdges_ends (sel : Val × Val → Val) (i : Nat) (I : LGraph) (hI : I.WF) :
    ∀ x ∈ decEdges sel I, x.1 ∈ (decNodes i I).map (·.1) ∧ x.2.1 ∈ (decNodes i I).map (·.1) := by
  intro x hx
  obtain ⟨e, he, pr, _, _, rfl⟩ := (mem_decEdges sel I x).1 hx
  rw [decNodes_ids]
  have := hI.2.1 e he
  exact ⟨this.1, this.2.1⟩

theorem decompose_nodes1 (I : LGraph) (hI : I.WF) (hn : NodeTyped I) :
    (decompose I).1.nodes = decNodes 0 I := by
  have h0 : (decompose I).1.nodes =
      addMissing (I.nodes.filterMap fun p => (gHalf p.2).map fun g => (p.1, sideNode p.1 g))
        (decompose I).1.edges := rfl
  rw [h0, decompose_edges1,
    filterMap_eq_map' _ (fun p => (p.1, sideNode p.1 (halfOf 0 p.2))) I.nodes (by
      intro p hp
      obtain ⟨g, h, hgh, _, _⟩ := hn p hp
      rw [gHalf_typed p.2 g h hgh]; rfl)]
  exact addMissing_eq _ _ (decEdges_ends _ 0 I hI)

theorem decompose_nodes2 (I : LGraph) (hI : I.WF) (hn : NodeTyped I) :
    (decompose I).2.nodes = decNodes 1 I := by
  have h0 : (decompose I).2.nodes =
      addMissing (I.nodes.filterMap fun p => (hHalf p.2).map fun g => (p.1, sideNode p.1 g))
        (decompose I).2.edges := rfl
  rw [h0, decompose_edges2,
    filterMap_eq_map' _ (fun p => (p.1, sideNode p.1 (halfOf 1 p.2))) I.nodes (by
      intro p hp
      obtain ⟨g, h, hgh, _, hl⟩ := hn p hp
      rw [hHalf_typed p.2 g h hgh hl]; rfl)]
  exact addMissing_eq _ _ (decEdges_ends _ 1 I hI)

theorem decNodes_attrs (g I : LGraph) (i : Nat) (h : g.nodes = decNodes i I) (n : Nat) (hn : n ∈ I.ids) :
    g.attrs n = sideNode n (halfOf i (I.attrs n)) := by
  rw [attrs_congr g (LGraph.mk (decNodes i I) []) h]
  exact attrs_map I.nodes [] (fun m a => sideNode m (halfOf i a)) n hn

theorem sideTuple_sideNode_idx (S : LGraph) (n : Nat) (t : Val) (h : S.attrs n = sideNode n t)
    (i : Nat) (hi : i < 4) : idx (.tup (sideTuple S n)) i = idx t i := by
  unfold sideTuple
  rw [h]
  rcases i with _ | _ | _ | _ | i
  · simp [typesKeys, sideNode, Dict.get?, idx]
  · simp [typesKeys, sideNode, Dict.get?, idx]
  · simp [typesKeys, sideNode, Dict.get?, idx]
  · simp [typesKeys, sideNode, Dict.get?, idx]
  · omega

theorem hasEdge_congr (g g' : LGraph) (h : g.edges = g'.edges) (u v : Nat) :
    g.hasEdge u v = g'.hasEdge u v := by
  unfold LGraph.hasEdge; rw [edge?_congr g g' h]

theorem orderOf_congr (g g' : LGraph) (h : g.edges = g'.edges) (u v : Nat) :
    orderOf g u v = orderOf g' u v := by
  unfold orderOf; rw [edge?_congr g g' h]

/-- Constructing from the decomposition of a well-formed ITS graph gives the ITS graph back, up to
list order and up to the fifth (`neighbors`) entry of the `typesGH` halves. -/
theorem construct_decompose' (I : LGraph) (hI : I.WF) (hn : NodeTyped I) (he : EdgeTyped I) :
    let C := construct {} (decompose I).1 (decompose I).2
    (∀ n, n ∈ C.ids ↔ n ∈ I.ids) ∧
    (∀ n ∈ C.ids, ∀ i < 4,
      idx (idx ((C.attrs n).get "typesGH") 0) i = idx (idx ((I.attrs n).get "typesGH") 0) i ∧
      idx (idx ((C.attrs n).get "typesGH") 1) i = idx (idx ((I.attrs n).get "typesGH") 1) i) ∧
    (∀ u v, (C.edge? u v).map (fun a => (a.get "order", a.get "standard_order")) =
      (I.edge? u v).map (fun a => (a.get "order", a.get "standard_order"))) := by
  intro C
  have hA := decompose_nodes1 I hI hn
  have hB := decompose_nodes2 I hI hn
  have hAids : (decompose I).1.ids = I.ids := by unfold LGraph.ids at *; rw [hA, decNodes_ids]; rfl
  have hBids : (decompose I).2.ids = I.ids := by unfold LGraph.ids at *; rw [hB, decNodes_ids]; rfl
  have hids : ∀ n, n ∈ C.ids ↔ n ∈ I.ids := by
    intro n
    rw [construct_mem_ids, hAids, hBids, or_self]
  refine ⟨hids, ?_, ?_⟩
  · intro n hnC i hi
    have hnI := (hids n).1 hnC
    rw [get_def, construct_typesGH' _ _ _ n hnC]
    constructor
    · exact sideTuple_sideNode_idx _ n _ (decNodes_attrs _ I 0 hA n hnI) i hi
    · exact sideTuple_sideNode_idx _ n _ (decNodes_attrs _ I 1 hB n hnI) i hi
  · intro u v
    have hEA : (decompose I).1.edges = (LGraph.mk [] (decEdges Prod.fst I)).edges := decompose_edges1 I
    have hEB : (decompose I).2.edges = (LGraph.mk [] (decEdges Prod.snd I)).edges := decompose_edges2 I
    rw [construct_edge?, hasEdge_congr _ _ hEA, hasEdge_congr _ _ hEB]
    unfold itsF
    rw [orderOf_congr _ _ hEA, orderOf_congr _ _ hEB]
    cases hf : I.edges.find? (ematch u v) with
    | none =>
      have hnone : ∀ e ∈ I.edges, ematch u v e = false := by
        intro e he'
        have := List.find?_eq_none.1 hf e he'
        simpa using this
      rw [decEdges_none _ I [] u v hnone, decEdges_none _ I [] u v hnone, edge?_none_of I u v hnone]
      rfl
    | some e =>
      have hmem := List.mem_of_find?_eq_some hf
      have hm := List.find?_some hf
      obtain ⟨a, b, hord, ha, hb, hab, hstd⟩ := he e hmem
      obtain ⟨h1, h2⟩ := decEdges_lookup Prod.fst I hI [] u v e hmem hm a b a hord rfl ha
      obtain ⟨h3, h4⟩ := decEdges_lookup Prod.snd I hI [] u v e hmem hm a b b hord rfl hb
      rw [h1, h2, h3, h4, edge?_of_mem I hI u v e hmem hm]
      have hor : (decide (0 < a) || decide (0 < b)) = true := by
        simp only [Bool.or_eq_true, decide_eq_true_eq]; omega
      rw [hor]
      simp only [if_true, Option.map_some, get_def, hord, hstd, Option.getD_some]
      rfl


/-! ## Reversal -/

/-- Swap a pair. -/
def vswap : Val → Val
  | .tup [a, b] => .tup [b, a]
  | v => v

theorem orderOf_num (S : LGraph) (hS : EdgePos S) (u v : Nat) : ∃ c : Int, orderOf S u v = .num c := by
  unfold orderOf
  rw [edge?_eq]
  cases hf : S.edges.find? (ematch u v) with
  | none => exact ⟨0, rfl⟩
  | some e =>
    obtain ⟨h, _, hord⟩ := hS e (List.mem_of_find?_eq_some hf)
    exact ⟨h, by simp [hord]⟩

theorem construct_swap' (o : Opts) (G H : LGraph) (hG : EdgePos G) (hH : EdgePos H) (u v : Nat) :
    ((construct o H G).edge? u v).map (fun x => (x.get "order", x.get "standard_order")) =
      ((construct o G H).edge? u v).map
        (fun x => (vswap (x.get "order"), vneg (x.get "standard_order"))) := by
  rw [construct_edge?, construct_edge?, Bool.or_comm]
  obtain ⟨a, ha⟩ := orderOf_num G hG u v
  obtain ⟨b, hb⟩ := orderOf_num H hH u v
  cases G.hasEdge u v || H.hasEdge u v
  · rfl
  · simp only [if_true, Option.map_some, itsF, ha, hb, itsEdgeAttrs_order, itsEdgeAttrs_std,
      standardOrder_swap o.ignoreArom a b, vswap]

end SynKit.ITS.C01L

import SynKitModel.SubgraphSearch
import SynKitProofs.Match
import SynKitProofs.GraphAlg
import Mathlib.Data.List.Basic
import Mathlib.Data.List.Nodup
import Mathlib.Data.List.Pairwise
import Mathlib.Data.List.Perm.Basic
import Mathlib.Tactic.Linarith
/-! Helper lemmas for C06 (`SubgraphSearchEngine.find_subgraph_mappings`). -/
namespace SynKit.SubgraphSearch
open SynKit.Match SynKit.GraphAlg

/-! ## limits: the result loops -/

/-- Number of results after which a loop stops: `max_results` (if truthy) or `threshold + 1`. -/
def stopLen (maxRes thr : Nat) : Nat := if maxRes = 0 then thr + 1 else min maxRes (thr + 1)

/-- The final guard of `find_subgraph_mappings`. -/
def guard {α : Type} (thr : Nat) (l : List α) : List α := if l.length > thr then [] else l

theorem collect_eq_gen {α : Type} (k thr : Nat) (l acc : List α)
    (h1 : k = 0 ∨ acc.length < k) (h2 : acc.length ≤ thr) :
    collect k thr l acc =
      if k ≠ 0 ∧ k ≤ acc.length + l.length ∧ k ≤ thr + 1 then acc.reverse ++ l.take (k - acc.length)
      else if acc.length + l.length > thr then [] else acc.reverse ++ l := by
  induction l generalizing acc with
  | nil =>
    simp only [collect, List.length_nil, Nat.add_zero, List.take_nil, List.append_nil]
    have : ¬ (k ≠ 0 ∧ k ≤ acc.length ∧ k ≤ thr + 1) := by
      rintro ⟨a, b, -⟩; rcases h1 with h | h <;> omega
    rw [if_neg this, if_neg (by omega)]
  | cons x xs ih =>
    simp only [collect, List.length_cons]
    by_cases hk : k ≠ 0 ∧ acc.length + 1 ≥ k
    · rw [if_pos hk]
      have hk' : k = acc.length + 1 := by rcases h1 with h | h <;> omega
      have : k ≠ 0 ∧ k ≤ acc.length + (xs.length + 1) ∧ k ≤ thr + 1 := ⟨hk.1, by omega, by omega⟩
      rw [if_pos this]
      have : k - acc.length = 1 := by omega
      rw [this]; simp
    · rw [if_neg hk]
      by_cases ht : acc.length + 1 > thr
      · rw [if_pos ht]
        have : ¬ (k ≠ 0 ∧ k ≤ acc.length + (xs.length + 1) ∧ k ≤ thr + 1) := by
          rintro ⟨a, b, c⟩; apply hk; exact ⟨a, by omega⟩
        rw [if_neg this, if_pos (by omega)]
      · rw [if_neg ht, ih (x :: acc) (by simp only [List.length_cons]; by_cases k = 0 <;> [left; right] <;> omega)
          (by simp only [List.length_cons]; omega)]
        simp only [List.length_cons, List.reverse_cons, List.append_assoc, List.singleton_append]
        have e1 : acc.length + 1 + xs.length = acc.length + (xs.length + 1) := by omega
        rw [e1]
        by_cases hc : k ≠ 0 ∧ k ≤ acc.length + (xs.length + 1) ∧ k ≤ thr + 1
        · rw [if_pos hc, if_pos hc]
          have : k - acc.length = (k - (acc.length + 1)) + 1 := by omega
          rw [this, List.take_succ_cons]
        · rw [if_neg hc, if_neg hc]

theorem collect_eq {α : Type} (k thr : Nat) (l : List α) :
    collect k thr l [] =
      if k ≠ 0 ∧ k ≤ l.length ∧ k ≤ thr + 1 then l.take k else if l.length > thr then [] else l := by
  have := collect_eq_gen k thr l [] (by simp; omega) (by simp)
  simpa using this

/-- After the final guard the exhaustive loop is "take `stopLen`, then empty past the threshold". -/
theorem guard_collect {α : Type} (k thr : Nat) (l : List α) :
    guard thr (collect k thr l []) = guard thr (l.take (stopLen k thr)) := by
  rw [collect_eq]
  unfold guard stopLen
  by_cases hk : k = 0
  · subst hk
    simp only [ne_eq, not_true_eq_false, false_and, if_false, if_true, List.length_take]
    by_cases h : l.length > thr
    · rw [if_pos h]; simp only [List.length_nil, gt_iff_lt, Nat.not_lt_zero, if_false]
      rw [if_pos (by omega)]
    · rw [if_neg h, if_neg h, if_neg (by omega)]
      rw [List.take_of_length_le (by omega)]
  · simp only [hk, if_false, List.length_take]
    by_cases hc : k ≠ 0 ∧ k ≤ l.length ∧ k ≤ thr + 1
    · rw [if_pos hc, Nat.min_eq_left hc.2.2]
      simp [List.length_take]
    · rw [if_neg hc]
      by_cases h : l.length > thr
      · rw [if_pos h]
        simp only [List.length_nil, gt_iff_lt, Nat.not_lt_zero, if_false]
        have : min (min k (thr + 1)) l.length > thr := by
          have : ¬ (k ≤ l.length ∧ k ≤ thr + 1) := fun hh => hc ⟨hk, hh⟩
          omega
        rw [if_pos this]
      · rw [if_neg h, if_neg h]
        have : min k (thr + 1) ≥ l.length := by
          have : ¬ (k ≤ l.length ∧ k ≤ thr + 1) := fun hh => hc ⟨hk, hh⟩
          omega
        rw [List.take_of_length_le this, if_neg (by omega)]

/-! ## the back-tracking loop as "feed an enumeration into the result list" -/

/-- The unlimited enumeration the back-tracking loop walks through. -/
def enum (P : LGraph) : List (List (Nat × Mapping)) → List Nat → Mapping → List Mapping
  | [], _, acc => [normalize P acc]
  | lvl :: rest, used, acc =>
    lvl.flatMap fun hm => if skip used acc hm.1 hm.2 then [] else enum P rest (hm.1 :: used) (acc ++ hm.2)

/-- Append the elements of `l` one at a time, checking the stop conditions before each. -/
def feed (k thr : Nat) : List Mapping → List Mapping → List Mapping
  | res, [] => res
  | res, x :: xs => if stop k thr res then res else feed k thr (res ++ [x]) xs

theorem feed_of_stop (k thr : Nat) (res l : List Mapping) (h : stop k thr res = true) : feed k thr res l = res := by
  cases l with
  | nil => rfl
  | cons x xs => simp [feed, h]

theorem feed_append (k thr : Nat) (res a b : List Mapping) :
    feed k thr res (a ++ b) = feed k thr (feed k thr res a) b := by
  induction a generalizing res with
  | nil => rfl
  | cons x xs ih =>
    simp only [List.cons_append, feed]
    by_cases h : stop k thr res = true
    · simp [h, feed_of_stop]
    · simp [h, ih]

theorem btItems_eq (k thr : Nat) (next : List Nat → Mapping → List Mapping → List Mapping)
    (f : List Nat → Mapping → List Mapping)
    (hnext : ∀ used acc res, next used acc res = feed k thr res (f used acc))
    (used : List Nat) (acc : Mapping) (items : List (Nat × Mapping)) (res : List Mapping) :
    btItems k thr next used acc items res =
      feed k thr res (items.flatMap fun hm => if skip used acc hm.1 hm.2 then [] else f (hm.1 :: used) (acc ++ hm.2)) := by
  induction items generalizing res with
  | nil => rfl
  | cons x xs ih =>
    obtain ⟨hi, m⟩ := x
    simp only [btItems, List.flatMap_cons]
    by_cases hs : skip used acc hi m = true
    · simp [hs, ih]
    · simp only [hs, Bool.false_eq_true, if_false, feed_append, hnext]
      by_cases hst : stop k thr (feed k thr res (f (hi :: used) (acc ++ m))) = true
      · simp [hst, feed_of_stop]
      · simp [hst, ih]

theorem btLevel_eq (P : LGraph) (k thr : Nat) (levels : List (List (Nat × Mapping))) (used : List Nat)
    (acc : Mapping) (res : List Mapping) :
    btLevel P k thr levels used acc res = feed k thr res (enum P levels used acc) := by
  induction levels generalizing used acc res with
  | nil =>
    simp only [btLevel, enum, feed]
  | cons lvl rest ih =>
    simp only [btLevel, enum]
    by_cases h : stop k thr res = true
    · simp [h, feed_of_stop]
    · simp only [h, Bool.false_eq_true, if_false]
      exact btItems_eq k thr _ (enum P rest) (fun u a r => ih u a r) used acc lvl res

theorem stop_iff (k thr : Nat) (res : List Mapping) : stop k thr res = true ↔ stopLen k thr ≤ res.length := by
  unfold stop stopLen
  by_cases hk : k = 0
  · simp [hk]; omega
  · simp [hk]; omega

theorem feed_eq_take (k thr : Nat) (res l : List Mapping) (h : res.length ≤ stopLen k thr) :
    feed k thr res l = res ++ l.take (stopLen k thr - res.length) := by
  induction l generalizing res with
  | nil => simp [feed]
  | cons x xs ih =>
    simp only [feed]
    by_cases hs : stop k thr res = true
    · rw [if_pos hs]
      have := (stop_iff k thr res).1 hs
      have : stopLen k thr - res.length = 0 := by omega
      rw [this]; simp
    · rw [if_neg hs]
      have hlt : res.length < stopLen k thr := by
        by_contra hh; exact hs ((stop_iff k thr res).2 (by omega))
      rw [ih (res ++ [x]) (by simp; omega)]
      have : stopLen k thr - res.length = (stopLen k thr - (res ++ [x]).length) + 1 := by simp; omega
      rw [this, List.take_succ_cons]; simp

theorem btLevel_nil_eq (P : LGraph) (k thr : Nat) (levels : List (List (Nat × Mapping))) :
    btLevel P k thr levels [] [] [] = (enum P levels [] []).take (stopLen k thr) := by
  rw [btLevel_eq, feed_eq_take _ _ _ _ (by simp)]
  simp


/-! ## sub-graphs on a node set -/

theorem sub_ids (G : LGraph) (c : List Nat) : (sub G c).ids = G.ids.filter c.contains := by
  unfold sub LGraph.ids
  simp only [List.filter_map]
  rfl

theorem mem_sub_ids (G : LGraph) (c : List Nat) (v : Nat) : v ∈ (sub G c).ids ↔ v ∈ G.ids ∧ v ∈ c := by
  rw [sub_ids]; simp

theorem find?_filter_of_imp {α : Type} (l : List α) (p q : α → Bool) (h : ∀ a ∈ l, p a = true → q a = true) :
    (l.filter q).find? p = l.find? p := by
  induction l with
  | nil => rfl
  | cons x xs ih =>
    have ih' := ih (fun a ha => h a (List.mem_cons_of_mem _ ha))
    by_cases hq : q x = true
    · rw [List.filter_cons_of_pos hq, List.find?_cons, List.find?_cons, ih']
    · rw [List.filter_cons_of_neg hq, List.find?_cons, ih']
      have : p x = false := by
        cases hp : p x with
        | false => rfl
        | true => exact absurd (h x List.mem_cons_self hp) hq
      rw [this]

theorem sub_attrs (G : LGraph) (c : List Nat) (v : Nat) (hv : v ∈ c) : (sub G c).attrs v = G.attrs v := by
  unfold LGraph.attrs sub
  simp only
  rw [find?_filter_of_imp]
  intro a _ ha
  simp only [decide_eq_true_eq] at ha
  simp [ha, hv]

theorem mem_sub_edges (G : LGraph) (c : List Nat) (e : Nat × Nat × Attrs) :
    e ∈ (sub G c).edges ↔ e ∈ G.edges ∧ e.1 ∈ c ∧ e.2.1 ∈ c := by
  unfold sub; simp

/-- An edge of the sub-graph is the same edge of the graph. -/
theorem sub_edge? (G : LGraph) (c : List Nat) (u v : Nat) (a : Attrs) (h : (sub G c).edge? u v = some a) :
    G.edge? u v = some a := by
  obtain ⟨e, he, -, hends⟩ := edge?_some_mem (sub G c) u v a h
  have hc := ((mem_sub_edges G c e).1 he).2
  have huv : u ∈ c ∧ v ∈ c := by
    rcases hends with ⟨h1, h2⟩ | ⟨h1, h2⟩
    · exact ⟨h1 ▸ hc.1, h2 ▸ hc.2⟩
    · exact ⟨h2 ▸ hc.2, h1 ▸ hc.1⟩
  rw [← h]
  unfold LGraph.edge? sub
  simp only
  rw [find?_filter_of_imp]
  intro x _ hx
  simp only [decide_eq_true_eq] at hx
  rcases hx with ⟨h1, h2⟩ | ⟨h1, h2⟩ <;> simp [h1, h2, huv.1, huv.2]

theorem sub_WF (G : LGraph) (hG : G.WF) (c : List Nat) : (sub G c).WF := by
  obtain ⟨h1, h2, h3⟩ := hG
  refine ⟨?_, ?_, ?_⟩
  · rw [sub_ids]; exact h1.filter _
  · intro e he
    obtain ⟨he', hc1, hc2⟩ := (mem_sub_edges G c e).1 he
    obtain ⟨a, b, d⟩ := h2 e he'
    exact ⟨(mem_sub_ids G c _).2 ⟨a, hc1⟩, (mem_sub_ids G c _).2 ⟨b, hc2⟩, d⟩
  · refine h3.sublist ?_
    unfold sub
    exact (List.filter_sublist).map _

/-- A component is a duplicate-free sub-list of the node list, so the sub-graph has exactly its nodes. -/
theorem sub_ids_of_component (G : LGraph) (hG : G.WF) (c : List Nat) (hc : c ∈ comps G) : (sub G c).ids = c := by
  rw [sub_ids]
  have hs := components_sublist G.ids (endpoints G) c hc
  have hn := hG.1
  clear hc
  generalize G.ids = l at hs hn
  induction hs with
  | slnil => rfl
  | cons a hs ih =>
    rename_i l₁ l₂
    rw [List.nodup_cons] at hn
    have : a ∉ l₁ := fun h => hn.1 (hs.subset h)
    rw [List.filter_cons_of_neg (by simpa using this)]
    exact ih hn.2
  | cons_cons a hs ih =>
    rename_i l₁ l₂
    rw [List.nodup_cons] at hn
    rw [List.filter_cons_of_pos (by simp)]
    congr 1
    have ih' := ih hn.2
    have hna : a ∉ l₂ := hn.1
    refine Eq.trans ?_ ih'
    apply List.filter_congr
    intro x hx
    have : x ≠ a := fun h => hna (h ▸ hx)
    simp [this]

theorem mem_endpoints (G : LGraph) (e : Nat × Nat × Attrs) (he : e ∈ G.edges) : (e.1, e.2.1) ∈ endpoints G :=
  List.mem_map.2 ⟨e, he, rfl⟩

/-- The two ends of an edge lie in the same component. -/
theorem edge_same_component (G : LGraph) (hG : G.WF) (e : Nat × Nat × Attrs) (he : e ∈ G.edges)
    (c : List Nat) (hc : c ∈ comps G) (h1 : e.1 ∈ c) : e.2.1 ∈ c := by
  obtain ⟨a, b, -⟩ := hG.2.1 e he
  refine (mem_components_iff G.ids (endpoints G) hG.1 c e.1 hc h1 e.2.1).2 ⟨b, ?_⟩
  exact Relation.ReflTransGen.single ⟨a, b, Or.inl (mem_endpoints G e he)⟩

/-! ## per-component embeddings, ordering of the levels -/

theorem mem_perComponent (sel : Sel) (hostCcs : List LGraph) (pc : LGraph) (i : Nat) (m : Mapping) :
    (i, m) ∈ perComponent sel hostCcs pc ↔
      ∃ hg, hostCcs[i]? = some hg ∧ hg.nodes.length ≥ pc.nodes.length ∧ m ∈ allMonos sel hg pc := by
  unfold perComponent
  simp only [List.mem_flatMap, List.mem_filter, List.mem_zipIdx_iff_getElem?, List.mem_map, Prod.mk.injEq,
    decide_eq_true_eq]
  constructor
  · rintro ⟨⟨hg, j⟩, ⟨h1, h2⟩, m', hm', rfl, rfl⟩
    exact ⟨hg, h1, h2, hm'⟩
  · rintro ⟨hg, h1, h2, h3⟩
    exact ⟨(hg, i), ⟨h1, h2⟩, m, h3, rfl, rfl⟩

theorem insertByLen_perm {α : Type} (x : List α) (ys : List (List α)) : (insertByLen x ys).Perm (x :: ys) := by
  induction ys with
  | nil => exact List.Perm.refl _
  | cons y ys ih =>
    simp only [insertByLen]
    split
    · exact List.Perm.refl _
    · exact (List.Perm.cons y ih).trans (List.Perm.swap x y ys)

theorem sortByLen_perm {α : Type} (xs : List (List α)) : (sortByLen xs).Perm xs := by
  unfold sortByLen
  have : ∀ init : List (List α), (xs.foldl (fun acc x => insertByLen x acc) init).Perm (xs ++ init) := by
    induction xs with
    | nil => intro init; exact List.Perm.refl _
    | cons x xs ih =>
      intro init
      simp only [List.foldl_cons, List.cons_append]
      refine (ih _).trans ?_
      refine (List.Perm.append_left xs (insertByLen_perm x init)).trans ?_
      exact List.perm_middle
  simpa using this []

/-! ## the choices made by the back-tracking loop -/

def KeyDisj (a b : Mapping) : Prop := ∀ x ∈ a, ∀ y ∈ b, x.1 ≠ y.1

theorem skip_false_iff (used : List Nat) (acc : Mapping) (hi : Nat) (m : Mapping) :
    skip used acc hi m = false ↔ hi ∉ used ∧ KeyDisj m acc := by
  unfold skip KeyDisj
  simp only [Bool.or_eq_false_iff, List.contains_eq_mem, decide_eq_false_iff_not, List.any_eq_false,
    decide_eq_true_eq, List.any_eq_true, not_exists, not_and]
  constructor
  · rintro ⟨h1, h2⟩; exact ⟨h1, fun x hx y hy e => h2 x hx y hy e.symm⟩
  · rintro ⟨h1, h2⟩; exact ⟨h1, fun x hx y hy e => h2 x hx y hy e.symm⟩

/-- One accepted item per level, in level order. -/
def Picks : List (List (Nat × Mapping)) → List Nat → Mapping → List (Nat × Mapping) → Prop
  | [], _, _, [] => True
  | lvl :: rest, used, acc, pk :: pks =>
    pk ∈ lvl ∧ skip used acc pk.1 pk.2 = false ∧ Picks rest (pk.1 :: used) (acc ++ pk.2) pks
  | [], _, _, _ :: _ => False
  | _ :: _, _, _, [] => False

theorem mem_enum (P : LGraph) (levels : List (List (Nat × Mapping))) (used : List Nat) (acc m : Mapping) :
    m ∈ enum P levels used acc ↔
      ∃ pks, Picks levels used acc pks ∧ m = normalize P (acc ++ pks.flatMap (·.2)) := by
  induction levels generalizing used acc with
  | nil =>
    simp only [enum, List.mem_singleton]
    constructor
    · rintro rfl; exact ⟨[], trivial, by simp⟩
    · rintro ⟨pks, hp, rfl⟩
      cases pks with
      | nil => simp
      | cons _ _ => exact absurd hp (by simp [Picks])
  | cons lvl rest ih =>
    simp only [enum, List.mem_flatMap]
    constructor
    · rintro ⟨pk, hpk, hm⟩
      split at hm
      · simp at hm
      · next hs =>
        obtain ⟨pks, hp, rfl⟩ := (ih _ _).1 hm
        refine ⟨pk :: pks, ⟨hpk, by simpa using hs, hp⟩, ?_⟩
        simp [List.append_assoc]
    · rintro ⟨pks, hp, rfl⟩
      cases pks with
      | nil => exact absurd hp (by simp [Picks])
      | cons pk pks =>
        obtain ⟨h1, h2, h3⟩ := hp
        refine ⟨pk, h1, ?_⟩
        rw [if_neg (by simp [h2])]
        exact (ih _ _).2 ⟨pks, h3, by simp [List.append_assoc]⟩

theorem picks_mem_level (levels : List (List (Nat × Mapping))) (used : List Nat) (acc : Mapping)
    (pks : List (Nat × Mapping)) (h : Picks levels used acc pks) :
    (∀ pk ∈ pks, ∃ lvl ∈ levels, pk ∈ lvl) ∧ (∀ lvl ∈ levels, ∃ pk ∈ pks, pk ∈ lvl) := by
  induction levels generalizing used acc pks with
  | nil =>
    cases pks with
    | nil => simp
    | cons _ _ => exact absurd h (by simp [Picks])
  | cons lvl rest ih =>
    cases pks with
    | nil => exact absurd h (by simp [Picks])
    | cons pk pks =>
      obtain ⟨h1, -, h3⟩ := h
      obtain ⟨i1, i2⟩ := ih _ _ _ h3
      constructor
      · intro x hx
        rcases List.mem_cons.1 hx with rfl | hx
        · exact ⟨lvl, List.mem_cons_self, h1⟩
        · obtain ⟨l, hl, hxl⟩ := i1 x hx
          exact ⟨l, List.mem_cons_of_mem _ hl, hxl⟩
      · intro l hl
        rcases List.mem_cons.1 hl with rfl | hl
        · exact ⟨pk, List.mem_cons_self, h1⟩
        · obtain ⟨x, hx, hxl⟩ := i2 l hl
          exact ⟨x, List.mem_cons_of_mem _ hx, hxl⟩

theorem picks_pairwise (levels : List (List (Nat × Mapping))) (used : List Nat) (acc : Mapping)
    (pks : List (Nat × Mapping)) (h : Picks levels used acc pks) :
    pks.Pairwise (fun a b => a.1 ≠ b.1 ∧ KeyDisj a.2 b.2) ∧
      ∀ pk ∈ pks, pk.1 ∉ used ∧ KeyDisj pk.2 acc := by
  induction levels generalizing used acc pks with
  | nil =>
    cases pks with
    | nil => simp
    | cons _ _ => exact absurd h (by simp [Picks])
  | cons lvl rest ih =>
    cases pks with
    | nil => exact absurd h (by simp [Picks])
    | cons pk pks =>
      obtain ⟨-, h2, h3⟩ := h
      obtain ⟨i1, i2⟩ := ih _ _ _ h3
      rw [skip_false_iff] at h2
      refine ⟨List.pairwise_cons.2 ⟨?_, i1⟩, ?_⟩
      · intro b hb
        obtain ⟨j1, j2⟩ := i2 b hb
        refine ⟨fun e => j1 (e ▸ List.mem_cons_self), ?_⟩
        intro x hx y hy e
        exact j2 y hy x (List.mem_append_right _ hx) e.symm
      · intro x hx
        rcases List.mem_cons.1 hx with rfl | hx
        · exact h2
        · obtain ⟨j1, j2⟩ := i2 x hx
          exact ⟨fun e => j1 (List.mem_cons_of_mem _ e), fun a ha b hb => j2 a ha b (List.mem_append_left _ hb)⟩


/-! ## `normalize`: the dict read in the pattern's node order -/

theorem mem_normalize (P : LGraph) (A : Mapping) (x : Nat × Nat) :
    x ∈ normalize P A ↔ x.1 ∈ P.ids ∧ A.get? x.1 = some x.2 := by
  unfold normalize
  rw [List.mem_filterMap]
  constructor
  · rintro ⟨p, hp, hx⟩
    cases hg : A.get? p with
    | none => rw [hg] at hx; cases hx
    | some h => rw [hg] at hx; cases hx; exact ⟨hp, hg⟩
  · rintro ⟨hp, hg⟩
    exact ⟨x.1, hp, by rw [hg]; rfl⟩

theorem normalize_fst (P : LGraph) (A : Mapping) (h : ∀ p ∈ P.ids, ∃ v, A.get? p = some v) :
    (normalize P A).map Prod.fst = P.ids := by
  unfold normalize
  generalize P.ids = l at h
  induction l with
  | nil => rfl
  | cons p ps ih =>
    obtain ⟨v, hv⟩ := h p List.mem_cons_self
    rw [List.filterMap_cons, hv]
    simp only [Option.map_some, List.map_cons]
    rw [ih (fun q hq => h q (List.mem_cons_of_mem _ hq))]

theorem normalize_get? (P : LGraph) (hP : P.ids.Nodup) (A : Mapping) (h : ∀ p ∈ P.ids, ∃ v, A.get? p = some v)
    (p : Nat) (hp : p ∈ P.ids) : (normalize P A).get? p = A.get? p := by
  obtain ⟨v, hv⟩ := h p hp
  rw [hv]
  apply get?_of_mem
  · have : (normalize P A).map (·.1) = P.ids := normalize_fst P A h
    rw [this]; exact hP
  · exact (mem_normalize P A (p, v)).2 ⟨hp, hv⟩

/-! ## gluing per-component embeddings -/

def DistinctComponents (H P : LGraph) (m : Mapping) : Prop :=
  ∀ p q hp hq, m.get? p = some hp → m.get? q = some hq →
    ¬ Conn P.ids (endpoints P) p q → ¬ Conn H.ids (endpoints H) hp hq

/-- What the items picked by a complete run of the back-tracking loop satisfy. -/
structure Glue (sel : Sel) (H P : LGraph) (pks : List (Nat × Mapping)) : Prop where
  pw : pks.Pairwise (fun a b => a.1 ≠ b.1 ∧ KeyDisj a.2 b.2)
  each : ∀ pk ∈ pks, ∃ pc ∈ comps P, ∃ hc, (comps H)[pk.1]? = some hc ∧ IsMono sel (sub H hc) (sub P pc) pk.2
  cover : ∀ pc ∈ comps P, ∃ pk ∈ pks, ∃ hc, (comps H)[pk.1]? = some hc ∧ IsMono sel (sub H hc) (sub P pc) pk.2

theorem comps_getElem?_disjoint (G : LGraph) (hG : G.WF) (i j : Nat) (ci cj : List Nat) (hij : i ≠ j)
    (hi : (comps G)[i]? = some ci) (hj : (comps G)[j]? = some cj) : List.Disjoint ci cj := by
  have hd := components_disjoint G.ids (endpoints G) hG.1
  rw [List.pairwise_iff_getElem] at hd
  obtain ⟨hi', rfl⟩ := List.getElem?_eq_some_iff.1 hi
  obtain ⟨hj', rfl⟩ := List.getElem?_eq_some_iff.1 hj
  rcases Nat.lt_or_gt_of_ne hij with h | h
  · exact hd i j hi' hj' h
  · exact fun a h1 h2 => hd j i hj' hi' h h2 h1

/-- The dict `acc` after all picks: the concatenation of the picked embeddings. -/
abbrev flat (pks : List (Nat × Mapping)) : Mapping := pks.flatMap (·.2)

section GlueProof
variable {sel : Sel} {H P : LGraph} {pks : List (Nat × Mapping)}

theorem Glue.mono_fst (hP : P.WF) (g : Glue sel H P pks) (pk) (hpk : pk ∈ pks) :
    ∃ pc ∈ comps P, ∃ hc, (comps H)[pk.1]? = some hc ∧ IsMono sel (sub H hc) (sub P pc) pk.2 ∧
      pk.2.map (·.1) = pc ∧ ∀ x ∈ pk.2, x.2 ∈ hc ∧ x.2 ∈ H.ids := by
  obtain ⟨pc, hpc, hc, h1, h2⟩ := g.each pk hpk
  refine ⟨pc, hpc, hc, h1, h2, ?_, ?_⟩
  · have : pk.2.map (·.1) = (sub P pc).ids := h2.1
    rw [this, sub_ids_of_component P hP pc hpc]
  · intro x hx
    have := (h2.2.2.1 x hx).1
    rw [mem_sub_ids] at this
    exact ⟨this.2, this.1⟩

theorem Glue.keys_nodup (hP : P.WF) (g : Glue sel H P pks) : ((flat pks).map (·.1)).Nodup := by
  rw [List.map_flatMap, List.nodup_flatMap]
  refine ⟨?_, ?_⟩
  · intro pk hpk
    obtain ⟨pc, hpc, hc, -, h2⟩ := g.each pk hpk
    have : pk.2.map (·.1) = (sub P pc).ids := h2.1
    rw [this]; exact (sub_WF P hP pc).1
  · refine g.pw.imp ?_
    rintro a b ⟨-, hk⟩
    show List.Disjoint _ _
    intro x hxa hxb
    obtain ⟨u, hu, rfl⟩ := List.mem_map.1 hxa
    obtain ⟨v, hv, hv'⟩ := List.mem_map.1 hxb
    exact hk u hu v hv hv'.symm

theorem Glue.vals_nodup (hH : H.WF) (hP : P.WF) (g : Glue sel H P pks) : ((flat pks).map (·.2)).Nodup := by
  rw [List.map_flatMap, List.nodup_flatMap]
  refine ⟨?_, ?_⟩
  · intro pk hpk
    obtain ⟨pc, hpc, hc, -, h2⟩ := g.each pk hpk
    exact h2.2.1
  · refine g.pw.imp_of_mem ?_
    rintro a b ha hb ⟨hne, -⟩
    show List.Disjoint _ _
    intro x hxa hxb
    obtain ⟨u, hu, rfl⟩ := List.mem_map.1 hxa
    obtain ⟨v, hv, hv'⟩ := List.mem_map.1 hxb
    obtain ⟨_, _, hca, h1a, -, -, h3a⟩ := g.mono_fst hP a ha
    obtain ⟨_, _, hcb, h1b, -, -, h3b⟩ := g.mono_fst hP b hb
    have hd := comps_getElem?_disjoint H hH a.1 b.1 hca hcb hne h1a h1b
    exact hd (h3a u hu).1 (hv' ▸ (h3b v hv).1)

theorem Glue.get?_of_mem_pick (hP : P.WF) (g : Glue sel H P pks) (pk) (hpk : pk ∈ pks) (x) (hx : x ∈ pk.2) :
    (flat pks).get? x.1 = some x.2 :=
  get?_of_mem _ (g.keys_nodup hP) x.1 x.2 (List.mem_flatMap.2 ⟨pk, hpk, hx⟩)

theorem Glue.total (hP : P.WF) (g : Glue sel H P pks) (p : Nat) (hp : p ∈ P.ids) :
    ∃ v, (flat pks).get? p = some v := by
  obtain ⟨pc, hpc, hpm⟩ := (components_cover P.ids (endpoints P) hP.1 p).1 hp
  obtain ⟨pk, hpk, hc, -, h2⟩ := g.cover pc hpc
  have : p ∈ pk.2.map (·.1) := by
    have e : pk.2.map (·.1) = (sub P pc).ids := h2.1
    rw [e, sub_ids_of_component P hP pc hpc]; exact hpm
  obtain ⟨x, hx, rfl⟩ := List.mem_map.1 this
  exact ⟨x.2, g.get?_of_mem_pick hP pk hpk x hx⟩

theorem Glue.isMono (hH : H.WF) (hP : P.WF) (g : Glue sel H P pks) :
    IsMono sel H P (normalize P (flat pks)) := by
  have htot := g.total hP
  have hfst := normalize_fst P _ htot
  have hsub : ∀ x ∈ normalize P (flat pks), x ∈ pks.flatMap (·.2) := by
    intro x hx
    exact mem_of_get? _ x.1 x.2 ((mem_normalize P _ x).1 hx).2
  refine ⟨hfst, ?_, ?_, ?_⟩
  · refine List.Nodup.map_on ?_ ?_
    · intro x hx y hy e
      exact List.inj_on_of_nodup_map (g.vals_nodup hH hP) (hsub x hx) (hsub y hy) e
    · refine List.Nodup.of_map Prod.fst ?_
      rw [hfst]; exact hP.1
  · intro x hx
    obtain ⟨pk, hpk, hxp⟩ := List.mem_flatMap.1 (hsub x hx)
    obtain ⟨pc, hpc, hc, h1, h2, h3, h4⟩ := g.mono_fst hP pk hpk
    refine ⟨(h4 x hxp).2, ?_⟩
    have := (h2.2.2.1 x hxp).2
    rw [sub_attrs H hc x.2 (h4 x hxp).1, sub_attrs P pc x.1 (h3 ▸ List.mem_map.2 ⟨x, hxp, rfl⟩)] at this
    exact this
  · intro e he
    obtain ⟨a, b, -⟩ := hP.2.1 e he
    obtain ⟨pc, hpc, hpm⟩ := (components_cover P.ids (endpoints P) hP.1 e.1).1 a
    have hpm2 := edge_same_component P hP e he pc hpc hpm
    obtain ⟨pk, hpk, hc, -, h2⟩ := g.cover pc hpc
    obtain ⟨hu, hv, ea, g1, g2, g3, g4⟩ := h2.2.2.2 e ((mem_sub_edges P pc e).2 ⟨he, hpm, hpm2⟩)
    refine ⟨hu, hv, ea, ?_, ?_, sub_edge? H hc hu hv ea g3, g4⟩
    · rw [normalize_get? P hP.1 _ htot e.1 a]
      exact g.get?_of_mem_pick hP pk hpk (e.1, hu) (mem_of_get? _ _ _ g1)
    · rw [normalize_get? P hP.1 _ htot e.2.1 b]
      exact g.get?_of_mem_pick hP pk hpk (e.2.1, hv) (mem_of_get? _ _ _ g2)

theorem Glue.distinct (hH : H.WF) (hP : P.WF) (g : Glue sel H P pks) :
    DistinctComponents H P (normalize P (flat pks)) := by
  intro p q hp hq gp gq hnc hconn
  have hmp := (mem_normalize P _ (p, hp)).1 (mem_of_get? _ _ _ gp)
  have hmq := (mem_normalize P _ (q, hq)).1 (mem_of_get? _ _ _ gq)
  obtain ⟨pa, hpa, hxa⟩ := List.mem_flatMap.1 (mem_of_get? _ _ _ hmp.2)
  obtain ⟨pb, hpb, hxb⟩ := List.mem_flatMap.1 (mem_of_get? _ _ _ hmq.2)
  obtain ⟨pca, hpca, hca, h1a, -, h3a, h4a⟩ := g.mono_fst hP pa hpa
  obtain ⟨pcb, hpcb, hcb, h1b, -, h3b, h4b⟩ := g.mono_fst hP pb hpb
  have hpin : p ∈ pca := h3a ▸ List.mem_map.2 ⟨(p, hp), hxa, rfl⟩
  have hqin : q ∈ pcb := h3b ▸ List.mem_map.2 ⟨(q, hq), hxb, rfl⟩
  by_cases hab : pa = pb
  · subst hab
    rw [h1a] at h1b; cases h1b
    have : pca = pcb := h3a.symm.trans h3b
    subst this
    exact hnc ((mem_components_iff P.ids (endpoints P) hP.1 pca p hpca hpin q).1 hqin).2
  · have hsymm : Std.Symm (fun a b : Nat × Mapping => a.1 ≠ b.1 ∧ KeyDisj a.2 b.2) :=
      ⟨fun a b h => ⟨h.1.symm, fun x hx y hy e => h.2 y hy x hx e.symm⟩⟩
    have hne := (g.pw.forall hpa hpb hab).1
    have hd := comps_getElem?_disjoint H hH pa.1 pb.1 hca hcb hne h1a h1b
    have hca_mem : hca ∈ comps H := List.mem_of_getElem? h1a
    have := (mem_components_iff H.ids (endpoints H) hH.1 hca hp hca_mem (h4a _ hxa).1 hq).2 ⟨(h4b _ hxb).2, hconn⟩
    exact hd this (h4b _ hxb).1

end GlueProof


/-! ## the component-aware search in closed form -/

/-- `per_cc`: for every pattern component its embeddings into the candidate host components. -/
def perCc (sel : Sel) (H P : LGraph) : List (List (Nat × Mapping)) :=
  ((comps P).map (sub P)).map (perComponent sel ((comps H).map (sub H)))

/-- The unlimited list of combined mappings, in the order the back-tracking loop produces them. -/
def compEnum (sel : Sel) (H P : LGraph) : List Mapping := enum P (sortByLen (perCc sel H P)) [] []

theorem findComp_eq (sel : Sel) (H P : LGraph) (k : Nat) (strict : Bool) (thr : Nat) :
    findComp sel H P k strict thr =
      if (comps P).length = 0 then [[]]
      else if (comps H).length < (comps P).length then findAll sel H P k thr
      else if (comps H).length > (comps P).length ∧ strict = true then []
      else if (perCc sel H P).any (fun maps => maps.isEmpty) = true then []
      else if (perCc sel H P).any (fun maps => decide (maps.length > thr)) = true then []
      else (compEnum sel H P).take (stopLen k thr) := by
  unfold findComp compEnum perCc
  simp only [List.length_map, btLevel_nil_eq]

theorem mem_level_iff (sel : Sel) (H P : LGraph) (hP : P.WF) (pc : List Nat) (pk : Nat × Mapping) :
    pk ∈ perComponent sel ((comps H).map (sub H)) (sub P pc) →
      ∃ hc, (comps H)[pk.1]? = some hc ∧ IsMono sel (sub H hc) (sub P pc) pk.2 := by
  intro h
  obtain ⟨hg, h1, -, h3⟩ := (mem_perComponent sel _ (sub P pc) pk.1 pk.2).1 h
  rw [List.getElem?_map, Option.map_eq_some_iff] at h1
  obtain ⟨hc, h1, rfl⟩ := h1
  exact ⟨hc, h1, (mem_allMonos sel _ _ (sub_WF P hP pc) pk.2).1 h3⟩

theorem mem_compEnum_glue (sel : Sel) (H P : LGraph) (hP : P.WF) (m : Mapping) (hm : m ∈ compEnum sel H P) :
    ∃ pks, Glue sel H P pks ∧ m = normalize P (flat pks) := by
  obtain ⟨pks, hp, rfl⟩ := (mem_enum P _ [] [] m).1 hm
  refine ⟨pks, ⟨(picks_pairwise _ _ _ _ hp).1, ?_, ?_⟩, by simp⟩
  · intro pk hpk
    obtain ⟨lvl, hl, hin⟩ := (picks_mem_level _ _ _ _ hp).1 pk hpk
    rw [(sortByLen_perm _).mem_iff] at hl
    unfold perCc at hl
    simp only [List.map_map, List.mem_map, Function.comp] at hl
    obtain ⟨pc, hpc, rfl⟩ := hl
    exact ⟨pc, hpc, mem_level_iff sel H P hP pc pk hin⟩
  · intro pc hpc
    have hl : perComponent sel ((comps H).map (sub H)) (sub P pc) ∈ sortByLen (perCc sel H P) := by
      rw [(sortByLen_perm _).mem_iff]
      unfold perCc
      simp only [List.map_map, List.mem_map, Function.comp]
      exact ⟨pc, hpc, rfl⟩
    obtain ⟨pk, hpk, hin⟩ := (picks_mem_level _ _ _ _ hp).2 _ hl
    exact ⟨pk, hpk, mem_level_iff sel H P hP pc pk hin⟩

theorem mem_collect {α : Type} (k thr : Nat) (l : List α) (x : α) (h : x ∈ collect k thr l []) : x ∈ l := by
  rw [collect_eq] at h
  split at h
  · exact List.mem_of_mem_take h
  · split at h
    · cases h
    · exact h

theorem guard_take_stopLen {α : Type} (k thr : Nat) (l : List α) :
    guard thr (l.take (stopLen k thr)) =
      if k ≠ 0 ∧ k ≤ thr then l.take k else if l.length > thr then [] else l := by
  unfold guard stopLen
  by_cases hk : k = 0
  · subst hk
    simp only [if_true, ne_eq, not_true_eq_false, false_and, if_false, List.length_take]
    by_cases h : l.length > thr
    · rw [if_pos h, if_pos (by omega)]
    · rw [if_neg h, if_neg (by omega), List.take_of_length_le (by omega)]
  · simp only [hk, if_false, ne_eq, not_false_eq_true, true_and, List.length_take]
    by_cases h : k ≤ thr
    · have e : min k (thr + 1) = k := Nat.min_eq_left (by omega)
      rw [if_pos h, e, if_neg (by omega)]
    · have e : min k (thr + 1) = thr + 1 := Nat.min_eq_right (by omega)
      rw [if_neg h, e]
      by_cases h2 : l.length > thr
      · rw [if_pos h2, if_pos (by omega)]
      · rw [if_neg h2, if_neg (by omega), List.take_of_length_le (by omega)]

theorem isMono_nil_of_no_nodes (sel : Sel) (H P : LGraph) (hP : P.WF) (h : P.ids = []) : IsMono sel H P [] := by
  refine ⟨by simp [h], by simp, by simp, ?_⟩
  intro e he
  have := (hP.2.1 e he).1
  rw [h] at this; cases this

theorem ids_nil_of_no_comps (P : LGraph) (hP : P.WF) (h : (comps P).length = 0) : P.ids = [] := by
  cases hi : P.ids with
  | nil => rfl
  | cons v vs =>
    exfalso
    obtain ⟨c, hc, -⟩ := (components_cover P.ids (endpoints P) hP.1 v).1 (by rw [hi]; exact List.mem_cons_self)
    have : comps P = [] := List.eq_nil_of_length_eq_zero h
    unfold comps at this
    rw [this] at hc; cases hc

end SynKit.SubgraphSearch

import SynKitModel.SubgraphSearch
import SynKitProofs.Match
import SynKitProofs.GraphAlg
import Mathlib.Data.List.Basic
import Mathlib.Data.List.Nodup
import Mathlib.Data.List.Pairwise
import Mathlib.Data.List.Perm.Basic
import Mathlib.Tactic.Linarith
/-! Helper lemmas for C06 (`SubgraphSearchEngine.find_subgraph_mappings`). -/
namespace SynKit.SubgraphSearch
open SynKit.Match SynKit.GraphAlg

/-! ## limits: the result loops -/

/-- Number of results after which a loop stops: `max_results` (if truthy) or `threshold + 1`. -/
def stopLen (maxRes thr : Nat) : Nat := if maxRes = 0 then thr + 1 else min maxRes (thr + 1)

/-- The final guard of `find_subgraph_mappings`. -/
def guard {α : Type} (thr : Nat) (l : List α) : List α := if l.length > thr then [] else l

theorem collect_eq_gen {α : Type} (k thr : Nat) (l acc : List α)
    (h1 : k = 0 ∨ acc.length < k) (h2 : acc.length ≤ thr) :
    collect k thr l acc =
      if k ≠ 0 ∧ k ≤ acc.length + l.length ∧ k ≤ thr + 1 then acc.reverse ++ l.take (k - acc.length)
      else if acc.length + l.length > thr then [] else acc.reverse ++ l := by
  induction l generalizing acc with
  | nil =>
    simp only [collect, List.length_nil, Nat.add_zero, List.take_nil, List.append_nil]
    have : ¬ (k ≠ 0 ∧ k ≤ acc.length ∧ k ≤ thr + 1) := by
      rintro ⟨a, b, -⟩; rcases h1 with h | h <;> omega
    rw [if_neg this, if_neg (by omega)]
  | cons x xs ih =>
    simp only [collect, List.length_cons]
    by_cases hk : k ≠ 0 ∧ acc.length + 1 ≥ k
    · rw [if_pos hk]
      have hk' : k = acc.length + 1 := by rcases h1 with h | h <;> omega
      have : k ≠ 0 ∧ k ≤ acc.length + (xs.length + 1) ∧ k ≤ thr + 1 := ⟨hk.1, by omega, by omega⟩
      rw [if_pos this]
      have : k - acc.length = 1 := by omega
      rw [this]; simp
    · rw [if_neg hk]
      by_cases ht : acc.length + 1 > thr
      · rw [if_pos ht]
        have : ¬ (k ≠ 0 ∧ k ≤ acc.length + (xs.length + 1) ∧ k ≤ thr + 1) := by
          rintro ⟨a, b, c⟩; apply hk; exact ⟨a, by omega⟩
        rw [if_neg this, if_pos (by omega)]
      · rw [if_neg ht, ih (x :: acc) (by simp only [List.length_cons]; by_cases k = 0 <;> [left; right] <;> omega)
          (by simp only [List.length_cons]; omega)]
        simp only [List.length_cons, List.reverse_cons, List.append_assoc, List.singleton_append]
        have e1 : acc.length + 1 + xs.length = acc.length + (xs.length + 1) := by omega
        rw [e1]
        by_cases hc : k ≠ 0 ∧ k ≤ acc.length + (xs.length + 1) ∧ k ≤ thr + 1
        · rw [if_pos hc, if_pos hc]
          have : k - acc.length = (k - (acc.length + 1)) + 1 := by omega
          rw [this, List.take_succ_cons]
        · rw [if_neg hc, if_neg hc]

theorem collect_eq {α : Type} (k thr : Nat) (l : List α) :
    collect k thr l [] =
      if k ≠ 0 ∧ k ≤ l.length ∧ k ≤ thr + 1 then l.take k else if l.length > thr then [] else l := by
  have := collect_eq_gen k thr l [] (by simp; omega) (by simp)
  simpa using this

/-- After the final guard the exhaustive loop is "take `stopLen`, then empty past the threshold". -/
theorem guard_collect {α : Type} (k thr : Nat) (l : List α) :
    guard thr (collect k thr l []) = guard thr (l.take (stopLen k thr)) := by
  rw [collect_eq]
  unfold guard stopLen
  by_cases hk : k = 0
  · subst hk
    simp only [ne_eq, not_true_eq_false, false_and, if_false, if_true, List.length_take]
    by_cases h : l.length > thr
    · rw [if_pos h]; simp only [List.length_nil, gt_iff_lt, Nat.not_lt_zero, if_false]
      rw [if_pos (by omega)]
    · rw [if_neg h, if_neg h, if_neg (by omega)]
      rw [List.take_of_length_le (by omega)]
  · simp only [hk, if_false, List.length_take]
    by_cases hc : k ≠ 0 ∧ k ≤ l.length ∧ k ≤ thr + 1
    · rw [if_pos hc, Nat.min_eq_left hc.2.2]
      simp [List.length_take]
    · rw [if_neg hc]
      by_cases h : l.length > thr
      · rw [if_pos h]
        simp only [List.length_nil, gt_iff_lt, Nat.not_lt_zero, if_false]
        have : min (min k (thr + 1)) l.length > thr := by
          have : ¬ (k ≤ l.length ∧ k ≤ thr + 1) := fun hh => hc ⟨hk, hh⟩
          omega
        rw [if_pos this]
      · rw [if_neg h, if_neg h]
        have : min k (thr + 1) ≥ l.length := by
          have : ¬ (k ≤ l.length ∧ k ≤ thr + 1) := fun hh => hc ⟨hk, hh⟩
          omega
        rw [List.take_of_length_le this, if_neg (by omega)]

/-! ## the back-tracking loop as "feed an enumeration into the result list" -/

/-- The unlimited enumeration the back-tracking loop walks through. -/
def enum (P : LGraph) : List (List (Nat × Mapping)) → List Nat → Mapping → List Mapping
  | [], _, acc => [normalize P acc]
  | lvl :: rest, used, acc =>
    lvl.flatMap fun hm => if skip used acc hm.1 hm.2 then [] else enum P rest (hm.1 :: used) (acc ++ hm.2)

/-- Append the elements of `l` one at a time, checking the stop conditions before each. -/
def feed (k thr : Nat) : List Mapping → List Mapping → List Mapping
  | res, [] => res
  | res, x :: xs => if stop k thr res then res else feed k thr (res ++ [x]) xs

theorem feed_of_stop (k thr : Nat) (res l : List Mapping) (h : stop k thr res = true) : feed k thr res l = res := by
  cases l with
  | nil => rfl
  | cons x xs => simp [feed, h]

theorem feed_append (k thr : Nat) (res a b : List Mapping) :
    feed k thr res (a ++ b) = feed k thr (feed k thr res a) b := by
  induction a generalizing res with
  | nil => rfl
  | cons x xs ih =>
    simp only [List.cons_append, feed]
    by_cases h : stop k thr res = true
    · simp [h, feed_of_stop]
    · simp [h, ih]

theorem btItems_eq (k thr : Nat) (next : List Nat → Mapping → List Mapping → List Mapping)
    (f : List Nat → Mapping → List Mapping)
    (hnext : ∀ used acc res, next used acc res = feed k thr res (f used acc))
    (used : List Nat) (acc : Mapping) (items : List (Nat × Mapping)) (res : List Mapping) :
    btItems k thr next used acc items res =
      feed k thr res (items.flatMap fun hm => if skip used acc hm.1 hm.2 then [] else f (hm.1 :: used) (acc ++ hm.2)) := by
  induction items generalizing res with
  | nil => rfl
  | cons x xs ih =>
    obtain ⟨hi, m⟩ := x
    simp only [btItems, List.flatMap_cons]
    by_cases hs : skip used acc hi m = true
    · simp [hs, ih]
    · simp only [hs, Bool.false_eq_true, if_false, feed_append, hnext]
      by_cases hst : stop k thr (feed k thr res (f (hi :: used) (acc ++ m))) = true
      · simp [hst, feed_of_stop]
      · simp [hst, ih]

theorem btLevel_eq (P : LGraph) (k thr : Nat) (levels : List (List (Nat × Mapping))) (used : List Nat)
    (acc : Mapping) (res : List Mapping) :
    btLevel P k thr levels used acc res = feed k thr res (enum P levels used acc) := by
  induction levels generalizing used acc res with
  | nil =>
    simp only [btLevel, enum, feed]
  | cons lvl rest ih =>
    simp only [btLevel, enum]
    by_cases h : stop k thr res = true
    · simp [h, feed_of_stop]
    · simp only [h, Bool.false_eq_true, if_false]
      exact btItems_eq k thr _ (enum P rest) (fun u a r => ih u a r) used acc lvl res

theorem stop_iff (k thr : Nat) (res : List Mapping) : stop k thr res = true ↔ stopLen k thr ≤ res.length := by
  unfold stop stopLen
  by_cases hk : k = 0
  · simp [hk]; omega
  · simp [hk]; omega

theorem feed_eq_take (k thr : Nat) (res l : List Mapping) (h : res.length ≤ stopLen k thr) :
    feed k thr res l = res ++ l.take (stopLen k thr - res.length) := by
  induction l generalizing res with
  | nil => simp [feed]
  | cons x xs ih =>
    simp only [feed]
    by_cases hs : stop k thr res = true
    · rw [if_pos hs]
      have := (stop_iff k thr res).1 hs
      have : stopLen k thr - res.length = 0 := by omega
      rw [this]; simp
    · rw [if_neg hs]
      have hlt : res.length < stopLen k thr := by
        by_contra hh; exact hs ((stop_iff k thr res).2 (by omega))
      rw [ih (res ++ [x]) (by simp; omega)]
      have : stopLen k thr - res.length = (stopLen k thr - (res ++ [x]).length) + 1 := by simp; omega
      rw [this, List.take_succ_cons]; simp

theorem btLevel_nil_eq (P : LGraph) (k thr : Nat) (levels : List (List (Nat × Mapping))) :
    btLevel P k thr levels [] [] [] = (enum P levels [] []).take (stopLen k thr) := by
  rw [btLevel_eq, feed_eq_take _ _ _ _ (by simp)]
  simp


/-! ## sub-graphs on a node set -/

theorem sub_ids (G : LGraph) (c : List Nat) : (sub G c).ids = G.ids.filter c.contains := by
  unfold sub LGraph.ids
  simp only [List.filter_map]
  rfl

theorem mem_sub_ids (G : LGraph) (c : List Nat) (v : Nat) : v ∈ (sub G c).ids ↔ v ∈ G.ids ∧ v ∈ c := by
  rw [sub_ids]; simp

theorem find?_filter_of_imp {α : Type} (l : List α) (p q : α → Bool) (h : ∀ a ∈ l, p a = true → q a = true) :
    (l.filter q).find? p = l.find? p := by
  induction l with
  | nil => rfl
  | cons x xs ih =>
    have ih' := ih (fun a ha => h a (List.mem_cons_of_mem _ ha))
    by_cases hq : q x = true
    · rw [List.filter_cons_of_pos hq, List.find?_cons, List.find?_cons, ih']
    · rw [List.filter_cons_of_neg hq, List.find?_cons, ih']
      have : p x = false := by
        cases hp : p x with
        | false => rfl
        | true => exact absurd (h x List.mem_cons_self hp) hq
      rw [this]

theorem sub_attrs (G : LGraph) (c : List Nat) (v : Nat) (hv : v ∈ c) : (sub G c).attrs v = G.attrs v := by
  unfold LGraph.attrs sub
  simp only
  rw [find?_filter_of_imp]
  intro a _ ha
  simp only [decide_eq_true_eq] at ha
  simp [ha, hv]

theorem mem_sub_edges (G : LGraph) (c : List Nat) (e : Nat × Nat × Attrs) :
    e ∈ (sub G c).edges ↔ e ∈ G.edges ∧ e.1 ∈ c ∧ e.2.1 ∈ c := by
  unfold sub; simp

/-- An edge of the sub-graph is the same edge of the graph. -/
theorem sub_edge? (G : LGraph) (c : List Nat) (u v : Nat) (a : Attrs) (h : (sub G c).edge? u v = some a) :
    G.edge? u v = some a := by
  obtain ⟨e, he, -, hends⟩ := edge?_some_mem (sub G c) u v a h
  have hc := ((mem_sub_edges G c e).1 he).2
  have huv : u ∈ c ∧ v ∈ c := by
    rcases hends with ⟨h1, h2⟩ | ⟨h1, h2⟩
    · exact ⟨h1 ▸ hc.1, h2 ▸ hc.2⟩
    · exact ⟨h2 ▸ hc.2, h1 ▸ hc.1⟩
  rw [← h]
  unfold LGraph.edge? sub
  simp only
  rw [find?_filter_of_imp]
  intro x _ hx
  simp only [decide_eq_true_eq] at hx
  rcases hx with ⟨h1, h2⟩ | ⟨h1, h2⟩ <;> simp [h1, h2, huv.1, huv.2]

theorem sub_WF (G : LGraph) (hG : G.WF) (c : List Nat) : (sub G c).WF := by
  obtain ⟨h1, h2, h3⟩ := hG
  refine ⟨?_, ?_, ?_⟩
  · rw [sub_ids]; exact h1.filter _
  · intro e he
    obtain ⟨he', hc1, hc2⟩ := (mem_sub_edges G c e).1 he
    obtain ⟨a, b, d⟩ := h2 e he'
    exact ⟨(mem_sub_ids G c _).2 ⟨a, hc1⟩, (mem_sub_ids G c _).2 ⟨b, hc2⟩, d⟩
  · refine h3.sublist ?_
    unfold sub
    exact (List.filter_sublist).map _

/-- A component is a duplicate-free sub-list of the node list, so the sub-graph has exactly its nodes. -/
theorem sub_ids_of_component (G : LGraph) (hG : G.WF) (c : List Nat) (hc : c ∈ comps G) : (sub G c).ids = c := by
  rw [sub_ids]
  have hs := components_sublist G.ids (endpoints G) c hc
  have hn := hG.1
  clear hc
  generalize G.ids = l at hs hn
  induction hs with
  | slnil => rfl
  | cons a hs ih =>
    rename_i l₁ l₂
    rw [List.nodup_cons] at hn
    have : a ∉ l₁ := fun h => hn.1 (hs.subset h)
    rw [List.filter_cons_of_neg (by simpa using this)]
    exact ih hn.2
  | cons_cons a hs ih =>
    rename_i l₁ l₂
    rw [List.nodup_cons] at hn
    rw [List.filter_cons_of_pos (by simp)]
    congr 1
    have ih' := ih hn.2
    have hna : a ∉ l₂ := hn.1
    refine Eq.trans ?_ ih'
    apply List.filter_congr
    intro x hx
    have : x ≠ a := fun h => hna (h ▸ hx)
    simp [this]

theorem mem_endpoints (G : LGraph) (e : Nat × Nat × Attrs) (he : e ∈ G.edges) : (e.1, e.2.1) ∈ endpoints G :=
  List.mem_map.2 ⟨e, he, rfl⟩

/-- The two ends of an edge lie in the same component. -/
theorem edge_same_component (G : LGraph) (hG : G.WF) (e : Nat × Nat × Attrs) (he : e ∈ G.edges)
    (c : List Nat) (hc : c ∈ comps G) (h1 : e.1 ∈ c) : e.2.1 ∈ c := by
  obtain ⟨a, b, -⟩ := hG.2.1 e he
  refine (mem_components_iff G.ids (endpoints G) hG.1 c e.1 hc h1 e.2.1).2 ⟨b, ?_⟩
  exact Relation.ReflTransGen.single ⟨a, b, Or.inl (mem_endpoints G e he)⟩

/-! ## per-component embeddings, ordering of the levels -/

theorem mem_perComponent (sel : Sel) (hostCcs : List LGraph) (pc : LGraph) (i : Nat) (m : Mapping) :
    (i, m) ∈ perComponent sel hostCcs pc ↔
      ∃ hg, hostCcs[i]? = some hg ∧ hg.nodes.length ≥ pc.nodes.length ∧ m ∈ allMonos sel hg pc := by
  unfold perComponent
  simp only [List.mem_flatMap, List.mem_filter, List.mem_zipIdx_iff_getElem?, List.mem_map, Prod.mk.injEq,
    decide_eq_true_eq]
  constructor
  · rintro ⟨⟨hg, j⟩, ⟨h1, h2⟩, m', hm', rfl, rfl⟩
    exact ⟨hg, h1, h2, hm'⟩
  · rintro ⟨hg, h1, h2, h3⟩
    exact ⟨(hg, i), ⟨h1, h2⟩, m, h3, rfl, rfl⟩

theorem insertByLen_perm {α : Type} (x : List α) (ys : List (List α)) : (insertByLen x ys).Perm (x :: ys) := by
  induction ys with
  | nil => exact List.Perm.refl _
  | cons y ys ih =>
    simp only [insertByLen]
    split
    · exact List.Perm.refl _
    · exact (List.Perm.cons y ih).trans (List.Perm.swap x y ys)

theorem sortByLen_perm {α : Type} (xs : List (List α)) : (sortByLen xs).Perm xs := by
  unfold sortByLen
  have : ∀ init : List (List α), (xs.foldl (fun acc x => insertByLen x acc) init).Perm (xs ++ init) := by
    induction xs with
    | nil => intro init; exact List.Perm.refl _
    | cons x xs ih =>
      intro init
      simp only [List.foldl_cons, List.cons_append]
      refine (ih _).trans ?_
      refine (List.Perm.append_left xs (insertByLen_perm x init)).trans ?_
      exact List.perm_middle
  simpa using this []

/-! ## the choices made by the back-tracking loop -/

def KeyDisj (a b : Mapping) : Prop := ∀ x ∈ a, ∀ y ∈ b, x.1 ≠ y.1

theorem skip_false_iff (used : List Nat) (acc : Mapping) (hi : Nat) (m : Mapping) :
    skip used acc hi m = false ↔ hi ∉ used ∧ KeyDisj m acc := by
  unfold skip KeyDisj
  simp only [Bool.or_eq_false_iff, List.contains_eq_mem, decide_eq_false_iff_not, List.any_eq_false,
    decide_eq_true_eq, List.any_eq_true, not_exists, not_and]
  constructor
  · rintro ⟨h1, h2⟩; exact ⟨h1, fun x hx y hy e => h2 x hx y hy e.symm⟩
  · rintro ⟨h1, h2⟩; exact ⟨h1, fun x hx y hy e => h2 x hx y hy e.symm⟩

/-- One accepted item per level, in level order. -/
def Picks : List (List (Nat × Mapping)) → List Nat → Mapping → List (Nat × Mapping) → Prop
  | [], _, _, [] => True
  | lvl :: rest, used, acc, pk :: pks =>
    pk ∈ lvl ∧ skip used acc pk.1 pk.2 = false ∧ Picks rest (pk.1 :: used) (acc ++ pk.2) pks
  | [], _, _, _ :: _ => False
  | _ :: _, _, _, [] => False

theorem mem_enum (P : LGraph) (levels : List (List (Nat × Mapping))) (used : List Nat) (acc m : Mapping) :
    m ∈ enum P levels used acc ↔
      ∃ pks, Picks levels used acc pks ∧ m = normalize P (acc ++ pks.flatMap (·.2)) := by
  induction levels generalizing used acc with
  | nil =>
    simp only [enum, List.mem_singleton]
    constructor
    · rintro rfl; exact ⟨[], trivial, by simp⟩
    · rintro ⟨pks, hp, rfl⟩
      cases pks with
      | nil => simp
      | cons _ _ => exact absurd hp (by simp [Picks])
  | cons lvl rest ih =>
    simp only [enum, List.mem_flatMap]
    constructor
    · rintro ⟨pk, hpk, hm⟩
      split at hm
      · simp at hm
      · next hs =>
        obtain ⟨pks, hp, rfl⟩ := (ih _ _).1 hm
        refine ⟨pk :: pks, ⟨hpk, by simpa using hs, hp⟩, ?_⟩
        simp [List.append_assoc]
    · rintro ⟨pks, hp, rfl⟩
      cases pks with
      | nil => exact absurd hp (by simp [Picks])
      | cons pk pks =>
        obtain ⟨h1, h2, h3⟩ := hp
        refine ⟨pk, h1, ?_⟩
        rw [if_neg (by simp [h2])]
        exact (ih _ _).2 ⟨pks, h3, by simp [List.append_assoc]⟩

theorem picks_mem_level (levels : List (List (Nat × Mapping))) (used : List Nat) (acc : Mapping)
    (pks : List (Nat × Mapping)) (h : Picks levels used acc pks) :
    (∀ pk ∈ pks, ∃ lvl ∈ levels, pk ∈ lvl) ∧ (∀ lvl ∈ levels, ∃ pk ∈ pks, pk ∈ lvl) := by
  induction levels generalizing used acc pks with
  | nil =>
    cases pks with
    | nil => simp
    | cons _ _ => exact absurd h (by simp [Picks])
  | cons lvl rest ih =>
    cases pks with
    | nil => exact absurd h (by simp [Picks])
    | cons pk pks =>
      obtain ⟨h1, -, h3⟩ := h
      obtain ⟨i1, i2⟩ := ih _ _ _ h3
      constructor
      · intro x hx
        rcases List.mem_cons.1 hx with rfl | hx
        · exact ⟨lvl, List.mem_cons_self, h1⟩
        · obtain ⟨l, hl, hxl⟩ := i1 x hx
          exact ⟨l, List.mem_cons_of_mem _ hl, hxl⟩
      · intro l hl
        rcases List.mem_cons.1 hl with rfl | hl
        · exact ⟨pk, List.mem_cons_self, h1⟩
        · obtain ⟨x, hx, hxl⟩ := i2 l hl
          exact ⟨x, List.mem_cons_of_mem _ hx, hxl⟩

theorem picks_pairwise (levels : List (List (Nat × Mapping))) (used : List Nat) (acc : Mapping)
    (pks : List (Nat × Mapping)) (h : Picks levels used acc pks) :
    pks.Pairwise (fun a b => a.1 ≠ b.1 ∧ KeyDisj a.2 b.2) ∧
      ∀ pk ∈ pks, pk.1 ∉ used ∧ KeyDisj pk.2 acc := by
  induction levels generalizing used acc pks with
  | nil =>
    cases pks with
    | nil => simp
    | cons _ _ => exact absurd h (by simp [Picks])
  | cons lvl rest ih =>
    cases pks with
    | nil => exact absurd h (by simp [Picks])
    | cons pk pks =>
      obtain ⟨-, h2, h3⟩ := h
      obtain ⟨i1, i2⟩ := ih _ _ _ h3
      rw [skip_false_iff] at h2
      refine ⟨List.pairwise_cons.2 ⟨?_, i1⟩, ?_⟩
      · intro b hb
        obtain ⟨j1, j2⟩ := i2 b hb
        refine ⟨fun e => j1 (e ▸ List.mem_cons_self), ?_⟩
        intro x hx y hy e
        exact j2 y hy x (List.mem_append_right _ hx) e.symm
      · intro x hx
        rcases List.mem_cons.1 hx with rfl | hx
        · exact h2
        · obtain ⟨j1, j2⟩ := i2 x hx
          exact ⟨fun e => j1 (List.mem_cons_of_mem _ e), fun a ha b hb => j2 a ha b (List.mem_append_left _ hb)⟩


/-! ## `normalize`: the dict read in the pattern's node order -/

theorem mem_normalize (P : LGraph) (A : Mapping) (x : Nat × Nat) :
    x ∈ normalize P A ↔ x.1 ∈ P.ids ∧ A.get? x.1 = some x.2 := by
  unfold normalize
  rw [List.mem_filterMap]
  constructor
  · rintro ⟨p, hp, hx⟩
    cases hg : A.get? p with
    | none => rw [hg] at hx; cases hx
    | some h => rw [hg] at hx; cases hx; exact ⟨hp, hg⟩
  · rintro ⟨hp, hg⟩
    exact ⟨x.1, hp, by rw [hg]; rfl⟩

theorem normalize_fst (P : LGraph) (A : Mapping) (h : ∀ p ∈ P.ids, ∃ v, A.get? p = some v) :
    (normalize P A).map Prod.fst = P.ids := by
  unfold normalize
  generalize P.ids = l at h
  induction l with
  | nil => rfl
  | cons p ps ih =>
    obtain ⟨v, hv⟩ := h p List.mem_cons_self
    rw [List.filterMap_cons, hv]
    simp only [Option.map_some, List.map_cons]
    rw [ih (fun q hq => h q (List.mem_cons_of_mem _ hq))]

theorem normalize_get? (P : LGraph) (hP : P.ids.Nodup) (A : Mapping) (h : ∀ p ∈ P.ids, ∃ v, A.get? p = some v)
    (p : Nat) (hp : p ∈ P.ids) : (normalize P A).get? p = A.get? p := by
  obtain ⟨v, hv⟩ := h p hp
  rw [hv]
  apply get?_of_mem
  · have : (normalize P A).map (·.1) = P.ids := normalize_fst P A h
    rw [this]; exact hP
  · exact (mem_normalize P A (p, v)).2 ⟨hp, hv⟩

/-! ## gluing per-component embeddings -/

def DistinctComponents (H P : LGraph) (m : Mapping) : Prop :=
  ∀ p q hp hq, m.get? p = some hp → m.get? q = some hq →
    ¬ Conn P.ids (endpoints P) p q → ¬ Conn H.ids (endpoints H) hp hq

/-- What the items picked by a complete run of the back-tracking loop satisfy. -/
structure Glue (sel : Sel) (H P : LGraph) (pks : List (Nat × Mapping)) : Prop where
  pw : pks.Pairwise (fun a b => a.1 ≠ b.1 ∧ KeyDisj a.2 b.2)
  each : ∀ pk ∈ pks, ∃ pc ∈ comps P, ∃ hc, (comps H)[pk.1]? = some hc ∧ IsMono sel (sub H hc) (sub P pc) pk.2
  cover : ∀ pc ∈ comps P, ∃ pk ∈ pks, ∃ hc, (comps H)[pk.1]? = some hc ∧ IsMono sel (sub H hc) (sub P pc) pk.2

theorem comps_getElem?_disjoint (G : LGraph) (hG : G.WF) (i j : Nat) (ci cj : List Nat) (hij : i ≠ j)
    (hi : (comps G)[i]? = some ci) (hj : (comps G)[j]? = some cj) : List.Disjoint ci cj := by
  have hd := components_disjoint G.ids (endpoints G) hG.1
  rw [List.pairwise_iff_getElem] at hd
  obtain ⟨hi', rfl⟩ := List.getElem?_eq_some_iff.1 hi
  obtain ⟨hj', rfl⟩ := List.getElem?_eq_some_iff.1 hj
  rcases Nat.lt_or_gt_of_ne hij with h | h
  · exact hd i j hi' hj' h
  · exact fun a h1 h2 => hd j i hj' hi' h h2 h1

/-- The dict `acc` after all picks: the concatenation of the picked embeddings. -/
abbrev flat (pks : List (Nat × Mapping)) : Mapping := pks.flatMap (·.2)

section GlueProof
variable {sel : Sel} {H P : LGraph} {pks : List (Nat × Mapping)}

theorem Glue.mono_fst (hP : P.WF) (g : Glue sel H P pks) (pk) (hpk : pk ∈ pks) :
    ∃ pc ∈ comps P, ∃ hc, (comps H)[pk.1]? = some hc ∧ IsMono sel (sub H hc) (sub P pc) pk.2 ∧
      pk.2.map (·.1) = pc ∧ ∀ x ∈ pk.2, x.2 ∈ hc ∧ x.2 ∈ H.ids := by
  obtain ⟨pc, hpc, hc, h1, h2⟩ := g.each pk hpk
  refine ⟨pc, hpc, hc, h1, h2, ?_, ?_⟩
  · have : pk.2.map (·.1) = (sub P pc).ids := h2.1
    rw [this, sub_ids_of_component P hP pc hpc]
  · intro x hx
    have := (h2.2.2.1 x hx).1
    rw [mem_sub_ids] at this
    exact ⟨this.2, this.1⟩

theorem Glue.keys_nodup (hP : P.WF) (g : Glue sel H P pks) : ((flat pks).map (·.1)).Nodup := by
  rw [List.map_flatMap, List.nodup_flatMap]
  refine ⟨?_, ?_⟩
  · intro pk hpk
    obtain ⟨pc, hpc, hc, -, h2⟩ := g.each pk hpk
    have : pk.2.map (·.1) = (sub P pc).ids := h2.1
    rw [this]; exact (sub_WF P hP pc).1
  · refine g.pw.imp ?_
    rintro a b ⟨-, hk⟩
    show List.Disjoint _ _
    intro x hxa hxb
    obtain ⟨u, hu, rfl⟩ := List.mem_map.1 hxa
    obtain ⟨v, hv, hv'⟩ := List.mem_map.1 hxb
    exact hk u hu v hv hv'.symm

theorem Glue.vals_nodup (hH : H.WF) (hP : P.WF) (g : Glue sel H P pks) : ((flat pks).map (·.2)).Nodup := by
  rw [List.map_flatMap, List.nodup_flatMap]
  refine ⟨?_, ?_⟩
  · intro pk hpk
    obtain ⟨pc, hpc, hc, -, h2⟩ := g.each pk hpk
    exact h2.2.1
  · refine g.pw.imp_of_mem ?_
    rintro a b ha hb ⟨hne, -⟩
    show List.Disjoint _ _
    intro x hxa hxb
    obtain ⟨u, hu, rfl⟩ := List.mem_map.1 hxa
    obtain ⟨v, hv, hv'⟩ := List.mem_map.1 hxb
    obtain ⟨_, _, hca, h1a, -, -, h3a⟩ := g.mono_fst hP a ha
    obtain ⟨_, _, hcb, h1b, -, -, h3b⟩ := g.mono_fst hP b hb
    have hd := comps_getElem?_disjoint H hH a.1 b.1 hca hcb hne h1a h1b
    exact hd (h3a u hu).1 (hv' ▸ (h3b v hv).1)

theorem Glue.get?_of_mem_pick (hP : P.WF) (g : Glue sel H P pks) (pk) (hpk : pk ∈ pks) (x) (hx : x ∈ pk.2) :
    (flat pks).get? x.1 = some x.2 :=
  get?_of_mem _ (g.keys_nodup hP) x.1 x.2 (List.mem_flatMap.2 ⟨pk, hpk, hx⟩)

theorem Glue.total (hP : P.WF) (g : Glue sel H P pks) (p : Nat) (hp : p ∈ P.ids) :
    ∃ v, (flat pks).get? p = some v := by
  obtain ⟨pc, hpc, hpm⟩ := (components_cover P.ids (endpoints P) hP.1 p).1 hp
  obtain ⟨pk, hpk, hc, -, h2⟩ := g.cover pc hpc
  have : p ∈ pk.2.map (·.1) := by
    have e : pk.2.map (·.1) = (sub P pc).ids := h2.1
    rw [e, sub_ids_of_component P hP pc hpc]; exact hpm
  obtain ⟨x, hx, rfl⟩ := List.mem_map.1 this
  exact ⟨x.2, g.get?_of_mem_pick hP pk hpk x hx⟩

theorem Glue.isMono (hH : H.WF) (hP : P.WF) (g : Glue sel H P pks) :
    IsMono sel H P (normalize P (flat pks)) := by
  have htot := g.total hP
  have hfst := normalize_fst P _ htot
  have hsub : ∀ x ∈ normalize P (flat pks), x ∈ pks.flatMap (·.2) := by
    intro x hx
    exact mem_of_get? _ x.1 x.2 ((mem_normalize P _ x).1 hx).2
  refine ⟨hfst, ?_, ?_, ?_⟩
  · refine List.Nodup.map_on ?_ ?_
    · intro x hx y hy e
      exact List.inj_on_of_nodup_map (g.vals_nodup hH hP) (hsub x hx) (hsub y hy) e
    · refine List.Nodup.of_map Prod.fst ?_
      rw [hfst]; exact hP.1
  · intro x hx
    obtain ⟨pk, hpk, hxp⟩ := List.mem_flatMap.1 (hsub x hx)
    obtain ⟨pc, hpc, hc, h1, h2, h3, h4⟩ := g.mono_fst hP pk hpk
    refine ⟨(h4 x hxp).2, ?_⟩
    have := (h2.2.2.1 x hxp).2
    rw [sub_attrs H hc x.2 (h4 x hxp).1, sub_attrs P pc x.1 (h3 ▸ List.mem_map.2 ⟨x, hxp, rfl⟩)] at this
    exact this
  · intro e he
    obtain ⟨a, b, -⟩ := hP.2.1 e he
    obtain ⟨pc, hpc, hpm⟩ := (components_cover P.ids (endpoints P) hP.1 e.1).1 a
    have hpm2 := edge_same_component P hP e he pc hpc hpm
    obtain ⟨pk, hpk, hc, -, h2⟩ := g.cover pc hpc
    obtain ⟨hu, hv, ea, g1, g2, g3, g4⟩ := h2.2.2.2 e ((mem_sub_edges P pc e).2 ⟨he, hpm, hpm2⟩)
    refine ⟨hu, hv, ea, ?_, ?_, sub_edge? H hc hu hv ea g3, g4⟩
    · rw [normalize_get? P hP.1 _ htot e.1 a]
      exact g.get?_of_mem_pick hP pk hpk (e.1, hu) (mem_of_get? _ _ _ g1)
    · rw [normalize_get? P hP.1 _ htot e.2.1 b]
      exact g.get?_of_mem_pick hP pk hpk (e.2.1, hv) (mem_of_get? _ _ _ g2)

theorem Glue.distinct (hH : H.WF) (hP : P.WF) (g : Glue sel H P pks) :
    DistinctComponents H P (normalize P (flat pks)) := by
  intro p q hp hq gp gq hnc hconn
  have hmp := (mem_normalize P _ (p, hp)).1 (mem_of_get? _ _ _ gp)
  have hmq := (mem_normalize P _ (q, hq)).1 (mem_of_get? _ _ _ gq)
  obtain ⟨pa, hpa, hxa⟩ := List.mem_flatMap.1 (mem_of_get? _ _ _ hmp.2)
  obtain ⟨pb, hpb, hxb⟩ := List.mem_flatMap.1 (mem_of_get? _ _ _ hmq.2)
  obtain ⟨pca, hpca, hca, h1a, -, h3a, h4a⟩ := g.mono_fst hP pa hpa
  obtain ⟨pcb, hpcb, hcb, h1b, -, h3b, h4b⟩ := g.mono_fst hP pb hpb
  have hpin : p ∈ pca := h3a ▸ List.mem_map.2 ⟨(p, hp), hxa, rfl⟩
  have hqin : q ∈ pcb := h3b ▸ List.mem_map.2 ⟨(q, hq), hxb, rfl⟩
  by_cases hab : pa = pb
  · subst hab
    rw [h1a] at h1b; cases h1b
    have : pca = pcb := h3a.symm.trans h3b
    subst this
    exact hnc ((mem_components_iff P.ids (endpoints P) hP.1 pca p hpca hpin q).1 hqin).2
  · have hsymm : Std.Symm (fun a b : Nat × Mapping => a.1 ≠ b.1 ∧ KeyDisj a.2 b.2) :=
      ⟨fun a b h => ⟨h.1.symm, fun x hx y hy e => h.2 y hy x hx e.symm⟩⟩
    have hne := (g.pw.forall hpa hpb hab).1
    have hd := comps_getElem?_disjoint H hH pa.1 pb.1 hca hcb hne h1a h1b
    have hca_mem : hca ∈ comps H := List.mem_of_getElem? h1a
    have := (mem_components_iff H.ids (endpoints H) hH.1 hca hp hca_mem (h4a _ hxa).1 hq).2 ⟨(h4b _ hxb).2, hconn⟩
    exact hd this (h4b _ hxb).1

end GlueProof


/-! ## the component-aware search in closed form -/

/-- `per_cc`: for every pattern component its embeddings into the candidate host components. -/
def perCc (sel : Sel) (H P : LGraph) : List (List (Nat × Mapping)) :=
  ((comps P).map (sub P)).map (perComponent sel ((comps H).map (sub H)))

/-- The unlimited list of combined mappings, in the order the back-tracking loop produces them. -/
def compEnum (sel : Sel) (H P : LGraph) : List Mapping := enum P (sortByLen (perCc sel H P)) [] []

theorem findComp_eq (sel : Sel) (H P : LGraph) (k : Nat) (strict : Bool) (thr : Nat) :
    findComp sel H P k strict thr =
      if (comps P).length = 0 then [[]]
      else if (comps H).length < (comps P).length then findAll sel H P k thr
      else if (comps H).length > (comps P).length ∧ strict = true then []
      else if (perCc sel H P).any (fun maps => maps.isEmpty) = true then []
      else if (perCc sel H P).any (fun maps => decide (maps.length > thr)) = true then []
      else (compEnum sel H P).take (stopLen k thr) := by
  unfold findComp compEnum perCc
  simp only [List.length_map, btLevel_nil_eq]

theorem mem_level_iff (sel : Sel) (H P : LGraph) (hP : P.WF) (pc : List Nat) (pk : Nat × Mapping) :
    pk ∈ perComponent sel ((comps H).map (sub H)) (sub P pc) →
      ∃ hc, (comps H)[pk.1]? = some hc ∧ IsMono sel (sub H hc) (sub P pc) pk.2 := by
  intro h
  obtain ⟨hg, h1, -, h3⟩ := (mem_perComponent sel _ (sub P pc) pk.1 pk.2).1 h
  rw [List.getElem?_map, Option.map_eq_some_iff] at h1
  obtain ⟨hc, h1, rfl⟩ := h1
  exact ⟨hc, h1, (mem_allMonos sel _ _ (sub_WF P hP pc) pk.2).1 h3⟩

theorem mem_compEnum_glue (sel : Sel) (H P : LGraph) (hP : P.WF) (m : Mapping) (hm : m ∈ compEnum sel H P) :
    ∃ pks, Glue sel H P pks ∧ m = normalize P (flat pks) := by
  obtain ⟨pks, hp, rfl⟩ := (mem_enum P _ [] [] m).1 hm
  refine ⟨pks, ⟨(picks_pairwise _ _ _ _ hp).1, ?_, ?_⟩, by simp⟩
  · intro pk hpk
    obtain ⟨lvl, hl, hin⟩ := (picks_mem_level _ _ _ _ hp).1 pk hpk
    rw [(sortByLen_perm _).mem_iff] at hl
    unfold perCc at hl
    simp only [List.map_map, List.mem_map, Function.comp] at hl
    obtain ⟨pc, hpc, rfl⟩ := hl
    exact ⟨pc, hpc, mem_level_iff sel H P hP pc pk hin⟩
  · intro pc hpc
    have hl : perComponent sel ((comps H).map (sub H)) (sub P pc) ∈ sortByLen (perCc sel H P) := by
      rw [(sortByLen_perm _).mem_iff]
      unfold perCc
      simp only [List.map_map, List.mem_map, Function.comp]
      exact ⟨pc, hpc, rfl⟩
    obtain ⟨pk, hpk, hin⟩ := (picks_mem_level _ _ _ _ hp).2 _ hl
    exact ⟨pk, hpk, mem_level_iff sel H P hP pc pk hin⟩

theorem mem_collect {α : Type} (k thr : Nat) (l : List α) (x : α) (h : x ∈ collect k thr l []) : x ∈ l := by
  rw [collect_eq] at h
  split at h
  · exact List.mem_of_mem_take h
  · split at h
    · cases h
    · exact h

theorem guard_take_stopLen {α : Type} (k thr : Nat) (l : List α) :
    guard thr (l.take (stopLen k thr)) =
      if k ≠ 0 ∧ k ≤ thr then l.take k else if l.length > thr then [] else l := by
  unfold guard stopLen
  by_cases hk : k = 0
  · subst hk
    simp only [if_true, ne_eq, not_true_eq_false, false_and, if_false, List.length_take]
    by_cases h : l.length > thr
    · rw [if_pos h, if_pos (by omega)]
    · rw [if_neg h, if_neg (by omega), List.take_of_length_le (by omega)]
  · simp only [hk, if_false, ne_eq, not_false_eq_true, true_and, List.length_take]
    by_cases h : k ≤ thr
    · have e : min k (thr + 1) = k := Nat.min_eq_left (by omega)
      rw [if_pos h, e, if_neg (by omega)]
    · have e : min k (thr + 1) = thr + 1 := Nat.min_eq_right (by omega)
      rw [if_neg h, e]
      by_cases h2 : l.length > thr
      · rw [if_pos h2, if_pos (by omega)]
      · rw [if_neg h2, if_neg (by omega), List.take_of_length_le (by omega)]

theorem isMono_nil_of_no_nodes (sel : Sel) (H P : LGraph) (hP : P.WF) (h : P.ids = []) : IsMono sel H P [] := by
  refine ⟨by simp [h], by simp, by simp, ?_⟩
  intro e he
  have := (hP.2.1 e he).1
  rw [h] at this; cases this

theorem ids_nil_of_no_comps (P : LGraph) (hP : P.WF) (h : (comps P).length = 0) : P.ids = [] := by
  cases hi : P.ids with
  | nil => rfl
  | cons v vs =>
    exfalso
    obtain ⟨c, hc, -⟩ := (components_cover P.ids (endpoints P) hP.1 v).1 (by rw [hi]; exact List.mem_cons_self)
    have : comps P = [] := List.eq_nil_of_length_eq_zero h
    unfold comps at this
    rw [this] at hc; cases hc

/-! ## completeness of the component-aware search -/

/-- Restriction of a mapping (a dict) to the pattern nodes in `c`. -/
def restrict (m : Mapping) (c : List Nat) : Mapping := m.filter fun x => c.contains x.1

theorem mem_restrict (m : Mapping) (c : List Nat) (x : Nat × Nat) : x ∈ restrict m c ↔ x ∈ m ∧ x.1 ∈ c := by
  unfold restrict; simp

theorem restrict_fst (m : Mapping) (c : List Nat) :
    (restrict m c).map (·.1) = (m.map (·.1)).filter c.contains := by
  unfold restrict
  rw [List.filter_map]
  rfl

theorem restrict_get? (m : Mapping) (c : List Nat) (p : Nat) (hp : p ∈ c) : (restrict m c).get? p = m.get? p := by
  unfold Mapping.get? restrict
  rw [find?_filter_of_imp]
  intro a _ ha
  simp only [decide_eq_true_eq] at ha
  simp [ha, hp]

/-- An edge of the graph between two nodes of `c` is the same edge of the sub-graph. -/
theorem sub_edge?_of (G : LGraph) (c : List Nat) (u v : Nat) (a : Attrs) (hu : u ∈ c) (hv : v ∈ c)
    (h : G.edge? u v = some a) : (sub G c).edge? u v = some a := by
  rw [← h]
  unfold LGraph.edge? sub
  simp only
  rw [find?_filter_of_imp]
  intro x _ hx
  simp only [decide_eq_true_eq] at hx
  rcases hx with ⟨h1, h2⟩ | ⟨h1, h2⟩ <;> simp [h1, h2, hu, hv]

theorem mono_keys_nodup {sel : Sel} {H P : LGraph} {m : Mapping} (hP : P.WF) (hm : IsMono sel H P m) :
    (m.map (·.1)).Nodup := by
  have e : m.map (·.1) = P.ids := hm.1
  rw [e]; exact hP.1

theorem mono_get?_total {sel : Sel} {H P : LGraph} {m : Mapping} (hm : IsMono sel H P m) (p : Nat) (hp : p ∈ P.ids) :
    ∃ h, m.get? p = some h ∧ (p, h) ∈ m := by
  have e : m.map (·.1) = P.ids := hm.1
  exact get?_isSome_of_mem_fst m p (e ▸ hp)

/-- A monomorphism sends adjacent pattern nodes to adjacent host nodes. -/
theorem mono_adj {sel : Sel} {H P : LGraph} {m : Mapping} (hH : H.WF) (hm : IsMono sel H P m) (p q : Nat)
    (h : Adj P.ids (endpoints P) p q) :
    ∃ hp hq, m.get? p = some hp ∧ m.get? q = some hq ∧ Adj H.ids (endpoints H) hp hq := by
  obtain ⟨-, -, hpq⟩ := h
  have key : ∀ e ∈ P.edges, ∃ hu hv, m.get? e.1 = some hu ∧ m.get? e.2.1 = some hv ∧ Adj H.ids (endpoints H) hu hv := by
    intro e he
    obtain ⟨hu, hv, ea, g1, g2, g3, -⟩ := hm.2.2.2 e he
    obtain ⟨e', he', -, hends⟩ := edge?_some_mem H hu hv ea g3
    obtain ⟨a, b, -⟩ := hH.2.1 e' he'
    have hmem := mem_endpoints H e' he'
    refine ⟨hu, hv, g1, g2, ?_⟩
    rcases hends with ⟨h1, h2⟩ | ⟨h1, h2⟩
    · exact ⟨h1 ▸ a, h2 ▸ b, Or.inl (h1 ▸ h2 ▸ hmem)⟩
    · exact ⟨h2 ▸ b, h1 ▸ a, Or.inr (h1 ▸ h2 ▸ hmem)⟩
  rcases hpq with hpq | hpq
  · obtain ⟨e, he, hee⟩ := List.mem_map.1 hpq
    obtain ⟨rfl, rfl⟩ := Prod.mk.inj hee
    obtain ⟨hu, hv, g1, g2, g3⟩ := key e he
    exact ⟨hu, hv, g1, g2, g3⟩
  · obtain ⟨e, he, hee⟩ := List.mem_map.1 hpq
    obtain ⟨rfl, rfl⟩ := Prod.mk.inj hee
    obtain ⟨hu, hv, g1, g2, g3⟩ := key e he
    exact ⟨hv, hu, g2, g1, g3.symm⟩

/-- **Connectedness is preserved by a monomorphism.** -/
theorem mono_conn {sel : Sel} {H P : LGraph} {m : Mapping} (hH : H.WF) (hm : IsMono sel H P m) (p q hp : Nat)
    (hc : Conn P.ids (endpoints P) p q) (hg : m.get? p = some hp) :
    ∃ hq, m.get? q = some hq ∧ Conn H.ids (endpoints H) hp hq := by
  induction hc with
  | refl => exact ⟨hp, hg, Conn.refl _⟩
  | tail _ hab ih =>
    obtain ⟨hb, g1, c1⟩ := ih
    obtain ⟨hb', hc', g2, g3, hadj⟩ := mono_adj hH hm _ _ hab
    rw [g1] at g2; cases g2
    exact ⟨hc', g3, c1.trans (Conn.of_adj hadj)⟩

/-- The image of a pattern component lies inside one host component. -/
theorem mono_component_image {sel : Sel} {H P : LGraph} {m : Mapping} (hH : H.WF) (hP : P.WF) (hm : IsMono sel H P m)
    (pc : List Nat) (hpc : pc ∈ comps P) :
    ∃ (i : Nat) (hc : List Nat), (comps H)[i]? = some hc ∧ ∀ x ∈ restrict m pc, x.2 ∈ hc := by
  obtain ⟨p0, hp0⟩ := List.exists_mem_of_ne_nil _ (components_ne_nil P.ids (endpoints P) pc hpc)
  have hp0n : p0 ∈ P.ids := (components_cover P.ids (endpoints P) hP.1 p0).2 ⟨pc, hpc, hp0⟩
  obtain ⟨h0, g0, hm0⟩ := mono_get?_total hm p0 hp0n
  have hh0 : h0 ∈ H.ids := (hm.2.2.1 _ hm0).1
  obtain ⟨hc, hhc, hh0c⟩ := (components_cover H.ids (endpoints H) hH.1 h0).1 hh0
  obtain ⟨i, hi, rfl⟩ := List.getElem_of_mem hhc
  refine ⟨i, _, List.getElem?_eq_getElem hi, ?_⟩
  intro x hx
  obtain ⟨hxm, hxc⟩ := (mem_restrict m pc x).1 hx
  have hconn := ((mem_components_iff P.ids (endpoints P) hP.1 pc p0 hpc hp0 x.1).1 hxc).2
  obtain ⟨hq, g1, c1⟩ := mono_conn hH hm p0 x.1 h0 hconn g0
  have g1' := get?_of_mem m (mono_keys_nodup hP hm) x.1 x.2 hxm
  rw [g1'] at g1; cases g1
  exact (mem_components_iff H.ids (endpoints H) hH.1 _ h0 hhc hh0c x.2).2 ⟨(hm.2.2.1 x hxm).1, c1⟩

/-- **Decomposition lemma**: a monomorphism restricted to a set of pattern nodes whose image lies in
`hc` is a monomorphism of the sub-graphs. -/
theorem restrict_isMono {sel : Sel} {H P : LGraph} {m : Mapping} (hm : IsMono sel H P m) (pc hc : List Nat)
    (himg : ∀ x ∈ restrict m pc, x.2 ∈ hc) : IsMono sel (sub H hc) (sub P pc) (restrict m pc) := by
  refine ⟨?_, ?_, ?_, ?_⟩
  · have e : m.map (·.1) = P.ids := hm.1
    rw [restrict_fst, sub_ids, e]
  · exact ((List.filter_sublist (l := m)).map _).nodup hm.2.1
  · intro x hx
    obtain ⟨hxm, hxc⟩ := (mem_restrict m pc x).1 hx
    obtain ⟨a, b⟩ := hm.2.2.1 x hxm
    refine ⟨(mem_sub_ids H hc _).2 ⟨a, himg x hx⟩, ?_⟩
    rw [sub_attrs H hc x.2 (himg x hx), sub_attrs P pc x.1 hxc]
    exact b
  · intro e he
    obtain ⟨he', h1, h2⟩ := (mem_sub_edges P pc e).1 he
    obtain ⟨hu, hv, ea, g1, g2, g3, g4⟩ := hm.2.2.2 e he'
    refine ⟨hu, hv, ea, by rw [restrict_get? m pc _ h1]; exact g1, by rw [restrict_get? m pc _ h2]; exact g2, ?_, g4⟩
    refine sub_edge?_of H hc hu hv ea ?_ ?_ g3
    · exact himg (e.1, hu) ((mem_restrict m pc _).2 ⟨mem_of_get? _ _ _ g1, h1⟩)
    · exact himg (e.2.1, hv) ((mem_restrict m pc _).2 ⟨mem_of_get? _ _ _ g2, h2⟩)

/-- A monomorphism needs at least as many host nodes as pattern nodes. -/
theorem isMono_nodes_le {sel : Sel} {H P : LGraph} {m : Mapping} (hm : IsMono sel H P m) :
    P.nodes.length ≤ H.nodes.length := by
  have hsub : m.map (·.2) ⊆ H.ids := by
    intro h hh
    obtain ⟨x, hx, rfl⟩ := List.mem_map.1 hh
    exact (hm.2.2.1 x hx).1
  have := (List.subperm_of_subset hm.2.1 hsub).length_le
  have e : (m.map (·.1)).length = P.ids.length := by
    have e : m.map (·.1) = P.ids := hm.1
    rw [e]
  simp only [List.length_map, LGraph.ids] at this e ⊢
  omega

/-- The restricted monomorphism is one of the per-component embeddings the search computes. -/
theorem restrict_mem_level {sel : Sel} {H P : LGraph} {m : Mapping} (hP : P.WF) (hm : IsMono sel H P m)
    (pc hc : List Nat) (i : Nat) (hi : (comps H)[i]? = some hc) (himg : ∀ x ∈ restrict m pc, x.2 ∈ hc) :
    (i, restrict m pc) ∈ perComponent sel ((comps H).map (sub H)) (sub P pc) := by
  have hr := restrict_isMono hm pc hc himg
  refine (mem_perComponent sel _ _ i _).2 ⟨sub H hc, ?_, isMono_nodes_le hr, ?_⟩
  · rw [List.getElem?_map, hi]; rfl
  · exact (mem_allMonos sel _ _ (sub_WF P hP pc) _).2 hr

/-! ### the sorted levels are the levels of a permutation of the pattern components -/

theorem insertByLen_map {α β : Type} (f : β → List α) (x : β) (ys : List β) :
    ∃ zs : List β, zs.Perm (x :: ys) ∧ insertByLen (f x) (ys.map f) = zs.map f := by
  induction ys with
  | nil => exact ⟨[x], List.Perm.refl _, rfl⟩
  | cons y ys ih =>
    simp only [List.map_cons, insertByLen]
    split
    · exact ⟨x :: y :: ys, List.Perm.refl _, rfl⟩
    · obtain ⟨zs, hz, he⟩ := ih
      exact ⟨y :: zs, (List.Perm.cons y hz).trans (List.Perm.swap x y ys), by rw [he]; rfl⟩

theorem sortByLen_map {α β : Type} (f : β → List α) (xs : List β) :
    ∃ ys : List β, ys.Perm xs ∧ sortByLen (xs.map f) = ys.map f := by
  unfold sortByLen
  have : ∀ init : List β, ∃ ys : List β, ys.Perm (xs ++ init) ∧
      (xs.map f).foldl (fun acc x => insertByLen x acc) (init.map f) = ys.map f := by
    induction xs with
    | nil => intro init; exact ⟨init, List.Perm.refl _, rfl⟩
    | cons x xs ih =>
      intro init
      obtain ⟨zs, hz, he⟩ := insertByLen_map f x init
      obtain ⟨ys, hy, hf⟩ := ih zs
      refine ⟨ys, hy.trans ?_, ?_⟩
      · exact (List.Perm.append_left xs hz).trans List.perm_middle
      · simp only [List.map_cons, List.foldl_cons]
        rw [he]; exact hf
  obtain ⟨ys, hy, hf⟩ := this []
  exact ⟨ys, by simpa using hy, hf⟩

/-- One pick per level, given by a function of the level's pattern component. -/
theorem picks_of_map (f : List Nat → List (Nat × Mapping)) (pk : List Nat → Nat × Mapping) :
    ∀ (ys : List (List Nat)) (used : List Nat) (acc : Mapping),
      (∀ y ∈ ys, pk y ∈ f y) →
      ys.Pairwise (fun a b => (pk a).1 ≠ (pk b).1 ∧ KeyDisj (pk b).2 (pk a).2) →
      (∀ y ∈ ys, (pk y).1 ∉ used ∧ KeyDisj (pk y).2 acc) →
      Picks (ys.map f) used acc (ys.map pk) := by
  intro ys
  induction ys with
  | nil => intro _ _ _ _ _; trivial
  | cons y ys ih =>
    intro used acc h1 h2 h3
    rw [List.pairwise_cons] at h2
    refine ⟨h1 y List.mem_cons_self, (skip_false_iff _ _ _ _).2 (h3 y List.mem_cons_self), ?_⟩
    refine ih _ _ (fun z hz => h1 z (List.mem_cons_of_mem _ hz)) h2.2 ?_
    intro z hz
    obtain ⟨a, b⟩ := h3 z (List.mem_cons_of_mem _ hz)
    obtain ⟨c, d⟩ := h2.1 z hz
    refine ⟨?_, ?_⟩
    · intro hmem
      rcases List.mem_cons.1 hmem with e | e
      · exact c e.symm
      · exact a e
    · intro u hu v hv
      rcases List.mem_append.1 hv with hv | hv
      · exact b u hu v hv
      · exact d u hu v hv

/-- `get?` in a sub-dict of a dict with distinct keys. -/
theorem get?_of_subset (A m : Mapping) (hsub : ∀ x ∈ A, x ∈ m) (hn : (m.map (·.1)).Nodup) (p h : Nat)
    (hA : (p, h) ∈ A) : A.get? p = some h := by
  obtain ⟨h', g, hmem⟩ := get?_isSome_of_mem_fst A p (List.mem_map.2 ⟨(p, h), hA, rfl⟩)
  have := List.inj_on_of_nodup_map hn (hsub _ hmem) (hsub _ hA) rfl
  rw [g, (Prod.mk.inj this).2]

/-- Reading a dict that agrees with `m` on the pattern nodes gives back `m`. -/
theorem normalize_eq_of_get? (P : LGraph) (A m : Mapping) (hfst : m.map (·.1) = P.ids)
    (h : ∀ x ∈ m, A.get? x.1 = some x.2) : normalize P A = m := by
  unfold normalize
  rw [← hfst, List.filterMap_map]
  have : ∀ x ∈ m, ((fun p => (A.get? p).map fun h => (p, h)) ∘ fun x : Nat × Nat => x.1) x = some x := by
    intro x hx
    simp only [Function.comp, h x hx, Option.map_some]
  rw [List.filterMap_congr this]
  exact List.filterMap_some

/-- **Completeness of the unlimited component-aware enumeration.** -/
theorem mem_compEnum_of_mono (sel : Sel) (H P : LGraph) (hH : H.WF) (hP : P.WF) (m : Mapping)
    (hm : IsMono sel H P m) (hd : DistinctComponents H P m) : m ∈ compEnum sel H P := by
  have hkn := mono_keys_nodup hP hm
  have key : ∀ pc, pc ∈ comps P → ∃ (i : Nat) (hc : List Nat), (comps H)[i]? = some hc ∧ ∀ x ∈ restrict m pc, x.2 ∈ hc :=
    fun pc hpc => mono_component_image hH hP hm pc hpc
  choose! idx hcOf hidx himg using key
  let f : List Nat → List (Nat × Mapping) := fun pc => perComponent sel ((comps H).map (sub H)) (sub P pc)
  let pk : List Nat → Nat × Mapping := fun pc => (idx pc, restrict m pc)
  obtain ⟨ys, hperm, hsort⟩ := sortByLen_map f (comps P)
  have hlev : sortByLen (perCc sel H P) = ys.map f := by
    rw [← hsort]; unfold perCc; rw [List.map_map]; rfl
  have hys : ∀ y ∈ ys, y ∈ comps P := fun y hy => hperm.mem_iff.1 hy
  have hdisj : ys.Pairwise List.Disjoint := by
    have hsymm : ∀ a b : List Nat, List.Disjoint a b → List.Disjoint b a := fun a b h x hx hy => h hy hx
    exact (hperm.pairwise_iff (fun {a b} h => hsymm a b h)).2 (components_disjoint P.ids (endpoints P) hP.1)
  have hpicks : Picks (ys.map f) [] [] (ys.map pk) := by
    refine picks_of_map f pk ys [] [] ?_ ?_ ?_
    · intro y hy
      exact restrict_mem_level hP hm y (hcOf y) (idx y) (hidx y (hys y hy)) (himg y (hys y hy))
    · refine hdisj.imp_of_mem ?_
      intro a b ha hb hab
      refine ⟨?_, ?_⟩
      · intro heq
        change idx a = idx b at heq
        have hca := hidx a (hys a ha)
        have hcb := hidx b (hys b hb)
        rw [heq, hcb] at hca
        have hceq : hcOf a = hcOf b := (Option.some.inj hca).symm
        obtain ⟨p, hp⟩ := List.exists_mem_of_ne_nil _ (components_ne_nil P.ids (endpoints P) a (hys a ha))
        obtain ⟨q, hq⟩ := List.exists_mem_of_ne_nil _ (components_ne_nil P.ids (endpoints P) b (hys b hb))
        have hpn : p ∈ P.ids := (components_cover P.ids (endpoints P) hP.1 p).2 ⟨a, hys a ha, hp⟩
        have hqn : q ∈ P.ids := (components_cover P.ids (endpoints P) hP.1 q).2 ⟨b, hys b hb, hq⟩
        obtain ⟨vp, gp, mp⟩ := mono_get?_total hm p hpn
        obtain ⟨vq, gq, mq⟩ := mono_get?_total hm q hqn
        have hvp : vp ∈ hcOf b := hceq ▸ himg a (hys a ha) (p, vp) ((mem_restrict m a _).2 ⟨mp, hp⟩)
        have hvq : vq ∈ hcOf b := himg b (hys b hb) (q, vq) ((mem_restrict m b _).2 ⟨mq, hq⟩)
        have hcm : hcOf b ∈ comps H := List.mem_of_getElem? hcb
        have hconn := ((mem_components_iff H.ids (endpoints H) hH.1 _ vp hcm hvp vq).1 hvq).2
        have hpq : Conn P.ids (endpoints P) p q := by
          by_contra hnc
          exact hd p q vp vq gp gq hnc hconn
        have : q ∈ a := (mem_components_iff P.ids (endpoints P) hP.1 a p (hys a ha) hp q).2 ⟨hqn, hpq⟩
        exact hab this hq
      · intro x hx y hy e
        have h1 := ((mem_restrict m b x).1 hx).2
        have h2 := ((mem_restrict m a y).1 hy).2
        exact hab h2 (e ▸ h1)
    · intro y _
      exact ⟨by simp, fun _ _ _ h => by cases h⟩
  unfold compEnum
  rw [hlev]
  refine (mem_enum P _ [] [] m).2 ⟨ys.map pk, hpicks, ?_⟩
  symm
  apply normalize_eq_of_get? P _ m hm.1
  intro x hx
  have hxn : x.1 ∈ P.ids := by
    have e : m.map (·.1) = P.ids := hm.1
    rw [← e]; exact List.mem_map.2 ⟨x, hx, rfl⟩
  obtain ⟨pc, hpc, hxpc⟩ := (components_cover P.ids (endpoints P) hP.1 x.1).1 hxn
  have hpcy : pc ∈ ys := hperm.mem_iff.2 hpc
  apply get?_of_subset _ m ?_ hkn
  · simp only [List.nil_append, List.mem_flatMap, List.mem_map]
    exact ⟨pk pc, ⟨pc, hpcy, rfl⟩, (mem_restrict m pc x).2 ⟨hx, hxpc⟩⟩
  · intro z hz
    simp only [List.nil_append, List.mem_flatMap, List.mem_map] at hz
    obtain ⟨_, ⟨y, -, rfl⟩, hz⟩ := hz
    exact ((mem_restrict m y z).1 hz).1

/-- Every pattern component has at least one embedding as soon as a separating monomorphism exists. -/
theorem perCc_ne_nil_of_mono (sel : Sel) (H P : LGraph) (hH : H.WF) (hP : P.WF) (m : Mapping)
    (hm : IsMono sel H P m) : ∀ maps ∈ perCc sel H P, maps ≠ [] := by
  intro maps hmaps
  unfold perCc at hmaps
  simp only [List.map_map, List.mem_map, Function.comp] at hmaps
  obtain ⟨pc, hpc, rfl⟩ := hmaps
  obtain ⟨i, hc, hi, himg⟩ := mono_component_image hH hP hm pc hpc
  exact List.ne_nil_of_mem (restrict_mem_level hP hm pc hc i hi himg)

end SynKit.SubgraphSearch

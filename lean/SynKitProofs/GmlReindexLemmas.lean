import SynKitModel.Gml
import SynKitProofs.GmlLemmas
import SynKitProofs.GmlIsoLemmas
import SynKitProofs.GmlReaderLemmas
/-! Helper lemmas for C10: the re-indexed export is the plain export of the renumbered ITS. -/
namespace SynKit.Gml
open SynKit SynKit.Match

theorem injOn_indexMap (I : LGraph) (hs : ItsShape I) : InjOnIds I (indexMap (side 0 I)) := by
  intro a ha b hb e
  have hids := side_ids 0 I hs.2.1
  have ha' : (side 0 I).hasNode a = true := by simpa [LGraph.hasNode, hids] using ha
  have hb' : (side 0 I).hasNode b = true := by simpa [LGraph.hasNode, hids] using hb
  simp only [indexMap, ha', hb', if_true, hids] at e
  exact (List.idxOf_inj ha).1 (Nat.succ_injective e)

theorem sideEdge_relabel (i : Nat) (f : Nat → Nat) (e : Nat × Nat × Attrs) :
    sideEdge i (f e.1, f e.2.1, e.2.2) = (sideEdge i e).map fun e' => (f e'.1, f e'.2.1, e'.2.2) := by
  unfold sideEdge
  simp only
  split
  · split <;> split <;> rfl
  · rfl

theorem side_relabel_edges (i : Nat) (I : LGraph) (f : Nat → Nat) :
    (side i (I.relabel f)).edges = ((side i I).relabel f).edges := by
  simp only [side, LGraph.relabel, List.filterMap_map, List.map_filterMap]
  apply List.filterMap_congr
  intro e _
  exact sideEdge_relabel i f e

theorem sideAttrs_indep (i : Nat) (n m : Nat) (a : Attrs) (h : nodeShape a = true) :
    nodeLabel (sideAttrs i (n, a)) = nodeLabel (sideAttrs i (m, a)) ∧
    Attrs.get (sideAttrs i (n, a)) "charge" = Attrs.get (sideAttrs i (m, a)) "charge" := by
  obtain ⟨e, ar, hc, c, nb, ar', hc', c', nb', h1, _, _, _⟩ := nodeShape_unpack a h
  by_cases hi : i = 0
  · simp [sideAttrs, sideNode, h1, hi, nodeLabel, elemOf, chargeOf, Dict.get?, tupGet, Attrs.get, Dict.getD]
  · simp [sideAttrs, sideNode, h1, hi, nodeLabel, elemOf, chargeOf, Dict.get?, tupGet, Attrs.get, Dict.getD]

/-- node part of a `left`/`right` section, for a side graph given as a map over the ITS nodes. -/
theorem sideItems_nodes_eq (N : List (Nat × Attrs)) (g1 g2 : Nat × Attrs → Nat × Attrs) (c : List Nat)
    (h1 : ∀ p ∈ N, (g1 p).1 = (g2 p).1) (h2 : ∀ p ∈ N, nodeLabel (g1 p).2 = nodeLabel (g2 p).2) :
    ((N.map g1).filter fun p => c.contains p.1).map nodeItem = ((N.map g2).filter fun p => c.contains p.1).map nodeItem := by
  induction N with
  | nil => rfl
  | cons p N ih =>
    have ih' := ih (fun q hq => h1 q (List.mem_cons_of_mem _ hq)) (fun q hq => h2 q (List.mem_cons_of_mem _ hq))
    simp only [List.map_cons, List.filter_cons]
    rw [← h1 p List.mem_cons_self]
    split
    · simp only [List.map_cons, ih', nodeItem, h1 p List.mem_cons_self, h2 p List.mem_cons_self]
    · exact ih'

theorem itsToGml_reindex (I : LGraph) (hs : ItsShape I) :
    itsToGml false true I = itsToGml false false (I.relabel (indexMap (side 0 I))) := by
  have hf := injOn_indexMap I hs
  generalize hfdef : indexMap (side 0 I) = f at hf
  have hs' : ItsShape (I.relabel f) := itsShape_relabel I hs f hf
  have hnodes : ∀ i, (side i (I.relabel f)).nodes = I.nodes.map fun p => (f p.1, sideAttrs i (f p.1, p.2)) := by
    intro i
    rw [side_nodes i _ hs'.2.1]
    simp [LGraph.relabel, List.map_map, Function.comp_def]
  have hnodesr : ∀ i, ((side i I).relabel f).nodes = I.nodes.map fun p => (f p.1, sideAttrs i p) := by
    intro i
    simp [LGraph.relabel, side_nodes i I hs.2.1, List.map_map, Function.comp_def]
  have hids : ∀ i, (side i (I.relabel f)).ids = ((side i I).relabel f).ids := by
    intro i
    simp [LGraph.ids, hnodes, hnodesr, List.map_map, Function.comp_def]
  have hidsr : ∀ i, ((side i I).relabel f).ids = I.ids.map f := by
    intro i
    simp [LGraph.ids, hnodesr, List.map_map, Function.comp_def]
  have hfi : ∀ i, InjOnIds (side i I) f := by
    intro i a ha b hb; rw [side_ids i I hs.2.1] at ha hb; exact hf a ha b hb
  -- charge look-ups agree
  have hcharge : ∀ i, ∀ n' ∈ I.ids.map f,
      Attrs.get (((side i I).relabel f).attrs n') "charge" = Attrs.get ((side i (I.relabel f)).attrs n') "charge" := by
    intro i n' hn'
    obtain ⟨n, hn, rfl⟩ := List.mem_map.1 hn'
    obtain ⟨p, hp, rfl⟩ := List.mem_map.1 hn
    rw [relabel_attrs_on (side i I) f (hfi i) p.1 (by rw [side_ids i I hs.2.1]; exact List.mem_map.2 ⟨p, hp, rfl⟩),
      side_attrs i I hs.1.1 hs.2.1 p hp]
    have hp' : (f p.1, p.2) ∈ (I.relabel f).nodes := by
      simp only [LGraph.relabel]; exact List.mem_map.2 ⟨p, hp, rfl⟩
    have := side_attrs i (I.relabel f) hs'.1.1 hs'.2.1 (f p.1, p.2) hp'
    simp only at this
    rw [this]
    exact (sideAttrs_indep i p.1 (f p.1) p.2 (hs.2.1 p hp)).2
  have hch : findChanged ((side 0 I).relabel f) ((side 1 I).relabel f) =
      findChanged (side 0 (I.relabel f)) (side 1 (I.relabel f)) := by
    unfold findChanged
    rw [hids 0, hidsr 0]
    apply List.filter_congr
    intro n' hn'
    rw [hcharge 0 n' hn', hcharge 1 n' hn']
    simp only [LGraph.hasNode, hids 1]
  have hside : ∀ i c, sideItems ((side i I).relabel f) c = sideItems (side i (I.relabel f)) c := by
    intro i c
    unfold sideItems
    rw [side_relabel_edges i I f, hnodes i, hnodesr i]
    congr 1
    apply sideItems_nodes_eq
    · intro p _; rfl
    · intro p hp
      exact (sideAttrs_indep i p.1 (f p.1) p.2 (hs.2.1 p hp)).1
  rw [itsToGml_full]
  simp only [itsToGml, writeRule, decompose, if_true, Bool.false_eq_true, if_false, hfdef]
  rw [hch, hside 0, hside 1]

end SynKit.Gml

import SynKitModel.ReprOpt
import SynKitProofs.ReprLemmas
import SynKitProofs.ReprHLemmas
import SynKitProofs.ImplicitHLemmas
import SynKitProofs.Match
import SynKitProofs.GmlLemmas
import SynKitProofs.GmlReaderLemmas
/-!
# C10 — what the non-default options of the representation changes promise

Helper lemmas for the theorems of `Props/C10.lean` about `SynKitModel/ReprOpt.lean`:

* `hToExplicitG` (a node list, absent / repeated ids allowed) has a closed form `form g L`, `L` the
  list of the atoms that were really expanded, in the order of their first visit (`stepOn_form`,
  `hToExplicitG_eq_form`); from it: the hydrogen total is kept, all ids give the default
  `hToExplicit`, folding back restores the graph;
* `implicitHydrogenReindex` is `implicitHydrogen` relabelled onto `1..n` with `atom_map` = new id;
* `molToGraphOpt` with both flags off is `molToGraph`; `drop_non_aam` gives the induced subgraph on
  the mapped atoms;
* the GML writer with `explicit_hydrogen=False` is the default writer; with `explicit_hydrogen=True`
  (ids kept) the re-imported rule is the default one on the atoms of the ITS graph plus pendant
  hydrogens (`readSideX_spec`, `readX_spec`, `roundtripX`, `roundtripX_full`).
-/
namespace SynKit.ReprOpt
open SynKit SynKit.Repr SynKit.Gml

/-! ## `expandAttrs` -/

theorem isH_set_typesGH (a : Attrs) (v : Val) : isH (Dict.set a "typesGH" v) = isH a := by
  simp [isH, get_set_other a "typesGH" "element" v (by decide)]

theorem hraw_set_typesGH (a : Attrs) (v : Val) : hraw (Dict.set a "typesGH" v) = hraw a := by
  simp [hraw, Dict.get?_set_other a "typesGH" v "hcount" (by decide)]

theorem isH_expandAttrs (a : Attrs) (c : Int) : isH (expandAttrs a c) = isH a := by
  unfold expandAttrs
  simp only
  split
  · split
    · rw [isH_set_typesGH, isH_set_hcount]
    · rw [isH_set_hcount]
  · rw [isH_set_hcount]

theorem hraw_expandAttrs (a : Attrs) (c : Int) : hraw (expandAttrs a c) = hraw a - 2 * c := by
  unfold expandAttrs
  simp only
  split
  · split
    · rw [hraw_set_typesGH, hraw_set]
    · rw [hraw_set]
  · rw [hraw_set]

theorem hcnt_expandAttrs_self (a : Attrs) : hcnt (expandAttrs a (hcnt a)) = 0 := by
  simp only [hcnt, hraw_expandAttrs]; omega

/-- without a `typesGH` attribute the update is the plain decrement of `hcount`. -/
theorem expandAttrs_of_no_types (a : Attrs) (c : Int) (h : Dict.contains a "typesGH" = false) :
    expandAttrs a c = Dict.set a "hcount" (.num (hraw a - 2 * c)) := by
  have h1 : Dict.get? a "typesGH" = none := by
    rw [Dict.get?_eq_none_iff]; simpa [Dict.contains] using h
  unfold expandAttrs
  simp only [Dict.get?_set_other a "hcount" _ "typesGH" (by decide), h1]

/-! ## The closed form of the loop -/

/-- the expanded atom (`hcount` brought to zero, `typesGH` adjusted when present). -/
def expNode (p : Nat × Attrs) : Nat × Attrs :=
  if hcnt p.2 > 0 then (p.1, expandAttrs p.2 (hcnt p.2)) else p

/-- number of hydrogens created for node `v` of `g`. -/
def cntOf (g : LGraph) (v : Nat) : Nat := (hcnt (g.attrs v)).toNat

/-- the (new hydrogen, heavy atom) pairs created when the atoms `L` are expanded in this order. -/
def planL (g : LGraph) : List Nat → Nat → List (Nat × Nat)
  | [], _ => []
  | v :: L, mx => (List.range' (mx + 1) (cntOf g v)).map (fun f => (f, v)) ++ planL g L (mx + cntOf g v)

def totL (g : LGraph) (L : List Nat) : Nat := (L.map (cntOf g)).sum

/-- the graph after the atoms `L` have been expanded (in this order). -/
def form (g : LGraph) (L : List Nat) : LGraph :=
  { nodes := g.nodes.map (fun p => if p.1 ∈ L then expNode p else p) ++ (planL g L (maxId g)).map freshNode
    edges := g.edges ++ (planL g L (maxId g)).map freshEdge }

/-- the effect of one loop iteration on the list of expanded atoms. -/
def visit (g : LGraph) (L : List Nat) (v : Nat) : List Nat :=
  if v ∈ g.ids ∧ hcnt (g.attrs v) > 0 ∧ v ∉ L then L ++ [v] else L

theorem expNode_fst (p : Nat × Attrs) : (expNode p).1 = p.1 := by
  unfold expNode; split <;> rfl

theorem isH_expNode (p : Nat × Attrs) : isH (expNode p).2 = isH p.2 := by
  unfold expNode; split
  · exact isH_expandAttrs _ _
  · rfl

theorem hcnt_expNode (p : Nat × Attrs) : hcnt (expNode p).2 = if hcnt p.2 > 0 then 0 else hcnt p.2 := by
  unfold expNode; split
  · exact hcnt_expandAttrs_self _
  · rfl

theorem totL_append (g : LGraph) (L : List Nat) (v : Nat) : totL g (L ++ [v]) = totL g L + cntOf g v := by
  simp [totL]

theorem planL_append (g : LGraph) (L : List Nat) (v : Nat) (mx : Nat) :
    planL g (L ++ [v]) mx = planL g L mx ++ (List.range' (mx + totL g L + 1) (cntOf g v)).map (fun f => (f, v)) := by
  induction L generalizing mx with
  | nil => simp [planL, totL]
  | cons w L ih =>
    simp only [List.cons_append, planL, ih, List.append_assoc, totL, List.map_cons, List.sum_cons]
    rw [show mx + cntOf g w + (List.map (cntOf g) L).sum + 1 = mx + (cntOf g w + (List.map (cntOf g) L).sum) + 1 by omega]

theorem planL_fst (g : LGraph) (L : List Nat) (mx : Nat) :
    (planL g L mx).map (·.1) = List.range' (mx + 1) (totL g L) := by
  induction L generalizing mx with
  | nil => simp [planL, totL]
  | cons v L ih =>
    simp only [planL, List.map_append, List.map_map, totL, List.map_cons, List.sum_cons]
    rw [ih]
    have : (List.map ((fun x => x.1) ∘ fun f => (f, v)) (List.range' (mx + 1) (cntOf g v))) =
        List.range' (mx + 1) (cntOf g v) := by
      simp [Function.comp_def]
    rw [this]
    rw [show mx + cntOf g v + 1 = (mx + 1) + 1 * cntOf g v by omega]
    rw [List.range'_append]
    rfl

theorem planL_length (g : LGraph) (L : List Nat) (mx : Nat) : (planL g L mx).length = totL g L := by
  have := congrArg List.length (planL_fst g L mx); simpa using this

theorem mem_planL (g : LGraph) (L : List Nat) (mx : Nat) (q : Nat × Nat) (h : q ∈ planL g L mx) :
    mx + 1 ≤ q.1 ∧ q.2 ∈ L ∧ 0 < cntOf g q.2 := by
  constructor
  · have : q.1 ∈ (planL g L mx).map (·.1) := List.mem_map.2 ⟨q, h, rfl⟩
    rw [planL_fst] at this
    exact (List.mem_range'_1.1 this).1
  · induction L generalizing mx with
    | nil => simp [planL] at h
    | cons v L ih =>
      simp only [planL, List.mem_append, List.mem_map] at h
      rcases h with ⟨f, hf, rfl⟩ | h
      · refine ⟨List.mem_cons_self, ?_⟩
        have := (List.mem_range'_1.1 hf); simp only; omega
      · obtain ⟨h1, h2⟩ := ih _ h
        exact ⟨List.mem_cons_of_mem _ h1, h2⟩

theorem form_nil (g : LGraph) : form g [] = g := by
  cases g with
  | mk nodes edges => simp [form, planL]

/-- ids of the mapped old nodes. -/
theorem form_old_ids (g : LGraph) (L : List Nat) :
    (g.nodes.map (fun p => if p.1 ∈ L then expNode p else p)).map (·.1) = g.ids := by
  unfold LGraph.ids
  rw [List.map_map]
  apply List.map_congr_left
  intro p _
  simp only [Function.comp]
  split
  · exact expNode_fst p
  · rfl

theorem form_ids (g : LGraph) (L : List Nat) :
    (form g L).ids = g.ids ++ List.range' (maxId g + 1) (totL g L) := by
  have h1 := form_old_ids g L
  have h2 : ((planL g L (maxId g)).map freshNode).map (·.1) = List.range' (maxId g + 1) (totL g L) := by
    rw [List.map_map, ← planL_fst]; rfl
  unfold LGraph.ids form
  simp only [List.map_append]
  rw [h1, h2]; rfl

theorem stepOn_of_le (st : LGraph × Nat) (v : Nat) (h : hcnt (st.1.attrs v) ≤ 0) : stepOn st v = st := by
  unfold stepOn
  split
  · rfl
  · simp only [h, if_true]

theorem hcnt_nil : hcnt ([] : Attrs) = 0 := by decide

/-- the attribute dict of an old node in the closed form. -/
theorem form_attrs_old (g : LGraph) (hn : g.ids.Nodup) (L : List Nat) (p : Nat × Attrs) (hp : p ∈ g.nodes) :
    (form g L).attrs p.1 = (if p.1 ∈ L then expNode p else p).2 := by
  have hmem : (if p.1 ∈ L then expNode p else p) ∈ g.nodes.map (fun p => if p.1 ∈ L then expNode p else p) :=
    List.mem_map.2 ⟨p, hp, rfl⟩
  have hfst : (if p.1 ∈ L then expNode p else p).1 = p.1 := by
    split
    · exact expNode_fst p
    · rfl
  have := attrs_of_mem _ ((planL g L (maxId g)).map freshNode) (g.edges ++ (planL g L (maxId g)).map freshEdge)
    (by rw [form_old_ids]; exact hn) _ hmem
  rw [hfst] at this
  exact this

/-- a node that is not a node of `g` carries no count in the closed form (absent, or a new hydrogen). -/
theorem form_hcnt_new (g : LGraph) (L : List Nat) (v : Nat) (hv : v ∉ g.ids) : hcnt ((form g L).attrs v) = 0 := by
  unfold LGraph.attrs
  cases hf : (form g L).nodes.find? (fun p => decide (p.1 = v)) with
  | none => exact hcnt_nil
  | some q =>
    have hq := List.mem_of_find?_eq_some hf
    have hq1 : q.1 = v := by simpa using List.find?_some hf
    simp only [form, List.mem_append] at hq
    rcases hq with hq | hq
    · exfalso
      apply hv
      rw [← form_old_ids g L, ← hq1]
      exact List.mem_map.2 ⟨q, hq, rfl⟩
    · obtain ⟨x, _, rfl⟩ := List.mem_map.1 hq
      exact hcnt_hAttrs

theorem map_upd_of_ne (N : List (Nat × Attrs)) (v : Nat) (f : Attrs → Attrs) (h : ∀ q ∈ N, q.1 ≠ v) :
    N.map (fun p => if p.1 = v then (p.1, f p.2) else p) = N := by
  conv => rhs; rw [← List.map_id N]
  apply List.map_congr_left
  intro q hq
  simp [h q hq]

/-- **One loop iteration in closed form.** -/
theorem stepOn_form (g : LGraph) (hn : g.ids.Nodup) (L : List Nat) (v : Nat) :
    stepOn (form g L, maxId g + totL g L) v = (form g (visit g L v), maxId g + totL g (visit g L v)) := by
  by_cases hv : v ∈ g.ids
  · obtain ⟨p, hp, rfl⟩ := List.mem_map.1 hv
    have hattr := form_attrs_old g hn L p hp
    have hgattr := attrs_eq_of_mem g hn p hp
    by_cases hL : p.1 ∈ L
    · have hvis : visit g L p.1 = L := by simp [visit, hL]
      rw [hvis]
      apply stepOn_of_le
      rw [hattr, if_pos hL, hcnt_expNode]
      split <;> omega
    · by_cases hc : hcnt p.2 > 0
      · have hvis : visit g L p.1 = L ++ [p.1] := by
          simp only [visit, hv, hgattr, hc, hL, not_false_eq_true, and_self, if_true]
        rw [hvis]
        have hattr' : (form g L).attrs p.1 = p.2 := by rw [hattr, if_neg hL]
        have hhas : (form g L).hasNode p.1 = true := by
          simp only [LGraph.hasNode, form_ids, List.contains_eq_mem, List.mem_append, hv, true_or, decide_true]
        have hcnt' : cntOf g p.1 = (hcnt p.2).toNat := by rw [cntOf, hgattr]
        unfold stepOn
        simp only [hhas, Bool.not_true, Bool.false_eq_true, if_false, hattr', show ¬ hcnt p.2 ≤ 0 by omega]
        rw [totL_append, hcnt']
        refine Prod.ext ?_ (by simp only; omega)
        have hle := le_maxId g p.1 hv
        -- the old nodes
        have hA : (g.nodes.map (fun q => if q.1 ∈ L then expNode q else q)).map
              (fun q => if q.1 = p.1 then (q.1, expandAttrs q.2 (hcnt p.2)) else q) =
            g.nodes.map (fun q => if q.1 ∈ L ++ [p.1] then expNode q else q) := by
          rw [List.map_map]
          apply List.map_congr_left
          intro q hq
          simp only [Function.comp]
          by_cases hqv : q.1 = p.1
          · have : q = p := eq_of_fst_eq g.nodes hn q p hq hp hqv
            subst this
            simp only [hL, if_false, if_true, List.mem_append, List.mem_singleton, or_true, expNode, hc]
          · have h1 : (if q.1 ∈ L then expNode q else q).1 = q.1 := by
              split
              · exact expNode_fst q
              · rfl
            have h2 : (q.1 ∈ L ++ [p.1]) ↔ q.1 ∈ L := by simp [hqv]
            simp only [h1, hqv, if_false, h2]
        -- the hydrogens created earlier
        have hB : ((planL g L (maxId g)).map freshNode).map
              (fun q => if q.1 = p.1 then (q.1, expandAttrs q.2 (hcnt p.2)) else q) =
            (planL g L (maxId g)).map freshNode := by
          refine map_upd_of_ne _ p.1 (fun a => expandAttrs a (hcnt p.2)) ?_
          intro q hq
          obtain ⟨x, hx, rfl⟩ := List.mem_map.1 hq
          have := (mem_planL g L _ x hx).1
          simp only [freshNode]; omega
        -- the hydrogens created now
        have hC : ((List.range' (maxId g + totL g L + 1) (hcnt p.2).toNat).map (fun f => (f, hAttrs))).map
              (fun q => if q.1 = p.1 then (q.1, expandAttrs q.2 (hcnt p.2)) else q) =
            ((List.range' (maxId g + totL g L + 1) (hcnt p.2).toNat).map (fun f => (f, p.1))).map freshNode := by
          rw [List.map_map, List.map_map]
          apply List.map_congr_left
          intro f hf
          have := (List.mem_range'_1.1 hf).1
          have hne : ¬ f = p.1 := by omega
          simp only [Function.comp, freshNode, hne, if_false]
        simp only [updAttrs, form, planL_append, hcnt', LGraph.mk.injEq, List.map_append]
        refine ⟨?_, ?_⟩
        · rw [hA, hB, hC, List.append_assoc]
        · rw [List.append_assoc, List.map_map]; rfl
      · have hvis : visit g L p.1 = L := by simp [visit, hgattr, hc]
        rw [hvis]
        apply stepOn_of_le
        rw [hattr, if_neg hL]; omega
  · have hvis : visit g L v = L := by simp [visit, hv]
    rw [hvis]
    apply stepOn_of_le
    rw [form_hcnt_new g L v hv]

theorem foldl_stepOn_form (g : LGraph) (hn : g.ids.Nodup) (ns : List Nat) : ∀ L : List Nat,
    ns.foldl stepOn (form g L, maxId g + totL g L) =
      (form g (ns.foldl (visit g) L), maxId g + totL g (ns.foldl (visit g) L)) := by
  induction ns with
  | nil => intro L; rfl
  | cons v ns ih =>
    intro L
    simp only [List.foldl_cons]
    rw [stepOn_form g hn L v, ih]

/-- the atoms that `h_to_explicit(G, ns)` really expands, in the order of their first visit. -/
def expanded (g : LGraph) (ns : List Nat) : List Nat := (if ns.isEmpty then g.ids else ns).foldl (visit g) []

/-- **`h_to_explicit(G, nodes)` in closed form** (`its=False`). -/
theorem hToExplicitG_eq_form (g : LGraph) (hn : g.ids.Nodup) (ns : List Nat) :
    hToExplicitG g ns false = form g (expanded g ns) := by
  have h0 : (g, maxId g) = (form g [], maxId g + totL g []) := by rw [form_nil]; rfl
  unfold hToExplicitG expanded
  simp only [Bool.false_eq_true, if_false]
  rw [h0, foldl_stepOn_form g hn]

/-! ## What the list of expanded atoms looks like -/

theorem visit_inv (g : LGraph) (L : List Nat) (v : Nat)
    (h : L.Nodup ∧ ∀ x ∈ L, x ∈ g.ids ∧ hcnt (g.attrs x) > 0) :
    (visit g L v).Nodup ∧ ∀ x ∈ visit g L v, x ∈ g.ids ∧ hcnt (g.attrs x) > 0 := by
  unfold visit
  split
  · rename_i hc
    refine ⟨?_, ?_⟩
    · rw [List.nodup_append]
      refine ⟨h.1, List.nodup_singleton _, ?_⟩
      intro a ha b hb
      rw [List.mem_singleton] at hb
      subst hb
      intro e; subst e; exact hc.2.2 ha
    · intro x hx
      rcases List.mem_append.1 hx with hx | hx
      · exact h.2 x hx
      · rw [List.mem_singleton] at hx; subst hx; exact ⟨hc.1, hc.2.1⟩
  · exact h

theorem foldl_visit_inv (g : LGraph) (ns : List Nat) : ∀ L : List Nat,
    (L.Nodup ∧ ∀ x ∈ L, x ∈ g.ids ∧ hcnt (g.attrs x) > 0) →
    (ns.foldl (visit g) L).Nodup ∧ ∀ x ∈ ns.foldl (visit g) L, x ∈ g.ids ∧ hcnt (g.attrs x) > 0 := by
  induction ns with
  | nil => intro L h; exact h
  | cons v ns ih => intro L h; exact ih _ (visit_inv g L v h)

theorem expanded_inv (g : LGraph) (ns : List Nat) :
    (expanded g ns).Nodup ∧ ∀ x ∈ expanded g ns, x ∈ g.ids ∧ hcnt (g.attrs x) > 0 :=
  foldl_visit_inv g _ [] ⟨List.nodup_nil, fun _ h => absurd h List.not_mem_nil⟩

theorem foldl_visit_distinct (g : LGraph) (l : List Nat) : ∀ L : List Nat, l.Nodup → (∀ v ∈ l, v ∈ g.ids) →
    (∀ v ∈ l, v ∉ L) → l.foldl (visit g) L = L ++ l.filter (fun v => decide (hcnt (g.attrs v) > 0)) := by
  induction l with
  | nil => intro L _ _ _; simp
  | cons v l ih =>
    intro L hnd hids hL
    simp only [List.nodup_cons] at hnd
    simp only [List.foldl_cons]
    have hv := hids v List.mem_cons_self
    have hvL := hL v List.mem_cons_self
    by_cases hc : hcnt (g.attrs v) > 0
    · have : visit g L v = L ++ [v] := by simp only [visit, hv, hc, hvL, not_false_eq_true, and_self, if_true]
      rw [this, ih _ hnd.2 (fun x hx => hids x (List.mem_cons_of_mem _ hx))]
      · simp [hc]
      · intro x hx hm
        rcases List.mem_append.1 hm with hm | hm
        · exact hL x (List.mem_cons_of_mem _ hx) hm
        · rw [List.mem_singleton] at hm; subst hm; exact hnd.1 hx
    · have : visit g L v = L := by simp [visit, hc]
      rw [this, ih _ hnd.2 (fun x hx => hids x (List.mem_cons_of_mem _ hx))
        (fun x hx => hL x (List.mem_cons_of_mem _ hx))]
      simp [hc]

/-- with `nodes=None` (or all ids) the atoms with a positive count are expanded, in node order. -/
theorem expanded_all (g : LGraph) (hn : g.ids.Nodup) :
    expanded g [] = g.ids.filter (fun v => decide (hcnt (g.attrs v) > 0)) ∧
    expanded g g.ids = g.ids.filter (fun v => decide (hcnt (g.attrs v) > 0)) := by
  have h := foldl_visit_distinct g g.ids [] hn (fun _ h => h) (fun _ _ h => absurd h List.not_mem_nil)
  rw [List.nil_append] at h
  refine ⟨?_, ?_⟩
  · unfold expanded; simpa using h
  · unfold expanded
    have : (if g.ids.isEmpty then g.ids else g.ids) = g.ids := by split <;> rfl
    rw [this]; exact h

/-! ## The hydrogen total -/

theorem sum_map_update (N : List (Nat × Attrs)) (hn : (N.map (·.1)).Nodup) (F G : Nat × Attrs → Int)
    (p : Nat × Attrs) (hp : p ∈ N) (hFG : ∀ q ∈ N, q.1 ≠ p.1 → F q = G q) :
    (N.map F).sum + G p = (N.map G).sum + F p := by
  induction N with
  | nil => simp at hp
  | cons q N ih =>
    simp only [List.map_cons, List.nodup_cons] at hn
    simp only [List.map_cons, List.sum_cons]
    rcases List.mem_cons.1 hp with rfl | hp'
    · have : N.map F = N.map G := by
        apply List.map_congr_left
        intro r hr
        apply hFG r (List.mem_cons_of_mem _ hr)
        intro e; exact hn.1 (e ▸ List.mem_map.2 ⟨r, hr, rfl⟩)
      rw [this]; omega
    · have hq : F q = G q := by
        apply hFG q List.mem_cons_self
        intro e; exact hn.1 (e ▸ List.mem_map.2 ⟨p, hp', rfl⟩)
      have := ih hn.2 hp' (fun r hr => hFG r (List.mem_cons_of_mem _ hr))
      omega

theorem sum_hval_fresh (l : List (Nat × Nat)) : (((l.map freshNode).map hval).sum : Int) = l.length := by
  induction l with
  | nil => rfl
  | cons q l ih =>
    simp only [List.map_cons, List.sum_cons, List.length_cons, ih, hval, freshNode, hcnt_hAttrs, isH_hAttrs, if_true]
    push_cast; omega

theorem totalH_form (g : LGraph) (L : List Nat) :
    totalH (form g L) = ((g.nodes.map (fun p => if p.1 ∈ L then expNode p else p)).map hval).sum + (totL g L : Int) := by
  rw [totalH_eq]
  simp only [form, List.map_append, List.sum_append]
  rw [sum_hval_fresh, planL_length]

theorem hval_expNode (p : Nat × Attrs) (hc : hcnt p.2 > 0) : hval (expNode p) + hcnt p.2 = hval p := by
  simp only [hval, isH_expNode, hcnt_expNode, hc, if_true]; omega

theorem totalH_form_visit (g : LGraph) (hn : g.ids.Nodup) (L : List Nat) (v : Nat) :
    totalH (form g (visit g L v)) = totalH (form g L) := by
  unfold visit
  split
  · rename_i hc
    obtain ⟨hv, hpos, hL⟩ := hc
    obtain ⟨p, hp, rfl⟩ := List.mem_map.1 hv
    rw [attrs_eq_of_mem g hn p hp] at hpos
    rw [totalH_form, totalH_form, totL_append, List.map_map, List.map_map]
    have hcnt' : (cntOf g p.1 : Int) = hcnt p.2 := by
      rw [cntOf, attrs_eq_of_mem g hn p hp]; exact Int.toNat_of_nonneg (by omega)
    have key := sum_map_update g.nodes hn
      (hval ∘ fun q => if q.1 ∈ L ++ [p.1] then expNode q else q)
      (hval ∘ fun q => if q.1 ∈ L then expNode q else q) p hp (by
        intro q _ hq
        have : (q.1 ∈ L ++ [p.1]) ↔ q.1 ∈ L := by simp [hq]
        simp only [Function.comp, this])
    have h1 : (hval ∘ fun q => if q.1 ∈ L then expNode q else q) p = hval p := by
      simp only [Function.comp, hL, if_false]
    have h2 : (hval ∘ fun q => if q.1 ∈ L ++ [p.1] then expNode q else q) p = hval (expNode p) := by
      simp only [Function.comp, List.mem_append, List.mem_singleton, or_true, if_true]
    rw [h1, h2] at key
    have := hval_expNode p hpos
    push_cast
    omega
  · rfl

theorem totalH_form_foldl (g : LGraph) (hn : g.ids.Nodup) (ns : List Nat) : ∀ L : List Nat,
    totalH (form g (ns.foldl (visit g) L)) = totalH (form g L) := by
  induction ns with
  | nil => intro L; rfl
  | cons v ns ih => intro L; simp only [List.foldl_cons]; rw [ih, totalH_form_visit g hn]

theorem totalH_normEdges (h : LGraph) (f : Nat × Nat × Attrs → Nat × Nat × Attrs) :
    totalH { h with edges := h.edges.map f } = totalH h := rfl

/-- **`h_to_explicit(G, nodes, its)` keeps the hydrogen total**, for every node list and both values of `its`. -/
theorem hToExplicitG_totalH' (g : LGraph) (hn : g.ids.Nodup) (ns : List Nat) (its : Bool) :
    totalH (hToExplicitG g ns its) = totalH g := by
  have h := hToExplicitG_eq_form g hn ns
  have hf : totalH (hToExplicitG g ns false) = totalH g := by
    rw [h]; unfold expanded; rw [totalH_form_foldl g hn, form_nil]
  cases its with
  | false => exact hf
  | true =>
    have : totalH (hToExplicitG g ns true) = totalH (hToExplicitG g ns false) := by
      unfold hToExplicitG; rfl
    rw [this, hf]

/-! ## All ids: the default `hToExplicit` -/

theorem expNode_eq_zeroH (p : Nat × Attrs) (h : hcnt p.2 > 0 → Dict.contains p.2 "typesGH" = false) :
    expNode p = zeroH p := by
  unfold expNode zeroH
  split
  · rename_i hc; rw [expandAttrs_of_no_types _ _ (h hc)]
  · rfl

theorem explicitDomain_node (g : LGraph) (hd : explicitDomain g = true) (p : Nat × Attrs) (hp : p ∈ g.nodes) :
    hcnt p.2 > 0 → Dict.contains p.2 "typesGH" = false := by
  intro hc
  have := (List.all_eq_true.1 hd) p hp
  simpa [hc] using this

theorem planL_eq_plan (g : LGraph) (B : List (Nat × Attrs)) (hB : ∀ q ∈ B, g.attrs q.1 = q.2) : ∀ mx : Nat,
    planL g ((B.map (·.1)).filter (fun v => decide (hcnt (g.attrs v) > 0))) mx = plan B mx := by
  induction B with
  | nil => intro mx; rfl
  | cons q B ih =>
    intro mx
    have hq := hB q List.mem_cons_self
    have ih' := ih (fun r hr => hB r (List.mem_cons_of_mem _ hr))
    simp only [List.map_cons, List.filter_cons, hq]
    by_cases hc : hcnt q.2 > 0
    · simp only [hc, decide_true, if_true, planL, plan, cntOf, hq, ih']
    · simp only [hc, decide_false, Bool.false_eq_true, if_false, plan, ih']
      have : (hcnt q.2).toNat = 0 := by omega
      simp [this]

/-- **All nodes (`nodes=None`), no `typesGH` on an atom that is expanded: the default model.** -/
theorem form_all (g : LGraph) (hn : g.ids.Nodup) (hd : explicitDomain g = true) :
    form g (g.ids.filter (fun v => decide (hcnt (g.attrs v) > 0))) = hToExplicit g := by
  have hpl := planL_eq_plan g g.nodes (fun q hq => attrs_eq_of_mem g hn q hq) (maxId g)
  have hnodes : g.nodes.map (fun p => if p.1 ∈ g.ids.filter (fun v => decide (hcnt (g.attrs v) > 0)) then expNode p else p) =
      g.nodes.map zeroH := by
    apply List.map_congr_left
    intro p hp
    have hmem : p.1 ∈ g.ids.filter (fun v => decide (hcnt (g.attrs v) > 0)) ↔ hcnt p.2 > 0 := by
      rw [List.mem_filter, attrs_eq_of_mem g hn p hp]
      simp only [decide_eq_true_eq, and_iff_right_iff_imp]
      intro _; exact List.mem_map.2 ⟨p, hp, rfl⟩
    by_cases hc : hcnt p.2 > 0
    · rw [if_pos (hmem.2 hc), expNode_eq_zeroH p (explicitDomain_node g hd p hp)]
    · rw [if_neg (fun h => hc (hmem.1 h))]; simp [zeroH, hc]
  unfold form hToExplicit
  show LGraph.mk _ _ = LGraph.mk _ _
  rw [hnodes]
  unfold LGraph.ids
  rw [hpl]

/-! ## Folding back -/

theorem hNodes_gen (ns : List (Nat × Attrs)) (P : List (Nat × Nat)) (z : Nat × Attrs → Nat × Attrs)
    (hz1 : ∀ p, (z p).1 = p.1) (hz2 : ∀ p, isH (z p).2 = isH p.2) :
    ((ns.map z ++ P.map freshNode).filter fun p => isH p.2).map (·.1) =
      ((ns.filter fun p => isH p.2).map (·.1)) ++ P.map (·.1) := by
  rw [List.filter_append, List.map_append]
  congr 1
  · induction ns with
    | nil => rfl
    | cons p rest ih =>
      simp only [List.map_cons, List.filter_cons, hz2]
      by_cases h : isH p.2 = true
      · simp only [h, if_true, List.map_cons, hz1]; rw [← ih]
      · simp only [h]; exact ih
  · rw [List.filter_eq_self.2]
    · simp [freshNode, Function.comp_def]
    · intro x hx
      obtain ⟨q, _, rfl⟩ := List.mem_map.1 hx
      exact isH_hAttrs

theorem count_planL_snd (g : LGraph) (L : List Nat) (hL : L.Nodup) (x : Nat) : ∀ mx : Nat,
    ((planL g L mx).map (·.2)).count x = if x ∈ L then cntOf g x else 0 := by
  induction L with
  | nil => intro mx; simp [planL]
  | cons v L ih =>
    intro mx
    simp only [List.nodup_cons] at hL
    simp only [planL, List.map_append, List.map_map, List.count_append, ih hL.2]
    have : List.map ((fun x => x.2) ∘ fun f => (f, v)) (List.range' (mx + 1) (cntOf g v)) = List.replicate (cntOf g v) v := by
      simp [Function.comp_def, List.map_const']
    rw [this, List.count_replicate]
    by_cases hxv : x = v
    · subst hxv; simp [hL.1]
    · have : ¬ v = x := fun e => hxv e.symm
      simp [hxv, this]

/-- **Folding back the closed form** restores the graph (node-list version of the round trip). -/
theorem hToImplicit_form (g : LGraph) (hwf : g.WF) (ht : HTyped g) (hg : NoHeavyBoundH g)
    (hd : explicitDomain g = true) (L : List Nat) (hLn : L.Nodup)
    (hL : ∀ v ∈ L, v ∈ g.ids ∧ hcnt (g.attrs v) > 0) : hToImplicit (form g L) = g := by
  obtain ⟨hnd, hed, _⟩ := hwf
  obtain ⟨hxh, hhc⟩ := hg
  -- the old nodes, written with `zeroH`
  let z : Nat × Attrs → Nat × Attrs := fun p => if p.1 ∈ L then zeroH p else p
  have hz1 : ∀ p, (z p).1 = p.1 := by
    intro p; show (if p.1 ∈ L then zeroH p else p).1 = p.1
    split
    · exact zeroH_fst p
    · rfl
  have hz2 : ∀ p, isH (z p).2 = isH p.2 := by
    intro p; show isH (if p.1 ∈ L then zeroH p else p).2 = isH p.2
    split
    · exact isH_zeroH p
    · rfl
  have hform : form g L = ⟨g.nodes.map z ++ (planL g L (maxId g)).map freshNode,
      g.edges ++ (planL g L (maxId g)).map freshEdge⟩ := by
    unfold form
    congr 2
    apply List.map_congr_left
    intro p hp
    show (if p.1 ∈ L then expNode p else p) = if p.1 ∈ L then zeroH p else p
    rw [expNode_eq_zeroH p (explicitDomain_node g hd p hp)]
  have hNids : (g.nodes.map z).map (·.1) = g.ids := by
    unfold LGraph.ids
    rw [List.map_map]; apply List.map_congr_left; intro p _; exact hz1 p
  have hndz : ((g.nodes.map z).map (·.1)).Nodup := by rw [hNids]; exact hnd
  -- facts about the plan
  have hfresh : ∀ q ∈ planL g L (maxId g), ∀ v ∈ g.ids, v ≠ q.1 := by
    intro q hq v hv e
    have h1 := (mem_planL _ _ _ q hq).1
    have h2 := le_maxId g v hv
    omega
  have hparent : ∀ q ∈ planL g L (maxId g), ∃ p ∈ g.nodes, p.1 = q.2 ∧ hcnt p.2 > 0 ∧ isH p.2 = false := by
    intro q hq
    obtain ⟨_, hqL, _⟩ := mem_planL _ _ _ q hq
    obtain ⟨hq1, hq2⟩ := hL q.2 hqL
    obtain ⟨p, hp, hp1⟩ := List.mem_map.1 hq1
    rw [← hp1, attrs_eq_of_mem g hnd p hp] at hq2
    refine ⟨p, hp, hp1, hq2, ?_⟩
    cases hv : isH p.2
    · rfl
    · have := hhc p hp hv; omega
  rw [hform]
  -- a hydrogen node of g keeps all its neighbours, all hydrogens
  have hkeep : ∀ h ∈ hNodes g, implStep ⟨g.nodes.map z ++ (planL g L (maxId g)).map freshNode,
      g.edges ++ (planL g L (maxId g)).map freshEdge⟩ h = ⟨g.nodes.map z ++ (planL g L (maxId g)).map freshNode,
      g.edges ++ (planL g L (maxId g)).map freshEdge⟩ := by
    intro h hh
    obtain ⟨ph, hph, rfl⟩ := List.mem_map.1 hh
    obtain ⟨hph1, hph2⟩ := List.mem_filter.1 hph
    unfold implStep
    have hall : ((⟨g.nodes.map z ++ (planL g L (maxId g)).map freshNode,
        g.edges ++ (planL g L (maxId g)).map freshEdge⟩ : LGraph).neighbors ph.1).all
        (fun n => isH ((⟨g.nodes.map z ++ (planL g L (maxId g)).map freshNode,
          g.edges ++ (planL g L (maxId g)).map freshEdge⟩ : LGraph).attrs n)) = true := by
      rw [List.all_eq_true]
      intro n hn
      rw [neighbors_eq] at hn
      simp only [nbrsOf_append, List.mem_append] at hn
      have hnone : nbrsOf ((planL g L (maxId g)).map freshEdge) ph.1 = [] := by
        apply nbrsOf_nil_of
        intro e he
        obtain ⟨q, hq, rfl⟩ := List.mem_map.1 he
        constructor
        · obtain ⟨p, hp, hp1, hp2, hp3⟩ := hparent q hq
          intro e'
          have : p = ph := eq_of_fst_eq g.nodes hnd p ph hp hph1 (hp1.trans e')
          subst this
          rw [hp3] at hph2; exact Bool.noConfusion hph2
        · exact fun e' => hfresh q hq ph.1 (List.mem_map.2 ⟨ph, hph1, rfl⟩) e'.symm
      rw [hnone] at hn
      simp only [List.not_mem_nil, or_false] at hn
      obtain ⟨e, he, hcase⟩ := mem_nbrsOf _ _ _ hn
      have hxe : ((!(isH (g.attrs e.1)) && isH (g.attrs e.2.1)) || (!(isH (g.attrs e.2.1)) && isH (g.attrs e.1))) = false := by
        have := hxh
        simp only [hasXH, List.any_eq_false] at this
        have := this e he
        simpa using this
      have hph3 : isH (g.attrs ph.1) = true := by rw [attrs_eq_of_mem g hnd ph hph1]; simpa using hph2
      have hnG : n ∈ g.ids ∧ isH (g.attrs n) = true := by
        obtain ⟨h1, h2, _⟩ := hed e he
        rcases hcase with ⟨e1, e2⟩ | ⟨e1, e2⟩
        · rw [e1, e2] at hxe; rw [e2] at h2
          refine ⟨h2, ?_⟩
          rw [hph3] at hxe
          cases hv : isH (g.attrs n) <;> simp [hv] at hxe ⊢
        · rw [e1, e2] at hxe; rw [e2] at h1
          refine ⟨h1, ?_⟩
          rw [hph3] at hxe
          cases hv : isH (g.attrs n) <;> simp [hv] at hxe ⊢
      obtain ⟨pn, hpn, rfl⟩ := List.mem_map.1 hnG.1
      have h5 : (⟨g.nodes.map z ++ (planL g L (maxId g)).map freshNode,
          g.edges ++ (planL g L (maxId g)).map freshEdge⟩ : LGraph).attrs pn.1 = (z pn).2 := by
        have := attrs_of_mem (g.nodes.map z) ((planL g L (maxId g)).map freshNode)
          (g.edges ++ (planL g L (maxId g)).map freshEdge) hndz (z pn) (List.mem_map.2 ⟨pn, hpn, rfl⟩)
        rw [hz1] at this
        exact this
      rw [h5, hz2]
      have := hnG.2
      rw [attrs_eq_of_mem g hnd pn hpn] at this
      exact this
    rw [hall]; rfl
  -- split the fold
  unfold hToImplicit
  have hH : hNodes ⟨g.nodes.map z ++ (planL g L (maxId g)).map freshNode,
      g.edges ++ (planL g L (maxId g)).map freshEdge⟩ = hNodes g ++ (planL g L (maxId g)).map (·.1) := by
    simp only [hNodes]; exact hNodes_gen _ _ z hz1 hz2
  rw [hH, List.foldl_append, foldl_fix _ _ _ hkeep]
  -- fold the fresh hydrogens back
  have hcol := collapse (planL g L (maxId g)) (g.nodes.map z) g.edges
    (by rw [planL_fst]; exact List.nodup_range' 1 (by omega)) hndz
    (by
      intro q hq hmem
      rw [hNids] at hmem
      exact hfresh q hq q.1 hmem rfl)
    (by
      intro q hq e he
      obtain ⟨h1, h2, _⟩ := hed e he
      exact ⟨hfresh q hq _ h1, hfresh q hq _ h2⟩)
    (by
      intro q hq
      obtain ⟨p, hp, hp1, _, hp3⟩ := hparent q hq
      exact ⟨z p, List.mem_map.2 ⟨p, hp, rfl⟩, by rw [hz1]; exact hp1, by rw [hz2]; exact hp3⟩)
  rw [hcol, bumpAll_eq]
  have : (g.nodes.map z).map (fun p => (p.1, bumpN (((planL g L (maxId g)).map (·.2)).count p.1) p.2)) = g.nodes := by
    rw [List.map_map]
    conv => rhs; rw [← List.map_id g.nodes]
    apply List.map_congr_left
    intro p hp
    simp only [Function.comp, hz1, id]
    rw [count_planL_snd g L hLn p.1]
    show (p.1, bumpN (if p.1 ∈ L then cntOf g p.1 else 0) (if p.1 ∈ L then zeroH p else p).2) = p
    by_cases hpL : p.1 ∈ L
    · rw [if_pos hpL, if_pos hpL, cntOf, attrs_eq_of_mem g hnd p hp, bumpN_zeroH p (ht p hp)]
    · rw [if_neg hpL, if_neg hpL]; rfl
  rw [this]

/-- **`h_to_implicit(h_to_explicit(G, nodes))` restores `G`**, for every node list. -/
theorem hToExplicitG_restores' (g : LGraph) (hwf : g.WF) (ht : HTyped g) (hg : NoHeavyBoundH g)
    (hd : explicitDomain g = true) (ns : List Nat) : hToImplicit (hToExplicitG g ns false) = g := by
  rw [hToExplicitG_eq_form g hwf.1 ns]
  exact hToImplicit_form g hwf ht hg hd _ (expanded_inv g ns).1 (expanded_inv g ns).2

/-! ## `implicit_hydrogen(reindex=True)` -/

/-- `{old: new for new, old in enumerate(G.nodes(), 1)}`. -/
def reindexMap (h : LGraph) (n : Nat) : Nat := h.ids.idxOf n + 1

/-- `data["atom_map"] = node` on every node. -/
def setAtomMap (r : LGraph) : LGraph :=
  { r with nodes := r.nodes.map fun p => (p.1, Dict.set p.2 "atom_map" (.num (2 * (p.1 : Int)))) }

theorem implicitHydrogenReindex_eq (g : LGraph) (K : List Nat) :
    implicitHydrogenReindex g K =
      setAtomMap ((implicitHydrogen g K).relabel (reindexMap (implicitHydrogen g K))) := rfl

theorem reindexMap_injOn (h : LGraph) : Match.InjOnIds h (reindexMap h) := by
  intro a ha b _ e
  exact (List.idxOf_inj ha).1 (Nat.succ_injective e)

theorem map_idxOf_succ (l : List Nat) (hl : l.Nodup) : l.map (fun a => l.idxOf a + 1) = List.range' 1 l.length := by
  apply List.ext_getElem
  · simp
  · intro i h1 h2
    simp only [List.getElem_map, List.getElem_range']
    rw [hl.idxOf_getElem]; omega

theorem setAtomMap_ids (r : LGraph) : (setAtomMap r).ids = r.ids := by
  simp [setAtomMap, LGraph.ids, List.map_map, Function.comp_def]

/-- the new ids are `1..n`, in node order. -/
theorem implicitHydrogenReindex_ids (g : LGraph) (K : List Nat) (hn : (implicitHydrogen g K).ids.Nodup) :
    (implicitHydrogenReindex g K).ids = List.range' 1 (implicitHydrogen g K).nodes.length := by
  rw [implicitHydrogenReindex_eq, setAtomMap_ids, Match.relabel_ids]
  have := map_idxOf_succ _ hn
  simp only [LGraph.ids, List.length_map] at this ⊢
  exact this

theorem setAtomMap_attrs (r : LGraph) (v : Nat) (hv : v ∈ r.ids) :
    (setAtomMap r).attrs v = Dict.set (r.attrs v) "atom_map" (.num (2 * (v : Int))) := by
  rw [attrs_eq_attrsOf, attrs_eq_attrsOf]
  show attrsOf (r.nodes.map _) v = _
  rw [ImplH.attrsOf_map r.nodes (fun p => (p.1, Dict.set p.2 "atom_map" (.num (2 * (p.1 : Int))))) (fun _ => rfl) v,
    if_pos (show v ∈ List.map (fun x => x.1) r.nodes from hv)]

theorem all_congr_mem {α : Type} (l : List α) (f g : α → Bool) (h : ∀ x ∈ l, f x = g x) : l.all f = l.all g := by
  induction l with
  | nil => rfl
  | cons x xs ih =>
    rw [List.all_cons, List.all_cons, h x List.mem_cons_self, ih fun y hy => h y (List.mem_cons_of_mem _ hy)]

theorem nodeOk_set_atomMap (sel : Match.Sel) (hk : "atom_map" ∉ sel.nodeKeys) (a pa : Attrs) (x : Val) :
    Match.nodeOk sel (Dict.set a "atom_map" x) pa = Match.nodeOk sel a pa := by
  unfold Match.nodeOk Match.hcountOf
  rw [get_set_other a "atom_map" "hcount" x (by decide)]
  congr 1
  apply all_congr_mem
  intro k hkm
  have : k ≠ "atom_map" := fun e => hk (e ▸ hkm)
  rw [get_set_other a "atom_map" k x this]

/-- writing `atom_map` on the host does not disturb an isomorphism that does not compare it. -/
theorem isIso_setAtomMap (sel : Match.Sel) (hk : "atom_map" ∉ sel.nodeKeys) (R P : LGraph) (m : Match.Mapping)
    (hm : Match.IsIso sel R P m) : Match.IsIso sel (setAtomMap R) P m := by
  obtain ⟨⟨⟨hfst, hnd, hnode, hedge⟩, hind⟩, hlen⟩ := hm
  refine ⟨⟨⟨hfst, hnd, ?_, hedge⟩, hind⟩, ?_⟩
  · intro ph hph
    obtain ⟨h1, h2⟩ := hnode ph hph
    rw [setAtomMap_ids, setAtomMap_attrs R _ h1, nodeOk_set_atomMap sel hk]
    exact ⟨h1, h2⟩
  · simp only [setAtomMap, List.length_map]; exact hlen

theorem implicitH_wf (g : LGraph) (hwf : g.WF) (K : List Nat) : (implicitHydrogen g K).WF := by
  obtain ⟨hn, hed, hpar⟩ := hwf
  refine ⟨ImplH.implicitH_ids_nodup g hn K, ?_, ?_⟩
  · intro e he
    rw [ImplH.implicitH_edges g hn K] at he
    obtain ⟨he1, he2⟩ := List.mem_filter.1 he
    obtain ⟨a, b, c⟩ := hed e he1
    simp only [Bool.and_eq_true] at he2
    exact ⟨(ImplH.mem_implicitH_ids g hn K _).2 ⟨a, he2.1⟩, (ImplH.mem_implicitH_ids g hn K _).2 ⟨b, he2.2⟩, c⟩
  · rw [ImplH.implicitH_edges g hn K]
    exact hpar.sublist (List.Sublist.map _ List.filter_sublist)

/-- **`implicit_hydrogen(reindex=True)` is `implicit_hydrogen` up to the renumbering.** -/
theorem implicitHydrogenReindex_iso (g : LGraph) (K : List Nat) (hwf : g.WF) (sel : Match.Sel)
    (hk : "atom_map" ∉ sel.nodeKeys) :
    Match.IsIso sel (implicitHydrogenReindex g K) (implicitHydrogen g K)
      ((implicitHydrogen g K).ids.map fun v => (v, reindexMap (implicitHydrogen g K) v)) := by
  have hw := implicitH_wf g hwf K
  have h1 := Match.isIso_relabel_host sel _ _ hw _ (reindexMap (implicitHydrogen g K)) (reindexMap_injOn _)
    (Match.isIso_refl sel _ hw)
  rw [List.map_map] at h1
  rw [implicitHydrogenReindex_eq]
  exact isIso_setAtomMap sel hk _ _ _ h1

theorem totalH_relabel (h : LGraph) (f : Nat → Nat) : totalH (h.relabel f) = totalH h := by
  simp [totalH, LGraph.relabel, List.map_map, Function.comp_def]

theorem isH_set_atomMap (a : Attrs) (v : Val) : isH (Dict.set a "atom_map" v) = isH a := by
  simp [isH, get_set_other a "atom_map" "element" v (by decide)]

theorem hcnt_set_atomMap (a : Attrs) (v : Val) : hcnt (Dict.set a "atom_map" v) = hcnt a := by
  simp [hcnt, hraw, Dict.get?_set_other a "atom_map" v "hcount" (by decide)]

theorem totalH_setAtomMap (r : LGraph) : totalH (setAtomMap r) = totalH r := by
  simp [totalH, setAtomMap, List.map_map, Function.comp_def, isH_set_atomMap, hcnt_set_atomMap]

theorem totalH_implicitHydrogenReindex' (g : LGraph) (K : List Nat) :
    totalH (implicitHydrogenReindex g K) = totalH (implicitHydrogen g K) := by
  rw [implicitHydrogenReindex_eq, totalH_setAtomMap, totalH_relabel]

/-- every node of the result carries its own (new) id as `atom_map`. -/
theorem implicitHydrogenReindex_atomMap (g : LGraph) (K : List Nat) (p : Nat × Attrs)
    (hp : p ∈ (implicitHydrogenReindex g K).nodes) : atomMapOf p.2 = some p.1 := by
  rw [implicitHydrogenReindex_eq] at hp
  obtain ⟨q, _, rfl⟩ := List.mem_map.1 hp
  simp only [atomMapOf, Dict.get?_set_self]
  have h1 : (2 * (q.1 : Int)) % 2 = 0 := by omega
  have h2 : (2 * (q.1 : Int)) ≥ 0 := by omega
  have h3 : (2 * (q.1 : Int) / 2).toNat = q.1 := by omega
  simp [h1, h2]

/-! ## `MolToGraph.transform` with its flags -/

/-- (atom index, node id, atom) for every atom. -/
def keptBase (useIdx : Bool) (M : Mol) : List (Nat × Nat × Atom) :=
  M.atoms.zipIdx.map fun p => (p.2, atomId useIdx p.2 p.1, p.1)

theorem kept_false (useIdx : Bool) (M : Mol) : kept useIdx false M = keptBase useIdx M := by
  unfold kept keptBase
  rw [List.filter_eq_self]
  intro t _; simp

theorem kept_true (useIdx : Bool) (M : Mol) :
    kept useIdx true M = (keptBase useIdx M).filter fun t => !(t.2.2.atomMap == 0) := by
  unfold kept keptBase
  apply List.filter_congr
  intro t _; simp

theorem find_zipIdx (useIdx : Bool) (as : List Atom) : ∀ (k x : Nat), k ≤ x →
    ((as.zipIdx k).map fun p => (p.2, atomId useIdx p.2 p.1, p.1)).find? (fun t => t.1 == x) =
      (as[x - k]?).map fun a => (x, atomId useIdx x a, a) := by
  induction as with
  | nil => intro k x _; simp
  | cons a as ih =>
    intro k x hk
    rw [List.zipIdx_cons, List.map_cons, List.find?_cons]
    by_cases hx : k = x
    · subst hx; simp
    · have h1 : (k == x) = false := by simpa using hx
      simp only [h1]
      rw [ih (k + 1) x (by omega)]
      have : x - k = (x - (k + 1)) + 1 := by omega
      rw [this, List.getElem?_cons_succ]

theorem idOf_keptBase (useIdx : Bool) (M : Mol) (x : Nat) :
    idOf (keptBase useIdx M) x = (M.atoms[x]?).map (atomId useIdx x) := by
  unfold idOf keptBase
  rw [find_zipIdx useIdx M.atoms 0 x (Nat.zero_le _)]
  simp only [Nat.sub_zero, Option.map_map]
  cases M.atoms[x]? <;> rfl

theorem keptBase_idx (useIdx : Bool) (M : Mol) : (keptBase useIdx M).map (·.1) = List.range M.atoms.length := by
  unfold keptBase
  rw [List.map_map]
  have : ((fun t : Nat × Nat × Atom => t.1) ∘ fun p : Atom × Nat => (p.2, atomId useIdx p.2 p.1, p.1)) = Prod.snd := rfl
  rw [this, List.zipIdx_map_snd]
  simp [List.range_eq_range']

theorem atomNodes_eq_zipIdx (M : Mol) (as : List Atom) : ∀ i : Nat,
    atomNodes M as i = (as.zipIdx i).map fun p => (p.2 + 1, atomAttrs M p.2 p.1) := by
  induction as with
  | nil => intro i; rfl
  | cons a as ih => intro i; rw [List.zipIdx_cons, List.map_cons, atomNodes, ih]

theorem filterMap_eq_map_of {α β : Type} (l : List α) (F : α → Option β) (G : α → β) (h : ∀ x ∈ l, F x = some (G x)) :
    l.filterMap F = l.map G := by
  induction l with
  | nil => rfl
  | cons x xs ih =>
    rw [List.filterMap_cons, h x List.mem_cons_self, List.map_cons, ih fun y hy => h y (List.mem_cons_of_mem _ hy)]

/-- **Both flags off: the default `molToGraph`** (on a table whose bonds join existing atoms). -/
theorem molToGraphOpt_default' (M : Mol) (h : M.WF) : molToGraphOpt false false M = .ok (molToGraph M) := by
  have hid : ∀ (i : Nat) (a : Atom), atomId false i a = i + 1 := by intro i a; simp [atomId]
  have hnodes : (kept false false M).map (fun t => (t.2.1, atomAttrs M t.1 t.2.2)) = atomNodes M M.atoms 0 := by
    rw [kept_false, atomNodes_eq_zipIdx, keptBase, List.map_map]
    apply List.map_congr_left
    intro p _; simp only [Function.comp, hid]
  have hids : (kept false false M).map (·.2.1) = List.range' 1 M.atoms.length := by
    have := congrArg (List.map (·.1)) hnodes
    rw [atomNodes_ids, List.map_map] at this
    rw [← this]; rfl
  unfold molToGraphOpt
  simp only [Bool.false_and, Bool.false_eq_true, if_false]
  rw [hids]
  have hnd : (List.range' 1 M.atoms.length).Nodup := List.nodup_range' 1 (by omega)
  simp only [hnd, decide_true, Bool.not_true, Bool.false_eq_true, if_false]
  rw [hnodes]
  unfold molToGraph
  congr 2
  apply filterMap_eq_map_of
  intro b hb
  obtain ⟨ha, hb', _⟩ := h b hb
  rw [kept_false, idOf_keptBase, idOf_keptBase, List.getElem?_eq_getElem ha, List.getElem?_eq_getElem hb']
  simp only [Option.map_some, hid]

/-- lookup of a unique key in a filtered list. -/
theorem find?_filter_unique {T : Type} (ks : List T) (key : T → Nat) (q : T → Bool) (hn : (ks.map key).Nodup) (x : Nat) :
    (ks.filter q).find? (fun t => key t == x) = (ks.find? (fun t => key t == x)).filter q := by
  induction ks with
  | nil => rfl
  | cons t ks ih =>
    simp only [List.map_cons, List.nodup_cons] at hn
    by_cases hk : key t = x
    · have h1 : (t :: ks).find? (fun t => key t == x) = some t := by simp [hk]
      rw [h1]
      by_cases hq : q t = true
      · rw [List.filter_cons, if_pos hq, List.find?_cons]
        simp [hk, Option.filter, hq]
      · have hq' : q t = false := by simpa using hq
        simp only [List.filter_cons, hq', Bool.false_eq_true, if_false, Option.filter_some]
        rw [List.find?_eq_none]
        intro r hr
        have hr' := (List.mem_filter.1 hr).1
        have : key r ≠ x := fun e => hn.1 (hk ▸ e ▸ List.mem_map.2 ⟨r, hr', rfl⟩)
        simpa using this
    · have h0 : (key t == x) = false := by simpa using hk
      have h1 : (t :: ks).find? (fun t => key t == x) = ks.find? (fun t => key t == x) := by
        rw [List.find?_cons]; simp only [h0]
      rw [h1, ← ih hn.2]
      by_cases hq : q t = true
      · simp only [List.filter_cons, hq, if_true, List.find?_cons, h0]
      · rw [List.filter_cons, if_neg hq]

/-- the induced subgraph on the atoms that carry a non-zero `atom_map`. -/
def dropUnmapped (G : LGraph) : LGraph :=
  let N := G.nodes.filter fun p => decide (Dict.get? p.2 "atom_map" ≠ some (.num 0))
  { nodes := N
    edges := G.edges.filter fun e => decide (e.1 ∈ N.map (·.1)) && decide (e.2.1 ∈ N.map (·.1)) }

theorem atomAttrs_atomMap (M : Mol) (i : Nat) (a : Atom) :
    Dict.get? (atomAttrs M i a) "atom_map" = some (.num (2 * (a.atomMap : Int))) := by
  simp [atomAttrs, Dict.get?]

/-- **`drop_non_aam=True` gives the induced subgraph on the mapped atoms** of what
`use_index_as_atom_map=True` alone gives (whenever the latter has no id collision). -/
theorem molToGraphOpt_drop' (M : Mol) (G : LGraph) (h : molToGraphOpt true false M = .ok G) :
    molToGraphOpt true true M = .ok (dropUnmapped G) := by
  unfold molToGraphOpt at h
  simp only [Bool.false_and, Bool.false_eq_true, if_false] at h
  by_cases hnd : ((kept true false M).map (·.2.1)).Nodup
  · simp only [hnd, decide_true, Bool.not_true, Bool.false_eq_true, if_false, Except.ok.injEq] at h
    rw [kept_false] at h hnd
    generalize hks : keptBase true M = ks at h hnd
    obtain ⟨q, hqdef⟩ : ∃ q : Nat × Nat × Atom → Bool, q = fun t => !(t.2.2.atomMap == 0) := ⟨_, rfl⟩
    have hidx : (ks.map (·.1)).Nodup := by
      rw [← hks, keptBase_idx]; exact List.nodup_range
    have hnd' : ((ks.filter q).map (·.2.1)).Nodup := hnd.sublist (List.Sublist.map _ List.filter_sublist)
    unfold molToGraphOpt
    simp only [Bool.true_and, Bool.not_true, Bool.false_eq_true, if_false]
    rw [kept_true, hks, ← hqdef]
    simp only [hnd', decide_true, Bool.not_true, Bool.false_eq_true, if_false, Except.ok.injEq]
    subst h
    -- the nodes
    have hN : (ks.filter q).map (fun t => (t.2.1, atomAttrs M t.1 t.2.2)) =
        (ks.map fun t => (t.2.1, atomAttrs M t.1 t.2.2)).filter
          fun p => decide (Dict.get? p.2 "atom_map" ≠ some (.num 0)) := by
      rw [List.filter_map]
      congr 1
      apply List.filter_congr
      intro t _
      simp only [Function.comp, atomAttrs_atomMap, hqdef]
      by_cases h0 : t.2.2.atomMap = 0
      · simp [h0]
      · have : (2 * (t.2.2.atomMap : Int)) ≠ 0 := by omega
        simp [h0, this]
    have hNids : ((ks.filter q).map (fun t => (t.2.1, atomAttrs M t.1 t.2.2))).map (·.1) = (ks.filter q).map (·.2.1) := by
      rw [List.map_map]; rfl
    unfold dropUnmapped
    simp only
    rw [← hN, hNids]
    congr 1
    -- the edges
    rw [List.filter_filterMap]
    apply List.filterMap_congr
    intro b _
    have hfind : ∀ x, idOf (ks.filter q) x = ((ks.find? fun t => t.1 == x).filter q).map (·.2.1) := by
      intro x; unfold idOf; rw [find?_filter_unique ks (·.1) q hidx x]
    have hmem : ∀ x t, ks.find? (fun t => t.1 == x) = some t →
        (t.2.1 ∈ (ks.filter q).map (·.2.1) ↔ q t = true) := by
      intro x t ht
      have htm := List.mem_of_find?_eq_some ht
      constructor
      · intro hm
        obtain ⟨r, hr, hre⟩ := List.mem_map.1 hm
        obtain ⟨hr1, hr2⟩ := List.mem_filter.1 hr
        have : r = t := List.inj_on_of_nodup_map hnd hr1 htm hre
        rw [← this]; exact hr2
      · intro hq; exact List.mem_map.2 ⟨t, List.mem_filter.2 ⟨htm, hq⟩, rfl⟩
    rw [hfind, hfind]
    unfold idOf
    cases ha : ks.find? (fun t => t.1 == b.a) with
    | none => simp
    | some ta =>
      cases hb : ks.find? (fun t => t.1 == b.b) with
      | none => cases hqa : q ta <;> simp [Option.filter, hqa]
      | some tb =>
        have ma := hmem _ _ ha
        have mb := hmem _ _ hb
        cases hqa : q ta <;> cases hqb : q tb <;>
          (rw [hqa] at ma; rw [hqb] at mb; simp [Option.filter, hqa, hqb, ma, mb])
  · simp [hnd] at h

/-- `atom_map if atom_map != 0 else idx + 1`, as a renumbering of the default ids `idx + 1`. -/
def aamMap (M : Mol) (n : Nat) : Nat :=
  match M.atoms[n - 1]? with
  | some a => if a.atomMap ≠ 0 then a.atomMap else n
  | none => n

theorem atomId_true (i : Nat) (a : Atom) : atomId true i a = if a.atomMap ≠ 0 then a.atomMap else i + 1 := by
  simp [atomId]

/-- **`use_index_as_atom_map=True` renumbers the default graph** by `aamMap` (when no two atoms get
the same id). -/
theorem molToGraphOpt_useIdx' (M : Mol) (h : M.WF) (hnd : ((molToGraph M).ids.map (aamMap M)).Nodup) :
    molToGraphOpt true false M = .ok ((molToGraph M).relabel (aamMap M)) := by
  have hget : ∀ p ∈ M.atoms.zipIdx, M.atoms[p.2]? = some p.1 := by
    intro p hp
    obtain ⟨_, h2, h3⟩ := List.mem_zipIdx hp
    simp only [Nat.zero_add, Nat.sub_zero] at h2 h3
    rw [List.getElem?_eq_getElem h2, h3]
  have hmap : ∀ p ∈ M.atoms.zipIdx, aamMap M (p.2 + 1) = atomId true p.2 p.1 := by
    intro p hp
    simp only [aamMap, Nat.add_sub_cancel, hget p hp, atomId_true]
  have hnodes : (kept true false M).map (fun t => (t.2.1, atomAttrs M t.1 t.2.2)) =
      (atomNodes M M.atoms 0).map fun p => (aamMap M p.1, p.2) := by
    rw [kept_false, atomNodes_eq_zipIdx, keptBase, List.map_map, List.map_map]
    apply List.map_congr_left
    intro p hp; simp only [Function.comp, hmap p hp]
  have hids : (kept true false M).map (·.2.1) = (molToGraph M).ids.map (aamMap M) := by
    have := congrArg (List.map (·.1)) hnodes
    rw [List.map_map, List.map_map] at this
    simp only [LGraph.ids, molToGraph, List.map_map]
    exact this
  unfold molToGraphOpt
  simp only [Bool.false_and, Bool.false_eq_true, if_false]
  rw [hids]
  simp only [hnd, decide_true, Bool.not_true, Bool.false_eq_true, if_false]
  rw [hnodes]
  unfold molToGraph LGraph.relabel
  simp only [List.map_map]
  congr 2
  apply filterMap_eq_map_of
  intro b hb
  obtain ⟨ha, hb', _⟩ := h b hb
  rw [kept_false, idOf_keptBase, idOf_keptBase, List.getElem?_eq_getElem ha, List.getElem?_eq_getElem hb']
  simp only [Option.map_some, Function.comp, aamMap, Nat.add_sub_cancel, List.getElem?_eq_getElem ha,
    List.getElem?_eq_getElem hb', atomId_true]

/-- `drop_non_aam` without `use_index_as_atom_map` raises. -/
theorem molToGraphOpt_valueError (M : Mol) : molToGraphOpt false true M = .error .valueError := rfl

/-! ## The GML writer with `explicit_hydrogen=False` -/

theorem writeRuleX_false (reindex : Bool) (L R K : LGraph) : writeRuleX reindex false L R K = writeRule reindex L R K := rfl

theorem itsToGmlX_false' (core reindex : Bool) (I : LGraph) : itsToGmlX core reindex false I = itsToGml core reindex I := rfl

theorem smartToGmlX_false' (core reindex : Bool) (r p : LGraph) :
    smartToGmlX core reindex false r p = smartToGml core reindex r p := by
  cases core <;> rfl

section GmlX
open SynKit.Gml.Rd

/-! ## The GML writer with `explicit_hydrogen=True`, read back -/

/-! ### graph primitives -/

theorem touchNode_nodup (g : LGraph) (v : Nat) (h : g.ids.Nodup) : (touchNode g v).ids.Nodup := by
  unfold touchNode
  split
  · exact h
  · rename_i hv
    have hv' : v ∉ g.ids := (hasNode_false_iff g v).1 (by simpa using hv)
    simp only [LGraph.ids, List.map_append, List.map_cons, List.map_nil]
    rw [List.nodup_append]
    refine ⟨h, List.nodup_singleton _, ?_⟩
    intro a ha b hb
    rw [List.mem_singleton] at hb
    subst hb
    intro e; subst e; exact hv' ha

theorem addEdge_ids (g : LGraph) (u v : Nat) (a : Attrs) : (addEdge g u v a).ids = (touchNode (touchNode g u) v).ids := by
  unfold addEdge; simp only; split <;> rfl

theorem addEdge_nodup (g : LGraph) (u v : Nat) (a : Attrs) (h : g.ids.Nodup) : (addEdge g u v a).ids.Nodup := by
  rw [addEdge_ids]; exact touchNode_nodup _ _ (touchNode_nodup _ _ h)

theorem fold_edgeItems_nodup (es : List (Nat × Nat × Attrs)) : ∀ g : LGraph, g.ids.Nodup →
    ((es.map edgeItem).foldl parseItem g).ids.Nodup := by
  induction es with
  | nil => intro g h; exact h
  | cons e es ih =>
    intro g h
    simp only [List.map_cons, List.foldl_cons]
    exact ih _ (addEdge_nodup g _ _ _ h)

theorem hasEdge_addEdge_new (g : LGraph) (u v : Nat) (a : Attrs) (h : g.hasEdge u v = false) (x y : Nat) :
    (addEdge g u v a).hasEdge x y = (g.hasEdge x y || matchUV x y (u, v, a)) := by
  rw [hasEdge_eq_find, addEdge_edges_new g u v a h, List.find?_append, hasEdge_eq_find]
  cases g.edges.find? (matchUV x y) with
  | some e => simp
  | none => cases hm : matchUV x y (u, v, a) <;> simp [hm]

/-- the edge phase of `_synchronize_nodes_and_edges`. -/
def syncEdges (g : LGraph) (es : List (Nat × Nat × Attrs)) : LGraph :=
  es.foldl (fun s e => if s.hasEdge e.1 e.2.1 then s else addEdge s e.1 e.2.1 e.2.2) g

theorem syncSide_eq (sd ctx : LGraph) : syncSide sd ctx = syncEdges (addNodes sd ctx.nodes) ctx.edges := rfl

theorem matchUV_self_of_ukey_ne (e e' : Nat × Nat × Attrs) (h : ukey e ≠ ukey e') :
    matchUV e'.1 e'.2.1 e = false := by
  cases hm : matchUV e'.1 e'.2.1 e with
  | false => rfl
  | true => exact absurd ((matchUV_iff _ _ _).1 hm) h

theorem syncEdges_spec (es : List (Nat × Nat × Attrs)) : ∀ g : LGraph, (es.map ukey).Nodup →
    (∀ e ∈ es, e.1 ∈ g.ids ∧ e.2.1 ∈ g.ids) →
    (syncEdges g es).edges = g.edges ++ es.filter (fun e => !g.hasEdge e.1 e.2.1) ∧
    (∀ n, (syncEdges g es).attrs n = g.attrs n) ∧ (∀ n, n ∈ (syncEdges g es).ids ↔ n ∈ g.ids) := by
  induction es with
  | nil => intro g _ _; simp [syncEdges]
  | cons e es ih =>
    intro g hnd hends
    simp only [List.map_cons, List.nodup_cons] at hnd
    have hstep : syncEdges g (e :: es) =
        syncEdges (if g.hasEdge e.1 e.2.1 then g else addEdge g e.1 e.2.1 e.2.2) es := rfl
    rw [hstep]
    by_cases hh : g.hasEdge e.1 e.2.1 = true
    · rw [if_pos hh]
      obtain ⟨h1, h2, h3⟩ := ih g hnd.2 (fun x hx => hends x (List.mem_cons_of_mem _ hx))
      refine ⟨?_, h2, h3⟩
      rw [h1, List.filter_cons]; simp [hh]
    · have hh' : g.hasEdge e.1 e.2.1 = false := by simpa using hh
      rw [if_neg hh]
      have hids : ∀ n, n ∈ (addEdge g e.1 e.2.1 e.2.2).ids ↔ n ∈ g.ids := by
        intro n
        rw [mem_addEdge_ids]
        obtain ⟨a, b⟩ := hends e List.mem_cons_self
        constructor
        · rintro (rfl | rfl | h) <;> assumption
        · exact fun h => Or.inr (Or.inr h)
      obtain ⟨h1, h2, h3⟩ := ih (addEdge g e.1 e.2.1 e.2.2) hnd.2
        (fun x hx => ⟨(hids _).2 (hends x (List.mem_cons_of_mem _ hx)).1, (hids _).2 (hends x (List.mem_cons_of_mem _ hx)).2⟩)
      refine ⟨?_, ?_, ?_⟩
      · rw [h1, addEdge_edges_new g _ _ _ hh', List.filter_cons]
        simp only [hh', Bool.not_false, if_true, List.append_assoc, List.singleton_append]
        congr 2
        apply List.filter_congr
        intro x hx
        rw [hasEdge_addEdge_new g _ _ _ hh']
        have hne : ukey e ≠ ukey x := fun h => hnd.1 (h ▸ List.mem_map.2 ⟨x, hx, rfl⟩)
        have : matchUV x.1 x.2.1 (e.1, e.2.1, e.2.2) = false := matchUV_self_of_ukey_ne e x hne
        rw [this, Bool.or_false]
      · intro n; rw [h2, addEdge_attrs]
      · intro n; rw [h3, hids]

theorem hasEdge_congr_edges (g g' : LGraph) (h : g.edges = g'.edges) (u v : Nat) : g.hasEdge u v = g'.hasEdge u v := by
  simp [LGraph.hasEdge, LGraph.edge?, h]

theorem hasEdge_map_ends (E : List (Nat × Nat × Attrs)) (F : Nat × Nat × Attrs → Nat × Nat × Attrs)
    (hF : ∀ e, (F e).1 = e.1 ∧ (F e).2.1 = e.2.1) (N N' : List (Nat × Attrs)) (u v : Nat) :
    (⟨N, E.map F⟩ : LGraph).hasEdge u v = (⟨N', E⟩ : LGraph).hasEdge u v := by
  rw [hasEdge_eq_find, hasEdge_eq_find]
  show ((E.map F).find? (matchUV u v)).isSome = (E.find? (matchUV u v)).isSome
  rw [find_matchUV_map u v F hF]
  cases E.find? (matchUV u v) <;> rfl

theorem readSection_append (A B : List Item) : readSection (A ++ B) = B.foldl parseItem (readSection A) := by
  unfold readSection; rw [List.foldl_append]

/-- the context section without its edges, read. -/
def ctxNodes (K : LGraph) (ch : List Nat) : LGraph := ⟨(K.nodes.filter fun p => !ch.contains p.1).map rdNode, []⟩

theorem readSection_ctx (K : LGraph) (ch : List Nat) (hK : K.ids.Nodup) :
    readSection (ctxItems K ch) = ctxNodes K ch := by
  unfold ctxNodes
  have hndK := nodup_filter_ids K.nodes (fun n => !ch.contains n) hK
  unfold readSection ctxItems
  rw [fold_nodeItems, addNodes_fresh _ _ hndK (by intro p _; simp [LGraph.ids])]
  simp

theorem rdEdge_orderOne (u v : Nat) : rdEdge (u, v, orderOne) = (u, v, [("order", .num 2)]) := by
  have : labelOrder (orderLabel (edgeOrderVal orderOne)) = .num 2 := by decide
  simp only [rdEdge, this]

/-- one side of a rule written with `explicit_hydrogen=True` as `GMLToNX` rebuilds it: the side
section, synchronised with a context section that also lists edges `Ez` (all labelled `-`). -/
theorem readSideX_spec (S K : LGraph) (ch : List Nat) (Ez : List (Nat × Nat × Attrs))
    (hS : SideOk S) (hK : K.ids.Nodup) (hSK : ∀ n ∈ S.ids, n ∈ K.ids) (hch : ∀ n ∈ ch, n ∈ S.ids)
    (hEzK : ∀ e ∈ Ez, e.1 ∈ K.ids ∧ e.2.1 ∈ K.ids) (hEzN : (Ez.map ukey).Nodup)
    (hlab : ∀ e ∈ Ez, ctxEdgeItem e = edgeItem (e.1, e.2.1, orderOne)) :
    (∀ n, n ∈ (syncSide (readSection (sideItems S ch)) (readSection (ctxItems K ch ++ Ez.map ctxEdgeItem))).ids ↔ n ∈ K.ids) ∧
    (∀ n ∈ K.ids, (syncSide (readSection (sideItems S ch)) (readSection (ctxItems K ch ++ Ez.map ctxEdgeItem))).attrs n =
        nodeAttrsOf n (nodeLabel (if n ∈ ch then S.attrs n else K.attrs n))) ∧
    (syncSide (readSection (sideItems S ch)) (readSection (ctxItems K ch ++ Ez.map ctxEdgeItem))).edges =
        (S.edges.map fun e => (e.1, e.2.1, [("order", edgeOrderVal e.2.2)])) ++
        (Ez.filter fun e => !S.hasEdge e.1 e.2.1).map fun e => (e.1, e.2.1, [("order", .num 2)]) := by
  -- the edge phase of the side section
  obtain ⟨hE1, hE2, hE3⟩ := fold_edges S.edges {} hS.simple
  generalize hEdef : (S.edges.map edgeItem).foldl parseItem {} = E at hE1 hE2 hE3
  -- the node phase of the side section
  have hndS := nodup_filter_ids S.nodes (fun n => ch.contains n) hS.nodup
  obtain ⟨hs1, hs2, hs3, hs4⟩ := addNodes_spec _ E hndS
  have hsd : readSection (sideItems S ch) =
      addNodes E ((S.nodes.filter fun p => ch.contains p.1).map rdNode) := by
    unfold readSection sideItems
    rw [List.foldl_append, hEdef, fold_nodeItems]
  generalize hsddef : addNodes E ((S.nodes.filter fun p => ch.contains p.1).map rdNode) = sd at hs1 hs2 hs3 hs4 hsd
  have hattrE : ∀ n, E.attrs n = [] := fun n => by rw [hE2]; rfl
  have hmS : ∀ n, n ∈ ((S.nodes.filter fun p => ch.contains p.1).map rdNode).map (·.1) ↔
      n ∈ S.ids ∧ ch.contains n = true := fun n => mem_filter_ids S.nodes (fun n => ch.contains n) n
  have hmK : ∀ n, n ∈ ((K.nodes.filter fun p => !ch.contains p.1).map rdNode).map (·.1) ↔
      n ∈ K.ids ∧ (!ch.contains n) = true := fun n => mem_filter_ids K.nodes (fun n => !ch.contains n) n
  have hsdK : ∀ n, n ∉ ch → sd.attrs n = [] := by
    intro n hn
    rw [hs3 n, hattrE]
    rw [hmS]; simp [hn]
  have hsdS : ∀ n, n ∈ sd.ids → n ∈ S.ids := by
    intro n hn
    rw [hs2, hE3, hmS] at hn
    rcases hn with (h | ⟨e, he, h⟩) | h
    · simp [LGraph.ids] at h
    · rcases h with rfl | rfl
      · exact (hS.ends e he).1
      · exact (hS.ends e he).2
    · exact h.1
  have hsdch : ∀ n ∈ ch, n ∈ sd.ids ∧ sd.attrs n = nodeAttrsOf n (nodeLabel (S.attrs n)) := by
    intro n hn
    have hc' : ch.contains n = true := by simpa using hn
    obtain ⟨p, hp, rfl⟩ := List.mem_map.1 (hch n hn)
    have hmem : rdNode p ∈ (S.nodes.filter fun p => ch.contains p.1).map rdNode :=
      List.mem_map.2 ⟨p, List.mem_filter.2 ⟨hp, hc'⟩, rfl⟩
    refine ⟨(hs2 _).2 (Or.inr ((hmS _).2 ⟨List.mem_map.2 ⟨p, hp, rfl⟩, hc'⟩)), ?_⟩
    have h4 := hs4 _ hmem
    have hnil : E.attrs (rdNode p).1 = [] := hattrE _
    rw [hnil] at h4
    simp only [rdNode, set_nodeAttrsOf, ite_self] at h4
    rw [attrs_eq_of_mem S hS.nodup p hp]
    exact h4
  -- the context section
  have hndK : (ctxNodes K ch).ids.Nodup := nodup_filter_ids K.nodes (fun n => !ch.contains n) hK
  have hEz' : Ez.map ctxEdgeItem = (Ez.map fun e => ((e.1, e.2.1, orderOne) : Nat × Nat × Attrs)).map edgeItem := by
    rw [List.map_map]
    apply List.map_congr_left
    intro e he; exact hlab e he
  have hukey' : (Ez.map fun e => ((e.1, e.2.1, orderOne) : Nat × Nat × Attrs)).map ukey = Ez.map ukey := by
    rw [List.map_map]; rfl
  obtain ⟨hC1, hC2, hC3⟩ := fold_edges (Ez.map fun e => ((e.1, e.2.1, orderOne) : Nat × Nat × Attrs))
    (ctxNodes K ch) (by
      show ((([] : List (Nat × Nat × Attrs)) ++ _).map ukey).Nodup
      simp only [List.nil_append]; rw [hukey']; exact hEzN)
  have hCnd := fold_edgeItems_nodup (Ez.map fun e => ((e.1, e.2.1, orderOne) : Nat × Nat × Attrs))
    (ctxNodes K ch) hndK
  have hctx : readSection (ctxItems K ch ++ Ez.map ctxEdgeItem) =
      ((Ez.map fun e => ((e.1, e.2.1, orderOne) : Nat × Nat × Attrs)).map edgeItem).foldl parseItem
        (ctxNodes K ch) := by
    rw [readSection_append, readSection_ctx K ch hK, hEz']
  generalize hCdef : ((Ez.map fun e => ((e.1, e.2.1, orderOne) : Nat × Nat × Attrs)).map edgeItem).foldl parseItem
      (ctxNodes K ch) = C at hC1 hC2 hC3 hCnd hctx
  have hCedges : C.edges = Ez.map fun e => (e.1, e.2.1, [("order", Val.num 2)]) := by
    rw [hC1]
    show ([] : List (Nat × Nat × Attrs)) ++ _ = _
    rw [List.nil_append, List.map_map]
    apply List.map_congr_left
    intro e _; exact rdEdge_orderOne e.1 e.2.1
  have hCids : ∀ n, n ∈ C.ids → n ∈ K.ids := by
    intro n hn
    rw [hC3] at hn
    rcases hn with h | ⟨e, he, h⟩
    · exact ((hmK n).1 h).1
    · obtain ⟨e0, he0, rfl⟩ := List.mem_map.1 he
      rcases h with rfl | rfl
      · exact (hEzK e0 he0).1
      · exact (hEzK e0 he0).2
  have hC0attrs : ∀ n, C.attrs n = attrsL ((K.nodes.filter fun p => !ch.contains p.1).map rdNode) n := fun n => hC2 n
  -- synchronisation: nodes
  rw [hsd, hctx, syncSide_eq]
  obtain ⟨hg1, hg2, hg3, hg4⟩ := addNodes_spec C.nodes sd hCnd
  generalize hs1def : addNodes sd C.nodes = s1 at hg1 hg2 hg3 hg4
  -- synchronisation: edges
  have hCuk : (C.edges.map ukey).Nodup := by
    rw [hCedges, List.map_map]; exact hEzN
  obtain ⟨hr1, hr2, hr3⟩ := syncEdges_spec C.edges s1 hCuk (by
    intro e he
    rw [hCedges] at he
    obtain ⟨e0, he0, rfl⟩ := List.mem_map.1 he
    have h1 : e0.1 ∈ C.ids := (hC3 _).2 (Or.inr ⟨_, List.mem_map.2 ⟨e0, he0, rfl⟩, Or.inl rfl⟩)
    have h2 : e0.2.1 ∈ C.ids := (hC3 _).2 (Or.inr ⟨_, List.mem_map.2 ⟨e0, he0, rfl⟩, Or.inr rfl⟩)
    exact ⟨(hg2 _).2 (Or.inr h1), (hg2 _).2 (Or.inr h2)⟩)
  refine ⟨?_, ?_, ?_⟩
  · intro n
    rw [hr3, hg2]
    constructor
    · rintro (h | h)
      · exact hSK n (hsdS n h)
      · exact hCids n h
    · intro h
      by_cases hc : n ∈ ch
      · exact Or.inl (hsdch n hc).1
      · refine Or.inr ((hC3 n).2 (Or.inl ((hmK n).2 ⟨h, by simpa using hc⟩)))
  · intro n hn
    rw [hr2]
    by_cases hc : n ∈ ch
    · rw [if_pos hc]
      obtain ⟨hin, hat⟩ := hsdch n hc
      by_cases hnC : n ∈ C.ids
      · obtain ⟨p, hp, rfl⟩ := List.mem_map.1 hnC
        rw [hg4 p hp, if_pos ((hasNode_iff sd p.1).2 hin)]
        have hp2 : p.2 = [] := by
          rw [← attrs_eq_of_mem C hCnd p hp, hC0attrs]
          apply attrsL_not_mem
          rw [hmK]; simp [hc]
        rw [hp2]; exact hat
      · rw [hg3 n hnC]; exact hat
    · rw [if_neg hc]
      have hc' : (!ch.contains n) = true := by simpa using hc
      obtain ⟨q, hq, rfl⟩ := List.mem_map.1 hn
      have hqC0 : q.1 ∈ ((K.nodes.filter fun p => !ch.contains p.1).map rdNode).map (·.1) := (hmK _).2 ⟨hn, hc'⟩
      have hnC : q.1 ∈ C.ids := (hC3 _).2 (Or.inl hqC0)
      obtain ⟨p, hp, hpq⟩ := List.mem_map.1 hnC
      have hp2 : p.2 = nodeAttrsOf q.1 (nodeLabel q.2) := by
        rw [← attrs_eq_of_mem C hCnd p hp, hC0attrs, hpq]
        have hmem : rdNode q ∈ (K.nodes.filter fun p => !ch.contains p.1).map rdNode :=
          List.mem_map.2 ⟨q, List.mem_filter.2 ⟨hq, hc'⟩, rfl⟩
        have := attrs_eq_of_mem (ctxNodes K ch) hndK (rdNode q) hmem
        exact this
      have := hg4 p hp
      rw [hpq] at this
      rw [this, hsdK _ hc, hp2, set_nodeAttrsOf, ite_self, attrs_eq_of_mem K hK q hq]
  · rw [hr1, hg1, hs1, hE1, hCedges]
    simp only [List.nil_append]
    congr 1
    · apply List.map_congr_left
      intro e he
      obtain ⟨x, hx, hstd⟩ := hS.orders e he
      simp only [rdEdge, hx, orderLabel_roundtrip' x hstd]
    · rw [List.filter_map]
      congr 1
      apply List.filter_congr
      intro e _
      simp only [Function.comp]
      congr 1
      rw [hasEdge_congr_edges s1 sd hg1, hasEdge_congr_edges sd ⟨[], S.edges.map rdEdge⟩ (by rw [hs1, hE1]; rfl)]
      exact hasEdge_map_ends S.edges rdEdge (fun _ => ⟨rfl, rfl⟩) [] S.nodes e.1 e.2.1

/-! ### the written rule -/

/-- the hydrogens `h_to_explicit` adds to the context graph: (new id, atom it hangs on). -/
def addedH (I : LGraph) : List (Nat × Nat) := planL I (expanded I []) (maxId I)

/-- the two components of a (before, after) order pair are equal (anything else passes). -/
def sameOrders (a : Attrs) : Bool :=
  match Dict.get? a "order" with
  | some (.tup [.num x, .num y]) => x == y
  | _ => true

/-- `standard_order == 0` only on bonds whose order does not change (what `ITSGraph` establishes:
`standard_order = order[0] - order[1]`). -/
def StdConsistent (I : LGraph) : Prop := ∀ e ∈ I.edges, stdZero e.2.2 = true → sameOrders e.2.2 = true

instance (I : LGraph) : Decidable (StdConsistent I) := by unfold StdConsistent; infer_instance

theorem StdConsistent.eq {I : LGraph} (h : StdConsistent I) (e : Nat × Nat × Attrs) (he : e ∈ I.edges)
    (hz : stdZero e.2.2 = true) (x y : Int) (hxy : Dict.get? e.2.2 "order" = some (.tup [.num x, .num y])) : x = y := by
  have := h e he hz
  simpa [sameOrders, hxy] using this

theorem hToExplicitG_form_nil (I : LGraph) (hn : I.ids.Nodup) :
    hToExplicitG I [] false = ⟨I.nodes.map (fun p => if p.1 ∈ expanded I [] then expNode p else p) ++ (addedH I).map freshNode,
      I.edges ++ (addedH I).map freshEdge⟩ := hToExplicitG_eq_form I hn []

theorem itsToGmlX_full (I : LGraph) :
    itsToGmlX false false true I =
      { left := sideItems (side 0 I) (findChanged (side 0 I) (side 1 I)),
        context := ctxItems (hToExplicitG I [] false) (findChanged (side 0 I) (side 1 I)) ++
          ((hToExplicitG I [] false).edges.filter fun e => stdZero e.2.2).map ctxEdgeItem,
        right := sideItems (side 1 I) (findChanged (side 0 I) (side 1 I)) } := by
  simp [itsToGmlX, writeRuleX, decompose, relabel_id, ctxItemsX]

theorem itsToGmlX_core (I : LGraph) (ri x : Bool) : itsToGmlX true ri x I = itsToGmlX false ri x (getRc I) := rfl

theorem orderLabel_tup (xs : List Val) : orderLabel (.tup xs) = ['-'] := by simp [orderLabel]

theorem edgeItem_orderOne (u v : Nat) : edgeItem (u, v, orderOne) = .edge u v ['-'] := by
  have : orderLabel (edgeOrderVal orderOne) = ['-'] := by decide
  simp only [edgeItem, this]

theorem stdZero_orderOne : stdZero orderOne = true := by decide

theorem get?_expandAttrs_other (a : Attrs) (c : Int) (k : String) (h1 : k ≠ "hcount") (h2 : k ≠ "typesGH") :
    Dict.get? (expandAttrs a c) k = Dict.get? a k := by
  unfold expandAttrs
  simp only
  split
  · split
    · rw [Dict.get?_set_other _ _ _ _ h2, Dict.get?_set_other _ _ _ _ h1]
    · rw [Dict.get?_set_other _ _ _ _ h1]
  · rw [Dict.get?_set_other _ _ _ _ h1]

theorem elemOf_expandAttrs (a : Attrs) (c : Int) : elemOf (expandAttrs a c) = elemOf a := by
  unfold elemOf
  rw [get?_expandAttrs_other a c "element" (by decide) (by decide)]

theorem chargeOf_expandAttrs (a : Attrs) (c : Int) : chargeOf (expandAttrs a c) = chargeOf a := by
  unfold chargeOf
  rw [get?_expandAttrs_other a c "charge" (by decide) (by decide)]

theorem nodeLabel_expNode (p : Nat × Attrs) : nodeLabel (expNode p).2 = nodeLabel p.2 := by
  unfold expNode
  split
  · simp only [nodeLabel, elemOf_expandAttrs, chargeOf_expandAttrs]
  · rfl

theorem nodeRow_congr (g g' : LGraph) (n : Nat) (h1 : g.hasNode n = g'.hasNode n) (h2 : g.attrs n = g'.attrs n) :
    nodeRow g n = nodeRow g' n := by
  simp only [nodeRow, h1, h2]

theorem find_append_nomatch {α} (A B : List α) (p : α → Bool) (h : ∀ x ∈ B, p x = false) :
    (A ++ B).find? p = A.find? p := by
  rw [List.find?_append]
  have : B.find? p = none := by
    rw [List.find?_eq_none]; intro x hx; simp [h x hx]
  rw [this]; simp

/-! ### one side of the re-imported rule -/

/-- `_find_changed_nodes` of the two sides. -/
def chOf (I : LGraph) : List Nat := findChanged (side 0 I) (side 1 I)

/-- side `i` (0 = left, 1 = right) of the rule written with `explicit_hydrogen=True`, as `GMLToNX` rebuilds it. -/
def readX (I : LGraph) (i : Nat) : LGraph :=
  syncSide (readSection (sideItems (side i I) (chOf I))) (readSection (itsToGmlX false false true I).context)

theorem gmlToIts_itsToGmlX (I : LGraph) :
    gmlToIts (itsToGmlX false false true I) = construct (readX I 0) (readX I 1) := by
  unfold gmlToIts readLeft readRight readX chOf
  rw [itsToGmlX_full]

theorem mem_addedH_fst (I : LGraph) (n : Nat) :
    (∃ q ∈ addedH I, n = q.1) ↔ n ∈ List.range' (maxId I + 1) (totL I (expanded I [])) := by
  rw [← planL_fst I (expanded I []) (maxId I)]
  constructor
  · rintro ⟨q, hq, rfl⟩; exact List.mem_map.2 ⟨q, hq, rfl⟩
  · intro h; obtain ⟨q, hq, rfl⟩ := List.mem_map.1 h; exact ⟨q, hq, rfl⟩

theorem addedH_spec (I : LGraph) (q : Nat × Nat) (hq : q ∈ addedH I) :
    maxId I + 1 ≤ q.1 ∧ q.2 ∈ I.ids ∧ q.2 ≤ maxId I := by
  obtain ⟨h1, h2, _⟩ := mem_planL I _ _ q hq
  have := ((expanded_inv I []).2 q.2 h2).1
  exact ⟨h1, this, le_maxId I q.2 this⟩

theorem addedH_nodup (I : LGraph) : (addedH I).Nodup := by
  apply List.Nodup.of_map (·.1)
  unfold addedH
  rw [planL_fst]; exact List.nodup_range' 1 (by omega)

theorem readX_spec (I : LGraph) (hs : ItsShape I) (hc : StdConsistent I) (i : Nat) :
    (∀ n, n ∈ (readX I i).ids ↔ n ∈ I.ids ∨ ∃ q ∈ addedH I, n = q.1) ∧
    (∀ p ∈ I.nodes, (readX I i).attrs p.1 =
      nodeAttrsOf p.1 (nodeLabel (if p.1 ∈ chOf I then (side i I).attrs p.1 else p.2))) ∧
    (∀ q ∈ addedH I, (readX I i).attrs q.1 = nodeAttrsOf q.1 (nodeLabel hAttrs)) ∧
    (readX I i).edges = ((side i I).edges.map fun e => (e.1, e.2.1, [("order", edgeOrderVal e.2.2)])) ++
      (addedH I).map fun q => (q.2, q.1, [("order", .num 2)]) := by
  have hs' := hs
  obtain ⟨hwf, hns, hes⟩ := hs'
  have hSok := sideOk_side I hs i
  have hSids : (side i I).ids = I.ids := side_ids i I hns
  -- the explicit context graph
  have hK : hToExplicitG I [] false = form I (expanded I []) := hToExplicitG_eq_form I hwf.1 []
  have hKids : (form I (expanded I [])).ids = I.ids ++ List.range' (maxId I + 1) (totL I (expanded I [])) := form_ids I _
  have hmemK : ∀ n, n ∈ (form I (expanded I [])).ids ↔ n ∈ I.ids ∨ ∃ q ∈ addedH I, n = q.1 := by
    intro n; rw [hKids, List.mem_append, mem_addedH_fst]
  have hKnd : (form I (expanded I [])).ids.Nodup := by
    rw [hKids, List.nodup_append]
    refine ⟨hwf.1, List.nodup_range' 1 (by omega), ?_⟩
    intro a ha b hb e
    have := le_maxId I a ha
    have := (List.mem_range'_1.1 hb).1
    omega
  have hKedges : (form I (expanded I [])).edges = I.edges ++ (addedH I).map freshEdge := rfl
  have hEz : (form I (expanded I [])).edges.filter (fun e => stdZero e.2.2) =
      I.edges.filter (fun e => stdZero e.2.2) ++ (addedH I).map freshEdge := by
    rw [hKedges, List.filter_append]
    congr 1
    rw [List.filter_eq_self]
    intro e he
    obtain ⟨q, _, rfl⟩ := List.mem_map.1 he
    exact stdZero_orderOne
  -- no parallel bonds in the context graph
  have hukK : ((form I (expanded I [])).edges.map ukey).Nodup := by
    rw [hKedges, List.map_append, List.nodup_append]
    refine ⟨hwf.2.2, ?_, ?_⟩
    · rw [List.map_map]
      refine List.Nodup.map_on ?_ (addedH_nodup I)
      intro x hx y hy e
      obtain ⟨a1, _, a3⟩ := addedH_spec I x hx
      obtain ⟨b1, _, b3⟩ := addedH_spec I y hy
      simp only [Function.comp, ukey, freshEdge, Prod.mk.injEq] at e
      apply Prod.ext <;> omega
    · intro a ha b hb e
      obtain ⟨e0, he0, rfl⟩ := List.mem_map.1 ha
      obtain ⟨e1, he1, rfl⟩ := List.mem_map.1 hb
      obtain ⟨q, hq, rfl⟩ := List.mem_map.1 he1
      obtain ⟨b1, _, b3⟩ := addedH_spec I q hq
      have h1 := le_maxId I _ (hwf.2.1 e0 he0).1
      have h2 := le_maxId I _ (hwf.2.1 e0 he0).2.1
      simp only [ukey, freshEdge, Prod.mk.injEq] at e
      omega
  -- apply the reader lemma
  obtain ⟨r1, r2, r3⟩ := readSideX_spec (side i I) (form I (expanded I [])) (chOf I)
    ((form I (expanded I [])).edges.filter fun e => stdZero e.2.2) hSok hKnd
    (by intro n hn; rw [hSids] at hn; exact (hmemK n).2 (Or.inl hn))
    (by
      intro n hn
      have := mem_findChanged_left _ _ n hn
      rw [side_ids 0 I hns] at this
      rw [hSids]; exact this)
    (by
      intro e he
      have he' := (List.mem_filter.1 he).1
      rw [hKedges, List.mem_append] at he'
      rcases he' with he' | he'
      · exact ⟨(hmemK _).2 (Or.inl (hwf.2.1 e he').1), (hmemK _).2 (Or.inl (hwf.2.1 e he').2.1)⟩
      · obtain ⟨q, hq, rfl⟩ := List.mem_map.1 he'
        exact ⟨(hmemK _).2 (Or.inl (addedH_spec I q hq).2.1), (hmemK _).2 (Or.inr ⟨q, hq, rfl⟩)⟩)
    (hukK.sublist (List.Sublist.map _ List.filter_sublist))
    (by
      intro e he
      have he' := (List.mem_filter.1 he).1
      rw [hKedges, List.mem_append] at he'
      rw [edgeItem_orderOne]
      rcases he' with he' | he'
      · obtain ⟨x, y, hxy, _⟩ := edgeShape_unpack' e.2.2 (hes e he')
        simp only [ctxEdgeItem, Dict.getD, hxy, Option.getD_some, orderLabel_tup]
      · obtain ⟨q, _, rfl⟩ := List.mem_map.1 he'
        simp only [ctxEdgeItem, freshEdge]
        have : orderLabel (Dict.getD orderOne "order" (.tup [.num 2, .num 2])) = ['-'] := by decide
        rw [this])
  -- which context edges are new for this side
  have hnew : ((form I (expanded I [])).edges.filter fun e => stdZero e.2.2).filter
      (fun e => !(side i I).hasEdge e.1 e.2.1) = (addedH I).map freshEdge := by
    rw [hEz, List.filter_append]
    have h1 : (I.edges.filter fun e => stdZero e.2.2).filter (fun e => !(side i I).hasEdge e.1 e.2.1) = [] := by
      rw [List.filter_eq_nil_iff]
      intro e he
      obtain ⟨he1, he2⟩ := List.mem_filter.1 he
      obtain ⟨x, y, hxy, hx, hy, hnz⟩ := edgeShape_unpack' e.2.2 (hes e he1)
      have hxy' := hc.eq e he1 he2 x y hxy
      subst hxy'
      have hm : matchUV e.1 e.2.1 e = true := by simp [matchUV]
      obtain ⟨_, o2⟩ := side_edge? I hs i e.1 e.2.1 e he1 hm x x hxy hx hx
      have hpos : x > 0 := by
        simp only [stdOrder, Bool.or_eq_true, decide_eq_true_eq] at hx
        omega
      have : (if i = 0 then x else x) > 0 := by split <;> exact hpos
      simp only [this, decide_true] at o2
      simp only [LGraph.hasEdge, o2, Bool.not_true, Bool.false_eq_true, not_false_eq_true]
    have h2 : ((addedH I).map freshEdge).filter (fun e => !(side i I).hasEdge e.1 e.2.1) = (addedH I).map freshEdge := by
      rw [List.filter_eq_self]
      intro e he
      obtain ⟨q, hq, rfl⟩ := List.mem_map.1 he
      obtain ⟨b1, _, _⟩ := addedH_spec I q hq
      cases hh : (side i I).hasEdge (freshEdge q).1 (freshEdge q).2.1 with
      | false => rfl
      | true =>
        exfalso
        unfold LGraph.hasEdge at hh
        cases he? : (side i I).edge? (freshEdge q).1 (freshEdge q).2.1 with
        | none => rw [he?] at hh; cases hh
        | some a =>
          obtain ⟨e', he', hm, _⟩ := edge?_some_mem _ _ _ _ he?
          obtain ⟨c1, c2⟩ := hSok.ends e' he'
          rw [hSids] at c1 c2
          have := le_maxId I _ c1
          have := le_maxId I _ c2
          rcases matchUV_cases _ _ _ hm with ⟨_, m2⟩ | ⟨m1, _⟩
          · simp only [freshEdge] at m2; omega
          · simp only [freshEdge] at m1; omega
    rw [h1, h2, List.nil_append]
  have hctx : (itsToGmlX false false true I).context =
      ctxItems (form I (expanded I [])) (chOf I) ++
        ((form I (expanded I [])).edges.filter fun e => stdZero e.2.2).map ctxEdgeItem := by
    rw [itsToGmlX_full, hK]; rfl
  unfold readX
  rw [hctx]
  refine ⟨?_, ?_, ?_, ?_⟩
  · intro n; rw [r1 n, hmemK]
  · intro p hp
    have hpid : p.1 ∈ I.ids := List.mem_map.2 ⟨p, hp, rfl⟩
    rw [r2 p.1 ((hmemK _).2 (Or.inl hpid))]
    by_cases hch : p.1 ∈ chOf I
    · rw [if_pos hch, if_pos hch]
    · rw [if_neg hch, if_neg hch, form_attrs_old I hwf.1 _ p hp]
      split
      · rw [nodeLabel_expNode]
      · rfl
  · intro q hq
    obtain ⟨b1, _, _⟩ := addedH_spec I q hq
    have hnotI : q.1 ∉ I.ids := fun h => by have := le_maxId I _ h; omega
    have hnch : q.1 ∉ chOf I := by
      intro h
      have := mem_findChanged_left _ _ _ h
      rw [side_ids 0 I hns] at this
      exact hnotI this
    rw [r2 q.1 ((hmemK _).2 (Or.inr ⟨q, hq, rfl⟩)), if_neg hnch]
    congr 2
    -- the attribute dict of a new hydrogen in the closed form
    unfold LGraph.attrs
    cases hf : (form I (expanded I [])).nodes.find? (fun p => decide (p.1 = q.1)) with
    | none =>
      exfalso
      have := List.find?_eq_none.1 hf (freshNode q) (by
        simp only [form, List.mem_append]; exact Or.inr (List.mem_map.2 ⟨q, hq, rfl⟩))
      simp [freshNode] at this
    | some r =>
      have hr := List.mem_of_find?_eq_some hf
      have hr1 : r.1 = q.1 := by simpa using List.find?_some hf
      simp only [form, List.mem_append] at hr
      rcases hr with hr | hr
      · exfalso
        apply hnotI
        rw [← form_old_ids I (expanded I []), ← hr1]
        exact List.mem_map.2 ⟨r, hr, rfl⟩
      · obtain ⟨x, _, rfl⟩ := List.mem_map.1 hr
        rfl
  · rw [r3, hnew, List.map_map]
    rfl

/-! ### the re-imported rule -/

/-- side `i` of the rule written by the default writer, as `GMLToNX` rebuilds it. -/
def readD (I : LGraph) (i : Nat) : LGraph :=
  syncSide (readSection (sideItems (side i I) (chOf I))) (readSection (ctxItems I (chOf I)))

theorem gmlToIts_itsToGml (I : LGraph) :
    gmlToIts (itsToGml false false I) = construct (readD I 0) (readD I 1) := by
  unfold gmlToIts readLeft readRight readD chOf
  rw [itsToGml_full]

theorem readD_spec (I : LGraph) (hs : ItsShape I) (i : Nat) :
    (∀ n, n ∈ (readD I i).ids ↔ n ∈ I.ids) ∧
    (∀ p ∈ I.nodes, (readD I i).attrs p.1 =
      nodeAttrsOf p.1 (nodeLabel (if p.1 ∈ chOf I then (side i I).attrs p.1 else p.2))) ∧
    (readD I i).edges = (side i I).edges.map fun e => (e.1, e.2.1, [("order", edgeOrderVal e.2.2)]) := by
  obtain ⟨r1, r2, r3⟩ := readSide_spec (side i I) I (chOf I) (sideOk_side I hs i) hs.1.1
    (by intro n; rw [side_ids i I hs.2.1])
  refine ⟨r1, ?_, r3⟩
  intro p hp
  rw [show readD I i = syncSide (readSection (sideItems (side i I) (chOf I))) (readSection (ctxItems I (chOf I))) from rfl,
    r2 p.1 (List.mem_map.2 ⟨p, hp, rfl⟩), attrs_eq_of_mem I hs.1.1 p hp]

theorem edge?_append_nomatch (g g' : LGraph) (B : List (Nat × Nat × Attrs)) (hg : g.edges = g'.edges ++ B) (u v : Nat)
    (hB : ∀ e ∈ B, matchUV u v e = false) : g.edge? u v = g'.edge? u v := by
  rw [edge?_def, edge?_def, hg, find_append_nomatch _ _ _ hB]

theorem edge?_const_of (g : LGraph) (A B : List (Nat × Nat × Attrs)) (hg : g.edges = A ++ B) (u v : Nat)
    (hA : ∀ e ∈ A, matchUV u v e = false) (c : Attrs) (hB : ∀ e ∈ B, e.2.2 = c)
    (hex : ∃ e ∈ B, matchUV u v e = true) : g.edge? u v = some c := by
  rw [edge?_def, hg, List.find?_append]
  have hAn : A.find? (matchUV u v) = none := by
    rw [List.find?_eq_none]; intro x hx; simp [hA x hx]
  rw [hAn]
  cases hf : B.find? (matchUV u v) with
  | none =>
    obtain ⟨e, he, hm⟩ := hex
    have := List.find?_eq_none.1 hf e he
    rw [hm] at this; exact absurd rfl this
  | some e => simp [hB e (List.mem_of_find?_eq_some hf)]

theorem labView_hAttrs : labView hAttrs = [.str "H", .num 0] := by decide

theorem alpha_hAttrs : alpha (elemOf hAttrs) := by decide

/-- **The rule written with `explicit_hydrogen=True`, read back** (ids kept, full export): on the
atoms of `I` it is what the default export gives; everything else is a hydrogen hanging on one
atom of `I` by a (1, 1) bond. -/
theorem roundtripX (I : LGraph) (hs : ItsShape I) (hc : StdConsistent I) :
    (∀ n, n ∈ (gmlToIts (itsToGmlX false false true I)).ids ↔ n ∈ I.ids ∨ ∃ q ∈ addedH I, n = q.1) ∧
    (∀ n ∈ I.ids, nodeView (gmlToIts (itsToGmlX false false true I)) n = nodeView (gmlToIts (itsToGml false false I)) n) ∧
    (∀ u ∈ I.ids, ∀ v ∈ I.ids, edgeView (gmlToIts (itsToGmlX false false true I)) u v =
      edgeView (gmlToIts (itsToGml false false I)) u v) ∧
    (∀ q ∈ addedH I,
      nodeView (gmlToIts (itsToGmlX false false true I)) q.1 = .tup [.str "H", .num 0, .str "H", .num 0] ∧
      edgeView (gmlToIts (itsToGmlX false false true I)) q.2 q.1 = some (.tup [.num 2, .num 2]) ∧
      ∀ u, u ≠ q.2 → edgeView (gmlToIts (itsToGmlX false false true I)) u q.1 = none) := by
  obtain ⟨x1, x2, x3, x4⟩ := readX_spec I hs hc 0
  obtain ⟨y1, y2, y3, y4⟩ := readX_spec I hs hc 1
  obtain ⟨d1, d2, d3⟩ := readD_spec I hs 0
  obtain ⟨e1, e2, e3⟩ := readD_spec I hs 1
  rw [gmlToIts_itsToGmlX, gmlToIts_itsToGml]
  have hids : ∀ n, n ∈ (construct (readX I 0) (readX I 1)).ids ↔ n ∈ I.ids ∨ ∃ q ∈ addedH I, n = q.1 := by
    intro n; rw [mem_construct_ids, x1, y1, or_self]
  have hids0 : ∀ n, n ∈ (construct (readD I 0) (readD I 1)).ids ↔ n ∈ I.ids := by
    intro n; rw [mem_construct_ids, d1, e1, or_self]
  -- the new bonds never join two atoms of `I`
  have hBold : ∀ u ∈ I.ids, ∀ v ∈ I.ids, ∀ e ∈ (addedH I).map (fun q => ((q.2, q.1, [("order", Val.num 2)]) : Nat × Nat × Attrs)),
      matchUV u v e = false := by
    intro u hu v hv e he
    obtain ⟨q, hq, rfl⟩ := List.mem_map.1 he
    obtain ⟨b1, _, _⟩ := addedH_spec I q hq
    have := le_maxId I u hu
    have := le_maxId I v hv
    cases hm : matchUV u v (q.2, q.1, [("order", Val.num 2)]) with
    | false => rfl
    | true =>
      rcases matchUV_cases _ _ _ hm with ⟨_, m2⟩ | ⟨_, m2⟩ <;> simp only at m2 <;> omega
  refine ⟨hids, ?_, ?_, ?_⟩
  · intro n hn
    obtain ⟨p, hp, rfl⟩ := List.mem_map.1 hn
    rw [construct_nodeView _ _ _ ((hids _).2 (Or.inl hn)), construct_nodeView _ _ _ ((hids0 _).2 hn)]
    rw [nodeRow_congr (readX I 0) (readD I 0) p.1
        (by rw [(hasNode_iff _ _).2 ((x1 _).2 (Or.inl hn)), (hasNode_iff _ _).2 ((d1 _).2 hn)])
        (by rw [x2 p hp, d2 p hp]),
      nodeRow_congr (readX I 1) (readD I 1) p.1
        (by rw [(hasNode_iff _ _).2 ((y1 _).2 (Or.inl hn)), (hasNode_iff _ _).2 ((e1 _).2 hn)])
        (by rw [y2 p hp, e2 p hp])]
  · intro u hu v hv
    rw [construct_edgeView, construct_edgeView]
    have h0 := edge?_append_nomatch (readX I 0) (readD I 0) _ (by rw [x4, d3]) u v (hBold u hu v hv)
    have h1 := edge?_append_nomatch (readX I 1) (readD I 1) _ (by rw [y4, e3]) u v (hBold u hu v hv)
    have hh0 : (readX I 0).hasEdge u v = (readD I 0).hasEdge u v := by simp only [LGraph.hasEdge, h0]
    have hh1 : (readX I 1).hasEdge u v = (readD I 1).hasEdge u v := by simp only [LGraph.hasEdge, h1]
    have ho0 : orderIn (readX I 0) u v = orderIn (readD I 0) u v := by simp only [orderIn, h0]
    have ho1 : orderIn (readX I 1) u v = orderIn (readD I 1) u v := by simp only [orderIn, h1]
    rw [hh0, hh1, ho0, ho1]
  · intro q hq
    obtain ⟨b1, b2, b3⟩ := addedH_spec I q hq
    have hqJ : q.1 ∈ (construct (readX I 0) (readX I 1)).ids := (hids _).2 (Or.inr ⟨q, hq, rfl⟩)
    -- no bond of a side graph touches the new hydrogen
    have hAno : ∀ (i : Nat) (u : Nat), ∀ e ∈ (side i I).edges.map (fun e => ((e.1, e.2.1, [("order", edgeOrderVal e.2.2)]) : Nat × Nat × Attrs)),
        matchUV u q.1 e = false := by
      intro i u e he
      obtain ⟨e0, he0, rfl⟩ := List.mem_map.1 he
      obtain ⟨c1, c2⟩ := (sideOk_side I hs i).ends e0 he0
      rw [side_ids i I hs.2.1] at c1 c2
      have := le_maxId I _ c1
      have := le_maxId I _ c2
      cases hm : matchUV u q.1 (e0.1, e0.2.1, [("order", edgeOrderVal e0.2.2)]) with
      | false => rfl
      | true =>
        rcases matchUV_cases _ _ _ hm with ⟨_, m2⟩ | ⟨m1, _⟩ <;> simp only at * <;> omega
    have hBc : ∀ e ∈ (addedH I).map (fun q => ((q.2, q.1, [("order", Val.num 2)]) : Nat × Nat × Attrs)),
        e.2.2 = [("order", Val.num 2)] := by
      intro e he; obtain ⟨q', _, rfl⟩ := List.mem_map.1 he; rfl
    have hBex : ∃ e ∈ (addedH I).map (fun q => ((q.2, q.1, [("order", Val.num 2)]) : Nat × Nat × Attrs)),
        matchUV q.2 q.1 e = true := ⟨_, List.mem_map.2 ⟨q, hq, rfl⟩, by simp [matchUV]⟩
    have hBno : ∀ u, u ≠ q.2 → ∀ e ∈ (addedH I).map (fun q => ((q.2, q.1, [("order", Val.num 2)]) : Nat × Nat × Attrs)),
        matchUV u q.1 e = false := by
      intro u hu e he
      obtain ⟨q', hq', rfl⟩ := List.mem_map.1 he
      obtain ⟨c1, _, c3⟩ := addedH_spec I q' hq'
      cases hm : matchUV u q.1 (q'.2, q'.1, [("order", Val.num 2)]) with
      | false => rfl
      | true =>
        exfalso
        rcases matchUV_cases _ _ _ hm with ⟨m1, m2⟩ | ⟨m1, _⟩
        · simp only at m1 m2
          have : q' = q := inj_of_nodup_map (·.1) (addedH I) (by
            unfold addedH; rw [planL_fst]; exact List.nodup_range' 1 (by omega)) q' q hq' hq m2
          rw [this] at m1; exact hu m1.symm
        · simp only at m1; omega
    refine ⟨?_, ?_, ?_⟩
    · rw [construct_nodeView _ _ _ hqJ,
        nodeRow_view (readX I 0) q.1 hAttrs ((x1 _).2 (Or.inr ⟨q, hq, rfl⟩)) alpha_hAttrs (x3 q hq),
        nodeRow_view (readX I 1) q.1 hAttrs ((y1 _).2 (Or.inr ⟨q, hq, rfl⟩)) alpha_hAttrs (y3 q hq), labView_hAttrs]
      rfl
    · rw [construct_edgeView]
      have h0 := edge?_const_of (readX I 0) _ _ x4 q.2 q.1 (hAno 0 q.2) _ hBc hBex
      have h1 := edge?_const_of (readX I 1) _ _ y4 q.2 q.1 (hAno 1 q.2) _ hBc hBex
      simp only [LGraph.hasEdge, orderIn, h0, h1]
      rfl
    · intro u hu
      rw [construct_edgeView]
      have h0 : (readX I 0).edge? u q.1 = none := by
        apply edge?_none_of
        intro e he; rw [x4, List.mem_append] at he
        rcases he with he | he
        · exact hAno 0 u e he
        · exact hBno u hu e he
      have h1 : (readX I 1).edge? u q.1 = none := by
        apply edge?_none_of
        intro e he; rw [y4, List.mem_append] at he
        rcases he with he | he
        · exact hAno 1 u e he
        · exact hBno u hu e he
      simp only [LGraph.hasEdge, h0, h1]
      rfl

/-- as many new hydrogens hang on an atom as its `hcount` says. -/
theorem count_addedH (I : LGraph) (hn : I.ids.Nodup) (v : Nat) (hv : v ∈ I.ids) :
    ((addedH I).map (·.2)).count v = (hcnt (I.attrs v)).toNat := by
  unfold addedH
  rw [count_planL_snd I _ (expanded_inv I []).1 v, (expanded_all I hn).1]
  have hmem : v ∈ I.ids.filter (fun v => decide (hcnt (I.attrs v) > 0)) ↔ hcnt (I.attrs v) > 0 := by
    rw [List.mem_filter]; simp [hv]
  by_cases hc : hcnt (I.attrs v) > 0
  · rw [if_pos (hmem.2 hc)]; rfl
  · rw [if_neg (fun h => hc (hmem.1 h))]; omega

/-- `roundtripX` with the default round trip (`gml_roundtrip_full'`) plugged in. -/
theorem roundtripX_full (I : LGraph) (hs : ItsShape I) (hc : StdConsistent I) :
    (∀ n, n ∈ (gmlToIts (itsToGmlX false false true I)).ids ↔ n ∈ I.ids ∨ ∃ q ∈ addedH I, n = q.1) ∧
    (∀ n ∈ I.ids, nodeView (gmlToIts (itsToGmlX false false true I)) n = nodeView I n) ∧
    (∀ u ∈ I.ids, ∀ v ∈ I.ids, edgeView (gmlToIts (itsToGmlX false false true I)) u v = edgeView I u v) ∧
    (∀ q ∈ addedH I, q.1 ∉ I.ids ∧ q.2 ∈ I.ids ∧
      nodeView (gmlToIts (itsToGmlX false false true I)) q.1 = .tup [.str "H", .num 0, .str "H", .num 0] ∧
      edgeView (gmlToIts (itsToGmlX false false true I)) q.2 q.1 = some (.tup [.num 2, .num 2]) ∧
      ∀ u, u ≠ q.2 → edgeView (gmlToIts (itsToGmlX false false true I)) u q.1 = none) ∧
    (∀ v ∈ I.ids, ((addedH I).map (·.2)).count v = (hcnt (I.attrs v)).toNat) := by
  obtain ⟨a, b, c, d⟩ := roundtripX I hs hc
  obtain ⟨_, r2, r3⟩ := gml_roundtrip_full' I hs
  refine ⟨a, ?_, ?_, ?_, fun v hv => count_addedH I hs.1.1 v hv⟩
  · intro n hn; rw [b n hn, r2 n hn]
  · intro u hu v hv; rw [c u hu v hv, r3 u v]
  · intro q hq
    obtain ⟨b1, b2, _⟩ := addedH_spec I q hq
    exact ⟨fun h => by have := le_maxId I _ h; omega, b2, d q hq⟩

/-- the `left` and `right` sections do not depend on `explicit_hydrogen`. -/
theorem itsToGmlX_sides (core ri : Bool) (I : LGraph) :
    (itsToGmlX core ri true I).left = (itsToGml core ri I).left ∧
    (itsToGmlX core ri true I).right = (itsToGml core ri I).right := ⟨rfl, rfl⟩

end GmlX

end SynKit.ReprOpt

import SynKitModel.Reactor
import SynKitModel.ReactorInv
import SynKitModel.ReactorConcrete
import SynKitProofs.ReactorLemmas
import SynKitProofs.ReactorIso
import SynKitProofs.ReactorInvLemmas
import SynKitProofs.Match
/-!
# Linking the concrete glue model (C03) to the abstract reactor pipeline (C04, C05, C11)

Helper lemmas only; the property-level corollaries live in `Props/C04.lean`, `Props/C05.lean`,
`Props/C11.lean`.  The executable definitions the lemmas are about (`noMap`, `orient`, `itsSel`, `ItsEquiv`,
`render`, `concrete`) live in the model file `SynKitModel/ReactorConcrete.lean` (same namespace, same names),
so that the driver runs the very term the theorems speak about.

* §1 relabelling of matches (`get?`, `preimage`, `landsOn` under `relabelHost f ∘ relabelPat π`);
* §2 `glue_relabel`: the concrete `_glue_graph` model is equivariant under renumbering host and
  template — an *equality* of graphs, `glue (host.relabel f) (T.relabel π) (f ∘ m ∘ π⁻¹) =
  (glue host T m).relabel f`;
* §3 `noMap`: `its_decompose` and `_invert_template` write `atom_map = node id` into the graphs they
  build, so `left (T.relabel π)` and `(left T).relabel π` differ in that one attribute — which neither
  the sub-graph search (`monoSel`) nor the glue step reads.  `noMap` erases it; `left`, `invert`
  commute with relabelling up to `noMap`, and `allMonos`, `glue` do not see `noMap`;
* §4 orientation (`orient`), match lists and glue of the oriented template under relabelling;
* §5 `glue_wf`: the glued graph is well formed;
* §6 `itsSel`, `ItsEquiv` ("the same reaction": isomorphism of ITS graphs on label pairs and order
  pairs), `render`;
* §7 `glue_iso_of_labels`: the glued graph depends on the match only through the labels it induces;
* §8 `glue_aut_iso`: matches that differ by an automorphism of the rule glue to isomorphic ITS graphs;
* §9 well-formedness predicates are invariant under renumbering;
* §10 `concrete`: the modelled implicit path as an instance of `ReactorInv.Reactor`;
* §11 `PruningClauseModel`: the reactor clause of C11 for the model;
* §12 `OwnTemplate`, `RcComplete`, `glue_own_template_partial`: gluing a reaction's own template along
  the identity rebuilds the reaction (C04 step 3).
-/
namespace SynKit.ReactorLink
open SynKit SynKit.Match SynKit.Reactor SynKit.ReactorInv

/-! ## §1 matches under relabelling -/

theorem relabelBoth_eq (f π : Nat → Nat) (m : Mapping) :
    relabelHost f (relabelPat π m) = m.map fun x => (π x.1, f x.2) := by
  simp [relabelHost, relabelPat, List.map_map, Function.comp_def]

theorem get?_relabelBoth {f π : Nat → Nat} (hπ : Function.Injective π) (m : Mapping) (p : Nat) :
    (relabelHost f (relabelPat π m)).get? (π p) = (m.get? p).map f := by
  rw [relabelBoth_eq]
  unfold Mapping.get?
  rw [List.find?_map]
  have : ((fun x : Nat × Nat => decide (x.1 = π p)) ∘ fun x : Nat × Nat => (π x.1, f x.2)) =
      fun x => decide (x.1 = p) := by
    funext x; simp only [Function.comp]; exact decide_eq_decide.2 hπ.eq_iff
  rw [this]
  cases m.find? _ <;> rfl

theorem preimage_relabelBoth {f π : Nat → Nat} (hf : Function.Injective f) (m : Mapping) (h : Nat) :
    preimage (relabelHost f (relabelPat π m)) (f h) = (preimage m h).map π := by
  rw [relabelBoth_eq]
  unfold preimage
  rw [List.find?_map]
  have : ((fun x : Nat × Nat => decide (x.2 = f h)) ∘ fun x : Nat × Nat => (π x.1, f x.2)) =
      fun x => decide (x.2 = h) := by
    funext x; simp only [Function.comp]; exact decide_eq_decide.2 hf.eq_iff
  rw [this]
  cases m.find? _ <;> rfl

theorem landsOn_relabelBoth {f π : Nat → Nat} (hf : Function.Injective f) (hπ : Function.Injective π)
    (m : Mapping) (te : Nat × Nat × Attrs) (x y : Nat) :
    landsOn (relabelHost f (relabelPat π m)) (π te.1, π te.2.1, te.2.2) (f x) (f y) = landsOn m te x y := by
  unfold landsOn
  simp only [get?_relabelBoth hπ]
  cases m.get? te.1 <;> cases m.get? te.2.1 <;> simp [hf.eq_iff]

/-! ## §2 the glue step commutes with relabelling -/

theorem prepNode_snd (q q' : Nat) (a : Attrs) : (prepNode (q, a)).2 = (prepNode (q', a)).2 := rfl

theorem glueNode_relabel {f π : Nat → Nat} (hf : Function.Injective f) (hπ : Function.Injective π)
    (T : LGraph) (m : Mapping) (p : Nat × Attrs) :
    glueNode (T.relabel π) (relabelHost f (relabelPat π m)) (f p.1, p.2) =
      (f (glueNode T m p).1, (glueNode T m p).2) := by
  unfold glueNode
  simp only [preimage_relabelBoth hf]
  cases preimage m p.1 with
  | none => rfl
  | some q =>
    simp only [Option.map_some]
    rw [SynKit.ReactorInv.relabel_attrs hπ]
    rfl

theorem tplEdgeFor_relabel {f π : Nat → Nat} (hf : Function.Injective f) (hπ : Function.Injective π)
    (T : LGraph) (m : Mapping) (x y : Nat) :
    tplEdgeFor (T.relabel π) (relabelHost f (relabelPat π m)) (f x) (f y) =
      (tplEdgeFor T m x y).map fun te => (π te.1, π te.2.1, te.2.2) := by
  unfold tplEdgeFor LGraph.relabel
  simp only
  rw [List.find?_map]
  have : ((fun te => landsOn (relabelHost f (relabelPat π m)) te (f x) (f y)) ∘
      fun e : Nat × Nat × Attrs => (π e.1, π e.2.1, e.2.2)) = fun te => landsOn m te x y := by
    funext te; simp only [Function.comp]; exact landsOn_relabelBoth hf hπ m te x y
  rw [this]

theorem glueHostEdge_relabel {f π : Nat → Nat} (hf : Function.Injective f) (hπ : Function.Injective π)
    (T : LGraph) (m : Mapping) (e : Nat × Nat × Attrs) :
    glueHostEdge (T.relabel π) (relabelHost f (relabelPat π m)) (f e.1, f e.2.1, e.2.2) =
      (f (glueHostEdge T m e).1, f (glueHostEdge T m e).2.1, (glueHostEdge T m e).2.2) := by
  unfold glueHostEdge
  simp only [tplEdgeFor_relabel hf hπ]
  cases tplEdgeFor T m e.1 e.2.1 <;> rfl

theorem glueNewEdge_relabel {f π : Nat → Nat} (hf : Function.Injective f) (hπ : Function.Injective π)
    (host : LGraph) (m : Mapping) (te : Nat × Nat × Attrs) :
    glueNewEdge (host.relabel f) (relabelHost f (relabelPat π m)) (π te.1, π te.2.1, te.2.2) =
      (glueNewEdge host m te).map fun e => (f e.1, f e.2.1, e.2.2) := by
  unfold glueNewEdge
  simp only [get?_relabelBoth hπ]
  cases m.get? te.1 with
  | none => rfl
  | some hu =>
    cases m.get? te.2.1 with
    | none => rfl
    | some hv =>
      simp only [Option.map_some, SynKit.ReactorInv.relabel_hasEdge hf]
      cases host.hasEdge hu hv <;> rfl

/-- **The concrete glue step is equivariant** under renumbering the substrate (`f`) and the template
(`π`): gluing the renumbered match onto the renumbered substrate with the renumbered template gives
the renumbered ITS — node for node, bond for bond, attribute for attribute (no hypothesis on the
graphs or on the match beyond injectivity of the renumberings). -/
theorem glue_relabel {f π : Nat → Nat} (hf : Function.Injective f) (hπ : Function.Injective π)
    (host T : LGraph) (m : Mapping) :
    glue (host.relabel f) (T.relabel π) (relabelHost f (relabelPat π m)) = (glue host T m).relabel f := by
  unfold glue prepHost
  simp only [LGraph.relabel, List.map_map, List.map_append, List.filterMap_map, List.map_filterMap, LGraph.mk.injEq]
  refine ⟨?_, ?_⟩
  · apply List.map_congr_left
    intro p _
    simp only [Function.comp]
    exact glueNode_relabel hf hπ T m (prepNode p)
  congr 1
  · apply List.map_congr_left
    intro e _
    simp only [Function.comp]
    exact glueHostEdge_relabel hf hπ T m (prepEdge e)
  · apply List.filterMap_congr
    intro te _
    simp only [Function.comp]
    exact glueNewEdge_relabel hf hπ host m te

/-! ## §3 the `atom_map` attribute written by `its_decompose` / `_invert_template` -/

theorem noMap_relabel (G : LGraph) (π : Nat → Nat) : noMap (G.relabel π) = (noMap G).relabel π := by
  simp [noMap, LGraph.relabel, List.map_map, Function.comp_def]

theorem noMap_ids (G : LGraph) : (noMap G).ids = G.ids := by
  simp [noMap, LGraph.ids, List.map_map, Function.comp_def]

theorem noMap_attrs (G : LGraph) (v : Nat) : (noMap G).attrs v = Dict.erase (G.attrs v) "atom_map" := by
  unfold LGraph.attrs noMap
  simp only
  rw [SynKit.ReactorInv.find_map_id G.nodes (fun p => Dict.erase p.2 "atom_map") v]
  cases G.nodes.find? (fun p => decide (p.1 = v)) <;> rfl

theorem noMap_edge? (G : LGraph) (u v : Nat) : (noMap G).edge? u v = G.edge? u v := rfl

theorem get_erase_other (a : Attrs) (k x : String) (h : x ≠ k) : Attrs.get (Dict.erase a k) x = Attrs.get a x := by
  simp [Attrs.get, Dict.getD, Dict.get?_erase_other _ _ _ h]

theorem hasKey_erase_other (a : Attrs) (k x : String) (h : x ≠ k) : hasKey (Dict.erase a k) x = hasKey a x := by
  simp [hasKey, Dict.get?_erase_other _ _ _ h]

theorem pyGet_erase_other (a : Attrs) (k x : String) (d : Val) (h : x ≠ k) :
    pyGet (Dict.erase a k) x d = pyGet a x d := by
  simp [pyGet, Dict.getD, Dict.get?_erase_other _ _ _ h]

/-- `its_decompose` does not read `atom_map`. -/
theorem decompSide_noMap (s : Nat) (T : LGraph) : decompSide s (noMap T) = decompSide s T := by
  unfold decompSide noMap
  simp only [List.filterMap_map, LGraph.mk.injEq, and_true]
  apply List.filterMap_congr
  intro p _
  simp only [Function.comp, hasKey_erase_other _ _ _ (show "typesGH" ≠ "atom_map" by decide),
    get_erase_other _ _ _ (show "typesGH" ≠ "atom_map" by decide)]

theorem left_noMap (T : LGraph) : left (noMap T) = left T := decompSide_noMap 0 T

/-- `its_decompose` commutes with renumbering up to the `atom_map` it writes. -/
theorem noMap_decompSide_relabel (s : Nat) (T : LGraph) (π : Nat → Nat) :
    noMap (decompSide s (T.relabel π)) = (noMap (decompSide s T)).relabel π := by
  unfold decompSide noMap LGraph.relabel
  simp only [List.filterMap_map, List.map_filterMap, LGraph.mk.injEq]
  constructor
  · apply List.filterMap_congr
    intro p _
    simp only [Function.comp]
    split <;> simp [sideNode, Dict.erase]
  · apply List.filterMap_congr
    intro e _
    simp only [Function.comp]
    split <;> simp

theorem noMap_left_relabel (T : LGraph) (π : Nat → Nat) :
    noMap (left (T.relabel π)) = (noMap (left T)).relabel π := noMap_decompSide_relabel 0 T π

/-- `_invert_template` commutes with renumbering up to the `atom_map` it writes. -/
theorem noMap_invert_relabel (T : LGraph) (π : Nat → Nat) :
    noMap (invert (T.relabel π)) = (noMap (invert T)).relabel π := by
  unfold invert noMap LGraph.relabel
  simp only [List.filterMap_map, List.map_filterMap, LGraph.mk.injEq]
  constructor
  · apply List.filterMap_congr
    intro p _
    simp only [Function.comp]
    split <;> simp [Dict.erase]
  · apply List.filterMap_congr
    intro e _
    simp only [Function.comp]
    split
    · split <;> simp
    · simp

/-- The node closure does not read `atom_map` unless it is selected. -/
theorem nodeOk_erase (sel : Sel) (hk : "atom_map" ∉ sel.nodeKeys) (ha pa : Attrs) :
    nodeOk sel ha (Dict.erase pa "atom_map") = nodeOk sel ha pa := by
  unfold nodeOk
  have h1 : hcountOf (Dict.erase pa "atom_map") = hcountOf pa := by
    unfold hcountOf; rw [get_erase_other _ _ _ (by decide)]
  rw [h1]
  congr 1
  rw [Bool.eq_iff_iff, List.all_eq_true, List.all_eq_true]
  constructor
  · intro h k hk'
    have := h k hk'
    have hne : k ≠ "atom_map" := fun e => hk (e ▸ hk')
    rwa [get_erase_other _ _ _ hne] at this
  · intro h k hk'
    have hne : k ≠ "atom_map" := fun e => hk (e ▸ hk')
    rw [get_erase_other _ _ _ hne]
    exact h k hk'

theorem extendOk_noMap (sel : Sel) (hk : "atom_map" ∉ sel.nodeKeys) (ind : Bool) (H P : LGraph)
    (acc : Mapping) (p h : Nat) :
    extendOk sel ind H (noMap P) acc p h = extendOk sel ind H P acc p h := by
  unfold extendOk
  rw [noMap_attrs, nodeOk_erase sel hk]
  rfl

theorem extend_noMap (sel : Sel) (hk : "atom_map" ∉ sel.nodeKeys) (ind : Bool) (H P : LGraph)
    (ps : List Nat) (acc : Mapping) :
    extend sel ind H (noMap P) ps acc = extend sel ind H P ps acc := by
  induction ps generalizing acc with
  | nil => rfl
  | cons p ps ih =>
    simp only [extend]
    apply SynKit.ReactorInv.flatMap_congr'
    intro h _
    rw [extendOk_noMap sel hk, ih]

/-- The sub-graph search does not see `atom_map` unless it is selected. -/
theorem allMonos_noMap (sel : Sel) (hk : "atom_map" ∉ sel.nodeKeys) (H P : LGraph) :
    allMonos sel H (noMap P) = allMonos sel H P := by
  unfold allMonos
  rw [noMap_ids, extend_noMap sel hk]

/-- `_node_glue` as a function of what it reads of the template node. -/
def nodeGlueCore (h : Attrs) (ptg : Val) (hasHp : Bool) (hp : Val) : Attrs :=
  let hr := tupList (tupGet (h.get "typesGH") 0)
  let hpd := tupList (tupGet (h.get "typesGH") 1)
  let pr := tupGet ptg 0
  let pp := tupGet ptg 1
  let delta := numOf (tupGet pr 2) - numOf (tupGet pp 2)
  let hr2 := hr.getD 2 Val.none
  let newR := if tupGet pr 0 = .str "*" then [tupGet pr 0] ++ (hr.drop 1).take 1 ++ [hr2] ++ hr.drop 3
              else hr.take 2 ++ [hr2] ++ hr.drop 3
  let tail := [Val.num (numOf hr2 - delta), tupGet pp 3] ++ hpd.drop 4
  let newP := if tupGet pp 0 = .str "*" then [tupGet pp 0] ++ hpd.take 2 ++ tail else hpd.take 2 ++ tail
  let h1 : Attrs := Dict.set h "typesGH" (.tup [.tup newR, .tup newP])
  if hasHp then Dict.set h1 "h_pairs" hp else h1

theorem nodeGlue_eq_core (h p : Attrs) :
    nodeGlue h p = nodeGlueCore h (p.get "typesGH") (hasKey p "h_pairs") (p.get "h_pairs") := rfl

/-- `_node_glue` reads only `typesGH` and `h_pairs` of the template node. -/
theorem nodeGlue_congr (h p p' : Attrs) (h1 : Dict.get? p "typesGH" = Dict.get? p' "typesGH")
    (h2 : Dict.get? p "h_pairs" = Dict.get? p' "h_pairs") : nodeGlue h p = nodeGlue h p' := by
  rw [nodeGlue_eq_core, nodeGlue_eq_core]
  have e1 : Attrs.get p "typesGH" = Attrs.get p' "typesGH" := by simp only [Attrs.get, Dict.getD, h1]
  have e2 : Attrs.get p "h_pairs" = Attrs.get p' "h_pairs" := by simp only [Attrs.get, Dict.getD, h2]
  have e3 : hasKey p "h_pairs" = hasKey p' "h_pairs" := by simp only [hasKey, h2]
  rw [e1, e2, e3]

theorem defaultTg_erase (a : Attrs) : defaultTg (Dict.erase a "atom_map") = defaultTg a := by
  unfold defaultTg
  simp only [pyGet_erase_other _ _ _ _ (show "element" ≠ "atom_map" by decide),
    pyGet_erase_other _ _ _ _ (show "aromatic" ≠ "atom_map" by decide),
    pyGet_erase_other _ _ _ _ (show "hcount" ≠ "atom_map" by decide),
    pyGet_erase_other _ _ _ _ (show "charge" ≠ "atom_map" by decide),
    pyGet_erase_other _ _ _ _ (show "neighbors" ≠ "atom_map" by decide)]

theorem prepNode_erase_get? (q : Nat) (a : Attrs) (k : String) (hk : k ≠ "atom_map") :
    Dict.get? (prepNode (q, Dict.erase a "atom_map")).2 k = Dict.get? (prepNode (q, a)).2 k := by
  unfold prepNode setDefault
  simp only [hasKey_erase_other _ _ _ (show "typesGH" ≠ "atom_map" by decide), defaultTg_erase]
  split
  · exact Dict.get?_erase_other _ _ _ hk
  · by_cases hkt : k = "typesGH"
    · subst hkt; rw [Dict.get?_set_self, Dict.get?_set_self]
    · rw [Dict.get?_set_other _ _ _ _ hkt, Dict.get?_set_other _ _ _ _ hkt]
      exact Dict.get?_erase_other _ _ _ hk

theorem glueNode_noMap (T : LGraph) (m : Mapping) (p : Nat × Attrs) :
    glueNode (noMap T) m p = glueNode T m p := by
  unfold glueNode
  cases preimage m p.1 with
  | none => rfl
  | some q =>
    simp only
    rw [noMap_attrs]
    rw [nodeGlue_congr p.2 _ (prepNode (q, T.attrs q)).2
      (prepNode_erase_get? q _ _ (by decide)) (prepNode_erase_get? q _ _ (by decide))]

/-- The glue step does not read the template's `atom_map`. -/
theorem glue_noMap (host T : LGraph) (m : Mapping) : glue host (noMap T) m = glue host T m := by
  unfold glue
  simp only [LGraph.mk.injEq]
  constructor
  · apply List.map_congr_left
    intro p _
    exact glueNode_noMap T m p
  · rfl

/-! ## §4 orientation, and the concrete pipeline under relabelling -/

theorem noMap_orient_relabel (dir : Bool) (T : LGraph) (π : Nat → Nat) :
    noMap (orient dir (T.relabel π)) = (noMap (orient dir T)).relabel π := by
  cases dir
  · exact noMap_relabel T π
  · exact noMap_invert_relabel T π

/-- Pattern preparation (`its_decompose` of the oriented template, reactant side) commutes with
renumbering the template, up to `atom_map`. -/
theorem noMap_left_orient_relabel (dir : Bool) (T : LGraph) (π : Nat → Nat) :
    noMap (left (orient dir (T.relabel π))) = (noMap (left (orient dir T))).relabel π := by
  rw [← left_noMap (orient dir (T.relabel π)), noMap_orient_relabel, noMap_left_relabel, left_noMap]

/-- **Match lists of the concrete pipeline under relabelling** (exhaustive strategy): the matches
of the prepared pattern of the renumbered template into the renumbered substrate are the renumbered
matches, in the same order. -/
theorem allMonos_left_orient_relabel {f π : Nat → Nat} (hf : Function.Injective f) (hπ : Function.Injective π)
    (sel : Sel) (hk : "atom_map" ∉ sel.nodeKeys) (dir : Bool) (host T : LGraph) :
    allMonos sel (host.relabel f) (left (orient dir (T.relabel π))) =
      (allMonos sel host (left (orient dir T))).map fun m => relabelHost f (relabelPat π m) := by
  rw [← allMonos_noMap sel hk, noMap_left_orient_relabel, allMonos_relabel_host_list hf,
    allMonos_relabel_pattern_list hπ, allMonos_noMap sel hk, List.map_map]
  rfl

/-- The glue step with an oriented template under relabelling. -/
theorem glue_orient_relabel {f π : Nat → Nat} (hf : Function.Injective f) (hπ : Function.Injective π)
    (dir : Bool) (host T : LGraph) (m : Mapping) :
    glue (host.relabel f) (orient dir (T.relabel π)) (relabelHost f (relabelPat π m)) =
      (glue host (orient dir T) m).relabel f := by
  rw [← glue_noMap, noMap_orient_relabel, glue_relabel hf hπ, glue_noMap]

/-! ## §5 the glued graph is well formed -/

theorem glue_edges_mem (host T : LGraph) (m : Mapping) (e : Nat × Nat × Attrs) :
    e ∈ (glue host T m).edges ↔
      (∃ e0 ∈ host.edges, e = glueHostEdge T m (prepEdge e0)) ∨ (∃ te ∈ T.edges, glueNewEdge host m te = some e) := by
  unfold glue prepHost
  simp only [List.mem_append, List.mem_map, List.mem_filterMap]
  constructor
  · rintro (⟨e1, ⟨e0, he0, rfl⟩, rfl⟩ | ⟨te, hte, hsome⟩)
    · exact Or.inl ⟨e0, he0, rfl⟩
    · exact Or.inr ⟨te, hte, hsome⟩
  · rintro (⟨e0, he0, rfl⟩ | ⟨te, hte, hsome⟩)
    · exact Or.inl ⟨prepEdge e0, ⟨e0, he0, rfl⟩, rfl⟩
    · exact Or.inr ⟨te, hte, hsome⟩

/-- Gluing a well-formed template onto a well-formed substrate along an injective assignment into
the substrate's nodes gives a well-formed graph (same nodes; no loop; no parallel bond). -/
theorem glue_wf (host T : LGraph) (m : Mapping) (hH : host.WF) (hT : T.WF)
    (hinj : (m.map (·.2)).Nodup) (himg : ∀ x ∈ m, x.2 ∈ host.ids) : (glue host T m).WF := by
  have hends : ∀ e0, ((glueHostEdge T m (prepEdge e0)).1 = e0.1 ∧ (glueHostEdge T m (prepEdge e0)).2.1 = e0.2.1) :=
    fun e0 => glueHostEdge_ends T m (prepEdge e0)
  refine ⟨by rw [glue_ids]; exact hH.1, ?_, ?_⟩
  · intro e he
    rw [glue_ids]
    rcases (glue_edges_mem host T m e).1 he with ⟨e0, he0, rfl⟩ | ⟨te, hte, hsome⟩
    · rw [(hends e0).1, (hends e0).2]; exact hH.2.1 e0 he0
    · obtain ⟨g1, g2, _, _⟩ := glueNewEdge_some host m te e hsome
      refine ⟨himg _ (mget_mem m _ _ g1), himg _ (mget_mem m _ _ g2), ?_⟩
      intro hc
      rw [← hc] at g2
      exact (hT.2.1 te hte).2.2 (mget_inj m hinj _ _ _ g1 g2)
  · have hE : (glue host T m).edges =
        host.edges.map (fun e0 => glueHostEdge T m (prepEdge e0)) ++ T.edges.filterMap (glueNewEdge host m) := by
      unfold glue prepHost; simp only [List.map_map]; rfl
    rw [hE, List.map_append, List.nodup_append]
    refine ⟨?_, ?_, ?_⟩
    · rw [List.map_map]
      have : ((fun e : Nat × Nat × Attrs => (min e.1 e.2.1, max e.1 e.2.1)) ∘ fun e0 => glueHostEdge T m (prepEdge e0)) =
          fun e : Nat × Nat × Attrs => (min e.1 e.2.1, max e.1 e.2.1) := by
        funext e0; simp only [Function.comp, (hends e0).1, (hends e0).2]
      rw [this]; exact hH.2.2
    · rw [List.map_filterMap]
      have hTe : T.edges.Nodup := List.Nodup.of_map _ hT.2.2
      unfold List.Nodup at hTe ⊢
      refine List.Pairwise.filterMap _ ?_ (List.Pairwise.and_mem.1 hTe)
      rintro te te' ⟨hte, hte', hne⟩ b hb b' hb' hbb
      subst hbb
      obtain ⟨e, he, rfl⟩ := Option.map_eq_some_iff.1 hb
      obtain ⟨e', he', hee⟩ := Option.map_eq_some_iff.1 hb'
      obtain ⟨g1, g2, _, _⟩ := glueNewEdge_some host m te e he
      obtain ⟨g1', g2', _, _⟩ := glueNewEdge_some host m te' e' he'
      apply hne
      apply List.inj_on_of_nodup_map hT.2.2 hte hte'
      apply mm_eq
      rcases mm_inv hee with ⟨a1, a2⟩ | ⟨a1, a2⟩
      · rw [a1] at g1'; rw [a2] at g2'
        exact Or.inl ⟨mget_inj m hinj _ _ _ g1 g1', mget_inj m hinj _ _ _ g2 g2'⟩
      · rw [a1] at g1'; rw [a2] at g2'
        exact Or.inr ⟨mget_inj m hinj _ _ _ g1 g2', mget_inj m hinj _ _ _ g2 g1'⟩
    · intro a ha b hb hab
      subst hab
      obtain ⟨e1, he1, rfl⟩ := List.mem_map.1 ha
      obtain ⟨e0, he0, rfl⟩ := List.mem_map.1 he1
      obtain ⟨e, he, hee⟩ := List.mem_map.1 hb
      obtain ⟨te, hte, hsome⟩ := List.mem_filterMap.1 he
      obtain ⟨_, _, _, hno⟩ := glueNewEdge_some host m te e hsome
      rw [(hends e0).1, (hends e0).2] at hee
      have := hasEdge_of_mem host hH e0 he0 e.1 e.2.1 (by
        rcases mm_inv hee with ⟨a1, a2⟩ | ⟨a1, a2⟩
        · exact Or.inl ⟨a1.symm, a2.symm⟩
        · exact Or.inr ⟨a2.symm, a1.symm⟩)
      rw [this] at hno; cases hno

/-! ## §6 "the same reaction" on ITS graphs; rendering -/

theorem itsEquiv_equivalence : Equivalence ItsEquiv := by
  refine ⟨fun a => Or.inl rfl, ?_, ?_⟩
  · rintro a b (rfl | ⟨ha, hb, m, hm⟩)
    · exact Or.inl rfl
    · exact Or.inr ⟨hb, ha, _, isIso_symm itsSel a b m ha hb hm
        (fun x _ h => nodeOk_symm_of_noH itsSel rfl _ _ h)⟩
  · rintro a b c (rfl | ⟨ha, hb, m, hm⟩) (rfl | ⟨hb', hc, m', hm'⟩)
    · exact Or.inl rfl
    · exact Or.inr ⟨hb', hc, m', hm'⟩
    · exact Or.inr ⟨ha, hb, m, hm⟩
    · exact Or.inr ⟨ha, hc, _, isIso_trans itsSel a b c m m' hm hm'⟩

/-- A well-formed graph and its renumbering are the same reaction. -/
theorem itsEquiv_relabel (G : LGraph) (hG : G.WF) (f : Nat → Nat) (hf : Function.Injective f) :
    ItsEquiv (G.relabel f) G :=
  Or.inr ⟨relabel_WF G hG f hf, hG, _,
    isIso_relabel_host itsSel G G hG _ f (fun _ _ _ _ e => hf e) (isIso_refl itsSel G hG)⟩

theorem relabel_WF_iff (G : LGraph) (f : Nat → Nat) (hf : Function.Injective f) : (G.relabel f).WF ↔ G.WF := by
  refine ⟨?_, fun h => relabel_WF G h f hf⟩
  rintro ⟨h1, h2, h3⟩
  rw [SynKit.Match.relabel_ids] at h1 h2
  have hE : (G.relabel f).edges = G.edges.map fun e => (f e.1, f e.2.1, e.2.2) := rfl
  refine ⟨List.Nodup.of_map _ h1, ?_, ?_⟩
  · intro e he
    obtain ⟨a, b, c⟩ := h2 (f e.1, f e.2.1, e.2.2) (by rw [hE]; exact List.mem_map.2 ⟨e, he, rfl⟩)
    exact ⟨(List.mem_map_of_injective hf).1 a, (List.mem_map_of_injective hf).1 b, fun h => c (by show f e.1 = f e.2.1; rw [h])⟩
  · rw [hE, List.map_map] at h3
    refine List.Nodup.map_on ?_ (List.Nodup.of_map _ h3)
    intro x hx y hy e
    refine List.inj_on_of_nodup_map h3 hx hy ?_
    simp only [Function.comp]
    apply mm_eq
    rcases mm_inv e with ⟨a1, a2⟩ | ⟨a1, a2⟩
    · exact Or.inl ⟨by rw [a1], by rw [a2]⟩
    · exact Or.inr ⟨by rw [a1], by rw [a2]⟩

theorem render_relabel (G : LGraph) (f : Nat → Nat) (hf : Function.Injective f) :
    render (G.relabel f) = (render G).map (·.relabel f) := by
  unfold render
  by_cases h : G.WF
  · rw [if_pos h, if_pos ((relabel_WF_iff G f hf).2 h)]; rfl
  · rw [if_neg h, if_neg (fun h' => h ((relabel_WF_iff G f hf).1 h'))]; rfl

theorem mem_render {G r : LGraph} (h : r ∈ render G) : r = G ∧ G.WF := by
  unfold render at h
  split at h
  · rename_i hw; exact ⟨List.mem_singleton.1 h, hw⟩
  · cases h

/-! ## §7 the glued graph depends on the match only through the labels it induces -/

/-- What the glue lemmas need of an assignment: total on the template's nodes, injective, into the
substrate's nodes. -/
structure Assign (host T : LGraph) (m : Mapping) : Prop where
  dom : m.map (·.1) = T.ids
  inj : (m.map (·.2)).Nodup
  img : ∀ x ∈ m, x.2 ∈ host.ids

theorem assign_of_mono (host T : LGraph) (m : Mapping) (hT : WFTemplate T)
    (hm : IsMono monoSel host (left T) m) : Assign host T m :=
  ⟨by rw [← left_ids T hT]; exact hm.1, hm.2.1, fun x hx => (hm.2.2.1 x hx).1⟩

theorem nodeGlueCore_tg (h : Attrs) (t : Val) (b b' : Bool) (v v' : Val) :
    Attrs.get (nodeGlueCore h t b v) "typesGH" = Attrs.get (nodeGlueCore h t b' v') "typesGH" := by
  unfold nodeGlueCore
  simp only
  cases b <;> cases b' <;>
    simp [get_set_other _ _ _ _ (show "typesGH" ≠ "h_pairs" by decide), get_set_self]

/-- The label pair `_node_glue` writes depends on the template node through its label pair only. -/
theorem nodeGlue_tg_congr (h p p' : Attrs) (e : Attrs.get p "typesGH" = Attrs.get p' "typesGH") :
    Attrs.get (nodeGlue h p) "typesGH" = Attrs.get (nodeGlue h p') "typesGH" := by
  rw [nodeGlue_eq_core, nodeGlue_eq_core, e]
  exact nodeGlueCore_tg _ _ _ _ _ _

/-- Every template bond that lands on a substrate pair under `m` has a partner with the same order
pair landing on the same pair under `k`. -/
def OrderTransfer (T : LGraph) (m k : Mapping) : Prop :=
  ∀ te ∈ T.edges, ∀ x y, landsOn m te x y = true →
    ∃ te' ∈ T.edges, landsOn k te' x y = true ∧ Attrs.get te'.2.2 "order" = Attrs.get te.2.2 "order"

theorem mergeEdge_order_congr (a ta ta' : Attrs) (hk : (Dict.keys ta).Nodup) (hta : hasKey ta "order" = true)
    (hk' : (Dict.keys ta').Nodup) (hta' : hasKey ta' "order" = true)
    (e : Attrs.get ta "order" = Attrs.get ta' "order") :
    Attrs.get (mergeEdge a ta) "order" = Attrs.get (mergeEdge a ta') "order" := by
  rw [(mergeEdge_order a ta hk hta).1, (mergeEdge_order a ta' hk' hta').1]
  unfold ordAt
  rw [e]

theorem tplEdgeFor_some {T : LGraph} {m : Mapping} {x y : Nat} {te : Nat × Nat × Attrs}
    (h : tplEdgeFor T m x y = some te) : te ∈ T.edges ∧ landsOn m te x y = true := by
  unfold tplEdgeFor at h
  exact ⟨List.mem_of_find?_eq_some h, by simpa using List.find?_some h⟩

theorem tplEdgeFor_none {T : LGraph} {m : Mapping} {x y : Nat}
    (h : tplEdgeFor T m x y = none) : ∀ te ∈ T.edges, landsOn m te x y = false := by
  unfold tplEdgeFor at h
  intro te hte
  have := List.find?_eq_none.1 h te hte
  simpa using this

theorem glue_edge_transfer (host T : LGraph) (m k : Mapping) (hH : host.WF) (hT : WFTemplate T)
    (Ak : Assign host T k)
    (hmk : OrderTransfer T m k) (hkm : OrderTransfer T k m) :
    ∀ e ∈ (glue host T m).edges, ∃ ea, (glue host T k).edge? e.1 e.2.1 = some ea ∧
      Attrs.get ea "order" = Attrs.get e.2.2 "order" := by
  have hWk : (glue host T k).WF := glue_wf host T k hH hT.1 Ak.inj Ak.img
  intro e he
  rcases (glue_edges_mem host T m e).1 he with ⟨e0, he0, rfl⟩ | ⟨te, hte, hsome⟩
  · have he' : glueHostEdge T k (prepEdge e0) ∈ (glue host T k).edges :=
      (glue_edges_mem host T k _).2 (Or.inl ⟨e0, he0, rfl⟩)
    have hek := glueHostEdge_ends T k (prepEdge e0)
    have hem := glueHostEdge_ends T m (prepEdge e0)
    refine ⟨(glueHostEdge T k (prepEdge e0)).2.2, ?_, ?_⟩
    · rw [hem.1, hem.2]
      exact Reactor.edge?_of_mem _ hWk _ he' _ _ (Or.inl ⟨hek.1, hek.2⟩)
    · rcases glueHostEdge_cases T m (prepEdge e0) with ⟨hnone, heq⟩ | ⟨te, hs, heq⟩
      · rcases glueHostEdge_cases T k (prepEdge e0) with ⟨_, heq'⟩ | ⟨te', hs', _⟩
        · rw [heq, heq']
        · exfalso
          obtain ⟨hte', hl'⟩ := tplEdgeFor_some hs'
          obtain ⟨te'', hte'', hl'', _⟩ := hkm te' hte' _ _ hl'
          rw [tplEdgeFor_none hnone te'' hte''] at hl''
          cases hl''
      · obtain ⟨hte, hl⟩ := tplEdgeFor_some hs
        obtain ⟨te', hte', hl', hord⟩ := hmk te hte _ _ hl
        rcases glueHostEdge_cases T k (prepEdge e0) with ⟨hnone', _⟩ | ⟨te'', hs'', heq''⟩
        · rw [tplEdgeFor_none hnone' te' hte'] at hl'
          cases hl'
        · obtain ⟨hte'', hl''⟩ := tplEdgeFor_some hs''
          have := tpl_edge_unique T hT.1 k Ak.inj te'' te' hte'' hte' _ _ hl'' hl'
          subst this
          rw [heq, heq'']
          have h1 := hT.2.2 te hte
          have h2 := hT.2.2 te'' hte'
          exact mergeEdge_order_congr _ _ _ h2.1 h2.2.1 h1.1 h1.2.1 hord
  · obtain ⟨g1, g2, g3, hno⟩ := glueNewEdge_some host m te e hsome
    have hl : landsOn m te e.1 e.2.1 = true := (landsOn_iff _ _ _ _).2 ⟨_, _, g1, g2, Or.inl ⟨rfl, rfl⟩⟩
    obtain ⟨te', hte', hl', hord⟩ := hmk te hte _ _ hl
    obtain ⟨hu, hv, k1, k2, hc⟩ := (landsOn_iff _ _ _ _).1 hl'
    have hno' : host.hasEdge hu hv = false := by
      rcases hc with ⟨rfl, rfl⟩ | ⟨rfl, rfl⟩
      · exact hno
      · rw [hasEdge_comm]; exact hno
    have he' : (hu, hv, te'.2.2) ∈ (glue host T k).edges :=
      (glue_edges_mem host T k _).2 (Or.inr ⟨te', hte', by simp [glueNewEdge, k1, k2, hno']⟩)
    refine ⟨te'.2.2, Reactor.edge?_of_mem _ hWk _ he' _ _ hc, ?_⟩
    rw [g3]; exact hord

theorem prepNode_of_hasKey (q : Nat) (a : Attrs) (h : hasKey a "typesGH" = true) : (prepNode (q, a)).2 = a := by
  simp [prepNode, setDefault, h]

theorem mem_snd_of_mem {m : Mapping} {p h : Nat} (hm : (p, h) ∈ m) : h ∈ m.map (·.2) :=
  List.mem_map.2 ⟨(p, h), hm, rfl⟩

/-- Two assignments with the same image whose pre-images carry the same label pair and whose landing
template bonds carry the same order pair glue to isomorphic ITS graphs (the isomorphism is the
identity on the substrate's atoms). -/
theorem glue_iso_of_labels (host T : LGraph) (m k : Mapping) (hH : WFHost host) (hT : WFTemplate T)
    (Am : Assign host T m) (Ak : Assign host T k)
    (hnode : ∀ p h, (p, h) ∈ k → ∃ q, (q, h) ∈ m ∧
      Attrs.get (T.attrs q) "typesGH" = Attrs.get (T.attrs p) "typesGH")
    (hmk : OrderTransfer T m k) (hkm : OrderTransfer T k m) :
    IsIso itsSel (glue host T k) (glue host T m) (host.ids.map fun v => (v, v)) := by
  have hWk : (glue host T k).WF := glue_wf host T k hH.1 hT.1 Ak.inj Ak.img
  have hWm : (glue host T m).WF := glue_wf host T m hH.1 hT.1 Am.inj Am.img
  -- the two assignments have the same image
  have himg : ∀ v, v ∈ m.map (·.2) → v ∈ k.map (·.2) := by
    have hsub : k.map (·.2) ⊆ m.map (·.2) := by
      intro v hv
      obtain ⟨x, hx, rfl⟩ := List.mem_map.1 hv
      obtain ⟨q, hq, _⟩ := hnode x.1 x.2 hx
      exact mem_snd_of_mem hq
    have hsp := List.subperm_of_subset Ak.inj hsub
    have hl : (m.map (·.2)).length ≤ (k.map (·.2)).length := by
      have h1 : (m.map (·.1)).length = (k.map (·.1)).length := by rw [Am.dom, Ak.dom]
      simp only [List.length_map] at h1 ⊢
      omega
    intro v hv
    exact (hsp.perm_of_length_le hl).mem_iff.2 hv
  have htpl : ∀ p h, (p, h) ∈ k → hasKey (T.attrs p) "typesGH" = true := by
    intro p h hp
    have hpT : p ∈ T.ids := by rw [← Ak.dom]; exact List.mem_map.2 ⟨(p, h), hp, rfl⟩
    exact (hT.2.1 (p, T.attrs p) (attrs_mem T p hpT)).1
  have htplm : ∀ p h, (p, h) ∈ m → hasKey (T.attrs p) "typesGH" = true := by
    intro p h hp
    have hpT : p ∈ T.ids := by rw [← Am.dom]; exact List.mem_map.2 ⟨(p, h), hp, rfl⟩
    exact (hT.2.1 (p, T.attrs p) (attrs_mem T p hpT)).1
  -- labels agree atom by atom
  have hlab : ∀ v ∈ host.ids, Attrs.get ((glue host T k).attrs v) "typesGH" =
      Attrs.get ((glue host T m).attrs v) "typesGH" := by
    intro v hv
    rw [glue_attrs host T k v hv, glue_attrs host T m v hv]
    unfold glueNode
    have e0 : (prepNode (v, host.attrs v)).1 = v := rfl
    rw [e0]
    cases hpk : preimage k v with
    | some p =>
      have hpv := preimage_mem k v p hpk
      obtain ⟨q, hq, htg⟩ := hnode p v hpv
      rw [preimage_of_mem m Am.inj q v hq]
      simp only
      apply nodeGlue_tg_congr
      rw [prepNode_of_hasKey _ _ (htpl p v hpv), prepNode_of_hasKey _ _ (htplm q v hq), htg]
    | none =>
      have hnot : v ∉ m.map (·.2) := by
        intro hv'
        obtain ⟨x, hx, hxe⟩ := List.mem_map.1 (himg v hv')
        have := preimage_of_mem k Ak.inj x.1 v (by rw [← hxe]; exact hx)
        rw [hpk] at this; cases this
      rw [preimage_none_of_not_mem m v hnot]
  have hidget : ∀ v ∈ host.ids, Mapping.get? (host.ids.map fun v => (v, v)) v = some v :=
    fun v hv => SynKit.ReactorInv.idMap_get? host.ids v hv
  have hidval : ∀ p hp, Mapping.get? (host.ids.map fun v => (v, v)) p = some hp → hp = p := by
    intro p hp h
    exact (mget_map_some host.ids (fun v => v) p hp h).2
  have hEm := glue_edge_transfer host T m k hH.1 hT Ak hmk hkm
  have hEk := glue_edge_transfer host T k m hH.1 hT Am hkm hmk
  refine ⟨⟨⟨?_, ?_, ?_, ?_⟩, ?_⟩, ?_⟩
  · rw [List.map_map, glue_ids]; exact List.map_id' _
  · rw [List.map_map]
    have : ((fun x : Nat × Nat => x.2) ∘ fun v : Nat => (v, v)) = id := rfl
    rw [this, List.map_id]; exact hH.1.1
  · intro ph hph
    obtain ⟨v, hv, rfl⟩ := List.mem_map.1 hph
    refine ⟨by rw [glue_ids]; exact hv, ?_⟩
    simp [nodeOk, itsSel, hlab v hv]
  · intro e he
    obtain ⟨ea, h1, h2⟩ := hEm e he
    have hends := hWm.2.1 e he
    rw [glue_ids] at hends
    exact ⟨e.1, e.2.1, ea, hidget _ hends.1, hidget _ hends.2.1, h1, by simp [edgeOk, itsSel, h2]⟩
  · intro p q hp hq g1 g2 hne
    have e1 := hidval p hp g1
    have e2 := hidval q hq g2
    subst e1; subst e2
    cases hh : (glue host T k).hasEdge hp hq with
    | false => rfl
    | true =>
      exfalso
      unfold LGraph.hasEdge at hh
      obtain ⟨a, ha⟩ := Option.isSome_iff_exists.1 hh
      obtain ⟨e, he, _, hend⟩ := Reactor.edge?_some_mem _ hp hq a ha
      obtain ⟨ea, h1, _⟩ := hEk e he
      have : (glue host T m).hasEdge hp hq = true := by
        unfold LGraph.hasEdge
        rcases hend with ⟨a1, a2⟩ | ⟨a1, a2⟩
        · rw [← a1, ← a2, h1]; rfl
        · rw [SynKit.Match.edge?_comm, ← a1, ← a2, h1]; rfl
      rw [this] at hne; cases hne
  · have h1 : (glue host T k).nodes.length = (glue host T k).ids.length := by simp [LGraph.ids]
    have h2 : (glue host T m).nodes.length = (glue host T m).ids.length := by simp [LGraph.ids]
    rw [h1, h2, glue_ids, glue_ids]

/-! ## §8 matches that differ by an automorphism of the rule -/

theorem mapOpt_eq_map {α β : Type} (f : α → Option β) (g : α → β) (hg : ∀ a b, f a = some b → g a = b)
    (l : List α) (r : List β) (h : mapOpt f l = some r) :
    r = l.map g ∧ ∀ a ∈ l, ∃ b, f a = some b := by
  induction l generalizing r with
  | nil =>
    simp only [mapOpt, Option.some.injEq] at h
    subst h; exact ⟨rfl, fun a ha => by cases ha⟩
  | cons a rest ih =>
    simp only [mapOpt] at h
    cases hfa : f a with
    | none => rw [hfa] at h; cases h
    | some b =>
      cases hr : mapOpt f rest with
      | none => rw [hfa, hr] at h; cases h
      | some bs =>
        rw [hfa, hr] at h
        simp only [Option.some.injEq] at h
        subst h
        obtain ⟨e, hall⟩ := ih bs hr
        refine ⟨by rw [List.map_cons, hg a b hfa, e], ?_⟩
        intro x hx
        rcases List.mem_cons.1 hx with rfl | hx'
        · exact ⟨b, hfa⟩
        · exact hall x hx'

/-- `m (σ p)`, with 0 where undefined. -/
def composeVal (m σ : Mapping) (p : Nat) : Nat := ((σ.get? p).bind fun q => m.get? q).getD 0

theorem composeOn_spec (keep : List Nat) (m σ k : Mapping) (h : composeOn keep m σ = some k) :
    k = keep.map (fun p => (p, composeVal m σ p)) ∧
    ∀ p ∈ keep, ∃ q hh, σ.get? p = some q ∧ m.get? q = some hh := by
  unfold composeOn at h
  obtain ⟨e, hall⟩ := mapOpt_eq_map _ (fun p => (p, composeVal m σ p)) (by
    intro p b hb
    unfold composeVal
    cases hq : σ.get? p with
    | none => rw [hq] at hb; cases hb
    | some q =>
      rw [hq] at hb
      simp only [Option.bind_some] at hb ⊢
      cases hh : m.get? q with
      | none => rw [hh] at hb; cases hb
      | some v => rw [hh] at hb; simp only [Option.map_some, Option.some.injEq] at hb; rw [← hb]; rfl) keep k h
  refine ⟨e, ?_⟩
  intro p hp
  obtain ⟨b, hb⟩ := hall p hp
  cases hq : σ.get? p with
  | none => rw [hq] at hb; cases hb
  | some q =>
    rw [hq] at hb
    simp only [Option.bind_some] at hb
    cases hh : m.get? q with
    | none => rw [hh] at hb; cases hb
    | some v => exact ⟨q, v, rfl, hh⟩

/-- **Matches that differ by an automorphism of the rule glue to the same reaction.**  `σ` is an
automorphism of the template on `itsSel` (label pairs of atoms, order pairs of bonds — what the
repaired pruning enumerates), `k = m ∘ σ` on the template's nodes.  Then `k` is again an injective
assignment into the substrate and the two glued ITS graphs are isomorphic on `itsSel`, the
isomorphism being the identity on the substrate's atoms. -/
theorem glue_aut_iso (host T : LGraph) (m σ k : Mapping) (hH : WFHost host) (hT : WFTemplate T)
    (Am : Assign host T m) (hσ : IsIso itsSel T T σ) (hk : composeOn T.ids m σ = some k) :
    Assign host T k ∧ IsIso itsSel (glue host T k) (glue host T m) (host.ids.map fun v => (v, v)) := by
  obtain ⟨kform, kall⟩ := composeOn_spec T.ids m σ k hk
  have σsurj := iso_surj itsSel T T σ hσ
  obtain ⟨⟨⟨σfst, σinj, σnode, σedge⟩, σind⟩, -⟩ := hσ
  have σfst' : σ.map (·.1) = T.ids := σfst
  have σfn : (σ.map (·.1)).Nodup := by rw [σfst']; exact hT.1.1
  have kfst : k.map (·.1) = T.ids := by
    rw [kform, List.map_map]; exact List.map_id' _
  have kfn : (k.map (·.1)).Nodup := by rw [kfst]; exact hT.1.1
  have kget : ∀ p ∈ T.ids, ∃ q h, σ.get? p = some q ∧ m.get? q = some h ∧ k.get? p = some h := by
    intro p hp
    obtain ⟨q, h, h1, h2⟩ := kall p hp
    refine ⟨q, h, h1, h2, ?_⟩
    rw [kform, mget_map_self T.ids (composeVal m σ) p hp]
    simp [composeVal, h1, h2]
  have kget' : ∀ p h, k.get? p = some h → p ∈ T.ids ∧ ∃ q, σ.get? p = some q ∧ m.get? q = some h := by
    intro p h hg
    have hp : p ∈ T.ids := by
      rw [kform] at hg
      exact (mget_map_some T.ids (composeVal m σ) p h hg).1
    obtain ⟨q, h', h1, h2, h3⟩ := kget p hp
    rw [hg] at h3
    cases h3
    exact ⟨hp, q, h1, h2⟩
  have Ak : Assign host T k := by
    refine ⟨kfst, ?_, ?_⟩
    · rw [kform, List.map_map]
      refine List.Nodup.map_on ?_ hT.1.1
      intro p hp p' hp' e
      simp only [Function.comp] at e
      obtain ⟨q, h, h1, h2, h3⟩ := kget p hp
      obtain ⟨q', h', h1', h2', h3'⟩ := kget p' hp'
      have e1 : composeVal m σ p = h := by simp [composeVal, h1, h2]
      have e2 : composeVal m σ p' = h' := by simp [composeVal, h1', h2']
      rw [e1, e2] at e
      subst e
      have := mget_inj m Am.inj q q' h h2 h2'
      subst this
      exact mget_inj σ σinj p p' q h1 h1'
    · intro x hx
      have hg : k.get? x.1 = some x.2 := SynKit.Match.get?_of_mem k kfn x.1 x.2 hx
      obtain ⟨_, q, _, h2⟩ := kget' x.1 x.2 hg
      exact Am.img (q, x.2) (mget_mem m q x.2 h2)
  refine ⟨Ak, glue_iso_of_labels host T m k hH hT Am Ak ?_ ?_ ?_⟩
  · -- labels
    intro p h hph
    have hg : k.get? p = some h := SynKit.Match.get?_of_mem k kfn p h hph
    obtain ⟨_, q, h1, h2⟩ := kget' p h hg
    refine ⟨q, mget_mem m q h h2, ?_⟩
    have := (σnode (p, q) (mget_mem σ p q h1)).2
    simpa [nodeOk, itsSel] using this
  · -- bonds, m → k
    intro te hte x y hl
    obtain ⟨hu, hv, g1, g2, hc⟩ := (landsOn_iff _ _ _ _).1 hl
    obtain ⟨hq1, hq2, _⟩ := hT.1.2.1 te hte
    obtain ⟨p1, hp1⟩ := σsurj te.1 hq1
    obtain ⟨p2, hp2⟩ := σsurj te.2.1 hq2
    have s1 : σ.get? p1 = some te.1 := SynKit.Match.get?_of_mem σ σfn _ _ hp1
    have s2 : σ.get? p2 = some te.2.1 := SynKit.Match.get?_of_mem σ σfn _ _ hp2
    have hp1T : p1 ∈ T.ids := by rw [← σfst']; exact List.mem_map.2 ⟨_, hp1, rfl⟩
    have hp2T : p2 ∈ T.ids := by rw [← σfst']; exact List.mem_map.2 ⟨_, hp2, rfl⟩
    have hTe : T.hasEdge te.1 te.2.1 = true := hasEdge_of_mem T hT.1 te hte _ _ (Or.inl ⟨rfl, rfl⟩)
    have hTp : T.hasEdge p1 p2 = true := by
      cases hh : T.hasEdge p1 p2 with
      | true => rfl
      | false => rw [σind p1 p2 _ _ s1 s2 hh] at hTe; cases hTe
    unfold LGraph.hasEdge at hTp
    obtain ⟨pa, hpa⟩ := Option.isSome_iff_exists.1 hTp
    obtain ⟨te', hte', hattr, hends⟩ := Reactor.edge?_some_mem T p1 p2 pa hpa
    obtain ⟨hu', hv', ea, t1, t2, t3, t4⟩ := σedge te' hte'
    obtain ⟨q1, h1, a1, a2, a3⟩ := kget p1 hp1T
    obtain ⟨q2, h2, b1, b2, b3⟩ := kget p2 hp2T
    rw [s1] at a1; cases a1
    rw [s2] at b1; cases b1
    rw [g1] at a2; cases a2
    rw [g2] at b2; cases b2
    have hord : Attrs.get ea "order" = Attrs.get te'.2.2 "order" := by
      simpa [edgeOk, itsSel] using t4
    refine ⟨te', hte', ?_, ?_⟩
    · rcases hends with ⟨e1, e2⟩ | ⟨e1, e2⟩
      · exact (landsOn_iff _ _ _ _).2 ⟨hu, hv, by rw [e1]; exact a3, by rw [e2]; exact b3, hc⟩
      · refine (landsOn_iff _ _ _ _).2 ⟨hv, hu, by rw [e1]; exact b3, by rw [e2]; exact a3, ?_⟩
        rcases hc with ⟨c1, c2⟩ | ⟨c1, c2⟩
        · exact Or.inr ⟨c2, c1⟩
        · exact Or.inl ⟨c2, c1⟩
    · rw [← hord]
      rcases hends with ⟨e1, e2⟩ | ⟨e1, e2⟩
      · rw [e1, s1] at t1; rw [e2, s2] at t2
        cases t1; cases t2
        rw [Reactor.edge?_of_mem T hT.1 te hte _ _ (Or.inl ⟨rfl, rfl⟩)] at t3
        cases t3; rfl
      · rw [e1, s2] at t1; rw [e2, s1] at t2
        cases t1; cases t2
        rw [Reactor.edge?_of_mem T hT.1 te hte _ _ (Or.inr ⟨rfl, rfl⟩)] at t3
        cases t3; rfl
  · -- bonds, k → m
    intro te hte x y hl
    obtain ⟨hu, hv, k1, k2, hc⟩ := (landsOn_iff _ _ _ _).1 hl
    obtain ⟨_, q1, s1, g1⟩ := kget' _ _ k1
    obtain ⟨_, q2, s2, g2⟩ := kget' _ _ k2
    obtain ⟨hu', hv', ea, t1, t2, t3, t4⟩ := σedge te hte
    rw [s1] at t1; rw [s2] at t2
    cases t1; cases t2
    obtain ⟨te', hte', hattr, hends⟩ := Reactor.edge?_some_mem T q1 q2 ea t3
    have hord : Attrs.get ea "order" = Attrs.get te.2.2 "order" := by
      simpa [edgeOk, itsSel] using t4
    refine ⟨te', hte', ?_, by rw [hattr]; exact hord⟩
    rcases hends with ⟨e1, e2⟩ | ⟨e1, e2⟩
    · exact (landsOn_iff _ _ _ _).2 ⟨hu, hv, by rw [e1]; exact g1, by rw [e2]; exact g2, hc⟩
    · refine (landsOn_iff _ _ _ _).2 ⟨hv, hu, by rw [e1]; exact g2, by rw [e2]; exact g1, ?_⟩
      rcases hc with ⟨c1, c2⟩ | ⟨c1, c2⟩
      · exact Or.inr ⟨c2, c1⟩
      · exact Or.inl ⟨c2, c1⟩

/-! ## §9 well-formedness is a property of the chemistry, not of the numbering -/

theorem forall_mem_map_iff {α β : Type} (g : α → β) (l : List α) (P : β → Prop) :
    (∀ y ∈ l.map g, P y) ↔ ∀ x ∈ l, P (g x) := by
  constructor
  · intro h x hx; exact h _ (List.mem_map.2 ⟨x, hx, rfl⟩)
  · intro h y hy; obtain ⟨x, hx, rfl⟩ := List.mem_map.1 hy; exact h x hx

theorem wfHost_relabel_iff (host : LGraph) (f : Nat → Nat) (hf : Function.Injective f) :
    WFHost (host.relabel f) ↔ WFHost host := by
  unfold WFHost
  rw [relabel_WF_iff host f hf]
  have hN : (host.relabel f).nodes = host.nodes.map fun p => (f p.1, p.2) := rfl
  have hE : (host.relabel f).edges = host.edges.map fun e => (f e.1, f e.2.1, e.2.2) := rfl
  rw [hN, hE, forall_mem_map_iff, forall_mem_map_iff]

theorem wfTemplate_relabel_iff (T : LGraph) (π : Nat → Nat) (hπ : Function.Injective π) :
    WFTemplate (T.relabel π) ↔ WFTemplate T := by
  unfold WFTemplate
  rw [relabel_WF_iff T π hπ]
  have hN : (T.relabel π).nodes = T.nodes.map fun p => (π p.1, p.2) := rfl
  have hE : (T.relabel π).edges = T.edges.map fun e => (π e.1, π e.2.1, e.2.2) := rfl
  rw [hN, hE, forall_mem_map_iff, forall_mem_map_iff]

theorem noMap_WF_iff (T : LGraph) : (noMap T).WF ↔ T.WF := by
  unfold LGraph.WF
  rw [noMap_ids]
  rfl

theorem wfTemplate_noMap_iff (T : LGraph) : WFTemplate (noMap T) ↔ WFTemplate T := by
  unfold WFTemplate
  rw [noMap_WF_iff]
  have hN : (noMap T).nodes = T.nodes.map fun p => (p.1, Dict.erase p.2 "atom_map") := rfl
  have hE : (noMap T).edges = T.edges := rfl
  rw [hN, hE, forall_mem_map_iff]
  simp only [tgField, hasKey_erase_other _ _ _ (show "typesGH" ≠ "atom_map" by decide),
    get_erase_other _ _ _ (show "typesGH" ≠ "atom_map" by decide)]

theorem wfTemplate_orient_relabel_iff (dir : Bool) (T : LGraph) (π : Nat → Nat) (hπ : Function.Injective π) :
    WFTemplate (orient dir (T.relabel π)) ↔ WFTemplate (orient dir T) := by
  rw [← wfTemplate_noMap_iff, noMap_orient_relabel, wfTemplate_relabel_iff _ π hπ, wfTemplate_noMap_iff]

/-! ## §10 the concrete reactor (implicit path) as an instance of the abstract pipeline -/

theorem monoSel_no_atom_map : "atom_map" ∉ monoSel.nodeKeys := by decide

/-- The search of the concrete reactor sees the pattern exactly as `its_decompose` builds it. -/
theorem concrete_search_all (maxGroup : Nat) (comp : LGraph → LGraph → List Mapping) (dir : Bool) (host T : LGraph) :
    (concrete maxGroup comp).search .all host ((concrete maxGroup comp).pattern dir T) =
      allMonos monoSel host (left (orient dir T)) :=
  allMonos_noMap monoSel monoSel_no_atom_map host _

theorem concrete_pattern_relabel (maxGroup : Nat) (comp : LGraph → LGraph → List Mapping)
    (dir : Bool) (T : LGraph) (π : Nat → Nat) :
    (concrete maxGroup comp).pattern dir (T.relabel π) = ((concrete maxGroup comp).pattern dir T).relabel π :=
  noMap_left_orient_relabel dir T π

theorem concrete_glue_relabel (maxGroup : Nat) (comp : LGraph → LGraph → List Mapping)
    {f π : Nat → Nat} (hf : Function.Injective f) (hπ : Function.Injective π)
    (dir : Bool) (host T : LGraph) (m : Mapping) :
    (concrete maxGroup comp).glue dir (host.relabel f) (T.relabel π) (relabelHost f (relabelPat π m)) =
      ((concrete maxGroup comp).glue dir host T m).map (·.relabel f) := by
  show (if WFHost (host.relabel f) ∧ WFTemplate (orient dir (T.relabel π)) then
      render (glue (host.relabel f) (orient dir (T.relabel π)) (relabelHost f (relabelPat π m))) else []) =
    (if WFHost host ∧ WFTemplate (orient dir T) then render (glue host (orient dir T) m) else []).map (·.relabel f)
  rw [glue_orient_relabel hf hπ, render_relabel _ f hf]
  by_cases h : WFHost host ∧ WFTemplate (orient dir T)
  · rw [if_pos h, if_pos ⟨(wfHost_relabel_iff host f hf).2 h.1, (wfTemplate_orient_relabel_iff dir T π hπ).2 h.2⟩]
  · rw [if_neg h, if_neg (fun h' => h ⟨(wfHost_relabel_iff host f hf).1 h'.1,
      (wfTemplate_orient_relabel_iff dir T π hπ).1 h'.2⟩)]
    rfl

/-- Every rendered result is well formed. -/
theorem concrete_glue_wf (maxGroup : Nat) (comp : LGraph → LGraph → List Mapping)
    (dir : Bool) (host T : LGraph) (m : Mapping) (r : LGraph)
    (hr : r ∈ (concrete maxGroup comp).glue dir host T m) : r.WF := by
  have hr' : r ∈ (if WFHost host ∧ WFTemplate (orient dir T) then render (glue host (orient dir T) m) else []) := hr
  split at hr'
  · obtain ⟨rfl, hw⟩ := mem_render hr'; exact hw
  · cases hr'

/-- On the property's domain nothing is dropped: a match of the prepared pattern into a well-formed
substrate glues to a well-formed ITS, which is rendered. -/
theorem concrete_glue_of_mono (maxGroup : Nat) (comp : LGraph → LGraph → List Mapping)
    (dir : Bool) (host T : LGraph) (m : Mapping) (hH : WFHost host) (hT : WFTemplate (orient dir T))
    (hm : IsMono monoSel host (left (orient dir T)) m) :
    (concrete maxGroup comp).glue dir host T m = [glue host (orient dir T) m] := by
  have A := assign_of_mono host _ m hT hm
  show (if WFHost host ∧ WFTemplate (orient dir T) then render (glue host (orient dir T) m) else []) = _
  rw [if_pos ⟨hH, hT⟩]
  unfold render
  rw [if_pos (glue_wf host _ m hH.1 hT.1 A.inj A.img)]

/-- **Matches related by a rule automorphism render to the same reactions** (concrete form of
`GlueAutInvariant`, on matches of the prepared pattern). -/
theorem concrete_glue_aut (maxGroup : Nat) (comp : LGraph → LGraph → List Mapping)
    (dir : Bool) (host T : LGraph) (m σ k : Mapping)
    (hm : WFHost host → WFTemplate (orient dir T) → IsMono monoSel host (left (orient dir T)) m)
    (hσ : σ ∈ auts itsSel (orient dir T))
    (hk : composeOn (left (orient dir T)).ids m σ = some k) :
    SetEqMod ItsEquiv ((concrete maxGroup comp).glue dir host T k) ((concrete maxGroup comp).glue dir host T m) := by
  by_cases hg : WFHost host ∧ WFTemplate (orient dir T)
  · obtain ⟨hH, hT⟩ := hg
    have hm' := hm hH hT
    have A := assign_of_mono host _ m hT hm'
    have hσ' : IsIso itsSel (orient dir T) (orient dir T) σ := by
      unfold auts at hσ
      exact ((mem_allInduced itsSel _ _ hT.1 σ).1 hσ) |> fun h => ⟨h, rfl⟩
    rw [left_ids _ hT] at hk
    obtain ⟨Ak, hiso⟩ := glue_aut_iso host _ m σ k hH hT A hσ' hk
    have e1 : (concrete maxGroup comp).glue dir host T m = [glue host (orient dir T) m] :=
      concrete_glue_of_mono maxGroup comp dir host T m hH hT hm'
    have e2 : (concrete maxGroup comp).glue dir host T k = [glue host (orient dir T) k] := by
      show (if WFHost host ∧ WFTemplate (orient dir T) then render (glue host (orient dir T) k) else []) = _
      rw [if_pos ⟨hH, hT⟩]
      unfold render
      rw [if_pos (glue_wf host _ k hH.1 hT.1 Ak.inj Ak.img)]
    rw [e1, e2]
    have hE : ItsEquiv (glue host (orient dir T) k) (glue host (orient dir T) m) :=
      Or.inr ⟨glue_wf host _ k hH.1 hT.1 Ak.inj Ak.img, glue_wf host _ m hH.1 hT.1 A.inj A.img, _, hiso⟩
    constructor
    · intro x hx; rw [List.mem_singleton] at hx; subst hx
      exact ⟨_, List.mem_singleton.2 rfl, hE⟩
    · intro x hx; rw [List.mem_singleton] at hx; subst hx
      exact ⟨_, List.mem_singleton.2 rfl, itsEquiv_equivalence.symm hE⟩
  · have e : ∀ m', (concrete maxGroup comp).glue dir host T m' = [] := by
      intro m'
      show (if WFHost host ∧ WFTemplate (orient dir T) then render (glue host (orient dir T) m') else []) = _
      rw [if_neg hg]
    rw [e, e]
    refine ⟨?_, ?_⟩ <;> (intro x hx; cases hx)

/-! ## §11 the reactor clause of C11, for the modelled reactor -/

/-- The last clause of C11 ("the symmetry pruning used during rule application never changes the set
of distinct reactions obtained compared with applying the rule at every match") for the modelled
implicit path with the repaired pruning (draft fix 0015): for every well-formed substrate, every
well-formed oriented template (`T` forwards, `invert T` backwards), every list of matches of the
prepared pattern and every group-size bound, the ITS graphs glued along the pruned matches and along
all matches are the same up to isomorphism of ITS graphs. -/
def PruningClauseModel : Prop :=
  ∀ (maxGroup : Nat) (host T : LGraph) (ms : List Mapping), WFHost host → WFTemplate T →
    (∀ m ∈ ms, IsMono monoSel host (left T) m) →
    SetEqMod ItsEquiv (implicitResults host T (pruneByAut maxGroup (left T).ids (auts itsSel T) ms))
      (implicitResults host T ms)

/-! ## §12 gluing a reaction's own template along the identity rebuilds the reaction (C04, step 3) -/

/-- Identity isomorphism from edge-wise and atom-wise agreement. -/
theorem isIso_id_of (A B : LGraph) (hB : B.WF) (hids : ∀ v ∈ B.ids, v ∈ A.ids)
    (hlen : A.nodes.length = B.nodes.length)
    (hnode : ∀ v ∈ B.ids, Attrs.get (A.attrs v) "typesGH" = Attrs.get (B.attrs v) "typesGH")
    (hedge : ∀ e ∈ B.edges, ∃ ea, A.edge? e.1 e.2.1 = some ea ∧ Attrs.get ea "order" = Attrs.get e.2.2 "order")
    (hback : ∀ e ∈ A.edges, B.hasEdge e.1 e.2.1 = true) :
    IsIso itsSel A B (B.ids.map fun v => (v, v)) := by
  have hidget : ∀ v ∈ B.ids, Mapping.get? (B.ids.map fun v => (v, v)) v = some v :=
    fun v hv => SynKit.ReactorInv.idMap_get? B.ids v hv
  have hidval : ∀ p hp, Mapping.get? (B.ids.map fun v => (v, v)) p = some hp → hp = p := by
    intro p hp h
    exact (mget_map_some B.ids (fun v => v) p hp h).2
  refine ⟨⟨⟨?_, ?_, ?_, ?_⟩, ?_⟩, hlen⟩
  · rw [List.map_map]; exact List.map_id' _
  · rw [List.map_map]
    have : ((fun x : Nat × Nat => x.2) ∘ fun v : Nat => (v, v)) = id := rfl
    rw [this, List.map_id]; exact hB.1
  · intro ph hph
    obtain ⟨v, hv, rfl⟩ := List.mem_map.1 hph
    refine ⟨hids v hv, ?_⟩
    simp [nodeOk, itsSel, hnode v hv]
  · intro e he
    obtain ⟨ea, h1, h2⟩ := hedge e he
    have hends := hB.2.1 e he
    exact ⟨e.1, e.2.1, ea, hidget _ hends.1, hidget _ hends.2.1, h1, by simp [edgeOk, itsSel, h2]⟩
  · intro p q hp hq g1 g2 hne
    have e1 := hidval p hp g1
    have e2 := hidval q hq g2
    subst e1; subst e2
    cases hh : A.hasEdge hp hq with
    | false => rfl
    | true =>
      exfalso
      unfold LGraph.hasEdge at hh
      obtain ⟨a, ha⟩ := Option.isSome_iff_exists.1 hh
      obtain ⟨e, he, _, hend⟩ := Reactor.edge?_some_mem _ hp hq a ha
      have hb := hback e he
      have : B.hasEdge hp hq = true := by
        rcases hend with ⟨a1, a2⟩ | ⟨a1, a2⟩
        · rw [← a1, ← a2]; exact hb
        · rw [hasEdge_comm, ← a1, ← a2]; exact hb
      rw [this] at hne; cases hne

/-- The substrate's label of an atom as `_default_tg` writes it. -/
def gSide (a : Attrs) : Val :=
  .tup [pyGet a "element" (.str "*"), pyGet a "aromatic" (.bool false), pyGet a "hcount" (.num 0),
        pyGet a "charge" (.num 0), pyGet a "neighbors" (.tup [])]

/-- **RcComplete** (DESIGN §5 C04): every atom whose hydrogen count or charge differs between the two
sides of the reaction `I` is an atom of the template `T` (for a centre template: is an end of a
changed bond; vacuous for the full ITS; FALSE for centre templates of reactions like phosphate
protonation, finding F10). -/
def RcComplete (I T : LGraph) : Prop :=
  ∀ v ∈ I.ids, v ∉ T.ids → hR (I.attrs v) = hL (I.attrs v) ∧ tgField (I.attrs v) 1 3 = tgField (I.attrs v) 0 3

/-- `T` is a template of the reaction `I` (an ITS drawn on the atoms of its reactant graph `G`):
* `I` has `G`'s atoms, each labelled with `G`'s label on the reactant side and, on the product side,
  the same element / aromatic flag / `neighbors` entry (`lab`: reactions that change one of these
  three entries are excluded — the gap of `glue_own_template_partial`);
* on its atoms `T` carries the reaction's hydrogen-count change and product charge (`tpl`);
* `G`'s bonds are bonds of `I`, unchanged unless a template bond lies on them (`gEdge`); every bond
  of `I` is a bond of `G` or of `T` (`iEdge`); every template bond lies on a bond of `I` with the same
  order pair, and is not a formed bond where `G` already has a bond (`tEdge`);
* the identity is a match of the prepared pattern (`hid`, C04 step 1). -/
structure OwnTemplate (G I T : LGraph) : Prop where
  hG : WFHost G
  hT : WFTemplate T
  hI : I.WF
  hid : IsMono monoSel G (left T) (idMap T)
  ids : ∀ v, v ∈ I.ids ↔ v ∈ G.ids
  len : I.nodes.length = G.nodes.length
  hnum : ∀ v ∈ G.ids, pyGet (G.attrs v) "hcount" (.num 0) = .num (numOf (pyGet (G.attrs v) "hcount" (.num 0)))
  lab : ∀ v ∈ G.ids, ∃ hp cp, Attrs.get (I.attrs v) "typesGH" =
      .tup [gSide (G.attrs v),
            .tup [pyGet (G.attrs v) "element" (.str "*"), pyGet (G.attrs v) "aromatic" (.bool false), .num hp, cp,
                  pyGet (G.attrs v) "neighbors" (.tup [])]]
  tpl : ∀ v ∈ T.ids, hR (T.attrs v) - hL (T.attrs v) = hR (I.attrs v) - hL (I.attrs v) ∧
      tgField (T.attrs v) 1 3 = tgField (I.attrs v) 1 3
  gEdge : ∀ e0 ∈ G.edges, ∃ a, I.edge? e0.1 e0.2.1 = some a ∧
      ((∀ te ∈ T.edges, landsOn (idMap T) te e0.1 e0.2.1 = false) →
        Attrs.get a "order" = .tup [pyGet e0.2.2 "order" (.num 2), pyGet e0.2.2 "order" (.num 2)])
  iEdge : ∀ e ∈ I.edges, G.hasEdge e.1 e.2.1 = true ∨ T.hasEdge e.1 e.2.1 = true
  tEdge : ∀ te ∈ T.edges, ∃ a, I.edge? te.1 te.2.1 = some a ∧ Attrs.get a "order" = Attrs.get te.2.2 "order" ∧
      (G.hasEdge te.1 te.2.1 = true → ordAt te.2.2 0 ≠ .num 0)

theorem landsOn_idMap (T : LGraph) (te : Nat × Nat × Attrs) (h1 : te.1 ∈ T.ids) (h2 : te.2.1 ∈ T.ids) (x y : Nat) :
    landsOn (idMap T) te x y = true ↔ (te.1 = x ∧ te.2.1 = y) ∨ (te.1 = y ∧ te.2.1 = x) := by
  rw [landsOn_iff]
  have g1 := SynKit.ReactorInv.idMap_get? T.ids te.1 h1
  have g2 := SynKit.ReactorInv.idMap_get? T.ids te.2.1 h2
  unfold idMap
  constructor
  · rintro ⟨hu, hv, a1, a2, hc⟩
    rw [g1] at a1; rw [g2] at a2
    cases a1; cases a2
    exact hc
  · intro hc
    exact ⟨te.1, te.2.1, g1, g2, hc⟩

theorem hasEdge_mem {g : LGraph} {x y : Nat} (h : g.hasEdge x y = true) :
    ∃ e ∈ g.edges, (e.1 = x ∧ e.2.1 = y) ∨ (e.1 = y ∧ e.2.1 = x) := by
  unfold LGraph.hasEdge at h
  obtain ⟨a, ha⟩ := Option.isSome_iff_exists.1 h
  obtain ⟨e, he, _, hend⟩ := Reactor.edge?_some_mem g x y a ha
  exact ⟨e, he, hend⟩

theorem hasEdge_of_edge? {g : LGraph} {x y : Nat} {a : Attrs} (h : g.edge? x y = some a) : g.hasEdge x y = true := by
  unfold LGraph.hasEdge; rw [h]; rfl

/-- **C04 step 3 (`GlueRebuilds`), concrete, `_partial`.** Gluing the reactant graph `G` with a
template `T` of its own reaction `I` along the identity match rebuilds `I`, up to isomorphism of ITS
graphs (the identity on atoms), under `RcComplete I T`.  Missing for the unconditional statement:
reactions in which an atom changes its aromatic flag or `neighbors` entry (excluded by
`OwnTemplate.lab`, because `_node_glue` copies both from the substrate), the composition with
`ITSConstruction` / `get_rc` / `SynRule` (that the graphs they build satisfy `OwnTemplate`), and the
explicit-hydrogen path. -/
theorem glue_own_template_partial (G I T : LGraph) (h : OwnTemplate G I T) (hrc : RcComplete I T) :
    IsIso itsSel (glue G T (idMap T)) I (I.ids.map fun v => (v, v)) := by
  obtain ⟨hG, hT, hI, hid, hids, hlen, hnum, hlab, htpl, hgE, hiE, htE⟩ := h
  have A := assign_of_mono G T (idMap T) hT hid
  have hWA : (glue G T (idMap T)).WF := glue_wf G T _ hG.1 hT.1 A.inj A.img
  have hmemid : ∀ v ∈ T.ids, (v, v) ∈ idMap T := fun v hv => List.mem_map.2 ⟨v, hv, rfl⟩
  have hsnd : (idMap T).map (·.2) = T.ids := by
    simp [idMap, List.map_map, Function.comp_def]
  have hget : ∀ v ∈ T.ids, (idMap T).get? v = some v := fun v hv => SynKit.ReactorInv.idMap_get? T.ids v hv
  apply isIso_id_of _ I hI
  · intro v hv; rw [glue_ids]; exact (hids v).1 hv
  · rw [hlen]; simp [glue, prepHost]
  · -- atoms
    intro v hvI
    have hvG := (hids v).1 hvI
    obtain ⟨hp, cp, hl⟩ := hlab v hvG
    have hRI : hR (I.attrs v) = hp := by unfold hR tgField; rw [hl]; rfl
    have hLI : hL (I.attrs v) = numOf (pyGet (G.attrs v) "hcount" (.num 0)) := by
      unfold hL tgField; rw [hl]; rfl
    have hcI1 : tgField (I.attrs v) 1 3 = cp := by unfold tgField; rw [hl]; rfl
    have hcI0 : tgField (I.attrs v) 0 3 = pyGet (G.attrs v) "charge" (.num 0) := by
      unfold tgField; rw [hl]; rfl
    by_cases hv : v ∈ T.ids
    · rw [glue_tg_matched G T _ hG hT hid v v (hmemid v hv), hl]
      obtain ⟨t1, t2⟩ := htpl v hv
      rw [hRI, hLI] at t1
      rw [hcI1] at t2
      unfold hR hL at t1
      have e1 : numOf (pyGet (G.attrs v) "hcount" (.num 0)) -
          (numOf (tgField (T.attrs v) 0 2) - numOf (tgField (T.attrs v) 1 2)) = hp := by omega
      rw [e1, t2]
      rfl
    · have hpre : preimage (idMap T) v = none :=
        preimage_none_of_not_mem _ v (by rw [hsnd]; exact hv)
      rw [glue_tg_unmatched G T _ hG v hvG hpre, hl]
      obtain ⟨r1, r2⟩ := hrc v hvI hv
      rw [hRI, hLI] at r1
      rw [hcI1, hcI0] at r2
      rw [r1, r2, ← hnum v hvG]
      rfl
  · -- bonds of the reaction are bonds of the glued graph, same order pair
    intro e he
    by_cases hg : G.hasEdge e.1 e.2.1 = true
    · obtain ⟨e0, he0, hend0⟩ := hasEdge_mem hg
      have he' : glueHostEdge T (idMap T) (prepEdge e0) ∈ (glue G T (idMap T)).edges :=
        (glue_edges_mem G T _ _).2 (Or.inl ⟨e0, he0, rfl⟩)
      have hek := glueHostEdge_ends T (idMap T) (prepEdge e0)
      have hek' : ((glueHostEdge T (idMap T) (prepEdge e0)).1 = e.1 ∧ (glueHostEdge T (idMap T) (prepEdge e0)).2.1 = e.2.1) ∨
          ((glueHostEdge T (idMap T) (prepEdge e0)).1 = e.2.1 ∧ (glueHostEdge T (idMap T) (prepEdge e0)).2.1 = e.1) := by
        rw [hek.1, hek.2]; exact hend0
      refine ⟨_, Reactor.edge?_of_mem _ hWA _ he' _ _ hek', ?_⟩
      -- the reaction's bond on the ends of `e0` is `e`
      have hIe0 : I.edge? e0.1 e0.2.1 = some e.2.2 := by
        apply Reactor.edge?_of_mem I hI e he
        rcases hend0 with ⟨a1, a2⟩ | ⟨a1, a2⟩
        · exact Or.inl ⟨a1.symm, a2.symm⟩
        · exact Or.inr ⟨a2.symm, a1.symm⟩
      rcases glueHostEdge_cases T (idMap T) (prepEdge e0) with ⟨hnone, heq⟩ | ⟨te, hs, heq⟩
      · obtain ⟨a, ha, hord⟩ := hgE e0 he0
        rw [hIe0] at ha; cases ha
        rw [heq, hord (tplEdgeFor_none hnone)]
        exact (prepEdge_order e0.2.2).1
      · obtain ⟨hte, hl⟩ := tplEdgeFor_some hs
        obtain ⟨q1, q2, _⟩ := hT.1.2.1 te hte
        have hl' := (landsOn_idMap T te q1 q2 _ _).1 hl
        obtain ⟨a, ha, hord, hnz⟩ := htE te hte
        have hGte : G.hasEdge te.1 te.2.1 = true := by
          apply hasEdge_of_mem G hG.1 e0 he0
          rcases hl' with ⟨a1, a2⟩ | ⟨a1, a2⟩
          · exact Or.inl ⟨a1.symm, a2.symm⟩
          · exact Or.inr ⟨a2.symm, a1.symm⟩
        have hIte : I.edge? te.1 te.2.1 = some e.2.2 := by
          apply Reactor.edge?_of_mem I hI e he
          have h0 : ((prepEdge e0).1 = e0.1 ∧ (prepEdge e0).2.1 = e0.2.1) := ⟨rfl, rfl⟩
          rw [h0.1, h0.2] at hl'
          omega
        rw [hIte] at ha; cases ha
        rw [heq]
        have hTe := hT.2.2 te hte
        show Attrs.get (mergeEdge (prepEdgeAttrs e0.2.2) te.2.2) "order" = _
        rw [(mergeEdge_order _ _ hTe.1 hTe.2.1).1, if_neg (hnz hGte), hord]
    · have ht : T.hasEdge e.1 e.2.1 = true := by
        rcases hiE e he with h1 | h1
        · exact absurd h1 hg
        · exact h1
      obtain ⟨te, hte, hendt⟩ := hasEdge_mem ht
      obtain ⟨q1, q2, _⟩ := hT.1.2.1 te hte
      have hGno : G.hasEdge te.1 te.2.1 = false := by
        cases hh : G.hasEdge te.1 te.2.1 with
        | false => rfl
        | true =>
          exfalso; apply hg
          rcases hendt with ⟨a1, a2⟩ | ⟨a1, a2⟩
          · rw [← a1, ← a2]; exact hh
          · rw [hasEdge_comm, ← a1, ← a2]; exact hh
      have he' : (te.1, te.2.1, te.2.2) ∈ (glue G T (idMap T)).edges :=
        (glue_edges_mem G T _ _).2 (Or.inr ⟨te, hte, by simp [glueNewEdge, hget _ q1, hget _ q2, hGno]⟩)
      refine ⟨te.2.2, Reactor.edge?_of_mem _ hWA _ he' _ _ hendt, ?_⟩
      obtain ⟨a, ha, hord, _⟩ := htE te hte
      have hIte : I.edge? te.1 te.2.1 = some e.2.2 := by
        apply Reactor.edge?_of_mem I hI e he
        rcases hendt with ⟨a1, a2⟩ | ⟨a1, a2⟩
        · exact Or.inl ⟨a1.symm, a2.symm⟩
        · exact Or.inr ⟨a2.symm, a1.symm⟩
      rw [hIte] at ha; cases ha
      exact hord.symm
  · -- bonds of the glued graph are bonds of the reaction
    intro e' he'
    rcases (glue_edges_mem G T _ e').1 he' with ⟨e0, he0, rfl⟩ | ⟨te, hte, hsome⟩
    · have hek := glueHostEdge_ends T (idMap T) (prepEdge e0)
      rw [hek.1, hek.2]
      obtain ⟨a, ha, _⟩ := hgE e0 he0
      exact hasEdge_of_edge? ha
    · obtain ⟨g1, g2, _, _⟩ := glueNewEdge_some G _ te e' hsome
      obtain ⟨q1, q2, _⟩ := hT.1.2.1 te hte
      rw [hget _ q1] at g1; rw [hget _ q2] at g2
      rw [← Option.some.inj g1, ← Option.some.inj g2]
      obtain ⟨a, ha, _⟩ := htE te hte
      exact hasEdge_of_edge? ha

/-- Br–Br (atoms 1, 2). -/
def exSymHost : LGraph :=
  { nodes := [(1, [("element", .str "Br"), ("hcount", .num 0), ("charge", .num 0)]),
              (2, [("element", .str "Br"), ("hcount", .num 0), ("charge", .num 0)])]
    edges := [(1, 2, [("order", .num 2)])] }

/-- Homolysis of a Br–Br bond: a rule whose two atoms are exchangeable. -/
def exSymRule : LGraph :=
  { nodes := [(10, [("typesGH", .tup [.tup [.str "Br", .bool false, .num 0, .num 0, .tup []],
                                       .tup [.str "Br", .bool false, .num 0, .num 0, .tup []]])]),
              (11, [("typesGH", .tup [.tup [.str "Br", .bool false, .num 0, .num 0, .tup []],
                                       .tup [.str "Br", .bool false, .num 0, .num 0, .tup []]])])]
    edges := [(10, 11, [("order", .tup [.num 2, .num 0]), ("standard_order", .num 2)])] }

end SynKit.ReactorLink

import SynKitModel.Gml
import SynKitProofs.GmlLemmas
import SynKitProofs.GmlIsoLemmas
import SynKitProofs.GmlReaderLemmas
import SynKitProofs.GmlReindexLemmas
/-! Helper lemmas for C10: the route through the reaction string (`smart_to_gml`, full export)
against the route through the ITS graph. -/
namespace SynKit.Gml
open SynKit SynKit.Match SynKit.Repr

/-- a node of a molecule graph as `rsmi_to_graph` delivers it: an element string over `[A-Za-z*]`
and an integer charge. -/
def molNodeShape (a : Attrs) : Bool :=
  match Dict.get? a "element", Dict.get? a "charge" with
  | some (.str e), some (.num c) => decide (alpha e.toList) && c % 2 = 0
  | _, _ => false

/-- a bond of a molecule graph: `order` is one of 1, 1.5, 2, 3. -/
def molEdgeShape (a : Attrs) : Bool :=
  match Dict.get? a "order" with
  | some (.num x) => x = 2 || x = 3 || x = 4 || x = 6
  | _ => false

/-- Shape of the two graphs `rsmi_to_graph` hands to `smart_to_gml`: a NetworkX graph (no parallel
edges, edges join existing nodes) whose nodes carry `element` and an integer `charge` and whose
bonds carry a standard `order`. -/
def MolShape (g : LGraph) : Prop :=
  g.WF ∧ (∀ q ∈ g.nodes, molNodeShape q.2 = true) ∧ (∀ e ∈ g.edges, molEdgeShape e.2.2 = true)
instance (g : LGraph) : Decidable (MolShape g) := by unfold MolShape; infer_instance

theorem molNodeShape_unpack (a : Attrs) (h : molNodeShape a = true) :
    ∃ e c, Dict.get? a "element" = some (.str e) ∧ Dict.get? a "charge" = some (.num c) ∧
      alpha e.toList ∧ c % 2 = 0 := by
  unfold molNodeShape at h
  split at h
  · rename_i e c h1 h2
    simp only [Bool.and_eq_true, decide_eq_true_eq] at h
    exact ⟨e, c, h1, h2, h.1, h.2⟩
  · simp at h

theorem molEdgeShape_unpack (a : Attrs) (h : molEdgeShape a = true) :
    ∃ x, Dict.get? a "order" = some (.num x) ∧ (x = 2 ∨ x = 3 ∨ x = 4 ∨ x = 6) := by
  unfold molEdgeShape at h
  split at h
  · rename_i x h1
    simp only [Bool.or_eq_true, decide_eq_true_eq] at h
    exact ⟨x, h1, by omega⟩
  · simp at h

theorem sideOk_mol (g : LGraph) (h : MolShape g) : SideOk g := by
  obtain ⟨⟨h1, h2, h3⟩, _, he⟩ := h
  refine ⟨h1, fun e he' => ⟨(h2 e he').1, (h2 e he').2.1⟩, h3, ?_⟩
  intro e he'
  obtain ⟨x, hx, hstd⟩ := molEdgeShape_unpack _ (he e he')
  exact ⟨x, by simp [edgeOrderVal, Dict.getD, hx], hstd⟩

/-- what a molecule node looks like to the writer and to `ITSGraph`. -/
theorem mol_node_views (g : LGraph) (h : MolShape g) (n : Nat) (hn : n ∈ g.ids) :
    ∃ e c, alpha e.toList ∧ c % 2 = 0 ∧ elemOf (g.attrs n) = e.toList ∧ chargeOf (g.attrs n) = c / 2 ∧
      Attrs.get (g.attrs n) "charge" = .num c ∧ labView (g.attrs n) = [.str e, .num c] ∧
      tupGet (nodeRow g n) 0 = .str e ∧ tupGet (nodeRow g n) 3 = .num c := by
  obtain ⟨q, hq, rfl⟩ := List.mem_map.1 hn
  obtain ⟨e, c, h1, h2, ha, hc⟩ := molNodeShape_unpack _ (h.2.1 q hq)
  have hattr : g.attrs q.1 = q.2 := attrs_eq_of_mem g h.1.1 q hq
  have e1 : 2 * (c / 2) = c := by omega
  refine ⟨e, c, ha, hc, ?_, ?_, ?_, ?_, ?_, ?_⟩
  · simp [hattr, elemOf, h1]
  · simp [hattr, chargeOf, h2]
  · simp [hattr, Attrs.get, Dict.getD, h2]
  · simp [hattr, labView, elemOf, chargeOf, h1, h2, e1]
  · simp [nodeRow, (Rd.hasNode_iff g q.1).2 hn, hattr, Dict.getD, h1, tupGet]
  · simp [nodeRow, (Rd.hasNode_iff g q.1).2 hn, hattr, Dict.getD, h2, tupGet]

theorem mol_orderIn (g : LGraph) (h : MolShape g) (u v : Nat) : orderIn g u v = ordOf (g.edge? u v) := by
  unfold orderIn
  cases he : g.edge? u v with
  | none => rfl
  | some a =>
    obtain ⟨e, he', _, rfl⟩ := Rd.edge?_some_mem g u v a he
    obtain ⟨x, hx, _⟩ := molEdgeShape_unpack _ (h.2.2 e he')
    simp [ordOf, edgeOrderVal, Dict.getD, hx]

/-- **ITS ∘ reader ∘ writer on the two molecule graphs**: the rule `smart_to_gml` writes (full
export, ids kept) reads back as the ITS graph of the two molecule graphs. -/
theorem smart_roundtrip' (r p : LGraph) (hr : MolShape r) (hp : MolShape p) (hid : r.ids = p.ids)
    (hs : ItsShape (construct r p)) : RuleEq (gmlToIts (smartToGml false false r p)) (construct r p) := by
  have hrule : smartToGml false false r p = ruleOf r p (construct r p) := by
    simp only [smartToGml, Bool.false_eq_true, if_false]; exact writeRule_false _ _ _
  have hKids : ∀ n, n ∈ (construct r p).ids ↔ n ∈ r.ids := by
    intro n; rw [Rd.mem_construct_ids, ← hid]; simp
  have hKnode : ∀ n ∈ (construct r p).ids, ∃ e c c', alpha e.toList ∧ c % 2 = 0 ∧
      elemOf ((construct r p).attrs n) = e.toList ∧ chargeOf ((construct r p).attrs n) = c / 2 ∧
      nodeRow r n = .tup [.str e, tupGet (nodeRow r n) 1, tupGet (nodeRow r n) 2, .num c, tupGet (nodeRow r n) 4] ∧
      nodeRow p n = .tup [.str e, tupGet (nodeRow p n) 1, tupGet (nodeRow p n) 2, .num c', tupGet (nodeRow p n) 4] := by
    intro n hn
    obtain ⟨q, hq, rfl⟩ := List.mem_map.1 hn
    obtain ⟨e, ar, hc, c, nb, ar', hc', c', nb', h1, h2, h3, h4, h5, _⟩ := Rd.nodeShape_unpack' q.2 (hs.2.1 q hq)
    have hattr : (construct r p).attrs q.1 = q.2 := attrs_eq_of_mem _ hs.1.1 q hq
    have ht := Rd.construct_typesGH r p q.1 hn
    rw [hattr] at ht
    simp only [Attrs.get, Dict.getD, h1, Option.getD_some, Val.tup.injEq, List.cons.injEq, and_true] at ht
    refine ⟨e, c, c', h2, h5, by simp [hattr, elemOf, h3], by simp [hattr, chargeOf, h4], ?_, ?_⟩
    · rw [← ht.1]; simp [tupGet]
    · rw [← ht.2]; simp [tupGet]
  obtain ⟨r1, r2, r3⟩ := reader_spec r p (construct r p) (sideOk_mol r hr) (sideOk_mol p hp) hs.1.1
    (fun n => (hKids n).symm) (fun n => by rw [hKids n, hid])
    (by
      intro n hn
      have hnr : n ∈ r.ids := Rd.mem_findChanged_left _ _ n hn
      obtain ⟨e, c, ha, _, he, _⟩ := mol_node_views r hr n hnr
      obtain ⟨e', c', ha', _, he', _⟩ := mol_node_views p hp n (hid ▸ hnr)
      rw [he, he']; exact ⟨ha, ha'⟩)
    (by
      intro n hn _
      obtain ⟨e, c, c', ha, _, he, _⟩ := hKnode n hn
      rw [he]; exact ha)
  rw [hrule]
  refine ⟨r1, ?_, ?_⟩
  · intro n hn
    have hnr : n ∈ r.ids := (hKids n).1 hn
    have hnp : n ∈ p.ids := hid ▸ hnr
    obtain ⟨e, c, c', ha, hc2, hKe, hKc, hrow, hrow'⟩ := hKnode n hn
    obtain ⟨er, cr, _, _, _, _, hgr, hlr, hr0, hr3⟩ := mol_node_views r hr n hnr
    obtain ⟨ep, cp, _, _, _, _, hgp, hlp, hp0, hp3⟩ := mol_node_views p hp n hnp
    have e1 : er = e ∧ cr = c := by
      rw [hrow] at hr0 hr3
      simp only [tupGet, List.getD_cons_zero, List.getD_cons_succ, Val.str.injEq, Val.num.injEq] at hr0 hr3
      exact ⟨hr0.symm, hr3.symm⟩
    have e2 : ep = e ∧ cp = c' := by
      rw [hrow'] at hp0 hp3
      simp only [tupGet, List.getD_cons_zero, List.getD_cons_succ, Val.str.injEq, Val.num.injEq] at hp0 hp3
      exact ⟨hp0.symm, hp3.symm⟩
    obtain ⟨rfl, rfl⟩ := e1
    obtain ⟨rfl, rfl⟩ := e2
    rw [r2 n hn, Rd.construct_nodeView r p n hn, hr0, hr3, hp0, hp3]
    by_cases hch : n ∈ findChanged r p
    · rw [if_pos hch, hlr, hlp]
    · rw [if_neg hch]
      have hceq : cr = cp := by
        apply Classical.byContradiction
        intro hne
        apply hch
        simp only [findChanged, List.mem_filter, Bool.and_eq_true, decide_eq_true_eq]
        refine ⟨hnr, (Rd.hasNode_iff p n).2 hnp, ?_⟩
        rw [hgr, hgp]
        intro hh; exact hne (by injection hh)
      subst hceq
      simp [labView, hKe, hKc]
      omega
  · intro u v
    rw [r3 u v, Rd.construct_edgeView, mol_orderIn r hr, mol_orderIn p hp]
    rfl

/-! ### re-indexing commutes with `ITSGraph` -/

theorem construct_same_ids (G H : LGraph) (hid : G.ids = H.ids) :
    construct G H = ⟨G.nodes.map fun q => (q.1, itsNodeAttrs G H q.1 q.2),
      G.edges.map (fun e => itsEdge G H e.1 e.2.1) ++
        (H.edges.filter fun e => !G.hasEdge e.1 e.2.1).map fun e => itsEdge G H e.1 e.2.1⟩ := by
  have hlen : G.nodes.length ≥ H.nodes.length := by
    have := congrArg List.length hid
    simp only [LGraph.ids, List.length_map] at this
    omega
  have hextra : ((G.ids ++ H.ids).filter fun n => !G.hasNode n) = [] := by
    rw [List.filter_eq_nil_iff]
    intro n hn
    have : n ∈ G.ids := by
      rw [← hid] at hn; simpa using hn
    simp [LGraph.hasNode, this]
  unfold construct
  simp only [hlen, if_true, hextra, List.eraseDups_nil, List.map_nil, List.append_nil]

theorem nodeRow_relabel_on (g : LGraph) (f : Nat → Nat) (hf : InjOnIds g f) (n : Nat) (hn : n ∈ g.ids) :
    nodeRow (g.relabel f) (f n) = nodeRow g n := by
  have h1 : (g.relabel f).hasNode (f n) = true := by
    rw [Rd.hasNode_iff, relabel_ids]; exact List.mem_map.2 ⟨n, hn, rfl⟩
  have h2 : g.hasNode n = true := (Rd.hasNode_iff g n).2 hn
  simp only [nodeRow, h1, h2, if_true, relabel_attrs_on g f hf n hn]

theorem orderIn_relabel_on (g : LGraph) (hg : g.WF) (f : Nat → Nat) (hf : InjOnIds g f) (u v : Nat)
    (hu : u ∈ g.ids) (hv : v ∈ g.ids) : orderIn (g.relabel f) (f u) (f v) = orderIn g u v := by
  unfold orderIn; rw [relabel_edge?_on g hg f hf u v hu hv]

theorem hasEdge_relabel_on (g : LGraph) (hg : g.WF) (f : Nat → Nat) (hf : InjOnIds g f) (u v : Nat)
    (hu : u ∈ g.ids) (hv : v ∈ g.ids) : (g.relabel f).hasEdge (f u) (f v) = g.hasEdge u v := by
  unfold LGraph.hasEdge; rw [relabel_edge?_on g hg f hf u v hu hv]

theorem construct_relabel_on (r p : LGraph) (hr : r.WF) (hp : p.WF) (hid : r.ids = p.ids) (f : Nat → Nat)
    (hf : InjOnIds r f) : construct (r.relabel f) (p.relabel f) = (construct r p).relabel f := by
  have hfp : InjOnIds p f := by intro a ha b hb; rw [← hid] at ha hb; exact hf a ha b hb
  have hid' : (r.relabel f).ids = (p.relabel f).ids := by rw [relabel_ids, relabel_ids, hid]
  have hnodeA : ∀ n ∈ r.ids, ∀ a, itsNodeAttrs (r.relabel f) (p.relabel f) (f n) a = itsNodeAttrs r p n a := by
    intro n hn a
    unfold itsNodeAttrs
    rw [nodeRow_relabel_on r f hf n hn, nodeRow_relabel_on p f hfp n (hid ▸ hn)]
  have hedgeA : ∀ u v, u ∈ r.ids → v ∈ r.ids →
      itsEdge (r.relabel f) (p.relabel f) (f u) (f v) = (f u, f v, (itsEdge r p u v).2.2) := by
    intro u v hu hv
    unfold itsEdge
    rw [orderIn_relabel_on r hr f hf u v hu hv, orderIn_relabel_on p hp f hfp u v (hid ▸ hu) (hid ▸ hv)]
  rw [construct_same_ids _ _ hid', construct_same_ids r p hid]
  have hrn : (r.relabel f).nodes = r.nodes.map fun q => (f q.1, q.2) := rfl
  have hre : (r.relabel f).edges = r.edges.map fun e => (f e.1, f e.2.1, e.2.2) := rfl
  have hpe : (p.relabel f).edges = p.edges.map fun e => (f e.1, f e.2.1, e.2.2) := rfl
  show (⟨_, _⟩ : LGraph) = ⟨List.map _ _, List.map _ _⟩
  rw [hrn, hre, hpe]
  congr 1
  · rw [List.map_map, List.map_map]
    apply List.map_congr_left
    intro q hq
    simp only [Function.comp]
    rw [hnodeA q.1 (List.mem_map.2 ⟨q, hq, rfl⟩)]
  · rw [List.map_append, List.map_map, List.map_map, List.filter_map, List.map_map, List.map_map]
    congr 1
    · apply List.map_congr_left
      intro e he
      simp only [Function.comp]
      rw [hedgeA e.1 e.2.1 (hr.2.1 e he).1 (hr.2.1 e he).2.1]
      rfl
    · have hfilt : p.edges.filter ((fun e => !(r.relabel f).hasEdge e.1 e.2.1) ∘ fun e => (f e.1, f e.2.1, e.2.2)) =
          p.edges.filter fun e => !r.hasEdge e.1 e.2.1 := by
        apply List.filter_congr
        intro e he
        simp only [Function.comp]
        rw [hasEdge_relabel_on r hr f hf e.1 e.2.1 (hid ▸ (hp.2.1 e he).1) (hid ▸ (hp.2.1 e he).2.1)]
      rw [hfilt]
      apply List.map_congr_left
      intro e he
      have he' := (List.mem_filter.1 he).1
      simp only [Function.comp]
      rw [hedgeA e.1 e.2.1 (hid ▸ (hp.2.1 e he').1) (hid ▸ (hp.2.1 e he').2.1)]
      rfl

theorem injOn_indexMap' (g : LGraph) : InjOnIds g (indexMap g) := by
  intro a ha b hb e
  have ha' : g.hasNode a = true := (Rd.hasNode_iff g a).2 ha
  have hb' : g.hasNode b = true := (Rd.hasNode_iff g b).2 hb
  simp only [indexMap, ha', hb', if_true] at e
  exact (List.idxOf_inj ha).1 (Nat.succ_injective e)

theorem indexMap_congr (g g' : LGraph) (h : g.ids = g'.ids) : indexMap g = indexMap g' := by
  funext v; simp [indexMap, LGraph.hasNode, h]

theorem molShape_relabel (g : LGraph) (h : MolShape g) (f : Nat → Nat) (hf : InjOnIds g f) :
    MolShape (g.relabel f) := by
  obtain ⟨hwf, hn, he⟩ := h
  refine ⟨relabel_WF_on g hwf f hf, ?_, ?_⟩
  · intro q hq
    unfold LGraph.relabel at hq
    obtain ⟨q0, hq0, rfl⟩ := List.mem_map.1 hq
    exact hn q0 hq0
  · intro e he'
    unfold LGraph.relabel at he'
    obtain ⟨e0, he0, rfl⟩ := List.mem_map.1 he'
    exact he e0 he0

/-- two graphs that are the same rule as a third are the same rule. -/
theorem ruleEq_of_common (A B K : LGraph) (hA : RuleEq A K) (hB : RuleEq B K) : RuleEq B A := by
  obtain ⟨a1, a2, a3⟩ := hA
  obtain ⟨b1, b2, b3⟩ := hB
  refine ⟨fun n => (b1 n).trans (a1 n).symm, ?_, fun u v => (b3 u v).trans (a3 u v).symm⟩
  intro n hn
  have hk := (a1 n).1 hn
  rw [b2 n hk, a2 n hk]

theorem two_ways_full_plain (r p : LGraph) (hr : MolShape r) (hp : MolShape p) (hid : r.ids = p.ids)
    (hs : ItsShape (construct r p)) :
    ∃ m, IsIso viewSel (viewGraph (gmlToIts (smartToGml false false r p)))
      (viewGraph (gmlToIts (itsToGml false false (construct r p)))) m := by
  have h1 := smart_roundtrip' r p hr hp hid hs
  have h2 := gml_roundtrip_full' (construct r p) hs
  exact ⟨_, isIso_of_ruleEq _ _ (ruleEq_of_common _ _ _ h1 h2) (closed_gmlToIts _).1 (closed_gmlToIts _)
    (fun e he a ha => construct_order_consistent _ _ e he a ha)⟩

theorem two_ways_full' (r p : LGraph) (ri : Bool) (hr : MolShape r) (hp : MolShape p) (hid : r.ids = p.ids)
    (hs : ItsShape (construct r p)) :
    ∃ m, IsIso viewSel (viewGraph (gmlToIts (smartToGml false ri r p)))
      (viewGraph (gmlToIts (itsToGml false ri (construct r p)))) m := by
  cases ri with
  | false => exact two_ways_full_plain r p hr hp hid hs
  | true =>
    have hf := injOn_indexMap' r
    have hKids : (construct r p).ids = r.ids := by
      rw [construct_same_ids r p hid]; simp [LGraph.ids, List.map_map, Function.comp_def]
    have hfK : InjOnIds (construct r p) (indexMap r) := by
      intro a ha b hb; rw [hKids] at ha hb; exact hf a ha b hb
    have hK := construct_relabel_on r p hr.1 hp.1 hid (indexMap r) hf
    have h1 : smartToGml false true r p = smartToGml false false (r.relabel (indexMap r)) (p.relabel (indexMap r)) := by
      simp only [smartToGml, Bool.false_eq_true, if_false, writeRule, if_true, relabel_id, hK]
    have h2 : itsToGml false true (construct r p) =
        itsToGml false false (construct (r.relabel (indexMap r)) (p.relabel (indexMap r))) := by
      rw [itsToGml_reindex _ hs, hK]
      rw [indexMap_congr (side 0 (construct r p)) r (by rw [side_ids 0 _ hs.2.1, hKids])]
    rw [h1, h2]
    apply two_ways_full_plain _ _ (molShape_relabel r hr _ hf)
      (molShape_relabel p hp _ (by intro a ha b hb; rw [← hid] at ha hb; exact hf a ha b hb))
      (by rw [relabel_ids, relabel_ids, hid])
    rw [hK]
    exact itsShape_relabel _ hs _ hfK

end SynKit.Gml

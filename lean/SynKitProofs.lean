import SynKitProofs.Props.C15

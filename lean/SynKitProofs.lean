import SynKitProofs.Props.C15
import SynKitProofs.Props.C01
import SynKitProofs.Props.C02
import SynKitProofs.Match
import SynKitProofs.GraphAlg
import SynKitProofs.Props.C06
import SynKitProofs.Props.C07

import SynKitProofs.Props.C15
import SynKitProofs.Props.C01
import SynKitProofs.Props.C02

import Driver.GraphJson
import SynKitModel.RxnNorm
open Lean SynKit SynKit.Match SynKit.RxnNorm
namespace Driver.RxnNorm

def natPairs (j : Json) (k : String) : Except String (List (Nat × Nat)) := do
  Driver.mappingOfJson (← j.getObjVal? k)

def lookupD (t : List (Nat × Nat)) (v : Nat) : Nat :=
  match t.find? (·.1 = v) with
  | some p => p.2
  | none => v

def errName : Err → String
  | .emptyMap => "ValueError"
  | .missing => "KeyError"
  | .collision => "collision"

def rxnOut : Except Err (LGraph × LGraph) → Json
  | .ok (g, h) => Json.mkObj [("reac", Driver.graphToJson g), ("prod", Driver.graphToJson h)]
  | .error e => Json.mkObj [("error", errName e)]

def methodOf (s : String) : Method := if s.toUpper == "RC" then .rc else .its

/-- Molecule-level selection used for "reactant atoms all distinguishable" (DESIGN §5a). -/
def molSel : Sel := { nodeKeys := ["element", "aromatic", "charge", "hcount"], edgeKeys := ["order"], hcountRule := false }

def formulaJson (f : List (String × Nat) × Int) : Json :=
  Json.mkObj [("table", Json.arr (f.1.map fun (e, n) => Json.arr #[Json.str e, toJson n]).toArray), ("charge", toJson f.2)]

/-- Commands (all graphs in the encoding of `Driver/GraphJson.lean`):
* `rxn.canon {G, H, lab: [[old, new]…]}` → `canonRxnWith` for the back-end labelling `lab`;
* `rxn.canonKey {G, H, key: [[node, key]…]}` → `canonRxn` for a key-sorting back-end, plus the order;
* `rxn.its {G, H}`, `rxn.rc {G, H}` → the minimal ITS graph / reaction centre;
* `rxn.aamCheck {method, G1, H1, G2, H2}` → Bool;
* `rxn.balanced {G, H}` → verdict and both formulae;
* `rxn.autCount {G}` → number of automorphisms on (element, aromatic, charge, hcount; order);
* `rxn.fullyMapped {G, H}` → Bool;
* `rxn.standardize {left: [str…], right: [str…]}` → `standardize id post`;
* `rxn.remap {H, pairs: [[new, old]…]}` / `rxn.remap {H, order: [old…]}` → `remapGraph` / `remapGraphList`
  (the public helper `CanonRSMI.remap_graph` in its two documented input forms): `{graph}` or `{error}`. -/
def handle : Driver.Handler := fun cmd j =>
  match cmd with
  | "rxn.canon" => some do
    let lab ← natPairs j "lab"
    pure (rxnOut (canonRxnWith (lookupD lab) (← Driver.getGraph j "G") (← Driver.getGraph j "H")))
  | "rxn.canonKey" => some do
    let key ← natPairs j "key"
    let G ← Driver.getGraph j "G"
    let k : LGraph → Nat → Nat := fun _ v => match key.find? (·.1 = v) with | some p => p.2 | none => 0
    pure (Json.mkObj [("order", toJson (canonOrder k G)), ("out", rxnOut (canonRxn k G (← Driver.getGraph j "H")))])
  | "rxn.its" => some do
    pure (Driver.graphToJson (itsOf (← Driver.getGraph j "G") (← Driver.getGraph j "H")))
  | "rxn.rc" => some do
    pure (Driver.graphToJson (rcOf (itsOf (← Driver.getGraph j "G") (← Driver.getGraph j "H"))))
  | "rxn.aamCheck" => some do
    let m := methodOf (← Driver.getStr j "method")
    pure (toJson (aamCheck m ((← Driver.getGraph j "G1"), (← Driver.getGraph j "H1"))
      ((← Driver.getGraph j "G2"), (← Driver.getGraph j "H2"))))
  | "rxn.balanced" => some do
    let G ← Driver.getGraph j "G"
    let H ← Driver.getGraph j "H"
    pure (Json.mkObj [("balanced", toJson (balanced G H)), ("left", formulaJson (formula G)), ("right", formulaJson (formula H))])
  | "rxn.autCount" => some do
    let G ← Driver.getGraph j "G"
    pure (toJson (auts molSel G).length)
  | "rxn.fullyMapped" => some do
    pure (toJson (decide (FullyMapped (← Driver.getGraph j "G") (← Driver.getGraph j "H"))))
  | "rxn.remap" => some do
    let H ← Driver.getGraph j "H"
    let res ← match j.getObjVal? "order" with
      | .ok o => do
        let order ← (fromJson? o : Except String (List Nat))
        pure (remapGraphList H order)
      | .error _ => do
        pure (remapGraph H (← natPairs j "pairs"))
    pure (match res with
      | .ok g => Json.mkObj [("graph", Driver.graphToJson g)]
      | .error e => Json.mkObj [("error", errName e)])
  | "rxn.standardize" => some do
    let l ← Driver.getStrList j "left"
    let r ← Driver.getStrList j "right"
    let out := standardize (M := String) id (fun s => s.replace "[HH]" "[H][H]") (l, r)
    pure (Json.mkObj [("left", Driver.strList out.1), ("right", Driver.strList out.2)])
  | _ => none

end Driver.RxnNorm

import Driver.GraphJson
import Driver.Match
import SynKitModel.SubgraphSearch
/-! Driver commands for C06 (`SubgraphSearchEngine.find_subgraph_mappings`). -/
open Lean SynKit SynKit.Match SynKit.SubgraphSearch
namespace Driver.SubgraphSearch

def optNat (j : Json) (k : String) : Except String (Option Nat) :=
  match j.getObjVal? k with
  | .ok .null => pure none
  | .ok v => (fromJson? v : Except String Nat).map some
  | .error _ => pure none

def cfgOfJson (j : Json) : Except String Cfg := do
  let s ← Driver.getStr j "strategy"
  let strategy ← match s with
    | "all" => pure Strategy.all
    | "comp" => pure Strategy.comp
    | "bt" => pure Strategy.bt
    | _ => throw s!"strategy {s}"
  let maxRes := (← optNat j "max_results").getD 0
  let strict := (Driver.getBool j "strict").toOption.getD true
  let threshold ← optNat j "threshold"
  let preFilter := (Driver.getBool j "pre_filter").toOption.getD false
  pure { strategy, maxRes, strict, threshold, preFilter }

/-- Does `m` send different pattern components into different host components? -/
def distinctComponents (H P : LGraph) (m : Mapping) : Bool :=
  m.all fun ph => m.all fun qg =>
    GraphAlg.sameComp P.ids (endpoints P) ph.1 qg.1 || !(GraphAlg.sameComp H.ids (endpoints H) ph.2 qg.2)

/-- Commands
* `c06.search {host, pattern, node_keys, edge_keys, cfgs: [{strategy, max_results, strict, threshold, pre_filter}…]}`
  → `{runs: [{result, n, unlimited, prefilter}…], hcc, pcc, total}`: the model's answer under the configuration, the
  answer of the same strategy (same `strict`) without `max_results`/`threshold`/`pre_filter`, component
  counts and the number of monomorphisms.
* `c06.spec {host, pattern, node_keys, edge_keys, maps}` → per mapping `[isMono, distinctComponents]`
  (`isMono` decided by membership in `allMonos`, theorem `mem_allMonos`).
* `c06.components {graph}` → list of components. -/
def handle : Driver.Handler := fun cmd j =>
  match cmd with
  | "c06.search" => some do
    let sel ← Driver.Match.selOfJson j
    let sel := { sel with hcountRule := true }
    let H ← Driver.getGraph j "host"
    let P ← Driver.getGraph j "pattern"
    let total := (allMonos sel H P).length
    let cfgs ← (← Driver.getArr j "cfgs").toList.mapM cfgOfJson
    let outs := cfgs.map fun cfg =>
      let res := search cfg sel H P
      -- the unlimited result the limited one has to be drawn from: same strategy; for `bt` the branch
      -- (comp or fallback) that the limited run takes, as coded
      let big : Cfg := { cfg with maxRes := 0, threshold := some 1000000000, preFilter := false }
      let unl := match cfg.strategy with
        | .bt => if (findComp sel H P cfg.maxRes cfg.strict cfg.thr).isEmpty
                 then search { big with strategy := .all } sel H P
                 else search { big with strategy := .comp } sel H P
        | _ => search big sel H P
      let unlSame := search big sel H P
      Json.mkObj [("result", Driver.mappingsToJson res), ("n", toJson res.length),
        ("unlimited", Driver.mappingsToJson unl),
        ("bt_switch", toJson (decide (unl ≠ unlSame))),
        ("prefilter", toJson (quickPreFilter sel H P cfg.thr))]
    -- the *specification* of the component-aware strategy (non-strict, unlimited), evaluated by brute force:
    -- every monomorphism when the host has fewer components, else those separating the pattern components
    let compSpec :=
      if (comps P).length = 0 then [[]]
      else if (comps H).length < (comps P).length then allMonos sel H P
      else (allMonos sel H P).filter (distinctComponents H P)
    let compModel := findComp sel H P 0 false 1000000000
    pure (Json.mkObj [("runs", Json.arr outs.toArray),
      ("comp_model_eq_spec", toJson (Driver.mappingsToJson compModel == Driver.mappingsToJson compSpec)),
      ("hcc", toJson (comps H).length), ("pcc", toJson (comps P).length), ("total", toJson total)])
  | "c06.spec" => some do
    let sel ← Driver.Match.selOfJson j
    let sel := { sel with hcountRule := true }
    let H ← Driver.getGraph j "host"
    let P ← Driver.getGraph j "pattern"
    let maps ← (← Driver.getArr j "maps").toList.mapM Driver.mappingOfJson
    let all := allMonos sel H P
    let norm (m : Mapping) : Mapping := normalize P m
    pure (Json.arr (maps.map fun m =>
      Json.arr #[toJson (decide (norm m ∈ all) && m.length == P.nodes.length), toJson (distinctComponents H P m)]).toArray)
  | "c06.components" => some do
    let G ← Driver.getGraph j "graph"
    pure (toJson (comps G))
  | _ => none

end Driver.SubgraphSearch

import Driver.Util
import SynKitModel.Stoich
/-!
Driver commands for C17.

* `stoich.check`  — network + exact certificates → model `build_S` output, agreement with the
  store's incidence matrix, and the verdict of every certificate checker.
* `stoich.logic`  — abstract observations of the numeric oracles → verdicts of the modelled
  decision logic (`is_conservative`, `compute_conservativity`, `is_consistent`).

Rationals travel as `[num, den]` integer pairs; floats never cross.
-/
open Lean SynKit SynKit.Store SynKit.Stoich
namespace Driver.Stoich

def parseSide (j : Json) : Except String Side := do
  let arr ← (fromJson? j : Except String (Array Json))
  arr.toList.mapM fun kv => do
    let pr ← (fromJson? kv : Except String (Array Json))
    if pr.size ≠ 2 then throw "side entry"
    let k ← (fromJson? pr[0]! : Except String String)
    let v ← (fromJson? pr[1]! : Except String Nat)
    pure (k, v)

def parseEdge (j : Json) : Except String Edge := do
  pure ⟨← Driver.getStr j "id", ← Driver.getStr j "rule",
        ← parseSide (← j.getObjVal? "r"), ← parseSide (← j.getObjVal? "p")⟩

def parseNet (j : Json) : Except String Net := do
  let sp ← (← Driver.getArr j "species").toList.mapM fun s => (fromJson? s : Except String String)
  let es ← (← Driver.getArr j "edges").toList.mapM parseEdge
  pure ⟨sp, es⟩

def parseRat (j : Json) : Except String Rat := do
  let pr ← (fromJson? j : Except String (Array Json))
  if pr.size ≠ 2 then throw "rational must be [num, den]"
  let n ← (fromJson? pr[0]! : Except String Int)
  let d ← (fromJson? pr[1]! : Except String Nat)
  if d = 0 then throw "zero denominator"
  pure (mkRat n d)

def parseVec (j : Json) : Except String QVec := do
  (← (fromJson? j : Except String (Array Json))).toList.mapM parseRat

def parseMat (j : Json) : Except String QMat := do
  (← (fromJson? j : Except String (Array Json))).toList.mapM parseVec

def getVec (j : Json) (k : String) : Except String QVec := do parseVec (← j.getObjVal? k)
def getMat (j : Json) (k : String) : Except String QMat := do parseMat (← j.getObjVal? k)

def imatJson (S : IMat) : Json := Json.arr (S.map fun row => Json.arr (row.map fun (x : Int) => toJson x).toArray).toArray

def triJson : Tri → Json
  | some b => Json.bool b
  | none => Json.null

def witJson : Wit → Json
  | .none => "none"
  | .column _ => "column"
  | .lp => "lp"

def parseLPObs (s : String) : Except String LPObs :=
  match s with
  | "optimalStrict" => pure .optimalStrict
  | "optimalNotStrict" => pure .optimalNotStrict
  | "infeasible" => pure .infeasible
  | "unbounded" => pure .unbounded
  | "failed" => pure .failed
  | _ => throw s!"bad lp observation {s}"

def parseLPObsC (j : Json) : Except String LPObsC := do
  match ← Driver.getStr j "kind" with
  | "optimal" => pure (.optimal (← Driver.getBool j "residualOk") (← Driver.getBool j "vPos"))
  | "infeasible" => pure .infeasible
  | "other" => pure .other
  | s => throw s!"bad lp observation {s}"

def parseScan (j : Json) (k : String) : Except String (Nat → Bool) := do
  let bs ← (← Driver.getArr j k).toList.mapM fun b => (fromJson? b : Except String Bool)
  pure fun i => bs.getD i false

/-- Certificate for the existence / non-existence of a strictly positive kernel vector. -/
def checkSign (j : Json) (pos alt : QVec → Bool) : Except String Json := do
  let v ← getVec j "vec"
  match ← Driver.getStr j "kind" with
  | "pos" => pure (Json.mkObj [("kind", "pos"), ("ok", pos v)])
  | "alt" => pure (Json.mkObj [("kind", "alt"), ("ok", alt v)])
  | s => throw s!"bad certificate kind {s}"

def handle : Driver.Handler := fun cmd j =>
  match cmd with
  | "stoich.check" => some do
    let N ← parseNet j
    match buildS N with
    | .error .valueError => pure (Json.mkObj [("error", "ValueError")])
    | .ok res =>
      let m := res.species.length
      let n := res.rules.length
      let S := entI res.S
      -- the store's incidence matrix, columns re-arranged from the view order into the column
      -- order of `build_S` through the reaction ids
      let ids := (rxnOrder N).map (·.id)
      let incById : List (List Int) := (speciesOrder N).map fun s =>
        (rxnOrder N).map fun e => (incidenceEdge e).getD s 0
      let mut out : List (String × Json) := [
        ("species", Driver.strList res.species), ("rules", Driver.strList res.rules),
        ("ids", Driver.strList ids), ("viewIds", Driver.strList ((viewOrder N).map (·.id))),
        ("S", imatJson res.S), ("incidence", imatJson (incidenceMat N)),
        ("incidenceAgrees", Json.bool (decide (incById = res.S)))]
      if let .ok rc := j.getObjVal? "rank" then
        let cols ← (← Driver.getArr rc "cols").toList.mapM fun c => (fromJson? c : Except String Nat)
        let cert : RankCert := ⟨cols, ← getMat rc "L", ← getMat rc "C"⟩
        out := out ++ [("rankOk", Json.bool (checkRank m n S cert)), ("r", toJson cols.length)]
      if let .ok kc := j.getObjVal? "rker" then
        let B ← getMat kc "B"
        out := out ++ [("rkerOk", Json.bool (checkKernelBasis m n S (← Driver.getNat kc "r") B (← getMat kc "L")))]
      if let .ok kc := j.getObjVal? "lker" then
        let B ← getMat kc "B"
        out := out ++ [("lkerOk", Json.bool (checkKernelBasis n m (entT S) (← Driver.getNat kc "r") B (← getMat kc "L")))]
      if let .ok c := j.getObjVal? "cons" then
        out := out ++ [("cons", ← checkSign c (checkPositiveLeftKernel m n S) (checkNotConservative m n S))]
      if let .ok c := j.getObjVal? "consi" then
        out := out ++ [("consi", ← checkSign c (checkPositiveRightKernel m n S) (checkNotConsistent m n S))]
      pure (Json.mkObj out)
  | "stoich.logic" => some do
    let nS ← Driver.getNat j "nSpecies"
    let nR ← Driver.getNat j "nReactions"
    let scipy ← Driver.getBool j "scipy"
    let lk ← Driver.getNat j "lk"
    let lscan ← parseScan j "lscan"
    let lp ← parseLPObs (← Driver.getStr j "lp")
    let rk ← Driver.getNat j "rk"
    let rscan ← parseScan j "rscan"
    let clp ← parseLPObsC (← j.getObjVal? "clp")
    let cc := computeConservativityAbs nS nR (lk == 0) lk lscan scipy lp
    pure (Json.mkObj [
      ("is_conservative", triJson (isConservativeAbs nR (lk == 0) lk lscan scipy lp)),
      ("compute_flag", triJson cc.1), ("compute_witness", witJson cc.2),
      ("lp_attempted", Json.bool (posLawAbs (lk == 0) lk lscan true scipy lp).2),
      ("is_consistent", triJson (isConsistentAbs nS nR scipy clp (rk == 0) rk rscan))])
  | _ => none

end Driver.Stoich

import Driver.Util
import SynKitModel.Graph
/-! JSON codec for `Val`, `Attrs`, `LGraph`, and mappings.

Val:   null | {"n": <int half-units>} | {"s": "..."} | {"b": true} | {"t": [Val…]}
Attrs: {"key": Val, …}   (object; key order is the dict order)
Graph: {"nodes": [[id, Attrs], …], "edges": [[u, v, Attrs], …]}
Mapping (pattern node ↦ host node): [[p, h], …]
-/
open Lean SynKit
namespace Driver

partial def valOfJson (j : Json) : Except String Val :=
  match j with
  | .null => pure Val.none
  | .obj _ =>
    match j.getObjVal? "n", j.getObjVal? "s", j.getObjVal? "b", j.getObjVal? "t" with
    | .ok v, _, _, _ => (fromJson? v : Except String Int).map Val.num
    | _, .ok v, _, _ => (fromJson? v : Except String String).map Val.str
    | _, _, .ok v, _ => (fromJson? v : Except String Bool).map Val.bool
    | _, _, _, .ok v => do
      let arr ← (fromJson? v : Except String (Array Json))
      let xs ← arr.toList.mapM valOfJson
      pure (Val.tup xs)
    | _, _, _, _ => throw "bad Val object"
  | _ => throw "bad Val"

partial def valToJson : Val → Json
  | .none => Json.null
  | .num h => Json.mkObj [("n", toJson h)]
  | .str s => Json.mkObj [("s", s)]
  | .bool b => Json.mkObj [("b", b)]
  | .tup xs => Json.mkObj [("t", Json.arr (xs.map valToJson).toArray)]

def attrsOfJson (j : Json) : Except String Attrs := do
  let o ← j.getObj?
  -- Lean's Json objects are ordered maps sorted by key; attribute order never matters to the model
  o.toList.mapM fun (k, v) => do pure (k, ← valOfJson v)

def attrsToJson (a : Attrs) : Json := Json.mkObj (a.map fun (k, v) => (k, valToJson v))

def graphOfJson (j : Json) : Except String LGraph := do
  let ns ← getArr j "nodes"
  let es ← getArr j "edges"
  let nodes ← ns.toList.mapM fun n => do
    let a ← (fromJson? n : Except String (Array Json))
    if a.size ≠ 2 then throw "node record"
    pure ((← (fromJson? a[0]! : Except String Nat)), (← attrsOfJson a[1]!))
  let edges ← es.toList.mapM fun e => do
    let a ← (fromJson? e : Except String (Array Json))
    if a.size ≠ 3 then throw "edge record"
    pure ((← (fromJson? a[0]! : Except String Nat)), (← (fromJson? a[1]! : Except String Nat)), (← attrsOfJson a[2]!))
  pure { nodes, edges }

def graphToJson (g : LGraph) : Json :=
  Json.mkObj [
    ("nodes", Json.arr (g.nodes.map fun (i, a) => Json.arr #[toJson i, attrsToJson a]).toArray),
    ("edges", Json.arr (g.edges.map fun (u, v, a) => Json.arr #[toJson u, toJson v, attrsToJson a]).toArray)]

def getGraph (j : Json) (k : String) : Except String LGraph := do graphOfJson (← j.getObjVal? k)

abbrev Mapping := List (Nat × Nat)

def mappingOfJson (j : Json) : Except String Mapping := do
  let arr ← (fromJson? j : Except String (Array Json))
  arr.toList.mapM fun p => do
    let a ← (fromJson? p : Except String (Array Nat))
    if a.size ≠ 2 then throw "mapping pair"
    pure (a[0]!, a[1]!)

/-- A mapping sorted by pattern node. -/
def mappingToJson (m : Mapping) : Json :=
  Json.arr ((m.toArray.qsort fun a b => a.1 < b.1).map fun (p, h) => Json.arr #[toJson p, toJson h])

def lexLt : List (Nat × Nat) → List (Nat × Nat) → Bool
  | [], [] => false
  | [], _ => true
  | _, [] => false
  | a :: as, b :: bs => if a.1 < b.1 then true else if b.1 < a.1 then false
      else if a.2 < b.2 then true else if b.2 < a.2 then false else lexLt as bs

/-- A *set* of mappings: each sorted by pattern node, the list sorted lexicographically. -/
def mappingsToJson (ms : List Mapping) : Json :=
  let norm := ms.map fun m => (m.toArray.qsort fun a b => a.1 < b.1).toList
  Json.arr ((norm.toArray.qsort lexLt).map fun m => Json.arr (m.map fun (p, h) => Json.arr #[toJson p, toJson h]).toArray)

def getStrList (j : Json) (k : String) : Except String (List String) := do
  let arr ← getArr j k
  arr.toList.mapM fun x => (fromJson? x : Except String String)

end Driver

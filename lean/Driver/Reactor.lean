import Driver.GraphJson
import SynKitModel.Reactor
import SynKitModel.ReactorConcrete
/-! Driver commands of the reactor model (C03; reused by C04/C05).

reactor.glue        {host, tpl, m}            → glued ITS (implicit path)
reactor.explicit_h  {its}                     → ITS | null (StopIteration)
reactor.explicit_h_unit {its}                 → {g: ITS | null, determined: bool (every pair component balanced)}
reactor.invert      {tpl}                     → inverted template
reactor.decompose   {its}                     → {left, right}
reactor.h_to_implicit {g} / reactor.h_to_explicit {g, nodes} → graph; reactor.has_xh {g} → bool
reactor.spec        {host, its, tpl, invert}  → {a, imb:[dh,dq,el], timb:[dh,dq,el], c, nchg, tnchg}
reactor.norm_h      {g}                       → normH g
reactor.explicit_host {host, nodes}           → host with typesGH defaults and the hydrogens of `nodes` explicit
reactor.hyps        {host, rc, m}             → {wf_host, wf_tpl, is_mono, round_exact, clash}: the hypotheses of the C03 theorems
reactor.results     {host, template, invert: bool, strategy: "all"|"comp"|"bt", strict?: bool (true), max_group?: nat (5040),
                     threshold?: nat (5000)}
                    → {raw: [mapping…] (a set: sorted), kept: [mapping…] (in the model's order), its: [graph…] (one per kept
                       mapping, in order), wf_host, wf_tpl: bool}
                    the COMPOSED reactor of `SynKitModel/ReactorConcrete.lean` (implicit path), i.e. the term
                    `concrete max_group (compSearch strict threshold)` that `C05.statement_concrete` is about:
                    raw = `search s host (pattern invert template)`, kept = `Reactor.kept`, its = `Reactor.results`
                    (nothing is rendered when host or oriented template is not well formed: wf_host / wf_tpl).
Graphs come back with nodes sorted by id and edges sorted by (min, max) endpoint.
-/
open Lean SynKit SynKit.Reactor
namespace Driver.Reactor

def sortGraph (g : LGraph) : LGraph :=
  { nodes := (g.nodes.toArray.qsort fun a b => a.1 < b.1).toList
    edges := ((g.edges.map fun e => if e.1 ≤ e.2.1 then e else (e.2.1, e.1, e.2.2)).toArray.qsort
      fun a b => a.1 < b.1 || (a.1 == b.1 && a.2.1 < b.2.1)).toList }

def gj (g : LGraph) : Json := Driver.graphToJson (sortGraph g)

def imbJson (x : Int × Int × Bool) : Json := Json.arr #[toJson x.1, toJson x.2.1, toJson x.2.2]

def handle : Driver.Handler := fun cmd j =>
  match cmd with
  | "reactor.glue" => some do
    let m ← Driver.mappingOfJson (← j.getObjVal? "m")
    pure (gj (glue (← Driver.getGraph j "host") (← Driver.getGraph j "tpl") m))
  | "reactor.explicit_h" => some do
    match explicitH (← Driver.getGraph j "its") with
    | some g => pure (gj g)
    | none => pure Json.null
  | "reactor.explicit_h_unit" => some do
    let i ← Driver.getGraph j "its"
    pure (Json.mkObj [("g", match explicitH i with | some g => gj g | none => Json.null),
                      ("determined", toJson (componentsBalanced i))])
  | "reactor.invert" => some do pure (gj (invert (← Driver.getGraph j "tpl")))
  | "reactor.decompose" => some do
    let i ← Driver.getGraph j "its"
    pure (Json.mkObj [("left", gj (left i)), ("right", gj (right i))])
  | "reactor.h_to_implicit" => some do pure (gj (hToImplicit (← Driver.getGraph j "g")))
  | "reactor.h_to_explicit" => some do
    let ns ← (← Driver.getArr j "nodes").toList.mapM fun x => (fromJson? x : Except String Nat)
    pure (gj (hToExplicit (← Driver.getGraph j "g") ns))
  | "reactor.has_xh" => some do pure (toJson (hasXH (← Driver.getGraph j "g")))
  | "reactor.norm_h" => some do pure (gj (normH (← Driver.getGraph j "g")))
  | "reactor.explicit_host" => some do
    let ns ← (← Driver.getArr j "nodes").toList.mapM fun x => (fromJson? x : Except String Nat)
    pure (gj (explicitHost (← Driver.getGraph j "host") ns))
  | "reactor.hyps" => some do
    let host ← Driver.getGraph j "host"
    let rc ← Driver.getGraph j "rc"
    let m ← Driver.mappingOfJson (← j.getObjVal? "m")
    let clash := rc.edges.any fun te => ordAt te.2.2 0 = Val.num 0 && host.edges.any fun e => landsOn m te e.1 e.2.1
    pure (Json.mkObj [
      ("wf_host", toJson (decide (WFHost host))),
      ("wf_tpl", toJson (decide (WFTemplate rc))),
      ("is_mono", toJson (isMonoB monoSel host (left rc) m)),
      ("round_exact", toJson (decide (RoundExact host rc m))),
      ("clash", toJson clash)])
  | "reactor.results" => some do
    let host ← Driver.getGraph j "host"
    let T ← Driver.getGraph j "template"
    let inv := (Driver.getBool j "invert").toOption.getD false
    let strict := (Driver.getBool j "strict").toOption.getD true
    let mg := (Driver.getNat j "max_group").toOption.getD 5040
    let thr := (Driver.getNat j "threshold").toOption.getD SynKit.SubgraphSearch.DEFAULT_THRESHOLD
    let s ← match (← Driver.getStr j "strategy") with
      | "all" => pure SynKit.ReactorInv.Strategy.all
      | "comp" => pure SynKit.ReactorInv.Strategy.comp
      | "bt" => pure SynKit.ReactorInv.Strategy.bt
      | x => throw s!"reactor.results: unknown strategy {x}"
    let X := SynKit.ReactorInv.theReactor mg strict thr
    pure (Json.mkObj [
      ("raw", Driver.mappingsToJson (X.search s host (X.pattern inv T))),
      ("kept", Json.arr ((X.kept s inv host T).map Driver.mappingToJson).toArray),
      ("its", Json.arr ((X.results s inv host T).map gj).toArray),
      ("wf_host", toJson (decide (WFHost host))),
      ("wf_tpl", toJson (decide (WFTemplate (SynKit.ReactorLink.orient inv T))))])
  | "reactor.spec" => some do
    let host ← Driver.getGraph j "host"
    let its ← Driver.getGraph j "its"
    let tpl ← Driver.getGraph j "tpl"
    let inv := (Driver.getBool j "invert").toOption.getD false
    let T := if inv then invert tpl else tpl
    pure (Json.mkObj [
      ("a", toJson (specA host its)),
      ("imb", imbJson (imbalance its)),
      ("timb", imbJson (imbalance T)),
      ("c", toJson (specC its T)),
      ("nchg", toJson (labelledChanges its).edges.length),
      ("tnchg", toJson (labelledChanges T).edges.length)])
  | _ => none

end Driver.Reactor

import Driver.Util
import SynKitModel.Store
open Lean SynKit SynKit.Store
namespace Driver.Store

/-- A side input: an array whose entries are `[species, count]` (an entry of a mapping, or a
2-tuple of an iterable) or a bare string (a label of an iterable). -/
def parseItems (j : Json) : Except String (List SideItem) := do
  let arr ← (fromJson? j : Except String (Array Json))
  arr.toList.mapM fun kv =>
    match kv with
    | .str s => pure (.label s)
    | _ => do
      let pr ← (fromJson? kv : Except String (Array Json))
      if pr.size ≠ 2 then throw "side entry"
      let k ← (fromJson? pr[0]! : Except String String)
      let v ← (fromJson? pr[1]! : Except String Int)
      pure (.pair k v)

def parseSide (j : Json) : Except String (List (String × Int)) := do
  pure (rawOfItems (← parseItems j))

def parseFEdge (j : Json) : Except String FEdge := do
  let rule ← match ← Driver.getOptStr j "rule" with
    | some r => pure r
    | none => pure "r"                       -- `getattr(e, "rule", "r")` on an edge without `rule`
  pure ⟨← Driver.getOptStr j "id", rule, ← parseItems (← j.getObjVal? "r"), ← parseItems (← j.getObjVal? "p")⟩

def optStr (j : Json) : Except String (Option String) :=
  match j with
  | .null => .ok none
  | v => (fromJson? v : Except String String).map some

def parseOp (j : Json) : Except String Op := do
  let op ← Driver.getStr j "op"
  match op with
  | "add" => do
    let r ← parseSide (← j.getObjVal? "r")
    let p ← parseSide (← j.getObjVal? "p")
    pure (.add (← Driver.getNat j "k") r p (← Driver.getOptStr j "rule") (← Driver.getOptStr j "eid"))
  | "remove" => pure (.remove (← Driver.getNat j "k") (← Driver.getStr j "id"))
  | "removeSpecies" => pure (.removeSpecies (← Driver.getNat j "k") (← Driver.getStr j "sp") (← Driver.getBool j "prune"))
  | "merge" => pure (.merge (← Driver.getNat j "k") (← Driver.getNat j "j") (← Driver.getBool j "pfx"))
  | "mergeEdges" => do
    let other ← match j.getObjVal? "edges" with
      | .ok .null => pure none
      | .ok v => do
        let arr ← (fromJson? v : Except String (Array Json))
        pure (some (← arr.toList.mapM parseFEdge))
      | .error _ => pure none
    pure (.mergeEdges (← Driver.getNat j "k") other (← Driver.getBool j "pfx"))
  | "copy" => pure (.copy (← Driver.getNat j "k") (← Driver.getNat j "j"))
  | "assignMol" => pure (.assignMol (← Driver.getNat j "k") (← Driver.getStr j "sp") (← Driver.getStr j "m"))
  | "setMolMap" => do
    let arr ← Driver.getArr j "mapping"
    let mapping ← arr.toList.mapM fun kv => do
      let pr ← (fromJson? kv : Except String (Array String))
      if pr.size ≠ 2 then throw "mapping entry"
      pure (pr[0]!, pr[1]!)
    pure (.setMolMap (← Driver.getNat j "k") mapping (← Driver.getBool j "strict") (← Driver.getBool j "clear"))
  | "addFromStr" =>
    pure (.addFromStr (← Driver.getNat j "k") (← Driver.getStr j "reaction").toList
      (← Driver.getOptStr j "rule") (← Driver.getBool j "suffix"))
  | "parseRxns" => do
    let arr ← Driver.getArr j "items"
    let items ← arr.toList.mapM fun it => do
      let pr ← (fromJson? it : Except String (Array Json))
      if pr.size ≠ 2 then throw "parseRxns item"
      let line ← (fromJson? pr[0]! : Except String String)
      let rule ← optStr pr[1]!
      pure (line.toList, rule)
    pure (.parseRxns (← Driver.getNat j "k") items (← Driver.getStr j "default_rule")
      (← Driver.getBool j "suffix") (← Driver.getBool j "prefer_suffix"))
  | "parseRxnsRules" => do
    let lines ← (← Driver.getArr j "lines").toList.mapM fun l =>
      (fromJson? l : Except String String).map String.toList
    let rules ← (← Driver.getArr j "rules").toList.mapM optStr
    pure (.parseRxnsRules (← Driver.getNat j "k") lines rules (← Driver.getStr j "default_rule")
      (← Driver.getBool j "suffix") (← Driver.getBool j "prefer_suffix"))
  | _ => throw s!"unknown op {op}"

def sideJson (s : Side) : Json :=
  Json.arr ((s.toArray.qsort (fun a b => a.1 < b.1)).map fun kv => Json.arr #[Json.str kv.1, toJson kv.2])

def idxJson (idx : Dict (List String)) : Json :=
  let nonEmpty := idx.filter (fun kv => !kv.2.isEmpty)
  Json.arr ((nonEmpty.toArray.qsort (fun a b => a.1 < b.1)).map fun kv =>
    Json.arr #[Json.str kv.1, Driver.strList (Driver.sortedStrs kv.2)])

def incJson (s : Store) : Json :=
  let entries : List (String × String × Int) :=
    s.edges.flatMap fun e => (incidenceEdge e).map fun kv => (kv.1, e.id, kv.2)
  let arr := entries.toArray.qsort (fun a b => a.1 < b.1 || (a.1 == b.1 && a.2.1 < b.2.1))
  Json.arr (arr.map fun t => Json.arr #[Json.str t.1, Json.str t.2.1, toJson t.2.2])

def storeJson (s : Store) : Json :=
  Json.mkObj [
    ("species", Driver.strList (Driver.sortedStrs s.species)),
    ("edges", Json.arr ((s.edges.toArray.qsort (fun a b => a.id < b.id)).map fun e =>
        Json.mkObj [("id", e.id), ("rule", e.rule), ("r", sideJson e.reactants), ("p", sideJson e.products)])),
    ("in", idxJson s.inIdx), ("out", idxJson s.outIdx),
    ("mol", Json.arr ((s.mol.toArray.qsort (fun a b => a.1 < b.1)).map fun kv => Json.arr #[Json.str kv.1, Json.str kv.2])),
    ("kept", Driver.strList (Driver.sortedStrs s.kept)),
    ("inc", incJson s)]

def outJson : Out → Json
  | .ok => "ok"
  | .okId i => Json.mkObj [("id", i)]
  | .err .keyError => "KeyError"
  | .err .valueError => "ValueError"
  | .err .indexError => "IndexError"
  | .err .typeError => "TypeError"
  | .badOp => "badOp"

def handle : Driver.Handler := fun cmd j =>
  match cmd with
  | "store.run" => some do
    let n ← Driver.getNat j "n"
    let ops ← (← Driver.getArr j "ops").toList.mapM parseOp
    let (_, outs) := ops.foldl (fun (acc : World × List Json) op =>
      let (w', o) := step acc.1 op
      (w', acc.2 ++ [Json.mkObj [("out", outJson o), ("world", Json.arr (w'.map storeJson).toArray)]])) (initWorld n, [])
    pure (Json.mkObj [("steps", Json.arr outs.toArray)])
  | _ => none

end Driver.Store

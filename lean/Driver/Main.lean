import Driver.Util
import Driver.Store
import Driver.Match
import Driver.ITS
import Driver.SubgraphSearch
import Driver.GraphMatcherEngine
import Driver.Petri
import Driver.Deficiency
import Driver.Views
import Driver.Canon
import Driver.Automorphism
import Driver.Mcs
import Driver.Cluster
import Driver.Stoich
import Driver.BatchCache
import Driver.Repr
import Driver.RxnNorm
import Driver.CrnCanon
import Driver.ReactorInv
import Driver.Reactor
import Driver.BipGraph
open Lean

/-- All command handlers; the first one that knows the command answers. -/
def handlers : List Driver.Handler := [Driver.Store.handle, Driver.Match.handle, Driver.ITS.handle, Driver.SubgraphSearch.handle, Driver.GME.handle, Driver.Petri.handle, Driver.Deficiency.handle, Driver.Views.handle, Driver.Canon.handle, Driver.Automorphism.handle, Driver.Mcs.handle, Driver.Cluster.handle, Driver.Stoich.handle, Driver.BatchCache.handle, Driver.Repr.handle, Driver.RxnNorm.handle, Driver.CrnCanon.handle, Driver.ReactorInv.handle, Driver.Reactor.handle, Driver.BipGraph.handle]

def dispatch (line : String) : Json :=
  match Json.parse line with
  | .error e => Json.mkObj [("err", s!"parse: {e}")]
  | .ok j =>
    match j.getObjValAs? String "cmd" with
    | .error e => Json.mkObj [("err", e)]
    | .ok cmd =>
      match handlers.findSome? (fun h => h cmd j) with
      | none => Json.mkObj [("err", s!"unknown cmd {cmd}")]
      | some (.error e) => Json.mkObj [("err", e)]
      | some (.ok r) => Json.mkObj [("ok", r)]

partial def loop (h : IO.FS.Stream) (out : IO.FS.Stream) : IO Unit := do
  let line ← h.getLine
  if line.isEmpty then return ()
  if line.trimAscii.isEmpty then loop h out else
  out.putStrLn (dispatch line).compress
  loop h out

def main : IO Unit := do loop (← IO.getStdin) (← IO.getStdout)

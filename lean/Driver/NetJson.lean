import Driver.Util
import SynKitModel.Net
/-! JSON codec for reaction networks (shared by the CRN handlers).

`{"species": ["A", …], "reactions": [{"id": "r_1", "rule": "r", "r": [["A", 1]], "p": [["B", 2]]}, …]}`;
lists are taken in the order given (the Python encoder `harness/netio.py` orders them the way the
analysed code does). -/
open Lean SynKit
namespace Driver.NetJson

def parsePairs {α : Type} [FromJson α] (j : Json) : Except String (List (String × α)) := do
  let arr ← (fromJson? j : Except String (Array Json))
  arr.toList.mapM fun kv => do
    let pr ← (fromJson? kv : Except String (Array Json))
    if pr.size ≠ 2 then throw "pair expected"
    let k ← (fromJson? pr[0]! : Except String String)
    let v ← (fromJson? pr[1]! : Except String α)
    pure (k, v)

def parseRxn (j : Json) : Except String Rxn := do
  let id ← Driver.getStr j "id"
  let rule := ((Driver.getOptStr j "rule").toOption.join).getD "r"
  let r ← parsePairs (α := Nat) (← j.getObjVal? "r")
  let p ← parsePairs (α := Nat) (← j.getObjVal? "p")
  pure { id := id, rule := rule, reactants := r, products := p }

def getStrs (j : Json) (k : String) : Except String (List String) := do
  let arr ← Driver.getArr j k
  arr.toList.mapM fun x => (fromJson? x : Except String String)

def parseNet (j : Json) : Except String Net := do
  let sp ← getStrs j "species"
  let rs ← (← Driver.getArr j "reactions").toList.mapM parseRxn
  pure { species := sp, reactions := rs }

def getNet (j : Json) (k : String) : Except String Net := do parseNet (← j.getObjVal? k)

def getOptNat (j : Json) (k : String) : Except String (Option Nat) :=
  match j.getObjVal? k with
  | .ok .null => .ok none
  | .ok v => (fromJson? v : Except String Nat).map some
  | .error _ => .ok none

/-- Lexicographic order on lists (for canonical output of families of sets). -/
def lexLt {α : Type} (lt : α → α → Bool) : List α → List α → Bool
  | [], [] => false
  | [], _ :: _ => true
  | _ :: _, [] => false
  | a :: as, b :: bs => lt a b || (!lt b a && lexLt lt as bs)

def sortStrLists (xs : List (List String)) : List (List String) :=
  ((xs.map Driver.sortedStrs).toArray.qsort (lexLt (· < ·))).toList

def sortNats (xs : List Nat) : List Nat := (xs.toArray.qsort (· < ·)).toList

def sortNatLists (xs : List (List Nat)) : List (List Nat) :=
  ((xs.map sortNats).toArray.qsort (lexLt (· < ·))).toList

def strListsJson (xs : List (List String)) : Json := Json.arr (xs.map Driver.strList).toArray
def natListJson (xs : List Nat) : Json := Json.arr (xs.map fun n => toJson n).toArray
def natListsJson (xs : List (List Nat)) : Json := Json.arr (xs.map natListJson).toArray
def intListJson (xs : List Int) : Json := Json.arr (xs.map fun n => toJson n).toArray

end Driver.NetJson

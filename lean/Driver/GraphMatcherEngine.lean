import Driver.GraphJson
import Driver.Match
import SynKitModel.GraphMatcherEngine
import SynKitModel.FindIso
/-! Driver commands for C07 (`GraphMatcherEngine`, `subgraph_isomorphism`, `graph_isomorphism`). -/
open Lean SynKit SynKit.Match SynKit.GME
namespace Driver.GME

def optNat (j : Json) (k : String) : Except String (Option Nat) :=
  match j.getObjVal? k with
  | .ok .null => pure none
  | .ok v => (fromJson? v : Except String Nat).map some
  | .error _ => pure none

def engineOfJson (j : Json) : Except String Engine := do
  pure { nodeAttrs := ← Driver.getStrList j "node_attrs", edgeAttrs := ← Driver.getStrList j "edge_attrs",
         wl1Filter := (Driver.getBool j "wl1_filter").toOption.getD false,
         maxMappings := ← optNat j "max_mappings" }

def queryOfJson (j : Json) : Except String Query := do
  let e ← engineOfJson (← j.getObjVal? "engine")
  let a ← Driver.getNat j "a"
  let b ← Driver.getNat j "b"
  match ← Driver.getStr j "op" with
  | "iso" => pure (.iso e a b)
  | "maps" => pure (.maps e a b)
  | s => throw s!"op {s}"

def answerToJson (heap : List LGraph) (q : Query) (a : Answer) : Json :=
  match a, q with
  | .verdict b, _ => Json.mkObj [("verdict", toJson b)]
  | .mappings ms, .maps e i j =>
    -- `all`: every induced embedding (the set the returned ones must be drawn from)
    Json.mkObj [("maps", Driver.mappingsToJson ms), ("n", toJson ms.length),
      ("all", Driver.mappingsToJson (allInduced e.sel (graphAt heap i) (graphAt heap j)))]
  | .mappings ms, _ => Json.mkObj [("maps", Driver.mappingsToJson ms), ("n", toJson ms.length)]

def subCfgOfJson (j : Json) : Except String SubCfg := do
  let names ← Driver.getStrList j "names"
  let defaults ← (← Driver.getArr j "defaults").toList.mapM Driver.valOfJson
  let edgeAttr ← Driver.getOptStr j "edge_attr"
  pure { names, defaults, edgeAttr := edgeAttr.bind fun s => if s.isEmpty then none else some s,
         useFilter := (Driver.getBool j "use_filter").toOption.getD false,
         induced := (Driver.getBool j "induced").toOption.getD true }


/-- How an entry point reads absent attributes before comparing: `"find"` = the defaults of
`find_graph_isomorphism(use_defaults=True)`; an object `{names, defaults, edge_key?, edge_default?}` =
`d.get(name, default)` for the node labels and, when `edge_key` is given, for that edge attribute; absent / null =
attributes compared as they are (`d.get(k)`). -/
def prepOfJson (j : Json) : Except String (LGraph → LGraph) :=
  match j.getObjVal? "prep" with
  | .error _ => pure id
  | .ok .null => pure id
  | .ok (.str "find") => pure (findPrep true)
  | .ok p => do
    let names ← Driver.getStrList p "names"
    let defaults ← (← Driver.getArr p "defaults").toList.mapM Driver.valOfJson
    let ek ← Driver.getOptStr p "edge_key"
    match ek with
    | none => pure (applyNodeDefaults names defaults)
    | some k => do
      let d ← Driver.valOfJson (← p.getObjVal? "edge_default")
      pure fun g => applyEdgeDefault k d (applyNodeDefaults names defaults g)

def optMapping : Option Mapping → Json
  | none => Json.null
  | some m => Driver.mappingToJson m

/-- Commands
* `c07.history {graphs: [G…], queries: [{op: "iso"|"maps", engine: {node_attrs, edge_attrs, wl1_filter, max_mappings}, a, b}…]}`
  → `{answers: […], pure: […]}` — the answers of the history run against one shared cache, and the cache-free answers;
* `c07.sub {child, parent, names, defaults, edge_attr, use_filter, induced}` → `{verdict, filter, core}`;
* `c07.giso {g1, g2, use_defaults}` → bool;
* `c07.findiso {g1, g2, use_defaults}` → `{on, off, fast}`: the mapping (or null) of `find_graph_isomorphism` with the quick
  invariants on / off, and the verdict of the quick invariants alone (runs the enumerating engine: small inputs only);
* `c07.certificate {host, pattern, node_keys, edge_keys, hcount?, prep?, mapping, mode: "iso"|"induced"|"mono"}` → bool:
  the search-free checkers `isIsoB` / `isInducedB` / `isMonoB` on a GIVEN pattern→host mapping (pairs in the pattern's
  node order);
* `c07.invariants {host, pattern, node_keys, edge_keys, hcount?, prep?}` → `{iso, contain, wf}`: `isoInvariants`,
  `containInvariants` (false ⇒ no isomorphism / no monomorphism exists) and well-formedness of both graphs. -/
def handle : Driver.Handler := fun cmd j =>
  match cmd with
  | "c07.history" => some do
    let heap ← (← Driver.getArr j "graphs").toList.mapM Driver.graphOfJson
    let qs ← (← Driver.getArr j "queries").toList.mapM queryOfJson
    let ans := run heap [] qs
    let pur := qs.map (pureAnswer heap)
    pure (Json.mkObj [("answers", Json.arr ((qs.zip ans).map fun qa => answerToJson heap qa.1 qa.2).toArray),
      ("pure", Json.arr ((qs.zip pur).map fun qa => answerToJson heap qa.1 qa.2).toArray)])
  | "c07.sub" => some do
    let c ← subCfgOfJson j
    let child ← Driver.getGraph j "child"
    let parent ← Driver.getGraph j "parent"
    pure (Json.mkObj [("verdict", toJson (subgraphIsomorphism c child parent)),
      ("filter", toJson (subFilter c child parent)), ("core", toJson (subCore c child parent))])
  | "c07.giso" => some do
    let g1 ← Driver.getGraph j "g1"
    let g2 ← Driver.getGraph j "g2"
    pure (toJson (graphIsomorphism ((Driver.getBool j "use_defaults").toOption.getD false) g1 g2))
  | "c07.findiso" => some do
    let g1 ← Driver.getGraph j "g1"
    let g2 ← Driver.getGraph j "g2"
    let d := (Driver.getBool j "use_defaults").toOption.getD true
    pure (Json.mkObj [("on", optMapping (findGraphIsomorphism d true g1 g2)),
      ("off", optMapping (findGraphIsomorphism d false g1 g2)), ("fast", toJson (fastInvariants g1 g2))])
  | "c07.certificate" => some do
    let sel ← Driver.Match.selOfJson j
    let prep ← prepOfJson j
    let H := prep (← Driver.getGraph j "host")
    let P := prep (← Driver.getGraph j "pattern")
    let m ← Driver.mappingOfJson (← j.getObjVal? "mapping")
    match ← Driver.getStr j "mode" with
    | "iso" => pure (toJson (isIsoB sel H P m))
    | "induced" => pure (toJson (isInducedB sel H P m))
    | "mono" => pure (toJson (isMonoB sel H P m))
    | s => throw s!"mode {s}"
  | "c07.invariants" => some do
    let sel ← Driver.Match.selOfJson j
    let prep ← prepOfJson j
    let H := prep (← Driver.getGraph j "host")
    let P := prep (← Driver.getGraph j "pattern")
    pure (Json.mkObj [("iso", toJson (isoInvariants sel H P)), ("contain", toJson (containInvariants sel H P)),
      ("wf", toJson (decide H.WF && decide P.WF))])
  | _ => none

end Driver.GME

import Driver.GraphJson
import Driver.Match
import SynKitModel.GraphMatcherEngine
/-! Driver commands for C07 (`GraphMatcherEngine`, `subgraph_isomorphism`, `graph_isomorphism`). -/
open Lean SynKit SynKit.Match SynKit.GME
namespace Driver.GME

def optNat (j : Json) (k : String) : Except String (Option Nat) :=
  match j.getObjVal? k with
  | .ok .null => pure none
  | .ok v => (fromJson? v : Except String Nat).map some
  | .error _ => pure none

def engineOfJson (j : Json) : Except String Engine := do
  pure { nodeAttrs := ← Driver.getStrList j "node_attrs", edgeAttrs := ← Driver.getStrList j "edge_attrs",
         wl1Filter := (Driver.getBool j "wl1_filter").toOption.getD false,
         maxMappings := ← optNat j "max_mappings" }

def queryOfJson (j : Json) : Except String Query := do
  let e ← engineOfJson (← j.getObjVal? "engine")
  let a ← Driver.getNat j "a"
  let b ← Driver.getNat j "b"
  match ← Driver.getStr j "op" with
  | "iso" => pure (.iso e a b)
  | "maps" => pure (.maps e a b)
  | s => throw s!"op {s}"

def answerToJson (heap : List LGraph) (q : Query) (a : Answer) : Json :=
  match a, q with
  | .verdict b, _ => Json.mkObj [("verdict", toJson b)]
  | .mappings ms, .maps e i j =>
    -- `all`: every induced embedding (the set the returned ones must be drawn from)
    Json.mkObj [("maps", Driver.mappingsToJson ms), ("n", toJson ms.length),
      ("all", Driver.mappingsToJson (allInduced e.sel (graphAt heap i) (graphAt heap j)))]
  | .mappings ms, _ => Json.mkObj [("maps", Driver.mappingsToJson ms), ("n", toJson ms.length)]

def subCfgOfJson (j : Json) : Except String SubCfg := do
  let names ← Driver.getStrList j "names"
  let defaults ← (← Driver.getArr j "defaults").toList.mapM Driver.valOfJson
  let edgeAttr ← Driver.getOptStr j "edge_attr"
  pure { names, defaults, edgeAttr := edgeAttr.bind fun s => if s.isEmpty then none else some s,
         useFilter := (Driver.getBool j "use_filter").toOption.getD false,
         induced := (Driver.getBool j "induced").toOption.getD true }

/-- Commands
* `c07.history {graphs: [G…], queries: [{op: "iso"|"maps", engine: {node_attrs, edge_attrs, wl1_filter, max_mappings}, a, b}…]}`
  → `{answers: […], pure: […]}` — the answers of the history run against one shared cache, and the cache-free answers;
* `c07.sub {child, parent, names, defaults, edge_attr, use_filter, induced}` → `{verdict, filter, core}`;
* `c07.giso {g1, g2, use_defaults}` → bool. -/
def handle : Driver.Handler := fun cmd j =>
  match cmd with
  | "c07.history" => some do
    let heap ← (← Driver.getArr j "graphs").toList.mapM Driver.graphOfJson
    let qs ← (← Driver.getArr j "queries").toList.mapM queryOfJson
    let ans := run heap [] qs
    let pur := qs.map (pureAnswer heap)
    pure (Json.mkObj [("answers", Json.arr ((qs.zip ans).map fun qa => answerToJson heap qa.1 qa.2).toArray),
      ("pure", Json.arr ((qs.zip pur).map fun qa => answerToJson heap qa.1 qa.2).toArray)])
  | "c07.sub" => some do
    let c ← subCfgOfJson j
    let child ← Driver.getGraph j "child"
    let parent ← Driver.getGraph j "parent"
    pure (Json.mkObj [("verdict", toJson (subgraphIsomorphism c child parent)),
      ("filter", toJson (subFilter c child parent)), ("core", toJson (subCore c child parent))])
  | "c07.giso" => some do
    let g1 ← Driver.getGraph j "g1"
    let g2 ← Driver.getGraph j "g2"
    pure (toJson (graphIsomorphism ((Driver.getBool j "use_defaults").toOption.getD false) g1 g2))
  | _ => none

end Driver.GME

import Driver.GraphJson
import SynKitModel.Mcs
open Lean SynKit SynKit.Match SynKit.Mcs
namespace Driver.Mcs

def optStrList (j : Json) (k : String) : Except String (Option (List String)) :=
  match j.getObjVal? k with
  | .ok .null => pure none
  | .ok _ => (Driver.getStrList j k).map some
  | .error _ => pure none

def optValList (j : Json) (k : String) : Except String (Option (List Val)) :=
  match j.getObjVal? k with
  | .ok .null => pure none
  | .ok _ => do pure (some (← (← Driver.getArr j k).toList.mapM Driver.valOfJson))
  | .error _ => pure none

/-- Constructor arguments as the caller passes them (`null` = argument omitted);
`.error ValueError` is the constructor's own error. -/
def cfgOfJson (j : Json) : Except String (Except Err Cfg) := do
  let nk ← optStrList j "node_keys"
  let nd ← optValList j "node_defaults"
  let ek ← optStrList j "edge_keys"
  let prune := (Driver.getBool j "prune").toOption.getD false
  let pruneWc ← match j.getObjVal? "prune_wc" with
    | .ok .null => pure none
    | .ok v => do
      let a ← (fromJson? v : Except String (Array Json))
      if a.size ≠ 2 then throw "prune_wc: [key, value]"
      pure (some ((← (fromJson? a[0]! : Except String String)), (← Driver.valOfJson a[1]!)))
    | .error _ => pure none
  match (Driver.getStr j "variant").toOption.getD "main" with
  | "main" => pure (Cfg.initMain nk nd ek prune pruneWc)
  | "mtg" =>
    match ek with
    | none => pure (.ok (Cfg.initMtg nk nd none))
    | some [k] => pure (.ok (Cfg.initMtg nk nd (some k)))
    | some _ => throw "mtg variant takes exactly one edge key"
  | v => throw s!"unknown variant {v}"

/-- A list of mappings in the given order, each mapping sorted by key. -/
def orderedMappingsJson (ms : List Mapping) : Json := Json.arr (ms.map Driver.mappingToJson).toArray

def dirJson (r : Result) (d : String) : Json :=
  match r.getMappings d with
  | .ok l => orderedMappingsJson l
  | .error .valueError => "ValueError"

/-- Commands
* `mcs.find {g1, g2, node_keys, node_defaults, edge_keys, mcs, prune?, variant?, prune_wc?}` →
  `{pattern_is_g1, last_size, pattern_to_host, g1_to_g2, g2_to_g1, other_direction, fresh}`; the mapping
  lists are in the model's result order, each mapping sorted by key.
* `spec.mcs {g1, g2, …cfg, mappings, size}` → the specification evaluated on supplied
  (g1 node, g2 node) mappings: `valid` (per mapping `IsCommonInduced`), `all_valid`, `same_size`,
  `larger_exists` (a common induced sub-graph with `size+1` nodes exists), `any_exists`
  (one with ≥ 1 node exists). -/
def handle : Driver.Handler := fun cmd j =>
  match cmd with
  | "mcs.find" => some do
    let g1 ← Driver.getGraph j "g1"
    let g2 ← Driver.getGraph j "g2"
    let mcs ← Driver.getBool j "mcs"
    match ← cfgOfJson j with
    | .error .valueError => pure (Json.str "ValueError")
    | .ok cfg =>
    let r := find cfg mcs g1 g2
    let fresh : Result := {}
    pure (Json.mkObj [
      ("pattern_is_g1", match r.patternIsG1 with | some b => toJson b | none => Json.null),
      ("last_size", toJson r.lastSize),
      ("pattern_to_host", dirJson r "pattern_to_host"),
      ("g1_to_g2", dirJson r "G1_to_G2"),
      ("g2_to_g1", dirJson r "G2_to_G1"),
      ("other_direction", dirJson r "host_to_pattern"),
      ("fresh", dirJson fresh "host_to_pattern")])
  | "spec.mcs" => some do
    let cfg ← match ← cfgOfJson j with
      | .ok c => pure c
      | .error _ => throw "spec.mcs: constructor arguments rejected"
    let g1 := used cfg (← Driver.getGraph j "g1")
    let g2 := used cfg (← Driver.getGraph j "g2")
    let size ← Driver.getNat j "size"
    let ms ← (← Driver.getArr j "mappings").toList.mapM Driver.mappingOfJson
    let valid := ms.map fun m => decide (IsCommonInduced cfg g1 g2 m)
    pure (Json.mkObj [
      ("valid", toJson valid),
      ("all_valid", toJson (valid.all id)),
      ("same_size", toJson (ms.all fun m => m.length == size)),
      ("larger_exists", toJson (existsOfSize cfg g1 g2 (size + 1))),
      ("any_exists", toJson (existsOfSize cfg g1 g2 1))])
  | _ => none

end Driver.Mcs

import Driver.GraphJson
import SynKitModel.Repr
import SynKitModel.Gml
import SynKitModel.ReprOpt
/-! Driver commands of property C10 (`repr.*`, `h.*`, `gml.*`, `spec.gml.*`). -/
open Lean SynKit SynKit.Repr SynKit.Gml SynKit.ReprOpt
namespace Driver.Repr

def atomOfJson (j : Json) : Except String Atom := do
  pure { element := ← Driver.getStr j "element", charge := ← Driver.getInt j "charge",
         atomMap := ← Driver.getNat j "atom_map", hcount := ← Driver.getNat j "hcount",
         aromatic := ← Driver.getBool j "aromatic" }

def bondOfJson (j : Json) : Except String Bond := do
  let a ← (fromJson? j : Except String (Array Int))
  if a.size ≠ 3 then throw "bond record"
  pure { a := a[0]!.toNat, b := a[1]!.toNat, order := a[2]! }

def molOfJson (j : Json) : Except String Mol := do
  let atoms ← (← Driver.getArr j "atoms").toList.mapM atomOfJson
  let bonds ← (← Driver.getArr j "bonds").toList.mapM bondOfJson
  pure { atoms, bonds }

def molOutJson (m : MolOut) : Json :=
  Json.mkObj [
    ("atoms", Json.arr (m.atoms.map fun a => Json.mkObj [("element", a.element), ("charge", toJson a.charge),
        ("atom_map", toJson a.atomMap), ("hcount", match a.hcount with | some h => toJson h | none => Json.null)]).toArray),
    ("bonds", Json.arr (m.bonds.map fun b => Json.arr #[toJson b.1, toJson b.2.1, toJson b.2.2]).toArray)]

def errJson (e : Err) : Json :=
  Json.mkObj [("err", match e with | .typeError => "TypeError" | .keyError => "KeyError" | .unsupported => "unsupported")]

def itemJson : Item → Json
  | .node id l => Json.arr #["n", toJson id, Json.str (String.ofList l)]
  | .edge s t l => Json.arr #["e", toJson s, toJson t, Json.str (String.ofList l)]

def ruleJson (r : Rule) : Json :=
  Json.mkObj [("left", Json.arr (r.left.map itemJson).toArray), ("context", Json.arr (r.context.map itemJson).toArray),
              ("right", Json.arr (r.right.map itemJson).toArray)]

def ruleOut (r : Rule) (name : String) : Json :=
  Json.mkObj [("rule", ruleJson r), ("text", Json.str (r.text name))]

/-- the writer is defined on graphs whose `element` is absent or a string and whose `charge` is
absent or an integer. -/
def labelDomain (g : LGraph) : Bool :=
  g.nodes.all fun p =>
    (match Dict.get? p.2 "element" with | none => true | some (.str _) => true | some _ => false) &&
    (match Dict.get? p.2 "charge" with | none => true | some (.num h) => h % 2 = 0 | some _ => false)

def readOut (r : Rule) : Json :=
  Json.mkObj [("left", Driver.graphToJson (readLeft r)), ("right", Driver.graphToJson (readRight r)),
              ("its", Driver.graphToJson (gmlToIts r))]

def handle : Driver.Handler := fun cmd j =>
  match cmd with
  | "repr.molToGraph" => some do
    pure (Driver.graphToJson (molToGraph (← molOfJson (← j.getObjVal? "mol"))))
  | "repr.graphToMol" => some do
    match graphToMol (← Driver.getGraph j "graph") with
    | .ok m => pure (molOutJson m)
    | .error e => pure (errJson e)
  | "repr.roundtrip" => some do
    let m ← molOfJson (← j.getObjVal? "mol")
    pure (Json.mkObj [("wf", toJson (decide m.WF)), ("same", toJson (match graphToMol (molToGraph m) with | .ok o => decide (o = m.out) | .error _ => false))])
  | "h.explicit" => some do
    let g ← Driver.getGraph j "graph"
    if decide (HTyped g) && explicitDomain g then pure (Driver.graphToJson (hToExplicit g)) else pure (errJson .unsupported)
  | "h.implicit" => some do
    let g ← Driver.getGraph j "graph"
    if decide (HTyped g) then pure (Driver.graphToJson (hToImplicit g)) else pure (errJson .unsupported)
  | "h.implicitHydrogen" => some do
    let g ← Driver.getGraph j "graph"
    let pres ← (fromJson? (← j.getObjVal? "preserve") : Except String (List Nat))
    if !implDomain g then pure (errJson .keyError)
    else if decide (HTyped g) then pure (Driver.graphToJson (implicitHydrogen g pres)) else pure (errJson .unsupported)
  | "h.info" => some do
    let g ← Driver.getGraph j "graph"
    pure (Json.mkObj [("totalH", toJson (totalH g)), ("hasXH", toJson (hasXH g)), ("hasHH", toJson (hasHH g)),
      ("guard", toJson (decide (NoHeavyBoundH g))), ("valence", toJson (decide (HValence g))), ("typed", toJson (decide (HTyped g))), ("wf", toJson (decide g.WF))])
  | "gml.label" => some do
    pure (Json.str (String.ofList (render (← Driver.getStr j "element").toList (← Driver.getInt j "charge"))))
  | "gml.parseLabel" => some do
    let r := parseLabel (← Driver.getStr j "label").toList
    pure (Json.arr #[Json.str (String.ofList r.1), toJson r.2])
  | "gml.write" => some do
    let L ← Driver.getGraph j "L"; let R ← Driver.getGraph j "R"; let K ← Driver.getGraph j "K"
    if !(labelDomain L && labelDomain R && labelDomain K) then pure (errJson .unsupported)
    else pure (ruleOut (writeRule (← Driver.getBool j "reindex") L R K) ((Driver.getStr j "name").toOption.getD "rule"))
  | "gml.itsToGml" => some do
    let I ← Driver.getGraph j "its"
    if !labelDomain I then pure (errJson .unsupported)
    else pure (ruleOut (itsToGml (← Driver.getBool j "core") (← Driver.getBool j "reindex") I) "rule")
  | "gml.smartToGml" => some do
    let r ← Driver.getGraph j "r"; let p ← Driver.getGraph j "p"
    if !(labelDomain r && labelDomain p) then pure (errJson .unsupported)
    else pure (ruleOut (smartToGml (← Driver.getBool j "core") (← Driver.getBool j "reindex") r p) "rule")
  | "gml.read" => some do
    match parseText (← Driver.getStr j "text") with
    | some r => pure (Json.mkObj [("rule", ruleJson r), ("graphs", readOut r)])
    | none => pure (Json.mkObj [("err", "ParseError")])
  | "gml.roundtrip" => some do
    -- model round trip at token level and through the text layer, with the specification verdict
    let I ← Driver.getGraph j "its"
    let core ← Driver.getBool j "core"; let reindex ← Driver.getBool j "reindex"
    let r := itsToGml core reindex I
    let I' := if core then getRc I else I
    pure (Json.mkObj [("shape", toJson (decide (ItsShape I'))),
      ("ruleEq", toJson (ruleEqb (gmlToIts r) I')),
      ("textStable", toJson (decide (parseText (r.text "rule") = some r))),
      ("its", Driver.graphToJson (gmlToIts r))])
  | "gml.view" => some do pure (Driver.graphToJson (viewGraph (← Driver.getGraph j "its")))
  | "gml.retext" => some do
    match parseText (← Driver.getStr j "text") with
    | some r => pure (Json.str (r.text ((Driver.getStr j "name").toOption.getD "rule")))
    | none => pure (Json.mkObj [("err", "ParseError")])
  | "gml.getRc" => some do pure (Driver.graphToJson (getRc (← Driver.getGraph j "its")))
  | "gml.decompose" => some do
    let I ← Driver.getGraph j "its"
    pure (Json.arr #[Driver.graphToJson (decompose I).1, Driver.graphToJson (decompose I).2])
  | "gml.construct" => some do
    pure (Driver.graphToJson (construct (← Driver.getGraph j "g") (← Driver.getGraph j "h")))
  | "gml.shape" => some do pure (toJson (decide (ItsShape (← Driver.getGraph j "its"))))
  | "repr.molToGraphOpt" => some do
    -- MolToGraph.transform with use_index_as_atom_map / drop_non_aam (SynKitModel/ReprOpt.lean)
    match molToGraphOpt (← Driver.getBool j "useIndex") (← Driver.getBool j "drop") (← molOfJson (← j.getObjVal? "mol")) with
    | .ok g => pure (Driver.graphToJson g)
    | .error .valueError => pure (Json.mkObj [("err", "ValueError")])
    | .error .collision => pure (errJson .unsupported)
  | "h.explicitOpt" => some do
    -- h_to_explicit(G, nodes, its); "nodes": [] stands for None
    let g ← Driver.getGraph j "graph"
    let ns ← (fromJson? (← j.getObjVal? "nodes") : Except String (List Nat))
    if decide (HTyped g) && typesDomain g then pure (Driver.graphToJson (hToExplicitG g ns (← Driver.getBool j "its")))
    else pure (errJson .unsupported)
  | "h.implicitHydrogenReindex" => some do
    let g ← Driver.getGraph j "graph"
    let pres ← (fromJson? (← j.getObjVal? "preserve") : Except String (List Nat))
    if !implDomain g then pure (errJson .keyError)
    else if decide (HTyped g) then pure (Driver.graphToJson (implicitHydrogenReindex g pres)) else pure (errJson .unsupported)
  | "gml.itsToGmlX" => some do
    -- its_to_gml(its, core, rule_name, reindex, explicit_hydrogen)
    let I ← Driver.getGraph j "its"
    let I' := if (← Driver.getBool j "core") then getRc I else I
    if !(labelDomain I && decide (HTyped I') && typesDomain I') then pure (errJson .unsupported)
    else pure (ruleOut (itsToGmlX (← Driver.getBool j "core") (← Driver.getBool j "reindex") (← Driver.getBool j "explicit") I)
                       ((Driver.getStr j "name").toOption.getD "rule"))
  | "gml.smartToGmlX" => some do
    let r ← Driver.getGraph j "r"; let p ← Driver.getGraph j "p"
    let K := if (← Driver.getBool j "core") then getRc (construct r p) else construct r p
    if !(labelDomain r && labelDomain p && decide (HTyped K) && typesDomain K) then pure (errJson .unsupported)
    else pure (ruleOut (smartToGmlX (← Driver.getBool j "core") (← Driver.getBool j "reindex") (← Driver.getBool j "explicit") r p)
                       ((Driver.getStr j "name").toOption.getD "rule"))
  | "spec.gml.ruleEq" => some do
    pure (toJson (ruleEqb (← Driver.getGraph j "a") (← Driver.getGraph j "b")))
  | _ => none

end Driver.Repr

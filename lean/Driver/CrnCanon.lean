import Driver.GraphJson
import SynKitModel.CrnCanon
/-! Driver commands of C18 (`crn.*`).

Net:  {"labels": ["A", …], "rxns": [{"id": "r_1", "rule": "r", "r": [[species index, coeff], …], "p": […]}, …]}
-/
open Lean SynKit SynKit.CrnCanon
namespace Driver.CrnCanon

def sideOfJson (j : Json) : Except String (List (Nat × Nat)) := do
  let arr ← (fromJson? j : Except String (Array Json))
  arr.toList.mapM fun kv => do
    let pr ← (fromJson? kv : Except String (Array Nat))
    if pr.size ≠ 2 then throw "side entry"
    pure (pr[0]!, pr[1]!)

def netOfJson (j : Json) : Except String Net := do
  let labels ← Driver.getStrList j "labels"
  let rs ← Driver.getArr j "rxns"
  let rxns ← rs.toList.mapM fun r => do
    pure ({ id := ← Driver.getStr r "id", rule := ← Driver.getStr r "rule",
            reactants := ← sideOfJson (← r.getObjVal? "r"), products := ← sideOfJson (← r.getObjVal? "p") } : Rxn)
  pure { labels, rxns }

def selOfJson (j : Json) : Except String SelD := do
  pure { nodeKeys := ← Driver.getStrList j "node_keys", edgeKeys := ← Driver.getStrList j "edge_keys" }

def natListLt : List Nat → List Nat → Bool
  | [], [] => false
  | [], _ => true
  | _, [] => false
  | a :: as, b :: bs => if a < b then true else if b < a then false else natListLt as bs

/-- A partition as a sorted list of sorted classes. -/
def partitionToJson (p : List (List Nat)) : Json :=
  let cls := p.map fun c => (c.toArray.qsort (· < ·)).toList
  Json.arr ((cls.toArray.qsort natListLt).map fun c => toJson c)

def natList (j : Json) (k : String) : Except String (List Nat) := do
  let arr ← Driver.getArr j k
  arr.toList.mapM fun x => (fromJson? x : Except String Nat)

def handle : Driver.Handler := fun cmd j =>
  match cmd with
  | "crn.view" => some do
    let N ← netOfJson (← j.getObjVal? "net")
    let g := viewOf (← Driver.getBool j "bip") (← Driver.getBool j "stoich") N
    pure (Json.mkObj [("graph", Driver.graphToJson g), ("wf", toJson (decide N.WF)), ("wfd", toJson (decide (WFD g)))])
  | "crn.analyse" => some do
    let sel ← selOfJson j
    let g ← Driver.getGraph j "graph"
    let auts := autsD sel g
    pure (Json.mkObj [("count", toJson auts.length), ("orbits", partitionToJson (orbitsFast sel g)),
      ("orbits_uf", partitionToJson (orbitsUF g.ids auts)), ("wfd", toJson (decide (WFD g)))])
  | "crn.iso" => some do
    let sel ← selOfJson j
    pure (toJson (isoDecideD sel (← Driver.getGraph j "host") (← Driver.getGraph j "pattern")))
  | "crn.isos" => some do
    let sel ← selOfJson j
    pure (Driver.mappingsToJson (allIsoD sel (← Driver.getGraph j "host") (← Driver.getGraph j "pattern")))
  | "crn.canonBy" => some do
    let g ← Driver.getGraph j "graph"
    let perm ← natList j "perm"
    pure (Json.mkObj [("graph", Driver.graphToJson (canonBy g perm)), ("is_order", toJson (decide (IsOrder g perm)))])
  | "crn.brute" => some do
    let sel ← selOfJson j
    pure (toJson (canonBruteD sel (← Driver.getGraph j "graph")))
  | "crn.checkMaps" => some do
    -- specification verdict on mappings the implementation returned
    let sel ← selOfJson j
    let h ← Driver.getGraph j "host"
    let p ← Driver.getGraph j "pattern"
    let ms ← (← Driver.getArr j "maps").toList.mapM Driver.mappingOfJson
    pure (toJson (ms.map fun m => isIsoDBool sel h p (p.ids.map fun v => (v, app m v))))
  | _ => none

end Driver.CrnCanon

import Driver.GraphJson
import SynKitModel.CrnCanon
import SynKitModel.CrnIR
/-! Driver commands of C18 (`crn.*`).

Net:  {"labels": ["A", …], "rxns": [{"id": "r_1", "rule": "r", "r": [[species index, coeff], …], "p": […]}, …]}

IR search (`SynKitModel/CrnIR.lean`, mirror of `CRNCanonicalizer._search`):
* `crn.ir {graph, node_keys, edge_keys, leaves?}` → every stage of `_canon`:
  `wfd`, `attr_ok` (`CrnAttrOK`), `defined` (always `true` since repair F39: `_init_part` gives the empty
  graph no cell, the search has the one leaf `[]`; kept for protocol compatibility), `initial`
  (`_init_part`), `refined` (`_refine` of it), `order` (`canonical_perm`), `label` (`best["label"]`
  structured), `perms` (`sample_permutations`, in visiting order), `count` (`automorphism_count`), `orbits_raw`
  (`_orbits_from_perms(perms)` as the merging leaves it), `orbits` (the same as a sorted partition),
  `graph` (`canon_graph` = `nx.relabel_nodes(G, {v: i + 1})`), and with `"leaves": true` also `n_leaves`
  and `leaves`: every leaf `{prefix, order, label}` of the search tree in visiting order.
  A label is `{"nodes": [[Val…] per node of the permutation], "rows": [[null | [Val…], …] per node]}`:
  `nodes[i]` are the values `G.nodes[perm[i]].get(a, "")` for the node keys, `rows[i]` lists the ordered
  pairs `(i, j)`, `j ≠ i`, in increasing `j` (the code's loop order, diagonal skipped): `null` for
  `"0:…"`, the values `attrs.get(a, "")` of the edge keys for `"1:…"`.
  Node ids must be interned order-preservingly (`sorted(G.nodes())` ↦ `0, 1, …`) for cells, leaf
  order and `perms` to correspond item by item; partitions / labels correspond under any interning.
* `crn.irCapped {graph, node_keys, edge_keys, max_depth, ranks?}` → the model of `_canon(max_depth=d)`
  (`crnCanonCapped`): `{"error": "RuntimeError", "early_stop"}` when no leaf is reached, else `{"error": null,
  "early_stop", "order", "label", "perms", "count", "orbits_raw", "orbits", "graph"}` (fields as in `crn.ir`,
  computed from `best` / `perms` as they stand when the search stops); with `"ranks": true` also `depth`
  (`crnDepth`), `leaf_depths` (per leaf in visiting order) and `same_nodes` (all leaf labels have the same node
  segment: then the string order of two labels is decided in the arc segment).
* `crn.ir_refine {graph, node_keys, edge_keys, partition}` → `_refine(G, partition)`
* `crn.ir_sig {graph, node_keys, edge_keys, partition, node}` → `_sig` as `{attrs, in, out, counts, edges}`
* `crn.ir_label {graph, node_keys, edge_keys, perm}` → `_label(G, perm)` structured as above
-/
open Lean SynKit SynKit.CrnCanon
namespace Driver.CrnCanon

def sideOfJson (j : Json) : Except String (List (Nat × Nat)) := do
  let arr ← (fromJson? j : Except String (Array Json))
  arr.toList.mapM fun kv => do
    let pr ← (fromJson? kv : Except String (Array Nat))
    if pr.size ≠ 2 then throw "side entry"
    pure (pr[0]!, pr[1]!)

def netOfJson (j : Json) : Except String Net := do
  let labels ← Driver.getStrList j "labels"
  let rs ← Driver.getArr j "rxns"
  let rxns ← rs.toList.mapM fun r => do
    pure ({ id := ← Driver.getStr r "id", rule := ← Driver.getStr r "rule",
            reactants := ← sideOfJson (← r.getObjVal? "r"), products := ← sideOfJson (← r.getObjVal? "p") } : Rxn)
  pure { labels, rxns }

def selOfJson (j : Json) : Except String SelD := do
  pure { nodeKeys := ← Driver.getStrList j "node_keys", edgeKeys := ← Driver.getStrList j "edge_keys" }

def natListLt : List Nat → List Nat → Bool
  | [], [] => false
  | [], _ => true
  | _, [] => false
  | a :: as, b :: bs => if a < b then true else if b < a then false else natListLt as bs

/-- A partition as a sorted list of sorted classes. -/
def partitionToJson (p : List (List Nat)) : Json :=
  let cls := p.map fun c => (c.toArray.qsort (· < ·)).toList
  Json.arr ((cls.toArray.qsort natListLt).map fun c => toJson c)

def natList (j : Json) (k : String) : Except String (List Nat) := do
  let arr ← Driver.getArr j k
  arr.toList.mapM fun x => (fromJson? x : Except String Nat)

def valsJson (xs : List Val) : Json := Json.arr (xs.map Driver.valToJson).toArray

def partJson (P : List (List Nat)) : Json := Json.arr (P.map fun c => (toJson c)).toArray

/-- structured label; the diagonal placeholders are dropped so that `rows[i]` is the code's loop over `j ≠ i` -/
def labelJson (l : CrnLabel) : Json :=
  Json.mkObj [
    ("nodes", Json.arr (l.nodes.map valsJson).toArray),
    ("rows", Json.arr (l.rows.map fun r => Json.arr (r.filterMap fun b =>
      match b with
      | .diag => none
      | .absent => some Json.null
      | .present x => some (valsJson x)).toArray).toArray)]

def partitionOfJson (j : Json) (k : String) : Except String (List (List Nat)) := do
  let arr ← Driver.getArr j k
  arr.toList.mapM fun x => (fromJson? x : Except String (List Nat))

/-- Answer of `crn.ir`. -/
def irJson (sel : SelD) (g : LGraph) (withLeaves : Bool) : Json :=
  let p0 := crnInitPart sel g
  let res := crnIr sel g
  let o := crnOrderOf res
  let perms := crnPermsOf res
  let orbs := crnOrbitsFromPerms perms
  Json.mkObj ([
    ("wfd", toJson (decide (WFD g))),
    ("attr_ok", toJson (decide (CrnAttrOK sel g))),
    ("defined", toJson true),
    ("initial", partJson p0),
    ("refined", partJson (crnRefine sel g p0)),
    ("order", toJson o),
    ("label", match res with | none => Json.null | some b => labelJson b.label),
    ("perms", partJson perms),
    ("count", toJson perms.length),
    ("orbits_raw", partJson orbs),
    ("orbits", partitionToJson orbs),
    ("graph", Driver.graphToJson (canonBy g o))] ++
    (if withLeaves then
      let leaves := crnRootLeaves sel g
      [("n_leaves", toJson leaves.length), ("leaves", Json.arr (leaves.map fun l =>
        Json.mkObj [("prefix", toJson l.1), ("order", toJson l.2), ("label", labelJson (crnLeafLabel sel g l))]).toArray)]
    else []))

/-- Answer of `crn.irCapped` (`_canon(max_depth=d, timeout_sec=None)` as `summary` reports it). -/
def irCappedJson (sel : SelD) (g : LGraph) (d : Nat) (withRanks : Bool) : Json :=
  let res : List (String × Json) :=
    match crnCanonCapped sel g d with
    | .error .notFound => [("error", Json.str "RuntimeError"), ("early_stop", toJson (crnIrCapped sel g d).2)]
    | .ok (b, early) =>
      let orbs := crnOrbitsFromPerms b.perms
      [("error", Json.null), ("early_stop", toJson early), ("order", toJson b.perm), ("label", labelJson b.label),
       ("perms", partJson b.perms), ("count", toJson b.perms.length), ("orbits_raw", partJson orbs),
       ("orbits", partitionToJson orbs), ("graph", Driver.graphToJson (canonBy g b.perm))]
  Json.mkObj (res ++
    (if withRanks then
      let leaves := crnRootLeaves sel g
      let labs := leaves.map (crnLeafLabel sel g)
      [("depth", toJson (crnDepth sel g)), ("leaf_depths", toJson (leaves.map crnLeafDepth)),
       ("same_nodes", toJson (labs.all fun l => decide (l.nodes = (labs.headD default).nodes)))]
    else []))

def handle : Driver.Handler := fun cmd j =>
  match cmd with
  | "crn.irCapped" => some do
    let sel ← selOfJson j
    let g ← Driver.getGraph j "graph"
    let wr := match j.getObjValAs? Bool "ranks" with | .ok b => b | .error _ => false
    pure (irCappedJson sel g (← Driver.getNat j "max_depth") wr)
  | "crn.ir" => some do
    let sel ← selOfJson j
    let g ← Driver.getGraph j "graph"
    let wl := match j.getObjValAs? Bool "leaves" with | .ok b => b | .error _ => false
    pure (irJson sel g wl)
  | "crn.ir_refine" => some do
    let sel ← selOfJson j
    let g ← Driver.getGraph j "graph"
    pure (partJson (crnRefine sel g (← partitionOfJson j "partition")))
  | "crn.ir_sig" => some do
    let sel ← selOfJson j
    let g ← Driver.getGraph j "graph"
    let s := crnSig sel g (← partitionOfJson j "partition") (← Driver.getNat j "node")
    pure (Json.mkObj [("attrs", valsJson s.attrs), ("in", toJson s.inDeg), ("out", toJson s.outDeg),
      ("counts", toJson s.counts), ("edges", Json.arr (s.edges.map valsJson).toArray)])
  | "crn.ir_label" => some do
    let sel ← selOfJson j
    let g ← Driver.getGraph j "graph"
    pure (labelJson (crnBuildLabel sel g (← natList j "perm")))
  | "crn.view" => some do
    let N ← netOfJson (← j.getObjVal? "net")
    let g := viewOf (← Driver.getBool j "bip") (← Driver.getBool j "stoich") N
    pure (Json.mkObj [("graph", Driver.graphToJson g), ("wf", toJson (decide N.WF)), ("wfd", toJson (decide (WFD g)))])
  | "crn.analyse" => some do
    let sel ← selOfJson j
    let g ← Driver.getGraph j "graph"
    let auts := autsD sel g
    pure (Json.mkObj [("count", toJson auts.length), ("orbits", partitionToJson (orbitsFast sel g)),
      ("orbits_uf", partitionToJson (orbitsUF g.ids auts)), ("wfd", toJson (decide (WFD g)))])
  | "crn.iso" => some do
    let sel ← selOfJson j
    pure (toJson (isoDecideD sel (← Driver.getGraph j "host") (← Driver.getGraph j "pattern")))
  | "crn.isos" => some do
    let sel ← selOfJson j
    pure (Driver.mappingsToJson (allIsoD sel (← Driver.getGraph j "host") (← Driver.getGraph j "pattern")))
  | "crn.canonBy" => some do
    let g ← Driver.getGraph j "graph"
    let perm ← natList j "perm"
    pure (Json.mkObj [("graph", Driver.graphToJson (canonBy g perm)), ("is_order", toJson (decide (IsOrder g perm)))])
  | "crn.brute" => some do
    let sel ← selOfJson j
    pure (toJson (canonBruteD sel (← Driver.getGraph j "graph")))
  | "crn.checkMaps" => some do
    -- specification verdict on mappings the implementation returned
    let sel ← selOfJson j
    let h ← Driver.getGraph j "host"
    let p ← Driver.getGraph j "pattern"
    let ms ← (← Driver.getArr j "maps").toList.mapM Driver.mappingOfJson
    pure (toJson (ms.map fun m => isIsoDBool sel h p (p.ids.map fun v => (v, app m v))))
  | _ => none

end Driver.CrnCanon

import Driver.Util
import SynKitModel.BatchCache
/-! Driver commands for C14 (`SynKitModel/BatchCache.lean`).

* `cache.run {cache_on, cache_max, pin, ops}` — heap-op history on the `_RuleApplier` model with
  the free result function (a result is the triple of contents it was computed from); per step:
  outcome, what the property demands (`exp`), the cache keys in FIFO order, held and pinned ids.
* `batch.fit {cache_on, cache_max, pin, dedupe, alloc, batch, rules, inv, table}` — `BatchReactor.fit`
  with `f` given as a table `[[c, r, inv, [codes…]], …]`; also the map of `single`.
* `batch.dedupe {xs}`; `batchcluster.fit {items: [[attr, cls, cls1], …], batch_size,
  templates?: [[attr, cls, cls1, label], …]}` (labels, and the returned template library when
  initial templates are given).
-/
open Lean SynKit.BatchCache
namespace Driver.BatchCache

def parseOp (j : Json) : Except String (Op Nat) := do
  match (← Driver.getStr j "op") with
  | "alloc" => pure (.alloc (← Driver.getNat j "id") (← Driver.getNat j "c"))
  | "free" => pure (.free (← Driver.getNat j "id"))
  | "call" => pure (.call (← Driver.getNat j "sid") (← Driver.getNat j "rid") (← Driver.getBool j "inv"))
  | o => throw s!"unknown op {o}"

def tripleJson (t : Nat × Nat × Bool) : Json := Json.arr #[toJson t.1, toJson t.2.1, toJson t.2.2]

def outJson : Out (Nat × Nat × Bool) → Json
  | .ok => "ok"
  | .val r => tripleJson r
  | .stopIteration => "StopIteration"
  | .badOp => "badOp"

def sortedNats (xs : List Nat) : Json := toJson (xs.toArray.qsort (· < ·))

def parseCfg (j : Json) : Except String Config := do
  pure ⟨← Driver.getBool j "cache_on", ← Driver.getInt j "cache_max", ← Driver.getBool j "pin"⟩

def tripleF (a b : Nat) (i : Bool) : Nat × Nat × Bool := (a, b, i)

def stepJson (s : State Nat (Nat × Nat × Bool)) (o : Out (Nat × Nat × Bool)) (exp : Option (Nat × Nat × Bool)) : Json :=
  Json.mkObj [
    ("out", outJson o),
    ("exp", match exp with | some t => tripleJson t | none => Json.null),
    ("keys", Json.arr (s.cache.map fun ke => Json.arr #[toJson ke.1.sid, toJson ke.1.rid, toJson ke.1.inv]).toArray),
    ("held", sortedNats (s.heap.map (·.1))),
    ("pinned", sortedNats (s.cache.flatMap entryPins).eraseDups)]

def parseTable (j : Json) : Except String (List ((Nat × Nat × Bool) × List Nat)) := do
  let arr ← Driver.getArr j "table"
  arr.toList.mapM fun row => do
    let a ← (fromJson? row : Except String (Array Json))
    if a.size ≠ 4 then throw "table row"
    let c ← (fromJson? a[0]! : Except String Nat)
    let r ← (fromJson? a[1]! : Except String Nat)
    let i ← (fromJson? a[2]! : Except String Bool)
    let v ← (fromJson? a[3]! : Except String (List Nat))
    pure ((c, r, i), v)

def tableF (tbl : List ((Nat × Nat × Bool) × List Nat)) (c r : Nat) (i : Bool) : List Nat :=
  match tbl.find? (fun row => row.1 == (c, r, i)) with
  | some row => row.2
  | none => []

def errName : Out (List Nat) → String
  | .stopIteration => "StopIteration"
  | .badOp => "badOp"
  | _ => "other"

def clErrName : ClErr → String
  | .valueError => "ValueError"
  | .indexError => "IndexError"

def handle : Driver.Handler := fun cmd j =>
  match cmd with
  | "cache.run" => some do
    let cfg ← parseCfg j
    let ops ← (← Driver.getArr j "ops").toList.mapM parseOp
    -- `exp` (the specification) is evaluated on the heap alone: the realised history is what the
    -- runtime did, whatever the cache variant thinks of its allocations (cache-less machine).
    let specCfg : Config := ⟨false, 0, false⟩
    let (_, _, outs) := ops.foldl (fun (acc : State Nat (Nat × Nat × Bool) × State Nat (Nat × Nat × Bool) × List Json) op =>
      let exp := expected tripleF acc.2.1 op
      let (s', o) := step tripleF cfg acc.1 op
      let h' := (step tripleF specCfg acc.2.1 op).1
      (s', h', acc.2.2 ++ [stepJson s' o exp])) ({}, {}, [])
    pure (Json.mkObj [("steps", Json.arr outs.toArray)])
  | "batch.fit" => some do
    let cfg ← parseCfg j
    let dd ← Driver.getBool j "dedupe"
    let inv ← Driver.getBool j "inv"
    let batch ← (j.getObjValAs? (List Nat) "batch")
    let rules ← (j.getObjValAs? (List Nat) "rules")
    let f := tableF (← parseTable j)
    let alloc ← Driver.getStr j "alloc"
    let pick : State Nat (List Nat) → Id := if alloc == "lowest" then lowestAlloc else freshAlloc
    let res := (fit f cfg dd pick {} batch rules inv).2
    let fitJ := match res with
      | .ok rs => Json.mkObj [("ok", toJson rs)]
      | .error e => Json.mkObj [("err", errName e)]
    pure (Json.mkObj [("fit", fitJ), ("single", toJson (batch.map (single f dd rules inv)))])
  | "batch.dedupe" => some do
    let xs ← (j.getObjValAs? (List Nat) "xs")
    pure (toJson (dedupe xs))
  | "batchcluster.fit" => some do
    let arr ← Driver.getArr j "items"
    let items ← arr.toList.mapM fun row => do
      let a ← (fromJson? row : Except String (Array Nat))
      if a.size ≠ 3 then throw "item"
      pure (a[0]!, a[1]!, a[2]!)
    let bs : Option Int ← match j.getObjVal? "batch_size" with
      | .ok .null => pure none
      | .ok v => (fromJson? v : Except String Int).map some
      | .error _ => pure none
    let attr : (Nat × Nat × Nat) → Nat := fun it => it.1
    let iso : (Nat × Nat × Nat) → (Nat × Nat × Nat) → Bool := fun a b => a.2.1 == b.2.1
    let isoOne : (Nat × Nat × Nat) → (Nat × Nat × Nat) → Bool := fun a b => a.2.2 == b.2.2
    -- optional initial templates `[[attr, cls, cls1, label], …]` (absent = the empty library)
    let ts : List ((Nat × Nat × Nat) × Nat) ← match j.getObjVal? "templates" with
      | .ok (.arr a) => a.toList.mapM fun row => do
          let r ← (fromJson? row : Except String (Array Nat))
          if r.size ≠ 4 then throw "template"
          pure ((r[0]!, r[1]!, r[2]!), r[3]!)
      | _ => pure []
    -- the template library `fit` returns on the `cluster` branches (initial templates given)
    let tsOut : Json :=
      if ts.isEmpty then Json.null else
      let batches : Option (List (List (Nat × Nat × Nat))) := match bs with
        | none => some [items]
        | some k => if k < 1 then none else some (chunks k.toNat items)
      match batches with
      | none => Json.null
      | some [b] => toJson ((clusterBatch attr iso ts b).2.map fun t => [t.1.1, t.1.2.1, t.1.2.2, t.2])
      | some bsl => toJson ((clusterBatches attr iso ts bsl).2.map fun t => [t.1.1, t.1.2.1, t.1.2.2, t.2])
    match fitClasses attr iso isoOne items ts bs with
    | .ok ls => pure (Json.mkObj [("ok", toJson ls), ("templates", tsOut)])
    | .error e => pure (Json.mkObj [("err", clErrName e)])
  | _ => none

end Driver.BatchCache

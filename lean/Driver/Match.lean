import Driver.GraphJson
import SynKitModel.Match
open Lean SynKit SynKit.Match
namespace Driver.Match

def selOfJson (j : Json) : Except String Sel := do
  let nk ← Driver.getStrList j "node_keys"
  let ek ← Driver.getStrList j "edge_keys"
  let hc := (Driver.getBool j "hcount").toOption.getD true
  pure { nodeKeys := nk, edgeKeys := ek, hcountRule := hc }

/-- Commands: match.monos / match.induced {host, pattern, node_keys, edge_keys, hcount?} → sorted set of mappings;
match.iso {...} → bool. -/
def handle : Driver.Handler := fun cmd j =>
  match cmd with
  | "match.monos" => some do
    let sel ← selOfJson j
    pure (Driver.mappingsToJson (allMonos sel (← Driver.getGraph j "host") (← Driver.getGraph j "pattern")))
  | "match.induced" => some do
    let sel ← selOfJson j
    pure (Driver.mappingsToJson (allInduced sel (← Driver.getGraph j "host") (← Driver.getGraph j "pattern")))
  | "match.iso" => some do
    let sel ← selOfJson j
    pure (toJson (isoDecide sel (← Driver.getGraph j "host") (← Driver.getGraph j "pattern")))
  | _ => none

end Driver.Match

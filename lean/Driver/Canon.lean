import Driver.GraphJson
import SynKitModel.Canon
import SynKitModel.NautyIR
open Lean SynKit SynKit.Canon
namespace Driver.Canon

def natList (j : Json) (k : String) : Except String (List Nat) := do
  let arr ← Driver.getArr j k
  arr.toList.mapM fun x => (fromJson? x : Except String Nat)

def valsJson (xs : List Val) : Json := Json.arr (xs.map Driver.valToJson).toArray

def pairJson (p : Nat × Nat) : Json := Json.arr #[toJson p.1, toJson p.2]

/-- `{"nodes": [[id, [key values]], …], "edges": [[[u, v], [min, max], [order, standard_order]], …]}`
— list order is the order of the items in the serialised text. -/
def serJson (s : Ser) : Json :=
  Json.mkObj [
    ("nodes", Json.arr (s.nodes.map fun p => Json.arr #[toJson p.1, valsJson p.2]).toArray),
    ("edges", Json.arr (s.edges.map fun e => Json.arr #[pairJson e.1, pairJson e.2.1, valsJson e.2.2]).toArray)]

def partJson (P : List (List Nat)) : Json := Json.arr (P.map fun c => (toJson c)).toArray

/-- `{"nodes": [[key values], …], "edges": [null | [order, standard_order], …]}` — the structured
label: one node item per entry of `prefix + order`, one edge item per pair `i < j` in loop order. -/
def labelJson (l : IRLabel) : Json :=
  Json.mkObj [
    ("nodes", Json.arr (l.nodes.map valsJson).toArray),
    ("edges", Json.arr (l.edges.map fun b => match b with | none => Json.null | some x => valsJson x).toArray)]

def bestJson (b : IRBest) : Json :=
  match b with
  | none => Json.null
  | some (l, o) => Json.mkObj [("order", toJson o), ("label", labelJson l)]

/-- Answer of `canon.ir` (every stage of `NautyCanonicalizer.canonical_form`). -/
def irJson (g : LGraph) (withLeaves : Bool) : Json :=
  let p0 := irInitialPartition g
  let best := irCanon g
  let o := irCanonOrder g
  Json.mkObj ([
    ("initial", partJson p0),
    ("refined", partJson (irRefine g p0)),
    ("best", bestJson best),
    ("best_noprune", bestJson (irCanonWith IRLabel.lt irPartialGt false g)),
    ("order", toJson o),
    ("graph", Driver.graphToJson (canonBy o g)),
    ("ser", serJson (serialise (canonBy o g)))] ++
    (if withLeaves then
      [("leaves", Json.arr ((irLeaves g (g.nodes.length + 1) p0 []).map fun l =>
        Json.mkObj [("prefix", toJson l.1), ("order", toJson l.2), ("label", labelJson (irLeafLabel g l))]).toArray)]
    else []))

/-- Commands
* `canon.ir {graph, leaves?}` → the model of the exact back-end, stage by stage:
  `initial` (`_initial_partition`), `refined` (`_refine` of it), `best` (`{order, label}` of the
  search with pruning, `null` if none), `best_noprune`, `order` (`best["perm"]`), `graph`
  (canonical graph), `ser` (its serialisation) and, with `"leaves": true`, every leaf
  `{prefix, order, label}` of the unpruned search tree in visiting order
* `canon.ir_refine {graph, partition}` → `_refine(G, partition)`
* `canon.ir_sig {graph, partition, node}` → `_node_signature` as `{attrs, degree, counts, edges}`
* `canon.by {graph, order}` → canonical graph for that node order
* `canon.sig {graph, order}` → `serialise (canonBy order graph)`
* `canon.serialise {graph}` → the pre-digest serialisation
* `canon.generic_order {graph}` → node order of the attribute-sort back-end
* `canon.brute {graph}` → `{order, graph, ser}` of the specification-level exact form
* `spec.isRelabelling {graph, canon, mapping}` → "ok" or the first failing clause
* `spec.covEq {g, h}` → equal on the covered attributes (same ids, keys, adjacency) -/
def handle : Driver.Handler := fun cmd j =>
  match cmd with
  | "canon.by" => some do
    pure (Driver.graphToJson (canonBy (← natList j "order") (← Driver.getGraph j "graph")))
  | "canon.sig" => some do
    pure (serJson (serialise (canonBy (← natList j "order") (← Driver.getGraph j "graph"))))
  | "canon.serialise" => some do
    pure (serJson (serialise (← Driver.getGraph j "graph")))
  | "canon.generic_order" => some do
    pure (toJson (genericOrder (← Driver.getGraph j "graph")))
  | "canon.brute" => some do
    let g ← Driver.getGraph j "graph"
    let o := bruteOrder g
    pure (Json.mkObj [("order", toJson o), ("graph", Driver.graphToJson (canonBy o g)), ("ser", serJson (serialise (canonBy o g)))])
  | "canon.ir" => some do
    let g ← Driver.getGraph j "graph"
    let wl := match j.getObjValAs? Bool "leaves" with | .ok b => b | .error _ => false
    pure (irJson g wl)
  | "canon.ir_refine" => some do
    let g ← Driver.getGraph j "graph"
    let arr ← Driver.getArr j "partition"
    let P ← arr.toList.mapM fun x => (fromJson? x : Except String (List Nat))
    pure (partJson (irRefine g P))
  | "canon.ir_sig" => some do
    let g ← Driver.getGraph j "graph"
    let arr ← Driver.getArr j "partition"
    let P ← arr.toList.mapM fun x => (fromJson? x : Except String (List Nat))
    let s := irSig g P (← Driver.getNat j "node")
    pure (Json.mkObj [("attrs", valsJson s.attrs), ("degree", toJson s.degree), ("counts", toJson s.counts),
      ("edges", Json.arr (s.edges.map valsJson).toArray)])
  | "spec.isRelabelling" => some do
    let m ← Driver.mappingOfJson (← j.getObjVal? "mapping")
    pure (Json.str (checkRelabelling (← Driver.getGraph j "graph") (← Driver.getGraph j "canon") m))
  | "spec.covEq" => some do
    pure (toJson (covEq (← Driver.getGraph j "g") (← Driver.getGraph j "h")))
  | _ => none

end Driver.Canon

import Driver.GraphJson
import SynKitModel.Canon
import SynKitModel.NautyIR
open Lean SynKit SynKit.Canon
namespace Driver.Canon

def natList (j : Json) (k : String) : Except String (List Nat) := do
  let arr ← Driver.getArr j k
  arr.toList.mapM fun x => (fromJson? x : Except String Nat)

def valsJson (xs : List Val) : Json := Json.arr (xs.map Driver.valToJson).toArray

def pairJson (p : Nat × Nat) : Json := Json.arr #[toJson p.1, toJson p.2]

/-- `{"nodes": [[id, [key values]], …], "edges": [[[u, v], [min, max], [order, standard_order]], …]}`
— list order is the order of the items in the serialised text. -/
def serJson (s : Ser) : Json :=
  Json.mkObj [
    ("nodes", Json.arr (s.nodes.map fun p => Json.arr #[toJson p.1, valsJson p.2]).toArray),
    ("edges", Json.arr (s.edges.map fun e => Json.arr #[pairJson e.1, pairJson e.2.1, valsJson e.2.2]).toArray)]

def partJson (P : List (List Nat)) : Json := Json.arr (P.map fun c => (toJson c)).toArray

/-- `{"nodes": [[key values], …], "edges": [null | [order, standard_order], …]}` — the structured
label: one node item per entry of `prefix + order`, one edge item per pair `i < j` in loop order. -/
def labelJson (l : IRLabel) : Json :=
  Json.mkObj [
    ("nodes", Json.arr (l.nodes.map valsJson).toArray),
    ("edges", Json.arr (l.edges.map fun b => match b with | none => Json.null | some x => valsJson x).toArray)]

def bestJson (b : IRBest) : Json :=
  match b with
  | none => Json.null
  | some (l, o) => Json.mkObj [("order", toJson o), ("label", labelJson l)]

/-- Answer of `canon.ir` (every stage of `NautyCanonicalizer.canonical_form`). -/
def irJson (g : LGraph) (withLeaves : Bool) : Json :=
  let p0 := irInitialPartition g
  let best := irCanon g
  let o := irCanonOrder g
  Json.mkObj ([
    ("initial", partJson p0),
    ("refined", partJson (irRefine g p0)),
    ("best", bestJson best),
    ("best_noprune", bestJson (irCanonWith IRLabel.lt irPartialGt false g)),
    ("order", toJson o),
    ("graph", Driver.graphToJson (canonBy o g)),
    ("ser", serJson (serialise (canonBy o g)))] ++
    (if withLeaves then
      [("leaves", Json.arr ((irLeaves g (g.nodes.length + 1) p0 []).map fun l =>
        Json.mkObj [("prefix", toJson l.1), ("order", toJson l.2), ("label", labelJson (irLeafLabel g l))]).toArray)]
    else []))

/-- Python's renderings (`str`) of the label items of one graph, as the harness read them off the
implementation's own expressions: per node item / edge item the string that `_build_label` joins, and the
rendering of an absent edge (`"0:" + ":".join("" for _ in edge_attrs)`). -/
structure StrTbl where
  node : List (List Val × String)
  edge : List (List Val × String)
  zero : String

def lookupStr (t : List (List Val × String)) (k : List Val) : String :=
  match t.find? (fun p => decide (p.1 = k)) with
  | some p => p.2
  | none => "\u0000"

def tblConsistent (t : List (List Val × String)) : Bool :=
  t.all fun p => t.all fun q => !(decide (p.1 = q.1)) || p.2 == q.2

def renderNodes (t : StrTbl) (items : List (List Val)) : String := "|".intercalate (items.map (lookupStr t.node))

/-- `_build_label` as a string: `node_segment + "||" + edge_segment`. -/
def renderLabel (t : StrTbl) (l : IRLabel) : String :=
  renderNodes t l.nodes ++ "||" ++ "|".intercalate (l.edges.map fun b =>
    match b with
    | none => t.zero
    | some k => "1:" ++ lookupStr t.edge k)

/-- `_build_partial_label`: `node_segment + "{" * 1000`. -/
def renderPartial (t : StrTbl) (seg : List (List Val)) : String :=
  renderNodes t seg ++ String.ofList (List.replicate 1000 '{')

/-- Python's `label < best["label"]` (code-point order of the two strings). -/
def ltStr (t : StrTbl) (a b : IRLabel) : Bool := decide (renderLabel t a < renderLabel t b)
/-- Python's `partial_label > best["label"]`. -/
def pgtStr (t : StrTbl) (seg : List (List Val)) (best : IRLabel) : Bool := decide (renderLabel t best < renderPartial t seg)

def strTblOfJson (g : LGraph) (j : Json) : Except String StrTbl := do
  let ns ← Driver.getArr j "nodes"
  let node ← ns.toList.mapM fun x => do
    let a ← (fromJson? x : Except String (Array Json))
    if a.size ≠ 2 then throw "strings.nodes entry"
    let v ← (fromJson? a[0]! : Except String Nat)
    let str ← (fromJson? a[1]! : Except String String)
    pure (irNodeLabKey (g.attrs v), str)
  let es ← Driver.getArr j "edges"
  let edge ← es.toList.mapM fun x => do
    let a ← (fromJson? x : Except String (Array Json))
    if a.size ≠ 3 then throw "strings.edges entry"
    let u ← (fromJson? a[0]! : Except String Nat)
    let v ← (fromJson? a[1]! : Except String Nat)
    let str ← (fromJson? a[2]! : Except String String)
    pure (irEdgeLabKey ((g.edge? u v).getD []), str)
  pure { node, edge, zero := ← Driver.getStr j "zero" }

/-- Answer of `canon.irCapped` (`canonical_form(G, return_perm=True, max_depth=d)`): the model
`irCanonicalFormCappedWith` under the model's structured label order, or — with `strings` — under Python's
own order of the rendered label strings. -/
def irCappedJson (g : LGraph) (d : Nat) (tbl : Option StrTbl) (withRanks : Bool) : Json :=
  let lt : IRLabel → IRLabel → Bool := match tbl with | some t => ltStr t | none => IRLabel.lt
  let pgt : List (List Val) → IRLabel → Bool := match tbl with | some t => pgtStr t | none => irPartialGt
  let run := irCanonCappedWith lt pgt true g d
  let res : List (String × Json) :=
    match irCanonicalFormCappedWith lt pgt true g d with
    | .error .notFound => [("error", Json.str "RuntimeError"), ("early_stop", toJson run.2)]
    | .ok (cg, o, early) =>
      [("error", Json.null), ("early_stop", toJson early), ("order", toJson o), ("best", bestJson run.1),
       ("graph", Driver.graphToJson cg)]
  Json.mkObj (res ++
    (match tbl with
     | some t => [("table_ok", toJson (tblConsistent t.node && tblConsistent t.edge))]
     | none => []) ++
    (if withRanks then
      let leaves := irLeaves g (g.nodes.length + 1) (irInitialPartition g) []
      let labs := leaves.map (irLeafLabel g)
      [("depth", toJson (irDepth g)),
       ("leaf_depths", toJson (leaves.map irLeafDepth)),
       ("full_order", toJson (match irCanonWith lt pgt true g with | some (_, o) => o | none => []))] ++
      (match tbl with
       | some t => [("leaf_strings", toJson (labs.map (renderLabel t)))]
       | none => [])
    else []))

/-- Commands
* `canon.irCapped {graph, max_depth, strings?, ranks?}` → the model of `canonical_form(G, return_perm=True,
  max_depth=d)` (`irCanonicalFormCappedWith`): `{"error": "RuntimeError", "early_stop"}` when no leaf is reached,
  else `{"error": null, "early_stop", "order", "best": {order, label}, "graph"}`.  Label order: the model's
  structured order, or with `"strings": {"nodes": [[v, str]…], "edges": [[u, v, str]…], "zero": str}` Python's
  order of the rendered labels (the model is parametric in the order; `table_ok`: equal items have equal
  renderings).  With `"ranks": true` also `depth` (`irDepth`), `leaf_depths` (per leaf of the unpruned tree
  in visiting order), `full_order` (`best["perm"]` of the uncapped search in the order used) and, with `strings`, `leaf_strings`
  (the rendered leaf labels, to be compared with the implementation's own label strings)
* `canon.ir {graph, leaves?}` → the model of the exact back-end, stage by stage:
  `initial` (`_initial_partition`), `refined` (`_refine` of it), `best` (`{order, label}` of the
  search with pruning, `null` if none), `best_noprune`, `order` (`best["perm"]`), `graph`
  (canonical graph), `ser` (its serialisation) and, with `"leaves": true`, every leaf
  `{prefix, order, label}` of the unpruned search tree in visiting order
* `canon.ir_refine {graph, partition}` → `_refine(G, partition)`
* `canon.ir_sig {graph, partition, node}` → `_node_signature` as `{attrs, degree, counts, edges}`
* `canon.by {graph, order}` → canonical graph for that node order
* `canon.sig {graph, order}` → `serialise (canonBy order graph)`
* `canon.serialise {graph}` → the pre-digest serialisation
* `canon.generic_order {graph}` → node order of the attribute-sort back-end
* `canon.brute {graph}` → `{order, graph, ser}` of the specification-level exact form
* `spec.isRelabelling {graph, canon, mapping}` → "ok" or the first failing clause
* `spec.covEq {g, h}` → equal on the covered attributes (same ids, keys, adjacency) -/
def handle : Driver.Handler := fun cmd j =>
  match cmd with
  | "canon.by" => some do
    pure (Driver.graphToJson (canonBy (← natList j "order") (← Driver.getGraph j "graph")))
  | "canon.sig" => some do
    pure (serJson (serialise (canonBy (← natList j "order") (← Driver.getGraph j "graph"))))
  | "canon.serialise" => some do
    pure (serJson (serialise (← Driver.getGraph j "graph")))
  | "canon.generic_order" => some do
    pure (toJson (genericOrder (← Driver.getGraph j "graph")))
  | "canon.brute" => some do
    let g ← Driver.getGraph j "graph"
    let o := bruteOrder g
    pure (Json.mkObj [("order", toJson o), ("graph", Driver.graphToJson (canonBy o g)), ("ser", serJson (serialise (canonBy o g)))])
  | "canon.ir" => some do
    let g ← Driver.getGraph j "graph"
    let wl := match j.getObjValAs? Bool "leaves" with | .ok b => b | .error _ => false
    pure (irJson g wl)
  | "canon.irCapped" => some do
    let g ← Driver.getGraph j "graph"
    let wr := match j.getObjValAs? Bool "ranks" with | .ok b => b | .error _ => false
    let tbl ← match j.getObjVal? "strings" with
      | .ok js => (strTblOfJson g js).map some
      | .error _ => pure none
    pure (irCappedJson g (← Driver.getNat j "max_depth") tbl wr)
  | "canon.ir_refine" => some do
    let g ← Driver.getGraph j "graph"
    let arr ← Driver.getArr j "partition"
    let P ← arr.toList.mapM fun x => (fromJson? x : Except String (List Nat))
    pure (partJson (irRefine g P))
  | "canon.ir_sig" => some do
    let g ← Driver.getGraph j "graph"
    let arr ← Driver.getArr j "partition"
    let P ← arr.toList.mapM fun x => (fromJson? x : Except String (List Nat))
    let s := irSig g P (← Driver.getNat j "node")
    pure (Json.mkObj [("attrs", valsJson s.attrs), ("degree", toJson s.degree), ("counts", toJson s.counts),
      ("edges", Json.arr (s.edges.map valsJson).toArray)])
  | "spec.isRelabelling" => some do
    let m ← Driver.mappingOfJson (← j.getObjVal? "mapping")
    pure (Json.str (checkRelabelling (← Driver.getGraph j "graph") (← Driver.getGraph j "canon") m))
  | "spec.covEq" => some do
    pure (toJson (covEq (← Driver.getGraph j "g") (← Driver.getGraph j "h")))
  | _ => none

end Driver.Canon

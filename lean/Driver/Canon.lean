import Driver.GraphJson
import SynKitModel.Canon
open Lean SynKit SynKit.Canon
namespace Driver.Canon

def natList (j : Json) (k : String) : Except String (List Nat) := do
  let arr ← Driver.getArr j k
  arr.toList.mapM fun x => (fromJson? x : Except String Nat)

def valsJson (xs : List Val) : Json := Json.arr (xs.map Driver.valToJson).toArray

def pairJson (p : Nat × Nat) : Json := Json.arr #[toJson p.1, toJson p.2]

/-- `{"nodes": [[id, [key values]], …], "edges": [[[u, v], [min, max], [order, standard_order]], …]}`
— list order is the order of the items in the serialised text. -/
def serJson (s : Ser) : Json :=
  Json.mkObj [
    ("nodes", Json.arr (s.nodes.map fun p => Json.arr #[toJson p.1, valsJson p.2]).toArray),
    ("edges", Json.arr (s.edges.map fun e => Json.arr #[pairJson e.1, pairJson e.2.1, valsJson e.2.2]).toArray)]

/-- Commands
* `canon.by {graph, order}` → canonical graph for that node order
* `canon.sig {graph, order}` → `serialise (canonBy order graph)`
* `canon.serialise {graph}` → the pre-digest serialisation
* `canon.generic_order {graph}` → node order of the attribute-sort back-end
* `canon.brute {graph}` → `{order, graph, ser}` of the specification-level exact form
* `spec.isRelabelling {graph, canon, mapping}` → "ok" or the first failing clause
* `spec.covEq {g, h}` → equal on the covered attributes (same ids, keys, adjacency) -/
def handle : Driver.Handler := fun cmd j =>
  match cmd with
  | "canon.by" => some do
    pure (Driver.graphToJson (canonBy (← natList j "order") (← Driver.getGraph j "graph")))
  | "canon.sig" => some do
    pure (serJson (serialise (canonBy (← natList j "order") (← Driver.getGraph j "graph"))))
  | "canon.serialise" => some do
    pure (serJson (serialise (← Driver.getGraph j "graph")))
  | "canon.generic_order" => some do
    pure (toJson (genericOrder (← Driver.getGraph j "graph")))
  | "canon.brute" => some do
    let g ← Driver.getGraph j "graph"
    let o := bruteOrder g
    pure (Json.mkObj [("order", toJson o), ("graph", Driver.graphToJson (canonBy o g)), ("ser", serJson (serialise (canonBy o g)))])
  | "spec.isRelabelling" => some do
    let m ← Driver.mappingOfJson (← j.getObjVal? "mapping")
    pure (Json.str (checkRelabelling (← Driver.getGraph j "graph") (← Driver.getGraph j "canon") m))
  | "spec.covEq" => some do
    pure (toJson (covEq (← Driver.getGraph j "g") (← Driver.getGraph j "h")))
  | _ => none

end Driver.Canon

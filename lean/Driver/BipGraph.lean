import Driver.Util
import Driver.Stoich
import SynKitModel.BipGraph
/-!
Driver command for the graph entry path (C17; `SynKitModel/BipGraph.lean`).

* `bip.stoich` — a bipartite NetworkX graph, serialised node by node (`G.nodes(data=True)` order)
  and edge by edge (the `add_edge` calls, or the stored edges `G.edges(data=True)`), →
  what `build_S_minus_plus(G)` / `build_S(G)` return according to the model (`rows`, `cols`,
  `S_minus`, `S_plus`, `S`, or `error`), the network the graph describes (`net`: `netOfGraph`),
  whether the hypotheses of `graphS_eq_buildS` hold (`wfCore`: `WF`; `reactionLabelsDistinct`;
  `wf`: both) and whether its conclusion holds on this input (`netAgrees`); `stored` / `bipartite`:
  the edges NetworkX holds / the arcs `_as_bipartite` returns (diagnostics).

Input: `{"directed": b, "multi": b, "nodes": [{"id": s, "kind": s|null, "flag": i|null,
"label": s|null}], "arcs": [{"src": s, "dst": s, "role": s|null, "stoich": i|null}]}`; an absent
key and `null` both mean "attribute absent". Coefficients are integers; floats never cross.
-/
open Lean SynKit SynKit.Store SynKit.Stoich SynKit.BipGraph
namespace Driver.BipGraph

def getOptInt (j : Json) (k : String) : Except String (Option Int) :=
  match j.getObjVal? k with
  | .ok .null => .ok none
  | .ok v => (fromJson? v : Except String Int).map some
  | .error _ => .ok none

def parseNode (j : Json) : Except String BNode := do
  pure ⟨← Driver.getStr j "id", ← Driver.getOptStr j "kind", ← getOptInt j "flag", ← Driver.getOptStr j "label"⟩

def parseArc (j : Json) : Except String BArc := do
  pure ⟨← Driver.getStr j "src", ← Driver.getStr j "dst", ← Driver.getOptStr j "role", ← getOptInt j "stoich"⟩

def parseGraph (j : Json) : Except String BipGraph := do
  let ns ← (← Driver.getArr j "nodes").toList.mapM parseNode
  let as ← (← Driver.getArr j "arcs").toList.mapM parseArc
  pure ⟨ns, as, ← Driver.getBool j "directed", ← Driver.getBool j "multi"⟩

def sideJson (s : Side) : Json :=
  Json.arr (s.map fun kv => Json.arr #[Json.str kv.1, toJson kv.2]).toArray

def edgeJson (e : Edge) : Json :=
  Json.mkObj [("id", e.id), ("rule", e.rule), ("r", sideJson e.reactants), ("p", sideJson e.products)]

def netJson (N : Net) : Json :=
  Json.mkObj [("species", Driver.strList N.species), ("edges", Json.arr (N.edges.map edgeJson).toArray)]

def arcJson (a : BArc) : Json :=
  Json.mkObj [("src", a.src), ("dst", a.dst),
    ("role", match a.role with | some r => Json.str r | none => Json.null),
    ("stoich", match a.stoich with | some c => toJson c | none => Json.null)]

def resEq : Except Stoich.Err SResult → Except Stoich.Err SResult → Bool
  | .ok a, .ok b => decide (a = b)
  | .error _, .error _ => true
  | _, _ => false

def handle : Driver.Handler := fun cmd j =>
  match cmd with
  | "bip.stoich" => some do
    let g ← parseGraph j
    let N := netOfGraph g
    let netRes : Json := match buildS N with
      | .error .valueError => Json.mkObj [("error", "ValueError")]
      | .ok r => Json.mkObj [("species", Driver.strList r.species), ("rules", Driver.strList r.rules),
                             ("S", Driver.Stoich.imatJson r.S)]
    let common : List (String × Json) := [
      ("net", netJson N), ("netBuildS", netRes),
      ("stored", Json.arr ((effArcs g).map arcJson).toArray),
      ("bipartite", Json.arr ((asBipartite g).map arcJson).toArray),
      ("wf", Json.bool (wfB g)),
      ("wfCore", Json.bool (decide (IdsDistinct g) && decide (((speciesNodes g).map nodeKey).Nodup) &&
        g.arcs.all (fun a => decide (0 ≤ a.stoich.getD 1)))),
      ("reactionLabelsDistinct", Json.bool (decide (ReactionLabelsDistinct g))),
      ("netAgrees", Json.bool (resEq (graphBuildS g) (buildS N) &&
        decide (graphSMinus g = buildSMinus N) && decide (graphSPlus g = buildSPlus N)))]
    match graphBuildS g with
    | .error .valueError => pure (Json.mkObj (("error", "ValueError") :: common))
    | .ok res =>
      pure (Json.mkObj ([
        ("rows", Driver.strList res.species), ("cols", Driver.strList res.rules),
        ("rowIds", Driver.strList ((speciesRows g).map (·.id))),
        ("colIds", Driver.strList ((reactionCols g).map (·.id))),
        ("S_minus", Driver.Stoich.imatJson (graphSMinus g)),
        ("S_plus", Driver.Stoich.imatJson (graphSPlus g)),
        ("S", Driver.Stoich.imatJson res.S)] ++ common))
  | _ => none

end Driver.BipGraph

import Driver.Util
import Driver.Stoich
import Driver.NetJson
import SynKitModel.BipGraph
import SynKitModel.BipGraphViews
/-!
Driver commands for the graph entry path (C17; `SynKitModel/BipGraph.lean`; C19 / C20:
`SynKitModel/BipGraphViews.lean`).

* `bip.stoich` — a bipartite NetworkX graph, serialised node by node (`G.nodes(data=True)` order)
  and edge by edge (the `add_edge` calls, or the stored edges `G.edges(data=True)`), →
  what `build_S_minus_plus(G)` / `build_S(G)` return according to the model (`rows`, `cols`,
  `S_minus`, `S_plus`, `S`, or `error`), the network the graph describes (`net`: `netOfGraph`),
  whether the hypotheses of `graphS_eq_buildS` hold (`wfCore`: `WF`; `reactionLabelsDistinct`;
  `wf`: both) and whether its conclusion holds on this input (`netAgrees`); `stored` / `bipartite`:
  the edges NetworkX holds / the arcs `_as_bipartite` returns (diagnostics).

* `bip.complexes` — the same serialised graph (optionally `rank`: the exact stoichiometric rank) →
  what `_complex_vectors` reads off it according to the model: `complexes` / `arcs`
  (`graphComplexVectors`, i.e. on `_as_bipartite(G)`), `raw_complexes` / `raw_arcs` (the helper on the
  graph as given), `reaction_complexes` (`[node id, y, y']` per reaction node), `classes`,
  `weakly_reversible`, `summary` (when `rank` is given), or `error`; the described network `net`
  (`netOfGraph`) and `view` (`viewNet (netOfGraph g)` in the `Driver/NetJson.lean` format, ready for
  `def.analyse` / `petri.structure`); `wfCore` (`WF`) and `agrees`: the conclusion of
  `graphComplexes_eq` / `graphComplexesRaw_eq` / `graphSummary_eq` evaluated on this input.
* `bip.structure` — the serialised graph, `sets` (lists of species indices) and `max_size` →
  `siphon` / `trap`: `graphSiphonPred` / `graphTrapPred` on every set, `net_siphon` / `net_trap`:
  `Petri.isSiphon` / `isTrap` of `view` on the same sets, `siphons` / `traps` (+ `_idx`): the families
  `graphFindSiphons` / `graphFindTraps` (sorted), `net`, `view`, `wfCore`, `agrees`: the conclusion of
  `graphSiphonPred_eq` / `graphTrapPred_eq` / `graphFindSiphons_eq` on this input.

Input: `{"directed": b, "multi": b, "nodes": [{"id": s, "kind": s|null, "flag": i|null,
"label": s|null}], "arcs": [{"src": s, "dst": s, "role": s|null, "stoich": i|null}]}`; an absent
key and `null` both mean "attribute absent". Coefficients are integers; floats never cross.
-/
open Lean SynKit SynKit.Store SynKit.Stoich SynKit.BipGraph
namespace Driver.BipGraph
open Driver.NetJson (natListJson natListsJson intListJson strListsJson sortStrLists sortNatLists)

def getOptInt (j : Json) (k : String) : Except String (Option Int) :=
  match j.getObjVal? k with
  | .ok .null => .ok none
  | .ok v => (fromJson? v : Except String Int).map some
  | .error _ => .ok none

def parseNode (j : Json) : Except String BNode := do
  pure ⟨← Driver.getStr j "id", ← Driver.getOptStr j "kind", ← getOptInt j "flag", ← Driver.getOptStr j "label"⟩

def parseArc (j : Json) : Except String BArc := do
  pure ⟨← Driver.getStr j "src", ← Driver.getStr j "dst", ← Driver.getOptStr j "role", ← getOptInt j "stoich"⟩

def parseGraph (j : Json) : Except String BipGraph := do
  let ns ← (← Driver.getArr j "nodes").toList.mapM parseNode
  let as ← (← Driver.getArr j "arcs").toList.mapM parseArc
  pure ⟨ns, as, ← Driver.getBool j "directed", ← Driver.getBool j "multi"⟩

def sideJson (s : Side) : Json :=
  Json.arr (s.map fun kv => Json.arr #[Json.str kv.1, toJson kv.2]).toArray

def edgeJson (e : Edge) : Json :=
  Json.mkObj [("id", e.id), ("rule", e.rule), ("r", sideJson e.reactants), ("p", sideJson e.products)]

def netJson (N : Stoich.Net) : Json :=
  Json.mkObj [("species", Driver.strList N.species), ("edges", Json.arr (N.edges.map edgeJson).toArray)]

def arcJson (a : BArc) : Json :=
  Json.mkObj [("src", a.src), ("dst", a.dst),
    ("role", match a.role with | some r => Json.str r | none => Json.null),
    ("stoich", match a.stoich with | some c => toJson c | none => Json.null)]

def rxnJson (r : Rxn) : Json :=
  Json.mkObj [("id", r.id), ("rule", r.rule), ("r", sideJson r.reactants), ("p", sideJson r.products)]

/-- The ordered network in the format `Driver/NetJson.lean` reads. -/
def viewJson (N : SynKit.Net) : Json :=
  Json.mkObj [("species", Driver.strList N.species), ("reactions", Json.arr (N.reactions.map rxnJson).toArray)]

def intRowsJson (rows : List (List Int)) : Json := Json.arr (rows.map intListJson).toArray

def pairsJson (ps : List (Nat × Nat)) : Json := Json.arr (ps.map fun a => natListJson [a.1, a.2]).toArray

def resEq : Except Stoich.Err SResult → Except Stoich.Err SResult → Bool
  | .ok a, .ok b => decide (a = b)
  | .error _, .error _ => true
  | _, _ => false

def handle : Driver.Handler := fun cmd j =>
  match cmd with
  | "bip.stoich" => some do
    let g ← parseGraph j
    let N := netOfGraph g
    let netRes : Json := match buildS N with
      | .error .valueError => Json.mkObj [("error", "ValueError")]
      | .ok r => Json.mkObj [("species", Driver.strList r.species), ("rules", Driver.strList r.rules),
                             ("S", Driver.Stoich.imatJson r.S)]
    let common : List (String × Json) := [
      ("net", netJson N), ("netBuildS", netRes),
      ("stored", Json.arr ((effArcs g).map arcJson).toArray),
      ("bipartite", Json.arr ((asBipartite g).map arcJson).toArray),
      ("wf", Json.bool (wfB g)),
      ("wfCore", Json.bool (decide (IdsDistinct g) && decide (((speciesNodes g).map nodeKey).Nodup) &&
        g.arcs.all (fun a => decide (0 ≤ a.stoich.getD 1)))),
      ("reactionLabelsDistinct", Json.bool (decide (ReactionLabelsDistinct g))),
      ("netAgrees", Json.bool (resEq (graphBuildS g) (buildS N) &&
        decide (graphSMinus g = buildSMinus N) && decide (graphSPlus g = buildSPlus N)))]
    match graphBuildS g with
    | .error .valueError => pure (Json.mkObj (("error", "ValueError") :: common))
    | .ok res =>
      pure (Json.mkObj ([
        ("rows", Driver.strList res.species), ("cols", Driver.strList res.rules),
        ("rowIds", Driver.strList ((speciesRows g).map (·.id))),
        ("colIds", Driver.strList ((reactionCols g).map (·.id))),
        ("S_minus", Driver.Stoich.imatJson (graphSMinus g)),
        ("S_plus", Driver.Stoich.imatJson (graphSPlus g)),
        ("S", Driver.Stoich.imatJson res.S)] ++ common))
  | "bip.complexes" => some do
    let g ← parseGraph j
    let V := analysisNet g
    let cv := graphComplexVectors g
    let raw := graphComplexVectorsRaw g
    let want := liftVectors (Deficiency.complexVectors V)
    let rank := (Driver.getNat j "rank").toOption
    let sumAgrees : Bool := match rank with
      | none => true
      | some k => decide (graphSummary g k = Deficiency.computeSummary V k)
    let common : List (String × Json) := [
      ("net", netJson (netOfGraph g)), ("view", viewJson V), ("wfCore", Json.bool (wfCoreB g)),
      ("agrees", Json.bool (decide (cv = want) && decide (raw = want) &&
        decide (graphLinkageClasses g = Deficiency.linkageClasses V) &&
        (graphWeaklyReversible g == Deficiency.weaklyReversible V) && sumAgrees))]
    if (speciesNodes g).isEmpty || (reactionNodes g).isEmpty then
      pure (Json.mkObj (("error", "ValueError") :: common))
    else
      let summ : List (String × Json) := match rank with
        | none => []
        | some k => match graphSummary g k with
          | .error .valueError => [("summary", Json.mkObj [("error", "ValueError")])]
          | .ok s => [("summary", Json.mkObj [("n_species", s.nSpecies), ("n_reactions", s.nReactions),
              ("n_complexes", s.nComplexes), ("n_linkage_classes", s.nLinkage), ("stoich_rank", s.rank),
              ("deficiency", toJson s.deficiency), ("weakly_reversible", Json.bool s.weaklyReversible)])]
      pure (Json.mkObj ([
        ("rows", Driver.strList (rowLabels g)), ("rowIds", Driver.strList ((speciesRows g).map (·.id))),
        ("reactionIds", Driver.strList ((reactionNodes g).map (·.id))),
        ("complexes", intRowsJson cv.1), ("arcs", pairsJson cv.2),
        ("raw_complexes", intRowsJson raw.1), ("raw_arcs", pairsJson raw.2),
        ("reaction_complexes", Json.arr ((graphReactionComplexes g).map fun t =>
          Json.arr #[Json.str t.1, intListJson t.2.1, intListJson t.2.2]).toArray),
        ("classes", natListsJson (graphLinkageClasses g)),
        ("weakly_reversible", Json.bool (graphWeaklyReversible g))] ++ summ ++ common))
  | "bip.structure" => some do
    let g ← parseGraph j
    let V := analysisNet g
    let ms ← Driver.NetJson.getOptNat j "max_size"
    let sets : List (List Nat) ← match j.getObjVal? "sets" with
      | .ok (.arr xs) => xs.toList.mapM fun x => (fromJson? x : Except String (List Nat))
      | _ => pure []
    let gs := sets.map (graphSiphonPred g)
    let gt := sets.map (graphTrapPred g)
    let ns := sets.map (Petri.isSiphon V)
    let nt := sets.map (Petri.isTrap V)
    let fs := graphFindSiphonsIdx g ms
    let ft := graphFindTrapsIdx g ms
    let bools (l : List Bool) : Json := Json.arr (l.map Json.bool).toArray
    pure (Json.mkObj [
      ("net", netJson (netOfGraph g)), ("view", viewJson V), ("wfCore", Json.bool (wfCoreB g)),
      ("rows", Driver.strList (rowLabels g)),
      ("siphon", bools gs), ("trap", bools gt), ("net_siphon", bools ns), ("net_trap", bools nt),
      ("siphons", strListsJson (sortStrLists (graphFindSiphons g ms))),
      ("traps", strListsJson (sortStrLists (graphFindTraps g ms))),
      ("siphons_idx", natListsJson (sortNatLists fs)), ("traps_idx", natListsJson (sortNatLists ft)),
      ("agrees", Json.bool (decide (gs = ns) && decide (gt = nt) &&
        decide (fs = Petri.findSiphonsIdx V ms) && decide (ft = Petri.findTrapsIdx V ms) &&
        decide (graphFindSiphons g ms = Petri.findSiphons V ms) &&
        decide (graphFindTraps g ms = Petri.findTraps V ms)))])
  | _ => none

end Driver.BipGraph

import Driver.GraphJson
import SynKitModel.Automorphism
open Lean SynKit SynKit.Match SynKit.Aut
namespace Driver.Automorphism

def natLt (a b : List Nat) : Bool :=
  match a, b with
  | [], [] => false
  | [], _ => true
  | _, [] => false
  | x :: xs, y :: ys => if x < y then true else if y < x then false else natLt xs ys

/-- a set of sets: members sorted, the list sorted lexicographically -/
def setsToJson (xs : List (List Nat)) : Json :=
  let norm := xs.map sortDedup
  Json.arr ((norm.toArray.qsort natLt).map fun o => toJson o)

def optSetToJson : Option (List Nat) → Json
  | none => Json.null
  | some s => toJson (sortDedup s)

def getNatLists (j : Json) (k : String) : Except String (Option (List (List Nat))) :=
  match j.getObjVal? k with
  | .ok .null => pure none
  | .error _ => pure none
  | .ok v => do
    let arr ← (fromJson? v : Except String (Array (Array Nat)))
    pure (some (arr.toList.map (·.toList)))

def getNatList (j : Json) (k : String) : Except String (Option (List Nat)) :=
  match j.getObjVal? k with
  | .ok .null => pure none
  | .error _ => pure none
  | .ok v => do
    let arr ← (fromJson? v : Except String (Array Nat))
    pure (some arr.toList)

/-- a mapping in dict order (NOT sorted: `mapping.values()` order is part of the input) -/
def rawMappingToJson (m : Driver.Mapping) : Json :=
  Json.arr (m.map fun (p, h) => Json.arr #[toJson p, toJson h]).toArray

/-- Commands:
* `aut.exact {graph, node_keys, edge_keys, anchor_largest}` → `{orbits, n_aut, anchor, components}`
* `aut.wl {graph, node_keys, edge_keys, max_iter}` → `{orbits, anchor, rounds_orbits}` (`rounds_orbits` = the
  colour classes after 0..max_iter sweeps without early stop)
* `aut.dedup {matches, pattern_orbits, pattern_anchor, host_orbits}` → `{kept: [...]}` or `{error: "ValueError"}`
* `spec.aut {graph, node_keys, edge_keys}` → per component: number of automorphisms and orbits, read directly
  off the enumerated automorphism list (the right-hand sides of `aut_count_exact` / `orbits_exact`). -/
def handle : Driver.Handler := fun cmd j =>
  match cmd with
  | "aut.exact" => some do
    let nk ← Driver.getStrList j "node_keys"
    let ek ← Driver.getStrList j "edge_keys"
    let al := (Driver.getBool j "anchor_largest").toOption.getD true
    let cfg : Cfg := { nodeKeys := resolveKeys nk ["element", "charge"], edgeKeys := resolveKeys ek ["order"], anchorLargest := al }
    let g ← Driver.getGraph j "graph"
    let r := analyze cfg g
    pure (Json.mkObj [("orbits", setsToJson r.orbits), ("n_aut", toJson r.nAut),
      ("anchor", optSetToJson r.anchor), ("components", setsToJson r.comps)])
  | "aut.wl" => some do
    let nk ← Driver.getStrList j "node_keys"
    let ek ← Driver.getStrList j "edge_keys"
    let mi := (Driver.getNat j "max_iter").toOption.getD 10
    let cfg : EstCfg := { nodeKeys := nk, edgeKeys := ek, maxIter := mi }
    let g ← Driver.getGraph j "graph"
    let rounds := (List.range (mi + 1)).map fun k => setsToJson (orbitsOfColors (colorsAt cfg g k))
    pure (Json.mkObj [("orbits", setsToJson (estOrbits cfg g)), ("anchor", toJson (estAnchor g)),
      ("rounds_orbits", Json.arr rounds.toArray)])
  | "aut.dedup" => some do
    let arr ← Driver.getArr j "matches"
    let ms ← arr.toList.mapM Driver.mappingOfJson
    let args : DedupArgs := { patternOrbits := ← getNatLists j "pattern_orbits",
                              patternAnchor := ← getNatList j "pattern_anchor",
                              hostOrbits := ← getNatLists j "host_orbits" }
    match dedup args ms with
    | .ok r => pure (Json.mkObj [("kept", Json.arr (r.map rawMappingToJson).toArray)])
    | .error .valueError => pure (Json.mkObj [("error", "ValueError")])
  | "spec.aut" => some do
    let nk ← Driver.getStrList j "node_keys"
    let ek ← Driver.getStrList j "edge_keys"
    let cfg : Cfg := { nodeKeys := resolveKeys nk ["element", "charge"], edgeKeys := resolveKeys ek ["order"] }
    let g ← Driver.getGraph j "graph"
    let gn := normalize cfg g
    let comps := components g
    let parts := if comps.length ≤ 1 then [gn] else comps.map (induce gn)
    let counts := parts.map fun p => (auts cfg.sel p).length
    let orbs := parts.flatMap fun p => p.ids.map fun u => orbitBySpec cfg.sel p u
    pure (Json.mkObj [("counts", toJson counts), ("orbits", setsToJson (dedupR orbs)),
      ("wf", toJson (decide g.WF))])
  | _ => none

end Driver.Automorphism

import Driver.GraphJson
import Driver.Match
import SynKitModel.ReactorInv
open Lean SynKit SynKit.Match SynKit.ReactorInv
namespace Driver.ReactorInv

def getMappings (j : Json) (k : String) : Except String (List Mapping) := do
  let arr ← Driver.getArr j k
  arr.toList.mapM Driver.mappingOfJson

def getNatList (j : Json) (k : String) : Except String (List Nat) := do
  let arr ← Driver.getArr j k
  arr.toList.mapM fun x => (fromJson? x : Except String Nat)

/-- A list of mappings in the given order (each mapping sorted by pattern node). -/
def mappingListToJson (ms : List Mapping) : Json := Json.arr (ms.map Driver.mappingToJson).toArray

/-- Commands:
* `rinv.subpattern` {host, pattern, node_keys, edge_keys} → Bool (`subPatternB`);
* `rinv.id_in_monos` {host, pattern, node_keys, edge_keys} → Bool (the identity embedding is enumerated by `allMonos`);
* `rinv.monos_relabel` {host, pattern, node_keys, edge_keys, f: [[old,new]…], pi: [[old,new]…]} →
  {"base": set of matches, "relabelled": set of matches of the relabelled pair} (both canonically sorted);
* `rinv.prune` {keep, group, matches, max_group} → pruned list of matches, in order;
* `rinv.prune_spec` {keep, group, matches, kept} → Bool (`pruneSpecB`: kept is a sub-list of the raw matches and
  every raw match is kept or related to a kept one by rule automorphisms);
* `rinv.prune_partial` {keep, group, matches, max_group} → {"status": "ok", "kept": [...]} | {"status": "KeyError"} |
  {"status": "ValueError"} (`pruneWithCap`: `_prune_by_rule_automorphisms` followed literally; the matches may be
  partial, i.e. lack pattern nodes; `keep` is a set: duplicate-free). -/
def handle : Driver.Handler := fun cmd j =>
  match cmd with
  | "rinv.subpattern" => some do
    let sel ← Driver.Match.selOfJson j
    pure (toJson (subPatternB sel (← Driver.getGraph j "host") (← Driver.getGraph j "pattern")))
  | "rinv.id_in_monos" => some do
    let sel ← Driver.Match.selOfJson j
    let H ← Driver.getGraph j "host"
    let P ← Driver.getGraph j "pattern"
    pure (toJson ((allMonos sel H P).contains (idMap P)))
  | "rinv.monos_relabel" => some do
    let sel ← Driver.Match.selOfJson j
    let H ← Driver.getGraph j "host"
    let P ← Driver.getGraph j "pattern"
    let f ← Driver.mappingOfJson (← j.getObjVal? "f")
    let pi ← Driver.mappingOfJson (← j.getObjVal? "pi")
    let app (t : Mapping) (x : Nat) : Nat := (Mapping.get? t x).getD x
    pure (Json.mkObj [
      ("base", Driver.mappingsToJson (allMonos sel H P)),
      ("image", Driver.mappingsToJson ((allMonos sel H P).map fun m => relabelHost (app f) (relabelPat (app pi) m))),
      ("relabelled", Driver.mappingsToJson (allMonos sel (H.relabel (app f)) (P.relabel (app pi))))])
  | "rinv.prune" => some do
    let keep ← getNatList j "keep"
    let group ← getMappings j "group"
    let ms ← getMappings j "matches"
    let mg ← Driver.getNat j "max_group"
    pure (mappingListToJson (pruneByAut mg keep group ms))
  | "rinv.prune_spec" => some do
    let keep ← getNatList j "keep"
    let group ← getMappings j "group"
    let raw ← getMappings j "matches"
    let kept ← getMappings j "kept"
    pure (toJson (pruneSpecB keep group raw kept))
  | "rinv.prune_partial" => some do
    let keep ← getNatList j "keep"
    let group ← getMappings j "group"
    let ms ← getMappings j "matches"
    let mg ← Driver.getNat j "max_group"
    pure (match pruneWithCap mg keep group ms with
      | .ok kept => Json.mkObj [("status", toJson "ok"), ("kept", mappingListToJson kept)]
      | .keyError => Json.mkObj [("status", toJson "KeyError")]
      | .valueError => Json.mkObj [("status", toJson "ValueError")])
  | _ => none

end Driver.ReactorInv

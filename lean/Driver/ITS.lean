import Driver.GraphJson
import SynKitModel.ITS
import SynKitModel.RsmiGraph
open Lean SynKit SynKit.ITS
namespace Driver.ITS

def optBool (j : Json) (k : String) (d : Bool) : Bool := (Driver.getBool j k).toOption.getD d
def optStr (j : Json) (k : String) (d : String) : String := (Driver.getStr j k).toOption.getD d

def rcOptsOfJson (j : Json) : RcOpts :=
  let d : RcOpts := {}
  { elementKey := (Driver.getStrList j "element_key").toOption.getD d.elementKey
    bondKey := optStr j "bond_key" d.bondKey
    standardKey := optStr j "standard_key" d.standardKey
    disconnected := optBool j "disconnected" false
    keepMtg := optBool j "keep_mtg" false }

def natList (j : Json) (k : String) : Except String (List Nat) := do
  let arr ← Driver.getArr j k
  arr.toList.mapM fun x => (fromJson? x : Except String Nat)

/-- The adjacency order sent with `its.extractFree` (`adj`), as a function; without the field, the order
the edge list induces (`LGraph.neighbors`). -/
def adjOfJson (j : Json) (I : LGraph) : Except String (Nat → List Nat) :=
  match Driver.getArr j "adj" with
  | .error _ => pure I.neighbors
  | .ok arr => do
    let tbl ← arr.toList.mapM fun x => do
      let a ← (fromJson? x : Except String (Array Json))
      if a.size ≠ 2 then throw "adj record"
      pure ((← (fromJson? a[0]! : Except String Nat)), (← (fromJson? a[1]! : Except String (List Nat))))
    pure fun v => ((tbl.find? (·.1 = v)).map (·.2)).getD []

/-- Commands (graphs are returned in model order; the harness canonicalises both sides):
* `its.construct {G, H, ignore_arom?, balance?, store?}` → `{graph}` | `{error}`
* `its.decompose {its}` → `{G, H}` | `{error}`
* `its.rc {its, element_key?, bond_key?, standard_key?, disconnected?, keep_mtg?}` → graph
* `its.extractK {its, k}` → graph;  `its.expand {its, seeds, k}` → node list
* `its.extractFree {its, adj?}` → graph with an extra field `radius` (`extract_k(its, -1)` and the radius it
  picked); `adj = [[node, [neighbours in NetworkX adjacency order]], …]`, default: the order of the edge list
* `its.unequalOrderEdges {its}` → `{nodes: [sorted]}` | `{error}` (`find_unequal_order_edges`)
* `its.rsmiGraphs {its}` → `{keep: [atom maps, sorted], reactant: graph, product: graph}` | `{error}`
  (the `preserve_atom_maps` list and the two graphs `its_to_rsmi` hands to `GraphToMol`)
* `its.smiGraph {graph, keep}` → graph | `{error}` (the graph step of `graph_to_smi`)
* `spec.its.rc {its, rc}`, `spec.its.union {G, H, its}`, `spec.its.sameMol {A, B}` → bool -/
def handle : Driver.Handler := fun cmd j =>
  match cmd with
  | "its.construct" => some do
    let G ← Driver.getGraph j "G"
    let H ← Driver.getGraph j "H"
    let o : Opts := { ignoreArom := optBool j "ignore_arom" false, balance := optBool j "balance" false,
                      store := optBool j "store" false }
    if constructDefined G H then pure (Json.mkObj [("graph", Driver.graphToJson (construct o G H))])
    else pure (Json.mkObj [("error", "TypeError")])
  | "its.decompose" => some do
    let I ← Driver.getGraph j "its"
    if decomposeDefined I then
      let r := decompose I
      pure (Json.mkObj [("G", Driver.graphToJson r.1), ("H", Driver.graphToJson r.2)])
    else pure (Json.mkObj [("error", "TypeError")])
  | "its.rc" => some do
    let I ← Driver.getGraph j "its"
    pure (Driver.graphToJson (getRc (rcOptsOfJson j) I))
  | "its.extractK" => some do
    let I ← Driver.getGraph j "its"
    pure (Driver.graphToJson (extractK I (← Driver.getNat j "k")))
  | "its.extractFree" => some do
    let I ← Driver.getGraph j "its"
    let adj ← adjOfJson j I
    pure ((Driver.graphToJson (extractFreeAdj adj I)).setObjVal! "radius" (toJson (freeRadiusAdj adj I)))
  | "its.unequalOrderEdges" => some do
    let I ← Driver.getGraph j "its"
    if unequalDefined I then pure (Json.mkObj [("nodes", toJson ((unequalOrderEdges I).toArray.qsort (· < ·)))])
    else pure (Json.mkObj [("error", "IndexError")])
  | "its.expand" => some do
    let I ← Driver.getGraph j "its"
    let xs := expand I (← natList j "seeds") (← Driver.getNat j "k")
    pure (toJson (xs.toArray.qsort (· < ·)))
  | "its.rsmiGraphs" => some do
    let I ← Driver.getGraph j "its"
    if rsmiDefined I then
      let r := rsmiGraphs I
      pure (Json.mkObj [("keep", toJson ((rcHydrogenMaps I).toArray.qsort (· < ·))),
        ("reactant", Driver.graphToJson r.1), ("product", Driver.graphToJson r.2)])
    else pure (Json.mkObj [("error", "unsupported")])
  | "its.smiGraph" => some do
    let g ← Driver.getGraph j "graph"
    let keep ← natList j "keep"
    if smiDefined g keep then pure (Driver.graphToJson (smiGraph g keep))
    else pure (Json.mkObj [("error", "unsupported")])
  | "spec.its.rc" => some do
    pure (toJson (rcSpec (← Driver.getGraph j "its") (← Driver.getGraph j "rc")))
  | "spec.its.union" => some do
    pure (toJson (itsSpec (← Driver.getGraph j "G") (← Driver.getGraph j "H") (← Driver.getGraph j "its")))
  | "spec.its.sameMol" => some do
    pure (toJson (sameMol (← Driver.getGraph j "A") (← Driver.getGraph j "B")))
  | _ => none

end Driver.ITS

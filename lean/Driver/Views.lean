import Driver.Util
import SynKitModel.Views
import SynKitModel.ViewsRaw
import SynKitModel.ViewsClaim
/-! Driver commands for the network views (C16).

Net:    {"species": [s…], "rxns": [{"id","rule","r": [[s,c]…], "p": [[s,c]…]}…], "mol": [[s,m]…]}
        (list orders are the Python iteration orders; the model never depends on them beyond
        what the code does)
Flags:  {"sp": str|null, "rp": str|null, "bip": [a,b], "stoich","role","isolated","int","eid","mol": bool}
Output: canonical — nodes sorted by id, edges by (u,v), species/reactions/sides/mol sorted.
-/
open Lean SynKit SynKit.Views
namespace Driver.Views

def sideOfJson (j : Json) : Except String Side := do
  let arr ← (fromJson? j : Except String (Array Json))
  arr.toList.mapM fun kv => do
    let pr ← (fromJson? kv : Except String (Array Json))
    if pr.size ≠ 2 then throw "side entry"
    pure ((← (fromJson? pr[0]! : Except String String)), (← (fromJson? pr[1]! : Except String Nat)))

def netOfJson (j : Json) : Except String Net := do
  let sp ← (← Driver.getArr j "species").toList.mapM fun s => (fromJson? s : Except String String)
  let rx ← (← Driver.getArr j "rxns").toList.mapM fun r => do
    pure (⟨← Driver.getStr r "id", ← Driver.getStr r "rule", ← sideOfJson (← r.getObjVal? "r"),
           ← sideOfJson (← r.getObjVal? "p")⟩ : Rxn)
  let mol ← (← Driver.getArr j "mol").toList.mapM fun kv => do
    let pr ← (fromJson? kv : Except String (Array Json))
    if pr.size ≠ 2 then throw "mol entry"
    pure ((← (fromJson? pr[0]! : Except String String)), (← (fromJson? pr[1]! : Except String String)))
  pure { species := sp, rxns := rx, mol := mol }

def sideJson (s : Side) : Json :=
  Json.arr ((s.toArray.qsort (fun a b => a.1 < b.1)).map fun kv => Json.arr #[Json.str kv.1, toJson kv.2])

def netJson (N : Net) : Json :=
  Json.mkObj [
    ("species", Driver.strList (Driver.sortedStrs N.species)),
    ("rxns", Json.arr ((N.rxns.toArray.qsort (fun a b => a.id < b.id)).map fun e =>
      Json.mkObj [("id", e.id), ("rule", e.rule), ("r", sideJson e.reactants), ("p", sideJson e.products)])),
    ("mol", Json.arr ((N.mol.toArray.qsort (fun a b => a.1 < b.1)).map fun kv =>
      Json.arr #[Json.str kv.1, Json.str kv.2]))]

def errJson : Err → Json
  | .keyError => "KeyError"
  | .valueError => "ValueError"
  | .indexError => "IndexError"

def resJson (r : Except Err Net) : Json :=
  match r with
  | .ok N => Json.mkObj [("ok", netJson N)]
  | .error e => Json.mkObj [("err", errJson e)]

def optStr (j : Json) (k : String) : Except String (Option String) := Driver.getOptStr j k

def flagsOfJson (j : Json) : Except String BipFlags := do
  let bip ← Driver.getArr j "bip"
  if bip.size ≠ 2 then throw "bip"
  pure { speciesPrefix := ← optStr j "sp", reactionPrefix := ← optStr j "rp",
         bipS := ← (fromJson? bip[0]! : Except String Nat), bipR := ← (fromJson? bip[1]! : Except String Nat),
         includeStoich := ← Driver.getBool j "stoich", includeRole := ← Driver.getBool j "role",
         includeIsolated := ← Driver.getBool j "isolated", integerIds := ← Driver.getBool j "int",
         includeEdgeIdAttr := ← Driver.getBool j "eid", includeMol := ← Driver.getBool j "mol" }

def nidJson : NodeId → Json
  | .str s => Json.str s
  | .int n => toJson n

def nidLt : NodeId → NodeId → Bool
  | .int a, .int b => a < b
  | .str a, .str b => a < b
  | .int _, .str _ => true
  | .str _, .int _ => false

def nidStr : NodeId → String
  | .str s => s
  | .int n => toString n

def optField (k : String) (v : Option Json) : List (String × Json) :=
  match v with
  | some j => [(k, j)]
  | none => []

def bgraphJson (g : BGraph) : Json :=
  let nodes := g.nodes.toArray.qsort (fun a b => nidLt a.id b.id)
  let edges := g.edges.toArray.qsort (fun a b => nidLt a.src b.src || (a.src == b.src && nidLt a.dst b.dst))
  Json.mkObj [
    ("nodes", Json.arr (nodes.map fun n => Json.mkObj ([
      ("id", nidJson n.id), ("bipartite", toJson n.bipartite), ("label", Json.str n.label),
      ("kind", Json.str (match n.kind with | .species => "species" | .reaction => "reaction"))]
      ++ optField "edge_id" (n.edgeId.map Json.str) ++ optField "mol" (n.mol.map Json.str)))),
    ("edges", Json.arr (edges.map fun e => Json.mkObj ([("u", nidJson e.src), ("v", nidJson e.dst)]
      ++ optField "stoich" (e.stoich.map toJson)
      ++ optField "role" (e.role.map fun r => Json.str (match r with | .reactant => "reactant" | .product => "product")))))]

/-- Placeholder for the hash-derived id: the harness compares such ids only by shape. -/
def genIdPlaceholder : GenId := fun rnode _ _ rule => rule ++ "_#" ++ nidStr rnode
def genArcPlaceholder : GenArc := fun u v => "edge_#" ++ u ++ "#" ++ v

def sgraphJson (g : SGraph) : Json :=
  let nodes := g.nodes.toArray.qsort (fun a b => a.id < b.id)
  let edges := g.edges.toArray.qsort (fun a b => a.src < b.src || (a.src == b.src && a.dst < b.dst))
  Json.mkObj [
    ("nodes", Json.arr (nodes.map fun n => Json.mkObj ([("id", Json.str n.id), ("kind", Json.str "species")]
      ++ optField "label" (n.label.map Json.str) ++ optField "mol" (n.mol.map Json.str)))),
    ("edges", Json.arr (edges.map fun e => Json.mkObj [
      ("u", Json.str e.src), ("v", Json.str e.dst),
      ("via", Driver.strList (Driver.sortedStrs e.via)), ("rules", Driver.strList (Driver.sortedStrs e.rules)),
      ("stoich_r", toJson e.stoichR), ("stoich_p", toJson e.stoichP),
      ("stoich_r_map", sideJson e.rMap), ("stoich_p_map", sideJson e.pMap)]))]

def strFlagsOfJson (j : Json) : Except String StrFlags := do
  pure { includeRule := ← Driver.getBool j "rule", includeId := ← Driver.getBool j "id", sort := ← Driver.getBool j "sort" }

def sideRes (r : Except Err Side) : Json :=
  match r with
  | .ok m => Json.mkObj [("ok", Json.arr (m.map fun kv => Json.arr #[Json.str kv.1, toJson kv.2]).toArray)]
  | .error e => Json.mkObj [("err", errJson e)]

/-! Specification predicates (the right-hand sides of the round-trip theorems, on canonical
forms), evaluated on what the implementation returned. -/
def canonSide (m : Side) : List (String × Nat) := (m.toArray.qsort (fun a b => a.1 < b.1 || (a.1 == b.1 && a.2 < b.2))).toList
def canonRxn (e : Rxn) : String × String × List (String × Nat) × List (String × Nat) :=
  (e.id, e.rule, canonSide e.reactants, canonSide e.products)
def ltSide : List (String × Nat) → List (String × Nat) → Bool
  | [], [] => false
  | [], _ => true
  | _, [] => false
  | a :: as, b :: bs => a.1 < b.1 || (a.1 == b.1 && (a.2 < b.2 || (a.2 == b.2 && ltSide as bs)))
def ltRxn (a b : String × String × List (String × Nat) × List (String × Nat)) : Bool :=
  a.1 < b.1 || (a.1 == b.1 && (a.2.1 < b.2.1 || (a.2.1 == b.2.1 &&
    (ltSide a.2.2.1 b.2.2.1 || (a.2.2.1 == b.2.2.1 && ltSide a.2.2.2 b.2.2.2)))))
def canonRxns (es : List Rxn) (dropId dropRule : Bool) : List (String × String × List (String × Nat) × List (String × Nat)) :=
  ((es.map fun e => let c := canonRxn e; ((if dropId then "" else c.1), (if dropRule then "" else c.2.1), c.2.2))
    |>.toArray.qsort ltRxn).toList
def dedupSorted (xs : List String) : List String := (Driver.sortedStrs xs).eraseDups
def specHolds (mode : String) (mol : Bool) (orig got : Net) : Bool :=
  let used := dedupSorted orig.rxnSpecies
  let molOk := (got.mol.toArray.qsort (fun a b => a.1 < b.1)).toList ==
    (if mol then ((orig.mol.filter fun kv => kv.1 ∈ used).toArray.qsort (fun a b => a.1 < b.1)).toList else [])
  let spOk := dedupSorted got.species == used
  match mode with
  | "bip" => canonRxns got.rxns false false == canonRxns orig.rxns false false && spOk && molOk
  | "bip_noid" => canonRxns got.rxns true false == canonRxns orig.rxns true false && spOk && molOk
  | "species" => canonRxns got.rxns false true == canonRxns orig.rxns false true
  | "strings" => canonRxns got.rxns true false == canonRxns orig.rxns true false
  | _ => false

/-! Raw graphs (what the importers accept beyond the exporters' output), see `ViewsRaw.lean`.
bip_raw graph: {"nodes": [{"id": str|int, "kind","sp_label","rx_label","edge_id","mol": str|null}],
                "edges": [{"u","v","stoich": nat|null}]}
species_raw graph: {"nodes": [{"id": str, "label","mol": str|null}],
                    "edges": [{"u","v","via": null|[str]|str,"rules": null|[str]|str,
                               "stoich_r","stoich_p": nat|null,"r_map","p_map": [[k,c]]|null}]} -/
def nidOfJson (j : Json) : Except String NodeId :=
  match j with
  | .str s => pure (.str s)
  | _ => do pure (.int (← (fromJson? j : Except String Nat)))

def optNat (j : Json) (k : String) : Except String (Option Nat) :=
  match j.getObjVal? k with
  | .ok .null => .ok none
  | .ok v => (fromJson? v : Except String Nat).map some
  | .error _ => .ok none

def optSide (j : Json) (k : String) : Except String (Option Side) :=
  match j.getObjVal? k with
  | .ok .null => .ok none
  | .ok v => (sideOfJson v).map some
  | .error _ => .ok none

def strsOfJson (a : Array Json) : Except String (List String) :=
  a.toList.mapM fun s => (fromJson? s : Except String String)

def rbgraphOfJson (j : Json) : Except String RBGraph := do
  let nodes ← (← Driver.getArr j "nodes").toList.mapM fun n => do
    pure ({ id := ← nidOfJson (← n.getObjVal? "id"), kind := ← optStr n "kind", spLabel := ← optStr n "sp_label",
            rxLabel := ← optStr n "rx_label", edgeId := ← optStr n "edge_id", mol := ← optStr n "mol" } : RNode)
  let edges ← (← Driver.getArr j "edges").toList.mapM fun e => do
    pure ({ src := ← nidOfJson (← e.getObjVal? "u"), dst := ← nidOfJson (← e.getObjVal? "v"),
            stoich := ← optNat e "stoich", role := none } : BEdge)
  pure { nodes := nodes, edges := edges }

def viaOfJson (j : Json) (k : String) : Except String ViaAttr :=
  match j.getObjVal? k with
  | .ok (.arr a) => (strsOfJson a).map ViaAttr.seq
  | .ok (.str s) => .ok (.scalar s)
  | _ => .ok .absent

def rulesOfJson (j : Json) (k : String) : Except String RulesAttr :=
  match j.getObjVal? k with
  | .ok (.arr a) => (strsOfJson a).map RulesAttr.set
  | .ok (.str s) => .ok (.scalar s)
  | _ => .ok .absent

def rsgraphOfJson (j : Json) : Except String RSGraph := do
  let nodes ← (← Driver.getArr j "nodes").toList.mapM fun n => do
    pure (⟨← Driver.getStr n "id", ← optStr n "label", ← optStr n "mol"⟩ : SNode)
  let edges ← (← Driver.getArr j "edges").toList.mapM fun e => do
    pure ({ src := ← Driver.getStr e "u", dst := ← Driver.getStr e "v", via := ← viaOfJson e "via",
            rules := ← rulesOfJson e "rules", stoichR := ← optNat e "stoich_r", stoichP := ← optNat e "stoich_p",
            rMap := ← optSide e "r_map", pMap := ← optSide e "p_map" } : REdge)
  pure { nodes := nodes, edges := edges }

def resEq (a b : Except Err Net) : Bool :=
  match a, b with
  | .ok x, .ok y => decide (x = y)
  | .error e, .error f => decide (e = f)
  | _, _ => false

def nidSortedJson (xs : List NodeId) : Json := Json.arr ((xs.toArray.qsort nidLt).map nidJson)

def candJson (cs : List (String × List String)) : Json :=
  Json.arr (cs.map fun kv => Json.arr #[Json.str kv.1, Driver.strList (Driver.sortedStrs kv.2)]).toArray

def flagsJson (f : BipFlags) : Json :=
  Json.mkObj [("sp", match f.speciesPrefix with | some s => Json.str s | none => Json.null),
    ("rp", match f.reactionPrefix with | some s => Json.str s | none => Json.null),
    ("bip", Json.arr #[toJson f.bipS, toJson f.bipR]), ("stoich", f.includeStoich), ("role", f.includeRole),
    ("isolated", f.includeIsolated), ("int", f.integerIds), ("eid", f.includeEdgeIdAttr), ("mol", f.includeMol)]

def handle : Driver.Handler := fun cmd j =>
  match cmd with
  | "views.bip" => some do
    let N ← netOfJson (← j.getObjVal? "net")
    let fl ← (← Driver.getArr j "flags").toList.mapM flagsOfJson
    pure (Json.arr (fl.map fun f =>
      let g := toBipartite f N
      Json.mkObj [("graph", bgraphJson g), ("re", resJson (ofBipartite genIdPlaceholder g))]).toArray)
  | "views.species" => some do
    let N ← netOfJson (← j.getObjVal? "net")
    let g := toSpeciesGraph (← Driver.getBool j "mol") N
    pure (Json.mkObj [("graph", sgraphJson g), ("re", resJson (ofSpeciesGraph genArcPlaceholder g)),
      ("rules", Json.arr ((ruleCandidates genArcPlaceholder g).map fun kv =>
        Json.arr #[Json.str kv.1, Driver.strList (Driver.sortedStrs kv.2)]).toArray)])
  | "views.strings" => some do
    let N ← netOfJson (← j.getObjVal? "net")
    let fl ← (← Driver.getArr j "flags").toList.mapM strFlagsOfJson
    pure (Json.arr (fl.map fun f =>
      let ls := fmtLines f N
      Json.mkObj [("lines", Driver.strList (ls.map String.ofList)), ("re", resJson (parseLines ls))]).toArray)
  | "views.parse" => some do
    let ls ← (← Driver.getArr j "lines").toList.mapM fun s => (fromJson? s : Except String String)
    let r := match parseLinesFrom (← Driver.getBool j "suffix") (← Driver.getStr j "default_rule") {} (ls.map String.toList) with
      | .ok st => Except.ok st.net
      | .error e => Except.error e
    pure (resJson r)
  | "views.bip_raw" => some do
    let g ← rbgraphOfJson (← j.getObjVal? "graph")
    let o : ImpOpts := { speciesPrefix := ← Driver.getStr j "sp", reactionPrefix := ← Driver.getStr j "rp",
                         defaultRule := ← Driver.getStr j "default_rule", molOn := ← Driver.getBool j "mol" }
    let c := classify o g
    pure (Json.mkObj [("re", resJson (ofBipartiteRaw genIdPlaceholder o g)),
      ("species_nodes", nidSortedJson c.1), ("reaction_nodes", nidSortedJson c.2)])
  | "views.bip_tie" => some do
    -- an exported graph pushed through the raw importer with default options, next to the
    -- importer the theorems are about
    let N ← netOfJson (← j.getObjVal? "net")
    let fl ← (← Driver.getArr j "flags").toList.mapM flagsOfJson
    pure (Json.arr (fl.map fun f =>
      let g := toBipartite f N
      Json.bool (resEq (ofBipartiteRaw genIdPlaceholder {} g.toRaw) (ofBipartite genIdPlaceholder g))).toArray)
  | "views.species_raw" => some do
    let g ← rsgraphOfJson (← j.getObjVal? "graph")
    let dr ← Driver.getStr j "default_rule"
    pure (Json.mkObj [("re", resJson (ofSpeciesGraphRaw genArcPlaceholder dr (← Driver.getBool j "mol") g)),
      ("rules", candJson (ruleCandidatesRaw genArcPlaceholder dr g))])
  | "views.species_tie" => some do
    let N ← netOfJson (← j.getObjVal? "net")
    let g := toSpeciesGraph (← Driver.getBool j "mol") N
    pure (Json.bool (resEq (ofSpeciesGraphRaw genArcPlaceholder "r" true g.toRaw) (ofSpeciesGraph genArcPlaceholder g)))
  | "views.parse_items" => some do
    let items ← (← Driver.getArr j "items").toList.mapM fun it => do
      let pr ← (fromJson? it : Except String (Array Json))
      if pr.size ≠ 2 then throw "item"
      let r ← match pr[1]! with
        | .null => pure none
        | v => (fromJson? v : Except String String).map some
      pure (((← (fromJson? pr[0]! : Except String String)).toList, r) : List Char × Option String)
    let r := match parseItemsFrom (← Driver.getBool j "suffix") (← Driver.getBool j "prefer") (← Driver.getStr j "default_rule") {} items with
      | .ok st => Except.ok st.net
      | .error e => Except.error e
    pure (resJson r)
  | "views.claim_bip_raw" => some do
    -- is a round trip claimed for this degraded bipartite graph? (SynKitModel/ViewsClaim.lean;
    -- `bipRawClaim_roundtrip`, `bipRawClaim_roundtrip_noid` of Props/C16.lean)
    -- graph: nodes in `G.nodes` order; arcs reaction node by reaction node (node order), the
    -- incoming arcs then the outgoing ones, each in the order the exporter added them
    let N ← netOfJson (← j.getObjVal? "net")
    let f ← flagsOfJson (← j.getObjVal? "flags")
    let g ← rbgraphOfJson (← j.getObjVal? "graph")
    let o : ImpOpts := { speciesPrefix := ← Driver.getStr j "sp", reactionPrefix := ← Driver.getStr j "rp",
                         defaultRule := ← Driver.getStr j "default_rule", molOn := ← Driver.getBool j "mol" }
    let cm := bipRawClaimWith true f o N g
    let c := cm || bipRawClaimWith false f o N g
    pure (Json.mkObj [("claim", c), ("mol", cm), ("ids", c && bipRawIdsKept f N g),
      ("prefix_disjoint", decide (PrefixDisjoint o.speciesPrefix o.reactionPrefix N)),
      ("re", resJson (ofBipartiteRaw genIdPlaceholder o g))])
  | "views.claim_species_raw" => some do
    -- `speciesRawClaim_roundtrip` of Props/C16.lean; arcs in `G.edges` order
    let N ← netOfJson (← j.getObjVal? "net")
    let g ← rsgraphOfJson (← j.getObjVal? "graph")
    pure (Json.mkObj [("claim", speciesRawClaim (← Driver.getBool j "mol") N g),
      ("arcs_uniform", decide (ArcsUniform N)), ("all_ones", decide (AllOnes N))])
  | "views.claim_items" => some do
    -- `parseItemsFrom_forms` of Props/C16.lean
    let N ← netOfJson (← j.getObjVal? "net")
    let f ← strFlagsOfJson (← j.getObjVal? "flags")
    let items ← (← Driver.getArr j "items").toList.mapM fun it => do
      let pr ← (fromJson? it : Except String (Array Json))
      if pr.size ≠ 2 then throw "item"
      let r ← match pr[1]! with
        | .null => pure none
        | v => (fromJson? v : Except String String).map some
      pure (((← (fromJson? pr[0]! : Except String String)).toList, r) : List Char × Option String)
    pure (Json.mkObj [("claim", itemsClaim f (← Driver.getBool j "suffix") (← Driver.getBool j "prefer") N items)])
  | "views.side" => some do
    let ss ← (← Driver.getArr j "sides").toList.mapM fun s => (fromJson? s : Except String String)
    pure (Json.arr (ss.map fun s => sideRes (parseSide s.toList)).toArray)
  | "views.fmtside" => some do
    let ms ← (← Driver.getArr j "sides").toList.mapM sideOfJson
    pure (Driver.strList (ms.map fun m => String.ofList (fmtSide m)))
  | "views.preset" => some do
    match (← Driver.getStr j "name") with
    | "as_bipartite" => pure (flagsJson (asBipartiteFlags (← Driver.getStr j "sp") (← Driver.getStr j "rp")
        (← Driver.getBool j "int") (← Driver.getBool j "stoich")))
    | "backend" => pure (flagsJson (backendFlags (← Driver.getBool j "int") (← Driver.getBool j "stoich")))
    | n => throw s!"unknown preset {n}"
  | "views.spec" => some do
    let orig ← netOfJson (← j.getObjVal? "orig")
    let got ← netOfJson (← j.getObjVal? "got")
    pure (Json.bool (specHolds (← Driver.getStr j "mode") (← Driver.getBool j "mol") orig got))
  | "views.wf" => some do
    let ss ← (← Driver.getArr j "labels").toList.mapM fun s => (fromJson? s : Except String String)
    pure (Json.arr (ss.map fun s => Json.bool (WfLabel s)).toArray)
  | _ => none

end Driver.Views

import Lean.Data.Json
import SynKitModel.Basic
/-! JSON helpers shared by the driver handlers. -/
open Lean
namespace Driver

abbrev Handler := String → Json → Option (Except String Json)

def getNat (j : Json) (k : String) : Except String Nat := j.getObjValAs? Nat k
def getInt (j : Json) (k : String) : Except String Int := j.getObjValAs? Int k
def getStr (j : Json) (k : String) : Except String String := j.getObjValAs? String k
def getBool (j : Json) (k : String) : Except String Bool := j.getObjValAs? Bool k
def getArr (j : Json) (k : String) : Except String (Array Json) := j.getObjValAs? (Array Json) k
def getOptStr (j : Json) (k : String) : Except String (Option String) :=
  match j.getObjVal? k with
  | .ok .null => .ok none
  | .ok v => (fromJson? v : Except String String).map some
  | .error _ => .ok none

def strList (xs : List String) : Json := Json.arr (xs.map Json.str).toArray
def sortedStrs (xs : List String) : List String := (xs.toArray.qsort (· < ·)).toList

end Driver

import Driver.NetJson
import SynKitModel.Petri
/-! Driver commands for C20 (siphons/traps, PetriNet firing, pathway realizability). -/
open Lean SynKit SynKit.Petri
namespace Driver.Petri

def placeName : Place → String
  | .sp s => s
  | .ext e => "__ext__" ++ e
  | .target e => "__target__" ++ e

def markingJson (m : List (String × Int)) : Json :=
  Json.arr ((m.toArray.qsort (fun a b => a.1 < b.1)).map fun kv => Json.arr #[Json.str kv.1, toJson kv.2])

def parsePathway (j : Json) : Except String Pathway := do
  let vs ← Driver.NetJson.getStrs j "vertices"
  let es ← (← Driver.getArr j "edges").toList.mapM Driver.NetJson.parseRxn
  let fl ← Driver.NetJson.parsePairs (α := Int) (← j.getObjVal? "flow")
  pure { vertices := vs, edges := es, flow := fl }

def parseTransition (j : Json) : Except String (Transition String) := do
  pure { tid := ← Driver.getStr j "tid", pre := ← Driver.NetJson.parsePairs (α := Int) (← j.getObjVal? "pre"),
         post := ← Driver.NetJson.parsePairs (α := Int) (← j.getObjVal? "post") }

def indexOfLabel (N : Net) (s : String) : Option Nat :=
  let i := N.species.findIdx (· == s)
  if i < N.species.length then some i else none

/-- All sublists of `range n` of size 1..m that are minimal w.r.t. `pred` (brute force, independent
of `_minimal_sets`). -/
def allMinimal (pred : List Nat → Bool) (n m : Nat) : List (List Nat) :=
  (List.range m).flatMap fun k => (combos (List.range n) (k + 1)).filter (isMinimalB pred)

def handle : Driver.Handler := fun cmd j =>
  match cmd with
  | "petri.structure" => some do
    let N ← Driver.NetJson.getNet j "net"
    let ms ← Driver.NetJson.getOptNat j "max_size"
    pure (Json.mkObj [
      ("siphons", Driver.NetJson.strListsJson (Driver.NetJson.sortStrLists (findSiphons N ms))),
      ("traps", Driver.NetJson.strListsJson (Driver.NetJson.sortStrLists (findTraps N ms))),
      ("siphons_idx", Driver.NetJson.natListsJson (Driver.NetJson.sortNatLists (findSiphonsIdx N ms))),
      ("traps_idx", Driver.NetJson.natListsJson (Driver.NetJson.sortNatLists (findTrapsIdx N ms)))])
  | "spec.petri.minimal" => some do
    -- evaluates the right-hand side of siphons_spec / traps_spec on a reported family of label sets
    let N ← Driver.NetJson.getNet j "net"
    let ms ← Driver.NetJson.getOptNat j "max_size"
    let kind ← Driver.getStr j "kind"
    let fam ← (← Driver.getArr j "family").toList.mapM fun x => (fromJson? x : Except String (List String))
    let pred := if kind == "siphon" then isSiphon N else isTrap N
    let m := ms.getD N.nSpecies
    let famIdx : List (Option (List Nat)) := fam.map fun X =>
      (X.mapM (indexOfLabel N)).map Driver.NetJson.sortNats
    let wellFormed := famIdx.all Option.isSome
    let famI := famIdx.filterMap id
    let nodupSets := famI.all fun X => X.eraseDups.length == X.length
    let bad := famI.filter fun X => !(isMinimalB pred X && decide (X.length ≤ m) && X.all (· < N.nSpecies))
    let want := allMinimal pred N.nSpecies m
    let missing := want.filter fun X => !famI.contains X
    pure (Json.mkObj [("well_formed", wellFormed && nodupSets), ("not_minimal_closed", Driver.NetJson.natListsJson bad),
      ("missing", Driver.NetJson.natListsJson missing),
      ("holds", wellFormed && nodupSets && bad.isEmpty && missing.isEmpty)])
  | "petri.net.run" => some do
    let ts ← (← Driver.getArr j "transitions").toList.mapM parseTransition
    let net := ts.foldl PNet.addTransition ({} : PNet String)
    let qs ← (← Driver.getArr j "queries").toList.mapM fun q => do
      let m ← Driver.NetJson.parsePairs (α := Int) (← q.getObjVal? "marking")
      let tid ← Driver.getStr q "tid"
      pure (m, tid)
    let outs := qs.map fun (m, tid) =>
      match net.find? tid with
      | none => Json.mkObj [("enabled", "KeyError"), ("fire", "KeyError")]
      | some t => Json.mkObj [("enabled", enabled t m), ("fire", markingJson (fire t m)),
          ("tuple", Driver.NetJson.intListJson (toTuple net.places m))]
    pure (Json.mkObj [("places", Driver.strList (Driver.sortedStrs net.places)),
      ("place_order", Driver.strList net.places),
      ("transitions", Driver.strList (net.transitions.map (·.tid))),
      ("arcs", Json.arr (net.transitions.map fun t => Json.mkObj [("tid", t.tid), ("pre", markingJson t.pre), ("post", markingJson t.post)]).toArray),
      ("results", Json.arr outs.toArray)])
  | "petri.realizable" => some do
    let P ← parsePathway j
    let maxStates ← Driver.getNat j "max_states"
    let maxDepth ← Driver.getNat j "max_depth"
    let net := buildNet P
    let base := [
      ("places", Driver.strList (Driver.sortedStrs (net.places.map placeName))),
      ("transitions", Driver.strList (net.transitions.map (·.tid))),
      ("arcs", Json.arr (net.transitions.map fun t => Json.mkObj [("tid", t.tid),
          ("pre", markingJson (t.pre.map fun pw => (placeName pw.1, pw.2))),
          ("post", markingJson (t.post.map fun pw => (placeName pw.1, pw.2)))]).toArray),
      ("M0", markingJson ((initialMarking P).map fun pw => (placeName pw.1, pw.2))),
      ("MT", markingJson ((targetMarking P).map fun pw => (placeName pw.1, pw.2)))]
    match isRealizable P maxStates maxDepth with
    | .found seq => pure (Json.mkObj ([("verdict", Json.str "found"), ("seq", Driver.strList seq)] ++ base))
    | .notFound hs sd => pure (Json.mkObj ([("verdict", Json.str "notFound"), ("hit_states", Json.bool hs), ("skipped_depth", Json.bool sd)] ++ base))
    | .noEdges => pure (Json.mkObj [("verdict", Json.str "RuntimeError")])
    | .fuelOut => pure (Json.mkObj [("verdict", Json.str "fuelOut")])
  | "spec.petri.certificate" => some do
    -- evaluates the hypothesis of certificate_check_sound on a supplied firing sequence,
    -- and (redundantly) its three conclusions by direct counting
    let P ← parsePathway j
    let seq ← Driver.NetJson.getStrs j "seq"
    let valid := validCertificate P seq
    let countsOk := P.edges.all fun r => ((seq.count r.id : Nat) : Int) == P.flowOf r.id
    let known := seq.all fun t => P.edges.any (·.id == t)
    pure (Json.mkObj [("valid", valid), ("counts_ok", countsOk), ("ids_known", known)])
  | _ => none

end Driver.Petri

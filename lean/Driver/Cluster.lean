import Driver.GraphJson
import SynKitModel.Match
import SynKitModel.Cluster
/-! Driver commands of C13 (clustering).

All cluster commands work over a *pool* of items `0 … m-1`:
`iso`  : m×m matrix of verdicts, `iso[a][b]` = verdict of the oracle for the ORDERED pair (a, b)
         (first argument a, second argument b) — used as given, never symmetrised;
`keys` : m JSON values (the pre-grouping attribute as the code compares it), compared by equality
         of their compact rendering;
`items`: list of pool indices (the list to cluster), templates `[[poolIndex, class], …]`.

* `cluster.isomatrix {graphs, node_keys, edge_keys, hcount?}` → m×m matrix, entry [a][b] =
  `isoDecide sel graphs[a] graphs[b]` (the same function `match.iso` evaluates with host = a, pattern = b)
* `cluster.iter  {iso, keys, items}` → {clusters (creation order, members sorted), r2c (sorted by index), classes} | {error}
* `cluster.lib   {iso, keys, item, templates}` → {cls, templates}
* `cluster.run   {iso, keys, items, templates}` → {classes, templates}
* `cluster.fit   {iso, keys, items, templates|null, batch_size|null}` → {classes, templates} | {error}
* `cluster.batches {items, batch_size}` → {batches} | {error}
* `cluster.spec  {iso, items, classes, templates?}` → {ok, witness, kind}: same class ⇔ verdict true for every ordered
  pair of list positions; class = class of a given template ⇔ verdict(template, item) true
-/
open Lean SynKit SynKit.Cluster
namespace Driver.Cluster

structure Pool where
  iso : Array (Array Bool)
  keys : Array String

def Pool.isoF (p : Pool) (a b : Nat) : Bool := (p.iso.getD a #[]).getD b false
def Pool.keyF (p : Pool) (a : Nat) : String := p.keys.getD a ""

def getPool (j : Json) : Except String Pool := do
  let rows ← Driver.getArr j "iso"
  let iso ← rows.mapM fun r => (fromJson? r : Except String (Array Bool))
  let keys := match j.getObjVal? "keys" with
    | .ok (.arr ks) => ks.map Json.compress
    | _ => #[]
  pure { iso, keys }

def getNatList (j : Json) (k : String) : Except String (List Nat) := do
  let arr ← Driver.getArr j k
  arr.toList.mapM fun x => (fromJson? x : Except String Nat)

def tmplOfJson (j : Json) : Except String (Tmpl Nat) := do
  let a ← (fromJson? j : Except String (Array Json))
  if a.size ≠ 2 then throw "template record"
  pure ⟨← (fromJson? a[0]! : Except String Nat), ← (fromJson? a[1]! : Except String Int)⟩

def getTemplates (j : Json) : Except String (Option (List (Tmpl Nat))) :=
  match j.getObjVal? "templates" with
  | .ok .null => pure none
  | .error _ => pure none
  | .ok v => do
    let arr ← (fromJson? v : Except String (Array Json))
    pure (some (← arr.toList.mapM tmplOfJson))

def tmplsToJson (ts : List (Tmpl Nat)) : Json :=
  Json.arr (ts.map fun t => Json.arr #[toJson t.item, toJson t.cls]).toArray

def sortedNats (xs : List Nat) : List Nat := (xs.toArray.qsort (· < ·)).toList

def errJson : Err → Json
  | .indexError => Json.mkObj [("error", "IndexError")]
  | .valueError => Json.mkObj [("error", "ValueError")]

def optNatJson : Option Nat → Json
  | none => Json.null
  | some c => toJson c

def optIntJson : Option Int → Json
  | none => Json.null
  | some c => toJson c

/-- first ordered pair of positions on which "same class ⇔ verdict" fails -/
def specWitness (p : Pool) (items : Array Nat) (classes : Array Json) : Option (Nat × Nat) :=
  let n := items.size
  (List.range n).findSome? fun i =>
    (List.range n).findSome? fun k =>
      let same := (classes.getD i Json.null).compress == (classes.getD k Json.null).compress
      if p.isoF (items.getD i 0) (items.getD k 0) == same then none else some (i, k)

/-- first (template position, item position) on which "class = template's class ⇔ verdict(template, item)" fails -/
def specTemplateWitness (p : Pool) (items : Array Nat) (classes : Array Json) (ts : List (Tmpl Nat)) :
    Option (Nat × Nat) :=
  (List.range ts.length).findSome? fun a =>
    match ts[a]? with
    | none => none
    | some t =>
      (List.range items.size).findSome? fun i =>
        let same := (classes.getD i Json.null).compress == (toJson t.cls).compress
        if p.isoF t.item (items.getD i 0) == same then none else some (a, i)

def handle : Driver.Handler := fun cmd j =>
  match cmd with
  | "cluster.isomatrix" => some do
    let nk ← Driver.getStrList j "node_keys"
    let ek ← Driver.getStrList j "edge_keys"
    let hc := (Driver.getBool j "hcount").toOption.getD false
    let sel : SynKit.Match.Sel := { nodeKeys := nk, edgeKeys := ek, hcountRule := hc }
    let gs ← (← Driver.getArr j "graphs").mapM Driver.graphOfJson
    pure (Json.arr (gs.map fun a => Json.arr (gs.map fun b => toJson (SynKit.Match.isoDecide sel a b))))
  | "cluster.iter" => some do
    let p ← getPool j
    let items ← getNatList j "items"
    match iterativeCluster p.isoF p.keyF items with
    | .error e => pure (errJson e)
    | .ok (clusters, r2c) =>
      let r2cS := r2c.toArray.qsort (fun a b => a.1 < b.1)
      pure (Json.mkObj [
        ("clusters", Json.arr (clusters.map fun c => toJson (sortedNats c)).toArray),
        ("r2c", Json.arr (r2cS.map fun kv => Json.arr #[toJson kv.1, toJson kv.2])),
        ("classes", Json.arr ((gcClasses p.isoF p.keyF items).map optNatJson).toArray)])
  | "cluster.lib" => some do
    let p ← getPool j
    let x ← Driver.getNat j "item"
    let ts := (← getTemplates j).getD []
    let r := libCheck p.isoF p.keyF x ts
    pure (Json.mkObj [("cls", toJson r.1), ("templates", tmplsToJson r.2)])
  | "cluster.run" => some do
    let p ← getPool j
    let items ← getNatList j "items"
    let ts := (← getTemplates j).getD []
    let r := clusterRun p.isoF p.keyF items ts
    pure (Json.mkObj [("classes", toJson r.1), ("templates", tmplsToJson r.2)])
  | "cluster.fit" => some do
    let p ← getPool j
    let items ← getNatList j "items"
    let ts ← getTemplates j
    let bs : Option Nat := match j.getObjVal? "batch_size" with
      | .ok v => (fromJson? v : Except String Nat).toOption
      | .error _ => none
    match bcFit p.isoF p.keyF items ts bs with
    | .error e => pure (errJson e)
    | .ok (cls, ts') =>
      pure (Json.mkObj [("classes", Json.arr (cls.map optIntJson).toArray), ("templates", tmplsToJson ts')])
  | "cluster.batches" => some do
    let items ← getNatList j "items"
    let k ← Driver.getNat j "batch_size"
    match batchDicts items k with
    | .error e => pure (errJson e)
    | .ok bs => pure (Json.mkObj [("batches", toJson bs)])
  | "cluster.spec" => some do
    let p ← getPool j
    let items ← getNatList j "items"
    let classes ← Driver.getArr j "classes"
    let ts := (← getTemplates j).getD []
    match specWitness p items.toArray classes, specTemplateWitness p items.toArray classes ts with
    | none, none => pure (Json.mkObj [("ok", true), ("witness", Json.null), ("kind", Json.null)])
    | some (a, b), _ => pure (Json.mkObj [("ok", false), ("witness", toJson [a, b]), ("kind", "items")])
    | none, some (a, b) => pure (Json.mkObj [("ok", false), ("witness", toJson [a, b]), ("kind", "template")])
  | _ => none

end Driver.Cluster

import Driver.NetJson
import SynKitModel.Deficiency
/-! Driver commands for C19 (complexes, linkage classes, weak reversibility, deficiency). -/
open Lean SynKit SynKit.Deficiency SynKit.NetGraphAlg
namespace Driver.Deficiency

def intRowsJson (rows : List (List Int)) : Json := Json.arr (rows.map Driver.NetJson.intListJson).toArray

def getNatList (j : Json) (k : String) : Except String (List Nat) := do
  (← Driver.getArr j k).toList.mapM fun x => (fromJson? x : Except String Nat)

def getNatLists (j : Json) (k : String) : Except String (List (List Nat)) := do
  (← Driver.getArr j k).toList.mapM fun x => (fromJson? x : Except String (List Nat))

/-- Boolean transitive closure by repeated squaring-free iteration (`n` rounds): an algorithm
unrelated to the merging fold / sweeps of the model, used only by `spec.def.check`. -/
def closureRel (n : Nat) (adj : Nat → Nat → Bool) : Nat → Nat → Bool :=
  let nodes := List.range n
  let init : List (List Bool) := nodes.map fun i => nodes.map fun j => i == j || adj i j
  let step (m : List (List Bool)) : List (List Bool) :=
    nodes.map fun i => nodes.map fun j =>
      ((m.getD i []).getD j false) || nodes.any fun k => ((m.getD i []).getD k false) && adj k j
  let fin := (List.range n).foldl (fun m _ => step m) init
  fun i j => (fin.getD i []).getD j false

def handle : Driver.Handler := fun cmd j =>
  match cmd with
  | "def.analyse" => some do
    let N ← Driver.NetJson.getNet j "net"
    let cls := linkageClasses N
    let base := [
      ("complexes", Driver.NetJson.natListsJson (complexes N)),
      ("arcs", Json.arr ((complexArcs N).map fun a => Driver.NetJson.natListJson [a.1, a.2]).toArray),
      ("classes", Driver.NetJson.natListsJson cls),
      ("weakly_reversible", Json.bool (weaklyReversible N)),
      ("stable", Json.bool (cls.all fun C => stronglyConnectedStable (complexArcs N) C)),
      ("class_diffs", Json.arr (cls.map fun C => intRowsJson (classDiffs N C)).toArray),
      ("stoich_rows", intRowsJson (stoichRows N))]
    match Driver.getNat j "rank" with
    | .error _ => pure (Json.mkObj base)
    | .ok rank =>
      let ranks ← getNatList j "class_ranks"
      match computeSummary N rank with
      | .error .valueError => pure (Json.mkObj [("error", "ValueError")])
      | .ok s => pure (Json.mkObj (base ++ [
          ("summary", Json.mkObj [("n_species", s.nSpecies), ("n_reactions", s.nReactions),
            ("n_complexes", s.nComplexes), ("n_linkage_classes", s.nLinkage), ("stoich_rank", s.rank),
            ("deficiency", toJson s.deficiency), ("weakly_reversible", Json.bool s.weaklyReversible)]),
          ("linkage_deficiencies", Driver.NetJson.intListJson (linkageDeficiencies N ranks))]))
  | "spec.def.check" => some do
    -- evaluates the right-hand sides of complexes_spec / linkage_spec / weakrev_spec on reported data:
    -- complexes (vectors), arcs (index pairs into them), classes (index lists), weak reversibility
    let N ← Driver.NetJson.getNet j "net"
    let cs ← getNatLists j "complexes"
    let arcs ← (← getNatLists j "arcs").mapM fun a =>
      match a with
      | [u, v] => pure (u, v)
      | _ => throw "arc"
    let cls ← getNatLists j "classes"
    let wr ← Driver.getBool j "weakly_reversible"
    let sides := N.reactions.flatMap fun r => [vecOf N r.reactants, vecOf N r.products]
    let complexesOk := cs.eraseDups.length == cs.length && cs.all (sides.contains ·) && sides.all (cs.contains ·)
    let want := N.reactions.map fun r => (vecOf N r.reactants, vecOf N r.products)
    let got := arcs.map fun a => (cs.getD a.1 [], cs.getD a.2 [])
    let arcsOk := arcs.all (fun a => a.1 < cs.length && a.2 < cs.length) && got.all (want.contains ·) && want.all (got.contains ·)
    let n := cs.length
    let und := closureRel n fun a b => arcs.contains (a, b) || arcs.contains (b, a)
    let nodes := List.range n
    let classOf (i : Nat) : Option (List Nat) := cls.find? (·.contains i)
    let partitionOk := nodes.all (fun i => (cls.filter (·.contains i)).length == 1) &&
      cls.all (fun c => !c.isEmpty && c.all (· < n) && c.eraseDups.length == c.length)
    let classesOk := partitionOk && nodes.all fun i => nodes.all fun k => (classOf i == classOf k) == und i k
    let wrSpec := cls.all fun C =>
      let dir := closureRel n fun a b => C.contains a && C.contains b && arcs.contains (a, b)
      C.all fun u => C.all fun v => dir u v
    pure (Json.mkObj [("complexes_ok", Json.bool complexesOk), ("arcs_ok", Json.bool arcsOk),
      ("classes_ok", Json.bool classesOk), ("weakrev_spec", Json.bool wrSpec), ("weakrev_ok", Json.bool (wrSpec == wr)),
      ("holds", Json.bool (complexesOk && arcsOk && classesOk && wrSpec == wr))])
  | _ => none

end Driver.Deficiency

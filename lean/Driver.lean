import Driver.Main
import Driver.SubgraphSearch
import Driver.GraphMatcherEngine

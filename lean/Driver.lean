import Driver.Main

import SynKitModel.Basic
import SynKitModel.Graph
import SynKitModel.Store
import SynKitModel.Match
import SynKitModel.ITS
import SynKitModel.GraphAlg
import SynKitModel.SubgraphSearch
import SynKitModel.GraphMatcherEngine

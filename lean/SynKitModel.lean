import SynKitModel.Basic
import SynKitModel.Graph
import SynKitModel.Store

import SynKitModel.Basic
import SynKitModel.Graph
import SynKitModel.Store
import SynKitModel.Match
import SynKitModel.ITS

import SynKitModel.Basic
import SynKitModel.Store

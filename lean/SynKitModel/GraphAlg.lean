/-
  SynKitModel.GraphAlg — executable connected-components model.

  Core Lean only (no Mathlib / Batteries / Std).  Everything is total and
  structurally recursive, so closed examples can be evaluated by `decide`.

  Algorithm: label propagation over an association list.
  * `labels nodes edges` : list of `(node, label)` pairs, one per entry of
    `nodes` (in the order of `nodes`).  Initially every node is its own label;
    each edge `(a, b)` whose two endpoints are nodes renames the label of `a`
    into the label of `b` everywhere.  Edges with an endpoint outside `nodes`
    are ignored; self-loops and duplicate edges are harmless no-ops.
  * two nodes are in the same component iff they carry the same label;
  * `components` groups the nodes by label, ordered by the first node of every
    class (NetworkX `connected_components` order), nodes inside a class in the
    order of `nodes`.
-/

namespace SynKit.GraphAlg

/-- Association-list lookup: label of node `x` (first hit), if `x` is a key. -/
def lookup (x : Nat) : List (Nat × Nat) → Option Nat
  | [] => none
  | p :: rest => if p.1 == x then some p.2 else lookup x rest

/-- Rename label `la` into `lb`. -/
def relabel (la lb : Nat) (l : Nat) : Nat := if l == la then lb else l

/-- Process one (undirected) edge: merge the class of `e.1` into the class of `e.2`.
The edge is ignored when one of its endpoints is not a key of `L`. -/
def step (L : List (Nat × Nat)) (e : Nat × Nat) : List (Nat × Nat) :=
  match lookup e.1 L, lookup e.2 L with
  | some la, some lb => L.map (fun p => (p.1, relabel la lb p.2))
  | _, _ => L

/-- Initial labelling: every node is its own class. -/
def initLabels (nodes : List Nat) : List (Nat × Nat) := nodes.map (fun n => (n, n))

/-- Final `(node, label)` list, aligned with `nodes`. -/
def labels (nodes : List Nat) (edges : List (Nat × Nat)) : List (Nat × Nat) :=
  edges.foldl step (initLabels nodes)

/-- All nodes carrying label `l`, in the order of the labelling. -/
def classOf (L : List (Nat × Nat)) (l : Nat) : List Nat :=
  (L.filter (fun p => p.2 == l)).map (fun p => p.1)

/-- Is `p` the first entry of `L` carrying its label? -/
def isFirst (L : List (Nat × Nat)) (p : Nat × Nat) : Bool :=
  match L.find? (fun q => q.2 == p.2) with
  | some q => q.1 == p.1
  | none => false

/-- Group a labelling into classes, ordered by the first member of each class. -/
def componentsOf (L : List (Nat × Nat)) : List (List Nat) :=
  (L.filter (isFirst L)).map (fun p => classOf L p.2)

/-- Partition of `nodes` into connected components. Components are listed in the order of
their first node in `nodes` (NetworkX `connected_components` order); inside a component the
nodes are in the order of `nodes`. -/
def components (nodes : List Nat) (edges : List (Nat × Nat)) : List (List Nat) :=
  componentsOf (labels nodes edges)

/-- Are `u` and `v` in the same component?  (`false` when `u` or `v` is not a node.) -/
def sameComp (nodes : List Nat) (edges : List (Nat × Nat)) (u v : Nat) : Bool :=
  match lookup u (labels nodes edges) with
  | some l => lookup v (labels nodes edges) == some l
  | none => false

/-- Index (position in `components`) of the component containing `v`, if any. -/
def compIndex (nodes : List Nat) (edges : List (Nat × Nat)) (v : Nat) : Option Nat :=
  (components nodes edges).findIdx? (fun c => c.contains v)

/-- Number of connected components. -/
def numComponents (nodes : List Nat) (edges : List (Nat × Nat)) : Nat :=
  (components nodes edges).length

/-- Is the graph connected (at most one component)? -/
def isConnected (nodes : List Nat) (edges : List (Nat × Nat)) : Bool :=
  (components nodes edges).length ≤ 1

end SynKit.GraphAlg

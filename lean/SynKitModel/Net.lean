import SynKitModel.Basic
/-!
# A reaction network as the analysis modules see it (shared by C16–C20)

The analysis code (`CRN/Props/*`, `CRN/Petri/*`) never reads a `CRNHyperGraph` directly: it
goes through `_as_bipartite(crn)` = `hypergraph_to_bipartite(crn, integer_ids=True)` and then
`_species_order` / `_split_species_reactions`.  What those produce is

* the species, sorted by label (`sorted(H.species)`; species node `i+1` carries label `species[i]`),
* the reactions in the order `sorted(H.edges.items())` (by edge id), each with its rule (node
  label), its reactant arcs `species → reaction` and its product arcs `reaction → species`, the
  arcs carrying `stoich` (an integer coefficient) and `role`.

`Net` is exactly that: the two ordered lists.  A side is a `Dict Nat` (`List (String × Nat)`,
species label ↦ coefficient, in the insertion order of the `RXNSide` dict).  The model functions
take the lists as given; that the harness encoder orders them the way the code does is part of
the correspondence.
-/
namespace SynKit

/-- One reaction: id, rule, reactant and product sides (label ↦ coefficient). -/
structure Rxn where
  id : String
  rule : String := "r"
  reactants : Dict Nat
  products : Dict Nat
deriving Repr, DecidableEq

/-- A network: species in `_species_order` order, reactions in bipartite node order. -/
structure Net where
  species : List String
  reactions : List Rxn
deriving Repr, DecidableEq

namespace Dict

/-- Total coefficient of `k` on a side: what `vec[idx] += coeff` over the arcs accumulates
(a Python dict has each key once, in which case this is `d.get(k, 0)`). -/
def sumOf (d : Dict Nat) (k : String) : Nat :=
  match d with
  | [] => 0
  | (k', v) :: rest => (if k' = k then v else 0) + sumOf rest k

end Dict

namespace Rxn

/-- Some reactant arc with positive coefficient touches a label of `S`. -/
def consumesAny (r : Rxn) (S : List String) : Bool :=
  r.reactants.any fun kv => decide (kv.1 ∈ S) && decide (0 < kv.2)

/-- Some product arc with positive coefficient touches a label of `S`. -/
def producesAny (r : Rxn) (S : List String) : Bool :=
  r.products.any fun kv => decide (kv.1 ∈ S) && decide (0 < kv.2)

/-- Every label used by the reaction. -/
def labels (r : Rxn) : List String := r.reactants.keys ++ r.products.keys

end Rxn

namespace Net

def nSpecies (N : Net) : Nat := N.species.length
def nReactions (N : Net) : Nat := N.reactions.length

/-- Labels of a set of species indices (`{species_nodes_sorted[i] for i in S_idx}`). -/
def labelsOf (N : Net) (idx : List Nat) : List String := idx.filterMap (N.species[·]?)

/-- Well-formedness of what the bipartite view of a `CRNHyperGraph` delivers: species labels
pairwise different, reaction ids pairwise different, every label of every reaction listed,
each side a dict (keys pairwise different). -/
def Wf (N : Net) : Prop :=
  N.species.Nodup ∧ (N.reactions.map (·.id)).Nodup ∧
  ∀ r ∈ N.reactions, r.reactants.keys.Nodup ∧ r.products.keys.Nodup ∧ ∀ s ∈ r.labels, s ∈ N.species

end Net
end SynKit

import SynKitModel.ITS
import SynKitModel.Repr
/-!
# The SynKit-side graph part of `its_to_rsmi` (C01, RDKit clause)

Model of the glue code of `synkit/IO/chem_converter.py` between the ITS graph and RDKit:

* `its_to_rsmi(its)`      : `r, p = its_decompose(its)`; `graph_to_rsmi(r, p, its, …)`
* `graph_to_rsmi(r, p, its, explicit_hydrogen=False)` : `rc = get_rc(its)`;
  `list_hydrogen = [d["atom_map"] for _, d in rc.nodes(data=True) if d.get("element") == "H"]`;
  `graph_to_smi(r, preserve_atom_maps=list_hydrogen)`, `graph_to_smi(p, preserve_atom_maps=list_hydrogen)`
* `graph_to_smi(graph, preserve_atom_maps)` : `GraphToMol().graph_to_mol(graph, …)` when the list is
  `None`/empty, `GraphToMol().graph_to_mol(implicit_hydrogen(graph, set(list)), …)` otherwise.

`its_decompose`, `get_rc` are `SynKit.ITS.decompose`, `SynKit.ITS.getRc` (`SynKitModel/ITS.lean`),
`implicit_hydrogen` is `SynKit.Repr.implicitHydrogen` (`SynKitModel/Repr.lean`).  Everything after
the call of `graph_to_mol` is RDKit and is not modelled.  The theorems about these definitions are
in `SynKitProofs/Props/C01.lean` (section `RsmiGraphPart`); the driver runs them as
`its.rsmiGraphs` / `its.smiGraph` and the C01 harness compares them with what the real
`its_to_rsmi` hands to `implicit_hydrogen` / `GraphToMol.graph_to_mol`.
-/
namespace SynKit.ITS
open SynKit SynKit.Repr

/-- `[d["atom_map"] for _, d in get_rc(its).nodes(data=True) if d.get("element") == "H"]`
(on the modelled domain every node carries an integer `atom_map`; a missing key makes the Python
code return `None`, here the entry is dropped). -/
def rcHydrogenMaps (I : LGraph) : List Nat :=
  ((getRc {} I).nodes.filter fun p => isH p.2).filterMap fun p => atomMapOf p.2

/-- The graph `graph_to_smi(g, preserve_atom_maps=keep)` passes to `GraphToMol`:
`implicit_hydrogen(g, set(keep))` if `keep` is non-empty, `g` itself otherwise. -/
def smiGraph (g : LGraph) (keep : List Nat) : LGraph :=
  if keep.isEmpty then g else implicitHydrogen g keep

/-- The pair of graphs `its_to_rsmi(I)` passes to the SMILES writer (`explicit_hydrogen=False`). -/
def rsmiGraphs (I : LGraph) : LGraph × LGraph :=
  (smiGraph (decompose I).1 (rcHydrogenMaps I), smiGraph (decompose I).2 (rcHydrogenMaps I))

/-- Domain of `smiGraph` (used by the driver only): with a non-empty list `implicit_hydrogen` reads
`data["element"]`, `data["hcount"]`, `data["atom_map"]` of every node and does integer arithmetic
on the counts. -/
def smiDefined (g : LGraph) (keep : List Nat) : Bool :=
  keep.isEmpty || (implDomain g && decide (HTyped g))

/-- Domain of `rsmiGraphs` (used by the driver only; the Python code raises or returns `None`
outside of it): `its_decompose` does not raise, every hydrogen of the reaction centre carries a
natural-number `atom_map` (so the Python list and `rcHydrogenMaps` have the same entries), and both
sides are in the domain of `smiGraph`. -/
def rsmiDefined (I : LGraph) : Bool :=
  decomposeDefined I &&
  (((getRc {} I).nodes.filter fun p => isH p.2).all fun p => (atomMapOf p.2).isSome) &&
  smiDefined (decompose I).1 (rcHydrogenMaps I) && smiDefined (decompose I).2 (rcHydrogenMaps I)

end SynKit.ITS

import SynKitModel.Repr
import SynKitModel.Gml
/-!
# C10 — the non-default options of the representation changes

`SynKitModel/Repr.lean` and `SynKitModel/Gml.lean` mirror the entry points with their default
arguments; the property theorems are about those.  This file mirrors the *options* of the same
functions, so that the correspondence check can drive the branches the defaults never take:

* `molToGraphOpt`       `MolToGraph.transform(mol, drop_non_aam, use_index_as_atom_map)`
                        (`smiles_to_graph(s, drop_non_aam=…, use_index_as_atom_map=…)`,
                        `rsmi_to_graph`): node id = atom map when requested and non-zero, unmapped
                        atoms dropped together with their bonds;
* `hToExplicitG`        `h_to_explicit(G, nodes, its)`: a node list (absent ids skipped, a repeated
                        id is a no-op the second time), the `typesGH` adjustment on ITS nodes
                        (only row 0, index 2 is decremented — as coded), `its=True`
                        (`normalize_edge_orders`);
* `implicitHydrogenReindex`  `implicit_hydrogen(graph, preserve, reindex=True)`;
* `writeRuleX` / `itsToGmlX` / `smartToGmlX`  the GML writer with `explicit_hydrogen=True`
                        (context graph expanded by `h_to_explicit` *after* the renumbering of
                        `reindex=True`, context edges written).

Everything here is executable model code tied to the working tree by the correspondence; what the
options promise is proved in `SynKitProofs/ReprOptLemmas.lean` / `Props/C10.lean` (namespace
`SynKit.ReprOpt`: `hToExplicitG_totalH`, `_all`, `_restores`, `implicitHydrogenReindex_relabel`,
`molToGraphOpt_default`, `_useIdx`, `_drop`, `itsToGmlX_false`, `itsToGmlX_roundtrip`).  The two
`example`s at the end pin the new definitions to the proved ones on a concrete input.
-/
namespace SynKit.ReprOpt
open SynKit SynKit.Repr SynKit.Gml

/-! ## `MolToGraph.transform` with `use_index_as_atom_map` / `drop_non_aam` -/

/-- `atom_map if (use_index_as_atom_map and atom_map != 0) else atom.GetIdx() + 1`. -/
def atomId (useIdx : Bool) (i : Nat) (a : Atom) : Nat :=
  if useIdx && a.atomMap != 0 then a.atomMap else i + 1

/-- (atom index, node id, atom) of the atoms that become nodes. -/
def kept (useIdx drop : Bool) (M : Mol) : List (Nat × Nat × Atom) :=
  (M.atoms.zipIdx.map fun p => (p.2, atomId useIdx p.2 p.1, p.1)).filter fun t => !(drop && t.2.2.atomMap == 0)

/-- `index_to_id.get(idx)`. -/
def idOf (ks : List (Nat × Nat × Atom)) (idx : Nat) : Option Nat := (ks.find? fun t => t.1 == idx).map (·.2.1)

inductive MolErr
  | valueError      -- drop_non_aam without use_index_as_atom_map
  | collision       -- two kept atoms get the same node id (NetworkX would merge them): outside the model
deriving Repr, DecidableEq

/-- `MolToGraph(node_attrs=default, edge_attrs=["order"]).transform(mol, drop_non_aam, use_index_as_atom_map)`.
The `neighbors` attribute is computed on the molecule, so it still names dropped neighbours. -/
def molToGraphOpt (useIdx drop : Bool) (M : Mol) : Except MolErr LGraph :=
  if drop && !useIdx then .error .valueError else
  let ks := kept useIdx drop M
  if !(decide (ks.map (·.2.1)).Nodup) then .error .collision else
  .ok { nodes := ks.map fun t => (t.2.1, atomAttrs M t.1 t.2.2)
        edges := M.bonds.filterMap fun b =>
          match idOf ks b.a, idOf ks b.b with
          | some u, some v => some (u, v, [("order", .num b.order)])
          | _, _ => none }

/-! ## `h_to_explicit(G, nodes, its)` -/

/-- `tgh_list[0][2] -= count` (rows are rebuilt as tuples, which the encoding does not distinguish). -/
def adjTypes (v : Val) (cnt : Int) : Option Val :=
  match v with
  | .tup (.tup (a :: b :: .num h :: rest) :: rows) => some (.tup (.tup (a :: b :: .num (h - 2 * cnt) :: rest) :: rows))
  | _ => none

/-- the update of the expanded atom: `hcount -= count`, and the `typesGH` adjustment when present. -/
def expandAttrs (a : Attrs) (cnt : Int) : Attrs :=
  let a1 := Dict.set a "hcount" (.num (hraw a - 2 * cnt))
  match Dict.get? a1 "typesGH" with
  | some t => (match adjTypes t cnt with | some t' => Dict.set a1 "typesGH" t' | none => a1)
  | none => a1

/-- one iteration of `for heavy in nodes` on the state (graph so far, `max_node`). -/
def stepOn (st : LGraph × Nat) (v : Nat) : LGraph × Nat :=
  if !st.1.hasNode v then st else
  let c := hcnt (st.1.attrs v)
  if c ≤ 0 then st else
  let fresh := List.range' (st.2 + 1) c.toNat
  let g1 : LGraph := { nodes := st.1.nodes ++ fresh.map (fun f => (f, hAttrs))
                       edges := st.1.edges ++ fresh.map (fun f => (v, f, orderOne)) }
  (updAttrs g1 v (fun a => expandAttrs a c), st.2 + c.toNat)

/-- `normalize_edge_orders` on one edge. -/
def normEdge (a : Attrs) : Attrs :=
  let a1 := match Dict.get? a "order" with
    | some (.num h) => Dict.set a "order" (.tup [.num h, .num h])
    | _ => a
  if Dict.contains a1 "standard_order" then a1 else Dict.set a1 "standard_order" (.num 0)

/-- `h_to_explicit(G, nodes, its)`; `ns = []` stands for `None` / the empty list (all nodes of `G`). -/
def hToExplicitG (g : LGraph) (ns : List Nat) (its : Bool) : LGraph :=
  let order := if ns.isEmpty then g.ids else ns
  let h := (order.foldl stepOn (g, maxId g)).1
  if its then { h with edges := h.edges.map fun e => (e.1, e.2.1, normEdge e.2.2) } else h

/-- every `typesGH` the function would have to adjust has the shape it assumes. -/
def typesDomain (g : LGraph) : Bool :=
  g.nodes.all fun p =>
    match Dict.get? p.2 "typesGH" with
    | some t => !(decide (hcnt p.2 > 0)) || (adjTypes t 1).isSome
    | none => true

/-! ## `implicit_hydrogen(graph, preserve, reindex=True)` -/

def implicitHydrogenReindex (g : LGraph) (preserve : List Nat) : LGraph :=
  let h := implicitHydrogen g preserve
  let f : Nat → Nat := fun n => h.ids.idxOf n + 1
  let r := h.relabel f
  { r with nodes := r.nodes.map fun p => (p.1, Dict.set p.2 "atom_map" (.num (2 * (p.1 : Int)))) }

/-! ## GML writer with `explicit_hydrogen=True` -/

/-- `standard_order = edge[2].get("standard_order", 0); standard_order == 0`. -/
def stdZero (a : Attrs) : Bool :=
  match Dict.get? a "standard_order" with
  | none => true
  | some (.num h) => h == 0
  | some _ => false

/-- `order_to_label.get(edge[2].get("order", (1.0, 1.0)), "-")`: a tuple is never a key, so every
edge of an ITS graph is written as `-`; the scalar order of a freshly added hydrogen bond is looked up. -/
def ctxEdgeItem (e : Nat × Nat × Attrs) : Item :=
  .edge e.1 e.2.1 (orderLabel (Dict.getD e.2.2 "order" (.tup [.num 2, .num 2])))

/-- the `context` section with `explicit_hydrogen=True`: unchanged nodes, then the edges whose
`standard_order` is 0. -/
def ctxItemsX (K : LGraph) (changed : List Nat) : List Item :=
  ctxItems K changed ++ (K.edges.filter fun e => stdZero e.2.2).map ctxEdgeItem

/-- `NXToGML.transform((L, R, K), reindex=…, explicit_hydrogen=…)`: the three graphs are renumbered
first (`reindex`), the context graph is expanded by `h_to_explicit` afterwards — so the new hydrogens
are numbered from the largest *renumbered* id + 1 and cannot meet a renumbered atom (F44 repaired,
`notes/draft-fixes/0023-explicit-hydrogen-after-reindex.patch`). -/
def writeRuleX (reindex explicitH : Bool) (L R K : LGraph) : Rule :=
  if !explicitH then writeRule reindex L R K else
  let f : Nat → Nat := if reindex then indexMap L else id
  let L' := L.relabel f
  let R' := R.relabel f
  let K' := hToExplicitG (K.relabel f) [] false
  let ch := findChanged L' R'
  { left := sideItems L' ch, context := ctxItemsX K' ch, right := sideItems R' ch }

def itsToGmlX (core reindex explicitH : Bool) (I : LGraph) : Rule :=
  let I' := if core then getRc I else I
  writeRuleX reindex explicitH (decompose I').1 (decompose I').2 I'

def smartToGmlX (core reindex explicitH : Bool) (r p : LGraph) : Rule :=
  let I := construct r p
  if core then writeRuleX reindex explicitH (decompose (getRc I)).1 (decompose (getRc I)).2 (getRc I)
  else writeRuleX reindex explicitH r p I

/-! ## The new definitions agree with the proved ones on a concrete input -/

private def ex : LGraph :=
  { nodes := [(3, [("element", .str "C"), ("hcount", .num 4), ("charge", .num 0), ("atom_map", .num 6)]),
              (1, [("element", .str "O"), ("hcount", .num 2), ("charge", .num 0), ("atom_map", .num 2)]),
              (7, [("element", .str "H"), ("hcount", .num 0), ("charge", .num 0), ("atom_map", .num 14)])],
    edges := [(3, 1, [("order", .num 2)]), (1, 7, [("order", .num 2)])] }

example : hToExplicitG ex [] false = hToExplicit ex := by decide
example : (hToExplicitG ex [1, 9, 1] false).nodes.length = 4 ∧ totalH (hToExplicitG ex [1, 9, 1] false) = totalH ex := by decide

end SynKit.ReprOpt

import SynKitModel.Match
/-!
# C07 — `GraphMatcherEngine`, `SubgraphMatch.subgraph_isomorphism`, `graph_morphism.*`

Model of `synkit/Graph/Matcher/graph_matcher.py` (engine with `_pre_check`, WL-1 histogram cache,
`isomorphic`, `get_mappings`), of the boolean sub-graph test in `subgraph_matcher.py` /
`graph_morphism.py` with its `use_filter` pre-filters, and of `graph_isomorphism`.
It follows the repaired code of DESIGN §6 F5/F5b (get_mappings looks for the pattern inside the
host; WL containment of refined labels only for equal sizes), F6 (cache keyed by graph *and*
attribute selection), F7 (edge pre-filter compares label multisets).
NetworkX VF2 is replaced by the proven enumerators of `SynKitModel/Match.lean`.
-/
namespace SynKit.GME
open SynKit.Match

/-! ## the engine -/

structure Engine where
  nodeAttrs : List String := []
  edgeAttrs : List String := []
  wl1Filter : Bool := false
  /-- `max_mappings`; `none` = enumerate all. -/
  maxMappings : Option Nat := some 1
deriving Repr, DecidableEq

/-- The compiled node / edge matchers: equality on the selected keys plus host-≥-pattern `hcount`. -/
def Engine.sel (e : Engine) : Sel := { nodeKeys := e.nodeAttrs, edgeKeys := e.edgeAttrs, hcountRule := true }

/-! ### `_wl1_hash` -/

abbrev Label := List Val

/-- `tuple(g.nodes[n].get(a) for a in node_attrs)` -/
def baseLabel (attrs : List String) (a : Attrs) : Label := attrs.map a.get

/-- The Counter as the list of its keys with multiplicity, one entry per node:
(base label, base labels of the neighbours).  The Python key holds the neighbour labels as a
*sorted* tuple, i.e. as a multiset; key equality is `keyEq`. -/
abbrev WL := List (Label × List Label)

def wl1 (g : LGraph) (attrs : List String) : WL :=
  g.nodes.map fun n => (baseLabel attrs n.2, (g.neighbors n.1).map fun v => baseLabel attrs (g.attrs v))

/-- Equality of two Counter keys (sorted tuples are equal iff the lists are permutations). -/
def keyEq (a b : Label × List Label) : Bool := a.1 == b.1 && a.2.isPerm b.2

/-- `all(h_wl.get(lbl, 0) >= cnt for lbl, cnt in p_wl.items())` -/
def wlContained (h p : WL) : Bool :=
  p.all fun k => decide ((h.filter (keyEq k)).length ≥ (p.filter (keyEq k)).length)

/-- The same containment on base labels only (neighbourhoods summed out). -/
def baseContained (h p : WL) : Bool :=
  p.all fun k => decide ((h.filter (fun x => x.1 == k.1)).length ≥ (p.filter (fun x => x.1 == k.1)).length)

/-! ### the class-level cache as explicit state

Graph objects are identified by their position in a heap of (immutable) graphs; the repaired
cache is keyed by (graph object, `node_attrs`). -/

abbrev GraphId := Nat
abbrev Cache := List ((GraphId × List String) × WL)

/-- `_wl_hash_cached` -/
def wlCached (cache : Cache) (gid : GraphId) (g : LGraph) (attrs : List String) : WL × Cache :=
  match cache.find? (fun e => e.1 = (gid, attrs)) with
  | some e => (e.2, cache)
  | none => let w := wl1 g attrs; (w, cache ++ [((gid, attrs), w)])

/-- `_pre_check(host, pattern)` given the two histograms (only looked at when `wl1_filter`). -/
def preCheckWith (e : Engine) (host pat : LGraph) (hw pw : WL) : Bool :=
  if host.nodes.length < pat.nodes.length || host.edges.length < pat.edges.length then false
  else if !e.wl1Filter then true
  else if host.nodes.length = pat.nodes.length then wlContained hw pw
  else baseContained hw pw

/-- `_pre_check` with the cache threaded through (the histograms are fetched only when the size
test passes and the filter is on, host first — the order of side effects of the code). -/
def preCheck (e : Engine) (cache : Cache) (hid pid : GraphId) (host pat : LGraph) : Bool × Cache :=
  if host.nodes.length < pat.nodes.length || host.edges.length < pat.edges.length then (false, cache)
  else if !e.wl1Filter then (true, cache)
  else
    let (hw, c1) := wlCached cache hid host e.nodeAttrs
    let (pw, c2) := wlCached c1 pid pat e.nodeAttrs
    (preCheckWith e host pat hw pw, c2)

/-- cache-free `_pre_check` -/
def preCheckPure (e : Engine) (host pat : LGraph) : Bool :=
  preCheckWith e host pat (wl1 host e.nodeAttrs) (wl1 pat e.nodeAttrs)

/-! ### `_isomorphic_nx` -/

/-- After the pre-check: `GraphMatcher(g1, g2)` with `g1` the graph with at most as many nodes;
`is_isomorphic()` for equal node counts, else `subgraph_is_isomorphic()` (which looks for the
*larger* `g2` inside `g1`). The node matcher receives (`g1` attrs, `g2` attrs): `g1` plays host in
the hydrogen rule. -/
def isoCore (e : Engine) (g1 g2 : LGraph) : Bool :=
  if g1.nodes.length = g2.nodes.length then isoDecide e.sel g1 g2
  else !(allInduced e.sel g1 g2).isEmpty

def isomorphic (e : Engine) (cache : Cache) (id1 id2 : GraphId) (g1 g2 : LGraph) : Bool × Cache :=
  -- put the smaller graph first
  let (ia, ib, a, b) := if g1.nodes.length > g2.nodes.length then (id2, id1, g2, g1) else (id1, id2, g1, g2)
  let (ok, c) := preCheck e cache ib ia b a      -- b is the (larger) host of the pre-check
  if !ok then (false, c) else (isoCore e a b, c)

def isomorphicPure (e : Engine) (g1 g2 : LGraph) : Bool :=
  let (a, b) := if g1.nodes.length > g2.nodes.length then (g2, g1) else (g1, g2)
  if !preCheckPure e b a then false else isoCore e a b

/-! ### `_get_mappings_nx` (pattern → host dictionaries) -/

def mappingsCore (e : Engine) (host pat : LGraph) : List Mapping :=
  if pat.nodes.length = host.nodes.length ∧ pat.edges.length = host.edges.length then
    -- `[gm.mapping] if gm.is_isomorphic() else []`: one isomorphism, whatever `max_mappings`
    (allInduced e.sel host pat).take 1
  else
    match e.maxMappings with
    | none => allInduced e.sel host pat
    | some k => (allInduced e.sel host pat).take k      -- `islice`

def getMappings (e : Engine) (cache : Cache) (hid pid : GraphId) (host pat : LGraph) : List Mapping × Cache :=
  let (ok, c) := preCheck e cache hid pid host pat
  if !ok then ([], c) else (mappingsCore e host pat, c)

def getMappingsPure (e : Engine) (host pat : LGraph) : List Mapping :=
  if !preCheckPure e host pat then [] else mappingsCore e host pat

/-! ### query histories over shared graph objects -/

inductive Query
  | iso (e : Engine) (g1 g2 : GraphId)
  | maps (e : Engine) (host pat : GraphId)
deriving Repr

inductive Answer
  | verdict (b : Bool)
  | mappings (ms : List Mapping)
deriving Repr, DecidableEq

def graphAt (heap : List LGraph) (i : GraphId) : LGraph := heap.getD i {}

def step (heap : List LGraph) (cache : Cache) : Query → Answer × Cache
  | .iso e i j => let (b, c) := isomorphic e cache i j (graphAt heap i) (graphAt heap j); (.verdict b, c)
  | .maps e i j => let (ms, c) := getMappings e cache i j (graphAt heap i) (graphAt heap j); (.mappings ms, c)

/-- Run a history of queries against one shared cache. -/
def run (heap : List LGraph) : Cache → List Query → List Answer
  | _, [] => []
  | cache, q :: qs => let (a, c) := step heap cache q; a :: run heap c qs

/-- The cache-free answer of a single query. -/
def pureAnswer (heap : List LGraph) : Query → Answer
  | .iso e i j => .verdict (isomorphicPure e (graphAt heap i) (graphAt heap j))
  | .maps e i j => .mappings (getMappingsPure e (graphAt heap i) (graphAt heap j))

/-! ## `SubgraphMatch.subgraph_isomorphism` / `graph_morphism.subgraph_isomorphism` -/

/-- `d.get(label, default)` for every compared label: the attribute dict VF2's
`generic_node_match(names, defaults, eq)` effectively compares. -/
def withDefaults (names : List String) (defaults : List Val) (a : Attrs) : Attrs :=
  (names.zip defaults).map fun nd => (nd.1, Dict.getD a nd.1 nd.2)

def applyNodeDefaults (names : List String) (defaults : List Val) (g : LGraph) : LGraph :=
  { g with nodes := g.nodes.map fun n => (n.1, withDefaults names defaults n.2) }

def applyEdgeDefault (key : String) (dflt : Val) (g : LGraph) : LGraph :=
  { g with edges := g.edges.map fun e => (e.1, e.2.1, [(key, Dict.getD e.2.2 key dflt)]) }

structure SubCfg where
  names : List String := ["element", "charge"]
  defaults : List Val := [.str "*", .num 0]
  /-- `edge_attribute` (`none` = falsy: no edge attribute compared) -/
  edgeAttr : Option String := some "order"
  useFilter : Bool := false
  /-- `check_type == "induced"` -/
  induced : Bool := true
deriving Repr

def SubCfg.sel (c : SubCfg) : Sel :=
  { nodeKeys := (c.names.zip c.defaults).map (·.1), edgeKeys := c.edgeAttr.toList, hcountRule := false }

/-- Step 1 of the filter: node and edge counts. -/
def filterSize (child parent : LGraph) : Bool :=
  !(child.nodes.length > parent.nodes.length || child.edges.length > parent.edges.length)

/-- Step 2: every child node has a parent node with equal (defaulted) labels. -/
def filterNodes (c : SubCfg) (child parent : LGraph) : Bool :=
  child.nodes.all fun cn => parent.nodes.any fun pn =>
    (c.names.zip c.defaults).all fun nd => Dict.getD cn.2 nd.1 nd.2 = Dict.getD pn.2 nd.1 nd.2

/-- Step 3 (repaired): the child's edge labels, one at a time, are removed from the list of the
parent's edge labels; a label that is no longer there fails the filter. -/
def edgeLabelLoop : List Val → List Val → Bool
  | [], _ => true
  | l :: ls, parentLabels => if parentLabels.contains l then edgeLabelLoop ls (parentLabels.erase l) else false

def filterEdges (c : SubCfg) (child parent : LGraph) : Bool :=
  match c.edgeAttr with
  | none => true
  | some k => edgeLabelLoop (child.edges.map fun e => e.2.2.get k) (parent.edges.map fun e => e.2.2.get k)

def subFilter (c : SubCfg) (child parent : LGraph) : Bool :=
  filterSize child parent && filterNodes c child parent && filterEdges c child parent

/-- The VF2 call: `GraphMatcher(parent, child, …).subgraph_is_isomorphic()` / `…_monomorphic()`. -/
def subCore (c : SubCfg) (child parent : LGraph) : Bool :=
  let P := applyNodeDefaults c.names c.defaults child
  let H := applyNodeDefaults c.names c.defaults parent
  if c.induced then !(allInduced c.sel H P).isEmpty else !(allMonos c.sel H P).isEmpty

/-- `subgraph_isomorphism(child, parent, …)` (both modules, after the repair they coincide). -/
def subgraphIsomorphism (c : SubCfg) (child parent : LGraph) : Bool :=
  if c.useFilter && !subFilter c child parent then false else subCore c child parent

/-! ## `graph_morphism.graph_isomorphism` -/

/-- With `use_defaults` the matchers compare element/charge (defaults `"*"`, 0) and `order`
(default 1); without, no attribute is compared.  `nx.is_isomorphic(g1, g2)` = `GraphMatcher(g1, g2).is_isomorphic()`. -/
def graphIsomorphism (useDefaults : Bool) (g1 g2 : LGraph) : Bool :=
  if useDefaults then
    let names := ["element", "charge"]
    let defaults := [Val.str "*", Val.num 0]
    let prep := fun g => applyEdgeDefault "order" (.num 2) (applyNodeDefaults names defaults g)
    isoDecide { nodeKeys := names, edgeKeys := ["order"], hcountRule := false } (prep g1) (prep g2)
  else
    isoDecide { nodeKeys := [], edgeKeys := [], hcountRule := false } g1 g2

end SynKit.GME

import SynKitModel.Stoich
/-!
# Model of the *graph entry path* of the CRN analyses (C17; shared by C19 / C20) — core Lean only

`build_S_minus_plus`, `build_S` (and, through the same helpers, the readers of `deficiency.py`
and `Petri/structure.py`) accept, besides a `CRNHyperGraph`, a plain bipartite NetworkX graph:

* nodes carry `kind` = `"species"` / `"reaction"` and/or a `bipartite` flag (0 / 1) and
  optionally a `label`;
* edges carry `role` = `"reactant"` / `"product"` and optionally `stoich` (default 1);
* the object may be a `DiGraph`, `MultiDiGraph`, `Graph` or `MultiGraph`, arcs written in either
  direction.

Anchors (the code as repaired after findings F27 / F28 / F37 and the flag-vs-kind / missing
stoich defects):

* `synkit/CRN/Hypergraph/conversion.py::_as_bipartite` — a directed graph is returned as is; an
  undirected one is turned into `nx.DiGraph(crn)` / `nx.MultiDiGraph(crn)` (both arcs of every
  edge, parallel edges kept) and then every arc `u → v` with
  `(role == "reactant" and u is a reaction) or (role == "product" and u is a species)` is removed,
  so that each edge counts once  → `asBipartite`;
* `synkit/CRN/Props/utils.py::_split_species_reactions` — `kind` decides when present, the flag
  only otherwise → `nodeIsSpecies`, `nodeIsReaction`;
* `utils.py::_species_and_reaction_order` — rows / columns are `sorted(nodes, key=str(label or id))`,
  a *stable* sort of the nodes in `G.nodes` order → `speciesRows`, `reactionCols`;
* `synkit/CRN/Props/stoich.py::build_S_minus_plus` — for every arc between a species node and a
  reaction node (whichever way it points): role `reactant` adds the coefficient to `S⁻`, role
  `product` to `S⁺`; other roles and arcs between other kinds of nodes are ignored; parallel
  arcs add up → `graphSMinus`, `graphSPlus`, `graphS`, `graphBuildS`.

What is **not** the code but NetworkX itself is modelled too, because the defects lived exactly
there: a non-multi graph holds one edge per (ordered, for a `DiGraph`; unordered, for a `Graph`)
pair of nodes and `add_edge` on an existing pair *updates* the attribute dictionary of the stored
edge (`effArcs`, `upsert`, `mergeArc`: an attribute given by the later call replaces the earlier
value, an attribute it does not mention keeps it).

`netOfGraph` is the network the graph *describes* (one reaction per reaction node, sides collected
by role from the effective edges, direction-agnostic, coefficients of parallel edges summed); it
does not go through `asBipartite`. `SynKitProofs/BipGraphLemmas.lean` proves that the graph
reading equals `Stoich.buildS` of that network, entry by entry and in the same row / column order.

Coefficients are integers (`float(data.get("stoich", 1.0))` on integral values; floats never
cross the protocol). Node ids are strings (`str(node)`); the harness only sends graphs whose node
ids stay distinct after `str`.
-/
namespace SynKit.BipGraph
open SynKit SynKit.Store SynKit.Stoich

/-- A node of the input graph with the attributes the code looks at. `none` = attribute absent. -/
structure BNode where
  id : String
  kind : Option String
  flag : Option Int
  label : Option String
deriving Repr, DecidableEq, Inhabited

/-- One `add_edge(src, dst, role=…, stoich=…)`. `none` = attribute absent. -/
structure BArc where
  src : String
  dst : String
  role : Option String
  stoich : Option Int
deriving Repr, DecidableEq, Inhabited

/-- The input graph: nodes in `G.nodes` order, the `add_edge` calls in order, and the NetworkX class
(`directed`, `multi`). For an undirected input every edge is listed once, with its endpoints in
arbitrary order. -/
structure BipGraph where
  nodes : List BNode
  arcs : List BArc
  directed : Bool
  multi : Bool
deriving Repr, DecidableEq, Inhabited

/-! ## Node typing (`_split_species_reactions`) -/

/-- `kind == "species" or (kind is None and bflag == 0)`. -/
def nodeIsSpecies (n : BNode) : Bool :=
  match n.kind with
  | some k => k == "species"
  | none => n.flag == some 0

/-- `kind == "reaction" or (kind is None and bflag == 1)`. -/
def nodeIsReaction (n : BNode) : Bool :=
  match n.kind with
  | some k => k == "reaction"
  | none => n.flag == some 1

/-- `str(G.nodes[n].get("label", n))`. -/
def nodeKey (n : BNode) : String :=
  match n.label with
  | some l => l
  | none => n.id

/-- `G.nodes[u]`: a node an edge mentions without it ever being declared exists in NetworkX with
an empty attribute dictionary, i.e. it is neither species nor reaction — `none` here. -/
def lookup (g : BipGraph) (u : String) : Option BNode := g.nodes.find? (fun n => n.id == u)

def idIsSpecies (g : BipGraph) (u : String) : Bool :=
  match lookup g u with
  | some n => nodeIsSpecies n
  | none => false

def idIsReaction (g : BipGraph) (u : String) : Bool :=
  match lookup g u with
  | some n => nodeIsReaction n
  | none => false

def speciesNodes (g : BipGraph) : List BNode := g.nodes.filter nodeIsSpecies
def reactionNodes (g : BipGraph) : List BNode := g.nodes.filter nodeIsReaction

/-! ## What NetworkX stores (`add_edge`) -/

def BArc.rev (a : BArc) : BArc := { a with src := a.dst, dst := a.src }

/-- Two `add_edge` calls address the same stored edge of a non-multi graph: same ordered pair, or
(undirected) same unordered pair. -/
def sameKey (directed : Bool) (a b : BArc) : Bool :=
  (a.src == b.src && a.dst == b.dst) || (!directed && a.src == b.dst && a.dst == b.src)

/-- `datadict.update(attr)`: attributes of the later call win, the others stay. -/
def mergeArc (old new : BArc) : BArc :=
  { src := old.src, dst := old.dst,
    role := match new.role with
      | some r => some r
      | none => old.role,
    stoich := match new.stoich with
      | some c => some c
      | none => old.stoich }

/-- `add_edge` on a non-multi graph: update the stored edge in place or append a new one. -/
def upsert (directed : Bool) : List BArc → BArc → List BArc
  | [], a => [a]
  | b :: rest, a => if sameKey directed b a then mergeArc b a :: rest else b :: upsert directed rest a

/-- The edges the NetworkX object holds. -/
def effArcs (g : BipGraph) : List BArc :=
  if g.multi then g.arcs else g.arcs.foldl (upsert g.directed) []

/-! ## `_as_bipartite` -/

/-- The removal test of `_as_bipartite` for the arc `u → v` of the directed copy. -/
def dropArc (g : BipGraph) (a : BArc) : Bool :=
  (a.role == some "reactant" && idIsReaction g a.src) ||
  (a.role == some "product" && idIsSpecies g a.src)

/-- `nx.DiGraph(G)` / `nx.MultiDiGraph(G)` of an undirected graph: both arcs of every edge, a
self-loop once. -/
def bothWays (a : BArc) : List BArc := if a.src == a.dst then [a] else [a, a.rev]

/-- The arcs of `_as_bipartite(G)`. -/
def asBipartite (g : BipGraph) : List BArc :=
  if g.directed then effArcs g
  else ((effArcs g).flatMap bothWays).filter (fun a => !dropArc g a)

/-! ## `_species_and_reaction_order` -/

/-- Species nodes in row order: `sorted(species_nodes, key=label-or-id)` (stable). -/
def speciesRows (g : BipGraph) : List BNode := sortBy nodeKey (speciesNodes g)
/-- Reaction nodes in column order. -/
def reactionCols (g : BipGraph) : List BNode := sortBy nodeKey (reactionNodes g)

def rowLabels (g : BipGraph) : List String := (speciesRows g).map nodeKey
def colLabels (g : BipGraph) : List String := (reactionCols g).map nodeKey

/-! ## `build_S_minus_plus`, `build_S` -/

/-- The arc joins the nodes `s` and `r`, in either direction, and has the given role. -/
def arcJoins (role s r : String) (a : BArc) : Bool :=
  a.role == some role && ((a.src == s && a.dst == r) || (a.src == r && a.dst == s))

/-- What one arc adds to the entry (species node `s`, reaction node `r`) of the matrix of `role`:
`float(data.get("stoich", 1.0))` or nothing. -/
def arcCoeff (role s r : String) (a : BArc) : Int :=
  if arcJoins role s r a then a.stoich.getD 1 else 0

/-- `M[i, j] += coeff` over all arcs. -/
def arcSum (role s r : String) (arcs : List BArc) : Int :=
  arcs.foldl (fun acc a => acc + arcCoeff role s r a) 0

def graphMat (role : String) (g : BipGraph) : IMat :=
  (speciesRows g).map fun s => (reactionCols g).map fun r => arcSum role s.id r.id (asBipartite g)

def graphSMinus (g : BipGraph) : IMat := graphMat "reactant" g
def graphSPlus (g : BipGraph) : IMat := graphMat "product" g
/-- `S_plus - S_minus`. -/
def graphS (g : BipGraph) : IMat := matSub (graphSPlus g) (graphSMinus g)

/-- `build_S(G)` on a NetworkX graph, in the result type of the network-level model:
`_split_species_reactions` raises `ValueError` when there is no species node or no reaction node. -/
def graphBuildS (g : BipGraph) : Except Stoich.Err SResult :=
  if (speciesNodes g).isEmpty || (reactionNodes g).isEmpty then .error .valueError
  else .ok ⟨rowLabels g, colLabels g, graphS g⟩

/-! ## The network a graph describes -/

/-- One side of the reaction of reaction node `r`: every species node joined to `r` by at least
one effective edge of the given role, with the sum of the coefficients of those edges. -/
def sideOf (g : BipGraph) (role : String) (r : BNode) : Side :=
  (speciesNodes g).filterMap fun s =>
    if (effArcs g).any (arcJoins role s.id r.id) then
      some (nodeKey s, (arcSum role s.id r.id (effArcs g)).toNat)
    else none

/-- The reaction of one reaction node: id = node id, rule = the node's label (else its id). -/
def edgeOfNode (g : BipGraph) (r : BNode) : Edge :=
  ⟨r.id, nodeKey r, sideOf g "reactant" r, sideOf g "product" r⟩

/-- The network described by the graph: species = labels of the species nodes, one reaction per
reaction node. Reads the *effective edges* (`effArcs`), not the output of `_as_bipartite`. -/
def netOfGraph (g : BipGraph) : Net :=
  ⟨(speciesNodes g).map nodeKey, (reactionNodes g).map (edgeOfNode g)⟩

/-! ## Well-formedness (hypotheses of the agreement theorems) -/

/-- No two `add_edge` calls address the same stored edge (so nothing is overwritten). Always
harmless for a multigraph, where it is not required. -/
def ArcsSimple (g : BipGraph) : Prop :=
  g.arcs.Pairwise (fun a b => sameKey g.directed a b = false)

/-! ## Variations of the way a graph is written (statements of the invariance theorems) -/

/-- `l'` is `l` with an arbitrary subset of its arcs reversed. -/
inductive Reoriented : List BArc → List BArc → Prop
  | nil : Reoriented [] []
  | keep (a : BArc) {l l' : List BArc} : Reoriented l l' → Reoriented (a :: l) (a :: l')
  | flip (a : BArc) {l l' : List BArc} : Reoriented l l' → Reoriented (a :: l) (a.rev :: l')

/-- Spell the default coefficient out: `stoich` absent becomes `stoich = 1`. -/
def BArc.fillStoich (a : BArc) : BArc := { a with stoich := some (a.stoich.getD 1) }

/-- Node ids are distinct (NetworkX guarantees it; the hypothesis is about the serialisation). -/
def IdsDistinct (g : BipGraph) : Prop := (g.nodes.map (·.id)).Nodup

/-- Well-formed bipartite input: distinct node ids, distinct species labels, non-negative
coefficients. Nothing is asked of the arcs: an arc that does not join a species node to a
reaction node, or whose role is neither `"reactant"` nor `"product"`, is ignored by the code and
by `netOfGraph` alike. -/
structure WF (g : BipGraph) : Prop where
  ids : IdsDistinct g
  speciesLabels : ((speciesNodes g).map nodeKey).Nodup
  coeffs : ∀ a ∈ g.arcs, 0 ≤ a.stoich.getD 1

/-- Reaction labels (label, else node id) are pairwise distinct: the hypothesis under which the
column order of the graph reading is determined by the labels alone. -/
def ReactionLabelsDistinct (g : BipGraph) : Prop := ((reactionNodes g).map nodeKey).Nodup

instance (g : BipGraph) : Decidable (ArcsSimple g) := by unfold ArcsSimple; infer_instance
instance (g : BipGraph) : Decidable (IdsDistinct g) := by unfold IdsDistinct; infer_instance
instance (g : BipGraph) : Decidable (ReactionLabelsDistinct g) := by
  unfold ReactionLabelsDistinct; infer_instance

/-- Decidable form of the well-formedness conditions used by `graphS_eq_buildS`. -/
def wfB (g : BipGraph) : Bool :=
  decide ((g.nodes.map (·.id)).Nodup) &&
  decide (((speciesNodes g).map nodeKey).Nodup) &&
  decide (((reactionNodes g).map nodeKey).Nodup) &&
  g.arcs.all (fun a => decide (0 ≤ a.stoich.getD 1))

end SynKit.BipGraph

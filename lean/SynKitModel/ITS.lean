import SynKitModel.Graph
/-!
# ITS construction, decomposition, reaction centre and radius-k context (C01, C02)

Model of

* `synkit/Graph/ITS/its_construction.py` : `ITSConstruction.construct` / `ITSGraph`
* `synkit/Graph/ITS/its_decompose.py`    : `its_decompose`, `get_rc` (the live variant:
  `_add_changed_bonds`, `_add_hh_bonds`, `_add_charge_change_nodes`, `_reconnect_rc_edges`)
* `synkit/Graph/Context/radius_expand.py`: `find_nearest_neighbors`, `extract_subgraph`, `extract_k`
  (radii ≥ 0 and the free-radius mode `-1` with `longest_radius_extension`), `find_unequal_order_edges`

Numbers are in half-units (`Val.num h` is `h/2`).  A NetworkX `Graph` never holds two edges on
the same unordered pair and the code never builds self-loops from a frozenset pair; the model is
written for such inputs (`LGraph.WF`), list order plays the role of NetworkX iteration order.
-/
namespace SynKit.ITS
open SynKit

/-! ## Python value helpers -/

/-- `isinstance(x, (int, float)) and x != 0` (`bool` is a subclass of `int`). -/
def stdNonzero : Val → Bool
  | .num h => h != 0
  | .bool b => b
  | _ => false

/-- Python truthiness. -/
def truthy : Val → Bool
  | .none => false
  | .num h => h != 0
  | .str s => s != ""
  | .bool b => b
  | .tup xs => !xs.isEmpty

/-- `x > 0` for a number. -/
def positive : Val → Bool
  | .num h => h > 0
  | .bool b => b
  | _ => false

/-- `a - b` on numbers (anything else is outside the modelled domain, see `Val.isNum`). -/
def vsub : Val → Val → Val
  | .num a, .num b => .num (a - b)
  | _, _ => .none

def isNum : Val → Bool
  | .num _ => true
  | _ => false

/-- `t[i]` on a tuple. -/
def idx : Val → Nat → Val
  | .tup xs, i => xs.getD i .none
  | _, _ => .none

/-! ## `ITSConstruction.construct` -/

/-- `node_attrs` of `ITSGraph`: the order of the entries of a `typesGH` half. -/
def typesKeys : List String := ["element", "aromatic", "hcount", "charge", "neighbors"]

/-- `CORE_NODE_DEFAULTS` (the values used for a node missing on one side). -/
def nodeDefault : String → Val
  | "element" => .str "*"
  | "aromatic" => .bool false
  | "hcount" => .num 0
  | "charge" => .num 0
  | "neighbors" => .tup [.str "", .str ""]
  | "atom_map" => .num 0
  | _ => .none

/-- `G.nodes[n].get(attr, default) if n in G else default` for every `attr` of `typesKeys`
(`attrs` of an absent node is the empty dict, so both branches coincide). -/
def sideTuple (g : LGraph) (n : Nat) : List Val :=
  typesKeys.map fun k => ((g.attrs n).get? k).getD (nodeDefault k)

/-- `typesGH` and the per-attribute entries written onto an ITS node
(`store=True`: `(G value, H value)`; `store=False`: the G value). -/
def nodeAttrs (store : Bool) (G H : LGraph) (n : Nat) (a : Attrs) : Attrs :=
  let gt := sideTuple G n
  let ht := sideTuple H n
  let a1 := a.set "typesGH" (.tup [.tup gt, .tup ht])
  (typesKeys.zip (gt.zip ht)).foldl
    (fun acc kgh => acc.set kgh.1 (if store then .tup [kgh.2.1, kgh.2.2] else kgh.2.1)) a1

/-- `G[u][v].get("order", 0.0) if G.has_edge(u, v) else 0.0`. -/
def orderOf (g : LGraph) (u v : Nat) : Val :=
  match g.edge? u v with
  | some a => (a.get? "order").getD (.num 0)
  | none => .num 0

/-- `_compute_standard_order` for one edge. -/
def standardOrder (ignoreArom : Bool) (og oh : Val) : Val :=
  match vsub og oh with
  | .num d => if ignoreArom && decide (d.natAbs < 2) then .num 0 else .num d
  | v => v

def itsEdgeAttrs (ignoreArom : Bool) (og oh : Val) : Attrs :=
  [("order", .tup [og, oh]), ("standard_order", standardOrder ignoreArom og oh)]

structure Opts where
  ignoreArom : Bool := false
  /-- `balance_its` (`ITSGraph` default `False`, `construct` default `True`). -/
  balance : Bool := false
  store : Bool := false
deriving Repr, DecidableEq

/-- Which graph is deep-copied as the base (its attributes are carried over). -/
def baseIsG (o : Opts) (G H : LGraph) : Bool :=
  (o.balance && decide (G.nodes.length ≤ H.nodes.length)) ||
  (!o.balance && decide (G.nodes.length ≥ H.nodes.length))

/-- `ITSConstruction.construct(G, H, …)` with `node_attrs` as in `ITSGraph`.
Nodes: the base's nodes (attributes kept), then the other side's nodes that the base lacks;
every node gets `typesGH` and the per-attribute entries.  Edges: all old edges are dropped, then
one edge per unordered pair of `G.edges ∪ H.edges`, carrying only `order` and `standard_order`. -/
def construct (o : Opts) (G H : LGraph) : LGraph :=
  let base := if baseIsG o G H then G else H
  let other := if baseIsG o G H then H else G
  let raw := base.nodes ++ other.nodes.filter (fun p => !base.hasNode p.1)
  let pairs : List (Nat × Nat) :=
    G.edges.map (fun e => (e.1, e.2.1)) ++
    (H.edges.filter fun e => !G.hasEdge e.1 e.2.1).map (fun e => (e.1, e.2.1))
  { nodes := raw.map fun p => (p.1, nodeAttrs o.store G H p.1 p.2)
    edges := pairs.map fun uv =>
      (uv.1, uv.2, itsEdgeAttrs o.ignoreArom (orderOf G uv.1 uv.2) (orderOf H uv.1 uv.2)) }

/-- Inputs on which the Python code raises instead of returning (outside the model's domain):
a bond order that is not a number. -/
def constructDefined (G H : LGraph) : Bool :=
  (G.edges ++ H.edges).all fun e => match e.2.2.get? "order" with
    | some v => isNum v
    | none => true

/-! ## `its_decompose` -/

/-- The node `its_decompose` adds for one half of `typesGH` (`atom_map=node`, `neighbors` dropped). -/
def sideNode (n : Nat) (t : Val) : Attrs :=
  [("element", idx t 0), ("aromatic", idx t 1), ("hcount", idx t 2), ("charge", idx t 3),
   ("atom_map", .num (2 * (n : Int)))]

/-- NetworkX `add_edge` creates missing end points (with empty attribute dicts). -/
def ensureBare (ns : List (Nat × Attrs)) (n : Nat) : List (Nat × Attrs) :=
  if ns.any (·.1 = n) then ns else ns ++ [(n, [])]

def addMissing (ns : List (Nat × Attrs)) (es : List (Nat × Nat × Attrs)) : List (Nat × Attrs) :=
  es.foldl (fun ns e => ensureBare (ensureBare ns e.1) e.2.1) ns

def gHalf (a : Attrs) : Option Val :=
  match a.get? "typesGH" with
  | some (.tup [g, _]) => some g
  | _ => none

/-- The product half; `if len(node_attr_h) > 0`. -/
def hHalf (a : Attrs) : Option Val :=
  match a.get? "typesGH" with
  | some (.tup [_, .tup (x :: xs)]) => some (.tup (x :: xs))
  | _ => none

def orderPair (a : Attrs) : Option (Val × Val) :=
  match a.get? "order" with
  | some (.tup [og, oh]) => some (og, oh)
  | _ => none

/-- `its_decompose(its)` with the default keys. -/
def decompose (I : LGraph) : LGraph × LGraph :=
  let gn := I.nodes.filterMap fun p => (gHalf p.2).map fun g => (p.1, sideNode p.1 g)
  let hn := I.nodes.filterMap fun p => (hHalf p.2).map fun h => (p.1, sideNode p.1 h)
  let ge := I.edges.filterMap fun e => match orderPair e.2.2 with
    | some (og, _) => if positive og then some (e.1, e.2.1, [("order", og)]) else none
    | none => none
  let he := I.edges.filterMap fun e => match orderPair e.2.2 with
    | some (_, oh) => if positive oh then some (e.1, e.2.1, [("order", oh)]) else none
    | none => none
  ({ nodes := addMissing gn ge, edges := ge }, { nodes := addMissing hn he, edges := he })

/-- Inputs on which `its_decompose` raises: a `typesGH` that is not a pair of tuples with at least
four entries (the product half may be empty), an `order` that is not a pair of numbers. -/
def decomposeDefined (I : LGraph) : Bool :=
  (I.nodes.all fun p => match p.2.get? "typesGH" with
    | none => true
    | some (.tup [.tup g, .tup h]) => decide (g.length ≥ 4) && (h.isEmpty || decide (h.length ≥ 4))
    | _ => false) &&
  (I.edges.all fun e => match e.2.2.get? "order" with
    | none => true
    | some (.tup [og, oh]) => isNum og && isNum oh
    | _ => false)

/-! ## `get_rc` -/

structure RcOpts where
  elementKey : List String := ["element", "charge", "typesGH", "atom_map"]
  bondKey : String := "order"
  standardKey : String := "standard_order"
  disconnected : Bool := false
  keepMtg : Bool := false
deriving Repr, DecidableEq

/-- `{k: node_data[k] for k in element_key if k in node_data}`. -/
def proj (keys : List String) (a : Attrs) : Attrs :=
  keys.foldl (fun acc k => match a.get? k with
    | some v => acc.set k v
    | none => acc) []

/-- `_ensure_node` / `_carry_node_attrs`. -/
def ensureNode (keys : List String) (I rc : LGraph) (n : Nat) : LGraph :=
  if rc.hasNode n then rc else { rc with nodes := rc.nodes ++ [(n, proj keys (I.attrs n))] }

def hhFallback : Val :=
  .tup [.tup [.str "H", .bool false, .num 0, .num 0, .tup []],
        .tup [.str "*", .bool false, .num 0, .num 0, .tup []]]

/-- The attribute dict `_ensure_node_hh` builds. -/
def hhLabel (keys : List String) (a : Attrs) : Attrs :=
  let nd := if (a.get? "typesGH").isSome then a else a.set "typesGH" hhFallback
  (proj keys nd).set "typesGH" (nd.get "typesGH")

/-- `_ensure_node_hh`. -/
def ensureNodeHH (keys : List String) (I rc : LGraph) (n : Nat) : LGraph :=
  if rc.hasNode n then rc else { rc with nodes := rc.nodes ++ [(n, hhLabel keys (I.attrs n))] }

/-- `_should_include_edge`. -/
def includeEdge (o : RcOpts) (a : Attrs) : Bool :=
  stdNonzero (a.get o.standardKey) || (o.keepMtg && truthy ((a.get? "is_mtg").getD (.bool false)))

/-- `{bond_key: data.get(bond_key), standard_key: data.get(standard_key), "is_mtg": data.get("is_mtg", False)}`. -/
def rcEdgeAttrs (o : RcOpts) (a : Attrs) : Attrs :=
  Dict.set (Dict.set (Dict.set ([] : Attrs) o.bondKey (a.get o.bondKey)) o.standardKey (a.get o.standardKey))
    "is_mtg" ((a.get? "is_mtg").getD (.bool false))

/-- `{bond_key: …, standard_key: …}` of `_reconnect_rc_edges`. -/
def rcEdgeAttrs2 (o : RcOpts) (a : Attrs) : Attrs :=
  Dict.set (Dict.set ([] : Attrs) o.bondKey (a.get o.bondKey)) o.standardKey (a.get o.standardKey)

def pushEdge (rc : LGraph) (e : Nat × Nat × Attrs) : LGraph := { rc with edges := rc.edges ++ [e] }

/-- One iteration of `_add_changed_bonds` (on a simple graph `add_edge` always creates the edge). -/
def changedStep (o : RcOpts) (I rc : LGraph) (e : Nat × Nat × Attrs) : LGraph :=
  if includeEdge o e.2.2 then
    pushEdge (ensureNode o.elementKey I (ensureNode o.elementKey I rc e.1) e.2.1) (e.1, e.2.1, rcEdgeAttrs o e.2.2)
  else rc

def addChanged (o : RcOpts) (I rc : LGraph) : LGraph := I.edges.foldl (changedStep o I) rc

/-- `_is_hh_pair`. -/
def isHH (I : LGraph) (u v : Nat) : Bool :=
  decide ((I.attrs u).get "element" = .str "H") && decide ((I.attrs v).get "element" = .str "H")

/-- One iteration of `_add_hh_bonds`. -/
def hhStep (o : RcOpts) (I rc : LGraph) (e : Nat × Nat × Attrs) : LGraph :=
  if isHH I e.1 e.2.1 then
    let rc1 := ensureNodeHH o.elementKey I (ensureNodeHH o.elementKey I rc e.1) e.2.1
    if rc1.hasEdge e.1 e.2.1 then rc1 else pushEdge rc1 (e.1, e.2.1, rcEdgeAttrs o e.2.2)
  else rc

def addHH (o : RcOpts) (I rc : LGraph) : LGraph := I.edges.foldl (hhStep o I) rc

/-- `gh[0][3] != gh[1][3]` guarded by `isinstance(gh, (list, tuple)) and len(gh) >= 2`. -/
def chargeChanged (a : Attrs) : Bool :=
  match a.get "typesGH" with
  | .tup (g :: h :: _) => decide (idx g 3 ≠ idx h 3)
  | _ => false

/-- `_add_charge_change_nodes`. -/
def addChargeNodes (o : RcOpts) (I rc : LGraph) : LGraph :=
  I.nodes.foldl (fun rc p => if chargeChanged p.2 then ensureNode o.elementKey I rc p.1 else rc) rc

/-- `_reconnect_rc_edges`. -/
def reconnect (o : RcOpts) (I rc : LGraph) : LGraph :=
  I.edges.foldl (fun rc e =>
    if rc.hasNode e.1 && rc.hasNode e.2.1 && !rc.hasEdge e.1 e.2.1
    then pushEdge rc (e.1, e.2.1, rcEdgeAttrs2 o e.2.2) else rc) rc

/-- `get_rc(ITS, element_key, bond_key, standard_key, disconnected, keep_mtg)`. -/
def getRc (o : RcOpts) (I : LGraph) : LGraph :=
  let rc := addHH o I (addChanged o I {})
  if o.disconnected then reconnect o I (addChargeNodes o I rc) else rc

/-! ## `RadiusExpand` -/

/-- `s.update(xs)` on a duplicate-free list. -/
def unionL (s xs : List Nat) : List Nat := xs.foldl (fun acc x => if x ∈ acc then acc else acc ++ [x]) s

/-- `find_nearest_neighbors(G, center_nodes, n_knn)`: `n_knn` rounds of
`extended.update(neighbours of every node of extended)`. -/
def expand (I : LGraph) (S : List Nat) : Nat → List Nat
  | 0 => unionL [] S
  | k + 1 => unionL (expand I S k) ((expand I S k).flatMap I.neighbors)

/-- `G.subgraph(nodes).copy()`: the induced sub-graph with every attribute. -/
def induced (I : LGraph) (X : List Nat) : LGraph :=
  { nodes := I.nodes.filter fun p => X.contains p.1
    edges := I.edges.filter fun e => X.contains e.1 && X.contains e.2.1 }

/-- `RadiusExpand.extract_k(its, n_knn)` for `n_knn ≥ 0` (`n_knn = -1`: `extractFreeAdj` below). -/
def extractK (I : LGraph) (k : Nat) : LGraph :=
  let rc := getRc {} I
  match k with
  | 0 => rc
  | k + 1 => induced I (expand I rc.ids (k + 1))

/-! ## `RadiusExpand.extract_k(its, -1)` (free radius) and `find_unequal_order_edges` -/

/-- `edge_data.get("standard_order", 1) == 0` (`False == 0` in Python; a missing key reads as `1`). -/
def stdIsZero (a : Attrs) : Bool :=
  match a.get? "standard_order" with
  | some (.num h) => h == 0
  | some (.bool b) => !b
  | _ => false

/-- The neighbours the depth-first search of `longest_radius_extension` may step to from `v`:
`G.neighbors(v)` (in the adjacency order `adj v`) whose edge has `standard_order == 0`. -/
def freeSteps (I : LGraph) (adj : Nat → List Nat) (v : Nat) : List Nat :=
  (adj v).filter fun w => match I.edge? v w with
    | some a => stdIsZero a
    | none => false

/-- The inner `dfs(node, visited, path)` of `longest_radius_extension`: `visited.add(node)`, then for
every admissible neighbour not yet visited the search is continued on a *copy* of `visited` (so the
enumeration is over all simple paths), and a strictly longer result replaces the current one (the
first longest path in adjacency order wins).  `fuel` bounds the recursion depth; `I.nodes.length`
is enough (`dfsLongest_fuel_stable`). -/
def dfsLongest (nb : Nat → List Nat) : Nat → Nat → List Nat → List Nat → List Nat
  | 0, _, _, path => path
  | fuel + 1, node, visited, path =>
    (nb node).foldl (fun longest w =>
      if w ∈ node :: visited then longest
      else
        let cur := dfsLongest nb fuel w (node :: visited) (path ++ [w])
        if cur.length > longest.length then cur else longest) path

/-- One round of the outer loop of `longest_radius_extension`; the state is
`(longest_extension, visited_overall)`. -/
def extStep (nb : Nat → List Nat) (fuel : Nat) (st : List Nat × List Nat) (c : Nat) : List Nat × List Nat :=
  if c ∈ st.2 then st
  else
    let p := dfsLongest nb fuel c st.2 [c]
    (if p.length > st.1.length then p else st.1, unionL st.2 p)

/-- `longest_radius_extension(G, rc_nodes)` (first component) and the final `visited_overall`. -/
def longestExt (nb : Nat → List Nat) (fuel : Nat) (rcNodes : List Nat) : List Nat × List Nat :=
  rcNodes.foldl (extStep nb fuel) ([], [])

/-- The radius `extract_k(its, -1)` uses: `len(longest_radius_extension(its, list(rc.nodes())))`, the
number of ATOMS of the longest unchanged-bond path the search finds.  `adj` is the NetworkX adjacency
order of `its` (it decides ties, and through `visited_overall` it can change the number). -/
def freeRadiusAdj (adj : Nat → List Nat) (I : LGraph) : Nat :=
  (longestExt (freeSteps I adj) I.nodes.length (getRc {} I).ids).1.length

/-- `RadiusExpand.extract_k(its, -1)`: the radius is replaced by `freeRadiusAdj`, then the code falls
through to `find_nearest_neighbors` / `extract_subgraph` (also when that radius is 0). -/
def extractFreeAdj (adj : Nat → List Nat) (I : LGraph) : LGraph :=
  induced I (expand I (getRc {} I).ids (freeRadiusAdj adj I))

/-- The free-radius mode on a graph whose adjacency order is the one its edge list induces
(a graph built by `add_edge` in `G.edges()` order, e.g. any `G.copy()`). -/
def freeRadius (I : LGraph) : Nat := freeRadiusAdj I.neighbors I
def extractFree (I : LGraph) : LGraph := extractFreeAdj I.neighbors I

/-- Python `x == y` on two attribute values (`True == 1`, `False == 0`; otherwise structural). -/
def pyEq : Val → Val → Bool
  | .num a, .bool b => a == (if b then 2 else 0)
  | .bool b, .num a => a == (if b then 2 else 0)
  | x, y => decide (x = y)

/-- The test of `find_unequal_order_edges` on one edge:
`isinstance(order, tuple) and order[0] != order[1] and data.get("standard_order", 1) != 0`
with `order = data.get("order", (1, 1))`. -/
def unequalEdge (a : Attrs) : Bool :=
  match (a.get? "order").getD (.tup [.num 2, .num 2]) with
  | .tup xs => !pyEq (xs.getD 0 .none) (xs.getD 1 .none) && !stdIsZero a
  | _ => false

/-- Inputs on which `find_unequal_order_edges` raises (`IndexError`): an `order` tuple with fewer
than two entries. -/
def unequalDefined (I : LGraph) : Bool :=
  I.edges.all fun e => match e.2.2.get? "order" with
    | some (.tup xs) => decide (xs.length ≥ 2)
    | _ => true

/-- `RadiusExpand.find_unequal_order_edges(G)` (a set, here in insertion order). -/
def unequalOrderEdges (I : LGraph) : List Nat :=
  I.edges.foldl (fun acc e => if unequalEdge e.2.2 then unionL acc [e.1, e.2.1] else acc) []

end SynKit.ITS

/-! ## Decidable specification predicates (evaluated by the driver on the implementation's own
output when model and implementation disagree) -/
namespace SynKit.ITS
open SynKit

def rcKeys : List String := ["element", "charge", "typesGH", "atom_map"]
def molKeys : List String := ["element", "aromatic", "hcount", "charge", "atom_map"]

/-- C02, first sentence, as a test on a candidate centre `R` of `I`: `R` has an edge exactly on the
`I`-edges that are changed (`standard_order` a non-zero number) or join two hydrogens, with the
same `order`/`standard_order`; its nodes are exactly the end points of its edges; every node
carries `I`'s label on `rcKeys`. -/
def rcSpec (I R : LGraph) : Bool :=
  (I.edges.all fun e => R.hasEdge e.1 e.2.1 == (stdNonzero (e.2.2.get "standard_order") || isHH I e.1 e.2.1)) &&
  (R.edges.all fun e => match I.edge? e.1 e.2.1 with
    | some a => decide (a.get "order" = e.2.2.get "order") && decide (a.get "standard_order" = e.2.2.get "standard_order")
    | none => false) &&
  (R.ids.all fun n => R.edges.any fun e => e.1 = n || e.2.1 = n) &&
  (R.edges.all fun e => R.hasNode e.1 && R.hasNode e.2.1) &&
  (R.nodes.all fun p => rcKeys.all fun k => decide (p.2.get k = (I.attrs p.1).get k))

/-- C01, last sentence: `I` has exactly the union of the atoms and bonds of `G` and `H`, every bond
with the (before, after) pair and their difference. -/
def itsSpec (G H I : LGraph) : Bool :=
  (I.ids.all fun n => G.hasNode n || H.hasNode n) && ((G.ids ++ H.ids).all I.hasNode) &&
  (I.edges.all fun e => (G.hasEdge e.1 e.2.1 || H.hasEdge e.1 e.2.1) &&
    decide (e.2.2.get "order" = .tup [orderOf G e.1 e.2.1, orderOf H e.1 e.2.1]) &&
    decide (e.2.2.get "standard_order" = vsub (orderOf G e.1 e.2.1) (orderOf H e.1 e.2.1))) &&
  ((G.edges ++ H.edges).all fun e => I.hasEdge e.1 e.2.1)

/-- Same atoms with the same (element, aromatic, hcount, charge, atom_map), same bonds with the
same order — as a test. -/
def sameMol (A B : LGraph) : Bool :=
  A.ids.all B.hasNode && B.ids.all A.hasNode &&
  (A.ids.all fun n => molKeys.all fun k => decide ((A.attrs n).get k = (B.attrs n).get k)) &&
  (A.edges.all fun e => decide ((B.edge? e.1 e.2.1).map (·.get "order") = some (e.2.2.get "order"))) &&
  (B.edges.all fun e => A.hasEdge e.1 e.2.1)

end SynKit.ITS

/-!
# Model of `synkit/Graph/Matcher/graph_cluster.py` and `batch_cluster.py` (C13)

Clustering of a list of items by an isomorphism test with an optional pre-grouping attribute.
The items are abstract (`α`); the isomorphism test is an abstract `iso : α → α → Bool`
(`graph_isomorphism(first, second, nodeMatch, edgeMatch)`, argument order kept) and the
pre-grouping attribute is an abstract `key : α → κ` with decidable equality (the value the code
compares with `==`; attribute `None` for every item is a constant key).

* `GraphCluster.iterative_cluster` → `outer` / `inner` / `iterativeCluster` (same loops, same
  `visited` set, same `rule_to_cluster` dict, same order of side effects);
* `GraphCluster.fit` → `gcFit`;
* `BatchCluster.lib_check` → `libCheck`, `.cluster` → `clusterRun`, `.batch_dicts` → `batchDicts`,
  `.fit` → `bcFit`.

Core Lean only; every definition is total, structurally recursive (or fuelled) and executable.
-/
namespace SynKit.Cluster

/-- Python exceptions the modelled entry points can raise. -/
inductive Err
  | indexError   -- `rules[0]` / `data[0]` on an empty list
  | valueError   -- `batch_size < 1`
deriving Repr, DecidableEq

instance {β : Type} [DecidableEq β] : DecidableEq (Except Err β) := fun a b =>
  match a, b with
  | .ok x, .ok y => if h : x = y then isTrue (by rw [h]) else isFalse (by intro e; cases e; exact h rfl)
  | .error x, .error y => if h : x = y then isTrue (by rw [h]) else isFalse (by intro e; cases e; exact h rfl)
  | .ok _, .error _ => isFalse (by intro e; cases e)
  | .error _, .ok _ => isFalse (by intro e; cases e)

/-- Python `set.add` on a set of ints kept as a duplicate-free list. -/
def setAdd (s : List Nat) (x : Nat) : List Nat := if x ∈ s then s else s ++ [x]

/-- Python `d[k] = v` on an insertion-ordered dict with int keys. -/
def dictSet (d : List (Nat × Nat)) (k v : Nat) : List (Nat × Nat) :=
  match d with
  | [] => [(k, v)]
  | (k', v') :: rest => if k' = k then (k', v) :: rest else (k', v') :: dictSet rest k v

/-- Python `d.get(k)` (`none` = `None`). -/
def dictGet (d : List (Nat × Nat)) (k : Nat) : Option Nat :=
  match d with
  | [] => none
  | (k', v) :: rest => if k' = k then some v else dictGet rest k

/-- `enumerate(xs, start=i)`. -/
def enumFrom {α : Type} : Nat → List α → List (Nat × α)
  | _, [] => []
  | i, x :: xs => (i, x) :: enumFrom (i + 1) xs

section
variable {α : Type} {κ : Type} [DecidableEq κ]

/-- State of `iterative_cluster`: `visited` (a set), `clusters` (list of sets, creation order),
`rule_to_cluster` (dict index ↦ class number). -/
structure St where
  visited : List Nat := []
  clusters : List (List Nat) := []
  r2c : List (Nat × Nat) := []
deriving Repr, DecidableEq

/-- The inner loop `for j, rule_j in enumerate(rules[i+1:], start=i+1)` for representative `xi`
of the class numbered `c`; the triple is (`visited`, `cluster`, `rule_to_cluster`).
`iso` is called with the representative FIRST, and only when the attributes are equal and `j`
has not been visited. -/
def inner (iso : α → α → Bool) (key : α → κ) (xi : α) (c : Nat) :
    List (Nat × α) → List Nat × List Nat × List (Nat × Nat) → List Nat × List Nat × List (Nat × Nat)
  | [], s => s
  | (j, xj) :: rest, (vis, cl, r2c) =>
    if key xi = key xj ∧ j ∉ vis then
      if iso xi xj = true then
        inner iso key xi c rest (setAdd vis j, setAdd cl j, dictSet r2c j c)
      else inner iso key xi c rest (vis, cl, r2c)
    else inner iso key xi c rest (vis, cl, r2c)

/-- The outer loop `for i, rule_i in enumerate(rules)` over the enumerated suffix. -/
def outer (iso : α → α → Bool) (key : α → κ) : List (Nat × α) → St → St
  | [], s => s
  | (i, xi) :: rest, s =>
    if i ∈ s.visited then outer iso key rest s
    else
      let c := s.clusters.length
      let r := inner iso key xi c rest (setAdd s.visited i, [i], dictSet s.r2c i c)
      outer iso key rest { visited := r.1, clusters := s.clusters ++ [r.2.1], r2c := r.2.2 }

/-- `GraphCluster.iterative_cluster(rules, attributes, nodeMatch, edgeMatch)` on a non-empty list:
final state (`clusters`, `rule_to_cluster`). -/
def iterState (iso : α → α → Bool) (key : α → κ) (xs : List α) : St :=
  outer iso key (enumFrom 0 xs) {}

/-- `iterative_cluster` including the `rules[0]` access that fails on an empty list. -/
def iterativeCluster (iso : α → α → Bool) (key : α → κ) (xs : List α) :
    Except Err (List (List Nat) × List (Nat × Nat)) :=
  match xs with
  | [] => .error .indexError
  | _ => let s := iterState iso key xs; .ok (s.clusters, s.r2c)

/-- `rule_to_cluster.get(index, None)`: the class of list position `index`. -/
def classOf (iso : α → α → Bool) (key : α → κ) (xs : List α) (index : Nat) : Option Nat :=
  dictGet (iterState iso key xs).r2c index

/-- Class list written by `GraphCluster.fit`: `entry["class"] = rule_to_cluster.get(index, None)`. -/
def gcClasses (iso : α → α → Bool) (key : α → κ) (xs : List α) : List (Option Nat) :=
  (List.range xs.length).map fun idx => classOf iso key xs idx

/-- `GraphCluster.fit` (`data[0]` fails on an empty list). -/
def gcFit (iso : α → α → Bool) (key : α → κ) (xs : List α) : Except Err (List (Option Nat)) :=
  match xs with
  | [] => .error .indexError
  | _ => .ok (gcClasses iso key xs)

/-- A template: an item together with its (arbitrary, pre-existing) class number. -/
structure Tmpl (α : Type) where
  item : α
  cls : Int
deriving Repr, DecidableEq

/-- `max((temp["class"] for temp in templates), default=-1) + 1` — over ALL templates. -/
def newClass (ts : List (Tmpl α)) : Int := (ts.map (·.cls)).foldl max (-1) + 1

/-- `BatchCluster.lib_check(data, templates)`: `sub_temp` = templates with equal attribute in
template order; the FIRST of them with `iso(template, data)` gives its class; `for … else`:
fresh class, a copy of the item is appended to the templates. Returns (class, templates). -/
def libCheck (iso : α → α → Bool) (key : α → κ) (x : α) (ts : List (Tmpl α)) : Int × List (Tmpl α) :=
  match (ts.filter fun t => key t.item = key x).find? (fun t => iso t.item x) with
  | some t => (t.cls, ts)
  | none => (newClass ts, ts ++ [⟨x, newClass ts⟩])

/-- `BatchCluster.cluster(data, templates)`: `lib_check` entry by entry, templates threaded. -/
def clusterRun (iso : α → α → Bool) (key : α → κ) : List α → List (Tmpl α) → List Int × List (Tmpl α)
  | [], ts => ([], ts)
  | x :: xs, ts =>
    let r := libCheck iso key x ts
    let r' := clusterRun iso key xs r.2
    (r.1 :: r'.1, r'.2)

/-- `range(0, len, k)` slicing, fuelled by the list length. -/
def chunks (k : Nat) : Nat → List α → List (List α)
  | 0, _ => []
  | _ + 1, [] => []
  | fuel + 1, x :: l => (x :: l).take k :: chunks k fuel ((x :: l).drop k)

/-- `BatchCluster.batch_dicts`. -/
def batchDicts (xs : List α) (k : Nat) : Except Err (List (List α)) :=
  if k < 1 then .error .valueError else .ok (chunks k xs.length xs)

/-- The multi-batch loop of `BatchCluster.fit`. -/
def fitBatches (iso : α → α → Bool) (key : α → κ) : List (List α) → List (Tmpl α) → List Int × List (Tmpl α)
  | [], ts => ([], ts)
  | b :: bs, ts =>
    let r := clusterRun iso key b ts
    let r' := fitBatches iso key bs r.2
    (r.1 ++ r'.1, r'.2)

/-- One representative per class out of a classified list, in order of first appearance of the
class (`stratified_random_sample(..., samples_per_class=1)`; the code picks a pseudo-random member
of each class — the model takes the FIRST member; which member is taken is not determined by the
property and is not compared by the correspondence). Items without class are skipped. -/
def firstPerClass : List (α × Option Nat) → List Nat → List (Tmpl α)
  | [], _ => []
  | (_, none) :: rest, seen => firstPerClass rest seen
  | (x, some c) :: rest, seen =>
    if c ∈ seen then firstPerClass rest seen else ⟨x, Int.ofNat c⟩ :: firstPerClass rest (c :: seen)

/-- `BatchCluster.fit(data, templates, batch_size)`; `templates = none` is Python `None`
(`not templates` treats `None` and `[]` alike). -/
def bcFit (iso : α → α → Bool) (key : α → κ) (data : List α) (templates : Option (List (Tmpl α)))
    (batchSize : Option Nat) : Except Err (List (Option Int) × List (Tmpl α)) :=
  let batchesE : Except Err (List (List α)) :=
    match batchSize with
    | some k => batchDicts data k
    | none => .ok [data]
  match batchesE with
  | .error e => .error e
  | .ok batches =>
    let ts := templates.getD []
    match batches with
    | [batch] =>
      if ts.isEmpty then
        match gcFit iso key batch with
        | .error e => .error e
        | .ok cls => .ok (cls.map (Option.map Int.ofNat), firstPerClass (batch.zip cls) [])
      else
        let r := clusterRun iso key batch ts
        .ok (r.1.map some, r.2)
    | _ =>
      let r := fitBatches iso key batches ts
      .ok (r.1.map some, r.2)

end

/-! Small concrete instance used by the non-vacuity examples: naturals, "isomorphic" = same
residue mod 3, key = parity of the residue (an invariant of the class). -/
def exIso (a b : Nat) : Bool := a % 3 == b % 3
def exKey (a : Nat) : Nat := (a % 3) % 2

end SynKit.Cluster

import SynKitModel.Canon
/-!
# Model of the exact back-end: the individualisation–refinement search (C08)

Mirrors `synkit/Graph/Canon/nauty.py` (`NautyCanonicalizer`: `_initial_partition`,
`_node_signature`, `_refine`, `_search` with its partial-label pruning test, `_build_label`,
`_build_partial_label`, `canonical_form`) as `GraphCanonicaliser(backend="nauty")` configures it:
`node_attrs = ["element", "aromatic", "charge", "hcount"]`,
`edge_attrs = ["order", "standard_order"]`, `max_depth = None`.

* A partition is a list of cells (lists of node ids), every cell sorted by node id as the code
  keeps them (`sorted(nodes)`, `sorted(sigs[sig])`, `sorted(rest)`).
* `_initial_partition`: buckets by the tuple `G.nodes[v].get(attr, None)`, buckets sorted by that
  tuple (`sorted(buckets.items())`; keys are distinct, so the node lists are never compared).
  Grouping into a dict followed by sorting its items does not depend on the insertion order of
  the dict: the model takes the distinct keys, sorts them and filters (`irSplitBy`).
* `_node_signature`: `(node_attrs, degree, #neighbours in each cell, sorted edge-attribute
  tuples)`; tuple-valued `order` attributes are sorted (rounding to 3 decimals is the identity on
  half-units).
* `_refine`: passes over all cells (signatures taken w.r.t. the partition at the start of the
  pass) until a pass splits nothing; at most `N` passes can split, the model runs `N + 1`.
* `_search`: refine; a discrete partition is a leaf whose label is built over
  `prefix + order`, and which replaces `best` when its label is strictly smaller; otherwise the
  first cell with more than one node is the target cell, its nodes are tried in the order
  `sorted(cell, key=atom_map or id)`, and a branch is skipped when the partial label of the
  extended prefix is greater than the best label so far.
* Labels.  Python builds a *string* (`"|".join(":".join(str(x)))`) and compares strings.  Numbers
  cross the protocol in half-units (`1` and `1.0` are the same `Val`), so `str` cannot be
  reproduced; the model keeps the label *structured* (`IRLabel`: the list of per-node attribute
  tuples, then one item per pair `i < j` of the sequence, `none` for "0:" and `some attrs` for
  "1:…") and takes the comparison of labels `lt` and the pruning test `pgt` as parameters.  All
  theorems hold for every strict total `lt` and every `pgt` that is a lower-bound test
  (`IRPruneSound`); `IRLabel.lt` / `irPartialGt` are the concrete instance the driver runs
  (lexicographic on the structure, which is the string order whenever rendering is monotone).
* `aut_perms` and orbits are not modelled (they do not influence the canonical graph).
* `max_depth`: `irSearch` / `irCanon` are the search with `max_depth=None`; `irSearchCapped` /
  `irCanonCapped` (last section) are the search with `max_depth=d`: the depth counter, the test
  `depth > max_depth` at the entry of every call, the `early_stop` flag that ends every enclosing
  loop, `best` as it stands when the search stops, and the `RuntimeError` of `canonical_form` when
  `best["perm"]` is still `None`.
-/
namespace SynKit.Canon
open SynKit SynKit.Match

/-! ## Small list helpers -/

/-- `sorted(nodes)` on node ids. -/
def sortNat (xs : List Nat) : List Nat := sortBy natLt xs

/-- The distinct elements of a list (the key set of the bucket dict; later sorted). -/
def irDedup {α : Type} [DecidableEq α] : List α → List α
  | [] => []
  | x :: xs => if x ∈ irDedup xs then irDedup xs else x :: irDedup xs

/-- Group the nodes of `c` by `key`, groups in increasing key order, each group sorted by id:
`[sorted(ns) for _, ns in sorted(buckets.items())]`. -/
def irSplitBy {κ : Type} [DecidableEq κ] (lt : κ → κ → Bool) (key : Nat → κ) (c : List Nat) :
    List (List Nat) :=
  (sortBy lt (irDedup (c.map key))).map fun k => sortNat (c.filter fun v => key v = k)

/-! ## Attribute keys -/

def irNodeAttrNames : List String := ["element", "aromatic", "charge", "hcount"]
def irEdgeAttrNames : List String := ["order", "standard_order"]

/-- `tuple(_freeze(G.nodes[v].get(attr, None)) for attr in node_attrs)`. -/
def irNodeKey (a : Attrs) : List Val := irNodeAttrNames.map a.get

/-- In `_node_signature`, a tuple-valued `order` is replaced by its sorted tuple. -/
def irNormEdgeVal (k : String) (v : Val) : Val :=
  match v with
  | .tup xs => if k = "order" then .tup (sortBy Val.lt xs) else .tup xs
  | w => w

/-- One item of `edge_attr_multiset`: `attrs.get(a, None)` for the edge attributes. -/
def irEdgeSigKey (a : Attrs) : List Val := irEdgeAttrNames.map fun k => irNormEdgeVal k (a.get k)

/-- Node item of a label: `G.nodes[v].get(attr, "")`. -/
def irNodeLabKey (a : Attrs) : List Val := irNodeAttrNames.map fun k => getD a k (.str "")

/-- Edge item of a label: `attrs.get(a, "")`. -/
def irEdgeLabKey (a : Attrs) : List Val := irEdgeAttrNames.map fun k => getD a k (.str "")

/-! ## Refinement -/

/-- `_node_signature(G, v, partition)`. -/
structure IRSig where
  attrs : List Val
  degree : Nat
  counts : List Nat
  edges : List (List Val)
deriving DecidableEq, Repr, Inhabited

/-- Python tuple comparison of signatures. -/
def IRSig.lt (a b : IRSig) : Bool :=
  if Val.ltList a.attrs b.attrs then true else if Val.ltList b.attrs a.attrs then false
  else if natLt a.degree b.degree then true else if natLt b.degree a.degree then false
  else if ltLex natLt a.counts b.counts then true else if ltLex natLt b.counts a.counts then false
  else ltLex Val.ltList a.edges b.edges

def irSig (G : LGraph) (P : List (List Nat)) (v : Nat) : IRSig :=
  { attrs := irNodeKey (G.attrs v)
    degree := (G.neighbors v).length
    counts := P.map fun cell => ((G.neighbors v).filter fun w => cell.contains w).length
    edges := sortBy Val.ltList ((G.neighbors v).map fun w => irEdgeSigKey ((G.edge? v w).getD [])) }

/-- `_initial_partition`. -/
def irInitialPartition (G : LGraph) : List (List Nat) :=
  irSplitBy Val.ltList (fun v => irNodeKey (G.attrs v)) G.ids

/-- What one pass of `_refine` appends for the cell `c`. -/
def irRefineCell (G : LGraph) (P : List (List Nat)) (c : List Nat) : List (List Nat) :=
  if c.length ≤ 1 then [c]
  else
    let parts := irSplitBy IRSig.lt (irSig G P) c
    if parts.length > 1 then parts else [c]

/-- One pass of the `while changed` loop. -/
def irRefineStep (G : LGraph) (P : List (List Nat)) : List (List Nat) := P.flatMap (irRefineCell G P)

/-- The loop: a pass changed something iff it produced more cells. -/
def irRefineLoop (G : LGraph) : Nat → List (List Nat) → List (List Nat)
  | 0, P => P
  | k + 1, P =>
    let P' := irRefineStep G P
    if P'.length = P.length then P' else irRefineLoop G k P'

/-- `_refine(G, partition)`. -/
def irRefine (G : LGraph) (P : List (List Nat)) : List (List Nat) :=
  irRefineLoop G (G.nodes.length + 1) P

/-! ## Labels -/

/-- Structured form of the label string: `nodes` is the node segment (one attribute tuple per
entry of the sequence), `edges` the edge segment (one item per pair `i < j`, in the code's loop
order; `none` = `"0:…"`, `some attrs` = `"1:attrs"`). -/
structure IRLabel where
  nodes : List (List Val)
  edges : List (Option (List Val))
deriving DecidableEq, Repr, Inhabited

def irNodeSeg (G : LGraph) (s : List Nat) : List (List Val) := s.map fun v => irNodeLabKey (G.attrs v)

def irEdgeBits (G : LGraph) : List Nat → List (Option (List Val))
  | [] => []
  | v :: rest => (rest.map fun w => (G.edge? v w).map irEdgeLabKey) ++ irEdgeBits G rest

/-- `_build_label(G, perm)`. -/
def irBuildLabel (G : LGraph) (s : List Nat) : IRLabel :=
  { nodes := irNodeSeg G s, edges := irEdgeBits G s }

/-- `"0:" < "1:"`, then the attribute tuples. -/
def irBitLt (a b : Option (List Val)) : Bool :=
  match a, b with
  | none, some _ => true
  | some x, some y => Val.ltList x y
  | _, _ => false

/-- The concrete order on labels: node segment first, then edge segment, each lexicographic. -/
def IRLabel.lt (a b : IRLabel) : Bool :=
  if ltLex Val.ltList a.nodes b.nodes then true else if ltLex Val.ltList b.nodes a.nodes then false
  else ltLex irBitLt a.edges b.edges

/-- The concrete pruning test `partial_label > best["label"]`, where `partial_label` is the node
segment of the candidate prefix followed by a filler: the best label is smaller than the prefix
segment on the first `len(prefix)` node items. -/
def irPartialGt (seg : List (List Val)) (best : IRLabel) : Bool :=
  ltLex Val.ltList (best.nodes.take seg.length) seg

/-! ## Search -/

/-- `best = {"label": …, "perm": …}`; `none` before the first leaf. -/
abbrev IRBest := Option (IRLabel × List Nat)

/-- The leaf case of `_search`: keep the first label that is strictly smaller. -/
def irUpdate (lt : IRLabel → IRLabel → Bool) (best : IRBest) (label : IRLabel) (order : List Nat) : IRBest :=
  match best with
  | none => some (label, order)
  | some (bl, bo) => if lt label bl then some (label, order) else some (bl, bo)

def irIsDiscrete (P : List (List Nat)) : Bool := P.all fun c => c.length == 1

/-- `idx = next(i for i, c in enumerate(partition) if len(c) > 1)` as (cells before, the cell,
cells after). -/
def irTargetCell : List (List Nat) → Option (List (List Nat) × List Nat × List (List Nat))
  | [] => none
  | c :: rest =>
    if c.length > 1 then some ([], c, rest)
    else (irTargetCell rest).map fun r => (c :: r.1, r.2.1, r.2.2)

/-- `G.nodes[n].get("atom_map", n)` (node ids and atom maps in half-units). -/
def irChildKey (G : LGraph) (v : Nat) : Val := getD (G.attrs v) "atom_map" (.num (2 * (v : Int)))

/-- `sorted(cell, key=…)` (stable). -/
def irChildren (G : LGraph) (c : List Nat) : List Nat :=
  sortBy (fun a b => Val.lt (irChildKey G a) (irChildKey G b)) c

/-- `partition[:idx] + [[v]] + ([sorted(rest)] if rest else []) + partition[idx+1:]`. -/
def irIndividualise (pre : List (List Nat)) (c : List Nat) (post : List (List Nat)) (v : Nat) :
    List (List Nat) :=
  let rest := c.filter fun w => w ≠ v
  pre ++ [[v]] ++ (if rest.isEmpty then [] else [sortNat rest]) ++ post

/-- The pruning condition `best["label"] is not None and partial_label > best["label"]`. -/
def irPruned (pgt : List (List Val) → IRLabel → Bool) (G : LGraph) (cp : List Nat) (best : IRBest) : Bool :=
  match best with
  | some (bl, _) => pgt (irNodeSeg G cp) bl
  | none => false

/-- `_search(G, partition, prefix, best, …)`; returns the final `best`.  `prune = false` switches
the pruning test off (the reference search of the theorems). -/
def irSearch (lt : IRLabel → IRLabel → Bool) (pgt : List (List Val) → IRLabel → Bool) (prune : Bool)
    (G : LGraph) : Nat → List (List Nat) → List Nat → IRBest → IRBest
  | 0, _, _, best => best
  | fuel + 1, P, pfx, best =>
    let P := irRefine G P
    if irIsDiscrete P then
      let order := P.flatten
      irUpdate lt best (irBuildLabel G (pfx ++ order)) order
    else
      match irTargetCell P with
      | none => best
      | some (pre, c, post) =>
        (irChildren G c).foldl (fun best v =>
          if prune && irPruned pgt G (pfx ++ [v]) best then best
          else irSearch lt pgt prune G fuel (irIndividualise pre c post v) (pfx ++ [v]) best) best

/-- The leaves `(prefix, order)` of the search tree in the order the search visits them when
nothing is pruned. -/
def irLeaves (G : LGraph) : Nat → List (List Nat) → List Nat → List (List Nat × List Nat)
  | 0, _, _ => []
  | fuel + 1, P, pfx =>
    let P := irRefine G P
    if irIsDiscrete P then [(pfx, P.flatten)]
    else
      match irTargetCell P with
      | none => []
      | some (pre, c, post) =>
        (irChildren G c).flatMap fun v => irLeaves G fuel (irIndividualise pre c post v) (pfx ++ [v])

/-- The label of a leaf. -/
def irLeafLabel (G : LGraph) (l : List Nat × List Nat) : IRLabel := irBuildLabel G (l.1 ++ l.2)

/-- `canonical_form`: the search from the initial partition with the empty prefix (depth at most
`N`). -/
def irCanonWith (lt : IRLabel → IRLabel → Bool) (pgt : List (List Val) → IRLabel → Bool) (prune : Bool)
    (G : LGraph) : IRBest :=
  irSearch lt pgt prune G (G.nodes.length + 1) (irInitialPartition G) [] none

/-- The search as the code runs it, with the concrete label order. -/
def irCanon (G : LGraph) : IRBest := irCanonWith IRLabel.lt irPartialGt true G

/-- `best["perm"]` (the code raises `RuntimeError` when it is `None`; never for a well-formed
graph: `irCanon_isSome`). -/
def irCanonOrder (G : LGraph) : List Nat :=
  match irCanon G with
  | some (_, o) => o
  | none => []

/-- `best["label"]`, the label the search minimises. -/
def irCanonLabel (G : LGraph) : Option IRLabel := (irCanon G).map (·.1)

/-- The canonical graph of the exact back-end. -/
def canonIR (G : LGraph) : LGraph := canonBy (irCanonOrder G) G

/-- Every node carries the covered node attributes and every edge the covered edge attributes
(the real code raises / distinguishes absent from default otherwise: finding C08-N2). -/
def IRCovered (G : LGraph) : Prop :=
  (∀ p ∈ G.nodes, ∀ k ∈ irNodeAttrNames, Dict.contains p.2 k = true) ∧
  (∀ e ∈ G.edges, ∀ k ∈ irEdgeAttrNames, Dict.contains e.2.2 k = true)

instance (G : LGraph) : Decidable (IRCovered G) := by unfold IRCovered; infer_instance

/-! ## The search with a depth cap (`max_depth=d`)

`_search(G, partition, prefix, best, aut_perms, depth, max_depth)` returns `True` ("early stop
triggered") as soon as it is entered with `depth > max_depth` — before refining, before the leaf
test —, and a caller that receives `True` returns `True` at once (`return True  # propagate early
stop upward`): the whole search ends at the FIRST call that exceeds the cap, `best` keeps the
value it has at that moment.  Pruned children are skipped before the recursive call, so a pruned
branch never triggers the stop.  `canonical_form` then raises `RuntimeError` when `best["perm"]`
is `None` and otherwise returns the canonical graph of `best["perm"]` together with the flag.
(`max_depth` is compared as a number; a negative `max_depth` stops the root call itself and is
the `RuntimeError` case — the model takes `d : Nat`.) -/

/-- `_search(…, depth=depth, max_depth=d)`: the final `best` and the returned flag.  In the loop
over the children the state is `(best, stopped)`: once a child returned `True` the loop is left
(`return True`), which the fold models by passing the state through. -/
def irSearchCapped (lt : IRLabel → IRLabel → Bool) (pgt : List (List Val) → IRLabel → Bool) (prune : Bool)
    (G : LGraph) (d : Nat) : Nat → Nat → List (List Nat) → List Nat → IRBest → IRBest × Bool
  | 0, _, _, _, best => (best, false)
  | fuel + 1, depth, P, pfx, best =>
    if depth > d then (best, true)
    else
      let P := irRefine G P
      if irIsDiscrete P then
        let order := P.flatten
        (irUpdate lt best (irBuildLabel G (pfx ++ order)) order, false)
      else
        match irTargetCell P with
        | none => (best, false)
        | some (pre, c, post) =>
          (irChildren G c).foldl (fun st v =>
            if st.2 then st
            else if prune && irPruned pgt G (pfx ++ [v]) st.1 then st
            else irSearchCapped lt pgt prune G d fuel (depth + 1) (irIndividualise pre c post v) (pfx ++ [v]) st.1)
            (best, false)

/-- The search of `canonical_form(max_depth=d)`: from the initial partition, empty prefix,
`depth=0`. -/
def irCanonCappedWith (lt : IRLabel → IRLabel → Bool) (pgt : List (List Val) → IRLabel → Bool) (prune : Bool)
    (G : LGraph) (d : Nat) : IRBest × Bool :=
  irSearchCapped lt pgt prune G d (G.nodes.length + 1) 0 (irInitialPartition G) [] none

/-- … as the code runs it (pruning on, concrete label order): `(best, early_stop_occurred)`. -/
def irCanonCapped (G : LGraph) (d : Nat) : IRBest × Bool :=
  irCanonCappedWith IRLabel.lt irPartialGt true G d

/-- What `canonical_form` raises. -/
inductive IRError
  | notFound  -- `RuntimeError("Canonical form not found: search stopped early (max_depth=… too small).")`
deriving DecidableEq, Repr, Inhabited

/-- Answer of `canonical_form(G, return_perm=True, max_depth=d)`: `(G_can, perm, early_stop)`, or the
`RuntimeError` when no leaf was reached (`best["perm"] is None`); for any label order / pruning test. -/
def irCanonicalFormCappedWith (lt : IRLabel → IRLabel → Bool) (pgt : List (List Val) → IRLabel → Bool) (prune : Bool)
    (G : LGraph) (d : Nat) : Except IRError (LGraph × List Nat × Bool) :=
  match irCanonCappedWith lt pgt prune G d with
  | (none, _) => .error .notFound
  | (some (_, o), early) => .ok (canonBy o G, o, early)

/-- … as the code runs it (pruning on), with the model's concrete label order. -/
def irCanonicalFormCapped (G : LGraph) (d : Nat) : Except IRError (LGraph × List Nat × Bool) :=
  irCanonicalFormCappedWith IRLabel.lt irPartialGt true G d

/-- Depth of a leaf = number of individualisations on its branch = `depth` of the call that
reached it = length of its prefix. -/
def irLeafDepth (l : List Nat × List Nat) : Nat := l.1.length

/-- The deepest of a list of leaves. -/
def irMaxDepth (ls : List (List Nat × List Nat)) : Nat := ls.foldl (fun m l => Nat.max m (irLeafDepth l)) 0

/-- Depth of the deepest leaf of the (unpruned, uncapped) search tree. -/
def irDepth (G : LGraph) : Nat := irMaxDepth (irLeaves G (G.nodes.length + 1) (irInitialPartition G) [])

end SynKit.Canon

/-!
# Model of the batching / caching layer (C14)

Anchors: `synkit/Synthesis/Reactor/batch_reactor.py` (`_RuleApplier`, `_dedupe`,
`BatchReactor.fit/_apply_bulk`), `synkit/Graph/Matcher/batch_cluster.py`
(`BatchCluster.lib_check/cluster/batch_dicts/fit`) with the one-shot path through
`GraphCluster.iterative_cluster`, and the order-preserving maps of joblib /
`ProcessPoolExecutor.map` used by `validate_smiles`, `dicts_balance_check`, `SynCRN._run_tasks`.

Core Lean only; every definition total and executable; no well-founded recursion (fuel).

## The object heap

`_RuleApplier.__call__` keys its cache by `(id(substrate), id(rule), inv)`.  `id()` is
only unique among *live* objects, so the model has an explicit heap: the caller holds
objects (`heap : id ↦ content`); the runtime's allocator hands out an identity for a new
object, and may hand out any identity that no live object has.  An object is live while the
caller holds it **or** while a cache entry references it.  The code on the pinned tree stores
only the result in the entry (`pins = none`: nothing is kept alive by the cache); the
repaired code stores `(substrate, rule, result)` (`pins = some …`).
Contents are immutable (graphs are not edited while cached): an assumption of the model.
-/
namespace SynKit.BatchCache

abbrev Id := Nat

/-- The cache key exactly as the code builds it: `(id(substrate), id(rule), inv)`. -/
structure Key where
  sid : Id
  rid : Id
  inv : Bool
deriving DecidableEq, Repr

/-- A cache entry: the stored result, and (repaired code only) the two key objects. -/
structure Entry (C R : Type) where
  pins : Option (C × C)
  val : R
deriving DecidableEq, Repr

/-- `cache_enabled`, `cache_maxsize`, and which tree is modelled (`pin = true`: repaired). -/
structure Config where
  cacheOn : Bool
  cacheMax : Int
  pin : Bool
deriving DecidableEq, Repr

structure State (C R : Type) where
  heap : List (Id × C) := []
  cache : List (Key × Entry C R) := []
deriving Repr

inductive Op (C : Type)
  | alloc (id : Id) (c : C)
  | free (id : Id)
  | call (sid rid : Id) (inv : Bool)
deriving Repr

/-- Outcome of an op. `stopIteration`: `next(iter({}))` on an empty dict (only reachable with
`cache_maxsize ≤ 0`). `badOp`: the history is impossible (the allocator never hands out the
identity of a live object; one cannot free or call with an object one does not hold). -/
inductive Out (R : Type)
  | ok
  | val (r : R)
  | stopIteration
  | badOp
deriving DecidableEq, Repr

variable {C R : Type}

/-- Content of the held object with identity `id`. -/
def hget : List (Id × C) → Id → Option C
  | [], _ => none
  | (i, c) :: rest, id => if i = id then some c else hget rest id

/-- `self._cache.get(key)`. -/
def cget : List (Key × Entry C R) → Key → Option (Entry C R)
  | [], _ => none
  | (k, e) :: rest, key => if k = key then some e else cget rest key

/-- Identities referenced from one cache entry. -/
def entryPins (ke : Key × Entry C R) : List Id :=
  match ke.2.pins with
  | some _ => [ke.1.sid, ke.1.rid]
  | none => []

/-- Identities of live objects: held by the caller or referenced by a cache entry. -/
def aliveIds (s : State C R) : List Id :=
  s.heap.map (·.1) ++ s.cache.flatMap entryPins

/-- An allocator that never reuses anything alive: one more than the largest live identity. -/
def freshAlloc {C R : Type} (s : State C R) : Id := (aliveIds s).foldl max 0 + 1

/-- The most reuse-happy allocator: the smallest identity that is not alive. -/
def lowestAlloc {C R : Type} (s : State C R) : Id :=
  ((List.range ((aliveIds s).length + 1)).find? (fun i => i ∉ aliveIds s)).getD ((aliveIds s).foldl max 0 + 1)

def mkEntry (cfg : Config) (cs cr : C) (res : R) : Entry C R :=
  ⟨if cfg.pin then some (cs, cr) else none, res⟩

/-- One heap op.  The `call` branch is `_RuleApplier.__call__` line by line. -/
def step (f : C → C → Bool → R) (cfg : Config) (s : State C R) : Op C → State C R × Out R
  | .alloc id c =>
    if id ∈ aliveIds s then (s, .badOp) else ({ s with heap := (id, c) :: s.heap }, .ok)
  | .free id =>
    if (hget s.heap id).isSome then ({ s with heap := s.heap.filter (fun p => p.1 != id) }, .ok)
    else (s, .badOp)
  | .call sid rid inv =>
    match hget s.heap sid, hget s.heap rid with
    | some cs, some cr =>
      if !cfg.cacheOn then (s, .val (f cs cr inv))            -- `if self._cache is None`
      else
        let key : Key := ⟨sid, rid, inv⟩
        match cget s.cache key with
        | some e => (s, .val e.val)                             -- hit
        | none =>
          let res := f cs cr inv                                -- `_execute`
          if (s.cache.length : Int) ≥ cfg.cacheMax then         -- FIFO eviction
            match s.cache with
            | [] => (s, .stopIteration)
            | _ :: rest => ({ s with cache := rest ++ [(key, mkEntry cfg cs cr res)] }, .val res)
          else ({ s with cache := s.cache ++ [(key, mkEntry cfg cs cr res)] }, .val res)
    | _, _ => (s, .badOp)

/-- Repaired code (draft fix 0014): entries keep their key objects alive. -/
def stepPinned (f : C → C → Bool → R) (cacheOn : Bool) (cacheMax : Int) :=
  step f ⟨cacheOn, cacheMax, true⟩

/-- Code of the pinned tree: entries hold the result only. -/
def stepAsWritten (f : C → C → Bool → R) (cacheOn : Bool) (cacheMax : Int) :=
  step f ⟨cacheOn, cacheMax, false⟩

/-- State after a history. -/
def run (f : C → C → Bool → R) (cfg : Config) (s : State C R) : List (Op C) → State C R
  | [] => s
  | op :: ops => run f cfg (step f cfg s op).1 ops

/-- Outcomes of a history, op by op. -/
def outs (f : C → C → Bool → R) (cfg : Config) (s : State C R) : List (Op C) → List (Out R)
  | [] => []
  | op :: ops => (step f cfg s op).2 :: outs f cfg (step f cfg s op).1 ops

/-- What the property demands of a `call`: the pure function on the contents of the two
objects the caller passes (`none` when the op is not a possible call). -/
def expected (f : C → C → Bool → R) (s : State C R) : Op C → Option R
  | .call sid rid inv =>
    match hget s.heap sid, hget s.heap rid with
    | some cs, some cr => some (f cs cr inv)
    | _, _ => none
  | _ => none

/-- `cache_enabled=False`, or a cache that can hold at least one entry. -/
def Config.Sane (cfg : Config) : Prop := cfg.cacheOn = true → 0 < cfg.cacheMax

/-! ## `_dedupe` -/

/-- `_dedupe`: the loop with its `seen` set (kept as a list) and `out` list. -/
def dedupeLoop {S : Type} [DecidableEq S] (seen out : List S) : List S → List S
  | [] => out
  | x :: xs => if x ∈ seen then dedupeLoop seen out xs else dedupeLoop (x :: seen) (out ++ [x]) xs

def dedupe {S : Type} [DecidableEq S] (xs : List S) : List S := dedupeLoop [] [] xs

/-! ## `BatchReactor.fit` (sequential path, `entry_n_jobs = 1`, no pre-filter) -/

section Fit
variable {S : Type} [DecidableEq S]

/-- `[self._apply_rule(g, r, invert) for r in rules]`, threading the cache; an exception
aborts the comprehension. -/
def callAll (f : C → C → Bool → List S) (cfg : Config) (s : State C (List S)) (sid : Id) (inv : Bool) :
    List Id → State C (List S) × Except (Out (List S)) (List (List S))
  | [] => (s, .ok [])
  | rid :: rest =>
    match step f cfg s (.call sid rid inv) with
    | (s1, .val r) =>
      match callAll f cfg s1 sid inv rest with
      | (s2, .ok rs) => (s2, .ok (r :: rs))
      | (s2, .error e) => (s2, .error e)
    | (s1, o) => (s1, .error o)

/-- `_apply_bulk`: flatten, then de-duplicate if configured. -/
def postprocess (dd : Bool) (nested : List (List S)) : List S :=
  if dd then dedupe nested.flatten else nested.flatten

/-- `worker(entry)`: a fresh substrate graph is created (the allocator `pick`s its identity),
the rules are applied, and the graph is released when `worker` returns. -/
def worker (f : C → C → Bool → List S) (cfg : Config) (dd : Bool) (pick : State C (List S) → Id)
    (rids : List Id) (inv : Bool) (s : State C (List S)) (c : C) :
    State C (List S) × Except (Out (List S)) (List S) :=
  let id := pick s
  let s1 := (step f cfg s (.alloc id c)).1
  match callAll f cfg s1 id inv rids with
  | (s2, .ok nested) => ((step f cfg s2 (.free id)).1, .ok (postprocess dd nested))
  | (s2, .error e) => ((step f cfg s2 (.free id)).1, .error e)

/-- `[worker(e) for e in self._data]`. -/
def workers (f : C → C → Bool → List S) (cfg : Config) (dd : Bool) (pick : State C (List S) → Id)
    (rids : List Id) (inv : Bool) (s : State C (List S)) :
    List C → State C (List S) × Except (Out (List S)) (List (List S))
  | [] => (s, .ok [])
  | c :: cs =>
    match worker f cfg dd pick rids inv s c with
    | (s1, .ok r) =>
      match workers f cfg dd pick rids inv s1 cs with
      | (s2, .ok rs) => (s2, .ok (r :: rs))
      | (s2, .error e) => (s2, .error e)
    | (s1, .error e) => (s1, .error e)

/-- `_ensure_graph_rules` on rule strings: one new graph object per rule. -/
def allocAll (f : C → C → Bool → List S) (cfg : Config) (pick : State C (List S) → Id)
    (s : State C (List S)) : List C → State C (List S) × List Id
  | [] => (s, [])
  | c :: cs =>
    let id := pick s
    let r := allocAll f cfg pick (step f cfg s (.alloc id c)).1 cs
    (r.1, id :: r.2)

def freeAll (f : C → C → Bool → List S) (cfg : Config) (s : State C (List S)) : List Id → State C (List S)
  | [] => s
  | id :: ids => freeAll f cfg (step f cfg s (.free id)).1 ids

/-- `BatchReactor.fit(rules, invert=inv)` on a reactor whose `_RuleApplier` is in state `s`
(the cache persists between `fit` calls on the same reactor). -/
def fit (f : C → C → Bool → List S) (cfg : Config) (dd : Bool) (pick : State C (List S) → Id)
    (s : State C (List S)) (batch rules : List C) (inv : Bool) :
    State C (List S) × Except (Out (List S)) (List (List S)) :=
  let (s1, rids) := allocAll f cfg pick s rules
  let (s2, res) := workers f cfg dd pick rids inv s1 batch
  (freeAll f cfg s2 rids, res)

/-- Applying the rules to one substrate alone (no cache, no batch): `SynReactor` once per
rule, flattened, de-duplicated as configured. -/
def single (f : C → C → Bool → List S) (dd : Bool) (rules : List C) (inv : Bool) (c : C) : List S :=
  postprocess dd (rules.map (fun r => f c r inv))

/-- An allocator the runtime can be: it never returns the identity of a live object. -/
def ValidAlloc (pick : State C (List S) → Id) : Prop := ∀ s, pick s ∉ aliveIds s

end Fit

/-! ## Order-preserving parallel map (joblib `Parallel`, `ProcessPoolExecutor.map`) and
`BatchCluster.batch_dicts` -/

/-- `[xs[i:i+k] for i in range(0, len(xs), k)]` (fuel = `len(xs)`). -/
def chunksAux {α : Type} (k : Nat) : Nat → List α → List (List α)
  | 0, _ => []
  | fuel + 1, xs => if xs.isEmpty then [] else xs.take k :: chunksAux k fuel (xs.drop k)

def chunks {α : Type} (k : Nat) (xs : List α) : List (List α) := chunksAux k xs.length xs

/-- joblib / `ex.map` with `n` workers, as far as the model can see it: the inputs are dealt
out in consecutive chunks (`n` = chunk length chosen by the scheduler, `0` = no chunking),
each chunk is mapped by some worker, and the results are concatenated **in input order**.
Which process ran which chunk, and when, is not represented. -/
def parallelMap {α β : Type} (n : Nat) (g : α → β) (xs : List α) : List β :=
  if n = 0 then xs.map g else ((chunks n xs).map (fun ch => ch.map g)).flatten

/-! ## Batched vs one-shot clustering -/

section Cluster
variable {α A : Type} [DecidableEq A]

inductive ClErr | valueError | indexError
deriving DecidableEq, Repr

/-- `max((t["class"] for t in templates), default=-1) + 1`. -/
def nextClass (ts : List (α × Nat)) : Nat :=
  match ts.map (·.2) with
  | [] => 0
  | c :: cs => cs.foldl max c + 1

/-- `BatchCluster.lib_check`: among the templates with the item's pre-grouping attribute,
the first one isomorphic to the item gives the class; otherwise a new class
`max(classes)+1` is created and the item appended to the templates. -/
def libCheck (attr : α → A) (iso : α → α → Bool) (ts : List (α × Nat)) (x : α) : Nat × List (α × Nat) :=
  match (ts.filter (fun t => attr t.1 = attr x)).find? (fun t => iso t.1 x) with
  | some t => (t.2, ts)
  | none => (nextClass ts, ts ++ [(x, nextClass ts)])

/-- `BatchCluster.cluster`: `lib_check` entry by entry, threading the templates. -/
def clusterBatch (attr : α → A) (iso : α → α → Bool) (ts : List (α × Nat)) :
    List α → List Nat × List (α × Nat)
  | [] => ([], ts)
  | x :: xs =>
    let r := libCheck attr iso ts x
    let rest := clusterBatch attr iso r.2 xs
    (r.1 :: rest.1, rest.2)

/-- The multi-batch loop of `BatchCluster.fit`. -/
def clusterBatches (attr : α → A) (iso : α → α → Bool) (ts : List (α × Nat)) :
    List (List α) → List Nat × List (α × Nat)
  | [] => ([], ts)
  | b :: bs =>
    let r := clusterBatch attr iso ts b
    let rest := clusterBatches attr iso r.2 bs
    (r.1 ++ rest.1, rest.2)

/-- `GraphCluster.iterative_cluster` on indexed items: the head of the pending (not yet
visited) items opens cluster number `k`, collects every later pending item with equal
attribute that is isomorphic to it, and the loop goes on with the others (fuel = length). -/
def iterGo (attr : α → A) (iso : α → α → Bool) : Nat → Nat → List (Nat × α) → List ((Nat × α) × Nat)
  | 0, _, _ => []
  | _, _, [] => []
  | fuel + 1, k, it :: rest =>
    let m := fun (jt : Nat × α) => decide (attr it.2 = attr jt.2) && iso it.2 jt.2
    (it, k) :: (rest.filter m).map (fun jt => (jt, k)) ++
      iterGo attr iso fuel (k + 1) (rest.filter (fun jt => !m jt))

def lookupIdx (j : Nat) : List ((Nat × α) × Nat) → Option Nat
  | [] => none
  | ((i, _), c) :: rest => if i = j then some c else lookupIdx j rest

/-- `enumerate(rules, start=i)`. -/
def enumFrom (i : Nat) : List α → List (Nat × α)
  | [] => []
  | x :: xs => (i, x) :: enumFrom (i + 1) xs

/-- `GraphCluster.fit` on a non-empty list: `entry["class"] = rule_to_cluster.get(index, None)`. -/
def oneShot (attr : α → A) (iso : α → α → Bool) (xs : List α) : List (Option Nat) :=
  let table := iterGo attr iso xs.length 0 (enumFrom 0 xs)
  (enumFrom 0 xs).map (fun jt => lookupIdx jt.1 table)

/-- The branch structure of `BatchCluster.fit` once the batches are formed.  `iso` is the
matcher the `BatchCluster` instance was configured with (`self.nodeMatch/edgeMatch`, used by
`lib_check`); `isoOne` is the matcher of the `GraphCluster()` that `fit` constructs with
*default* arguments for the one-shot branch.  With the default configuration
(`element`, `charge`; `order`) the two are the same function. -/
def fitBatches (attr : α → A) (iso isoOne : α → α → Bool) (ts : List (α × Nat)) :
    List (List α) → Except ClErr (List (Option Nat))
  | [b] =>
    if ts.isEmpty then
      (if b.isEmpty then .error .indexError          -- `data[0]` in `GraphCluster.fit`
       else .ok (oneShot attr isoOne b))
    else .ok ((clusterBatch attr iso ts b).1.map some)
  | batches => .ok ((clusterBatches attr iso ts batches).1.map some)

/-- `BatchCluster.fit(data, templates, batch_size=…)`: the class written into every entry, in
data order.  `batch_size=None` is the one-shot call. -/
def fitClasses (attr : α → A) (iso isoOne : α → α → Bool) (xs : List α) (ts : List (α × Nat))
    (batchSize : Option Int) : Except ClErr (List (Option Nat)) :=
  match batchSize with
  | none => fitBatches attr iso isoOne ts [xs]
  | some k => if k < 1 then .error .valueError else fitBatches attr iso isoOne ts (chunks k.toNat xs)

end Cluster

end SynKit.BatchCache

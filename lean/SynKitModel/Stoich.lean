import SynKitModel.Basic
import SynKitModel.Store
/-!
# Model of `synkit/CRN/Props/stoich.py` (C17) — core Lean only

Three layers.

1. `buildS`: the stoichiometric matrix as `build_S` computes it from a `CRNHyperGraph`
   (through `_as_bipartite` → `hypergraph_to_bipartite(integer_ids=True)` →
   `_species_and_reaction_order`): rows = species sorted by label, columns = reactions
   in the view's order (sorted by reaction id) then *stably* re-sorted by the reaction
   node's `label`, which is the reaction's **rule**; entries accumulated arc by arc.

2. **Certificate checkers** over exact rationals (core `Rat`), executable in the driver.
   NumPy/SciPy (`matrix_rank`, SVD null space, HiGHS) are external numeric oracles; the
   harness computes exact certificates with `fractions.Fraction`, the checkers here only
   *check* them, and `SynKitProofs/Props/C17.lean` proves each checker sound against
   Mathlib's `Matrix.rank`, `mulVec`, `vecMul`.

3. The **decision logic** of `_positive_conservation_law_from_basis`, `is_conservative`,
   `compute_conservativity`, `is_consistent` over abstract observations of the numeric
   oracles (number of kernel columns, which columns are sign-definite, three-valued LP
   outcome), plus its instantiation over exact rational data used by the theorems.
   `is_consistent` is modelled *after* draft repair 0004 (DESIGN §6 F2b).
-/
namespace SynKit.Stoich
open SynKit SynKit.Store

/-! ## 1. The matrix -/

/-- A network as `build_S` sees it: `H.species` (a Python set, any order) and
`H.edges.values()` (any order). -/
structure Net where
  species : List String
  edges : List Edge
deriving Repr, Inhabited

/-- Lexicographic order on code points — Python's `str.__lt__`. Written on lists so that
`decide` evaluates it. -/
def codesLt : List Nat → List Nat → Bool
  | _, [] => false
  | [], _ :: _ => true
  | a :: as, b :: bs => if a < b then true else if b < a then false else codesLt as bs

def strLt (a b : String) : Bool := codesLt (a.toList.map Char.toNat) (b.toList.map Char.toNat)

/-- One step of a *stable* insertion sort: `x` (which preceded every element of the
already sorted list in the input) goes in front of the first element whose key is not
smaller than its own. -/
def insertBy {α : Type} (key : α → String) (x : α) : List α → List α
  | [] => [x]
  | y :: ys => if strLt (key y) (key x) then y :: insertBy key x ys else x :: y :: ys

/-- Python `sorted(xs, key=key)` (stable). -/
def sortBy {α : Type} (key : α → String) : List α → List α
  | [] => []
  | x :: xs => insertBy key x (sortBy key xs)

/-- Species nodes of the bipartite view: `H.species` plus whatever the reaction sides
mention (`add_sp_node`); equal to `H.species` on every store satisfying the C15 invariant. -/
def speciesSet (N : Net) : List String :=
  N.edges.foldl (fun acc e => e.speciesOf.foldl setAdd acc) N.species

/-- Row order: `sorted(species_nodes, key=label)`. -/
def speciesOrder (N : Net) : List String := sortBy id (speciesSet N)

/-- Order in which `hypergraph_to_bipartite` creates the reaction nodes:
`sorted(H.edges.items())`, i.e. by reaction id. This is also the column order of the
store's own `incidence_matrix`. -/
def viewOrder (N : Net) : List Edge := sortBy (·.id) N.edges

/-- Column order of `build_S`: `sorted(reaction_nodes, key=label)` where the label of a
reaction node is its **rule**; ties keep the view order (Python's sort is stable). -/
def rxnOrder (N : Net) : List Edge := sortBy (·.rule) (viewOrder N)

/-- `S_minus[i, j] += coeff` over the arcs between one species and one reaction side. -/
def sumCoeff (side : Side) (s : String) : Int :=
  side.foldl (fun acc kv => if kv.1 = s then acc + (kv.2 : Int) else acc) 0

abbrev IMat := List (List Int)

def buildSMinus (N : Net) : IMat :=
  (speciesOrder N).map fun s => (rxnOrder N).map fun e => sumCoeff e.reactants s

def buildSPlus (N : Net) : IMat :=
  (speciesOrder N).map fun s => (rxnOrder N).map fun e => sumCoeff e.products s

/-- `S_plus - S_minus` (entrywise). -/
def matSub (A B : IMat) : IMat := List.zipWith (List.zipWith (· - ·)) A B

inductive Err | valueError
deriving Repr, DecidableEq

structure SResult where
  species : List String
  /-- the `reaction_order` the code returns: the rule labels, not the ids -/
  rules : List String
  S : IMat
deriving Repr, DecidableEq

/-- `build_S`. `_split_species_reactions` raises `ValueError` when the view has no species
node or no reaction node. -/
def buildS (N : Net) : Except Err SResult :=
  if (speciesSet N).isEmpty || N.edges.isEmpty then .error .valueError
  else .ok ⟨speciesOrder N, (rxnOrder N).map (·.rule), matSub (buildSPlus N) (buildSMinus N)⟩

def entryI (S : IMat) (i j : Nat) : Int := (S.getD i []).getD j 0

/-- The store's own `incidence_matrix` (C15 model), laid out with the same row order and
with the view's column order. -/
def incidenceMat (N : Net) : IMat :=
  (speciesOrder N).map fun s => (viewOrder N).map fun e => (incidenceEdge e).getD s 0

/-! ## 2. Exact certificates and their checkers -/

/-- A matrix given by its entry function together with explicit dimensions at the use
site; entries outside the dimensions are never inspected. Passing `fun i j => S j i`
is the transpose. -/
abbrev Ent := Nat → Nat → Rat

abbrev QVec := List Rat
abbrev QMat := List (List Rat)

def entQ (M : QMat) : Ent := fun i j => (M.getD i []).getD j 0
def entI (S : IMat) : Ent := fun i j => ((entryI S i j : Int) : Rat)
def entT (A : Ent) : Ent := fun i j => A j i
def vget (v : QVec) (i : Nat) : Rat := v.getD i 0

/-- `∑_{k<n} f k`. -/
def sumTo : Nat → (Nat → Rat) → Rat
  | 0, _ => 0
  | n + 1, f => sumTo n f + f n

/-- `∀ k<n, p k`. -/
def allTo : Nat → (Nat → Bool) → Bool
  | 0, _ => true
  | n + 1, p => allTo n p && p n

/-- `∃ k<n, p k`. -/
def anyTo : Nat → (Nat → Bool) → Bool
  | 0, _ => false
  | n + 1, p => anyTo n p || p n

/-- Rank certificate: indices of `r` columns forming a column basis, a left inverse `L`
(`r × m`) of the sub-matrix of those columns, and the coordinates `C` (`r × n`) of every
column in that basis. -/
structure RankCert where
  cols : List Nat
  L : QMat
  C : QMat
deriving Repr

/-- `L · S[:, cols] = I_r` and `S = S[:, cols] · C` and every index `< n`. -/
def checkRank (m n : Nat) (S : Ent) (c : RankCert) : Bool :=
  let r := c.cols.length
  let col := fun k => c.cols.getD k 0
  allTo r (fun k => decide (col k < n)) &&
  allTo r (fun i => allTo r (fun j =>
    decide (sumTo m (fun k => entQ c.L i k * S k (col j)) = if i = j then 1 else 0))) &&
  allTo m (fun i => allTo n (fun j =>
    decide (S i j = sumTo r (fun k => S i (col k) * entQ c.C k j))))

/-- Kernel-basis certificate for `A` (`m × n`): the listed vectors satisfy `A b = 0`, they
are linearly independent (left inverse `L`, `k × n`, of the matrix having them as columns),
and their number is `n − r`. -/
def checkKernelBasis (m n : Nat) (A : Ent) (r : Nat) (B : List QVec) (L : QMat) : Bool :=
  let k := B.length
  let b := fun a => B.getD a []
  decide (k + r = n) &&
  allTo k (fun a => allTo m (fun i => decide (sumTo n (fun j => A i j * vget (b a) j) = 0))) &&
  allTo k (fun a => allTo k (fun a' =>
    decide (sumTo n (fun j => entQ L a j * vget (b a') j) = if a = a' then 1 else 0)))

/-- `x > 0` and `A x = 0` for `A` of size `m × n`. With `A = S` this certifies a strictly
positive steady flux (consistency); with `A = Sᵀ` a strictly positive conservation law. -/
def checkPositiveKernel (m n : Nat) (A : Ent) (x : QVec) : Bool :=
  allTo n (fun j => decide (0 < vget x j)) &&
  allTo m (fun i => decide (sumTo n (fun j => A i j * vget x j) = 0))

/-- Stiemke/Gordan alternative: `yᵀA ≥ 0` and `yᵀA ≠ 0` for `A` of size `m × n`; then no
`x > 0` with `A x = 0` exists. -/
def checkAlternative (m n : Nat) (A : Ent) (y : QVec) : Bool :=
  allTo n (fun j => decide (0 ≤ sumTo m (fun i => vget y i * A i j))) &&
  anyTo n (fun j => decide (sumTo m (fun i => vget y i * A i j) ≠ 0))

def checkPositiveLeftKernel (m n : Nat) (S : Ent) (mv : QVec) : Bool := checkPositiveKernel n m (entT S) mv
def checkPositiveRightKernel (m n : Nat) (S : Ent) (v : QVec) : Bool := checkPositiveKernel m n S v
/-- `S v ≥ 0`, `S v ≠ 0` ⇒ not conservative. -/
def checkNotConservative (m n : Nat) (S : Ent) (v : QVec) : Bool := checkAlternative n m (entT S) v
/-- `yᵀS ≥ 0`, `yᵀS ≠ 0` ⇒ not consistent. -/
def checkNotConsistent (m n : Nat) (S : Ent) (y : QVec) : Bool := checkAlternative m n S y

/-! ## 3. Decision logic -/

/-- Python `True` / `False` / `None`. -/
abbrev Tri := Option Bool

/-- A linear programme's answer (`scipy.optimize.linprog`): an optimal point, a proof of
infeasibility (`status == 2`), unboundedness (`status == 3`), or anything else (exception,
iteration limit, numerical trouble). -/
inductive LPOut where
  | optimal (x : QVec)
  | infeasible
  | unbounded
  | failed
deriving Repr, DecidableEq

/-- What `_positive_conservation_law_from_basis` sees of the LP `min Σa, B a ≥ eps`. -/
inductive LPObs where
  | optimalStrict      -- success and `np.all(B @ a > eps)`
  | optimalNotStrict   -- success but some `(B a)_i ≤ eps`
  | infeasible | unbounded | failed
deriving Repr, DecidableEq

/-- Where a returned conservation law comes from. -/
inductive Wit where
  | none | column (j : Nat) | lp
deriving Repr, DecidableEq

def Wit.isSome : Wit → Bool
  | .none => false
  | _ => true

/-- The `for j in range(k_dim)` scan. -/
def firstTrue (k : Nat) (scan : Nat → Bool) : Option Nat := (List.range k).find? scan

/-- `_positive_conservation_law_from_basis`. `sizeZero` is `B.size == 0`, `k` the number of
basis columns, `scan j` says column `j` is sign-definite (`all > eps` or `all < -eps`).
Returns the origin of the witness and `lp_attempted`. -/
def posLawAbs (sizeZero : Bool) (k : Nat) (scan : Nat → Bool) (useLp scipy : Bool) (lp : LPObs) :
    Wit × Bool :=
  if sizeZero then (.none, false)
  else if k = 1 then (if scan 0 then (.column 0, false) else (.none, false))
  else match firstTrue k scan with
    | some j => (.column j, false)
    | none =>
      if !useLp || !scipy then (.none, false)
      else match lp with
        | .optimalStrict => (.lp, true)
        | _ => (.none, true)

/-- `is_conservative`. -/
def isConservativeAbs (nReactions : Nat) (sizeZero : Bool) (k : Nat) (scan : Nat → Bool)
    (scipy : Bool) (lp : LPObs) : Tri :=
  if nReactions = 0 then some true
  else if sizeZero then some false
  else
    let r := posLawAbs sizeZero k scan true scipy lp
    if k = 1 then some r.1.isSome
    else if r.1.isSome then some true
    else if r.2 then some false
    else none

/-- `compute_conservativity`: verdict and origin of the returned law (`Wit.none` = `None`). The
uniform law returned for a network without reactions is reported as `.column 0`. -/
def computeConservativityAbs (nSpecies nReactions : Nat) (sizeZero : Bool) (k : Nat)
    (scan : Nat → Bool) (scipy : Bool) (lp : LPObs) : Tri × Wit :=
  if nReactions = 0 then (if nSpecies = 0 then (some true, .none) else (some true, .column 0))
  else if sizeZero then (some false, .none)
  else
    let r := posLawAbs sizeZero k scan true scipy lp
    if k = 1 then (if r.1.isSome then (some true, r.1) else (some false, .none))
    else if r.1.isSome then (some true, r.1)
    else if r.2 then (some false, .none)
    else (isConservativeAbs nReactions sizeZero k scan scipy lp, .none)

/-- What `is_consistent` (after repair 0004) sees of the LP `min Σv, S v = 0, v ≥ 1`. -/
inductive LPObsC where
  | optimal (residualOk vPos : Bool)   -- success; `rel_err <= 1e-8`; `np.all(v > eps)`
  | infeasible                          -- `status == 2`
  | other                               -- exception, unbounded, limits
deriving Repr, DecidableEq

/-- `is_consistent` with repair 0004: LP verdicts first, then the kernel-basis fall-back
(`kSizeZero`: right kernel basis empty; `scan j`: its column `j` is sign-definite). -/
def isConsistentAbs (nSpecies nReactions : Nat) (scipy : Bool) (lp : LPObsC)
    (kSizeZero : Bool) (k : Nat) (scan : Nat → Bool) : Tri :=
  if nReactions = 0 then (if nSpecies > 0 then some false else some true)
  else
    let fallback : Tri :=
      if kSizeZero then some false else if anyTo k scan then some true else none
    if scipy then
      match lp with
      | .optimal r p => some (r && p)
      | .infeasible => some false
      | .other => fallback
    else fallback

/-! ### The same logic over exact rational data -/

/-- `np.all(col > eps) or np.all(col < -eps)` for column `j` of `B` (`m` rows). -/
def colSignDef (m : Nat) (B : Ent) (eps : Rat) (j : Nat) : Bool :=
  allTo m (fun i => decide (eps < B i j)) || allTo m (fun i => decide (B i j < -eps))

/-- `(B a)_i`. -/
def combo (k : Nat) (B : Ent) (a : QVec) (i : Nat) : Rat := sumTo k (fun j => B i j * vget a j)

def lpObsOf (m k : Nat) (B : Ent) (eps : Rat) : LPOut → LPObs
  | .optimal a => if allTo m (fun i => decide (eps < combo k B a i)) then .optimalStrict else .optimalNotStrict
  | .infeasible => .infeasible
  | .unbounded => .unbounded
  | .failed => .failed

/-- `is_conservative` for a network with `m ≥ 1` species, `n` reactions and a left-kernel
basis `B` (`m × k`, exact), margin `eps`, LP answer `lp`. (`B.size == 0` iff `k = 0`.) -/
def isConservativeQ (m n k : Nat) (B : Ent) (eps : Rat) (scipy : Bool) (lp : LPOut) : Tri :=
  isConservativeAbs n (k == 0) k (colSignDef m B eps) scipy (lpObsOf m k B eps lp)

/-- The LP stage is reached: at least two basis columns, none sign-definite, SciPy present. -/
def lpStage (m k : Nat) (B : Ent) (eps : Rat) (scipy : Bool) : Bool :=
  decide (2 ≤ k) && (firstTrue k (colSignDef m B eps)).isNone && scipy

def absQ (x : Rat) : Rat := if x < 0 then -x else x

/-- `float(np.max(np.abs(v))) or 1.0`. -/
def maxAbs (n : Nat) (v : QVec) : Rat :=
  let mx := (List.range n).foldl (fun acc j => if acc < absQ (vget v j) then absQ (vget v j) else acc) 0
  if mx = 0 then 1 else mx

def lpObsCOf (m n : Nat) (S : Ent) (eps tol : Rat) : LPOut → LPObsC
  | .optimal v =>
    .optimal (allTo m (fun i => decide (absQ (sumTo n (fun j => S i j * vget v j)) ≤ tol * maxAbs n v)))
             (allTo n (fun j => decide (eps < vget v j)))
  | .infeasible => .infeasible
  | _ => .other

/-- `is_consistent` (repaired) with a right-kernel basis `R` (`n × k`). -/
def isConsistentQ (m n k : Nat) (S R : Ent) (eps tol : Rat) (scipy : Bool) (lp : LPOut) : Tri :=
  isConsistentAbs m n scipy (lpObsCOf m n S eps tol lp) (k == 0) k (colSignDef n R eps)

end SynKit.Stoich

/-!
# Shared basics of the SynKit model (core Lean only)

Insertion-ordered association lists with the semantics of Python `dict`
(`get`, `set` replacing in place or appending, `pop`), used by every model file.
-/

namespace SynKit

/-- Insertion-ordered dictionary with `String` keys (Python `dict`). -/
abbrev Dict (α : Type) := List (String × α)

namespace Dict
variable {α : Type}

def keys (d : Dict α) : List String := d.map (·.1)

def get? (d : Dict α) (k : String) : Option α :=
  match d with
  | [] => none
  | (k', v) :: rest => if k' = k then some v else get? rest k

def getD (d : Dict α) (k : String) (dflt : α) : α := (d.get? k).getD dflt

def contains (d : Dict α) (k : String) : Bool := decide (k ∈ d.keys)

/-- `d[k] = v`: replace in place when the key exists, append otherwise. -/
def set (d : Dict α) (k : String) (v : α) : Dict α :=
  match d with
  | [] => [(k, v)]
  | (k', v') :: rest => if k' = k then (k', v) :: rest else (k', v') :: set rest k v

/-- `d.pop(k, None)`. -/
def erase (d : Dict α) (k : String) : Dict α :=
  match d with
  | [] => []
  | (k', v') :: rest => if k' = k then erase rest k else (k', v') :: erase rest k

theorem mem_erase (d : Dict α) (k : String) (p : String × α) :
    p ∈ d.erase k ↔ p ∈ d ∧ p.1 ≠ k := by
  induction d with
  | nil => simp [erase]
  | cons q rest ih =>
    obtain ⟨k', v'⟩ := q
    simp only [erase]
    by_cases h : k' = k
    · subst h; simp only [if_true, ih, List.mem_cons]
      constructor
      · rintro ⟨h1, h2⟩; exact ⟨Or.inr h1, h2⟩
      · rintro ⟨h1 | h1, h2⟩
        · subst h1; exact absurd rfl h2
        · exact ⟨h1, h2⟩
    · simp only [h, if_false, List.mem_cons, ih]
      constructor
      · rintro (h1 | ⟨h1, h2⟩)
        · subst h1; exact ⟨Or.inl rfl, h⟩
        · exact ⟨Or.inr h1, h2⟩
      · rintro ⟨h1 | h1, h2⟩
        · exact Or.inl h1
        · exact Or.inr ⟨h1, h2⟩

theorem mem_keys_erase (d : Dict α) (k x : String) : x ∈ (d.erase k).keys ↔ x ∈ d.keys ∧ x ≠ k := by
  simp only [keys, List.mem_map]
  constructor
  · rintro ⟨p, hp, rfl⟩; rw [mem_erase] at hp; exact ⟨⟨p, hp.1, rfl⟩, hp.2⟩
  · rintro ⟨⟨p, hp, rfl⟩, h2⟩; exact ⟨p, (mem_erase d k p).2 ⟨hp, h2⟩, rfl⟩

theorem erase_sublist (d : Dict α) (k : String) : List.Sublist (d.erase k) d := by
  induction d with
  | nil => exact List.Sublist.slnil
  | cons q rest ih =>
    obtain ⟨k', v'⟩ := q
    simp only [erase]
    split
    · exact ih.cons _
    · exact ih.cons₂ _

theorem mem_keys_set (d : Dict α) (k : String) (v : α) (x : String) :
    x ∈ (d.set k v).keys ↔ x ∈ d.keys ∨ x = k := by
  induction d with
  | nil => simp [set, keys]
  | cons p rest ih =>
    obtain ⟨k', v'⟩ := p
    simp only [set]
    by_cases h : k' = k
    · subst h; simp only [keys, if_true, List.map_cons, List.mem_cons]; constructor
      · exact Or.inl
      · rintro (h1 | h1)
        · exact h1
        · exact Or.inl h1
    · simp only [h, if_false, keys, List.map_cons, List.mem_cons] at ih ⊢
      rw [ih]; constructor
      · rintro (h1 | h1 | h1) <;> simp [h1]
      · rintro ((h1 | h1) | h1) <;> simp [h1]

theorem get?_set_self (d : Dict α) (k : String) (v : α) : (d.set k v).get? k = some v := by
  induction d with
  | nil => simp [set, get?]
  | cons p rest ih =>
    obtain ⟨k', v'⟩ := p
    simp only [set]
    by_cases h : k' = k
    · simp [h, get?]
    · simp [h, get?, ih]

theorem get?_set_other (d : Dict α) (k : String) (v : α) (x : String) (hx : x ≠ k) :
    (d.set k v).get? x = d.get? x := by
  induction d with
  | nil => simp [set, get?, Ne.symm hx]
  | cons p rest ih =>
    obtain ⟨k', v'⟩ := p
    simp only [set]
    by_cases h : k' = k
    · subst h; simp [get?, Ne.symm hx]
    · simp only [h, if_false, get?, ih]

theorem get?_erase_self (d : Dict α) (k : String) : (d.erase k).get? k = none := by
  induction d with
  | nil => rfl
  | cons p rest ih =>
    obtain ⟨k', v'⟩ := p
    simp only [erase]
    by_cases h : k' = k
    · simp [h, ih]
    · simp [h, get?, ih]

theorem get?_erase_other (d : Dict α) (k x : String) (hx : x ≠ k) :
    (d.erase k).get? x = d.get? x := by
  induction d with
  | nil => rfl
  | cons p rest ih =>
    obtain ⟨k', v'⟩ := p
    simp only [erase]
    by_cases h : k' = k
    · subst h; simp [get?, Ne.symm hx, ih]
    · simp [h, get?, ih]

theorem get?_eq_none_iff (d : Dict α) (k : String) : d.get? k = none ↔ k ∉ d.keys := by
  induction d with
  | nil => simp [get?, keys]
  | cons p rest ih =>
    obtain ⟨k', v'⟩ := p
    simp only [get?, keys, List.map_cons, List.mem_cons, not_or] at ih ⊢
    by_cases h : k' = k
    · simp [h]
    · simp [h, ih, Ne.symm h]

theorem get?_some_mem (d : Dict α) (k : String) (v : α) (h : d.get? k = some v) : (k, v) ∈ d := by
  induction d with
  | nil => simp [get?] at h
  | cons p rest ih =>
    obtain ⟨k', v'⟩ := p
    simp only [get?] at h
    by_cases hk : k' = k
    · simp only [hk, if_true, Option.some.injEq] at h; simp [hk, h]
    · simp only [hk, if_false] at h; exact List.mem_cons_of_mem _ (ih h)

theorem mem_get?_of_nodup (d : Dict α) (k : String) (v : α) (hn : d.keys.Nodup) (h : (k, v) ∈ d) :
    d.get? k = some v := by
  induction d with
  | nil => simp at h
  | cons p rest ih =>
    obtain ⟨k', v'⟩ := p
    simp only [keys, List.map_cons, List.nodup_cons] at hn
    simp only [List.mem_cons, Prod.mk.injEq] at h
    simp only [get?]
    rcases h with ⟨rfl, rfl⟩ | h
    · simp
    · have : k' ≠ k := by
        rintro rfl; exact hn.1 (List.mem_map.2 ⟨(k', v), h, rfl⟩)
      simp [this, ih hn.2 h]

end Dict

/-- Python `set` of strings as a duplicate-free list; `add`/`discard`. -/
def setAdd (s : List String) (x : String) : List String := if x ∈ s then s else s ++ [x]
def setDiscard (s : List String) (x : String) : List String := s.filter (· ≠ x)

theorem mem_setAdd (s : List String) (x y : String) : y ∈ setAdd s x ↔ y ∈ s ∨ y = x := by
  unfold setAdd; split
  · constructor
    · exact Or.inl
    · rintro (h | rfl) <;> assumption
  · simp

theorem mem_setDiscard (s : List String) (x y : String) : y ∈ setDiscard s x ↔ y ∈ s ∧ y ≠ x := by
  simp [setDiscard]

end SynKit

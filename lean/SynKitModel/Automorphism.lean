import SynKitModel.Match
/-!
# C11 — exact automorphism analysis, WL orbit estimate, match de-duplication (model)

Mirrors
* `synkit/Graph/Matcher/automorphism.py` (`Automorphism._analyze`, `_analyze_component`,
  `_choose_anchor`, attribute defaults of `categorical_node_match` / `categorical_edge_match`),
* `synkit/Graph/Matcher/auto_est.py` (`AutoEst._initialize_colors`, `_refine_once`,
  `_refine_colors`, `_build_orbits`, `anchor_component`),
* `synkit/Graph/Matcher/dedup_matches.py` (`deduplicate_matches_with_anchor` and its helpers).

VF2 (`GraphMatcher.isomorphisms_iter`) is replaced by the proven enumerator `Match.auts`.
Sets (`frozenset`) are duplicate-free sorted lists; every result that is a set of sets is a list
whose order carries no meaning (the driver sorts it).
-/
namespace SynKit.Aut
open SynKit SynKit.Match

/-! ## small list-as-set helpers -/

/-- insert into a strictly increasing list (no duplicate is created) -/
def insertSorted (x : Nat) : List Nat → List Nat
  | [] => [x]
  | y :: ys => if x < y then x :: y :: ys else if x = y then y :: ys else y :: insertSorted x ys

/-- `sorted(set(l))` -/
def sortDedup (l : List Nat) : List Nat := l.foldr insertSorted []

/-- insert into a sorted list keeping duplicates -/
def insertNat (x : Nat) : List Nat → List Nat
  | [] => [x]
  | y :: ys => if x ≤ y then x :: y :: ys else y :: insertNat x ys

/-- `sorted(l)` (a multiset: duplicates kept) -/
def sortNat (l : List Nat) : List Nat := l.foldr insertNat []

/-- drop repeated elements (a `set` of hashable values; which copy survives is immaterial) -/
def dedupR {α : Type} [DecidableEq α] : List α → List α
  | [] => []
  | x :: xs => if x ∈ dedupR xs then dedupR xs else x :: dedupR xs

/-- `acc ∪ xs`, new elements appended in order -/
def addAll (acc xs : List Nat) : List Nat := xs.foldl (fun a w => if w ∈ a then a else a ++ [w]) acc

def iter {α : Type} (f : α → α) : Nat → α → α
  | 0, x => x
  | k + 1, x => iter f k (f x)

/-! ## connected components (own small version of `nx.connected_components`) -/

/-- one closure step: the set together with all neighbours of its members -/
def expand (G : LGraph) (S : List Nat) : List Nat := addAll S (S.flatMap G.neighbors)

/-- the component of `v`: `|V|` closure steps from `{v}` -/
def compOf (G : LGraph) (v : Nat) : List Nat := iter (expand G) G.nodes.length [v]

def componentsAux (G : LGraph) : List Nat → List (List Nat) → List (List Nat)
  | [], acc => acc
  | v :: vs, acc =>
    if acc.any (fun c => c.contains v) then componentsAux G vs acc
    else componentsAux G vs (acc ++ [compOf G v])

/-- components in the order of their first node (the order of `nx.connected_components`) -/
def components (G : LGraph) : List (List Nat) := componentsAux G G.ids []

/-- `G.subgraph(S).copy()` -/
def induce (G : LGraph) (S : List Nat) : LGraph :=
  { nodes := G.nodes.filter (fun p => S.contains p.1)
    edges := G.edges.filter (fun e => S.contains e.1 && S.contains e.2.1) }

/-! ## exact analysis (`Automorphism`) -/

structure Cfg where
  nodeKeys : List String
  edgeKeys : List String
  anchorLargest : Bool := true
deriving Repr, DecidableEq

/-- `tuple(keys) if keys else DEFAULT` -/
def resolveKeys (keys dflt : List String) : List String := if keys.isEmpty then dflt else keys

def Cfg.sel (c : Cfg) : Sel := { nodeKeys := c.nodeKeys, edgeKeys := c.edgeKeys, hcountRule := false }

/-- `_node_defaults`: `0` for `charge`, `"*"` otherwise -/
def nodeDefault (k : String) : Val := if k = "charge" then .num 0 else .str "*"
/-- `_edge_defaults`: `1.0` -/
def edgeDefault (_k : String) : Val := .num 2

/-- the attribute dict as `categorical_*_match` reads it: `d.get(k, default)` for each key -/
def fill (keys : List String) (dflt : String → Val) (a : Attrs) : Attrs :=
  keys.map fun k => (k, match Dict.get? a k with | some v => v | none => dflt k)

/-- the graph with the matcher's defaults made explicit -/
def normalize (c : Cfg) (G : LGraph) : LGraph :=
  { nodes := G.nodes.map fun p => (p.1, fill c.nodeKeys nodeDefault p.2)
    edges := G.edges.map fun e => (e.1, e.2.1, fill c.edgeKeys edgeDefault e.2.2) }

/-- `orbit_sets: Dict[node, set[node]]` (insertion-ordered dict of sets) -/
abbrev OrbitSets := List (Nat × List Nat)

/-- `orbit_sets[u].add(v)` -/
def addTo : OrbitSets → Nat → Nat → OrbitSets
  | [], u, v => [(u, [v])]
  | (k, vs) :: rest, u, v =>
    if k = u then (k, if v ∈ vs then vs else vs ++ [v]) :: rest else (k, vs) :: addTo rest u v

def addPair (s : OrbitSets) (uv : Nat × Nat) : OrbitSets := addTo (addTo s uv.1 uv.2) uv.2 uv.1

/-- the double loop `for auto in isomorphisms_iter(): for u, v in auto.items(): …` -/
def orbitSets (autos : List Mapping) : OrbitSets :=
  autos.foldl (fun s auto => auto.foldl addPair s) []

/-- `_analyze_component` -/
def analyzeComponent (sel : Sel) (g : LGraph) : List (List Nat) × Nat :=
  match g.nodes with
  | [] => ([], 1)
  | [p] => ([[p.1]], 1)
  | _ :: _ :: _ =>
    let autos := auts sel g
    let sets := orbitSets autos
    if sets.isEmpty then (g.ids.map fun n => [n], 1)
    else (dedupR (sets.map fun kv => sortDedup kv.2), if autos.length > 0 then autos.length else 1)

/-- `max(comps, key=len)`: the first component of maximal size -/
def firstLargest : List (List Nat) → Option (List Nat)
  | [] => none
  | c :: cs =>
    match firstLargest cs with
    | none => some c
    | some d => if d.length > c.length then some d else some c

/-- `_choose_anchor` -/
def chooseAnchor (c : Cfg) (comps : List (List Nat)) : Option (List Nat) :=
  if comps.length ≤ 1 || !c.anchorLargest then none else (firstLargest comps).map sortDedup

structure Result where
  orbits : List (List Nat)
  nAut : Nat
  anchor : Option (List Nat)
  comps : List (List Nat)
deriving Repr, DecidableEq

/-- `Automorphism._analyze` -/
def analyze (c : Cfg) (G : LGraph) : Result :=
  let comps := components G
  let Gn := normalize c G
  if G.nodes.isEmpty then ⟨[], 1, none, comps⟩
  else if comps.length ≤ 1 then
    let r := analyzeComponent c.sel Gn
    ⟨r.1, r.2, none, comps⟩
  else
    let parts := comps.map fun comp => analyzeComponent c.sel (induce Gn comp)
    let total := (parts.map (·.2)).foldl (· * ·) 1
    ⟨dedupR (parts.flatMap (·.1)), if total > 0 then total else 1, chooseAnchor c comps, comps⟩

/-- two nodes lie in one listed class -/
def SameClass (orbits : List (List Nat)) (u v : Nat) : Prop := ∃ O ∈ orbits, u ∈ O ∧ v ∈ O

instance (orbits : List (List Nat)) (u v : Nat) : Decidable (SameClass orbits u v) := by
  unfold SameClass; infer_instance

/-! ## the WL-1 estimate (`AutoEst`) -/

structure EstCfg where
  nodeKeys : List String
  edgeKeys : List String
  maxIter : Nat := 10
deriving Repr, DecidableEq

def EstCfg.sel (c : EstCfg) : Sel := { nodeKeys := c.nodeKeys, edgeKeys := c.edgeKeys, hcountRule := false }

/-- node ↦ colour, in node order (`self._colors`) -/
abbrev Colors := List (Nat × Nat)

def colorOf (c : Colors) (v : Nat) : Nat := ((c.find? (·.1 = v)).map (·.2)).getD 0

/-- The palette loop shared by `_initialize_colors` and `_refine_once`: a label that is not yet in
the palette gets the next colour number (`palette[label] = next_color`), so a label's colour is its
position in the palette; `eqv` is equality of labels. -/
def assign {L : Type} (eqv : L → L → Bool) : List (Nat × L) → List L → Colors
  | [], _ => []
  | (v, l) :: rest, pal =>
    match pal.findIdx? (fun q => eqv q l) with
    | some i => (v, i) :: assign eqv rest pal
    | none => (v, pal.length) :: assign eqv rest (pal ++ [l])

/-- `_initial_label`: `(degree, *[attrs.get(k) for k in node_attrs])` -/
def initialLabel (c : EstCfg) (G : LGraph) (v : Nat) : Nat × List Val :=
  ((G.neighbors v).length, c.nodeKeys.map fun k => (G.attrs v).get k)

/-- `_initialize_colors` -/
def initColors (c : EstCfg) (G : LGraph) : Colors :=
  assign (fun a b => decide (a = b)) (G.ids.map fun v => (v, initialLabel c G v)) []

/-- `_neighbor_signature`: `(colour of neighbour, *edge values)` -/
def sigOf (c : EstCfg) (G : LGraph) (col : Colors) (node nbr : Nat) : Nat × List Val :=
  (colorOf col nbr, c.edgeKeys.map fun k => Attrs.get ((G.edge? node nbr).getD []) k)

/-- `_refined_label`: `(own colour, sorted neighbour signatures)`.  The sorted tuple is only ever
used as a dictionary key, i.e. through equality; two sorted lists are equal exactly when the
unsorted ones are permutations of each other, which is how `labelEqv` compares them. -/
def refinedLabel (c : EstCfg) (G : LGraph) (col : Colors) (v : Nat) : Nat × List (Nat × List Val) :=
  (colorOf col v, (G.neighbors v).map (sigOf c G col v))

def labelEqv (a b : Nat × List (Nat × List Val)) : Bool := a.1 == b.1 && a.2.isPerm b.2

/-- the colours produced by one sweep -/
def sweep (c : EstCfg) (G : LGraph) (col : Colors) : Colors :=
  assign labelEqv (G.ids.map fun v => (v, refinedLabel c G col v)) []

/-- `_refine_once`: new colours and the `changed` flag -/
def refineOnce (c : EstCfg) (G : LGraph) (col : Colors) : Colors × Bool :=
  let nc := sweep c G col
  (nc, G.ids.any fun v => colorOf nc v != colorOf col v)

/-- `_refine_colors`: at most `fuel = max_iter` sweeps, stop after the first sweep that changes
nothing (its colours are kept) -/
def refine (c : EstCfg) (G : LGraph) : Nat → Colors → Colors
  | 0, col => col
  | k + 1, col =>
    let r := refineOnce c G col
    if r.2 then refine c G k r.1 else r.1

/-- colours after exactly `k` sweeps (no early stop) -/
def colorsAt (c : EstCfg) (G : LGraph) : Nat → Colors
  | 0 => initColors c G
  | k + 1 => sweep c G (colorsAt c G k)

def finalColors (c : EstCfg) (G : LGraph) : Colors := refine c G c.maxIter (initColors c G)

/-- `_build_orbits`: nodes grouped by colour -/
def orbitsOfColors (col : Colors) : List (List Nat) :=
  dedupR (col.map fun p => sortDedup ((col.filter (fun q => q.2 = p.2)).map (·.1)))

def estOrbits (c : EstCfg) (G : LGraph) : List (List Nat) := orbitsOfColors (finalColors c G)

def listMin : List Nat → Nat
  | [] => 0
  | x :: xs => xs.foldl min x

/-- `anchor_component`: components sorted by `(-len, min)`; the first one -/
def estAnchorAux : List (List Nat) → Option (List Nat)
  | [] => none
  | c :: cs =>
    match estAnchorAux cs with
    | none => some c
    | some d =>
      if d.length > c.length || (d.length = c.length && listMin d < listMin c) then some d else some c

def estAnchor (G : LGraph) : List Nat := ((estAnchorAux (components G)).map sortDedup).getD []

/-! ## `deduplicate_matches_with_anchor` -/

inductive Err | valueError
deriving Repr, DecidableEq

structure DedupArgs where
  patternOrbits : Option (List (List Nat))
  patternAnchor : Option (List Nat)
  hostOrbits : Option (List (List Nat))
deriving Repr, DecidableEq

/-- `_build_host_orbit_index`: a later orbit overwrites an earlier one -/
def hostIndexAux : List (List Nat) → Nat → Nat → Option Nat
  | [], _, _ => none
  | orb :: rest, idx, h =>
    match hostIndexAux rest (idx + 1) h with
    | some j => some j
    | none => if h ∈ orb then some idx else none

/-- `_make_host_repr` -/
def hostRepr (hostOrbits : Option (List (List Nat))) (h : Nat) : Except Err Nat :=
  match hostOrbits with
  | none => .ok h
  | some orbs =>
    match hostIndexAux orbs 0 h with
    | some i => .ok i
    | none => .error .valueError

/-- `_prepare_pattern_orbits` (after `pattern_anchor = pattern_anchor or frozenset()`) -/
def preparePattern (po : Option (List (List Nat))) (anchor : List Nat) : List (List Nat) × List Nat :=
  match po with
  | none => ([], [])
  | some orbs =>
    let sorted := orbs.map sortDedup
    (sorted.filter (fun o => !(o.any fun x => x ∈ anchor)), sortDedup anchor)

/-- A signature: the free part (one `(present pattern nodes, sorted images)` pair per orbit, or the
single host-only tuple encoded with an empty first component) and the anchor part. -/
abbrev Sig := List (List Nat × List Nat) × List (Nat × Nat)

def hasKey (m : Mapping) (p : Nat) : Bool := m.any (·.1 = p)
/-- `mapping[p]` for a key that is present -/
def image (m : Mapping) (p : Nat) : Nat := (m.get? p).getD 0

/-- `_free_sig_from_pattern_orbits` -/
def freeSigPattern (m : Mapping) (free : List (List Nat)) (repr : Nat → Except Err Nat) :
    Except Err (List (List Nat × List Nat)) :=
  match free with
  | [] => .ok []
  | orbit :: rest =>
    let present := orbit.filter (hasKey m)
    if present.isEmpty then freeSigPattern m rest repr
    else do
      let imgs ← present.mapM fun p => repr (image m p)
      let tl ← freeSigPattern m rest repr
      pure ((present, sortNat imgs) :: tl)

/-- `_free_sig_host_only` -/
def freeSigHostOnly (m : Mapping) (repr : Nat → Except Err Nat) : Except Err (List (List Nat × List Nat)) := do
  let imgs ← (m.map (·.2)).mapM repr
  pure [([], sortNat imgs)]

/-- `_anchor_sig` -/
def anchorSig (m : Mapping) (anchored : List Nat) : List (Nat × Nat) :=
  (anchored.filter (hasKey m)).map fun p => (p, image m p)

/-- the signature computed inside the loop of `deduplicate_matches_with_anchor` -/
def signature (a : DedupArgs) (m : Mapping) : Except Err Sig :=
  let pa := preparePattern a.patternOrbits (a.patternAnchor.getD [])
  let usePattern := !pa.1.isEmpty || !pa.2.isEmpty
  let repr := hostRepr a.hostOrbits
  do
    let free ← if usePattern then freeSigPattern m pa.1 repr else freeSigHostOnly m repr
    pure (free, anchorSig m pa.2)

/-- the `seen` loop: keep a match iff its signature has not been seen -/
def dedupLoop (sig : Mapping → Except Err Sig) : List Mapping → List Sig → Except Err (List Mapping)
  | [], _ => .ok []
  | m :: ms, seen =>
    match sig m with
    | .error e => .error e
    | .ok s =>
      if s ∈ seen then dedupLoop sig ms seen
      else
        match dedupLoop sig ms (s :: seen) with
        | .error e => .error e
        | .ok r => .ok (m :: r)

/-- `deduplicate_matches_with_anchor` -/
def dedup (a : DedupArgs) (ms : List Mapping) : Except Err (List Mapping) :=
  if a.patternOrbits.isNone && a.hostOrbits.isNone then .ok ms
  else dedupLoop (signature a) ms []

/-! ## specification-side helpers evaluated by the driver -/

/-- orbit of `u` read off the automorphism list directly -/
def orbitBySpec (sel : Sel) (g : LGraph) (u : Nat) : List Nat :=
  sortDedup ((auts sel g).filterMap fun m => m.get? u)

end SynKit.Aut

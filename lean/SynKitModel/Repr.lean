import SynKitModel.Graph
/-!
# C10 — molecule table ↔ attribute graph, explicit ↔ implicit hydrogens

RDKit is external: a molecule *is* its atom/bond table (element, charge, map number, total
hydrogen count, aromatic flag; bond order as `GetBondTypeAsDouble`, in half-units).  The adapter
reads that table from RDKit objects.

* `molToGraph`  mirrors `MolToGraph.transform` as `smiles_to_graph` calls it (default
  `node_attrs`, `edge_attrs=["order"]`, `use_index_as_atom_map=False`, `drop_non_aam=False`):
  node id = atom index + 1.
* `graphToMol`  mirrors `GraphToMol.graph_to_mol(graph, use_h_count=True)` up to the point where
  RDKit takes over (`SanitizeMol`): what is handed to RDKit is again a table.  The aromatic flag
  is *not* part of it (the code never sets it; RDKit perceives it again).
* `hToExplicit`, `hToImplicit`, `implicitHydrogen`, `hasXH`, `hasHH` mirror
  `synkit/Graph/Hyrogen/_misc.py` on molecule graphs.  `hToImplicit` follows the F18 repair
  (draft fix 0012): a hydrogen with no heavy neighbour stays explicit.  `implicitHydrogen` follows
  the F29 repair (draft fix 0022): a non-preserved hydrogen is removed only if it has a heavy
  neighbour.

Numbers in attribute dicts travel in half-units (`Val.num (2*k)` is the integer `k`).
Domain (checked by the driver, which answers `unsupported` outside it): `hcount`, `charge`,
`atom_map` are absent or integers; no `typesGH` attribute (ITS graphs are expanded by the
reactor's own `_explicit_h`, property C03); `h_to_explicit` is modelled for `nodes=None`,
`its=False`.
-/
namespace SynKit.Repr

/-! ## The molecule table -/

structure Atom where
  element : String
  charge : Int
  atomMap : Nat
  hcount : Nat        -- GetTotalNumHs
  aromatic : Bool
deriving Repr, DecidableEq

structure Bond where
  a : Nat             -- begin atom index
  b : Nat             -- end atom index
  order : Int         -- GetBondTypeAsDouble, half-units (2, 3 = aromatic, 4, 6)
deriving Repr, DecidableEq

structure Mol where
  atoms : List Atom
  bonds : List Bond
deriving Repr, DecidableEq

/-- insertion sort of strings (Python `sorted` on ASCII element symbols). -/
def insertStr (x : String) : List String → List String
  | [] => [x]
  | y :: ys => if x ≤ y then x :: y :: ys else y :: insertStr x ys

def sortStrs : List String → List String
  | [] => []
  | x :: xs => insertStr x (sortStrs xs)

/-- element symbols of the neighbours of atom `i` (`atom.GetNeighbors()`), unsorted. -/
def nbrSymbols (M : Mol) (i : Nat) : List String :=
  M.bonds.filterMap fun b =>
    if b.a = i then (M.atoms[b.b]?).map (·.element)
    else if b.b = i then (M.atoms[b.a]?).map (·.element) else none

def atomAttrs (M : Mol) (i : Nat) (atm : Atom) : Attrs :=
  [("element", .str atm.element), ("aromatic", .bool atm.aromatic), ("hcount", .num (2 * atm.hcount)),
   ("charge", .num (2 * atm.charge)), ("neighbors", .tup ((sortStrs (nbrSymbols M i)).map Val.str)),
   ("atom_map", .num (2 * atm.atomMap))]

def atomNodes (M : Mol) : List Atom → Nat → List (Nat × Attrs)
  | [], _ => []
  | atm :: rest, i => (i + 1, atomAttrs M i atm) :: atomNodes M rest (i + 1)

/-- `MolToGraph.transform` (node id = index + 1; every bond becomes an edge carrying `order`). -/
def molToGraph (M : Mol) : LGraph :=
  { nodes := atomNodes M M.atoms 0
    edges := M.bonds.map fun b => (b.a + 1, b.b + 1, [("order", .num b.order)]) }

/-- What `graph_to_mol` hands to RDKit for one atom. `hcount = none`: no `hcount` key, RDKit
decides the hydrogens itself. -/
structure AtomOut where
  element : String
  charge : Int
  atomMap : Nat
  hcount : Option Nat
deriving Repr, DecidableEq

structure MolOut where
  atoms : List AtomOut
  bonds : List (Nat × Nat × Int)     -- begin index, end index, bond type as double (half-units)
deriving Repr, DecidableEq

inductive Err
  | typeError | keyError | unsupported
deriving Repr, DecidableEq

/-- an attribute that must be an integer when present (`Val.num` with an even half-unit value). -/
def intAttr (a : Attrs) (k : String) (dflt : Int) : Except Err Int :=
  match Dict.get? a k with
  | none => .ok dflt
  | some (.num h) => if h % 2 = 0 then .ok (h / 2) else .error .typeError
  | some _ => .error .typeError

def atomOfAttrs (a : Attrs) : Except Err AtomOut := do
  let element ← match Dict.get? a "element" with
    | none => pure "*"
    | some (.str s) => pure s
    | some _ => throw Err.typeError
  let charge ← intAttr a "charge" 0
  let am ← intAttr a "atom_map" 0
  if am < 0 then throw Err.typeError
  let hc ← match Dict.get? a "hcount" with
    | none => pure none
    | some _ => do
      let h ← intAttr a "hcount" 0
      if h < 0 then throw Err.typeError
      pure (some h.toNat)
  pure { element, charge, atomMap := am.toNat, hcount := hc }

/-- `get_bond_type_from_order(abs(order))` followed by `GetBondTypeAsDouble`:
1 ↦ SINGLE, 2 ↦ DOUBLE, 3 ↦ TRIPLE, anything else ↦ AROMATIC (1.5). -/
def bondTypeOf (h : Int) : Int :=
  let x := h.natAbs
  if x = 2 then 2 else if x = 4 then 4 else if x = 6 then 6 else 3

def bondOfEdge (ids : List Nat) (e : Nat × Nat × Attrs) : Except Err (Nat × Nat × Int) := do
  let h ← match Dict.get? e.2.2 "order" with
    | none => pure (2 : Int)
    | some (.num h) => pure h
    | some _ => throw Err.typeError
  pure (ids.idxOf e.1, ids.idxOf e.2.1, bondTypeOf h)

/-- `GraphToMol().graph_to_mol(graph, use_h_count=True)` before sanitisation. -/
def graphToMol (g : LGraph) : Except Err MolOut := do
  let atoms ← g.nodes.mapM fun p => atomOfAttrs p.2
  let bonds ← g.edges.mapM (bondOfEdge g.ids)
  pure { atoms, bonds }

/-- The part of the table that `graph_to_mol` can restore (everything but the aromatic flag). -/
def Mol.out (M : Mol) : MolOut :=
  { atoms := M.atoms.map fun x => { element := x.element, charge := x.charge, atomMap := x.atomMap, hcount := some x.hcount }
    bonds := M.bonds.map fun b => (b.a, b.b, b.order) }

/-- Table as RDKit delivers it after sanitisation: bonds join existing atoms and have one of the
four standard types. -/
def Mol.WF (M : Mol) : Prop :=
  ∀ b ∈ M.bonds, b.a < M.atoms.length ∧ b.b < M.atoms.length ∧ (b.order = 2 ∨ b.order = 3 ∨ b.order = 4 ∨ b.order = 6)

instance (M : Mol) : Decidable M.WF := by unfold Mol.WF; infer_instance

/-! ## Hydrogens -/

/-- `d.get("element") == "H"`. -/
def isH (a : Attrs) : Bool := a.get "element" = .str "H"

/-- raw `hcount` in half-units, `d.get("hcount", 0)`. -/
def hraw (a : Attrs) : Int :=
  match Dict.get? a "hcount" with
  | some (.num h) => h
  | _ => 0

/-- `d.get("hcount", 0)` as an integer. -/
def hcnt (a : Attrs) : Int := hraw a / 2

/-- hcount, charge, atom_map absent or integers. -/
def attrsTyped (a : Attrs) : Bool :=
  ["hcount", "charge", "atom_map"].all fun k =>
    match Dict.get? a k with
    | none => true
    | some (.num h) => h % 2 = 0
    | some _ => false

def HTyped (g : LGraph) : Prop := ∀ p ∈ g.nodes, attrsTyped p.2 = true
instance (g : LGraph) : Decidable (HTyped g) := by unfold HTyped; infer_instance

/-- `h_to_explicit` is modelled where it does not touch `typesGH`: no atom with a positive count
carries that attribute (molecule graphs; the hydrogens the function itself adds have count 0). -/
def explicitDomain (g : LGraph) : Bool :=
  g.nodes.all fun p => !(decide (hcnt p.2 > 0) && Dict.contains p.2 "typesGH")

def maxId (g : LGraph) : Nat := g.ids.foldl max 0

/-- attributes of a hydrogen node created by `h_to_explicit`. -/
def hAttrs : Attrs :=
  [("element", .str "H"), ("aromatic", .bool false), ("hcount", .num 0), ("charge", .num 0),
   ("atom_map", .num 0),
   ("typesGH", .tup [.tup [.str "H", .bool false, .num 0, .num 0, .tup []],
                     .tup [.str "H", .bool false, .num 0, .num 0, .tup []]])]

def orderOne : Attrs := [("order", .num 2)]

/-- `H2.nodes[heavy]["hcount"] -= count` for a node with `count > 0`, untouched otherwise. -/
def zeroH (p : Nat × Attrs) : Nat × Attrs :=
  if hcnt p.2 > 0 then (p.1, Dict.set p.2 "hcount" (.num (hraw p.2 - 2 * hcnt p.2))) else p

/-- The loop `for heavy in G.nodes(): for _ in range(count): max_node += 1; add_node; add_edge`:
the (new hydrogen id, heavy atom) pairs in creation order, `mx` being `max_node` on entry. -/
def plan : List (Nat × Attrs) → Nat → List (Nat × Nat)
  | [], _ => []
  | p :: rest, mx =>
    (List.range' (mx + 1) (hcnt p.2).toNat).map (fun f => (f, p.1)) ++ plan rest (mx + (hcnt p.2).toNat)

def freshNode (q : Nat × Nat) : Nat × Attrs := (q.1, hAttrs)
def freshEdge (q : Nat × Nat) : Nat × Nat × Attrs := (q.2, q.1, orderOne)

/-- `h_to_explicit(G)` (`nodes=None`, `its=False`).  Node ids of a NetworkX graph are unique, so
the in-loop update of `heavy` and the nodes appended for it do not interact with other iterations:
the result is the old nodes (those with a positive count zeroed) followed by the new hydrogens in
creation order, and the old edges followed by the new ones. -/
def hToExplicit (g : LGraph) : LGraph :=
  { nodes := g.nodes.map zeroH ++ (plan g.nodes (maxId g)).map freshNode
    edges := g.edges ++ (plan g.nodes (maxId g)).map freshEdge }

/-- `G.nodes[v][...] = ...` for the node with id `v`. -/
def updAttrs (g : LGraph) (v : Nat) (f : Attrs → Attrs) : LGraph :=
  { g with nodes := g.nodes.map (fun p => if p.1 = v then (p.1, f p.2) else p) }

/-- `G.remove_node(h)`. -/
def removeNode (g : LGraph) (h : Nat) : LGraph :=
  { nodes := g.nodes.filter (fun p => p.1 ≠ h)
    edges := g.edges.filter (fun e => e.1 ≠ h ∧ e.2.1 ≠ h) }

/-- `d["hcount"] = d.get("hcount", 0) + 1`. -/
def bump (a : Attrs) : Attrs := Dict.set a "hcount" (.num (hraw a + 2))

def bumpIfHeavy (g : LGraph) (n : Nat) : LGraph :=
  if isH (g.attrs n) then g else updAttrs g n bump

/-- One iteration of the loop of `h_to_implicit` (with the F18 repair): a hydrogen all of whose
neighbours are hydrogens (or that has none) is kept; otherwise every heavy neighbour's count
goes up by one and the hydrogen is removed. -/
def implStep (g : LGraph) (h : Nat) : LGraph :=
  if (g.neighbors h).all (fun n => isH (g.attrs n)) then g
  else removeNode ((g.neighbors h).foldl bumpIfHeavy g) h

def hNodes (g : LGraph) : List Nat := (g.nodes.filter fun p => isH p.2).map (·.1)

/-- `h_to_implicit(G)`. -/
def hToImplicit (g : LGraph) : LGraph := (hNodes g).foldl implStep g

/-- Hydrogens of the molecule: the counts on all atoms plus the explicit hydrogen nodes. -/
def totalH (g : LGraph) : Int := (g.nodes.map fun p => hcnt p.2 + (if isH p.2 then 1 else 0)).sum

/-- `has_XH(G)`. -/
def hasXH (g : LGraph) : Bool :=
  g.edges.any fun e =>
    let hu := isH (g.attrs e.1); let hv := isH (g.attrs e.2.1)
    (!hu && hv) || (!hv && hu)

/-- `has_HH(G)`. -/
def hasHH (g : LGraph) : Bool :=
  g.edges.any fun e => isH (g.attrs e.1) && isH (g.attrs e.2.1)

/-- The guard of the round trip: no explicit hydrogen is bonded to a heavy atom (`has_XH` is
false), and no hydrogen node carries a hydrogen count of its own. -/
def NoHeavyBoundH (g : LGraph) : Prop :=
  hasXH g = false ∧ ∀ p ∈ g.nodes, isH p.2 = true → hcnt p.2 ≤ 0

instance (g : LGraph) : Decidable (NoHeavyBoundH g) := by unfold NoHeavyBoundH; infer_instance

/-- number of heavy neighbours of a node. -/
def heavyNbrs (g : LGraph) (h : Nat) : Nat := ((g.neighbors h).filter fun n => !(isH (g.attrs n))).length

/-- Hydrogen nodes are monovalent and carry no count of their own: the guard under which folding
a hydrogen into its heavy neighbour keeps the total hydrogen count. -/
def HValence (g : LGraph) : Prop := ∀ p ∈ g.nodes, isH p.2 = true → hcnt p.2 = 0 ∧ heavyNbrs g p.1 ≤ 1
instance (g : LGraph) : Decidable (HValence g) := by unfold HValence; infer_instance

/-- `atom_map` as a natural number. -/
def atomMapOf (a : Attrs) : Option Nat :=
  match Dict.get? a "atom_map" with
  | some (.num h) => if h % 2 = 0 ∧ h ≥ 0 then some (h / 2).toNat else none
  | _ => none

/-- `any(new_graph.nodes[neighbor]["element"] != "H" for neighbor in new_graph.neighbors(node))`:
the node has at least one non-hydrogen neighbour. -/
def hasHeavyNbr (g : LGraph) (v : Nat) : Bool := (g.neighbors v).any fun n => !(isH (g.attrs n))

/-- `implicit_hydrogen(graph, preserve_atom_maps, reindex=False)` on a graph whose nodes all carry
`element`, `hcount` (and hydrogens `atom_map`): every heavy atom absorbs its hydrogen neighbours
into its count, gives one back for every preserved hydrogen neighbour; then every hydrogen node
that is not preserved **and has at least one non-hydrogen neighbour** is removed (with its bonds).
A hydrogen without a non-hydrogen neighbour (free H, H+, H-, the atoms of H2) was not folded into
any count and stays (F29 repair, draft fix 0022). -/
def implicitHydrogen (g : LGraph) (preserve : List Nat) : LGraph :=
  let nH (v : Nat) : Int := ((g.neighbors v).filter fun n => isH (g.attrs n)).length
  let g1 : LGraph := { g with nodes := g.nodes.map (fun p =>
    if isH p.2 then p else (p.1, Dict.set p.2 "hcount" (.num (hraw p.2 + 2 * nH p.1)))) }
  let preserved : List Nat := (g1.nodes.filter fun p =>
    isH p.2 && (match atomMapOf p.2 with | some m => preserve.contains m | none => false)).map (·.1)
  let dec (a : Attrs) : Attrs := Dict.set a "hcount" (.num (hraw a - 2))
  let g2 := preserved.foldl (fun g' h =>
    (g'.neighbors h).foldl (fun g'' n => if isH (g''.attrs n) then g'' else updAttrs g'' n dec) g') g1
  -- `hydrogen_to_remove`: element == "H" and node not in preserved_hydrogens and any(non-H neighbour)
  let removed (v : Nat) (a : Attrs) : Bool := isH a && !(preserved.contains v) && hasHeavyNbr g2 v
  { nodes := g2.nodes.filter fun p => !(removed p.1 p.2)
    edges := g2.edges.filter fun e => !(removed e.1 (g2.attrs e.1)) && !(removed e.2.1 (g2.attrs e.2.1)) }

/-- Domain of `implicit_hydrogen`: `data["element"]`, `data["hcount"]`, `data["atom_map"]` must exist. -/
def implDomain (g : LGraph) : Bool :=
  g.nodes.all fun p => Dict.contains p.2 "element" && Dict.contains p.2 "hcount" && Dict.contains p.2 "atom_map"

end SynKit.Repr

import SynKitModel.Match
/-!
# Rule application as a pipeline over abstract stages (C04, C05)

`SynReactor` computes, for a substrate graph `host`, a template `T`, a direction and a strategy,

    results = (prune T (search strategy host (pattern T))).flatMap (glue host T)

where `pattern` is the prepared left-hand side of the rule (`SynRule.left`, `h_to_implicit`),
`search` one of the three sub-graph searches (the exhaustive one is the proven enumerator
`allMonos`), `prune` the symmetry pruning of the match list and `glue` the gluing + rendering of one
match (a match may render to no reaction at all — outputs that fail sanitisation are dropped —
hence `glue … : List R`).

This file contains what C04 and C05 need *around* the glue step, which is modelled elsewhere
(`SynKitModel/Reactor.lean`, property C03) and enters here only as a parameter:

* relabelling of matches (host side / pattern side);
* `idMap`, the identity embedding of a pattern whose nodes are host nodes, and `subPatternB`, the
  decidable "pattern is a sub-pattern of host" test (subset of nodes and edges, selected labels
  equal, hydrogen counts only lowered);
* the three strategies at the level of match lists (`searchBt`);
* the repaired pruning (`pruneByAut`, after draft fix 0015): one representative per class of
  matches related by an automorphism of the rule; matches that do not cover every pattern node
  are never pruned; above `maxGroup` automorphisms nothing is pruned.

Everything is total and executable (the driver exposes `rinv.*` commands).
-/
namespace SynKit.ReactorInv
open SynKit SynKit.Match

/-- Post-compose a match with a renumbering of the host (`f ∘ m`). -/
def relabelHost (f : Nat → Nat) (m : Mapping) : Mapping := m.map fun ph => (ph.1, f ph.2)

/-- Pre-compose a match with the inverse of a renumbering of the pattern (`m ∘ π⁻¹`):
the pair `(p, h)` becomes `(π p, h)`. -/
def relabelPat (π : Nat → Nat) (m : Mapping) : Mapping := m.map fun ph => (π ph.1, ph.2)

/-- The identity embedding of a pattern drawn on host node ids. -/
def idMap (P : LGraph) : Mapping := P.ids.map fun v => (v, v)

/-- `P` is a sub-pattern of `H` *in place*: every pattern node is a host node that passes the node
closure (selected attributes equal, host hydrogen count ≥ pattern hydrogen count) and every
pattern edge lies on a host edge that passes the edge closure. -/
def SubPattern (sel : Sel) (H P : LGraph) : Prop :=
  (∀ v ∈ P.ids, v ∈ H.ids ∧ nodeOk sel (H.attrs v) (P.attrs v) = true) ∧
  (∀ e ∈ P.edges, ∃ ea, H.edge? e.1 e.2.1 = some ea ∧ edgeOk sel ea e.2.2 = true)

/-- Executable form of `SubPattern` (theorem `subPatternB_iff`). -/
def subPatternB (sel : Sel) (H P : LGraph) : Bool :=
  P.ids.all (fun v => H.ids.contains v && nodeOk sel (H.attrs v) (P.attrs v)) &&
  P.edges.all (fun e => match H.edge? e.1 e.2.1 with
    | some ea => edgeOk sel ea e.2.2
    | none => false)

/-- How a template's pattern arises from a substrate-side graph: keep the nodes with `keep`, the
edges with `keepE` whose two ends are kept, and lower each kept node's hydrogen count to at most
`capH` (a centre template keeps only the hydrogens that take part; `SynRule` resets the rest). -/
def subPatternOf (G : LGraph) (keep : Nat → Bool) (keepE : Nat → Nat → Bool) (capH : Nat → Int) : LGraph :=
  { nodes := (G.nodes.filter fun p => keep p.1).map fun p =>
      (p.1, Dict.set p.2 "hcount" (Val.num (min (hcountOf p.2) (capH p.1))))
    edges := G.edges.filter fun e => keep e.1 && keep e.2.1 && keepE e.1 e.2.1 }

/-! ## Strategies at the level of match lists -/

inductive Strategy | all | comp | bt
deriving Repr, DecidableEq

/-- `_find_bt_subgraph_mappings`: the component-aware result if non-empty, else the exhaustive one. -/
def searchBt (comp all : List Mapping) : List Mapping := if comp.isEmpty then all else comp

/-! ## Results -/

/-- Glue every match, concatenate what each renders to. -/
def resultsOf {R : Type} (glue : Mapping → List R) (ms : List Mapping) : List R := ms.flatMap glue

/-! ## Pruning by rule automorphisms (draft fix 0015) -/

/-- `[f(a) for a in l]` where any failure fails the whole (structural, so that proofs and `decide` are easy). -/
def mapOpt {α β : Type} (f : α → Option β) : List α → Option (List β)
  | [] => some []
  | a :: as =>
    match f a, mapOpt f as with
    | some b, some bs => some (b :: bs)
    | _, _ => none

/-- `m ∘ σ` restricted to the pattern nodes `keep`, as the sorted-by-pattern-node list of pairs
`(p, m[σ p])`; `none` when some node is not covered (the Python code then keeps the match). -/
def composeOn (keep : List Nat) (m σ : Mapping) : Option Mapping :=
  mapOpt (fun p => (σ.get? p).bind fun q => (m.get? q).map fun h => (p, h)) keep

def lexLt : Mapping → Mapping → Bool
  | [], [] => false
  | [], _ :: _ => true
  | _ :: _, [] => false
  | a :: as, b :: bs =>
    if a.1 < b.1 then true else if b.1 < a.1 then false
    else if a.2 < b.2 then true else if b.2 < a.2 then false else lexLt as bs

/-- Least element of a list of keys (`min(images)`); the head is the default. -/
def pickMin (d : Mapping) : List Mapping → Mapping
  | [] => d
  | x :: xs => let r := pickMin d xs; if xs.isEmpty then x else if lexLt r x then r else x

/-- The pruning key of a match: the least image under the group, `none` when the match does not
cover `keep` (such a match is never pruned). -/
def pruneKey (keep : List Nat) (group : List Mapping) (m : Mapping) : Option Mapping :=
  match mapOpt (composeOn keep m) group with
  | some (i :: is) => some (pickMin i (i :: is))
  | _ => none

/-- Keep the first match of every key; matches without key are all kept (order preserved). -/
def dedupKey (key : Mapping → Option Mapping) : List Mapping → List Mapping → List Mapping
  | _, [] => []
  | seen, m :: ms =>
    match key m with
    | none => m :: dedupKey key seen ms
    | some k => if seen.contains k then dedupKey key seen ms else m :: dedupKey key (k :: seen) ms

/-- `_prune_by_rule_automorphisms(matches, rc, pattern_nodes, max_group)`; `group` is the list of
automorphisms of the rule (restricted to `keep`), as enumerated by the caller. -/
def pruneByAut (maxGroup : Nat) (keep : List Nat) (group : List Mapping) (ms : List Mapping) : List Mapping :=
  if ms.length < 2 then ms
  else if group.length > maxGroup then ms
  else dedupKey (pruneKey keep group) [] ms

/-- Specification of a sound pruning, independent of how representatives are chosen: two
matches are *related* when they have a common image under the listed rule automorphisms. -/
def Related (keep : List Nat) (group : List Mapping) (m m' : Mapping) : Prop :=
  ∃ σ₁ ∈ group, ∃ σ₂ ∈ group, ∃ k, composeOn keep m σ₁ = some k ∧ composeOn keep m' σ₂ = some k

def relatedB (keep : List Nat) (group : List Mapping) (m m' : Mapping) : Bool :=
  group.any fun σ₁ =>
    match composeOn keep m σ₁ with
    | none => false
    | some k => group.any fun σ₂ => decide (composeOn keep m' σ₂ = some k)

/-- `kept` is an admissible outcome of pruning `raw`: a sub-list (order kept, nothing invented) in
which every raw match is present or related to a kept one.  How MUCH is pruned is left open. -/
def PruneSpec (keep : List Nat) (group : List Mapping) (raw kept : List Mapping) : Prop :=
  kept.Sublist raw ∧ ∀ m ∈ raw, m ∈ kept ∨ ∃ m' ∈ kept, Related keep group m m'

def pruneSpecB (keep : List Nat) (group : List Mapping) (raw kept : List Mapping) : Bool :=
  kept.isSublist raw && raw.all fun m => kept.contains m || kept.any (relatedB keep group m)

/-! ## The abstract reactor -/

/-- The stages of rule application as parameters.  `dir = true` is backward application. -/
structure Reactor (R : Type) where
  sel : Sel
  /-- prepared left-hand pattern of the (oriented) template -/
  pattern : Bool → LGraph → LGraph
  /-- sub-graph search: strategy, host, pattern -/
  search : Strategy → LGraph → LGraph → List Mapping
  /-- symmetry pruning: direction, template, raw matches -/
  prune : Bool → LGraph → List Mapping → List Mapping
  /-- glue + render one match: direction, host, template, match -/
  glue : Bool → LGraph → LGraph → Mapping → List R
  /-- "the same reaction" on results (isomorphism of ITS graphs / equal normalised SMILES) -/
  equiv : R → R → Prop

namespace Reactor
variable {R : Type} (X : Reactor R)

def kept (s : Strategy) (dir : Bool) (host T : LGraph) : List Mapping :=
  X.prune dir T (X.search s host (X.pattern dir T))

def results (s : Strategy) (dir : Bool) (host T : LGraph) : List R :=
  resultsOf (X.glue dir host T) (X.kept s dir host T)

def resultsUnpruned (s : Strategy) (dir : Bool) (host T : LGraph) : List R :=
  resultsOf (X.glue dir host T) (X.search s host (X.pattern dir T))

end Reactor

/-- Every element of `xs` has an equivalent in `ys`. -/
def SubsetMod {R : Type} (E : R → R → Prop) (xs ys : List R) : Prop := ∀ x ∈ xs, ∃ y ∈ ys, E x y

/-- Equal as sets modulo `E`. -/
def SetEqMod {R : Type} (E : R → R → Prop) (xs ys : List R) : Prop := SubsetMod E xs ys ∧ SubsetMod E ys xs

end SynKit.ReactorInv

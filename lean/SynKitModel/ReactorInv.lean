import SynKitModel.Match
/-!
# Rule application as a pipeline over abstract stages (C04, C05)

`SynReactor` computes, for a substrate graph `host`, a template `T`, a direction and a strategy,

    results = (prune T (search strategy host (pattern T))).flatMap (glue host T)

where `pattern` is the prepared left-hand side of the rule (`SynRule.left`, `h_to_implicit`),
`search` one of the three sub-graph searches (the exhaustive one is the proven enumerator
`allMonos`), `prune` the symmetry pruning of the match list and `glue` the gluing + rendering of one
match (a match may render to no reaction at all — outputs that fail sanitisation are dropped —
hence `glue … : List R`).

This file contains what C04 and C05 need *around* the glue step, which is modelled elsewhere
(`SynKitModel/Reactor.lean`, property C03) and enters here only as a parameter:

* relabelling of matches (host side / pattern side);
* `idMap`, the identity embedding of a pattern whose nodes are host nodes, and `subPatternB`, the
  decidable "pattern is a sub-pattern of host" test (subset of nodes and edges, selected labels
  equal, hydrogen counts only lowered);
* the three strategies at the level of match lists (`searchBt`);
* the repaired pruning (`pruneByAut`, after draft fix 0015): one representative per class of
  matches related by an automorphism of the rule; matches that do not cover every pattern node
  are never pruned; above `maxGroup` automorphisms nothing is pruned;
* the same routine followed literally for lists that hold PARTIAL matches (`prunePartial`,
  `pruneWithCap`): the key as the code builds it (images sorted and compared through `repr`
  strings), matches that lack a pattern node passed through without a key, `KeyError` /
  `ValueError` as outcomes, the `max_group` fall-back.

Everything is total and executable (the driver exposes `rinv.*` commands).
-/
namespace SynKit.ReactorInv
open SynKit SynKit.Match

/-- Post-compose a match with a renumbering of the host (`f ∘ m`). -/
def relabelHost (f : Nat → Nat) (m : Mapping) : Mapping := m.map fun ph => (ph.1, f ph.2)

/-- Pre-compose a match with the inverse of a renumbering of the pattern (`m ∘ π⁻¹`):
the pair `(p, h)` becomes `(π p, h)`. -/
def relabelPat (π : Nat → Nat) (m : Mapping) : Mapping := m.map fun ph => (π ph.1, ph.2)

/-- The identity embedding of a pattern drawn on host node ids. -/
def idMap (P : LGraph) : Mapping := P.ids.map fun v => (v, v)

/-- `P` is a sub-pattern of `H` *in place*: every pattern node is a host node that passes the node
closure (selected attributes equal, host hydrogen count ≥ pattern hydrogen count) and every
pattern edge lies on a host edge that passes the edge closure. -/
def SubPattern (sel : Sel) (H P : LGraph) : Prop :=
  (∀ v ∈ P.ids, v ∈ H.ids ∧ nodeOk sel (H.attrs v) (P.attrs v) = true) ∧
  (∀ e ∈ P.edges, ∃ ea, H.edge? e.1 e.2.1 = some ea ∧ edgeOk sel ea e.2.2 = true)

/-- Executable form of `SubPattern` (theorem `subPatternB_iff`). -/
def subPatternB (sel : Sel) (H P : LGraph) : Bool :=
  P.ids.all (fun v => H.ids.contains v && nodeOk sel (H.attrs v) (P.attrs v)) &&
  P.edges.all (fun e => match H.edge? e.1 e.2.1 with
    | some ea => edgeOk sel ea e.2.2
    | none => false)

/-- How a template's pattern arises from a substrate-side graph: keep the nodes with `keep`, the
edges with `keepE` whose two ends are kept, and lower each kept node's hydrogen count to at most
`capH` (a centre template keeps only the hydrogens that take part; `SynRule` resets the rest). -/
def subPatternOf (G : LGraph) (keep : Nat → Bool) (keepE : Nat → Nat → Bool) (capH : Nat → Int) : LGraph :=
  { nodes := (G.nodes.filter fun p => keep p.1).map fun p =>
      (p.1, Dict.set p.2 "hcount" (Val.num (min (hcountOf p.2) (capH p.1))))
    edges := G.edges.filter fun e => keep e.1 && keep e.2.1 && keepE e.1 e.2.1 }

/-! ## Strategies at the level of match lists -/

inductive Strategy | all | comp | bt
deriving Repr, DecidableEq

/-- `_find_bt_subgraph_mappings`: the component-aware result if non-empty, else the exhaustive one. -/
def searchBt (comp all : List Mapping) : List Mapping := if comp.isEmpty then all else comp

/-! ## Results -/

/-- Glue every match, concatenate what each renders to. -/
def resultsOf {R : Type} (glue : Mapping → List R) (ms : List Mapping) : List R := ms.flatMap glue

/-! ## Pruning by rule automorphisms (draft fix 0015) -/

/-- `[f(a) for a in l]` where any failure fails the whole (structural, so that proofs and `decide` are easy). -/
def mapOpt {α β : Type} (f : α → Option β) : List α → Option (List β)
  | [] => some []
  | a :: as =>
    match f a, mapOpt f as with
    | some b, some bs => some (b :: bs)
    | _, _ => none

/-- `m ∘ σ` restricted to the pattern nodes `keep`, as the sorted-by-pattern-node list of pairs
`(p, m[σ p])`; `none` when some node is not covered (the Python code then keeps the match). -/
def composeOn (keep : List Nat) (m σ : Mapping) : Option Mapping :=
  mapOpt (fun p => (σ.get? p).bind fun q => (m.get? q).map fun h => (p, h)) keep

def lexLt : Mapping → Mapping → Bool
  | [], [] => false
  | [], _ :: _ => true
  | _ :: _, [] => false
  | a :: as, b :: bs =>
    if a.1 < b.1 then true else if b.1 < a.1 then false
    else if a.2 < b.2 then true else if b.2 < a.2 then false else lexLt as bs

/-- Least element of a list of keys (`min(images)`); the head is the default. -/
def pickMin (d : Mapping) : List Mapping → Mapping
  | [] => d
  | x :: xs => let r := pickMin d xs; if xs.isEmpty then x else if lexLt r x then r else x

/-- The pruning key of a match: the least image under the group, `none` when the match does not
cover `keep` (such a match is never pruned). -/
def pruneKey (keep : List Nat) (group : List Mapping) (m : Mapping) : Option Mapping :=
  match mapOpt (composeOn keep m) group with
  | some (i :: is) => some (pickMin i (i :: is))
  | _ => none

/-- Keep the first match of every key; matches without key are all kept (order preserved). -/
def dedupKey (key : Mapping → Option Mapping) : List Mapping → List Mapping → List Mapping
  | _, [] => []
  | seen, m :: ms =>
    match key m with
    | none => m :: dedupKey key seen ms
    | some k => if seen.contains k then dedupKey key seen ms else m :: dedupKey key (k :: seen) ms

/-- `_prune_by_rule_automorphisms(matches, rc, pattern_nodes, max_group)`; `group` is the list of
automorphisms of the rule (restricted to `keep`), as enumerated by the caller. -/
def pruneByAut (maxGroup : Nat) (keep : List Nat) (group : List Mapping) (ms : List Mapping) : List Mapping :=
  if ms.length < 2 then ms
  else if group.length > maxGroup then ms
  else dedupKey (pruneKey keep group) [] ms

/-- Specification of a sound pruning, independent of how representatives are chosen: two
matches are *related* when they have a common image under the listed rule automorphisms. -/
def Related (keep : List Nat) (group : List Mapping) (m m' : Mapping) : Prop :=
  ∃ σ₁ ∈ group, ∃ σ₂ ∈ group, ∃ k, composeOn keep m σ₁ = some k ∧ composeOn keep m' σ₂ = some k

def relatedB (keep : List Nat) (group : List Mapping) (m m' : Mapping) : Bool :=
  group.any fun σ₁ =>
    match composeOn keep m σ₁ with
    | none => false
    | some k => group.any fun σ₂ => decide (composeOn keep m' σ₂ = some k)

/-- `kept` is an admissible outcome of pruning `raw`: a sub-list (order kept, nothing invented) in
which every raw match is present or related to a kept one.  How MUCH is pruned is left open. -/
def PruneSpec (keep : List Nat) (group : List Mapping) (raw kept : List Mapping) : Prop :=
  kept.Sublist raw ∧ ∀ m ∈ raw, m ∈ kept ∨ ∃ m' ∈ kept, Related keep group m m'

def pruneSpecB (keep : List Nat) (group : List Mapping) (raw kept : List Mapping) : Bool :=
  kept.isSublist raw && raw.all fun m => kept.contains m || kept.any (relatedB keep group m)

/-! ## Pruning of possibly PARTIAL matches, exactly as coded (`_prune_by_rule_automorphisms`)

`pruneByAut` above is the pruning the total-match theorems (C05, `C11.pruning_clause_model`) speak
about; it keys a match by the least image in NUMERIC order and totalises the two places where the
Python code raises.  The definitions below follow the code literally for match lists that may hold
partial matches (`SynReactor(partial=True)`, `PartialMatcher`: dicts that lack pattern nodes):

```
if len(matches) < 2: return list(matches)
... enumerate the group, `return list(matches)` as soon as it holds more than max_group elements ...
for m in matches:
    if any(p not in m for p in keep): unique.append(m); continue      -- a match that lacks a pattern node has NO key
    images = [tuple(sorted((repr(p), repr(m[s[p]])) for p in keep)) for s in group]   -- KeyError
    key = min(images)                                                                  -- ValueError on an empty group
    if key in seen: continue
    seen.add(key); unique.append(m)
```

* a match that lacks a pattern node is passed through unconditionally (no key is built for it, it is
  never compared with anything, it never enters `seen`);
* the key of a match that covers `keep` is the least, in the order of Python tuples of pairs of
  `repr` strings, of its images `p ↦ m[σ p]`, each image sorted by `(repr p, repr h)`; natural numbers
  are compared through their decimal digit strings (`"10" < "2"`);
* `m[s[p]]` raises `KeyError` when `σ p` is no key of a match that does cover `keep` (or `p` no key
  of `σ`), `min([])` raises `ValueError`: both are outcomes (`PruneRes`), not totalised away;
* `keep` is a Python set: the list `keep` is assumed duplicate-free.
-/

/-- Worker of `reprDigits` (fuel = an upper bound of the number of digits). -/
def digitsAux : Nat → Nat → List Nat → List Nat
  | 0, _, acc => acc
  | fuel + 1, n, acc => if n < 10 then n :: acc else digitsAux fuel (n / 10) (n % 10 :: acc)

/-- The decimal digits of `n`, most significant first: `repr(n)` character by character. -/
def reprDigits (n : Nat) : List Nat := digitsAux (n + 1) n []

/-- Python `<` on strings of digits (lexicographic, a proper prefix is smaller). -/
def strLt : List Nat → List Nat → Bool
  | [], [] => false
  | [], _ :: _ => true
  | _ :: _, [] => false
  | a :: as, b :: bs => if a < b then true else if b < a then false else strLt as bs

/-- Python `<` on the pairs `(repr p, repr h)`. -/
def reprPairLt (a b : Nat × Nat) : Bool :=
  if strLt (reprDigits a.1) (reprDigits b.1) then true
  else if strLt (reprDigits b.1) (reprDigits a.1) then false
  else strLt (reprDigits a.2) (reprDigits b.2)

/-- Python `<` on tuples of such pairs. -/
def reprKeyLt : Mapping → Mapping → Bool
  | [], [] => false
  | [], _ :: _ => true
  | _ :: _, [] => false
  | a :: as, b :: bs => if reprPairLt a b then true else if reprPairLt b a then false else reprKeyLt as bs

/-- Insert before the first element that is not smaller (stable insertion). -/
def insertRepr (x : Nat × Nat) : Mapping → Mapping
  | [] => [x]
  | y :: ys => if reprPairLt y x then y :: insertRepr x ys else x :: y :: ys

/-- `sorted(...)` of a list of `(repr p, repr h)` pairs. -/
def sortRepr : Mapping → Mapping
  | [] => []
  | x :: xs => insertRepr x (sortRepr xs)

/-- `min(best :: rest)` (the first least element). -/
def minKey : Mapping → List Mapping → Mapping
  | best, [] => best
  | best, y :: ys => minKey (if reprKeyLt y best then y else best) ys

/-- `not any(p not in m for p in keep)`. -/
def coversB (keep : List Nat) (m : Mapping) : Bool := keep.all fun p => (m.get? p).isSome

/-- What the loop body computes for one match. -/
inductive KeyRes
  | lacking                 -- the match lacks a pattern node: no key, kept
  | key (k : Mapping)
  | keyError                -- `m[s[p]]`
  | valueError              -- `min([])`
deriving Repr, DecidableEq

/-- The outcome of a call: the kept matches, or the exception the Python code raises. -/
inductive PruneRes
  | ok (kept : List Mapping)
  | keyError
  | valueError
deriving Repr, DecidableEq

/-- The key of one (possibly partial) match, exactly as the loop body computes it. -/
def keyP (keep : List Nat) (group : List Mapping) (m : Mapping) : KeyRes :=
  if coversB keep m then
    match mapOpt (composeOn keep m) group with
    | none => .keyError
    | some [] => .valueError
    | some (i :: is) => .key (minKey (sortRepr i) (is.map sortRepr))
  else .lacking

/-- `unique.append(m)` in front of what the rest of the loop yields. -/
def consOk (m : Mapping) : PruneRes → PruneRes
  | .ok r => .ok (m :: r)
  | e => e

/-- The loop over the matches (`seen`, `unique`); the first match whose key raises ends the call. -/
def dedupP (key : Mapping → KeyRes) : List Mapping → List Mapping → PruneRes
  | _, [] => .ok []
  | seen, m :: ms =>
    match key m with
    | .lacking => consOk m (dedupP key seen ms)
    | .keyError => .keyError
    | .valueError => .valueError
    | .key k => if seen.contains k then dedupP key seen ms else consOk m (dedupP key (k :: seen) ms)

/-- `_prune_by_rule_automorphisms(matches, rc, keep)` below the group-size bound; `group` is the list
of automorphisms of the rule restricted to `keep`, as enumerated by the caller. -/
def prunePartial (keep : List Nat) (group : List Mapping) (ms : List Mapping) : PruneRes :=
  if ms.length < 2 then .ok ms else dedupP (keyP keep group) [] ms

/-- `_prune_by_rule_automorphisms(matches, rc, keep, max_group=cap)`: with more than `cap`
automorphisms the matches come back unchanged (nothing is computed, nothing can raise). -/
def pruneWithCap (cap : Nat) (keep : List Nat) (group : List Mapping) (ms : List Mapping) : PruneRes :=
  if ms.length < 2 then .ok ms
  else if group.length > cap then .ok ms
  else dedupP (keyP keep group) [] ms

/-- `m.get(σ.get(p))`: the composite of two partial maps at `p`. -/
def pcomp (m σ : Mapping) (p : Nat) : Option Nat := (σ.get? p).bind fun q => m.get? q

/-- The pattern nodes on which `m ∘ σ` is defined (the pre-image of the domain of `m` under `σ`). -/
def domOn (keep : List Nat) (m σ : Mapping) : List Nat := keep.filter fun p => (pcomp m σ p).isSome

/-- Two possibly partial matches are *related* when they have a common image under the listed rule
automorphisms AS PARTIAL MAPS: `m ∘ σ₁ = m' ∘ σ₂` on `keep`, undefined at the same pattern nodes.  On
matches that cover `keep` this is `Related` (`prunePartial_total`). -/
def RelatedP (keep : List Nat) (group : List Mapping) (m m' : Mapping) : Prop :=
  ∃ σ₁ ∈ group, ∃ σ₂ ∈ group, ∀ p ∈ keep, pcomp m σ₁ p = pcomp m' σ₂ p

/-! ## The abstract reactor -/

/-- The stages of rule application as parameters.  `dir = true` is backward application. -/
structure Reactor (R : Type) where
  sel : Sel
  /-- prepared left-hand pattern of the (oriented) template -/
  pattern : Bool → LGraph → LGraph
  /-- sub-graph search: strategy, host, pattern -/
  search : Strategy → LGraph → LGraph → List Mapping
  /-- symmetry pruning: direction, template, raw matches -/
  prune : Bool → LGraph → List Mapping → List Mapping
  /-- glue + render one match: direction, host, template, match -/
  glue : Bool → LGraph → LGraph → Mapping → List R
  /-- "the same reaction" on results (isomorphism of ITS graphs / equal normalised SMILES) -/
  equiv : R → R → Prop

namespace Reactor
variable {R : Type} (X : Reactor R)

def kept (s : Strategy) (dir : Bool) (host T : LGraph) : List Mapping :=
  X.prune dir T (X.search s host (X.pattern dir T))

def results (s : Strategy) (dir : Bool) (host T : LGraph) : List R :=
  resultsOf (X.glue dir host T) (X.kept s dir host T)

def resultsUnpruned (s : Strategy) (dir : Bool) (host T : LGraph) : List R :=
  resultsOf (X.glue dir host T) (X.search s host (X.pattern dir T))

end Reactor

/-- Every element of `xs` has an equivalent in `ys`. -/
def SubsetMod {R : Type} (E : R → R → Prop) (xs ys : List R) : Prop := ∀ x ∈ xs, ∃ y ∈ ys, E x y

/-- Equal as sets modulo `E`. -/
def SetEqMod {R : Type} (E : R → R → Prop) (xs ys : List R) : Prop := SubsetMod E xs ys ∧ SubsetMod E ys xs

end SynKit.ReactorInv

import SynKitModel.Match
/-!
# C09 — reaction normal forms and equivalence checks (model)

Graph-level model of

* `CanonRSMI.canonicalise` (`synkit/Chem/Reaction/canon_rsmi.py`): canonical relabelling of the
  reactant graph (the labelling is the back-end's business and enters as a parameter; for a
  key-sorting back-end such as `_canon_wl` it is `pos (canonOrder key G)`), pairing of reactant and
  product nodes through the shared `atom_map` values (`get_aam_pairwise_indices`), fresh ids above the
  canonical ones for the product atoms without a reactant partner (`unpairedPairs`, repair 270bb6f),
  relabelling of the product (`remap_graph`), `sync_atom_map_with_index` on both;
* `AAMValidator.smiles_check` (`aam_validator.py`): ITS graph (or reaction centre) of both
  reactions, `nx.is_isomorphic` with `typesGH` on nodes and `order` on edges;
* `BalanceReactionCheck.rsmi_balance_check`: equality of the two sides' formulae
  (element table incl. hydrogens, total charge);
* `Standardize.fit`: split – canonical SMILES per fragment – sort – join – `[HH]` rewrite, over an
  opaque `canon`.

RDKit (SMILES parsing / printing, canonical SMILES, `CalcMolFormula`) is external: a molecule *is*
its atom / bond table (`LGraph`, node id = atom-map number, attributes `element`, `aromatic`,
`hcount`, `charge`, `neighbors`, `atom_map`; edge attribute `order`), and canonical SMILES is an
opaque function.  Iteration order of Python `set`s (node / edge union in the ITS construction) is
not modelled: every observable of C09 is compared up to isomorphism or as a set.
-/
namespace SynKit.RxnNorm
open SynKit SynKit.Match

/-! ## Attribute access -/

/-- `d.get(k, default)`. -/
def getOr (a : Attrs) (k : String) (d : Val) : Val :=
  match a.get k with
  | .none => d
  | v => v

/-- `data.get("atom_map", 0)` (half-units). -/
def atomMapOf (a : Attrs) : Int :=
  match a.get "atom_map" with
  | .num h => h
  | _ => 0

def setMap (n : Nat) (a : Attrs) : Attrs := Dict.set a "atom_map" (.num (2 * (n : Int)))

/-- `CanonRSMI.sync_atom_map_with_index`: every node's `atom_map` becomes its id. -/
def sync (G : LGraph) : LGraph := { G with nodes := G.nodes.map fun p => (p.1, setMap p.1 p.2) }

/-! ## Canonical order of a key-sorting canonicaliser -/

def insertBy {α : Type} (le : α → α → Bool) (x : α) : List α → List α
  | [] => [x]
  | y :: ys => if le x y then x :: y :: ys else y :: insertBy le x ys

/-- Stable insertion sort (Python `sorted`). -/
def sortBy {α : Type} (le : α → α → Bool) : List α → List α
  | [] => []
  | x :: xs => insertBy le x (sortBy le xs)

/-- `sorted(g, key=lambda n: (key[n], n))`: the node id is the final tie-breaker, as in
`_canon_wl` (`(colour[n], g.degree[n], n)`; `key` stands for the rank of the (colour, degree) pair). -/
def keyLe (key : Nat → Nat) (a b : Nat) : Bool := key a < key b || (key a == key b && a ≤ b)

def canonOrder (key : LGraph → Nat → Nat) (G : LGraph) : List Nat := sortBy (keyLe (key G)) G.ids

/-- `mapping = {old: i + 1 for i, old in enumerate(order)}`. -/
def pos (order : List Nat) (v : Nat) : Nat := order.idxOf v + 1

/-! ## `CanonRSMI.canonicalise` at graph level -/

inductive Err
  | emptyMap   -- `ValueError("node_map must be non-empty")`
  | missing    -- `KeyError`: a pair names a node that the product graph does not have
  | collision  -- relabelling is not injective on the product's nodes: NetworkX would merge nodes; not modelled
               -- (cannot happen on well-formed graphs with an injective back-end labelling: `canonRxnWith_unpaired_no_collision`)
deriving DecidableEq, Repr

/-- The dict `{data["atom_map"]: n for n, data in G.nodes(data=True) if data.get("atom_map", 0) > 0}`
read at key `k`: the *last* node carrying that value wins. -/
def aamLookup (G : LGraph) (k : Int) : Option Nat :=
  if k > 0 then (G.nodes.reverse.find? fun p => atomMapOf p.2 = k).map (·.1) else none

/-- `get_aam_pairwise_indices(G, H)`: `(G node, H node)` for every shared atom-map value (listed in
`G`'s node order; the code sorts them by map value, which has no effect on the dict built next). -/
def aamPairs (G H : LGraph) : List (Nat × Nat) :=
  G.nodes.filterMap fun p =>
    match aamLookup G (atomMapOf p.2), aamLookup H (atomMapOf p.2) with
    | some g, some h => some (g, h)
    | _, _ => none

/-- `mapping = {old: new for new, old in node_map}` applied as `mapping.get(n, n)`. -/
def pairMap (pairs : List (Nat × Nat)) (old : Nat) : Nat :=
  match pairs.reverse.find? (fun p => p.2 = old) with
  | some p => p.1
  | none => old

/-- `CanonRSMI.remap_graph(H, pairs)` (list-of-pairs branch). -/
def remapGraph (H : LGraph) (pairs : List (Nat × Nat)) : Except Err LGraph :=
  if pairs.isEmpty then .error .emptyMap
  else if pairs.any (fun p => !H.hasNode p.2) then .error .missing
  else
    let H' := H.relabel (pairMap pairs)
    if decide H'.ids.Nodup then .ok H' else .error .collision

/-- `CanonRSMI.remap_graph(H, node_map)`, list-of-int branch (`isinstance(node_map[0], int)`):
`mapping = {old: new for new, old in enumerate(node_map, start=1)}`, i.e. the pairs `(i + 1, node_map[i])`
through the same checks and relabelling as the list-of-pairs branch. -/
def remapGraphList (H : LGraph) (order : List Nat) : Except Err LGraph :=
  remapGraph H ((List.range' 1 order.length).zip order)

def natLe (a b : Nat) : Bool := decide (a ≤ b)

/-- The repair of F23 in `canonicalise`: product atoms without a reactant partner (`n not in paired`,
`paired = {old for _, old in mapping_pairs}`) get the fresh ids `max(Gc.nodes(), default=0) + 1, + 2, …`
in sorted order of their old ids; the result is the list `unpaired` of `(new, old)` pairs. -/
def unpairedPairs (Gc H : LGraph) (pairs : List (Nat × Nat)) : List (Nat × Nat) :=
  let olds := sortBy natLe (H.ids.filter fun n => !pairs.any fun p => p.2 == n)
  (List.range' (Gc.ids.foldl max 0 + 1) olds.length).zip olds

/-- `canonicalise` after `expand_aam` / `rsmi_to_graph`, for a back-end that relabels the reactant
graph by `lab`: `remap_graph(H, mapping_pairs + unpaired)`. -/
def canonRxnWith (lab : Nat → Nat) (G H : LGraph) : Except Err (LGraph × LGraph) :=
  let Gc := G.relabel lab
  let pairs := aamPairs Gc H
  match remapGraph H (pairs ++ unpairedPairs Gc H pairs) with
  | .error e => .error e
  | .ok Hc => .ok (sync Gc, sync Hc)

/-- … for a key-sorting back-end. -/
def canonRxn (key : LGraph → Nat → Nat) (G H : LGraph) : Except Err (LGraph × LGraph) :=
  canonRxnWith (pos (canonOrder key G)) G H

/-- A renumbering of a mapped reaction: node ids *and* `atom_map` values go through `π`. -/
def renumber (π : Nat → Nat) (R : LGraph × LGraph) : LGraph × LGraph :=
  (sync (R.1.relabel π), sync (R.2.relabel π))

/-- The input class of `canonicalise` the theorems speak about: both graphs well formed, the same
(non-empty, positive) set of atom-map numbers on both sides, `atom_map` attribute = node id. -/
def FullyMapped (G H : LGraph) : Prop :=
  G.WF ∧ H.WF ∧ G.nodes ≠ [] ∧ (∀ v ∈ G.ids, v ∈ H.ids) ∧ (∀ v ∈ H.ids, v ∈ G.ids) ∧
  (∀ p ∈ G.nodes, atomMapOf p.2 = 2 * (p.1 : Int)) ∧ (∀ p ∈ H.nodes, atomMapOf p.2 = 2 * (p.1 : Int)) ∧
  (∀ v ∈ G.ids, 0 < v)

instance (G H : LGraph) : Decidable (FullyMapped G H) := by unfold FullyMapped; infer_instance

/-! ## A minimal ITS graph and reaction centre (what the validator looks at) -/

/-- The tuple `(element, aromatic, hcount, charge, neighbors)` with `ITSConstruction`'s defaults. -/
def typesOf (a : Attrs) : Val :=
  .tup [getOr a "element" (.str "*"), getOr a "aromatic" (.bool false), getOr a "hcount" (.num 0),
        getOr a "charge" (.num 0), getOr a "neighbors" (.tup [.str "", .str ""])]

/-- `G[u][v].get("order", 0.0) if G.has_edge(u, v) else 0.0`. -/
def orderIn (G : LGraph) (u v : Nat) : Val :=
  match G.edge? u v with
  | some a => getOr a "order" (.num 0)
  | none => .num 0

/-- `o_g - o_h` when both are numbers. -/
def stdOrder : Val → Val → Val
  | .num a, .num b => .num (a - b)
  | _, _ => .none

def itsNodes (G H : LGraph) : List Nat := G.ids ++ H.ids.filter fun v => !G.ids.contains v

def itsEdgeKeys (G H : LGraph) : List (Nat × Nat) :=
  G.edges.map (fun e => (e.1, e.2.1)) ++ (H.edges.filter fun e => !G.hasEdge e.1 e.2.1).map (fun e => (e.1, e.2.1))

def itsNodeAttrs (G H : LGraph) (v : Nat) : Attrs :=
  [("typesGH", .tup [typesOf (G.attrs v), typesOf (H.attrs v)]),
   ("element", getOr (G.attrs v) "element" (.str "*"))]

def itsEdgeAttrs (G H : LGraph) (u v : Nat) : Attrs :=
  [("order", .tup [orderIn G u v, orderIn H u v]), ("standard_order", stdOrder (orderIn G u v) (orderIn H u v))]

/-- `ITSConstruction.ITSGraph(G, H)` reduced to what C09 reads: union of the nodes with the pair of
label tuples (`typesGH`) and the reactant-side element, union of the edges with the pair of orders
and their difference. -/
def itsOf (G H : LGraph) : LGraph :=
  { nodes := (itsNodes G H).map fun v => (v, itsNodeAttrs G H v)
    edges := (itsEdgeKeys G H).map fun uv => (uv.1, uv.2, itsEdgeAttrs G H uv.1 uv.2) }

/-- `_should_include_edge(std, …)` with `keep_mtg = False`: a number different from zero. -/
def changed (a : Attrs) : Bool :=
  match a.get "standard_order" with
  | .num d => d != 0
  | _ => false

def isH (I : LGraph) (v : Nat) : Bool := (I.attrs v).get "element" == .str "H"

/-- Edges `get_rc` keeps: changed bonds, and H–H bonds. -/
def rcKeep (I : LGraph) (e : Nat × Nat × Attrs) : Bool := changed e.2.2 || (isH I e.1 && isH I e.2.1)

/-- `get_rc(I)` (defaults): the kept edges and their end points (node attributes of the minimal ITS
are all among the copied keys; `is_mtg` is not modelled). -/
def rcOf (I : LGraph) : LGraph :=
  { nodes := I.nodes.filter fun p => (I.edges.filter (rcKeep I)).any fun e => e.1 == p.1 || e.2.1 == p.1
    edges := I.edges.filter (rcKeep I) }

inductive Method | its | rc
deriving DecidableEq, Repr

def view (m : Method) (R : LGraph × LGraph) : LGraph :=
  match m with
  | .its => itsOf R.1 R.2
  | .rc => rcOf (itsOf R.1 R.2)

/-- `generic_node_match(["typesGH"], …)`, `generic_edge_match("order", 1, eq)`. -/
def itsSel : Sel := { nodeKeys := ["typesGH"], edgeKeys := ["order"], hcountRule := false }

/-- `AAMValidator.smiles_check(mapped, truth, method)` on parsed reactions:
`nx.is_isomorphic(view mapped, view truth)`. -/
def aamCheck (m : Method) (R₁ R₂ : LGraph × LGraph) : Bool := isoDecide itsSel (view m R₁) (view m R₂)

/-! ## Balance check -/

def elemOf (a : Attrs) : String :=
  match a.get "element" with
  | .str s => s
  | _ => "*"

def intOf (a : Attrs) (k : String) : Int :=
  match a.get k with
  | .num h => h / 2
  | _ => 0

/-- All atoms of a side, hydrogens written out. -/
def atomsOf (G : LGraph) : List String :=
  G.nodes.flatMap fun p => elemOf p.2 :: List.replicate (intOf p.2 "hcount").toNat "H"

def chargeOf (G : LGraph) : Int := (G.nodes.map fun p => intOf p.2 "charge").sum

def insertDedup (x : String) : List String → List String
  | [] => [x]
  | y :: ys => if x < y then x :: y :: ys else if x = y then y :: ys else y :: insertDedup x ys

/-- Sorted list of the distinct elements. -/
def sortDedup : List String → List String
  | [] => []
  | x :: xs => insertDedup x (sortDedup xs)

/-- The information content of `CalcMolFormula`: element table (sorted by symbol; Hill order is
only presentation) and total charge. -/
def formula (G : LGraph) : List (String × Nat) × Int :=
  ((sortDedup (atomsOf G)).map fun e => (e, (atomsOf G).count e), chargeOf G)

/-- `rsmi_balance_check`: the two formulae are equal. -/
def balanced (G H : LGraph) : Bool := decide (formula G = formula H)

/-! ## `Standardize.fit` over an opaque `canon` -/

def strLe (a b : String) : Bool := decide (a ≤ b)

/-- One side: `sorted(MolToSmiles(m) for m in fragments)`, then the `[HH]` rewrite (`post`) on the
joined string, i.e. on every fragment. -/
def stdSide {M : Type} (canon : M → String) (post : String → String) (frags : List M) : List String :=
  (sortBy strLe (frags.map canon)).map post

/-- `Standardize.fit` on a reaction given as two lists of fragments (splitting at `.` and parsing
are RDKit's). -/
def standardize {M : Type} (canon : M → String) (post : String → String) (R : List M × List M) :
    List String × List String :=
  (stdSide canon post R.1, stdSide canon post R.2)

end SynKit.RxnNorm

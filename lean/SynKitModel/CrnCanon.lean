import SynKitModel.Graph
/-!
# C18 — reaction-network views, directed isomorphisms, automorphism data, canonical forms

Model of what `synkit/CRN/Topo/canon.py` (`CRNCanonicalizer`), `synkit/CRN/Topo/automorphism.py`
(`CRNAutomorphism`) and `synkit/CRN/Hypergraph/backend.py` / `conversion.py` compute, at the level
the property speaks about:

* the two **views** of a network as directed attribute graphs (`viewBip`, `viewSpecies`), built
  the way `hypergraph_to_bipartite(species_prefix=None, reaction_prefix=None)` and
  `hypergraph_to_species_graph` build them (node attributes `bipartite`/`label`/`kind`, arc
  attributes `stoich`/`role`, resp. `via`/`rules`/`stoich_r`/`stoich_p`/`stoich_r_map`/`stoich_p_map`);
* the **specification** of a structure-preserving map between directed attribute graphs
  (`IsIsoF` on functions, `IsIsoD` on mapping lists) with the node / arc closures the analysers
  are configured with (`SelD`: `node_attr_keys`, `edge_attr_keys`; `.get` semantics, absent = `None`);
* a **proven back-tracking enumerator** `allIsoD` (directed counterpart of `Match.allInduced`),
  `isoDecideD`, `autsD`, `autCountD`;
* **orbits**: `orbitOf` (image of a node under all automorphisms), `orbitsD`, and the union–find
  merging `orbitsUF` that `_orbits_from_perms` / `_compute_orbits_from_mappings` perform;
* the **canonical graph for a given order** `canonBy G perm` (`nx.relabel_nodes(G, {v: i+1})`, the
  permutation found by the IR search is an external parameter) and the specification-level exact
  canonical form `canonBruteD` (minimum serialisation over all node orders).

Node ids are `Nat` (the Python adapter interns the string ids of the views).  Numbers travel in
half-units (`Val.num (2*c)` is the integer `c`).
-/
namespace SynKit.CrnCanon
open SynKit

/-! ## Networks and their two views -/

/-- One reaction: id, rule label, and both sides as `species index ↦ coefficient` in dict order. -/
structure Rxn where
  id : String
  rule : String
  reactants : List (Nat × Nat)
  products : List (Nat × Nat)
deriving Repr, DecidableEq, Inhabited

/-- A network: species `i` has label `labels[i]` (listed as `sorted(H.species)`), reactions as
`sorted(H.edges.items())`. -/
structure Net where
  labels : List String
  rxns : List Rxn
deriving Repr, DecidableEq, Inhabited

/-- What `RXNSide` / `add_rxn` guarantee: known species, positive coefficients, each species at
most once per side, no empty reaction, distinct reaction ids. -/
def Net.WF (N : Net) : Prop :=
  (∀ r ∈ N.rxns, (∀ sc ∈ r.reactants ++ r.products, sc.1 < N.labels.length ∧ 0 < sc.2) ∧
      (r.reactants.map (·.1)).Nodup ∧ (r.products.map (·.1)).Nodup ∧ r.reactants ++ r.products ≠ []) ∧
  (N.rxns.map (·.id)).Nodup

instance (N : Net) : Decidable N.WF := by unfold Net.WF; infer_instance

/-- The integer `n` as an attribute value (half-units). -/
def natVal (n : Nat) : Val := .num (2 * (n : Int))

def spAttrsBip (l : String) : Attrs := [("bipartite", natVal 0), ("label", .str l), ("kind", .str "species")]
def rxAttrsBip (rule : String) : Attrs := [("bipartite", natVal 1), ("label", .str rule), ("kind", .str "reaction")]

/-- `attrs = {}; if include_stoich: attrs["stoich"] = int(c); attrs["role"] = role`. -/
def arcAttrsBip (stoich : Bool) (c : Nat) (role : String) : Attrs :=
  (if stoich then [("stoich", natVal c)] else []) ++ [("role", .str role)]

/-- Bipartite view species → reaction → species (`include_rule=True`).  Species `i` is node `i`,
reaction `j` is node `nS + j` — the *intended* view, in which species and reaction nodes are
disjoint (the un-prefixed string ids of the implementation collide when a species label equals a
reaction id: finding F19). -/
def viewBip (stoich : Bool) (N : Net) : LGraph :=
  let nS := N.labels.length
  { nodes := (N.labels.zipIdx.map fun li => (li.2, spAttrsBip li.1)) ++
             (N.rxns.zipIdx.map fun rj => (nS + rj.2, rxAttrsBip rj.1.rule))
    edges := N.rxns.zipIdx.flatMap fun rj =>
      (rj.1.reactants.map fun sc => (sc.1, nS + rj.2, arcAttrsBip stoich sc.2 "reactant")) ++
      (rj.1.products.map fun sc => (nS + rj.2, sc.1, arcAttrsBip stoich sc.2 "product")) }

/-- Aggregated arc of the collapsed species graph. -/
structure SArc where
  u : Nat
  v : Nat
  via : List String
  rules : List String
  sr : Nat
  sp : Nat
  srMap : Dict Nat
  spMap : Dict Nat
deriving Repr, DecidableEq

/-- One `(r, p)` pair of one reaction: update the existing arc (sets grow, per-id maps are set,
legacy values keep the minimum) or add a new one. -/
def addPair (arcs : List SArc) (eid rule : String) (r rc p pc : Nat) : List SArc :=
  if arcs.any (fun a => a.u = r ∧ a.v = p) then
    arcs.map fun a =>
      if a.u = r ∧ a.v = p then
        { a with via := setAdd a.via eid, rules := setAdd a.rules rule,
                 srMap := Dict.set a.srMap eid rc, spMap := Dict.set a.spMap eid pc,
                 sr := min a.sr rc, sp := min a.sp pc }
      else a
  else arcs ++ [{ u := r, v := p, via := [eid], rules := [rule], sr := rc, sp := pc,
                  srMap := [(eid, rc)], spMap := [(eid, pc)] }]

def speciesArcs (N : Net) : List SArc :=
  N.rxns.foldl (fun arcs e =>
    e.reactants.foldl (fun arcs rc =>
      e.products.foldl (fun arcs pc => addPair arcs e.id e.rule rc.1 rc.2 pc.1 pc.2) arcs) arcs) []

def strTup (xs : List String) : Val := .tup (xs.map Val.str)
def mapTup (d : Dict Nat) : Val := .tup (d.map fun kv => .tup [.str kv.1, natVal kv.2])

def SArc.attrs (a : SArc) : Attrs :=
  [("via", strTup a.via), ("rules", strTup a.rules), ("stoich_r", natVal a.sr), ("stoich_p", natVal a.sp),
   ("stoich_r_map", mapTup a.srMap), ("stoich_p_map", mapTup a.spMap)]

/-- Collapsed species → species view (`include_rule=False`); sets and per-id maps are listed in
insertion order (they are compared as sets / dicts by the harness). -/
def viewSpecies (N : Net) : LGraph :=
  { nodes := N.labels.zipIdx.map fun li => (li.2, [("label", .str li.1), ("kind", .str "species")])
    edges := (speciesArcs N).map fun a => (a.u, a.v, a.attrs) }

/-- `_CRNGraphBackend._build_graph`. -/
def viewOf (includeRule stoich : Bool) (N : Net) : LGraph :=
  if includeRule then viewBip stoich N else viewSpecies N

/-- `N'` is `N` up to names: species renamed by an injective index map `σ` (labels are free),
every reaction kept with its rule and its two sides (as multisets of `species ↦ coefficient`,
in any dict order), reactions listed in any order, reaction ids free. -/
def SameUpToNames (N N' : Net) : Prop :=
  N'.labels.length = N.labels.length ∧
  ∃ σ : Nat → Nat,
    (∀ i < N.labels.length, σ i < N.labels.length) ∧
    (∀ i < N.labels.length, ∀ j < N.labels.length, σ i = σ j → i = j) ∧
    ∃ rs : List Rxn, rs.Perm N'.rxns ∧ rs.length = N.rxns.length ∧
      ∀ rr ∈ N.rxns.zip rs, rr.2.rule = rr.1.rule ∧
        rr.2.reactants.Perm (rr.1.reactants.map fun sc => (σ sc.1, sc.2)) ∧
        rr.2.products.Perm (rr.1.products.map fun sc => (σ sc.1, sc.2))

/-! ## Structure-preserving maps of directed attribute graphs -/

abbrev Mapping := List (Nat × Nat)

/-- The function a mapping list denotes (first pair with the given source; 0 when absent). -/
def app (m : Mapping) (p : Nat) : Nat :=
  match m.find? (fun ph => ph.1 = p) with
  | some ph => ph.2
  | none => 0

/-- `node_attr_keys` / `edge_attr_keys` the analyser is configured with. -/
structure SelD where
  nodeKeys : List String
  edgeKeys : List String
deriving Repr, DecidableEq

/-- Node closure: `all(a1.get(k) == a2.get(k) for k in node_attr_keys)`. -/
def nodeOkD (sel : SelD) (ha pa : Attrs) : Bool := sel.nodeKeys.all fun k => ha.get k = pa.get k

/-- Arc closure on a pair of directed lookups: both absent, or both present with equal selected
attributes (`.get` semantics). -/
def arcOkD (sel : SelD) : Option Attrs → Option Attrs → Bool
  | none, none => true
  | some a, some b => sel.edgeKeys.all fun k => a.get k = b.get k
  | _, _ => false

/-- Directed well-formedness (what a NetworkX `DiGraph` guarantees): node ids distinct, arcs join
existing nodes.  Self-loops are allowed (a catalyst gives `A → A` in the species view). -/
def WFD (g : LGraph) : Prop := g.ids.Nodup ∧ ∀ e ∈ g.edges, e.1 ∈ g.ids ∧ e.2.1 ∈ g.ids

instance (g : LGraph) : Decidable (WFD g) := by unfold WFD; infer_instance

/-- **Specification.** `f` is a structure-preserving map of `P` onto `H`: injective on the nodes
of `P`, into the nodes of `H`, equally many nodes (hence a bijection when ids are distinct),
selected node attributes equal, and for *every ordered pair* of nodes (including `p = q`, i.e.
self-loops) the arc `p → q` and the arc `f p → f q` are both absent or both present with equal
selected attributes. -/
structure IsIsoF (sel : SelD) (H P : LGraph) (f : Nat → Nat) : Prop where
  inj : ∀ p ∈ P.ids, ∀ q ∈ P.ids, f p = f q → p = q
  mem : ∀ p ∈ P.ids, f p ∈ H.ids
  size : H.ids.length = P.ids.length
  node : ∀ p ∈ P.ids, nodeOkD sel (H.attrs (f p)) (P.attrs p) = true
  arc : ∀ p ∈ P.ids, ∀ q ∈ P.ids, arcOkD sel (H.arc? (f p) (f q)) (P.arc? p q) = true

/-- The same on mapping lists: `m` lists the nodes of `P` in `P`'s node order, each with its
image, and the function it denotes is structure preserving. -/
def IsIsoD (sel : SelD) (H P : LGraph) (m : Mapping) : Prop :=
  m.map (·.1) = P.ids ∧ IsIsoF sel H P (app m)

/-- Can `p ↦ h` extend the partial assignment `acc` (most recent first)?  Injectivity, node
closure, the self-loop pair, and both ordered pairs with every assigned node. -/
def extendOkD (sel : SelD) (H P : LGraph) (acc : Mapping) (p h : Nat) : Bool :=
  !(acc.any (·.2 = h)) && nodeOkD sel (H.attrs h) (P.attrs p) &&
  arcOkD sel (H.arc? h h) (P.arc? p p) &&
  acc.all fun qh => arcOkD sel (H.arc? h qh.2) (P.arc? p qh.1) && arcOkD sel (H.arc? qh.2 h) (P.arc? qh.1 p)

/-- Generic back-tracking: assign the pattern nodes `ps` one by one to hosts from `hs`. The
accumulator holds the assignment most recent first. -/
def extendG (ok : Mapping → Nat → Nat → Bool) (hs : List Nat) : List Nat → Mapping → List Mapping
  | [], acc => [acc]
  | p :: ps, acc => hs.flatMap fun h => if ok acc p h then extendG ok hs ps ((p, h) :: acc) else []

/-- All structure-preserving maps of `P` onto `H` (directed VF2 `isomorphisms_iter`). -/
def allIsoD (sel : SelD) (H P : LGraph) : List Mapping :=
  if H.ids.length = P.ids.length then (extendG (extendOkD sel H P) H.ids P.ids []).map List.reverse else []

def isoDecideD (sel : SelD) (H P : LGraph) : Bool := !(allIsoD sel H P).isEmpty

/-- Structure-preserving self-maps of a view. -/
def autsD (sel : SelD) (G : LGraph) : List Mapping := allIsoD sel G G

/-- `automorphism_count`. -/
def autCountD (sel : SelD) (G : LGraph) : Nat := (autsD sel G).length

/-! ## Orbits -/

/-- Nodes `v` with `σ u = v` for some automorphism `σ`, in node order. -/
def orbitOf (sel : SelD) (G : LGraph) (u : Nat) : List Nat :=
  G.ids.filter fun v => (autsD sel G).any fun σ => app σ u = v

/-- Keep the first occurrence of every class. -/
def dedupL : List (List Nat) → List (List Nat)
  | [] => []
  | c :: cs => c :: (dedupL cs).filter (· != c)

/-- The orbit partition: the distinct orbits, in order of first appearance. -/
def orbitsD (sel : SelD) (G : LGraph) : List (List Nat) := dedupL (G.ids.map (orbitOf sel G))

/-- `orbitsD` with the automorphism list computed once (what the driver evaluates; equal to
`orbitsD` by unfolding, theorem `orbitsFast_eq`). -/
def orbitsFast (sel : SelD) (G : LGraph) : List (List Nat) :=
  let auts := autsD sel G
  dedupL (G.ids.map fun u => G.ids.filter fun v => auts.any fun σ => app σ u = v)

/-- Two nodes lie in a common class of a list of classes. -/
def SameClass (P : List (List Nat)) (u v : Nat) : Prop := ∃ c ∈ P, u ∈ c ∧ v ∈ c

/-- A list of classes is a partition of `ids`: no empty class, every class inside `ids`, every
id in a class, and two classes that share a node are the same entry of the list. -/
def IsPartition (P : List (List Nat)) (ids : List Nat) : Prop :=
  (∀ c ∈ P, c ≠ [] ∧ ∀ x ∈ c, x ∈ ids) ∧ (∀ u ∈ ids, ∃ c ∈ P, u ∈ c) ∧
  P.Pairwise (fun c d => ∀ x, x ∈ c → x ∉ d)

/-- Class of `x` in a partition (singleton when absent). -/
def findCls (p : List (List Nat)) (x : Nat) : List Nat :=
  match p.find? (·.contains x) with
  | some c => c
  | none => [x]

/-- `union(x, y)` of the union–find / `merge(i, j)` of `_orbits_from_perms` on a partition kept as
a list of classes. -/
def unionCls (p : List (List Nat)) (x y : Nat) : List (List Nat) :=
  let cx := findCls p x
  if cx.contains y then p
  else (cx ++ findCls p y) :: p.filter fun c => !(c.contains x) && !(c.contains y)

/-- Union–find orbits as both analysers compute them: start from singletons, merge `src` with
`dst` for every pair of every automorphism consumed. -/
def orbitsUF (ids : List Nat) (maps : List Mapping) : List (List Nat) :=
  maps.foldl (fun p m => m.foldl (fun p sd => unionCls p sd.1 sd.2) p) (ids.map fun v => [v])

/-! ## Canonical graph for a given order; brute-force canonical form -/

/-- `mapping = {v: i + 1 for i, v in enumerate(perm)}` for a duplicate-free `perm`. -/
def posOf (perm : List Nat) (v : Nat) : Nat := perm.idxOf v + 1

/-- `nx.relabel_nodes(G, mapping, copy=True)`: node order, arc order and all attributes kept. -/
def canonBy (G : LGraph) (perm : List Nat) : LGraph := G.relabel (posOf perm)

/-- `perm` lists every node exactly once. -/
def IsOrder (G : LGraph) (perm : List Nat) : Prop := perm.Nodup ∧ ∀ v, v ∈ perm ↔ v ∈ G.ids

instance (G : LGraph) (perm : List Nat) : Decidable (IsOrder G perm) :=
  decidable_of_iff (perm.Nodup ∧ (∀ v ∈ perm, v ∈ G.ids) ∧ (∀ v ∈ G.ids, v ∈ perm))
    ⟨fun ⟨h1, h2, h3⟩ => ⟨h1, fun v => ⟨h2 v, h3 v⟩⟩, fun ⟨h1, h2⟩ => ⟨h1, fun v hv => (h2 v).1 hv, fun v hv => (h2 v).2 hv⟩⟩

mutual
/-- Injective, prefix-free coding of attribute values by lists of naturals. -/
def codeVal : Val → List Nat
  | .none => [0]
  | .num h => [1, if h < 0 then 1 else 0, h.natAbs]
  | .str s => 2 :: s.toList.length :: s.toList.map Char.toNat
  | .bool b => [3, if b then 1 else 0]
  | .tup xs => 4 :: xs.length :: codeVals xs
def codeVals : List Val → List Nat
  | [] => []
  | x :: xs => codeVal x ++ codeVals xs
end

/-- Selected node attributes of `v` as one value. -/
def nodeVal (sel : SelD) (G : LGraph) (v : Nat) : Val := .tup (sel.nodeKeys.map (G.attrs v).get)

/-- The ordered pair `u → v` as one value: `None` when there is no arc, else the selected arc
attributes. -/
def arcVal (sel : SelD) (G : LGraph) (u v : Nat) : Val :=
  match G.arc? u v with
  | none => .none
  | some a => .tup [.tup (sel.edgeKeys.map a.get)]

/-- The graph read in the node order `perm`: the row of node values and the full matrix of
ordered pairs (diagonal included). -/
def formD (sel : SelD) (G : LGraph) (perm : List Nat) : Val :=
  .tup [.tup (perm.map (nodeVal sel G)), .tup (perm.map fun u => .tup (perm.map fun v => arcVal sel G u v))]

def serD (sel : SelD) (G : LGraph) (perm : List Nat) : List Nat := codeVal (formD sel G perm)

/-- Lexicographic `≤` on codes. -/
def lexLe : List Nat → List Nat → Bool
  | [], _ => true
  | _ :: _, [] => false
  | a :: as, b :: bs => a < b || (a == b && lexLe as bs)

/-- Minimum of a list of codes (`[]` for the empty list). -/
def minList : List (List Nat) → List Nat
  | [] => []
  | x :: xs => xs.foldl (fun m y => if lexLe m y then m else y) x

/-- All ways to insert `x` into a list. -/
def insertAll (x : Nat) : List Nat → List (List Nat)
  | [] => [[x]]
  | y :: ys => (x :: y :: ys) :: (insertAll x ys).map (y :: ·)

/-- All orders (permutations) of a list. -/
def perms : List Nat → List (List Nat)
  | [] => [[]]
  | x :: xs => (perms xs).flatMap (insertAll x)

/-- **Specification-level canonical form**: the least serialisation over all node orders. -/
def canonBruteD (sel : SelD) (G : LGraph) : List Nat := minList ((perms G.ids).map (serD sel G))

/-! ## Decidable versions of the specifications (used by the driver's `spec.*` commands) -/

def isIsoFBool (sel : SelD) (H P : LGraph) (f : Nat → Nat) : Bool :=
  (P.ids.all fun p => P.ids.all fun q => f p != f q || p == q) &&
  (P.ids.all fun p => H.ids.contains (f p)) &&
  (H.ids.length == P.ids.length) &&
  (P.ids.all fun p => nodeOkD sel (H.attrs (f p)) (P.attrs p)) &&
  (P.ids.all fun p => P.ids.all fun q => arcOkD sel (H.arc? (f p) (f q)) (P.arc? p q))

def isIsoDBool (sel : SelD) (H P : LGraph) (m : Mapping) : Bool :=
  (m.map (·.1) == P.ids) && isIsoFBool sel H P (app m)

end SynKit.CrnCanon
